(** C07 -- lemmas about the exporter model (Raw/RawGdsExport.v) against the specification
    Raw/RawGdsExportSpec.v: label placement, shape export (paths stay open, polygons are closed once),
    the unit tables, the layer/purpose number mapping.  The composition with the importer model
    (Raw/RawGds.v) is in Raw/RawGdsRoundtrip_proofs.v. *)
From Coq Require Import ZArith List String Bool Lia.
From L21 Require Import Base.Outcome Base.F64 Raw.RawData Raw.RawGdsExport Raw.RawGdsExportSpec.
From L21 Require Gds.GdsData Geom.Contains Geom.ContainsSpec.
Import ListNotations.
Local Open Scope Z_scope.

(** * Label placement: rectangles and paths (arithmetic, truncating division) *)
Ltac Zify.zify_post_hook ::= Z.quot_rem_to_equations.
Lemma quot2_between a b : Z.min a b <= Z.quot (a + b) 2 <= Z.max a b.
Proof.
  lia.
Qed.

Lemma half_sum_ok a b m : half_sum a b = Ok m -> Z.min a b <= m <= Z.max a b.
Proof.
  unfold half_sum, i64c. destruct (i64_okb (a + b)); cbn; [|discriminate].
  intros [= <-]. apply quot2_between.
Qed.

Lemma half_sum_same a m : half_sum a a = Ok m -> m = a.
Proof. intros H. apply half_sum_ok in H. lia. Qed.

Lemma rect_label_inside cfg p0 p1 p :
  label_location cfg (Rect p0 p1) = Ok p -> in_region_shape (Rect p0 p1) p.
Proof.
  cbn [label_location]. unfold rect_center.
  destruct (half_sum (px p0) (px p1)) as [x| | |] eqn:Hx; cbn; try discriminate.
  destruct (half_sum (py p0) (py p1)) as [y| | |] eqn:Hy; cbn; try discriminate.
  intros [= <-]. apply half_sum_ok in Hx, Hy.
  unfold in_region_shape, CS.in_box, spt, CS.px, CS.py; cbn. lia.
Qed.

Lemma path_label_inside cfg ps w p :
  label_location cfg (Path ps w) = Ok p -> manhattanb ps = true ->
  in_region_shape (Path ps w) p.
Proof.
  cbn [label_location]. unfold path_label.
  destruct ps as [|p0 [|p1 r]]; try discriminate.
  destruct (half_sum (px p0) (px p1)) as [x| | |] eqn:Hx; cbn; try discriminate.
  destruct (half_sum (py p0) (py p1)) as [y| | |] eqn:Hy; cbn; try discriminate.
  intros [= <-] Hm.
  cbn [manhattanb] in Hm. apply andb_prop in Hm as [Hm _]. apply orb_prop in Hm.
  exists (spt p0, spt p1). split; [cbn; left; reflexivity|].
  left. unfold CS.on_seg, CS.in_seg_box, CS.cross, spt, CS.px, CS.py; cbn.
  pose proof (half_sum_ok _ _ _ Hx) as Bx. pose proof (half_sum_ok _ _ _ Hy) as By.
  destruct Hm as [E|E]; apply Z.eqb_eq in E.
  - rewrite E in Hx. apply half_sum_same in Hx. subst x. rewrite E. split; [ring|lia].
  - rewrite E in Hy. apply half_sum_same in Hy. subst y. rewrite E. split; [ring|lia].
Qed.

(** * Label placement: polygons; shape export *)
Ltac obind_inv H :=
  match type of H with
  | obind ?x _ = Ok _ => let E := fresh "E" in destruct x eqn:E; cbn [obind] in H; try discriminate H
  end.

Lemma first_containing_sound orig ps cands p :
  first_containing orig ps cands = Ok p -> poly_contains_v orig ps p = Ok true.
Proof.
  induction cands as [|q r IH]; cbn [first_containing]; [discriminate|].
  intros H. obind_inv H. destruct a; [injection H as <-; exact E|exact (IH H)].
Qed.

Lemma poly_label_sound orig ps p :
  poly_label orig ps = Ok p -> poly_contains_v orig ps p = Ok true.
Proof.
  unfold poly_label. intros H. obind_inv H. obind_inv H.
  destruct a0.
  - injection H as <-. exact E0.
  - destruct ps as [|p0 r]; [discriminate|].
    do 4 obind_inv H. eapply first_containing_sound; exact H.
Qed.

(* export_points *)
Definition gp (p : point) : GdsData.point := GdsData.mkPt (px p) (py p).
Lemma export_point_ok p : point_i32b p = true -> export_point p = Ok (gp p).
Proof. unfold export_point, point_i32b. intros ->. reflexivity. Qed.
Lemma export_point_inv p q : export_point p = Ok q -> q = gp p /\ point_i32b p = true.
Proof. unfold export_point, point_i32b. destruct (_ && _); [|discriminate]. intros [= <-]. split; reflexivity. Qed.
Lemma export_points_ok ps : forallb point_i32b ps = true -> export_points ps = Ok (map gp ps).
Proof.
  induction ps as [|p r IH]; cbn; [reflexivity|].
  intros H. apply andb_prop in H as [H1 H2]. rewrite (export_point_ok _ H1), (IH H2). reflexivity.
Qed.
Lemma export_points_inv ps qs : export_points ps = Ok qs -> qs = map gp ps /\ forallb point_i32b ps = true.
Proof.
  revert qs; induction ps as [|p r IH]; cbn; intros qs H.
  - injection H as <-. split; reflexivity.
  - obind_inv H. obind_inv H. injection H as <-.
    apply export_point_inv in E as [-> E]. destruct (IH _ eq_refl) as [-> E1]. rewrite E, E1. split; reflexivity.
Qed.

(* path stays open *)
Lemma path_stays_open ps w spec g :
  export_shape xcfg_fixed (Path ps w) spec = Ok g ->
  g = GdsData.EPath (GdsData.mkPath (fst spec) (snd spec) (map gp ps) (Some w) None None None None None []).
Proof.
  cbn [export_shape x_path_close xcfg_fixed]. intros H. obind_inv H. cbn [obind] in H.
  apply export_points_inv in E as [-> _].
  destruct (i32_okb w); [|discriminate]. injection H as <-. reflexivity.
Qed.
Lemma path_open_orig_refuted :
  exists ps w spec xy, export_shape xcfg_orig (Path ps w) spec = Ok (mk_path spec xy w) /\ xy <> map gp ps.
Proof.
  exists [mkpt 0 0; mkpt 10 0; mkpt 10 10], 2, (5, 0),
         [GdsData.mkPt 0 0; GdsData.mkPt 10 0; GdsData.mkPt 10 10; GdsData.mkPt 0 0].
  split; [vm_compute; reflexivity|discriminate].
Qed.

Lemma polygon_closed_once cfg p0 ps spec g :
  export_shape cfg (Polygon (p0 :: ps)) spec = Ok g ->
  g = GdsData.EBoundary (GdsData.mkBoundary (fst spec) (snd spec) (map gp (p0 :: ps) ++ [gp p0]) None None []).
Proof.
  cbn [export_shape]. intros H. obind_inv H. obind_inv H.
  apply export_points_inv in E as [-> _]. apply export_point_inv in E0 as [-> _].
  injection H as <-. reflexivity.
Qed.
Lemma rect_closed_once cfg p0 p1 spec g :
  export_shape cfg (Rect p0 p1) spec = Ok g ->
  g = GdsData.EBoundary (GdsData.mkBoundary (fst spec) (snd spec)
        [gp p0; GdsData.mkPt (px p1) (py p0); gp p1; GdsData.mkPt (px p0) (py p1); gp p0] None None []).
Proof.
  cbn [export_shape]. destruct (_ && _); [|discriminate]. intros [= <-]. reflexivity.
Qed.

(** * Layer tables *)
Lemma layerspec_resolve ly k p nx :
  export_layerspec ly k p = Ok nx <-> resolve_lp ly k p = Some nx.
Proof.
  unfold export_layerspec, resolve_lp.
  destruct (ly_get ly k) as [l|]; [|split; discriminate].
  destruct (layer_pnum l p) as [x|]; [|split; discriminate].
  split; intros [= <-]; reflexivity.
Qed.

(* find_last facts *)
Lemma find_last_some {A} (f : A -> bool) l x : find_last f l = Some x -> In x l /\ f x = true.
Proof.
  induction l as [|y r IH]; cbn; [discriminate|].
  destruct (find_last f r) as [z|] eqn:E.
  - intros [= <-]. destruct (IH eq_refl) as [H1 H2]. split; [right; exact H1|exact H2].
  - destruct (f y) eqn:F; [|discriminate]. intros [= <-]. split; [left; reflexivity|exact F].
Qed.
Lemma find_last_none {A} (f : A -> bool) l : find_last f l = None -> forall x, In x l -> f x = false.
Proof.
  induction l as [|y r IH]; cbn; [tauto|].
  destruct (find_last f r) as [z|] eqn:E; [discriminate|].
  destruct (f y) eqn:F; [discriminate|]. intros _ x [<-|H]; [exact F|apply IH; [reflexivity|exact H]].
Qed.
Lemma find_last_app_hit {A} (f : A -> bool) l x : f x = true -> find_last f (l ++ [x]) = Some x.
Proof.
  intros F. induction l as [|y r IH]; cbn; [rewrite F; reflexivity|rewrite IH; reflexivity].
Qed.
Lemma find_last_app_miss {A} (f : A -> bool) l x : f x = false -> find_last f (l ++ [x]) = find_last f l.
Proof.
  intros F. induction l as [|y r IH]; cbn; [rewrite F; reflexivity|rewrite IH; reflexivity].
Qed.

Lemma keynum_some ly n k : ly_keynum ly n = Some k -> exists l, nth_error ly k = Some l /\ l_num l = n.
Proof.
  revert k; induction ly as [|l r IH]; cbn; [discriminate|]. intros k.
  destruct (ly_keynum r n) as [k'|] eqn:E.
  - intros [= <-]. cbn. apply IH. reflexivity.
  - destruct (l_num l =? n) eqn:F; [|discriminate]. intros [= <-]. exists l. split; [reflexivity|apply Z.eqb_eq; exact F].
Qed.
Lemma keynum_none ly n : ly_keynum ly n = None -> forall k l, nth_error ly k = Some l -> l_num l <> n.
Proof.
  induction ly as [|l0 r IH]; cbn; intros H k l Hk; [destruct k; discriminate|].
  destruct (ly_keynum r n) as [k'|] eqn:E; [discriminate|].
  destruct (l_num l0 =? n) eqn:F; [discriminate|].
  destruct k as [|k]; cbn in Hk.
  - injection Hk as <-. apply Z.eqb_neq. exact F.
  - eapply IH; [reflexivity|exact Hk].
Qed.

Lemma nth_list_set_same {A} (l : list A) k x y : nth_error l k = Some y -> nth_error (list_set l k x) k = Some x.
Proof.
  revert k; induction l as [|z r IH]; intros [|k]; cbn; try discriminate; [reflexivity|apply IH].
Qed.
Lemma nth_list_set_other {A} (l : list A) k j x : j <> k -> nth_error (list_set l k x) j = nth_error l j.
Proof.
  revert k j; induction l as [|z r IH]; intros [|k] [|j] H; cbn; try reflexivity; try congruence.
  apply IH. congruence.
Qed.

Definition layer_consistent (l : layer) : Prop := layer_consistentb l = true.

Lemma purpose_eqb_refl p : purpose_eqb p p = true.
Proof. destruct p; cbn; try reflexivity; rewrite ?String.eqb_refl, ?Z.eqb_refl; reflexivity. Qed.

(* the number round trip of a consistent layer *)
Lemma consistent_purpose_num l x p' :
  layer_consistent l -> layer_purpose l x = Some p' -> layer_pnum l p' = Some x.
Proof.
  unfold layer_consistent, layer_consistentb, layer_purpose. intros Hc Hp.
  destruct (find_last (fun np => fst np =? x) (l_pairs l)) as [np|] eqn:E; [|discriminate].
  cbn in Hp. injection Hp as <-.
  destruct (find_last_some _ _ _ E) as [Hin Hf]. apply Z.eqb_eq in Hf.
  rewrite forallb_forall in Hc. specialize (Hc _ Hin). unfold layer_purpose in Hc.
  rewrite Hf, E in Hc. cbn in Hc.
  destruct (layer_pnum l (snd np)) as [n'|]; [|discriminate]. apply Z.eqb_eq in Hc. subst. reflexivity.
Qed.

(* what import_element_layer (get_or_insert) returns resolves to the numbers it was given *)
Lemma get_or_insert_resolves ly n x :
  (forall k l, nth_error ly k = Some l -> layer_consistent l) ->
  let '(ly', k', p') := get_or_insert ly n x in resolve_lp ly' k' p' = Some (n, x).
Proof.
  intros Hc. unfold get_or_insert.
  destruct (ly_keynum ly n) as [k|] eqn:Ek.
  - destruct (keynum_some _ _ _ Ek) as [l [Hl Hn]]. unfold ly_get. rewrite Hl.
    destruct (layer_purpose l x) as [p'|] eqn:Ep.
    + unfold resolve_lp, ly_get. rewrite Hl, (consistent_purpose_num _ _ _ (Hc _ _ Hl) Ep), Hn. reflexivity.
    + unfold resolve_lp, ly_get. rewrite (nth_list_set_same _ _ _ _ Hl). unfold layer_pnum. cbn [l_pairs l_num].
      rewrite find_last_app_hit; [cbn; rewrite Hn; reflexivity|]. cbn. apply Z.eqb_refl.
  - unfold ly_add, ly_get. rewrite nth_error_app2, Nat.sub_diag; [|lia]. cbn.
    unfold resolve_lp, ly_get.
    replace (nth_error (list_set (ly ++ [layer_from_num n]) (Datatypes.length ly) _) (Datatypes.length ly))
      with (Some (mklayer n None [(x, Other x)])).
    + unfold layer_pnum. cbn [l_pairs find_last snd fst purpose_eqb option_map l_num]. rewrite Z.eqb_refl. reflexivity.
    + symmetry. eapply nth_list_set_same. rewrite nth_error_app2, Nat.sub_diag; [reflexivity|lia].
Qed.

(** * Units *)
Lemma units_roundtrip_fixed : forall u, import_units xcfg_fixed (export_units u) = Ok u.
Proof. destruct u; vm_compute; reflexivity. Qed.
Lemma units_roundtrip_orig_refuted : import_units xcfg_orig (export_units Pico) = Err XUnits.
Proof. vm_compute. reflexivity. Qed.
Lemma units_roundtrip_orig_others : forall u, u <> Pico -> import_units xcfg_orig (export_units u) = Ok u.
Proof. destruct u; intros H; try (vm_compute; reflexivity). congruence. Qed.

(** * the executable oracle [raw_equivb] implies [raw_equiv] *)
Lemma point_eqb_eq a b : point_eqb a b = true -> a = b.
Proof.
  unfold point_eqb. intros H. apply andb_prop in H as [H1 H2]. apply Z.eqb_eq in H1, H2.
  destruct a, b. cbn in *. subst. reflexivity.
Qed.
Lemma points_eqb_eq a : forall b, points_eqb a b = true -> a = b.
Proof.
  induction a as [|x r IH]; intros [|y t] H; cbn [points_eqb] in H; try discriminate; [reflexivity|].
  apply andb_prop in H as [H1 H2]. apply point_eqb_eq in H1. apply IH in H2. subst. reflexivity.
Qed.
Lemma shape_eqb_eq a b : shape_eqb a b = true -> a = b.
Proof.
  destruct a, b; cbn [shape_eqb]; intros H; try discriminate.
  - apply andb_prop in H as [H1 H2]. apply point_eqb_eq in H1, H2. subst. reflexivity.
  - apply points_eqb_eq in H. subst. reflexivity.
  - apply andb_prop in H as [H1 H2]. apply points_eqb_eq in H1. apply Z.eqb_eq in H2. subst. reflexivity.
Qed.
Lemma ostring_eqb_eq a b : ostring_eqb a b = true -> a = b.
Proof. destruct a, b; cbn; intros H; try discriminate; [apply String.eqb_eq in H; subst|]; reflexivity. Qed.
Lemma oz_eqb_eq a b : oz_eqb a b = true -> a = b.
Proof. destruct a, b; cbn; intros H; try discriminate; [apply Z.eqb_eq in H; subst|]; reflexivity. Qed.
Lemma vinst_eqb_eq a b : vinst_eqb a b = true -> a = b.
Proof.
  unfold vinst_eqb. intros H. repeat (apply andb_prop in H; destruct H as [H ?]).
  apply String.eqb_eq in H. apply point_eqb_eq in H2. apply Bool.eqb_prop in H1. apply oz_eqb_eq in H0.
  destruct a, b. cbn in *. subst. reflexivity.
Qed.
Lemma velem_equivb_sound v v' : velem_equivb v v' = true -> velem_equiv v v'.
Proof.
  unfold velem_equivb, velem_equiv. intros H. repeat (apply andb_prop in H; destruct H as [H ?]).
  apply Z.eqb_eq in H, H2. apply ostring_eqb_eq in H0. unfold shape_equivb in H1. apply shape_eqb_eq in H1.
  repeat split; assumption.
Qed.
Lemma forall2b_eq {A} (f : A -> A -> bool) : (forall a b, f a b = true -> a = b) -> forall l l', forall2b f l l' = true -> l = l'.
Proof.
  intros Hf. induction l as [|a r IH]; intros [|b t] H; cbn [forall2b] in H; try discriminate; [reflexivity|].
  apply andb_prop in H as [H1 H2]. apply Hf in H1. apply IH in H2. subst. reflexivity.
Qed.
Lemma forall2b_Forall2 {A B} (f : A -> B -> bool) (R : A -> B -> Prop) : (forall a b, f a b = true -> R a b) ->
  forall l l', forall2b f l l' = true -> Forall2 R l l'.
Proof.
  intros Hf. induction l as [|a r IH]; intros [|b t] H; cbn [forall2b] in H; try discriminate; [constructor|].
  apply andb_prop in H as [H1 H2]. constructor; [apply Hf; exact H1|apply IH; exact H2].
Qed.
Lemma units_eqb_eq a b : units_eqb a b = true -> a = b.
Proof. destruct a, b; cbn; intros H; try discriminate; reflexivity. Qed.

Theorem raw_equivb_sound L L' : raw_equivb L L' = true -> raw_equiv L L'.
Proof.
  unfold raw_equivb, raw_equiv. intros H. apply andb_prop in H as [H H3]. apply andb_prop in H as [H1 H2].
  split; [apply units_eqb_eq; exact H1|]. split; [apply Nat.eqb_eq; exact H2|].
  apply Forall_forall. intros c Hc. rewrite forallb_forall in H3. specialize (H3 c Hc).
  unfold cell_equivb in H3. apply existsb_exists in H3 as [c' [Hc' H]].
  apply andb_prop in H as [Hn H]. apply String.eqb_eq in Hn.
  destruct (c_layout c') as [l'|] eqn:El; [|discriminate].
  destruct (cell_view (lib_layers L) (lib_cells L) c) as [[iv ev]|] eqn:Ev; [|discriminate].
  destruct (cell_view (lib_layers L') (lib_cells L') c') as [[iv' ev']|] eqn:Ev'; [|discriminate].
  apply andb_prop in H as [Hi He]. apply (forall2b_eq _ vinst_eqb_eq) in Hi. subst iv'.
  exists c', l', iv, ev, ev'. repeat split; try assumption.
  exact (forall2b_Forall2 _ _ velem_equivb_sound _ _ He).
Qed.
