(** C07 -- model of the GDSII exporter of layout21raw (layout21raw/src/gds.rs):
    [GdsExporter::{export_lib, export_cell, export_abstract, export_abstract_port, export_layout,
    export_instance, export_layerspec, export_element, export_shape, export_shape_label,
    export_point}], the trait [PlaceLabels] ([label_location] for Rect, Path, Polygon), the parts of
    geom.rs / bbox.rs they call ([Rect::center], [ShapeTrait::orientation], [Vec<Point>::bbox],
    [BoundBox::center]; [Polygon::contains] is the C13 model, Geom/Contains.v), and the importer's
    unit table [GdsImporter::import_units] (needed for the unit round trip).
    Transcribed function by function.  No proofs in this file.

    Variants.  The record [xcfg] carries one boolean per defect found in the pinned tree; the
    correspondence run reads each flag from the SOURCE TEXT on every run (tools/props/c07.py), so the
    model follows the tree.  [xcfg_fixed] is the repaired code, [xcfg_orig] the code as found.
    - [x_path_close]    : [export_shape] pushes `points[0]` once more at the end of a PATH's XY
                          (as it rightly does for boundaries), so an open path is exported closed.
    - [x_contains_orig] : [Polygon::contains] is the code before the C13 repair.
    - [x_no_pico]       : [import_units] has no branch for the 1e-12 database unit that
                          [export_lib] writes for [Units::Pico].

    Conventions (Raw/RawData.v): `Int = isize` is 64 bits, arithmetic in Z with the debug-build
    overflow panic made explicit ([i64c]); `usize` path widths are Z >= 0; `Ptr<Cell>` is an index
    into the library's cell list (a target outside it is not representable: [XBadRef]); `LayerKey`
    is the slot index; doubles are bit patterns; Rust `String`s are Coq strings, turned into the
    byte lists of Gds/GdsData.v by [bytes_of_string].  The dates of the produced library (time of
    the call) are modelled as zeros, as the harness prints them.  Locks are not modelled. *)
From Coq Require Import ZArith List String Bool Ascii.
From L21 Require Import Base.Outcome Base.F64 Raw.RawData.
From L21 Require Gds.GdsData Geom.Contains.
Import ListNotations.
Local Open Scope list_scope.
Local Open Scope Z_scope.
Local Open Scope outcome_scope.

(** * Outcomes *)
Inductive xerr : Type :=
| XConv      (* `try_into` / `try_from` to i32 failed (TryFromIntError) *)
| XLayer     (* "Layer .. Not Defined in Library" *)
| XPurpose   (* "LayerPurpose Not Defined for .." *)
| XLabel     (* "No valid label location found for polygon" *)
| XBadRef    (* instance of a cell outside the library (not representable in Rust) *)
| XUnits.    (* "Unsupported GDSII Units" (importer) *)
Definition res (A : Type) : Type := outcome xerr A.

Record xcfg : Type := mkxcfg { x_path_close : bool; x_contains_orig : bool; x_no_pico : bool }.
Definition xcfg_fixed : xcfg := mkxcfg false false false.
Definition xcfg_orig : xcfg := mkxcfg true true true.

(** checked isize arithmetic (debug build) *)
Definition i64c (z : Z) : res Z := if i64_okb z then Ok z else Panic.

(** * Strings *)
Fixpoint bytes_of_string (s : string) : list Z :=
  match s with
  | EmptyString => []
  | String a r => Z.of_N (N_of_ascii a) :: bytes_of_string r
  end.

(** * f64 constants (bit patterns) *)
Definition f64_1 : Z := 4607182418800017408.        (* 1.0   *)
Definition f64_1em3 : Z := 4562254508917369340.     (* 1e-3  *)
Definition f64_1em4 : Z := 4547007122018943789.     (* 1e-4  *)
Definition f64_1em6 : Z := 4517329193108106637.     (* 1e-6  *)
Definition f64_1em9 : Z := 4472406533629990549.     (* 1e-9  *)
Definition f64_1em10 : Z := 4457293557087583675.    (* 1e-10 *)
Definition f64_1em12 : Z := 4427486594234968593.    (* 1e-12 *)
Definition f64_1em13 : Z := 4412443251819771522.    (* 1e-13 *)
Definition f64_1em15 : Z := 4382569440205035030.    (* 1e-15 *)
Definition f64_90 : Z := 4636033603912859648.       (* 90.0  *)

(** * export_lib: the units table
<<
    Units::Micro => GdsUnits::new(1.0, 1e-6),   Units::Nano => GdsUnits::new(1e-3, 1e-9),
    Units::Angstrom => GdsUnits::new(1e-4, 1e-10),   Units::Pico => GdsUnits::new(1e-6, 1e-12),
>> *)
Definition export_units (u : units) : Z * Z :=
  match u with
  | Micro => (f64_1, f64_1em6)
  | Nano => (f64_1em3, f64_1em9)
  | Angstrom => (f64_1em4, f64_1em10)
  | Pico => (f64_1em6, f64_1em12)
  end.

(** * GdsImporter::import_units
<<
    let gdsunit = units.db_unit();                       // the second number
    if (gdsunit - 1e-10).abs() < 1e-13 { Angstrom } else if (gdsunit - 1e-9).abs() < 1e-12 { Nano }
    else if (gdsunit - 1e-6).abs() < 1e-9 { Micro } else { fail("Unsupported GDSII Units") }
>>
    (the repair adds `(gdsunit - 1e-12).abs() < 1e-15 => Pico` in front).
    The comparison `(x - c).abs() < eps` is decided on exact dyadic values: for c/2 <= x <= 2c the
    subtraction is exact (Sterbenz), and outside that interval |x - c| >= c/2, which is more than
    a hundred times eps for each of the four rows, so rounding cannot change the answer.
    NaN and the infinities compare false everywhere. *)
Definition dy_val (b : Z) : option (Z * Z) :=          (* signed significand, exponent *)
  match f64_decomp b with
  | Some (s, m, e) => Some (if s then - m else m, e)
  | None => None
  end.
(** |x - c| < eps on dyadic values, all scaled to the exponent -1200 (below every exponent that occurs) *)
Definition dy_scaled (v : Z * Z) : Z := fst v * 2 ^ (snd v + 1200).
Definition near_const (x c eps : Z) : bool :=
  match dy_val x, dy_val c, dy_val eps with
  | Some vx, Some vc, Some ve => Z.abs (dy_scaled vx - dy_scaled vc) <? dy_scaled ve
  | _, _, _ => false
  end.
Definition import_units (cfg : xcfg) (u : Z * Z) : res units :=
  let x := snd u in
  if negb (x_no_pico cfg) && near_const x f64_1em12 f64_1em15 then Ok Pico
  else if near_const x f64_1em10 f64_1em13 then Ok Angstrom
  else if near_const x f64_1em9 f64_1em12 then Ok Nano
  else if near_const x f64_1em6 f64_1em9 then Ok Micro
  else Err XUnits.

(** * export_point: `pt.x.try_into()?`, `pt.y.try_into()?` (isize -> i32) *)
Definition export_point (p : point) : res GdsData.point :=
  if i32_okb (px p) && i32_okb (py p) then Ok (GdsData.mkPt (px p) (py p)) else Err XConv.

Fixpoint export_points (ps : list point) : res (list GdsData.point) :=
  match ps with
  | [] => Ok []
  | p :: r => let? q := export_point p in let? qs := export_points r in Ok (q :: qs)
  end.

(** * export_layerspec: `layers.get(key)`, then `layer.num(purpose)` -> (layernum, xtype) *)
Definition export_layerspec (ly : layers) (key : nat) (p : purpose) : res (Z * Z) :=
  match ly_get ly key with
  | None => Err XLayer
  | Some l => match layer_pnum l p with
              | None => Err XPurpose
              | Some xt => Ok (l_num l, xt)
              end
  end.

(** * PlaceLabels *)
Definition pt2 (p : point) : Contains.point := (px p, py p).
Definition of_pt2 (p : Contains.point) : point := mkpt (fst p) (snd p).

(** `(a + b) / 2` in isize: checked addition, division truncating toward zero *)
Definition half_sum (a b : Z) : res Z := let? s := i64c (a + b) in Ok (Z.quot s 2).

(** Rect::center = Rect::label_location *)
Definition rect_center (p0 p1 : point) : res point :=
  let? x := half_sum (px p0) (px p1) in
  let? y := half_sum (py p0) (py p1) in
  Ok (mkpt x y).

(** Path::label_location: the centre of the first segment; `points[0]`, `points[1]` *)
Definition path_label (ps : list point) : res point :=
  match ps with
  | p0 :: p1 :: _ =>
    let? x := half_sum (px p0) (px p1) in
    let? y := half_sum (py p0) (py p1) in
    Ok (mkpt x y)
  | _ => Panic
  end.

(** Polygon::contains of the tree's variant; an overflow inside it is a panic (debug build) *)
Definition poly_contains_v (orig : bool) (ps : list point) (q : point) : res bool :=
  match (if orig then Contains.poly_contains_orig (map pt2 ps) (pt2 q)
         else Contains.poly_contains (map pt2 ps) (pt2 q)) with
  | Contains.Ret b => Ok b
  | Contains.Ovf => Panic
  | Contains.Panic => Panic
  end.

(** `self.points.bbox().center()`: fold of unions from BoundBox::empty (MAX, MIN), then
    `((p0.x + p1.x) / 2, (p0.y + p1.y) / 2)` *)
Definition bbox_center (ps : list point) : res point :=
  let '(b0, b1) := Contains.points_bbox (map pt2 ps) in
  let? x := half_sum (fst b0) (fst b1) in
  let? y := half_sum (snd b0) (snd b1) in
  Ok (mkpt x y).

Fixpoint first_containing (orig : bool) (ps : list point) (cands : list point) : res point :=
  match cands with
  | [] => Err XLabel
  | q :: r => let? b := poly_contains_v orig ps q in
              if b then Ok q else first_containing orig ps r
  end.

(** Polygon::label_location: the bounding-box centre if the polygon contains it, else the first of
    the four neighbours of the first vertex (below, left, above, right) that it contains, else Err.
    The `vec![..]` of the four candidates is built (with checked arithmetic) before any is tried. *)
Definition poly_label (orig : bool) (ps : list point) : res point :=
  let? c := bbox_center ps in
  let? b := poly_contains_v orig ps c in
  if b then Ok c
  else match ps with
       | [] => Panic                                   (* self.point0() = &self.points[0] *)
       | p0 :: _ =>
         let? ym := i64c (py p0 - 1) in
         let? xm := i64c (px p0 - 1) in
         let? yp := i64c (py p0 + 1) in
         let? xp := i64c (px p0 + 1) in
         first_containing orig ps [mkpt (px p0) ym; mkpt xm (py p0); mkpt (px p0) yp; mkpt xp (py p0)]
       end.

Definition label_location (cfg : xcfg) (s : shape) : res point :=
  match s with
  | Rect p0 p1 => rect_center p0 p1
  | Polygon ps => poly_label (x_contains_orig cfg) ps
  | Path ps _ => path_label ps
  end.

(** ShapeTrait::orientation: [true] = Dir::Vert.  Rect: `(p1.x - p0.x).abs() < (p1.y - p0.y).abs()`;
    Polygon and Path: always Horiz. *)
Definition iabs (z : Z) : res Z := if z =? i64_min then Panic else Ok (Z.abs z).
Definition orientation_vert (s : shape) : res bool :=
  match s with
  | Rect p0 p1 =>
    let? dx := i64c (px p1 - px p0) in
    let? ax := iabs dx in
    let? dy := i64c (py p1 - py p0) in
    let? ay := iabs dy in
    Ok (ax <? ay)
  | _ => Ok false
  end.

(** * export_shape *)
Definition mk_boundary (spec : Z * Z) (xy : list GdsData.point) : GdsData.element :=
  GdsData.EBoundary (GdsData.mkBoundary (fst spec) (snd spec) xy None None []).
Definition mk_path (spec : Z * Z) (xy : list GdsData.point) (w : Z) : GdsData.element :=
  GdsData.EPath (GdsData.mkPath (fst spec) (snd spec) xy (Some w) None None None None None []).

Definition export_shape (cfg : xcfg) (s : shape) (spec : Z * Z) : res GdsData.element :=
  match s with
  | Rect p0 p1 =>
    (* x0, y0, x1, y1 each `try_into()?`; five points (x0,y0) (x1,y0) (x1,y1) (x0,y1) (x0,y0) *)
    if i32_okb (px p0) && i32_okb (py p0) && i32_okb (px p1) && i32_okb (py p1) then
      let P := GdsData.mkPt in
      Ok (mk_boundary spec [P (px p0) (py p0); P (px p1) (py p0); P (px p1) (py p1); P (px p0) (py p1); P (px p0) (py p0)])
    else Err XConv
  | Polygon ps =>
    let? xy := export_points ps in
    match ps with
    | [] => Panic                                      (* &poly.points[0] *)
    | p0 :: _ => let? q0 := export_point p0 in Ok (mk_boundary spec (xy ++ [q0]))
    end
  | Path ps w =>
    let? xy := export_points ps in
    let? xy' := (if x_path_close cfg then
                   match ps with
                   | [] => Panic                       (* &path.points[0] *)
                   | p0 :: _ => let? q0 := export_point p0 in Ok (xy ++ [q0])
                   end
                 else Ok xy) in
    if i32_okb w then Ok (mk_path spec xy' w) else Err XConv      (* i32::try_from(path.width)? *)
  end.

(** * export_shape_label *)
Definition strans_angle90 : GdsData.strans := GdsData.mkStrans false false false None (Some f64_90).
Definition export_shape_label (cfg : xcfg) (net : string) (s : shape) (spec : Z * Z) : res GdsData.element :=
  let? loc := label_location cfg s in
  let? vert := orientation_vert s in
  let? xy := export_point loc in
  Ok (GdsData.EText (GdsData.mkText (bytes_of_string net) (fst spec) (snd spec) xy None None None
                                    (if vert then Some strans_angle90 else None) None None [])).

(** * export_element: the shape, then, when a net is assigned, a text on the layer's Label purpose *)
Definition export_element (cfg : xcfg) (ly : layers) (e : element) : res (list GdsData.element) :=
  let? spec := export_layerspec ly (e_layer e) (e_purpose e) in
  let? g := export_shape cfg (e_shape e) spec in
  match e_net e with
  | None => Ok [g]
  | Some name =>
    let? lspec := export_layerspec ly (e_layer e) Label in
    let? t := export_shape_label cfg name (e_shape e) lspec in
    Ok [g; t]
  end.

(** * export_instance: a strans only when reflected or an angle is present; the angle as stored *)
Definition export_instance (cells : list cell) (i : instance) : res GdsData.element :=
  let st := if i_reflect i || (match i_angle i with Some _ => true | None => false end)
            then Some (GdsData.mkStrans (i_reflect i) false false None (i_angle i)) else None in
  match nth_error cells (i_cell i) with
  | None => Err XBadRef
  | Some c =>
    let? xy := export_point (i_loc i) in
    Ok (GdsData.ESref (GdsData.mkSref (bytes_of_string (c_name c)) xy st None None []))
  end.

Fixpoint concat_res {A : Type} (l : list (res (list A))) : res (list A) :=
  match l with
  | [] => Ok []
  | x :: r => let? a := x in let? b := concat_res r in Ok (a ++ b)
  end.
Fixpoint all_res {A : Type} (l : list (res A)) : res (list A) :=
  match l with
  | [] => Ok []
  | x :: r => let? a := x in let? b := all_res r in Ok (a :: b)
  end.

Definition zero_dates : GdsData.datetimes :=
  GdsData.mkDTs (GdsData.mkDT 0 0 0 0 0 0) (GdsData.mkDT 0 0 0 0 0 0).

(** * export_layout: every instance first, then every element; the struct carries the LAYOUT's name *)
Definition export_layout (cfg : xcfg) (ly : layers) (cells : list cell) (l : layout) : res GdsData.gstruct :=
  let? is := all_res (map (export_instance cells) (lay_insts l)) in
  let? es := concat_res (map (export_element cfg ly) (lay_elems l)) in
  Ok (GdsData.mkStruct (bytes_of_string (lay_name l)) zero_dates (is ++ es)).

(** * Abstracts.  data.rs `sorted_by_layer`: the entries in ascending LayerKey order *)
Fixpoint insert_entry (x : nat * list shape) (l : shapemap) : shapemap :=
  match l with
  | [] => [x]
  | y :: r => if Nat.leb (fst x) (fst y) then x :: l else y :: insert_entry x r
  end.
Definition sorted_by_layer (m : shapemap) : shapemap := fold_right insert_entry [] m.

(** export_abstract_port: per layer (sorted) the Drawing, Pin and Label numbers, then per shape the
    shape on Drawing, the shape on Pin, and a label carrying the port's net *)
Definition export_port_shape (cfg : xcfg) (net : string) (d p lb : Z * Z) (s : shape) : res (list GdsData.element) :=
  let? a := export_shape cfg s d in
  let? b := export_shape cfg s p in
  let? c := export_shape_label cfg net s lb in
  Ok [a; b; c].
Definition export_port_layer (cfg : xcfg) (ly : layers) (net : string) (e : nat * list shape) : res (list GdsData.element) :=
  let? d := export_layerspec ly (fst e) Drawing in
  let? p := export_layerspec ly (fst e) Pin in
  let? lb := export_layerspec ly (fst e) Label in
  concat_res (map (export_port_shape cfg net d p lb) (snd e)).
Definition export_abstract_port (cfg : xcfg) (ly : layers) (p : absport) : res (list GdsData.element) :=
  concat_res (map (export_port_layer cfg ly (ap_net p)) (sorted_by_layer (ap_shapes p))).

Definition i16_max : Z := 32767.
(** export_abstract: the outline as a boundary on (i16::MAX, i16::MAX), then the ports; blockages
    are not exported *)
Definition export_abstract (cfg : xcfg) (ly : layers) (a : abstract) : res GdsData.gstruct :=
  let? xy := export_points (ab_outline a) in
  match ab_outline a with
  | [] => Panic                                        (* &abs.outline.points[0] *)
  | p0 :: _ =>
    let? q0 := export_point p0 in
    let outline := mk_boundary (i16_max, i16_max) (xy ++ [q0]) in
    let? ps := concat_res (map (export_abstract_port cfg ly) (ab_ports a)) in
    Ok (GdsData.mkStruct (bytes_of_string (ab_name a)) zero_dates (outline :: ps))
  end.

(** export_cell: the layout if there is one, else the abstract, else nothing *)
Definition export_cell (cfg : xcfg) (ly : layers) (cells : list cell) (c : cell) : res (option GdsData.gstruct) :=
  match c_layout c with
  | Some l => let? s := export_layout cfg ly cells l in Ok (Some s)
  | None => match c_abs c with
            | Some a => let? s := export_abstract cfg ly a in Ok (Some s)
            | None => Ok None
            end
  end.

Fixpoint export_cells (cfg : xcfg) (ly : layers) (cells : list cell) (todo : list cell) : res (list GdsData.gstruct) :=
  match todo with
  | [] => Ok []
  | c :: r =>
    let? s := export_cell cfg ly cells c in
    let? ss := export_cells cfg ly cells r in
    Ok (match s with Some x => x :: ss | None => ss end)
  end.

(** export_lib: `GdsLibrary::new(name)` (version 3), the units, one struct per cell that has a view *)
Definition export_lib_gen (cfg : xcfg) (L : library) : res GdsData.library :=
  let? ss := export_cells cfg (lib_layers L) (lib_cells L) (lib_cells L) in
  Ok (GdsData.mkLib (bytes_of_string (lib_name L)) 3 zero_dates (export_units (lib_units L)) ss).

Definition export_lib : library -> res GdsData.library := export_lib_gen xcfg_fixed.
Definition export_lib_orig : library -> res GdsData.library := export_lib_gen xcfg_orig.
