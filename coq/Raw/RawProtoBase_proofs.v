(** Lemmas for property C14, part 1: the result monads ([mapM], [foldM], [omapM]) and the layer
    table ([get_or_insert] keeps a well-formed table well-formed, never changes an answer the
    table already gave, and returns a key and a purpose that stand for the numbers asked for). *)
From Coq Require Import ZArith List String Bool Lia Permutation Arith.
From L21 Require Import Base.F64 Base.Outcome Raw.RawData Raw.RawProto Raw.RawProtoSpec.
Import ListNotations.
Local Open Scope list_scope.
Local Open Scope Z_scope.

(** * Generic: mapM / foldM / omapM *)
Lemma obind_ok : forall (E A B : Type) (x : outcome E A) (f : A -> outcome E B) b,
  obind x f = Ok b -> exists a, x = Ok a /\ f a = Ok b.
Proof. intros E A B [a|e| |] f b H; simpl in H; try discriminate. eauto. Qed.

Lemma mapM_ok : forall (A B : Type) (f : A -> res B) l ys,
  mapM f l = Ok ys -> Forall2 (fun x y => f x = Ok y) l ys.
Proof.
  induction l as [|x r IH]; intros ys H; simpl in H.
  - inversion H. constructor.
  - apply obind_ok in H. destruct H as [y [Hy H]].
    apply obind_ok in H. destruct H as [ys' [Hys H]]. inversion H; subst.
    constructor; auto.
Qed.

Lemma mapM_ok_inv : forall (A B : Type) (f : A -> res B) l ys,
  Forall2 (fun x y => f x = Ok y) l ys -> mapM f l = Ok ys.
Proof. induction 1; simpl; auto. rewrite H, IHForall2. reflexivity. Qed.

Lemma mapM_pure : forall (A B : Type) (f : A -> res B) (g : A -> B) l,
  (forall x, In x l -> f x = Ok (g x)) -> mapM f l = Ok (map g l).
Proof.
  induction l as [|x r IH]; intros H; simpl; auto.
  rewrite H by (left; auto). simpl. rewrite IH by (intros; apply H; right; auto). reflexivity.
Qed.

Lemma Forall2_length' : forall (A B : Type) (R : A -> B -> Prop) l l', Forall2 R l l' -> List.length l = List.length l'.
Proof. induction 1; simpl; auto. Qed.

Lemma NoDup_app_snoc : forall (A : Type) (l : list A) x, NoDup l -> ~ In x l -> NoDup (l ++ [x]).
Proof.
  induction l as [|y r IH]; intros x Hn Hx; simpl.
  - constructor; auto.
  - inversion Hn; subst. constructor.
    + intros Hy. apply in_app_or in Hy. destruct Hy as [Hy|[->|[]]]; auto. apply Hx; left; auto.
    + apply IH; auto. intros H; apply Hx; right; auto.
Qed.

Ltac inv_ok H :=
  repeat match type of H with
  | obind _ _ = Ok _ =>
    let a := fresh "a" in let Ha := fresh "Ha" in
    apply obind_ok in H; destruct H as [a [Ha H]]
  | Ok _ = Ok _ => inversion H; subst; clear H
  end.

(** * omapM *)
Lemma omapM_Forall2 : forall (A B : Type) (f : A -> option B) l l',
  omapM f l = Some l' <-> Forall2 (fun x y => f x = Some y) l l'.
Proof.
  induction l as [|x r IH]; intros l'; simpl; split; intros H.
  - inversion H. constructor.
  - inversion H. auto.
  - destruct (f x) eqn:E; try discriminate. destruct (omapM f r) eqn:F; try discriminate.
    inversion H; subst. constructor; auto. apply IH; auto.
  - inversion H; subst. rewrite H2. apply IH in H4. rewrite H4. auto.
Qed.
Lemma omapM_app : forall (A B : Type) (f : A -> option B) a b,
  omapM f (a ++ b) = match omapM f a, omapM f b with Some x, Some y => Some (x ++ y) | _, _ => None end.
Proof.
  induction a as [|x r IH]; intros b; simpl.
  - destruct (omapM f b); auto.
  - rewrite IH. destruct (f x); auto. destruct (omapM f r); auto. destruct (omapM f b); auto.
Qed.
Lemma omapM_map : forall (A B C : Type) (f : B -> option C) (g : A -> B) l,
  omapM f (map g l) = omapM (fun x => f (g x)) l.
Proof. induction l; simpl; auto. rewrite IHl. auto. Qed.
Lemma omapM_ext : forall (A B : Type) (f g : A -> option B) l,
  (forall x, In x l -> f x = g x) -> omapM f l = omapM g l.
Proof.
  induction l as [|x r IH]; intros H; simpl; auto.
  rewrite H by (left; auto). rewrite IH; auto. intros; apply H; right; auto.
Qed.
Lemma omapM_total : forall (A B : Type) (f : A -> option B) (g : A -> B) l,
  (forall x, In x l -> f x = Some (g x)) -> omapM f l = Some (map g l).
Proof.
  induction l as [|x r IH]; intros H; simpl; auto.
  rewrite H by (left; auto). rewrite IH; auto. intros; apply H; right; auto.
Qed.
Lemma omapM_snoc : forall (A B : Type) (f : A -> option B) l x,
  omapM f (l ++ [x]) = match omapM f l, f x with Some a, Some b => Some (a ++ [b]) | _, _ => None end.
Proof. intros. rewrite omapM_app. simpl. destruct (omapM f l); auto. destruct (f x); auto. Qed.

Lemma foldM_ok_cons : forall (S A : Type) (f : S -> A -> res S) x r s s',
  foldM f (x :: r) s = Ok s' -> exists s1, f s x = Ok s1 /\ foldM f r s1 = Ok s'.
Proof. intros. simpl in H. apply obind_ok in H. auto. Qed.

(** * Layer tables *)
Lemma purpose_eqb_eq : forall a b, purpose_eqb a b = true <-> a = b.
Proof.
  intros a b; split.
  - destruct a, b; simpl; try discriminate; auto.
    + intros H. apply andb_prop in H. destruct H as [H1 H2]. apply String.eqb_eq in H1. apply Z.eqb_eq in H2. congruence.
    + intros H. apply Z.eqb_eq in H. congruence.
  - intros <-. destruct a; simpl; auto.
    + rewrite String.eqb_refl, Z.eqb_refl. auto.
    + apply Z.eqb_refl.
Qed.

Lemma find_last_app1 : forall (A : Type) (f : A -> bool) l x,
  find_last f (l ++ [x]) = if f x then Some x else find_last f l.
Proof.
  induction l as [|y r IH]; intros x; simpl.
  - destruct (f x); auto.
  - rewrite IH. destruct (f x); auto.
Qed.
Lemma find_last_some : forall (A : Type) (f : A -> bool) l x, find_last f l = Some x -> In x l /\ f x = true.
Proof.
  induction l as [|y r IH]; intros x H; simpl in H; try discriminate.
  destruct (find_last f r) eqn:E.
  - inversion H; subst. destruct (IH _ eq_refl). split; auto. right; auto.
  - destruct (f y) eqn:F; inversion H; subst. split; auto. left; auto.
Qed.
Lemma find_last_none : forall (A : Type) (f : A -> bool) l, find_last f l = None -> forall x, In x l -> f x = false.
Proof.
  induction l as [|y r IH]; intros H x Hx; simpl in *; [destruct Hx|].
  destruct (find_last f r) eqn:E; try discriminate. destruct (f y) eqn:F; try discriminate.
  destruct Hx as [<-|Hx]; auto.
Qed.
Lemma find_last_in : forall (A : Type) (f : A -> bool) l x, In x l -> f x = true -> exists y, find_last f l = Some y.
Proof.
  intros A f l x Hx Hf. destruct (find_last f l) eqn:E; eauto.
  rewrite (find_last_none _ _ _ E x Hx) in Hf. discriminate.
Qed.

(** in a well-formed layer the two lookups are inverse to each other *)
Lemma layer_purpose_pnum : forall l pn p, layer_wf l -> layer_purpose l pn = Some p -> layer_pnum l p = Some pn.
Proof.
  intros l pn p [Hn1 [Hn2 _]] H. unfold layer_purpose in H. unfold layer_pnum.
  destruct (find_last (fun np => fst np =? pn) (l_pairs l)) as [[n1 p1]|] eqn:E; try discriminate.
  simpl in H. inversion H; subst. apply find_last_some in E. destruct E as [Hin He]. simpl in He. apply Z.eqb_eq in He. subst.
  destruct (find_last_in _ (fun np => purpose_eqb (snd np) p) _ _ Hin) as [[n2 p2] E2]; [simpl; apply purpose_eqb_eq; auto|].
  rewrite E2. simpl. apply find_last_some in E2. destruct E2 as [Hin2 He2]. simpl in He2. apply purpose_eqb_eq in He2. subst.
  f_equal. clear - Hn2 Hin Hin2. induction (l_pairs l) as [|[a b] r IH]; [destruct Hin|].
  simpl in Hn2. inversion Hn2; subst. destruct Hin as [E|Hin], Hin2 as [E2|Hin2].
  - congruence.
  - inversion E; subst. exfalso. apply H1. apply (in_map snd) in Hin2. auto.
  - inversion E2; subst. exfalso. apply H1. apply (in_map snd) in Hin. auto.
  - auto.
Qed.

Lemma ly_keynum_some : forall ly n k, ly_keynum ly n = Some k -> exists l, nth_error ly k = Some l /\ l_num l = n.
Proof.
  induction ly as [|l r IH]; intros n k H; simpl in H; try discriminate.
  destruct (ly_keynum r n) eqn:E.
  - inversion H; subst. simpl. eauto.
  - destruct (l_num l =? n) eqn:F; inversion H; subst. simpl. exists l. split; auto. apply Z.eqb_eq; auto.
Qed.
Lemma ly_keynum_none : forall ly n, ly_keynum ly n = None -> forall l, In l ly -> l_num l <> n.
Proof.
  induction ly as [|l r IH]; intros n H l' Hl; simpl in *; [destruct Hl|].
  destruct (ly_keynum r n) eqn:E; try discriminate. destruct (l_num l =? n) eqn:F; try discriminate.
  destruct Hl as [<-|Hl]; auto. apply Z.eqb_neq; auto.
Qed.
Lemma ly_keynum_nth : forall ly k l, NoDup (map l_num ly) -> nth_error ly k = Some l -> ly_keynum ly (l_num l) = Some k.
Proof.
  induction ly as [|l0 r IH]; intros k l Hn Hk; [destruct k; discriminate|].
  simpl in Hn. inversion Hn; subst. destruct k as [|k]; simpl in *.
  - inversion Hk; subst. destruct (ly_keynum r (l_num l)) eqn:E.
    + exfalso. apply ly_keynum_some in E. destruct E as [l' [Hl' Hnum]]. apply H1. rewrite <- Hnum.
      apply in_map. eapply nth_error_In; eauto.
    + rewrite Z.eqb_refl. auto.
  - rewrite (IH _ _ H2 Hk). auto.
Qed.

(** [ly'] answers every question [ly] answers, the same way *)
Definition ly_ext (ly ly' : layers) : Prop :=
  (forall k p np, resolve_lp ly k p = Some np -> resolve_lp ly' k p = Some np) /\
  (forall k n, key_num ly k = Some n -> key_num ly' k = Some n) /\
  (forall n k l p pn, ly_keynum ly n = Some k -> nth_error ly k = Some l -> layer_pnum l p = Some pn ->
     exists l', ly_keynum ly' n = Some k /\ nth_error ly' k = Some l' /\ layer_pnum l' p = Some pn).
Lemma ly_ext_refl : forall ly, ly_ext ly ly.
Proof. intros ly. repeat split; auto. intros. eauto. Qed.
Lemma ly_ext_trans : forall a b c, ly_ext a b -> ly_ext b c -> ly_ext a c.
Proof.
  intros a b c [H1 [H2 H3]] [G1 [G2 G3]]. repeat split; auto.
  intros n k l p pn Hk Hl Hp. destruct (H3 _ _ _ _ _ Hk Hl Hp) as [l' [Hk' [Hl' Hp']]]. eauto.
Qed.

Lemma list_set_nth_same : forall (A : Type) (l : list A) k x y, nth_error l k = Some y -> nth_error (list_set l k x) k = Some x.
Proof. induction l; destruct k; simpl; intros; try discriminate; auto. eapply IHl; eauto. Qed.
Lemma list_set_nth_other : forall (A : Type) (l : list A) k k' x, k <> k' -> nth_error (list_set l k x) k' = nth_error l k'.
Proof. induction l; destruct k, k'; simpl; intros; auto; try congruence. Qed.
Lemma list_set_map : forall (A B : Type) (f : A -> B) (l : list A) k x y,
  nth_error l k = Some y -> f x = f y -> map f (list_set l k x) = map f l.
Proof. induction l; destruct k; simpl; intros; try discriminate; auto. - inversion H; subst. congruence. - f_equal. eapply IHl; eauto. Qed.
Lemma list_set_In : forall (A : Type) (l : list A) k x z, In z (list_set l k x) -> z = x \/ In z l.
Proof.
  induction l; destruct k; simpl; intros; auto.
  - destruct H; auto.
  - destruct H; auto. apply IHl in H. tauto.
Qed.

Record goi_post (ly : layers) (n pn : Z) (ly' : layers) (key : nat) (purp : purpose) : Prop := {
  goi_wf : layers_wf ly';
  goi_ext : ly_ext ly ly';
  goi_keynum : ly_keynum ly' n = Some key;
  goi_layer : exists l', nth_error ly' key = Some l' /\ l_num l' = n /\ layer_purpose l' pn = Some purp /\ layer_pnum l' purp = Some pn }.

Lemma layer_pnum_app_other : forall l pn p, 
  (forall m, In (m, p) (l_pairs l) -> False) \/ True ->
  layer_pnum (mklayer (l_num l) (l_name l) (l_pairs l ++ [(pn, Other pn)])) p =
  if purpose_eqb (Other pn) p then Some pn else layer_pnum l p.
Proof.
  intros l pn p _. unfold layer_pnum. cbn [l_pairs]. rewrite find_last_app1. cbn [snd].
  destruct (purpose_eqb (Other pn) p); auto.
Qed.

Lemma get_or_insert_spec : forall ly n pn ly' key purp,
  layers_wf ly -> get_or_insert ly n pn = (ly', key, purp) -> goi_post ly n pn ly' key purp.
Proof.
  intros ly n pn ly' key purp [Hnd Hwf] H. unfold get_or_insert in H.
  destruct (ly_keynum ly n) as [k|] eqn:Hk.
  - (* existing layer *)
    destruct (ly_keynum_some _ _ _ Hk) as [l [Hl Hnum]]. unfold ly_get in H. rewrite Hl in H.
    assert (Hlwf: layer_wf l) by (apply Hwf; eapply nth_error_In; eauto).
    destruct (layer_purpose l pn) as [p|] eqn:Hp.
    + injection H as <- <- <-. constructor; auto.
      * split; auto.
      * apply ly_ext_refl.
      * exists l. repeat split; auto. apply layer_purpose_pnum; auto.
    + injection H as <- <- <-.
      set (l' := mklayer (l_num l) (l_name l) (l_pairs l ++ [(pn, Other pn)])).
      assert (Hnofst: ~ In pn (map fst (l_pairs l))).
      { intros Hin. apply in_map_iff in Hin. destruct Hin as [[a b] [Ha Hin]]. simpl in Ha; subst.
        unfold layer_purpose in Hp. destruct (find_last (fun np => fst np =? pn) (l_pairs l)) eqn:E; [discriminate|].
        pose proof (find_last_none _ _ _ E _ Hin) as F. simpl in F. rewrite Z.eqb_refl in F. discriminate. }
      assert (Hnosnd: ~ In (Other pn) (map snd (l_pairs l))).
      { intros Hin. apply in_map_iff in Hin. destruct Hin as [[a b] [Hb Hin]]. simpl in Hb; subst.
        destruct Hlwf as [_ [_ Hok]]. specialize (Hok _ _ Hin). simpl in Hok. apply Z.eqb_eq in Hok. subst.
        apply Hnofst. apply (in_map fst) in Hin. auto. }
      assert (Hl'wf: layer_wf l').
      { destruct Hlwf as [H1 [H2 H3]]. unfold layer_wf, l'; simpl. rewrite !map_app. simpl. repeat split.
        - apply NoDup_app_snoc; auto. - apply NoDup_app_snoc; auto.
        - intros a b Hin. apply in_app_or in Hin. destruct Hin as [Hin|[E|[]]]; auto. inversion E; subst. simpl. apply Z.eqb_refl. }
      assert (Hpn': forall p, layer_pnum l' p = if purpose_eqb (Other pn) p then Some pn else layer_pnum l p).
      { intros p. apply layer_pnum_app_other; auto. }
      assert (Hkeep: forall p q, layer_pnum l p = Some q -> layer_pnum l' p = Some q).
      { intros p q Hq. rewrite Hpn'. destruct (purpose_eqb (Other pn) p) eqn:E; auto.
        apply purpose_eqb_eq in E. subst. exfalso. apply Hnosnd.
        unfold layer_pnum in Hq. destruct (find_last (fun np => purpose_eqb (snd np) (Other pn)) (l_pairs l)) as [[a b]|] eqn:F; try discriminate.
        apply find_last_some in F. destruct F as [Hin He]. simpl in He. apply purpose_eqb_eq in He. subst.
        apply (in_map snd) in Hin. auto. }
      assert (Hmap: map l_num (list_set ly k l') = map l_num ly) by (eapply list_set_map; eauto).
      constructor.
      * split; [rewrite Hmap; auto|]. intros z Hz. apply list_set_In in Hz. destruct Hz as [->|Hz]; auto.
      * repeat split.
        -- intros k0 p np Hr. unfold resolve_lp, ly_get in *. destruct (Nat.eq_dec k k0) as [<-|Hne].
           ++ rewrite (list_set_nth_same _ _ _ _ _ Hl). rewrite Hl in Hr.
              destruct (layer_pnum l p) eqn:E; try discriminate. rewrite (Hkeep _ _ E). auto.
           ++ rewrite list_set_nth_other; auto.
        -- intros k0 n0 Hr. unfold key_num, ly_get in *. destruct (Nat.eq_dec k k0) as [<-|Hne].
           ++ rewrite (list_set_nth_same _ _ _ _ _ Hl). rewrite Hl in Hr. auto.
           ++ rewrite list_set_nth_other; auto.
        -- intros n0 k0 l0 p q Hk0 Hl0 Hq.
           assert (Hk0': ly_keynum (list_set ly k l') n0 = Some k0).
           { destruct (ly_keynum_some _ _ _ Hk0) as [l1 [Hl1 Hn1]]. rewrite <- Hn1.
             destruct (Nat.eq_dec k k0) as [<-|Hne].
             - rewrite Hl in Hl1. inversion Hl1; subst. change (l_num l1) with (l_num l').
               apply ly_keynum_nth; [rewrite Hmap; auto|]. eapply list_set_nth_same; eauto.
             - apply ly_keynum_nth; [rewrite Hmap; auto|]. rewrite list_set_nth_other; auto. }
           destruct (Nat.eq_dec k k0) as [<-|Hne].
           ++ rewrite Hl in Hl0. inversion Hl0; subst. exists l'. repeat split; auto. eapply list_set_nth_same; eauto.
           ++ exists l0. repeat split; auto. rewrite list_set_nth_other; auto.
      * rewrite <- Hnum. change (l_num l) with (l_num l'). apply ly_keynum_nth; [rewrite Hmap; auto|]. eapply list_set_nth_same; eauto.
      * exists l'. split; [eapply list_set_nth_same; eauto|]. split; auto. split.
        -- unfold layer_purpose, l'; simpl. rewrite find_last_app1. simpl. rewrite Z.eqb_refl. auto.
        -- rewrite Hpn'. destruct (purpose_eqb (Other pn) (Other pn)) eqn:E; auto. simpl in E. rewrite Z.eqb_refl in E. discriminate.
  - (* new layer *)
    unfold ly_add, ly_get in H.
    assert (Hnth: nth_error (ly ++ [layer_from_num n]) (List.length ly) = Some (layer_from_num n)).
    { rewrite nth_error_app2 by lia. rewrite Nat.sub_diag. auto. }
    rewrite Hnth in H. unfold layer_purpose in H. simpl in H. injection H as <- <- <-.
    set (l' := mklayer n None [(pn, Other pn)]).
    assert (Hset: list_set (ly ++ [layer_from_num n]) (List.length ly) l' = ly ++ [l']).
    { clear. induction ly; simpl; auto. f_equal; auto. }
    rewrite Hset.
    assert (Hnum: ~ In n (map l_num ly)).
    { intros Hin. apply in_map_iff in Hin. destruct Hin as [l [Hl Hin]]. eapply ly_keynum_none; eauto. }
    assert (Hnd': NoDup (map l_num (ly ++ [l']))) by (rewrite map_app; simpl; apply NoDup_app_snoc; auto).
    assert (Hnth': nth_error (ly ++ [l']) (List.length ly) = Some l').
    { rewrite nth_error_app2 by lia. rewrite Nat.sub_diag. auto. }
    assert (Hpre: forall k l, nth_error ly k = Some l -> nth_error (ly ++ [l']) k = Some l).
    { intros k l Hl. rewrite nth_error_app1; auto. apply nth_error_Some. congruence. }
    constructor.
    + split; auto. intros z Hz. apply in_app_or in Hz. destruct Hz as [Hz|[<-|[]]]; auto.
      unfold layer_wf, l'; simpl. repeat split; try (constructor; [intros []|constructor]).
      intros a b [E|[]]. inversion E; subst. simpl. apply Z.eqb_refl.
    + repeat split.
      * intros k p np Hr. unfold resolve_lp, ly_get in *. destruct (nth_error ly k) eqn:E; try discriminate. rewrite (Hpre _ _ E). auto.
      * intros k n0 Hr. unfold key_num, ly_get in *. destruct (nth_error ly k) eqn:E; try discriminate. rewrite (Hpre _ _ E). auto.
      * intros n0 k l p q Hk0 Hl0 Hq. exists l. repeat split; auto.
        destruct (ly_keynum_some _ _ _ Hk0) as [l1 [Hl1 Hn1]]. rewrite <- Hn1. apply ly_keynum_nth; auto.
    + change n with (l_num l') at 1. apply ly_keynum_nth; auto.
    + exists l'. repeat split; auto.
      * unfold layer_purpose, l'; simpl. rewrite Z.eqb_refl. auto.
      * unfold layer_pnum, l'; simpl. rewrite Z.eqb_refl. auto.
Qed.
