(** Specification of C16, written from the property statement (not from the code):

    "Importing a LEF library into the raw model yields one abstract cell per macro whose outline
    is the macro's size and whose pins and obstructions contain one shape per LEF rectangle,
    polygon and path, on the layer named in the LEF, with every x and y coordinate equal to the
    LEF value in microns multiplied by the number of raw units per micron, x and y kept distinct
    and independent of how many decimal digits the LEF number was written with.  A coordinate
    that is not a whole number of raw units is reported as an error instead of being rounded."

    The raw library's units are Angstrom, so there are 10^4 raw units per micron.
    No proofs in this file. *)
From Coq Require Import ZArith Bool List String.
From L21 Require Import Raw.RawLefDec Raw.RawLefTypes.
Import ListNotations.
Local Open Scope Z_scope.

Definition units_per_micron : Z := 10000.

(** The decimal [d] microns is the whole number [n] of raw units:  value(d) * 10000 = n,
    i.e. num/10^scale * 10000 = n, stated without fractions. *)
Definition scaled_is (d : dec) (n : Z) : Prop :=
  dec_num d * units_per_micron = n * pow10 (dscale d).
Definition integral_scaled (d : dec) : Prop := exists n, scaled_is d n.

(** Executable form: [Some n] when integral, [None] otherwise. *)
Definition spec_coord (d : dec) : option Z :=
  let n := dec_num d * units_per_micron in
  let p := pow10 (dscale d) in
  if n mod p =? 0 then Some (n / p) else None.

Definition spec_point (p : lpoint) : option point :=
  match spec_coord (lpx p), spec_coord (lpy p) with
  | Some x, Some y => Some (x, y)
  | _, _ => None
  end.

Fixpoint opt_all {A B : Type} (f : A -> option B) (l : list A) : option (list B) :=
  match l with
  | [] => Some []
  | a :: r => match f a, opt_all f r with
              | Some b, Some bs => Some (b :: bs)
              | _, _ => None
              end
  end.

(** One raw shape per LEF rectangle, polygon, path; a path takes the WIDTH of its LAYER
    statement (a distance, scaled like a coordinate, and not negative).  ITERATE is not one of
    the three and has no image. *)
Definition spec_shape (width : option dec) (s : lshape) : option shape :=
  match s with
  | LRect p0 p1 =>
      match spec_point p0, spec_point p1 with
      | Some a, Some b => Some (SRect a b)
      | _, _ => None
      end
  | LPolygon pts =>
      match opt_all spec_point pts with Some l => Some (SPolygon l) | None => None end
  | LPath pts =>
      match width with
      | None => None
      | Some w =>
          match spec_coord w, opt_all spec_point pts with
          | Some W, Some l => if 0 <=? W then Some (SPath W l) else None
          | _, _ => None
          end
      end
  end.

Definition spec_geom (width : option dec) (g : lgeom) : option shape :=
  match g with
  | LShape s => spec_shape width s
  | LIterate _ => None
  end.

(** The geometries written under `LAYER nm` in a list of layer statements, in order of
    appearance, each with the width in force. *)
Fixpoint geoms_named (nm : string) (lgs : list llayergeoms) : list (option dec * lgeom) :=
  match lgs with
  | [] => []
  | lg :: r =>
      (if String.eqb nm (lg_layer lg) then map (fun g => (lg_width lg, g)) (lg_geoms lg) else [])
      ++ geoms_named nm r
  end.

Definition spec_shapes_named (nm : string) (lgs : list llayergeoms) : option (list shape) :=
  opt_all (fun wg => spec_geom (fst wg) (snd wg)) (geoms_named nm lgs).

(** The per-layer shape map [M] of a port (or the blockages) realises the layer statements [lgs]
    with respect to the layer table [L]:  map keys are distinct; for every layer name used,
    the name is registered in [L], the key registered for it denotes a layer of that name, and
    the shapes under that key are exactly the images of the geometries written under that name,
    in order; and the map has no other entries. *)
Definition shapes_match (L : layers) (lgs : list llayergeoms) (M : smap) : Prop :=
  NoDup (map fst M) /\
  (forall nm, In nm (map lg_layer lgs) ->
     exists k sh, key_of_name L nm = Some k /\ name_of_key L k = Some nm /\
                  nlookup k M = Some sh /\ spec_shapes_named nm lgs = Some sh) /\
  (forall k, In k (map fst M) ->
     exists nm, In nm (map lg_layer lgs) /\ key_of_name L nm = Some k).

Definition outline_of (W H : Z) : list point := [(0, 0); (W, 0); (W, H); (0, H)].

(** The abstract [a] is the image of macro [m]. *)
Definition spec_abstract (L : layers) (m : lmacro) (a : abstract) : Prop :=
  a_name a = m_name m /\
  (exists w h W H, m_size m = Some (w, h) /\ scaled_is w W /\ scaled_is h H /\
                   a_outline a = outline_of W H) /\
  Forall2 (fun pin port => ap_net port = pin_name pin /\
                           shapes_match L (List.concat (pin_ports pin)) (ap_shapes port))
          (m_pins m) (a_ports a) /\
  shapes_match L (m_obs m) (a_blockages a).

(** Every decimal a geometry is made of: the x and y of each point, and for a path the width. *)
Definition point_coords (p : lpoint) : list dec := [lpx p; lpy p].
Definition shape_coords (width : option dec) (s : lshape) : list dec :=
  match s with
  | LRect p0 p1 => point_coords p0 ++ point_coords p1
  | LPolygon pts => flat_map point_coords pts
  | LPath pts => (match width with Some w => [w] | None => [] end) ++ flat_map point_coords pts
  end.
Definition geom_coords (width : option dec) (g : lgeom) : list dec :=
  match g with LShape s => shape_coords width s | LIterate s => shape_coords width s end.
(** All layer statements of a macro: those of its pins' ports, then the obstructions. *)
Definition macro_lgs (m : lmacro) : list llayergeoms :=
  flat_map (fun p => List.concat (pin_ports p)) (m_pins m) ++ m_obs m.

(** * Executable versions (used by the checker on the implementation's output) *)
Definition point_eqb (a b : point) : bool := (fst a =? fst b) && (snd a =? snd b).
Fixpoint list_eqb {A : Type} (eqb : A -> A -> bool) (a b : list A) : bool :=
  match a, b with
  | [], [] => true
  | x :: a', y :: b' => eqb x y && list_eqb eqb a' b'
  | _, _ => false
  end.
Definition shape_eqb (a b : shape) : bool :=
  match a, b with
  | SRect p0 p1, SRect q0 q1 => point_eqb p0 q0 && point_eqb p1 q1
  | SPolygon l, SPolygon l' => list_eqb point_eqb l l'
  | SPath w l, SPath w' l' => (w =? w') && list_eqb point_eqb l l'
  | _, _ => false
  end.
Definition ostring_eqb (a b : option string) : bool :=
  match a, b with
  | Some x, Some y => String.eqb x y
  | None, None => true
  | _, _ => false
  end.
Fixpoint nat_nodupb (l : list nat) : bool :=
  match l with
  | [] => true
  | k :: r => negb (existsb (Nat.eqb k) r) && nat_nodupb r
  end.

Definition shapes_matchb (L : layers) (lgs : list llayergeoms) (M : smap) : bool :=
  nat_nodupb (map fst M) &&
  forallb (fun nm =>
             match key_of_name L nm with
             | Some k =>
                 ostring_eqb (name_of_key L k) (Some nm) &&
                 match nlookup k M, spec_shapes_named nm lgs with
                 | Some sh, Some sh' => list_eqb shape_eqb sh sh'
                 | _, _ => false
                 end
             | None => false
             end) (map lg_layer lgs) &&
  forallb (fun k => existsb (fun nm => match key_of_name L nm with
                                       | Some k' => Nat.eqb k k'
                                       | None => false
                                       end) (map lg_layer lgs)) (map fst M).

Fixpoint forall2b {A B : Type} (f : A -> B -> bool) (a : list A) (b : list B) : bool :=
  match a, b with
  | [], [] => true
  | x :: a', y :: b' => f x y && forall2b f a' b'
  | _, _ => false
  end.

Definition spec_abstractb (L : layers) (m : lmacro) (a : abstract) : bool :=
  String.eqb (a_name a) (m_name m) &&
  match m_size m with
  | Some (w, h) =>
      match spec_coord w, spec_coord h with
      | Some W, Some H => list_eqb point_eqb (a_outline a) (outline_of W H)
      | _, _ => false
      end
  | None => false
  end &&
  forall2b (fun pin port => String.eqb (ap_net port) (pin_name pin) &&
                            shapes_matchb L (List.concat (pin_ports pin)) (ap_shapes port))
           (m_pins m) (a_ports a) &&
  shapes_matchb L (m_obs m) (a_blockages a).

(** * When the property demands success
    Every construct in the library is one the statement speaks about (a size, rectangles,
    polygons, paths with a non-negative width; no ITERATE, no EXCEPTPGNET, no non-zero SPACING /
    DESIGNRULEWIDTH, names case sensitive), every coordinate is a whole number of raw units and
    fits the raw model's 64-bit signed coordinate type.  Then an error (or a panic) is a
    violation; otherwise the statement either demands an error (non-integral coordinate) or is
    silent. *)
Definition coord_fits (n : Z) : bool := (- 2 ^ 63 <=? n) && (n <? 2 ^ 63).
Definition point_fits (p : point) : bool := coord_fits (fst p) && coord_fits (snd p).
Definition shape_fits (s : shape) : bool :=
  match s with
  | SRect a b => point_fits a && point_fits b
  | SPolygon l => forallb point_fits l
  | SPath w l => coord_fits w && forallb point_fits l
  end.
Definition spacing_absent_or_zero (s : option lspacing) : bool :=
  match s with
  | None => true
  | Some (LSpacing d) => dmant d =? 0
  | Some (LDesignRuleWidth _) => false
  end.
Definition lgs_demand_success (lgs : list llayergeoms) : bool :=
  forallb (fun lg =>
             negb (lg_except_pg lg) && spacing_absent_or_zero (lg_spacing lg) &&
             forallb (fun g => match spec_geom (lg_width lg) g with
                               | Some s => shape_fits s
                               | None => false
                               end) (lg_geoms lg)) lgs.
Definition macro_demands_success (m : lmacro) : bool :=
  match m_size m with
  | Some (w, h) =>
      match spec_coord w, spec_coord h with
      | Some W, Some H => coord_fits W && coord_fits H
      | _, _ => false
      end
  | None => false
  end &&
  forallb (fun p => lgs_demand_success (List.concat (pin_ports p))) (m_pins m) &&
  lgs_demand_success (m_obs m).
Definition lib_demands_success (lib : llib) : bool :=
  negb (lib_case_off lib) && forallb macro_demands_success (lib_macros lib).
