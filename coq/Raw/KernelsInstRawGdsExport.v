(** Reading of the generated GDSII-exporter kernels (Gen/KernelsRawGdsExportGen.v: layout21raw/src/gds.rs
    `GdsExporter::export_point / export_layerspec / export_shape` and the `PlaceLabels` impls `label_location` of Rect, Path,
    Polygon, Shape) at the level of the exporter model of C07 (Raw/RawGdsExport.v): outcomes, integers and abstract errors of
    [rc_xops] (Raw/KernelsInstRaw2.v; [ounit] forgets the model's error kinds) and the maps from the model's data to the
    generated records.  Of a GDSII element the generated records keep the fields the exporter sets (the others are
    `..Default::default()`: flags, plex, properties).  External to the generated definitions: `Polygon::contains`,
    `Vec<Point>::bbox`, `BoundBox::center` (their own ties: families contains / raw), `GdsPoint::vec` (gds21) and the layer
    table (`Layers::get`, `Layer::num`: a slot map and hash maps).  No proofs in this file. *)
From Coq Require Import ZArith Bool List String.
From L21 Require Import Base.KernelOps Base.KernelOpsX Base.KernelOpsS Base.Outcome Gen.KernelsRawGdsExportGen Raw.KernelsInstRaw2.
From L21 Require Import Raw.RawData Raw.RawGdsExport.
From L21 Require Gds.GdsData Geom.Contains.
Import ListNotations.
Local Open Scope Z_scope.
Module G := Gds.GdsData.

Definition Gpt (p : point) : gPoint unit Z := mk_gPoint (px p) (py p).
Definition unGpt (q : gPoint unit Z) : point := mkpt (gPoint_x q) (gPoint_y q).
Definition Ggp (q : G.point) : gGdsPoint unit Z := mk_gGdsPoint (G.px q) (G.py q).
Definition Gspec (s : Z * Z) : gGdsLayerSpec unit Z := mk_gGdsLayerSpec (fst s) (snd s).
Definition Gshape (s : shape) : gShape unit Z :=
  match s with
  | Rect p0 p1 => gShape_Rect (mk_gRect (Gpt p0) (Gpt p1))
  | Polygon pts => gShape_Polygon (mk_gPolygon (map Gpt pts))
  | Path pts w => gShape_Path (mk_gPath (map Gpt pts) w)
  end.
(** a GDSII element as far as the exporter builds one from a shape: boundaries and paths *)
Definition Gelem (e : G.element) : gGdsElement unit Z :=
  match e with
  | G.EBoundary b => gGdsElement_GdsBoundary (mk_gGdsBoundary (G.b_layer b) (G.b_datatype b) (map Ggp (G.b_xy b)))
  | G.EPath p => gGdsElement_GdsPath (mk_gGdsPath (G.p_layer p) (G.p_datatype p) (map Ggp (G.p_xy p)) (G.p_width p)
                                                  (G.p_path_type p) (G.p_begin_extn p) (G.p_end_extn p))
  | _ => gGdsElement_GdsNode kopaque_any
  end.
Definition Gpurp (p : purpose) : gLayerPurpose unit Z :=
  match p with
  | Drawing => gLayerPurpose_Drawing | Pin => gLayerPurpose_Pin | Label => gLayerPurpose_Label
  | Obstruction => gLayerPurpose_Obstruction | Outline => gLayerPurpose_Outline
  | Named _ k => gLayerPurpose_Named kopaque_any k
  | Other k => gLayerPurpose_Other k
  end.
Definition pt_ok (p : point) : Prop := i64_okb (px p) = true /\ i64_okb (py p) = true.

(** the exporter itself carries the library only for its layer table, which is external here *)
Definition Gx : gGdsExporter unit Z := mk_gGdsExporter (mk_gLibrary 0%nat).

(** * export_point, export_shape *)
Definition x_gpvec (l : list (Z * Z)) : ou (list (gGdsPoint unit Z)) := Ok (map (fun xy => mk_gGdsPoint (fst xy) (snd xy)) l).
Definition g_export_point (p : point) : ou (gGdsPoint unit Z) := g_GdsExporter_export_point rc_xops Gx (Gpt p).
Definition g_export_shape (s : shape) (spec : Z * Z) : ou (gGdsElement unit Z) :=
  g_GdsExporter_export_shape rc_xops x_gpvec Gx (Gshape s) (Gspec spec).

(** * export_layerspec: the layer table [ly] (`self.lib.layers.read()`), `Layers::get`, `Layer::num` for the key and
    purpose at hand (the generated layer record keeps only `layernum`) *)
Definition x_layers_get (ly : layers) (key : nat) (_ : layers) (_ : nat) : ou (option (gLayer unit Z)) :=
  Ok (option_map (fun l => mk_gLayer (l_num l)) (ly_get ly key)).
Definition x_layer_num (ly : layers) (key : nat) (p : purpose) (_ : gLayer unit Z) (_ : gLayerPurpose unit Z) : ou (option Z) :=
  Ok (match ly_get ly key with Some l => layer_pnum l p | None => None end).
Definition g_export_layerspec (ly : layers) (key : nat) (p : purpose) : ou (gGdsLayerSpec unit Z) :=
  g_GdsExporter_export_layerspec rc_xops nat layers (x_layer_num ly key p) (x_layers_get ly key) (fun _ => Ok ly) Gx key (Gpurp p).

(** * label_location *)
Definition GB (b : Contains.point * Contains.point) : gBoundBox unit Z :=
  mk_gBoundBox (mk_gPoint (fst (fst b)) (snd (fst b))) (mk_gPoint (fst (snd b)) (snd (snd b))).
(** `Vec<Point>::bbox`, `BoundBox::center`, `Polygon::contains` as the model has them ([orig]: the variant of `contains`) *)
Definition x_bbox (pts : list (gPoint unit Z)) : ou (gBoundBox unit Z) :=
  Ok (GB (Contains.points_bbox (map (fun q => pt2 (unGpt q)) pts))).
Definition x_center (b : gBoundBox unit Z) : ou (gPoint unit Z) :=
  ounit (let? x := half_sum (gPoint_x (gBoundBox_p0 b)) (gPoint_x (gBoundBox_p1 b)) in
         let? y := half_sum (gPoint_y (gBoundBox_p0 b)) (gPoint_y (gBoundBox_p1 b)) in
         Ok (mk_gPoint x y))%outcome.
Definition x_contains (orig : bool) (poly : gPolygon unit Z) (q : gPoint unit Z) : ou bool :=
  ounit (poly_contains_v orig (map unGpt (gPolygon_points poly)) (unGpt q)).
Definition g_rect_label (p0 p1 : point) : ou (gPoint unit Z) := g_Rect_label_location rc_xops (mk_gRect (Gpt p0) (Gpt p1)).
Definition g_path_label (ps : list point) (w : Z) : ou (gPoint unit Z) := g_Path_label_location rc_xops (mk_gPath (map Gpt ps) w).
Definition g_poly_label (orig : bool) (ps : list point) : ou (gPoint unit Z) :=
  g_Polygon_label_location rc_xops x_center (x_contains orig) x_bbox (mk_gPolygon (map Gpt ps)).
Definition g_label_location (orig : bool) (s : shape) : ou (gPoint unit Z) :=
  g_Shape_label_location rc_xops x_center (x_contains orig) x_bbox (Gshape s).
