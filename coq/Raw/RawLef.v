(** Model of layout21raw/src/lef.rs [LefImporter], function by function, together with the
    parts of layout21raw/src/data.rs [Layers] it calls ([keyname], [nextnum], [add]).

    The importer's mutable state is the [Layers] table behind the shared pointer; every function
    that touches it takes and returns a [layers].  The error-context stack ([ctx]) and warnings
    printed to stderr are not modelled.  [dist_scale] is the constant 10000: [import_units]
    sets it unconditionally, ignoring the LEF UNITS statement, before any distance is imported.
    Integers: [Int] = [isize] (64 bit), path width [usize]; the two [TryFrom] conversions are
    explicit.  Hash maps are association lists in first-insertion order (the importer never
    iterates over one; the checker compares them as maps).

    Two variants of [import_dist] / [import_point] are modelled: the code as found
    ([original]: [import_point] reads [pt.x] twice; [import_dist] returns [scaled.mantissa()],
    the magnitude WITHOUT the scale) and the repaired code ([repaired]: [pt.y];
    [scaled.trunc().mantissa()]).  Unsuffixed names denote the repaired variant.
    No proofs in this file. *)
From Coq Require Import ZArith Bool List String.
From L21 Require Import Base.Outcome Raw.RawLefDec Raw.RawLefTypes.
Import ListNotations.
Local Open Scope Z_scope.
Local Open Scope outcome_scope.

Definition res (A : Type) : Type := outcome ekind A.

Record variant : Type := mkvariant { v_fix_point : bool; v_fix_dist : bool }.
Definition repaired : variant := mkvariant true true.
Definition original : variant := mkvariant false false.

(** * data.rs: Layers *)
Definition zmem (k : Z) (m : list (Z * nat)) : bool :=
  match zlookup k m with Some _ => true | None => false end.

(** `for k in 0..i16::MAX { if !self.nums.contains_key(&k) { return Ok(k) } }` *)
Fixpoint nextnum_from (fuel : nat) (k : Z) (nums : list (Z * nat)) : option Z :=
  match fuel with
  | O => None
  | S f => if zmem k nums then nextnum_from f (k + 1) nums else Some k
  end.
Definition i16_max_nat : nat := Z.to_nat 32767.
Definition nextnum (L : layers) : res Z :=
  match nextnum_from i16_max_nat 0 (l_nums L) with
  | Some k => Ok k
  | None => Err ENoLayerNum
  end.

(** [Layers::add]: a new slot; the number and (if any) the name now map to it, overwriting. *)
Definition layers_add (ly : layer) (L : layers) : nat * layers :=
  let key := List.length (l_slots L) in
  (key, mklayers (l_slots L ++ [ly])
                 (zinsert (ly_num ly) key (l_nums L))
                 (match ly_name ly with Some s => sinsert s key (l_names L) | None => l_names L end)).

(** * lef.rs *)
(** [import_layer]: the key of the layer of that name, created with the next free number if absent. *)
Definition import_layer (nm : string) (L : layers) : res (nat * layers) :=
  match key_of_name L nm with
  | Some k => Ok (k, L)
  | None => let? num := nextnum L in Ok (layers_add (mklayer num (Some nm)) L)
  end.

(** [import_dist] *)
Definition import_dist_gen (fixd : bool) (d : dec) : res Z :=
  let? scaled := dec_mul_10000 d in                                  (* lefdec * LefDecimal::from(self.dist_scale) *)
  if negb (dec_fract_is_zero scaled) then Err EFract                 (* !scaled.fract().is_zero() *)
  else
    let m := if fixd then dec_mantissa (dec_trunc scaled)            (* repaired: scaled.trunc().mantissa() *)
             else dec_mantissa scaled in                             (* original: scaled.mantissa() *)
    if in_isize m then Ok m else Err ERange.                         (* .try_into()? : i128 -> isize *)

(** [import_point] *)
Definition import_point_gen (v : variant) (p : lpoint) : res point :=
  let? x := import_dist_gen (v_fix_dist v) (lpx p) in
  let? y := import_dist_gen (v_fix_dist v) (if v_fix_point v then lpy p else lpx p) in
  Ok (x, y).

(** `.iter().map(f).collect::<Result<Vec<_>,_>>()` : in order, stopping at the first failure *)
Fixpoint mapM {A B : Type} (f : A -> res B) (l : list A) : res (list B) :=
  match l with
  | [] => Ok []
  | a :: r => let? b := f a in let? bs := mapM f r in Ok (b :: bs)
  end.

(** [import_shape] with [import_rect], [import_polygon], [import_path] *)
Definition import_shape_gen (v : variant) (lg : llayergeoms) (s : lshape) : res shape :=
  match s with
  | LRect p0 p1 =>
      let? a := import_point_gen v p0 in
      let? b := import_point_gen v p1 in
      Ok (SRect a b)
  | LPolygon pts =>
      let? l := mapM (import_point_gen v) pts in Ok (SPolygon l)
  | LPath pts =>
      match lg_width lg with
      | None => Err ENoWidth
      | Some w =>
          let? w := import_dist_gen (v_fix_dist v) w in
          if w <? 0 then Err ERange                                  (* usize::try_from(width)? *)
          else let? l := mapM (import_point_gen v) pts in Ok (SPath w l)
      end
  end.

(** [import_geometry] *)
Definition import_geometry_gen (v : variant) (lg : llayergeoms) (g : lgeom) : res shape :=
  match g with
  | LShape s => import_shape_gen v lg s
  | LIterate _ => Err EIterate
  end.

(** [import_layer_geometries] *)
Definition spacing_ok (s : option lspacing) : bool :=
  match s with
  | None => true
  | Some (LSpacing d) => dec_is_zero d                               (* == Spacing(LefDecimal::ZERO) *)
  | Some (LDesignRuleWidth _) => false
  end.

Definition import_layer_geometries_gen (v : variant) (lg : llayergeoms) (L : layers)
  : res ((nat * list shape) * layers) :=
  let? (k, L1) := import_layer (lg_layer lg) L in
  if lg_except_pg lg then Err EExceptPg
  else if negb (spacing_ok (lg_spacing lg)) then Err ESpacing
  else
    let? shapes := mapM (import_geometry_gen v lg) (lg_geoms lg) in
    Ok ((k, shapes), L1).

(** `match map.entry(layerkey) { Occupied(e) => e.get_mut().extend(shapes), Vacant(e) => e.insert(shapes) }` *)
Fixpoint smap_extend (k : nat) (sh : list shape) (m : smap) : smap :=
  match m with
  | [] => [(k, sh)]
  | (k', sh') :: r => if Nat.eqb k k' then (k', sh' ++ sh) :: r else (k', sh') :: smap_extend k sh r
  end.

(** The loop shared by [import_pin] (over the layer-geometries of all ports of the pin, in
    order) and [import_abstract] (over the obstructions). *)
Fixpoint import_lgs_gen (v : variant) (lgs : list llayergeoms) (acc : smap) (L : layers)
  : res (smap * layers) :=
  match lgs with
  | [] => Ok (acc, L)
  | lg :: r =>
      let? ((k, sh), L1) := import_layer_geometries_gen v lg L in
      import_lgs_gen v r (smap_extend k sh acc) L1
  end.

(** [import_pin]: `for port in &lefpin.ports { for lef_layer_geom in &port.layers { .. } }` *)
Definition import_pin_gen (v : variant) (p : lpin) (L : layers) : res (aport * layers) :=
  let? (m, L1) := import_lgs_gen v (List.concat (pin_ports p)) [] L in
  Ok (mkaport (pin_name p) m, L1).

Fixpoint import_pins_gen (v : variant) (ps : list lpin) (L : layers) : res (list aport * layers) :=
  match ps with
  | [] => Ok ([], L)
  | p :: r =>
      let? (ap, L1) := import_pin_gen v p L in
      let? (aps, L2) := import_pins_gen v r L1 in
      Ok (ap :: aps, L2)
  end.

(** [import_abstract] *)
Definition boundary_name : string := "boundary".

Definition import_abstract_gen (v : variant) (m : lmacro) (L : layers) : res (abstract * layers) :=
  match m_size m with
  | None => Err ENoSize                                              (* "Missing LEF size" *)
  | Some (w, h) =>
      let? (x, y) := import_point_gen v (mklpoint w h) in
      (* the layer named "boundary" is looked up or created; its key is not used *)
      let? L1 := match key_of_name L boundary_name with
                 | Some _ => Ok L
                 | None => let? num := nextnum L in Ok (snd (layers_add (mklayer num (Some boundary_name)) L))
                 end in
      let outline := [(0, 0); (x, 0); (x, y); (0, y)] in
      let? (ports, L2) := import_pins_gen v (m_pins m) L1 in
      let? (blk, L3) := import_lgs_gen v (m_obs m) [] L2 in
      Ok (mkabstract (m_name m) outline ports blk, L3)
  end.

(** [import_lib] / [import_cell]: one cell per macro, in order; [Cell::from(abs)] has the
    abstract's name and no layout.  The library is named "" and its units are Angstrom. *)
Fixpoint import_macros_gen (v : variant) (ms : list lmacro) (L : layers) : res (list abstract * layers) :=
  match ms with
  | [] => Ok ([], L)
  | m :: r =>
      let? (a, L1) := import_abstract_gen v m L in
      let? (al, L2) := import_macros_gen v r L1 in
      Ok (a :: al, L2)
  end.

Definition import_lib_gen (v : variant) (lib : llib) (L : layers) : res (list abstract * layers) :=
  if lib_case_off lib then Err ECaseInsens
  else import_macros_gen v (lib_macros lib) L.

(** [LefImporter::import(plib, layers)] *)
Definition import_gen (v : variant) (lib : llib) (L0 : option layers) : res (list abstract * layers) :=
  import_lib_gen v lib (match L0 with Some L => L | None => layers_empty end).

(** * The repaired code (unsuffixed) and the code as found ([_orig]) *)
Definition import_dist : dec -> res Z := import_dist_gen true.
Definition import_dist_orig : dec -> res Z := import_dist_gen false.
Definition import_point : lpoint -> res point := import_point_gen repaired.
Definition import_point_orig : lpoint -> res point := import_point_gen original.
Definition import_shape := import_shape_gen repaired.
Definition import_geometry := import_geometry_gen repaired.
Definition import_layer_geometries := import_layer_geometries_gen repaired.
Definition import_lgs := import_lgs_gen repaired.
Definition import_pin := import_pin_gen repaired.
Definition import_pins := import_pins_gen repaired.
Definition import_abstract := import_abstract_gen repaired.
Definition import_macros := import_macros_gen repaired.
Definition import_lib := import_lib_gen repaired.
Definition import := import_gen repaired.
Definition import_orig := import_gen original.
