(** Lemmas for C06, third part: the NETS clause -- "a text label lying inside a shape on the same layer names
    that shape's net, all other labels survive as annotations" -- for the importer model Raw/RawGds.v
    ([import_layout], both passes) against a statement written on the GDSII side only.

    What `import_layout` does (layout21raw/src/gds.rs, second pass), and what is proved here ([nets_exact_gen]):
    for every struct s of an imported library, with shapes = the struct's own BOUNDARY / BOX / PATH elements in
    element order ([S.own_shapes]) and texts = its TEXT elements in element order ([S.own_texts]),
      - the i-th element of the cell's layout is the i-th shape (layer, datatype, geometry: [elem_rel]);
      - its net is [net_of texts f]: the lower-cased string of the FIRST text, in element order, that lies
        inside it ([insideb]: same layer NUMBER -- the datatype / texttype play no part -- and the text's point in
        the closed region of the shape), [None] when no text lies inside it.  So a text inside SEVERAL shapes of
        its layer names ALL of them (the loop over the layer's elements has no `break`), and of two texts inside
        one shape the FIRST wins (the second only triggers a warning when the names differ);
      - the annotations are [annots_of shapes texts]: exactly the texts inside NO shape of their layer number, in
        element order, string verbatim, location unchanged.  A text inside a shape that an earlier text already
        named is consumed all the same: it becomes neither a net nor an annotation ([C06_nets_ambiguous_example]
        in Properties/C06.v) -- under the unambiguity hypothesis of DESIGN.md section 4 this cannot happen
        ([label_count_unambiguous]).
    "Inside" ([in_geom] / [in_geomb], proved equal to the importer's `Shape::contains` whenever that returns,
    [contains_in_geom]):
      - BOUNDARY: the closed region of the NON-ZERO-WINDING rule of C13 ([CS.in_region_nz]; for simple polygons this
        is the even-odd region of the property statement, modulo the discrete Jordan step that C13 leaves unproved:
        C13_polygon_evenodd / C13_simple_winding_bound_full); a boundary imported as `Rect` and a BOX: the closed box
        ([rect4_region_nz]: the same region);
      - PATH: C13's [path_cover] with half-width [w quot 2] on axis-parallel segments ([path_cover_gen_manhattan]);
        a segment that is not axis-parallel is reached only by the repaired `Path::contains` of work/c06/fix-8
        (the code as found panics there: known finding label-on-nonmanhattan-path, so no library is returned and the
        theorem is vacuous for it); for the repaired code the test there is "projection on the segment and
        4 cross^2 <= w^2 |b-a|^2" ([seg_cover_gen]).
    [label_test_sound] completes C06_label_test_sound_partial to all three shape kinds against the three-valued
    oracle of Raw/RawGdsSpec.v ([S.label_in]), and [nets_full_fixed] is the statement the correspondence run
    evaluates on every case ([S.nets_okb], [S.annots_okb]), now a theorem.

    Parts: 1 the second pass read backwards ([pass2_inv]); 2 the first pass (buckets = positions per layer number,
    [p1_inv]); 3 the label test is the closed region; 4 own shapes against layout elements; 5 every cell comes from
    `import_layout` of the struct of its name ([origin_inv]) and [nets_exact_gen]; 6 the clauses one by one and the
    count; 7 the three-valued oracle; 8 [nets_oracle_gen], [nets_full_fixed].
    Uses Geom/Contains_proofs.v (C13) and Raw/RawGds_proofs.v, Raw/RawGdsSafe_proofs.v.  No axioms. *)
From Coq Require Import ZArith NArith List String Ascii Bool Lia Arith.
From L21 Require Import Base.F64 Base.Hex Raw.RawData Raw.RawGds Raw.RawFlatten Raw.RawGds_proofs Raw.RawGdsSafe_proofs Raw.RawGdsCheck.
From L21 Require Gds.GdsData Raw.RawGdsSpec Geom.Contains Geom.ContainsSpec Geom.ContainsCheck Geom.Contains_proofs.
Import ListNotations.
Local Open Scope Z_scope.
Module CC := Geom.ContainsCheck.


(* ---- n1 ---- *)

(* ---- part 1: the second pass, exactly ---- *)
Definition tloc (t : G.textelem) : point := import_point (G.t_xy t).
Definition label_name (t : G.textelem) : string := lower (str_of_bytes (G.t_string t)).
Definition annot_of (t : G.textelem) : textelem := mktext (str_of_bytes (G.t_string t)) (tloc t).

Definition cont (c : cfg) (loc : point) (e : element) : bool :=
  match shape_contains c (e_shape e) loc with IOk b => b | _ => false end.
Definition cont_ok (c : cfg) (loc : point) (e : element) : Prop :=
  exists b, shape_contains c (e_shape e) loc = IOk b.
Definition setnet (name : string) (e : element) : element :=
  match e_net e with Some _ => e | None => mkelem (Some name) (e_layer e) (e_purpose e) (e_shape e) end.

Lemma setnet_shape : forall nm e, e_shape (setnet nm e) = e_shape e.
Proof. intros nm e. unfold setnet. destruct (e_net e); reflexivity. Qed.
Lemma setnet_layer : forall nm e, e_layer (setnet nm e) = e_layer e.
Proof. intros nm e. unfold setnet. destruct (e_net e); reflexivity. Qed.
Lemma setnet_purpose : forall nm e, e_purpose (setnet nm e) = e_purpose e.
Proof. intros nm e. unfold setnet. destruct (e_net e); reflexivity. Qed.

Fixpoint positions (P : element -> bool) (E : list element) (start : nat) : list nat :=
  match E with
  | [] => []
  | e :: r => if P e then start :: positions P r (S start) else positions P r (S start)
  end.
Lemma positions_app : forall P E F s,
  positions P (E ++ F) s = positions P E s ++ positions P F (s + List.length E)%nat.
Proof.
  intros P E F. induction E as [|e r IH]; intro s; cbn [app positions List.length].
  - rewrite Nat.add_0_r. reflexivity.
  - rewrite IH. replace (S s + List.length r)%nat with (s + S (List.length r))%nat by lia.
    destruct (P e); reflexivity.
Qed.
Lemma positions_ext : forall P Q E s, (forall e, In e E -> P e = Q e) -> positions P E s = positions Q E s.
Proof.
  intros P Q E. induction E as [|e r IH]; intros s H; cbn [positions]; [reflexivity|].
  rewrite (H e (or_introl eq_refl)), (IH (S s)); [reflexivity|]. intros x Hx. apply H. right. exact Hx.
Qed.
Lemma positions_none : forall P E s, positions P E s = [] -> forall e, In e E -> P e = false.
Proof.
  intros P E. induction E as [|e r IH]; intros s H x Hx; [destruct Hx|].
  cbn [positions] in H. destruct (P e) eqn:F; [discriminate|].
  destruct Hx as [<-|Hx]; [exact F | eapply IH; eassumption].
Qed.

Lemma bucket_get_add2 : forall B n k m,
  bucket_get (bucket_add B n k) m =
  if m =? n then Some (match bucket_get B n with Some ks => ks ++ [k] | None => [k] end)
  else bucket_get B m.
Proof.
  intros B n k m. induction B as [|[n' ks] r IH]; cbn [bucket_add bucket_get].
  - destruct (Z.eqb_spec n m), (Z.eqb_spec m n); try reflexivity; congruence.
  - destruct (Z.eqb_spec n' n) as [->|Hn]; cbn [bucket_get].
    + destruct (Z.eqb_spec n m), (Z.eqb_spec m n); try reflexivity; congruence.
    + rewrite IH. destruct (Z.eqb_spec n' m), (Z.eqb_spec m n); try reflexivity; congruence.
Qed.

Lemma list_set_mid : forall (A : Type) (pre : list A) x y suf,
  list_set (pre ++ x :: suf) (List.length pre) y = pre ++ y :: suf.
Proof. intros A pre x y suf. induction pre as [|a r IH]; cbn; [reflexivity | rewrite IH; reflexivity]. Qed.
Lemma nth_mid : forall (A : Type) (pre : list A) x suf, nth_error (pre ++ x :: suf) (List.length pre) = Some x.
Proof. intros A pre x suf. induction pre as [|a r IH]; cbn; [reflexivity | exact IH]. Qed.

Section Bucket.
  Variable c : cfg.
  Variable P : element -> bool.

  Definition upd (name : string) (loc : point) (e : element) : element :=
    if P e && cont c loc e then setnet name e else e.

  (** the inner loop, read backwards: when it returns, every element of the bucket was tested, every
      one that holds the point got the name unless it had one, and [hit] says whether one did *)
  Lemma label_bucket_inv : forall name loc suf pre hit E' h',
    label_bucket c name loc (pre ++ suf) hit (positions P suf (List.length pre)) = IOk (E', h') ->
    Forall (fun e => P e = true -> cont_ok c loc e) suf /\
    E' = pre ++ map (upd name loc) suf /\
    h' = hit || existsb (fun e => P e && cont c loc e) suf.
  Proof.
    intros name loc. induction suf as [|e r IH]; intros pre hit E' h' H; cbn [positions map existsb] in *.
    - cbn [label_bucket] in H. injection H as <- <-. rewrite orb_false_r. repeat split. constructor.
    - assert (Hre : forall x, pre ++ x :: r = (pre ++ [x]) ++ r) by (intro x; rewrite <- app_assoc; reflexivity).
      assert (Hlen : forall x, S (List.length pre) = List.length (pre ++ [x])) by (intro x; rewrite app_length; cbn; lia).
      unfold upd at 1. unfold cont at 1 2.
      destruct (P e) eqn:Pe; cbn [andb].
      + cbn [label_bucket] in H. rewrite nth_mid in H.
        destruct (shape_contains c (e_shape e) loc) as [b| | |] eqn:Hb; try discriminate. cbn [ibind] in H.
        destruct b.
        * rewrite list_set_mid in H. fold (setnet name e) in H.
          rewrite (Hre (setnet name e)), (Hlen (setnet name e)) in H. apply IH in H. destruct H as (F & -> & ->).
          split; [constructor; [intros _; exists true; exact Hb | exact F]|].
          split; [rewrite <- app_assoc; reflexivity|]. cbn [orb]. rewrite orb_true_r. reflexivity.
        * rewrite (Hre e), (Hlen e) in H. apply IH in H. destruct H as (F & -> & ->).
          split; [constructor; [intros _; exists false; exact Hb | exact F]|].
          split; [rewrite <- app_assoc; reflexivity | reflexivity].
      + rewrite (Hre e), (Hlen e) in H. apply IH in H. destruct H as (F & -> & ->).
        split; [constructor; [intro HH; rewrite Pe in HH; discriminate HH | exact F]|].
        split; [rewrite <- app_assoc; reflexivity | reflexivity].
  Qed.
End Bucket.

Section Pass2.
  Variable c : cfg.
  Variable enum : element -> Z.
  Hypothesis enum_setnet : forall nm e, enum (setnet nm e) = enum e.

  Definition on_num (n : Z) (e : element) : bool := enum e =? n.
  Definition Binv (B : list (Z * list nat)) (E : list element) : Prop :=
    forall n, bucket_get B n = match positions (on_num n) E 0 with [] => None | ks => Some ks end.

  Lemma Binv_nil : Binv [] [].
  Proof. intro n. reflexivity. Qed.
  Lemma Binv_add : forall B E e, Binv B E -> Binv (bucket_add B (enum e) (List.length E)) (E ++ [e]).
  Proof.
    intros B E e H n. rewrite bucket_get_add2, positions_app. cbn [positions]. unfold on_num at 2. cbn [Nat.add].
    rewrite (Z.eqb_sym (enum e) n).
    destruct (n =? enum e) eqn:F.
    - apply Z.eqb_eq in F. subst n. rewrite H. destruct (positions (on_num (enum e)) E 0); reflexivity.
    - rewrite app_nil_r. apply H.
  Qed.

  Definition hits (t : G.textelem) (e : element) : bool := on_num (G.t_layer t) e && cont c (tloc t) e.
  Definition upd_t (t : G.textelem) (e : element) : element := if hits t e then setnet (label_name t) e else e.
  (** every (label, element of the label's layer number) pair went through `contains` and it returned *)
  Definition tested (T : list G.textelem) (E : list element) : Prop :=
    forall t e, In t T -> In e E -> enum e = G.t_layer t -> cont_ok c (tloc t) e.

  Lemma upd_t_shape : forall t e, e_shape (upd_t t e) = e_shape e.
  Proof. intros t e. unfold upd_t. destruct (hits t e); [apply setnet_shape | reflexivity]. Qed.
  Lemma upd_t_enum : forall t e, enum (upd_t t e) = enum e.
  Proof. intros t e. unfold upd_t. destruct (hits t e); [apply enum_setnet | reflexivity]. Qed.
  Lemma hits_upd : forall t u e, hits t (upd_t u e) = hits t e.
  Proof. intros t u e. unfold hits, on_num, cont. rewrite upd_t_enum, upd_t_shape. reflexivity. Qed.
  Lemma positions_map_upd : forall n u E s, positions (on_num n) (map (upd_t u) E) s = positions (on_num n) E s.
  Proof.
    intros n u E. induction E as [|e r IH]; intro s; cbn [map positions]; [reflexivity|].
    rewrite IH. unfold on_num at 1 3. rewrite upd_t_enum. reflexivity.
  Qed.
  Lemma Binv_map_upd : forall B E u, Binv B E -> Binv B (map (upd_t u) E).
  Proof. intros B E u H n. rewrite positions_map_upd. apply H. Qed.
  Lemma existsb_hits_map : forall t u E, existsb (hits t) (map (upd_t u) E) = existsb (hits t) E.
  Proof. intros t u E. induction E as [|e r IH]; cbn [map existsb]; [reflexivity | rewrite hits_upd, IH; reflexivity]. Qed.
  Lemma tested_map_upd : forall T E u, tested T (map (upd_t u) E) -> tested T E.
  Proof.
    intros T E u H t e Ht He Hn.
    destruct (H t (upd_t u e) Ht (in_map _ _ _ He)) as [b Hb]; [rewrite upd_t_enum; exact Hn|].
    exists b. rewrite upd_t_shape in Hb. exact Hb.
  Qed.

  Lemma pass2_inv : forall B T E annots E' A',
    Binv B E -> pass2 c B E annots T = IOk (E', A') ->
    tested T E /\
    E' = fold_left (fun E t => map (upd_t t) E) T E /\
    A' = annots ++ map annot_of (filter (fun t => negb (existsb (hits t) E)) T).
  Proof.
    intros B. induction T as [|t r IH]; intros E annots E' A' HB H; cbn [pass2 fold_left filter map] in *.
    - injection H as <- <-. rewrite app_nil_r. split; [intros t e []|]. split; reflexivity.
    - rewrite HB in H. fold (tloc t) in H.
      destruct (positions (on_num (G.t_layer t)) E 0) as [|k ks] eqn:Epos.
      + assert (Hno : forall e, In e E -> hits t e = false).
        { intros e He. unfold hits. rewrite (positions_none _ _ _ Epos e He). reflexivity. }
        assert (Hmap : map (upd_t t) E = E).
        { rewrite <- (map_id E) at 2. apply map_ext_in. intros e He. unfold upd_t. rewrite (Hno e He). reflexivity. }
        assert (Hex : existsb (hits t) E = false).
        { apply not_true_is_false. intro Hx. apply existsb_exists in Hx. destruct Hx as [e [He Hh]].
          rewrite (Hno e He) in Hh. discriminate. }
        rewrite Hex, Hmap. cbn [negb map].
        destruct (IH E _ _ _ HB H) as (Ht & -> & ->).
        split; [|split; [reflexivity | rewrite <- app_assoc; reflexivity]].
        intros u e [<-|Hu] He Hn; [|exact (Ht u e Hu He Hn)].
        exfalso. pose proof (positions_none _ _ _ Epos e He) as Hf. unfold on_num in Hf. rewrite Hn, Z.eqb_refl in Hf. discriminate.
      + rewrite <- Epos in H.
        destruct (label_bucket c (lower (str_of_bytes (G.t_string t))) (tloc t) E false
                               (positions (on_num (G.t_layer t)) E 0)) as [[el h]| | |] eqn:LB; try discriminate.
        cbn [ibind fst snd] in H.
        destruct (label_bucket_inv c (on_num (G.t_layer t)) _ (tloc t) E [] false el h LB) as (F & Hel & Hh).
        cbn [app orb] in Hel, Hh.
        change (map (upd c (on_num (G.t_layer t)) (lower (str_of_bytes (G.t_string t))) (tloc t)) E)
          with (map (upd_t t) E) in Hel.
        change (existsb (fun e => on_num (G.t_layer t) e && cont c (tloc t) e) E) with (existsb (hits t) E) in Hh.
        subst el h.
        assert (Hfe : filter (fun t0 => negb (existsb (hits t0) (map (upd_t t) E))) r =
                      filter (fun t0 => negb (existsb (hits t0) E)) r)
          by (apply filter_ext; intro u; rewrite existsb_hits_map; reflexivity).
        assert (Htest : forall Tr, tested Tr (map (upd_t t) E) -> tested (t :: Tr) E).
        { intros Tr Ht u e [<-|Hu] He Hn.
          - rewrite Forall_forall in F. apply (F e He). unfold on_num. rewrite Hn. apply Z.eqb_refl.
          - exact (tested_map_upd _ _ _ Ht u e Hu He Hn). }
        destruct (existsb (hits t) E) eqn:Hex; cbn [negb].
        * destruct (IH _ _ _ _ (Binv_map_upd _ _ t HB) H) as (Ht & -> & ->).
          split; [apply Htest; exact Ht|]. split; [reflexivity | rewrite Hfe; reflexivity].
        * destruct (IH _ _ _ _ (Binv_map_upd _ _ t HB) H) as (Ht & -> & ->).
          split; [apply Htest; exact Ht|]. split; [reflexivity|]. rewrite Hfe. cbn [map]. rewrite <- app_assoc. reflexivity.
  Qed.

  Lemma fold_upd_map : forall T E,
    fold_left (fun E t => map (upd_t t) E) T E = map (fun e => fold_left (fun e t => upd_t t e) T e) E.
  Proof.
    induction T as [|t r IH]; intro E; cbn [fold_left].
    - rewrite map_id. reflexivity.
    - rewrite IH, map_map. reflexivity.
  Qed.

  (** one element through all labels: the FIRST label that holds it names it; nothing else changes *)
  Lemma fold_upd_fields : forall T e,
    let e' := fold_left (fun e t => upd_t t e) T e in
    e_layer e' = e_layer e /\ e_purpose e' = e_purpose e /\ e_shape e' = e_shape e /\
    e_net e' = match e_net e with
               | Some x => Some x
               | None => option_map label_name (find (fun t => hits t e) T)
               end.
  Proof.
    induction T as [|t r IH]; intro e; cbn [fold_left find].
    - destruct (e_net e); repeat split; reflexivity.
    - destruct (IH (upd_t t e)) as (H1 & H2 & H3 & H4). cbv zeta in *.
      rewrite H1, H2, H3, H4. clear H1 H2 H3 H4.
      assert (Hh : forall u, hits u (upd_t t e) = hits u e) by (intro u; apply hits_upd).
      assert (Hf : find (fun t0 => hits t0 (upd_t t e)) r = find (fun t0 => hits t0 e) r).
      { clear -Hh. induction r as [|u r IH]; cbn [find]; [reflexivity|]. rewrite Hh, IH. reflexivity. }
      rewrite Hf. unfold upd_t. destruct (hits t e) eqn:Ht.
      + unfold setnet. destruct (e_net e) eqn:En.
        * rewrite En. repeat split; reflexivity.
        * cbn [e_layer e_purpose e_shape e_net option_map]. repeat split; reflexivity.
      + repeat split; reflexivity.
  Qed.
End Pass2.

(* ---- n2 ---- *)

(* ---- part 2: the first pass ---- *)
Definition enum_of (ly : layers) (e : element) : Z :=
  match ly_get ly (e_layer e) with Some l => l_num l | None => -1 end.
Lemma enum_of_setnet : forall ly nm e, enum_of ly (setnet nm e) = enum_of ly e.
Proof. intros ly nm e. unfold enum_of. rewrite setnet_layer. reflexivity. Qed.

Definition num_stable (ly ly' : layers) : Prop :=
  forall k l, nth_error ly k = Some l -> exists l', nth_error ly' k = Some l' /\ l_num l' = l_num l.
Lemma num_stable_refl : forall ly, num_stable ly ly.
Proof. intros ly k l H. exists l. split; [exact H | reflexivity]. Qed.
Lemma num_stable_trans : forall a b c, num_stable a b -> num_stable b c -> num_stable a c.
Proof.
  intros a b c H1 H2 k l H. destruct (H1 k l H) as [l1 [A B]]. destruct (H2 k l1 A) as [l2 [A2 B2]].
  exists l2. split; [exact A2 | congruence].
Qed.
Lemma num_stable_app : forall ly x, num_stable ly (ly ++ x).
Proof.
  intros ly x k l H. exists l. split; [|reflexivity].
  rewrite nth_error_app1; [exact H | apply nth_error_Some; congruence].
Qed.
Lemma num_stable_set : forall ly k0 l0 new,
  nth_error ly k0 = Some l0 -> l_num new = l_num l0 -> num_stable ly (list_set ly k0 new).
Proof.
  intros ly k0 l0 new H0 Hn k l H. destruct (Nat.eq_dec k k0) as [->|Hne].
  - exists new. split; [eapply nth_error_list_set_same; exact H0 | congruence].
  - exists l. split; [rewrite nth_error_list_set_other by exact Hne; exact H | reflexivity].
Qed.

Lemma goi_num_stable : forall ly n pn ly' key purp,
  get_or_insert ly n pn = (ly', key, purp) -> num_stable ly ly'.
Proof.
  intros ly n pn ly' key purp H. unfold get_or_insert in H.
  destruct (ly_keynum ly n) as [k0|].
  - destruct (ly_get ly k0) as [l0|] eqn:E0.
    + destruct (layer_purpose l0 pn).
      * injection H as <- _ _. apply num_stable_refl.
      * injection H as <- _ _. eapply num_stable_set; [exact E0 | reflexivity].
    + injection H as <- _ _. apply num_stable_refl.
  - unfold ly_add in H.
    destruct (ly_get (ly ++ [layer_from_num n]) (List.length ly)) as [l0|] eqn:E0.
    + destruct (layer_purpose l0 pn).
      * injection H as <- _ _. apply num_stable_app.
      * injection H as <- _ _. eapply num_stable_trans; [apply num_stable_app|].
        eapply num_stable_set; [exact E0 | reflexivity].
    + injection H as <- _ _. apply num_stable_app.
Qed.

Lemma Binv_enum_ext : forall enum enum' B E,
  (forall e, In e E -> enum e = enum' e) -> Binv enum B E -> Binv enum' B E.
Proof.
  intros enum enum' B E H HB n. rewrite (HB n).
  rewrite (positions_ext (on_num enum n) (on_num enum' n) E 0); [reflexivity|].
  intros e He. unfold on_num. rewrite (H e He). reflexivity.
Qed.

(** what the first pass keeps true: the buckets list, per layer NUMBER, the positions of the elements whose
    layer has that number, in order; no element has a net yet *)
Definition p1_inv (s : pass1) : Prop :=
  Binv (enum_of (p_layers s)) (p_buckets s) (p_elems s) /\
  Forall (fun e => e_net e = None /\ ly_get (p_layers s) (e_layer e) <> None) (p_elems s).

Lemma enum_of_stable : forall ly ly' e,
  num_stable ly ly' -> ly_get ly (e_layer e) <> None -> enum_of ly' e = enum_of ly e /\ ly_get ly' (e_layer e) <> None.
Proof.
  intros ly ly' e Hs Hv. unfold enum_of, ly_get in *.
  destruct (nth_error ly (e_layer e)) as [l|] eqn:E; [|contradiction].
  destruct (Hs _ _ E) as [l' [A B]]. rewrite A. split; [exact B | discriminate].
Qed.

Lemma add_element_inv : forall s ly' e s' n pn,
  ly_inv (p_layers s) -> p1_inv s ->
  (ly', e_layer e, e_purpose e) = get_or_insert (p_layers s) n pn -> e_net e = None ->
  add_element s (ly', e) = IOk s' -> p1_inv s'.
Proof.
  intros s ly' e s' n pn Hinv [HB HF] Hgoi Hnet H. symmetry in Hgoi.
  pose proof (goi_num_stable _ _ _ _ _ _ Hgoi) as Hst.
  unfold add_element in H. destruct (ly_get ly' (e_layer e)) as [l|] eqn:El; [|discriminate].
  injection H as <-. unfold p1_inv. cbn [p_layers p_buckets p_elems].
  assert (Hold : forall e0, In e0 (p_elems s) -> enum_of ly' e0 = enum_of (p_layers s) e0 /\ ly_get ly' (e_layer e0) <> None).
  { intros e0 He0. rewrite Forall_forall in HF. apply enum_of_stable; [exact Hst | exact (proj2 (HF e0 He0))]. }
  split.
  - replace (l_num l) with (enum_of ly' e) by (unfold enum_of; rewrite El; reflexivity).
    apply Binv_add. eapply Binv_enum_ext; [|exact HB]. intros e0 He0. symmetry. exact (proj1 (Hold e0 He0)).
  - apply Forall_app. split.
    + apply Forall_forall. intros e0 He0. rewrite Forall_forall in HF. split; [exact (proj1 (HF e0 He0)) | exact (proj2 (Hold e0 He0))].
    + constructor; [|constructor]. split; [exact Hnet | rewrite El; discriminate].
Qed.

Lemma pass1_step_inv : forall c cm, cfg_ok c -> forall e s s',
  ly_inv (p_layers s) -> p1_inv s -> pass1_step c cm s e = IOk s' -> p1_inv s'.
Proof.
  intros c cm (Hdims & Hdeg & Hlat & Hempty & Hmag & Hwidth) e s s' Hinv Hp H.
  destruct e as [b|p|r|a|t|n|b]; cbn [pass1_step] in H.
  - destruct (import_boundary c (p_layers s) b) as [[ly e]| | |] eqn:Eb; try discriminate. cbn [ibind] in H.
    destruct (import_boundary_rel _ _ _ _ _ Eb) as [gm [_ [_ [Hn Hgoi]]]].
    eapply add_element_inv; eassumption.
  - destruct (import_path c (p_layers s) p) as [[ly e]| | |] eqn:Eb; try discriminate. cbn [ibind] in H.
    destruct (import_path_rel _ _ _ _ _ Hwidth Eb) as [gm [_ [_ [Hn Hgoi]]]].
    eapply add_element_inv; eassumption.
  - destruct (import_instance c cm r) as [i| | |]; try discriminate. cbn [ibind] in H. injection H as <-. exact Hp.
  - destruct (import_instance_array c cm a) as [oi| | |]; try discriminate. cbn [ibind] in H. injection H as <-. exact Hp.
  - injection H as <-. exact Hp.
  - injection H as <-. exact Hp.
  - destruct (import_box (p_layers s) b) as [[ly e]| | |] eqn:Eb; try discriminate. cbn [ibind] in H.
    destruct (import_box_rel _ _ _ _ Eb) as [_ [_ [Hn Hgoi]]].
    eapply add_element_inv; eassumption.
Qed.

Lemma pass1_all_inv : forall c cm, cfg_ok c -> forall es s s',
  ly_inv (p_layers s) -> p1_inv s -> pass1_all c cm s es = IOk s' -> p1_inv s'.
Proof.
  intros c cm Hc. induction es as [|e es IH]; intros s s' Hinv Hp H; cbn [pass1_all] in H.
  - injection H as <-. exact Hp.
  - destruct (pass1_step c cm s e) as [s1| | |] eqn:Es; try discriminate. cbn [ibind] in H.
    destruct (pass1_step_rel c cm Hc e s s1 Hinv Es) as [Hinv1 _].
    exact (IH s1 s' Hinv1 (pass1_step_inv c cm Hc e s s1 Hinv Hp Es) H).
Qed.

Lemma p1_inv_init : forall ly, p1_inv (mkp1 ly [] [] [] []).
Proof. intro ly. split; [apply Binv_nil | constructor]. Qed.

Lemma find_ext_all : forall (A : Type) (f g : A -> bool) l, (forall x, f x = g x) -> find f l = find g l.
Proof. intros A f g l H. induction l as [|x r IH]; cbn [find]; [reflexivity|]. rewrite H, IH. reflexivity. Qed.
Lemma existsb_map_ext : forall (A B : Type) (f : B -> bool) (g : A -> bool) (h : A -> B) l,
  (forall x, f (h x) = g x) -> existsb f (map h l) = existsb g l.
Proof. intros A B f g h l H. induction l as [|x r IH]; cbn [map existsb]; [reflexivity|]. rewrite H, IH. reflexivity. Qed.

(** * one struct: the nets and annotations of the layout, from its own elements *)
Lemma hits_same : forall c enum t e e',
  enum e' = enum e -> e_shape e' = e_shape e -> hits c enum t e' = hits c enum t e.
Proof. intros c enum t e e' H1 H2. unfold hits, on_num, cont. rewrite H1, H2. reflexivity. Qed.

Lemma import_layout_nets : forall c cm ly s ly' l,
  cfg_ok c -> ly_inv ly -> import_layout c cm ly s = IOk (ly', l) ->
  let T := S.own_texts s in
  let enum := enum_of ly' in
  tested c enum T (lay_elems l) /\
  map e_net (lay_elems l) = map (fun e => option_map label_name (find (fun t => hits c enum t e) T)) (lay_elems l) /\
  lay_annots l = map annot_of (filter (fun t => negb (existsb (hits c enum t) (lay_elems l))) T).
Proof.
  intros c cm ly s ly' l Hc Hinv H T enum. unfold import_layout in H.
  destruct (pass1_all c cm (mkp1 ly [] [] [] []) (G.s_elems s)) as [p| | |] eqn:E1; try discriminate. cbn [ibind] in H.
  destruct (pass2 c (p_buckets p) (p_elems p) [] (p_texts p)) as [[el an]| | |] eqn:E2; try discriminate. cbn [ibind] in H.
  injection H as <- <-. cbn [fst snd lay_elems lay_annots].
  destruct (pass1_all_rel c cm Hc _ (mkp1 ly [] [] [] []) _ Hinv E1) as [_ [_ [elems [insts [_ [_ [Ht _]]]]]]].
  cbn [p_texts app] in Ht. change (texts_of (G.s_elems s)) with T in Ht. rewrite Ht in E2.
  destruct (pass1_all_inv c cm Hc _ (mkp1 ly [] [] [] []) _ Hinv (p1_inv_init ly) E1) as [HB HF]. cbn [p_layers] in HB, HF. fold enum in HB.
  destruct (pass2_inv c enum (enum_of_setnet _) _ _ _ _ _ _ HB E2) as (Htest & -> & ->). cbn [app].
  rewrite (fold_upd_map c enum).
  set (fin := fun e => fold_left (fun e0 t => upd_t c enum t e0) T e).
  assert (Hfin : forall e, enum (fin e) = enum e /\ e_shape (fin e) = e_shape e /\
                           e_net (fin e) = match e_net e with Some x => Some x | None => option_map label_name (find (fun t => hits c enum t e) T) end).
  { intro e. destruct (fold_upd_fields c enum (enum_of_setnet _) T e) as (H1 & _ & H3 & H4). cbv zeta in *. fold (fin e) in H1, H3, H4.
    split; [unfold enum, enum_of; rewrite H1; reflexivity | split; assumption]. }
  assert (Hh : forall t e, hits c enum t (fin e) = hits c enum t e).
  { intros t e. destruct (Hfin e) as (A & B & _). apply hits_same; assumption. }
  split; [|split].
  - intros t e' Ht' He' Hn. apply in_map_iff in He'. destruct He' as [e [<- He]].
    destruct (Hfin e) as (A & B & _). destruct (Htest t e Ht' He) as [b Hb]; [congruence|].
    exists b. rewrite B. exact Hb.
  - rewrite !map_map. apply map_ext_in. intros e He. destruct (Hfin e) as (_ & _ & Cn). rewrite Cn.
    rewrite Forall_forall in HF. rewrite (proj1 (HF e He)).
    f_equal. apply find_ext_all. intro t. symmetry. apply Hh.
  - f_equal. apply filter_ext. intro t. f_equal.
    symmetry. apply existsb_map_ext. intro e. apply Hh.
Qed.

(* ---- n3 ---- *)

(* ---- part 3: the label test is the closed region ---- *)
Definition dotp (a b q : CS.pt) : Z :=
  (CS.px q - CS.px a) * (CS.px b - CS.px a) + (CS.py q - CS.py a) * (CS.py b - CS.py a).
Definition len2 (a b : CS.pt) : Z :=
  (CS.px b - CS.px a) * (CS.px b - CS.px a) + (CS.py b - CS.py a) * (CS.py b - CS.py a).

(** what `Path::contains` tests for one segment: the rectangle of half-width [w quot 2] around an
    axis-parallel segment (C13's [seg_cover]); for any other segment (only the repaired `Path::contains`
    gets that far) the projection falls on the segment and the perpendicular distance is at most w/2,
    exactly: 0 <= (q-a).(b-a) <= |b-a|^2 and 4 cross^2 <= w^2 |b-a|^2 *)
Definition seg_cover_gen (w : Z) (a b q : CS.pt) : Prop :=
  CP.seg_cover (Z.quot w 2) a b q \/
  (CS.px a <> CS.px b /\ CS.py a <> CS.py b /\ 0 <= dotp a b q <= len2 a b /\
   4 * (CS.cross a b q * CS.cross a b q) <= w * w * len2 a b).
Definition path_cover_gen (w : Z) (ps : list CS.pt) (q : CS.pt) : Prop :=
  exists a b, In (a, b) (CS.chain ps) /\ seg_cover_gen w a b q.

Definition seg_coverb (w : Z) (a b q : CS.pt) : bool :=
  if CS.px a =? CS.px b then
    (Z.abs (CS.px q - CS.px a) <=? Z.quot w 2) && (Z.min (CS.py a) (CS.py b) <=? CS.py q) && (CS.py q <=? Z.max (CS.py a) (CS.py b))
  else if CS.py a =? CS.py b then
    (Z.abs (CS.py q - CS.py a) <=? Z.quot w 2) && (Z.min (CS.px a) (CS.px b) <=? CS.px q) && (CS.px q <=? Z.max (CS.px a) (CS.px b))
  else
    (0 <=? dotp a b q) && (dotp a b q <=? len2 a b) && (4 * (CS.cross a b q * CS.cross a b q) <=? w * w * len2 a b).
Definition path_coverb (w : Z) (ps : list CS.pt) (q : CS.pt) : bool :=
  existsb (fun e => seg_coverb w (fst e) (snd e) q) (CS.chain ps).

Lemma seg_coverb_spec : forall w a b q, seg_coverb w a b q = true <-> seg_cover_gen w a b q.
Proof.
  intros w a b q. unfold seg_coverb, seg_cover_gen, CP.seg_cover.
  destruct (Z.eqb_spec (CS.px a) (CS.px b)) as [Ex|Ex].
  - rewrite !andb_true_iff, !Z.leb_le. split.
    + intros [[H1 H2] H3]. left. left. repeat split; assumption.
    + intros [[(_ & H1 & H2 & H3) | (Hc & _)] | (Hc & _)]; [repeat split; assumption | contradiction | contradiction].
  - destruct (Z.eqb_spec (CS.py a) (CS.py b)) as [Ey|Ey].
    + rewrite !andb_true_iff, !Z.leb_le. split.
      * intros [[H1 H2] H3]. left. right. repeat split; assumption.
      * intros [[(Hc & _) | (_ & _ & H1 & H2 & H3)] | (_ & Hc & _)]; [contradiction | repeat split; assumption | contradiction].
    + rewrite !andb_true_iff, !Z.leb_le. split.
      * intros [[H1 H2] H3]. right. repeat split; assumption.
      * intros [[(Hc & _) | (_ & Hc & _)] | (_ & _ & [H1 H2] & H3)]; [contradiction | contradiction | repeat split; assumption].
Qed.
Lemma path_coverb_spec : forall w ps q, path_coverb w ps q = true <-> path_cover_gen w ps q.
Proof.
  intros w ps q. unfold path_coverb, path_cover_gen. rewrite existsb_exists. split.
  - intros [[a b] [Hin H]]. exists a, b. split; [exact Hin | apply seg_coverb_spec; exact H].
  - intros [a [b [Hin H]]]. exists (a, b). split; [exact Hin | apply seg_coverb_spec; exact H].
Qed.
(** on a Manhattan path this is C13's [path_cover] *)
Lemma path_cover_gen_manhattan : forall w ps q,
  Forall (fun e => CS.manhattan_seg (fst e) (snd e)) (CS.chain ps) ->
  (path_cover_gen w ps q <-> CP.path_cover (Z.quot w 2) ps q).
Proof.
  intros w ps q Hm. unfold path_cover_gen, CP.path_cover. split.
  - intros [a [b [Hin [H | (Hx & Hy & _)]]]]; [exists a, b; split; assumption|].
    exfalso. rewrite Forall_forall in Hm. destruct (Hm (a, b) Hin) as [H|H]; cbn [fst snd] in H; contradiction.
  - intros [a [b [Hin H]]]. exists a, b. split; [exact Hin | left; exact H].
Qed.

Lemma rect_v : forall ax ay by_ hw q, 0 <= hw ->
  C.rect_contains (ax - hw, ay) (ax + hw, by_) q =
  (Z.abs (fst q - ax) <=? hw) && (Z.min ay by_ <=? snd q) && (snd q <=? Z.max ay by_).
Proof.
  intros ax ay by_ hw [qx qy] Hhw. apply eq_true_iff_eq. unfold C.rect_contains, C.X, C.Y. cbn [fst snd].
  rewrite !andb_true_iff, !Z.leb_le. lia.
Qed.
Lemma rect_h : forall ax bx ay hw q, 0 <= hw ->
  C.rect_contains (ax, ay - hw) (bx, ay + hw) q =
  (Z.abs (snd q - ay) <=? hw) && (Z.min ax bx <=? fst q) && (fst q <=? Z.max ax bx).
Proof.
  intros ax bx ay hw [qx qy] Hhw. apply eq_true_iff_eq. unfold C.rect_contains, C.X, C.Y. cbn [fst snd].
  rewrite !andb_true_iff, !Z.leb_le. lia.
Qed.
Lemma sqrt_test : forall n x, 0 <= n -> (2 * Z.abs x <=? Z.sqrt n) = (4 * (x * x) <=? n).
Proof.
  intros n x Hn. apply eq_true_iff_eq. rewrite !Z.leb_le.
  rewrite <- (Z.sqrt_le_square n (2 * Z.abs x)) by lia.
  replace (2 * Z.abs x * (2 * Z.abs x)) with (4 * (Z.abs x * Z.abs x)) by ring. rewrite Z.abs_square. reflexivity.
Qed.

Lemma quot2_nonneg : forall w, 0 <= w -> 0 <= Z.quot w 2.
Proof. intros w H. apply Z.quot_pos; lia. Qed.

(** `Path::contains` as found: whenever it returns (it panics on reaching a non-axis-parallel segment) *)
Lemma path_scan_coverb : forall ps w q b, 0 <= w ->
  C.path_scan ps (Z.quot w 2) q = C.Ret b -> b = path_coverb w ps q.
Proof.
  induction ps as [|a ps IH]; intros w q b Hw H; [cbn in H; injection H as <-; reflexivity|].
  destruct ps as [|b0 ps]; [cbn in H; injection H as <-; reflexivity|].
  pose proof (quot2_nonneg w Hw) as Hhw.
  rewrite CP.path_scan_cons2 in H. cbv zeta in H.
  unfold path_coverb. change (CS.chain (a :: b0 :: ps)) with ((a, b0) :: CS.chain (b0 :: ps)). cbn [existsb fst snd].
  fold (path_coverb w (b0 :: ps) q). unfold seg_coverb.
  destruct a as [ax ay], b0 as [bx by_]. unfold C.X, C.Y, CS.px, CS.py in *. cbn [fst snd] in *.
  destruct (ax =? bx) eqn:Ex.
  - destruct (C.all_in_int _); [|discriminate]. rewrite rect_v in H by exact Hhw.
    destruct ((Z.abs (fst q - ax) <=? Z.quot w 2) && (Z.min ay by_ <=? snd q) && (snd q <=? Z.max ay by_)).
    + injection H as <-. reflexivity.
    + cbn [orb]. exact (IH w q b Hw H).
  - destruct (ay =? by_) eqn:Ey; [|discriminate].
    destruct (C.all_in_int _); [|discriminate]. rewrite rect_h in H by exact Hhw.
    destruct ((Z.abs (snd q - ay) <=? Z.quot w 2) && (Z.min ax bx <=? fst q) && (fst q <=? Z.max ax bx)).
    + injection H as <-. reflexivity.
    + cbn [orb]. exact (IH w q b Hw H).
Qed.

(** `Path::contains` with the repair of work/c06/fix-8 (general segments) *)
Lemma path_scan_fixed_coverb : forall ps w q b, 0 <= w ->
  path_scan_fixed ps w q = C.Ret b -> b = path_coverb w ps q.
Proof.
  induction ps as [|a ps IH]; intros w q b Hw H; [cbn in H; injection H as <-; reflexivity|].
  destruct ps as [|b0 ps]; [cbn in H; injection H as <-; reflexivity|].
  pose proof (quot2_nonneg w Hw) as Hhw.
  rewrite path_scan_fixed_cons2 in H. cbv zeta in H.
  unfold path_coverb. change (CS.chain (a :: b0 :: ps)) with ((a, b0) :: CS.chain (b0 :: ps)). cbn [existsb fst snd].
  fold (path_coverb w (b0 :: ps) q). unfold seg_coverb.
  destruct a as [ax ay], b0 as [bx by_], q as [qx qy]. unfold dotp, len2, CS.cross, C.X, C.Y, CS.px, CS.py in *. cbn [fst snd] in *.
  destruct (ax =? bx) eqn:Ex.
  - destruct (C.all_in_int _); [|discriminate]. rewrite rect_v in H by exact Hhw. cbn [fst snd] in H.
    destruct ((Z.abs (qx - ax) <=? Z.quot w 2) && (Z.min ay by_ <=? qy) && (qy <=? Z.max ay by_)).
    + injection H as <-. reflexivity.
    + cbn [orb]. exact (IH w (qx, qy) b Hw H).
  - destruct (ay =? by_) eqn:Ey.
    + destruct (C.all_in_int _); [|discriminate]. rewrite rect_h in H by exact Hhw. cbn [fst snd] in H.
      destruct ((Z.abs (qy - ay) <=? Z.quot w 2) && (Z.min ax bx <=? qx) && (qx <=? Z.max ax bx)).
      * injection H as <-. reflexivity.
      * cbn [orb]. exact (IH w (qx, qy) b Hw H).
    + destruct (C.all_in_i128 _ && _ && _ && _); [|discriminate].
      assert (Hl : 0 <= w * w * ((bx - ax) * (bx - ax) + (by_ - ay) * (by_ - ay))).
      { apply Z.mul_nonneg_nonneg; [apply Z.square_nonneg|]. pose proof (Z.square_nonneg (bx - ax)). pose proof (Z.square_nonneg (by_ - ay)). lia. }
      rewrite (sqrt_test _ _ Hl) in H.
      replace ((bx - ax) * (qy - ay) - (by_ - ay) * (qx - ax)) with ((bx - ax) * (qy - ay) - (qx - ax) * (by_ - ay)) in H by ring.
      destruct ((0 <=? (qx - ax) * (bx - ax) + (qy - ay) * (by_ - ay)) &&
                ((qx - ax) * (bx - ax) + (qy - ay) * (by_ - ay) <=? (bx - ax) * (bx - ax) + (by_ - ay) * (by_ - ay)) &&
                (4 * (((bx - ax) * (qy - ay) - (qx - ax) * (by_ - ay)) * ((bx - ax) * (qy - ay) - (qx - ax) * (by_ - ay))) <=?
                 w * w * ((bx - ax) * (bx - ax) + (by_ - ay) * (by_ - ay)))).
      * injection H as <-. reflexivity.
      * cbn [orb]. exact (IH w (qx, qy) b Hw H).
Qed.

(** * the three shape kinds *)
Definition in_geomb (gm : S.geom) (q : CS.pt) : bool :=
  match gm with
  | S.GPoly P => CC.in_region_nzb P q
  | S.GPath ps w => path_coverb w ps q
  end.
Definition in_geom (gm : S.geom) (q : CS.pt) : Prop :=
  match gm with
  | S.GPoly P => CS.in_region_nz P q
  | S.GPath ps w => path_cover_gen w ps q
  end.
Lemma in_geomb_spec : forall gm q, in_geomb gm q = true <-> in_geom gm q.
Proof. intros [P|ps w] q; cbn [in_geomb in_geom]; [apply CP.in_region_nzb_spec | apply path_coverb_spec]. Qed.
Definition geom_wf (gm : S.geom) : Prop := match gm with S.GPath _ w => 0 <= w | _ => True end.

(** a rectangle given by its four corners in order (either sense, any start corner) is the closed box *)
Lemma rect4_region_nz : forall a b c d q, S.rect4 a b c d = true -> (CS.in_region_nz [a; b; c; d] q <-> CS.in_box a c q).
Proof.
  intros a b c d q H. apply rect4_iff in H.
  destruct a as [ax ay], b as [bx by_], c as [cx cy], d as [dx dy]. cbn [fst snd] in H.
  destruct H as [(H1 & H2 & H3 & H4) | (H1 & H2 & H3 & H4)].
  - replace bx with ax by exact H1. replace by_ with cy by (symmetry; exact H2).
    replace dx with cx by exact H3. replace dy with ay by (symmetry; exact H4).
    exact (proj2 (CP.rect_poly_all_variants (ax, ay) (cx, cy) [(ax, cy); (cx, cy); (cx, ay)] [(ax, ay)] q (or_intror eq_refl))).
  - replace by_ with ay by exact H1. replace bx with cx by (symmetry; exact H2).
    replace dy with cy by exact H3. replace dx with ax by exact H4.
    exact (proj2 (CP.rect_poly_all_variants (ax, ay) (cx, cy) [] [(ax, ay); (cx, ay); (cx, cy); (ax, cy)] q (or_introl eq_refl))).
Qed.

Lemma cpt_rpt : forall p, cpt p = S.rpt p.
Proof. intros [x y]. reflexivity. Qed.
Lemma map_cpt_rpt : forall l, map cpt l = map S.rpt l.
Proof. intro l. apply map_ext. exact cpt_rpt. Qed.

(** the importer's label test, whenever it returns, IS membership of the closed region of the GDSII
    element's geometry: rectangle, polygon (`Polygon::contains` as repaired for C13), path (either
    `Path::contains`) *)
Theorem contains_in_geom : forall c sh gm q b,
  fx_contains c = true -> shape_rel sh gm -> geom_wf gm ->
  shape_contains c sh q = IOk b -> b = in_geomb gm (S.rpt q).
Proof.
  intros c sh gm q b Hc Hrel Hwf H. unfold shape_contains, contains_res in H.
  destruct Hrel as [pts | a b0 c0 d Hr | pts w]; cbn [shape_c in_geomb geom_wf] in *.
  - rewrite Hc in H. destruct (C.poly_contains (map cpt pts) (cpt q)) as [b'| |] eqn:E; try discriminate. injection H as <-.
    rewrite map_cpt_rpt, cpt_rpt in E. apply eq_true_iff_eq.
    rewrite (CP.poly_contains_nz _ _ _ E). symmetry. apply CP.in_region_nzb_spec.
  - injection H as <-. rewrite !cpt_rpt. apply eq_true_iff_eq.
    rewrite CP.rect_contains_spec, CP.in_region_nzb_spec. symmetry. apply rect4_region_nz. exact Hr.
  - rewrite map_cpt_rpt, cpt_rpt in H. destruct (fx_pathdiag c).
    + unfold path_contains_fixed in H. destruct (negb (C.in_int w)); [discriminate|].
      destruct (path_scan_fixed (map S.rpt pts) w (S.rpt q)) as [b'| |] eqn:E.
      * destruct (map S.rpt pts); [discriminate|]. injection H as <-. eapply path_scan_fixed_coverb; eassumption.
      * destruct (map S.rpt pts); discriminate.
      * destruct (map S.rpt pts); discriminate.
    + unfold C.path_contains in H. destruct (negb (C.in_int w)); [discriminate|].
      destruct (C.path_scan (map S.rpt pts) (Z.quot w 2) (S.rpt q)) as [b'| |] eqn:E.
      * destruct (map S.rpt pts); [discriminate|]. injection H as <-. eapply path_scan_coverb; eassumption.
      * destruct (map S.rpt pts); discriminate.
      * destruct (map S.rpt pts); discriminate.
Qed.

(* ---- n4 ---- *)

(* ---- part 4: a struct's own shapes and the layout's elements ---- *)
Definition own_comp (e : G.element) : S.sres (list S.fshape) :=
  match e with
  | G.EBoundary b => S.smap (fun gm => [S.mkfs (G.b_layer b) (G.b_datatype b) gm]) (S.boundary_geom b)
  | G.EBox b => S.smap (fun gm => [S.mkfs (G.x_layer b) (G.x_boxtype b) gm]) (S.box_geom b)
  | G.EPath p => S.smap (fun gm => [S.mkfs (G.p_layer p) (G.p_datatype p) gm]) (S.path_geom p)
  | _ => S.SOk []
  end.
Lemma own_shapes_eq : forall s, S.own_shapes s = S.sconcat (map own_comp (G.s_elems s)).
Proof. reflexivity. Qed.

Lemma sconcat_cons_ok : forall (A : Type) (x : S.sres (list A)) l r,
  S.sconcat (x :: l) = S.SOk r -> exists a b, x = S.SOk a /\ S.sconcat l = S.SOk b /\ r = a ++ b.
Proof.
  intros A x l r H. cbn [S.sconcat] in H. destruct x as [a| |]; destruct (S.sconcat l) as [b| |]; cbn in H; try discriminate.
  injection H as <-. exists a, b. repeat split.
Qed.
Lemma sconcat_cons_err : forall (A : Type) (x : S.sres (list A)) l,
  x <> S.SErr -> S.sconcat l <> S.SErr -> S.sconcat (x :: l) <> S.SErr.
Proof.
  intros A x l Hx Hl. cbn [S.sconcat]. destruct x as [a| |]; [|contradiction|]; destruct (S.sconcat l) as [b| |]; cbn; try discriminate; contradiction.
Qed.
Lemma smap_ok : forall (A B : Type) (f : A -> B) x y, S.smap f x = S.SOk y -> exists a, x = S.SOk a /\ y = f a.
Proof. intros A B f [a| |] y H; cbn in H; try discriminate. injection H as <-. exists a. split; reflexivity. Qed.
Lemma smap_err : forall (A B : Type) (f : A -> B) x, x <> S.SErr -> S.smap f x <> S.SErr.
Proof. intros A B f [a| |] H; cbn; [discriminate | contradiction | discriminate]. Qed.

Lemma items_rel_own : forall ly cm es elems insts, items_rel ly cm es elems insts ->
  S.sconcat (map own_comp es) <> S.SErr /\
  forall shapes, S.sconcat (map own_comp es) = S.SOk shapes -> Forall2 (elem_rel ly) elems shapes.
Proof.
  intros ly cm es elems insts H.
  induction H as [| b es e elems insts He H IH | b es e elems insts He H IH | p es e elems insts He H IH
                  | r es i elems insts Hr H IH | a es new elems insts Hr H IH | t es elems insts H IH | n es elems insts H IH];
    cbn [map]; try destruct IH as [IH1 IH2].
  - split; [discriminate|]. intros shapes Hs. injection Hs as <-. constructor.
  - destruct He as [Hres [Hne Hsh]]. split; [apply sconcat_cons_err; [apply smap_err; exact Hne | exact IH1]|].
    intros shapes Hs. apply sconcat_cons_ok in Hs. destruct Hs as (a & b0 & Ha & Hb & ->).
    apply smap_ok in Ha. destruct Ha as (gm & Hg & ->). cbn [app].
    constructor; [split; [exact Hres | apply Hsh; exact Hg] | apply IH2; exact Hb].
  - destruct He as [Hres [Hne Hsh]]. split; [apply sconcat_cons_err; [apply smap_err; exact Hne | exact IH1]|].
    intros shapes Hs. apply sconcat_cons_ok in Hs. destruct Hs as (a & b0 & Ha & Hb & ->).
    apply smap_ok in Ha. destruct Ha as (gm & Hg & ->). cbn [app].
    constructor; [split; [exact Hres | apply Hsh; exact Hg] | apply IH2; exact Hb].
  - destruct He as [Hres [Hne Hsh]]. split; [apply sconcat_cons_err; [apply smap_err; exact Hne | exact IH1]|].
    intros shapes Hs. apply sconcat_cons_ok in Hs. destruct Hs as (a & b0 & Ha & Hb & ->).
    apply smap_ok in Ha. destruct Ha as (gm & Hg & ->). cbn [app].
    constructor; [split; [exact Hres | apply Hsh; exact Hg] | apply IH2; exact Hb].
  - split; [apply sconcat_cons_err; [discriminate | exact IH1]|].
    intros shapes Hs. apply sconcat_cons_ok in Hs. destruct Hs as (a & b0 & Ha & Hb & ->). injection Ha as <-. apply IH2; exact Hb.
  - split; [apply sconcat_cons_err; [discriminate | exact IH1]|].
    intros shapes Hs. apply sconcat_cons_ok in Hs. destruct Hs as (a0 & b0 & Ha & Hb & ->). injection Ha as <-. apply IH2; exact Hb.
  - split; [apply sconcat_cons_err; [discriminate | exact IH1]|].
    intros shapes Hs. apply sconcat_cons_ok in Hs. destruct Hs as (a & b0 & Ha & Hb & ->). injection Ha as <-. apply IH2; exact Hb.
  - split; [apply sconcat_cons_err; [discriminate | exact IH1]|].
    intros shapes Hs. apply sconcat_cons_ok in Hs. destruct Hs as (a & b0 & Ha & Hb & ->). injection Ha as <-. apply IH2; exact Hb.
Qed.

(** widths of the specification's paths are magnitudes *)
Lemma own_shapes_wf : forall es shapes,
  S.sconcat (map own_comp es) = S.SOk shapes -> Forall (fun f => geom_wf (S.fs_geom f)) shapes.
Proof.
  induction es as [|e es IH]; intros shapes H; cbn [map] in H.
  - injection H as <-. constructor.
  - apply sconcat_cons_ok in H. destruct H as (a & b & Ha & Hb & ->). apply Forall_app. split; [|apply IH; exact Hb].
    destruct e as [x|x|x|x|x|x|x]; cbn [own_comp] in Ha; try (injection Ha as <-; constructor).
    + apply smap_ok in Ha. destruct Ha as (gm & Hg & ->). constructor; [|constructor]. cbn [S.fs_geom].
      unfold S.boundary_geom in Hg. destruct (map S.gpt (G.b_xy x)); [discriminate|].
      destruct (S.pt_eqb _ _); [|discriminate]. injection Hg as <-. exact I.
    + apply smap_ok in Ha. destruct Ha as (gm & Hg & ->). constructor; [|constructor]. cbn [S.fs_geom].
      unfold S.path_geom in Hg. destruct (map S.gpt (G.p_xy x)); [discriminate|]. injection Hg as <-.
      cbn [geom_wf]. destruct (G.p_width x); [apply Z.abs_nonneg | lia].
    + apply smap_ok in Ha. destruct Ha as (gm & Hg & ->). constructor; [|constructor]. cbn [S.fs_geom].
      unfold S.box_geom in Hg. destruct (map S.gpt (G.x_xy x)) as [|q0 [|q1 [|q2 [|q3 [|q4 [|q5 r]]]]]]; try discriminate.
      destruct (_ && _); [|discriminate]. injection Hg as <-. exact I.
Qed.

(* ---- the statement's vocabulary, on the GDSII side only ---- *)
(** the label [t] lies inside the shape [f] of its struct: same layer NUMBER (the datatype plays no part) and
    the label's point in the closed region of the shape *)
Definition insideb (t : G.textelem) (f : S.fshape) : bool :=
  (G.t_layer t =? S.fs_layer f) && in_geomb (S.fs_geom f) (S.gpt (G.t_xy t)).
Definition inside (t : G.textelem) (f : S.fshape) : Prop :=
  G.t_layer t = S.fs_layer f /\ in_geom (S.fs_geom f) (S.gpt (G.t_xy t)).
Lemma insideb_spec : forall t f, insideb t f = true <-> inside t f.
Proof. intros t f. unfold insideb, inside. rewrite andb_true_iff, Z.eqb_eq, in_geomb_spec. reflexivity. Qed.

(** the net of a shape: the lower-cased string of the FIRST label (in element order) inside it *)
Definition net_of (texts : list G.textelem) (f : S.fshape) : option string :=
  option_map label_name (find (fun t => insideb t f) texts).
(** the annotations: the labels inside no shape, in element order, string and location unchanged *)
Definition is_annot (shapes : list S.fshape) (t : G.textelem) : bool := negb (existsb (insideb t) shapes).
Definition annots_of (shapes : list S.fshape) (texts : list G.textelem) : list textelem :=
  map annot_of (filter (is_annot shapes) texts).

Lemma Forall2_imp : forall (A B : Type) (R R' : A -> B -> Prop),
  (forall a b, R a b -> R' a b) -> forall l l', Forall2 R l l' -> Forall2 R' l l'.
Proof. intros A B R R' H l l' F. induction F; constructor; auto. Qed.
Lemma Forall2_In_l : forall (A B : Type) (R : A -> B -> Prop) l l',
  Forall2 R l l' -> Forall2 (fun x y => In x l /\ R x y) l l'.
Proof.
  intros A B R l l' H. induction H as [|x y l l' Hxy H IH]; [constructor|].
  constructor; [split; [left; reflexivity | exact Hxy]|].
  eapply Forall2_imp; [|exact IH]. intros a b [Ha Hab]. split; [right; exact Ha | exact Hab].
Qed.
Lemma map_Forall2_eq : forall (A B C : Type) (p : A -> C) (q : B -> C) l l',
  Forall2 (fun x y => p x = q y) l l' -> map p l = map q l'.
Proof. intros A B C p q l l' H. induction H as [|x y l l' Hxy H IH]; cbn [map]; [reflexivity | rewrite Hxy, IH; reflexivity]. Qed.
Lemma existsb_Forall2_eq : forall (A B : Type) (p : A -> bool) (q : B -> bool) l l',
  Forall2 (fun x y => p x = q y) l l' -> existsb p l = existsb q l'.
Proof. intros A B p q l l' H. induction H as [|x y l l' Hxy H IH]; cbn [existsb]; [reflexivity | rewrite Hxy, IH; reflexivity]. Qed.
Lemma find_ext_in : forall (A : Type) (f g : A -> bool) l, (forall x, In x l -> f x = g x) -> find f l = find g l.
Proof.
  intros A f g l H. induction l as [|x r IH]; cbn [find]; [reflexivity|].
  rewrite (H x (or_introl eq_refl)), IH; [reflexivity|]. intros y Hy. apply H. right. exact Hy.
Qed.
Lemma filter_ext_in2 : forall (A : Type) (f g : A -> bool) l, (forall x, In x l -> f x = g x) -> filter f l = filter g l.
Proof.
  intros A f g l H. induction l as [|x r IH]; cbn [filter]; [reflexivity|].
  rewrite (H x (or_introl eq_refl)), IH; [reflexivity|]. intros y Hy. apply H. right. exact Hy.
Qed.

Lemma elem_rel_enum : forall ly e f, elem_rel ly e f -> enum_of ly e = S.fs_layer f.
Proof.
  intros ly e f [H _]. unfold resolve_lp in H. unfold enum_of. destruct (ly_get ly (e_layer e)) as [l|]; [|discriminate].
  destruct (layer_pnum l (e_purpose e)); [|discriminate]. injection H as H _. exact H.
Qed.

Lemma hits_inside : forall c ly T elems shapes,
  fx_contains c = true -> Forall2 (elem_rel ly) elems shapes ->
  Forall (fun f => geom_wf (S.fs_geom f)) shapes -> tested c (enum_of ly) T elems ->
  Forall2 (fun e f => forall t, In t T -> hits c (enum_of ly) t e = insideb t f) elems shapes.
Proof.
  intros c ly T elems shapes Hfc F2. induction F2 as [|e f el sh Hef F2 IH]; intros Hwf Htest; [constructor|].
  inversion Hwf as [|? ? Hwf1 Hwf2]; subst.
  constructor; [|apply IH; [exact Hwf2 | intros t e0 Ht He0; apply Htest; [exact Ht | right; exact He0]]].
  intros t Ht. unfold hits, insideb, on_num. rewrite (elem_rel_enum _ _ _ Hef).
  rewrite (Z.eqb_sym (S.fs_layer f) (G.t_layer t)).
  destruct (Z.eqb_spec (G.t_layer t) (S.fs_layer f)) as [Eq|Ne]; [|reflexivity]. cbn [andb].
  destruct (Htest t e Ht (or_introl eq_refl)) as [b Hb]; [rewrite (elem_rel_enum _ _ _ Hef); congruence|].
  unfold cont. rewrite Hb. rewrite (contains_in_geom c _ _ _ _ Hfc (proj2 Hef) Hwf1 Hb).
  unfold tloc. rewrite rpt_import_point. reflexivity.
Qed.

(** one struct, exactly *)
Lemma layout_nets_exact : forall c cm ly s ly' l shapes,
  cfg_ok c -> fx_contains c = true -> ly_inv ly ->
  import_layout c cm ly s = IOk (ly', l) -> S.own_shapes s = S.SOk shapes ->
  Forall2 (elem_rel ly') (lay_elems l) shapes /\
  map e_net (lay_elems l) = map (net_of (S.own_texts s)) shapes /\
  lay_annots l = annots_of shapes (S.own_texts s).
Proof.
  intros c cm ly s ly' l shapes Hc Hfc Hinv H Hown.
  destruct (import_layout_rel c cm ly s ly' l Hc Hinv H) as (_ & _ & _ & Hrel).
  rewrite own_shapes_eq in Hown.
  pose proof (proj2 (items_rel_own _ _ _ _ _ Hrel) shapes Hown) as F2.
  pose proof (own_shapes_wf _ _ Hown) as Hwf.
  destruct (import_layout_nets c cm ly s ly' l Hc Hinv H) as (Htest & Hnets & Hann).
  set (T := S.own_texts s) in *. set (enum := enum_of ly') in *.
  pose proof (hits_inside c ly' T _ _ Hfc F2 Hwf Htest) as F3. fold enum in F3.
  split; [exact F2|]. split.
  - rewrite Hnets. apply map_Forall2_eq. eapply Forall2_imp; [|exact F3].
    intros e f Hef. cbv beta. unfold net_of. f_equal. apply find_ext_in. exact Hef.
  - rewrite Hann. unfold annots_of. f_equal. apply filter_ext_in2. intros t Ht. unfold is_annot. f_equal.
    apply existsb_Forall2_eq. eapply Forall2_imp; [|exact F3]. intros e f Hef. apply Hef. exact Ht.
Qed.

(* ---- part 5: the whole library: every cell comes from `import_layout` of the struct of its name ---- *)
Section Origin.
Variable c : cfg.
Variable g : G.library.

Definition origin_ok (ly : layers) (cells : list cell) (nm : G.bytes) (k : nat) : Prop :=
  exists s cm' ly1 ly2 l, In s (G.l_structs g) /\ G.s_name s = nm /\ ly_inv ly1 /\
    import_layout c cm' ly1 s = IOk (ly2, l) /\ ly_mono ly2 ly /\
    nth_error cells k = Some (mkcell (str_of_bytes nm) None (Some l)).
Definition origin_inv (ly : layers) (cells : list cell) (cm : cell_map) : Prop :=
  ly_inv ly /\ forall nm k, cm_get cm nm = Some k -> origin_ok ly cells nm k.

Lemma origin_ok_mono : forall ly ly' cells new nm k,
  ly_mono ly ly' -> origin_ok ly cells nm k -> origin_ok ly' (cells ++ new) nm k.
Proof.
  intros ly ly' cells new nm k Hm (s & cm' & ly1 & ly2 & l & H1 & H2 & H3 & H4 & H5 & H6).
  exists s, cm', ly1, ly2, l. repeat split; try assumption.
  - eapply ly_mono_trans; eassumption.
  - rewrite nth_error_app1; [exact H6 | apply nth_error_Some; congruence].
Qed.

Lemma import_and_add_origin : forall st s st',
  cfg_ok c -> In s (G.l_structs g) -> origin_inv (is_layers st) (is_cells st) (is_map st) ->
  import_and_add c st s = IOk st' -> origin_inv (is_layers st') (is_cells st') (is_map st').
Proof.
  intros st s st' Hc Hin [Hinv Hcm] H. unfold import_and_add in H.
  destruct (cm_get (is_map st) (G.s_name s)) as [k|] eqn:Eget.
  - injection H as <-. split; assumption.
  - destruct (import_layout c (is_map st) (is_layers st) s) as [[ly' l]| | |] eqn:El; try discriminate.
    cbn [ibind fst snd] in H. injection H as <-. cbn [is_layers is_cells is_map].
    destruct (import_layout_rel _ _ _ _ _ _ Hc Hinv El) as [Hinv' [Hmono _]].
    split; [exact Hinv'|]. intros nm k Hk. rewrite cm_get_app in Hk.
    destruct (cm_get (is_map st) nm) as [k0|] eqn:E0.
    + injection Hk as <-. apply (origin_ok_mono (is_layers st)); [exact Hmono | apply Hcm; exact E0].
    + destruct (zlist_eqb (G.s_name s) nm) eqn:En; [|discriminate]. injection Hk as <-.
      apply zlist_eqb_eq in En. subst nm.
      exists s, (is_map st), (is_layers st), ly', l. repeat split; try assumption.
      * apply ly_mono_refl.
      * rewrite nth_error_app2 by lia. rewrite Nat.sub_diag. reflexivity.
Qed.

Lemma import_structs_origin : forall order st st',
  cfg_ok c -> origin_inv (is_layers st) (is_cells st) (is_map st) ->
  import_structs c (G.l_structs g) st order = IOk st' -> origin_inv (is_layers st') (is_cells st') (is_map st').
Proof.
  induction order as [|i order IH]; intros st st' Hc Hinv H; cbn [import_structs] in H.
  - injection H as <-. exact Hinv.
  - destruct (nth_error (G.l_structs g) (N.to_nat i)) as [s|] eqn:Es; [|discriminate].
    destruct (import_and_add c st s) as [st1| | |] eqn:Ea; try discriminate. cbn [ibind] in H.
    apply (IH st1 st' Hc); [|exact H].
    eapply import_and_add_origin; [exact Hc | eapply nth_error_In; exact Es | exact Hinv | exact Ea].
Qed.
End Origin.

Lemma elem_rel_mono : forall ly ly' e f, ly_mono ly ly' -> elem_rel ly e f -> elem_rel ly' e f.
Proof. intros ly ly' e f Hm [H1 H2]. split; [apply Hm; exact H1 | exact H2]. Qed.

(** * The nets clause, exactly, for every importer variant with the six repairs and `Polygon::contains`
    as repaired, every layer table whose purposes are the importer's own *)
Theorem nets_exact_gen : forall c ly0 g L,
  cfg_ok c -> fx_contains c = true -> ly_inv ly0 -> S.names_distinct g = true ->
  import_lib c ly0 g = IOk L ->
  forall s, In s (G.l_structs g) -> S.own_shapes s <> S.SSilent ->
  exists k cl l shapes,
    nth_error (lib_cells L) k = Some cl /\ c_name cl = str_of_bytes (G.s_name s) /\ c_layout cl = Some l /\
    S.own_shapes s = S.SOk shapes /\
    Forall2 (elem_rel (lib_layers L)) (lay_elems l) shapes /\
    map e_net (lay_elems l) = map (net_of (S.own_texts s)) shapes /\
    lay_annots l = annots_of shapes (S.own_texts s).
Proof.
  intros c ly0 g L Hc Hfc Hly Hnd H s Hs Hns. unfold import_lib in H.
  destruct (import_units c (G.l_units g)) as [u| | |]; try discriminate. cbn [ibind] in H.
  destruct (gds_order (G.l_structs g)) as [order| | |] eqn:Eo; try discriminate.
  destruct (import_structs c (G.l_structs g) (mkist ly0 [] []) order) as [st| | |] eqn:Es; try discriminate.
  cbn [ibind] in H. injection H as <-. cbn [lib_layers lib_cells].
  destruct (import_structs_inv g c order (mkist ly0 [] []) st Hc) as [_ [_ Hall]]; [| apply lib_inv_init; exact Hly | exact Es |].
  { intros i s0 _ Hn. apply find_struct_self; [exact Hnd | eapply nth_error_In; exact Hn]. }
  assert (Horig : origin_inv c g (is_layers st) (is_cells st) (is_map st)).
  { apply (import_structs_origin c g order (mkist ly0 [] []) st Hc); [|exact Es].
    split; [exact Hly|]. intros nm k Hk. discriminate. }
  destruct (In_nth_error _ _ Hs) as [i Hi].
  assert (Hlt : (i < List.length (G.l_structs g))%nat) by (apply nth_error_Some; congruence).
  destruct (Hall (N.of_nat i) (gds_order_complete _ _ _ Eo Hlt)) as [s' [Hn' Hget]].
  rewrite Nat2N.id, Hi in Hn'. injection Hn' as <-.
  destruct (cm_get (is_map st) (G.s_name s)) as [k|] eqn:Ek; [|congruence].
  destruct (proj2 Horig _ _ Ek) as (s' & cm' & ly1 & ly2 & l & Hin' & Hname & Hinv1 & Himp & Hmono & Hnth).
  assert (s' = s).
  { pose proof (find_struct_self g s Hnd Hs) as A. pose proof (find_struct_self g s' Hnd Hin') as B.
    rewrite Hname in B. congruence. }
  subst s'.
  destruct (import_layout_rel c cm' ly1 s ly2 l Hc Hinv1 Himp) as (_ & _ & _ & Hrel).
  destruct (sres_cases _ _ (proj1 (items_rel_own _ _ _ _ _ Hrel)) Hns) as [shapes Hsh].
  destruct (layout_nets_exact c cm' ly1 s ly2 l shapes Hc Hfc Hinv1 Himp Hsh) as (F2 & Hnets & Hann).
  exists k, (mkcell (str_of_bytes (G.s_name s)) None (Some l)), l, shapes.
  split; [exact Hnth|]. split; [reflexivity|]. split; [reflexivity|]. split; [exact Hsh|].
  split; [|split; assumption].
  eapply Forall2_imp; [|exact F2]. intros e f. apply elem_rel_mono. exact Hmono.
Qed.

(* ---- n5 ---- *)

(* ---- part 6: what the exact statement says, clause by clause ---- *)
Lemma find_first : forall (A : Type) (p : A -> bool) l x,
  find p l = Some x <-> exists l1 l2, l = l1 ++ x :: l2 /\ p x = true /\ forall y, In y l1 -> p y = false.
Proof.
  intros A p l x. induction l as [|a r IH]; cbn [find].
  - split; [discriminate|]. intros (l1 & l2 & H & _). destruct l1; discriminate.
  - destruct (p a) eqn:Pa.
    + split.
      * intro H. injection H as <-. exists [], r. repeat split; [exact Pa | intros y []].
      * intros (l1 & l2 & H & Px & Hn). destruct l1 as [|b l1]; cbn in H.
        -- injection H as -> _. reflexivity.
        -- injection H as <- _. rewrite (Hn a (or_introl eq_refl)) in Pa. discriminate.
    + rewrite IH. split.
      * intros (l1 & l2 & -> & Px & Hn). exists (a :: l1), l2. repeat split; [exact Px|].
        intros y [<-|Hy]; [exact Pa | apply Hn; exact Hy].
      * intros (l1 & l2 & H & Px & Hn). destruct l1 as [|b l1]; cbn in H.
        -- injection H as -> _. rewrite Px in Pa. discriminate.
        -- injection H as <- ->. exists l1, l2. repeat split; [exact Px|]. intros y Hy. apply Hn. right. exact Hy.
Qed.
Lemma find_none_iff : forall (A : Type) (p : A -> bool) l, find p l = None <-> forall x, In x l -> p x = false.
Proof.
  intros A p l. split; [apply find_none|]. intro H. induction l as [|a r IH]; cbn [find]; [reflexivity|].
  rewrite (H a (or_introl eq_refl)). apply IH. intros x Hx. apply H. right. exact Hx.
Qed.

(** (i) the net of a shape is the lower-cased string of the FIRST label inside it ... *)
Theorem net_of_some : forall texts f n,
  net_of texts f = Some n <->
  exists t1 t t2, texts = t1 ++ t :: t2 /\ insideb t f = true /\ (forall t', In t' t1 -> insideb t' f = false) /\
                  n = label_name t.
Proof.
  intros texts f n. unfold net_of. split.
  - destruct (find (fun t => insideb t f) texts) as [t|] eqn:E; [|discriminate]. cbn [option_map]. intro H. injection H as <-.
    apply find_first in E. destruct E as (l1 & l2 & H1 & H2 & H3). exists l1, t, l2. repeat split; assumption.
  - intros (l1 & t & l2 & H1 & H2 & H3 & ->).
    assert (E : find (fun t0 => insideb t0 f) texts = Some t) by (apply find_first; exists l1, l2; repeat split; assumption).
    rewrite E. reflexivity.
Qed.
(** ... so every shape that holds a label gets a net, and it is the name of a label inside it ... *)
Theorem net_of_inside : forall texts f t, In t texts -> insideb t f = true ->
  exists t', In t' texts /\ insideb t' f = true /\ net_of texts f = Some (label_name t').
Proof.
  intros texts f t Hin Hi. unfold net_of. destruct (find (fun t0 => insideb t0 f) texts) as [t'|] eqn:E.
  - apply find_some in E. exists t'. repeat split; [exact (proj1 E) | exact (proj2 E)].
  - rewrite (find_none _ _ E t Hin) in Hi. discriminate.
Qed.
(** ... (iii) and a shape without a label inside gets none *)
Theorem net_of_none : forall texts f, net_of texts f = None <-> forall t, In t texts -> insideb t f = false.
Proof.
  intros texts f. unfold net_of. rewrite <- find_none_iff.
  destruct (find (fun t => insideb t f) texts); cbn [option_map]; split; (discriminate || reflexivity).
Qed.
(** when the labels inside one shape agree on the (lower-cased) name, that name is the shape's net *)
Theorem net_of_agree : forall texts f,
  (forall t1 t2, In t1 texts -> In t2 texts -> insideb t1 f = true -> insideb t2 f = true -> label_name t1 = label_name t2) ->
  forall n, net_of texts f = Some n <-> exists t, In t texts /\ insideb t f = true /\ label_name t = n.
Proof.
  intros texts f Hag n. split.
  - intro H. apply net_of_some in H. destruct H as (l1 & t & l2 & -> & Hi & _ & ->).
    exists t. repeat split; [apply in_or_app; right; left; reflexivity | exact Hi].
  - intros (t & Hin & Hi & <-). destruct (net_of_inside texts f t Hin Hi) as (t' & Hin' & Hi' & ->).
    f_equal. apply Hag; assumption.
Qed.

(** (ii) the annotations are exactly the labels inside no shape (in element order by construction) *)
Theorem annots_of_in : forall shapes texts a,
  In a (annots_of shapes texts) <->
  exists t, In t texts /\ (forall f, In f shapes -> insideb t f = false) /\ a = annot_of t.
Proof.
  intros shapes texts a. unfold annots_of. rewrite in_map_iff. split.
  - intros (t & <- & Hin). apply filter_In in Hin. destruct Hin as [Hin Hf]. exists t. repeat split; [exact Hin|].
    intros f Hf'. unfold is_annot in Hf. apply negb_true_iff in Hf.
    destruct (insideb t f) eqn:E; [|reflexivity]. exfalso.
    assert (existsb (insideb t) shapes = true) by (apply existsb_exists; exists f; split; assumption). congruence.
  - intros (t & Hin & Hno & ->). exists t. split; [reflexivity|]. apply filter_In. split; [exact Hin|].
    unfold is_annot. apply negb_true_iff. apply not_true_is_false. intro H. apply existsb_exists in H.
    destruct H as (f & Hf & Hi). rewrite (Hno f Hf) in Hi. discriminate.
Qed.

(** * counting *)
Definition countb {A : Type} (p : A -> bool) (l : list A) : nat := List.length (filter p l).
Definition ind (b : bool) : nat := if b then 1%nat else 0%nat.

Lemma countb_cons : forall (A : Type) (p : A -> bool) x l, countb p (x :: l) = (ind (p x) + countb p l)%nat.
Proof. intros A p x l. unfold countb. cbn [filter]. destruct (p x); reflexivity. Qed.
Lemma filter_split_length : forall (A : Type) (p : A -> bool) l,
  List.length l = (countb p l + countb (fun x => negb (p x)) l)%nat.
Proof.
  intros A p l. induction l as [|x r IH]; [reflexivity|]. rewrite !countb_cons. cbn [List.length]. rewrite IH.
  destruct (p x); cbn [negb ind]; lia.
Qed.
Lemma list_sum_zero : forall (A : Type) (l : list A), list_sum (map (fun _ => 0%nat) l) = 0%nat.
Proof. intros A l. unfold list_sum. induction l; cbn [map fold_right]; auto. Qed.
Lemma list_sum_cons : forall x l, list_sum (x :: l) = (x + list_sum l)%nat.
Proof. reflexivity. Qed.
Lemma list_sum_add : forall (A : Type) (f g : A -> nat) l,
  list_sum (map (fun x => (f x + g x)%nat) l) = (list_sum (map f l) + list_sum (map g l))%nat.
Proof. intros A f g l. induction l as [|x r IH]; cbn [map]; [reflexivity | rewrite !list_sum_cons, IH; lia]. Qed.
Lemma countb_sum : forall (A : Type) (p : A -> bool) l, countb p l = list_sum (map (fun x => ind (p x)) l).
Proof. intros A p l. induction l as [|x r IH]; [reflexivity|]. rewrite countb_cons. cbn [map]. rewrite list_sum_cons, IH. reflexivity. Qed.
(** double counting *)
Lemma count_swap : forall (A B : Type) (f : A -> B -> bool) l l',
  list_sum (map (fun a => countb (f a) l') l) = list_sum (map (fun b => countb (fun a => f a b) l) l').
Proof.
  intros A B f l l'. induction l as [|a l IH]; cbn [map]; [|rewrite list_sum_cons].
  - unfold countb. cbn [filter List.length]. rewrite list_sum_zero. reflexivity.
  - rewrite IH. rewrite (map_ext (fun b => countb (fun a0 => f a0 b) (a :: l)) (fun b => (ind (f a b) + countb (fun a0 => f a0 b) l)%nat))
      by (intro b; apply countb_cons).
    rewrite list_sum_add, <- countb_sum. reflexivity.
Qed.
Lemma at_most_one_count : forall (A : Type) (p : A -> bool) l,
  (forall i j x y, nth_error l i = Some x -> nth_error l j = Some y -> p x = true -> p y = true -> i = j) ->
  countb p l = ind (existsb p l).
Proof.
  intros A p l. induction l as [|a r IH]; intro H; [reflexivity|]. rewrite countb_cons. cbn [existsb].
  destruct (p a) eqn:Pa; cbn [orb ind].
  - assert (Hr : forall y, In y r -> p y = false).
    { intros y Hy. destruct (p y) eqn:Py; [|reflexivity]. exfalso. destruct (In_nth_error _ _ Hy) as [j Hj].
      pose proof (H O (S j) a y eq_refl Hj Pa Py). discriminate. }
    assert (Hc : countb p r = 0%nat).
    { unfold countb. clear -Hr. induction r as [|y r IH]; [reflexivity|]. cbn [filter]. rewrite (Hr y (or_introl eq_refl)).
      apply IH. intros z Hz. apply Hr. right. exact Hz. }
    rewrite Hc. reflexivity.
  - apply IH. intros i j x y Hi Hj Px Py. pose proof (H (S i) (S j) x y Hi Hj Px Py). lia.
Qed.
Lemma list_sum_ext_in : forall (A : Type) (f g : A -> nat) l, (forall x, In x l -> f x = g x) -> list_sum (map f l) = list_sum (map g l).
Proof. intros A f g l H. f_equal. apply map_ext_in. exact H. Qed.

(** DESIGN.md section 4 "labels unambiguous", on the GDSII side: no label lies inside two shapes (of its
    layer number) and no shape holds two labels (counted as TEXT elements, i.e. by position) *)
Definition labels_unambiguous (shapes : list S.fshape) (texts : list G.textelem) : Prop :=
  (forall t i j f1 f2, In t texts -> nth_error shapes i = Some f1 -> nth_error shapes j = Some f2 ->
                       insideb t f1 = true -> insideb t f2 = true -> i = j) /\
  (forall f i j t1 t2, In f shapes -> nth_error texts i = Some t1 -> nth_error texts j = Some t2 ->
                       insideb t1 f = true -> insideb t2 f = true -> i = j).

Definition netted (n : option string) : bool := match n with Some _ => true | None => false end.

(** no label is lost or duplicated: #labels = #labels inside some shape + #annotations, always;
    and under unambiguity the labels inside shapes are as many as the shapes that got a net *)
Theorem label_count : forall shapes texts,
  List.length texts =
  (countb (fun t => existsb (insideb t) shapes) texts + List.length (annots_of shapes texts))%nat.
Proof.
  intros shapes texts. unfold annots_of. rewrite map_length.
  exact (filter_split_length _ (fun t => existsb (insideb t) shapes) texts).
Qed.
Theorem label_count_unambiguous : forall shapes texts, labels_unambiguous shapes texts ->
  List.length texts =
  (countb netted (map (net_of texts) shapes) + List.length (annots_of shapes texts))%nat.
Proof.
  intros shapes texts [Ha Hb]. rewrite (label_count shapes texts). f_equal.
  rewrite countb_sum.
  rewrite (list_sum_ext_in _ (fun t => ind (existsb (insideb t) shapes)) (fun t => countb (insideb t) shapes)).
  2:{ intros t Ht. symmetry. apply at_most_one_count. intros i j f1 f2. apply Ha. exact Ht. }
  rewrite (count_swap _ _ insideb texts shapes).
  rewrite (list_sum_ext_in _ (fun f => countb (fun t => insideb t f) texts) (fun f => ind (netted (net_of texts f)))).
  2:{ intros f Hf. rewrite at_most_one_count by (intros i j t1 t2; apply Hb; exact Hf). f_equal.
      unfold net_of. induction texts as [|t r IH]; [reflexivity|]. cbn [existsb find].
      destruct (insideb t f); [reflexivity|]. cbn [orb]. apply IH.
      - intros t0 i j f1 f2 Ht0. apply Ha. right. exact Ht0.
      - intros f0 i j t1 t2 Hf0 Hi Hj H1 H2. pose proof (Hb f0 (S i) (S j) t1 t2 Hf0 Hi Hj H1 H2). lia. }
  rewrite countb_sum, map_map. reflexivity.
Qed.

(* ---- n6a ---- *)

(* ---- part 7: the three-valued "inside" of the specification oracle ---- *)
Lemma sq_le_le : forall a b, 0 <= b -> a * a <= b * b -> a <= b.
Proof. intros a b Hb H. destruct (Z_le_gt_dec a b) as [Hl|Hg]; [exact Hl|]. exfalso. nia. Qed.
Lemma mul_cancel_le : forall x y k, 0 < k -> x * k <= y * k -> x <= y.
Proof. intros x y k Hk H. nia. Qed.

(** 4 u^2 <= w^2 and w >= 0 give |u| <= w quot 2 *)
Lemma half_from_square : forall u w, 0 <= w -> 4 * (u * u) <= w * w -> Z.abs u <= Z.quot w 2.
Proof.
  intros u w Hw H. apply (CP.half_width w (Z.abs u) Hw).
  apply sq_le_le; [exact Hw|]. replace (2 * Z.abs u * (2 * Z.abs u)) with (4 * (Z.abs u * Z.abs u)) by ring.
  rewrite Z.abs_square. exact H.
Qed.

(** the foot of the perpendicular lies in the segment's bounding box: d L <= K cr with K^2 <= L and
    4 cr^2 <= w^2 L give 2 d <= w *)
Lemma proj_bound : forall L K cr w d,
  0 < L -> 0 <= w -> K * K <= L -> d * L <= K * cr -> 4 * (cr * cr) <= w * w * L -> 2 * d <= w.
Proof.
  intros L K cr w d HL Hw HK Hd Hcr.
  destruct (Z_le_gt_dec d 0) as [Hd0|Hd0]; [lia|].
  assert (H0 : 0 < d * L) by nia.
  assert (H1 : (d * L) * (d * L) <= (K * cr) * (K * cr)) by (apply Z.square_le_mono_nonneg; lia).
  assert (HKK : 0 <= K * K) by apply Z.square_nonneg.
  assert (H2 : 4 * ((K * cr) * (K * cr)) <= (K * K) * (w * w * L)).
  { replace (4 * (K * cr * (K * cr))) with ((K * K) * (4 * (cr * cr))) by ring. apply Z.mul_le_mono_nonneg_l; assumption. }
  assert (HwL : 0 <= w * w * L) by (apply Z.mul_nonneg_nonneg; [apply Z.square_nonneg | lia]).
  assert (H3 : (K * K) * (w * w * L) <= L * (w * w * L)) by (apply Z.mul_le_mono_nonneg_r; assumption).
  assert (H4 : (2 * d * L) * (2 * d * L) <= (w * L) * (w * L)).
  { replace (2 * d * L * (2 * d * L)) with (4 * ((d * L) * (d * L))) by ring.
    replace (w * L * (w * L)) with (L * (w * w * L)) by ring. lia. }
  assert (H5 : 2 * d * L <= w * L) by (apply sq_le_le; [nia | exact H4]).
  apply (mul_cancel_le _ _ L HL). lia.
Qed.

Lemma near_seg_coverb : forall w a b q, 0 <= w -> S.near_segb w a b q = true -> seg_coverb w a b q = true.
Proof.
  intros w [ax ay] [bx by_] [qx qy] Hw H. unfold S.near_segb in H. unfold seg_coverb, dotp, len2.
  unfold CS.on_segb, CS.in_seg_boxb, CS.cross, CS.px, CS.py in *. cbn [fst snd] in *.
  apply orb_true_iff in H.
  destruct (Z.eqb_spec ax bx) as [Ex|Ex].
  - subst bx. destruct H as [H|H]; CP.b2p.
    + assert (qx = ax) by lia. subst qx. replace (ax - ax) with 0 by ring. cbn [Z.abs].
      rewrite !andb_true_iff, !Z.leb_le. pose proof (quot2_nonneg w Hw). lia.
    + replace (ax - ax) with 0 in * by ring.
      assert (Hdy : 0 < (by_ - ay) * (by_ - ay)) by lia.
      assert (Hu : 4 * ((qx - ax) * (qx - ax)) <= w * w).
      { apply (mul_cancel_le _ _ ((by_ - ay) * (by_ - ay)) Hdy). 
        replace (4 * ((qx - ax) * (qx - ax)) * ((by_ - ay) * (by_ - ay)))
          with (4 * ((0 * (qy - ay) - (qx - ax) * (by_ - ay)) * (0 * (qy - ay) - (qx - ax) * (by_ - ay)))) by ring.
        replace (w * w * ((by_ - ay) * (by_ - ay))) with (w * w * (0 * 0 + (by_ - ay) * (by_ - ay))) by ring. lia. }
      rewrite !andb_true_iff, !Z.leb_le. split; [split|]; [apply half_from_square; assumption | nia | nia].
  - destruct (Z.eqb_spec ay by_) as [Ey|Ey].
    + subst by_. destruct H as [H|H]; CP.b2p.
      * replace (ay - ay) with 0 in * by ring.
        assert (qy = ay) by nia. subst qy. replace (ay - ay) with 0 by ring. cbn [Z.abs].
        rewrite !andb_true_iff, !Z.leb_le. pose proof (quot2_nonneg w Hw). lia.
      * replace (ay - ay) with 0 in * by ring.
        assert (Hdx : 0 < (bx - ax) * (bx - ax)) by lia.
        assert (Hu : 4 * ((qy - ay) * (qy - ay)) <= w * w).
        { apply (mul_cancel_le _ _ ((bx - ax) * (bx - ax)) Hdx).
          replace (4 * ((qy - ay) * (qy - ay)) * ((bx - ax) * (bx - ax)))
            with (4 * (((bx - ax) * (qy - ay) - (qx - ax) * 0) * ((bx - ax) * (qy - ay) - (qx - ax) * 0))) by ring.
          replace (w * w * ((bx - ax) * (bx - ax))) with (w * w * ((bx - ax) * (bx - ax) + 0 * 0)) by ring. lia. }
        rewrite !andb_true_iff, !Z.leb_le. split; [split|]; [apply half_from_square; assumption | nia | nia].
    + destruct H as [H|H]; CP.b2p.
      * rewrite !andb_true_iff, !Z.leb_le. split; [split|].
        -- nia.
        -- nia.
        -- rewrite H. cbn. apply Z.mul_nonneg_nonneg; [apply Z.square_nonneg|].
           pose proof (Z.square_nonneg (bx - ax)). pose proof (Z.square_nonneg (by_ - ay)). lia.
      * rewrite !andb_true_iff, !Z.leb_le. repeat split; try assumption.
        replace (4 * (((bx - ax) * (qy - ay) - (qx - ax) * (by_ - ay)) * ((bx - ax) * (qy - ay) - (qx - ax) * (by_ - ay))))
          with (4 * ((bx - ax) * (qy - ay) - (qx - ax) * (by_ - ay)) * ((bx - ax) * (qy - ay) - (qx - ax) * (by_ - ay))) by ring.
        assumption.
Qed.

(* ---- n6b ---- *)

Lemma mul_box : forall t L d, 0 <= t <= L -> Z.min 0 d * L <= t * d <= Z.max 0 d * L.
Proof.
  intros t L d [H0 H1]. destruct (Z_le_gt_dec 0 d).
  - rewrite Z.min_l, Z.max_r by lia. split; nia.
  - rewrite Z.min_r, Z.max_l by lia. split; nia.
Qed.

Lemma diag_cheb_abs : forall dx dy u v w L dot cr,
  0 <= w -> 0 < L -> dx * dx <= L -> dy * dy <= L -> 0 <= dot <= L ->
  u * L - dot * dx = - dy * cr -> v * L - dot * dy = dx * cr -> 4 * (cr * cr) <= w * w * L ->
  2 * (u - Z.max 0 dx) <= w /\ 2 * (Z.min 0 dx - u) <= w /\ 2 * (v - Z.max 0 dy) <= w /\ 2 * (Z.min 0 dy - v) <= w.
Proof.
  intros dx dy u v w L dot cr Hw HL Hx2 Hy2 Hdot I1 I2 Hcr.
  destruct (mul_box dot L dx Hdot) as [M2 M1]. destruct (mul_box dot L dy Hdot) as [M4 M3].
  assert (Hny : - dy * - dy <= L) by (replace (- dy * - dy) with (dy * dy) by ring; exact Hy2).
  assert (Hnx : - dx * - dx <= L) by (replace (- dx * - dx) with (dx * dx) by ring; exact Hx2).
  split; [|split; [|split]].
  - apply (proj_bound L (- dy) cr w); try assumption. rewrite Z.mul_sub_distr_r. lia.
  - apply (proj_bound L dy cr w); try assumption. rewrite Z.mul_sub_distr_r. lia.
  - apply (proj_bound L dx cr w); try assumption. rewrite Z.mul_sub_distr_r. lia.
  - apply (proj_bound L (- dx) cr w); try assumption. rewrite Z.mul_sub_distr_r. lia.
Qed.

Lemma diag_cheb : forall dx dy u v w, 0 <= w -> dx <> 0 ->
  0 <= u * dx + v * dy <= dx * dx + dy * dy ->
  4 * ((dx * v - u * dy) * (dx * v - u * dy)) <= w * w * (dx * dx + dy * dy) ->
  2 * (u - Z.max 0 dx) <= w /\ 2 * (Z.min 0 dx - u) <= w /\ 2 * (v - Z.max 0 dy) <= w /\ 2 * (Z.min 0 dy - v) <= w.
Proof.
  intros dx dy u v w Hw Hdx Hdot Hcr.
  pose proof (Z.square_nonneg dx) as Sx. pose proof (Z.square_nonneg dy) as Sy.
  assert (Sx' : 0 < dx * dx) by (destruct (Z.eq_dec (dx * dx) 0) as [E|E]; [apply Z.mul_eq_0 in E; lia | lia]).
  apply (diag_cheb_abs dx dy u v w (dx * dx + dy * dy) (u * dx + v * dy) (dx * v - u * dy)); try assumption; try lia; ring.
Qed.

Lemma coverb_not_far : forall w a b q, 0 <= w -> seg_coverb w a b q = true -> S.far_segb w a b q = false.
Proof.
  intros w a b q Hw H. unfold S.far_segb. apply Z.ltb_ge. apply seg_coverb_spec in H.
  destruct H as [Hc | (Hx & Hy & Hdot & Hcr)].
  - pose proof (CP.cover_not_far w a b q Hw Hc) as Hn. unfold CS.far_seg in Hn. lia.
  - destruct a as [ax ay], b as [bx by_], q as [qx qy].
    unfold dotp, len2, CS.cross, CS.cheb_seg, CS.dist_iv, CS.px, CS.py in *. cbn [fst snd] in *.
    destruct (diag_cheb (bx - ax) (by_ - ay) (qx - ax) (qy - ay) w Hw) as (H1 & H2 & H3 & H4); [lia | lia | |lia].
    exact Hcr.
Qed.

Lemma path_label_sound : forall ps w q, 0 <= w -> tri_agrees (S.path_in ps w q) (path_coverb w ps q).
Proof.
  intros ps w q Hw. unfold S.path_in, path_coverb.
  destruct (existsb (fun e => S.near_segb w (fst e) (snd e) q) (CS.chain ps)) eqn:En; cbn [tri_agrees].
  - apply existsb_exists in En. destruct En as [e [He Hn]]. apply existsb_exists. exists e. split; [exact He|].
    apply near_seg_coverb; assumption.
  - destruct (forallb (fun e => S.far_segb w (fst e) (snd e) q) (CS.chain ps)) eqn:Ef; cbn [tri_agrees]; [|exact I].
    apply not_true_is_false. intro Hc. apply existsb_exists in Hc. destruct Hc as [e [He Hc]].
    pose proof (coverb_not_far w (fst e) (snd e) q Hw Hc) as Hf.
    rewrite forallb_forall in Ef. pose proof (Ef e He) as Ef'. cbv beta in Ef'. exact (Bool.eq_true_false_abs _ Ef' Hf).
Qed.

Lemma label_in_geomb : forall gm q, geom_wf gm -> tri_agrees (S.label_in gm q) (in_geomb gm q).
Proof.
  intros [P|ps w] q Hwf; cbn [S.label_in in_geomb].
  - destruct (poly_in_nz P q) as [H1 H2]. destruct (S.poly_in P q) eqn:E; cbn [tri_agrees]; [| |exact I].
    + apply CP.in_region_nzb_spec. apply H1. reflexivity.
    + apply not_true_is_false. intro Hc. apply CP.in_region_nzb_spec in Hc. exact (H2 eq_refl Hc).
  - apply path_label_sound. exact Hwf.
Qed.

(** the label test for all three shape kinds against the specification oracle's three-valued "inside" *)
Theorem label_test_sound : forall c sh gm q b,
  fx_contains c = true -> shape_rel sh gm -> geom_wf gm ->
  shape_contains c sh q = IOk b -> tri_agrees (S.label_in gm (S.rpt q)) b.
Proof.
  intros c sh gm q b Hc Hrel Hwf H. rewrite (contains_in_geom c sh gm q b Hc Hrel Hwf H). apply label_in_geomb. exact Hwf.
Qed.

(* ---- n7 ---- *)

(* ---- part 8: the statement in the form the correspondence run evaluates ([S.nets_okb], [S.annots_okb]) ---- *)
Lemma ascii_bytes_range : forall l, S.ascii_bytes l = true -> Forall (fun b => 0 <= b < 128) l.
Proof.
  intros l H. unfold S.ascii_bytes in H. rewrite forallb_forall in H. apply Forall_forall. intros b Hb.
  specialize (H b Hb). apply andb_prop in H. destruct H as [H1 H2]. apply Z.leb_le in H1. apply Z.ltb_lt in H2. lia.
Qed.
Lemma bytes_str_roundtrip : forall l, Forall (fun b => 0 <= b < 128) l -> S.bytes_of_string (str_of_bytes l) = l.
Proof.
  intros l H. induction H as [|b l Hb H IH]; [reflexivity|].
  change (str_of_bytes (b :: l)) with (String (ascii_of_N (Z.to_N b)) (str_of_bytes l)).
  change (S.bytes_of_string (String (ascii_of_N (Z.to_N b)) (str_of_bytes l)))
    with (Z.of_N (N_of_ascii (ascii_of_N (Z.to_N b))) :: S.bytes_of_string (str_of_bytes l)).
  rewrite IH, N_ascii_embedding by lia. rewrite Z2N.id by lia. reflexivity.
Qed.
Lemma lower_nocase : forall l, Forall (fun b => 0 <= b < 128) l ->
  map S.up_byte (S.bytes_of_string (lower (str_of_bytes l))) = map S.up_byte l.
Proof.
  intros l H. induction H as [|b l Hb H IH]; [reflexivity|].
  change (str_of_bytes (b :: l)) with (String (ascii_of_N (Z.to_N b)) (str_of_bytes l)).
  cbn [lower].
  change (S.bytes_of_string (String (lower_ascii (ascii_of_N (Z.to_N b))) (lower (str_of_bytes l))))
    with (Z.of_N (N_of_ascii (lower_ascii (ascii_of_N (Z.to_N b)))) :: S.bytes_of_string (lower (str_of_bytes l))).
  cbn [map]. rewrite IH. f_equal.
  unfold lower_ascii. rewrite N_ascii_embedding by lia.
  destruct (N.leb_spec 65 (Z.to_N b)); destruct (N.leb_spec (Z.to_N b) 90); cbn [andb];
    try (rewrite N_ascii_embedding by lia); try (rewrite Z2N.id by lia; reflexivity).
  unfold S.up_byte.
  destruct (Z.leb_spec 97 (Z.of_N (Z.to_N b + 32))); destruct (Z.leb_spec (Z.of_N (Z.to_N b + 32)) 122); cbn [andb]; try lia.
  destruct (Z.leb_spec 97 b); destruct (Z.leb_spec b 122); cbn [andb]; lia.
Qed.
Lemma name_nocase_ok : forall l, S.ascii_bytes l = true ->
  S.name_eq_nocase l (S.bytes_of_string (lower (str_of_bytes l))) = true.
Proof.
  intros l H. unfold S.name_eq_nocase. rewrite (lower_nocase l (ascii_bytes_range l H)). apply zlist_eqb_refl.
Qed.

Lemma tri_is_out : forall t, S.tri_is t S.Out3 = true -> t = S.Out3.
Proof. intros [| |] H; try discriminate; reflexivity. Qed.
Lemma tri_is_in : forall t, S.tri_is t S.In3 = true -> t = S.In3.
Proof. intros [| |] H; try discriminate; reflexivity. Qed.

Lemma net_okb_net_of : forall texts f,
  (forall t, In t texts -> S.ascii_bytes (G.t_string t) = true) -> geom_wf (S.fs_geom f) ->
  S.net_okb texts f (net_of texts f) = true.
Proof.
  intros texts f Hasc Hwf. unfold net_of. destruct (find (fun t => insideb t f) texts) as [t|] eqn:E; cbn [option_map S.net_okb].
  - apply find_some in E. destruct E as [Hin Hi]. apply existsb_exists. exists t. split; [exact Hin|].
    unfold insideb in Hi. apply andb_prop in Hi. destruct Hi as [Hl Hg]. rewrite Hl. cbn [andb].
    unfold label_name. rewrite (name_nocase_ok _ (Hasc t Hin)). cbn [andb].
    apply negb_true_iff. apply not_true_is_false. intro Ho. apply tri_is_out in Ho.
    pose proof (label_in_geomb (S.fs_geom f) (S.gpt (G.t_xy t)) Hwf) as Ha. rewrite Ho in Ha. cbn [tri_agrees] in Ha. congruence.
  - apply forallb_forall. intros t Hin. pose proof (find_none _ _ E t Hin) as Hn. cbv beta in Hn.
    apply negb_true_iff. apply not_true_is_false. intro Hc. apply andb_prop in Hc. destruct Hc as [Hl Hi]. apply tri_is_in in Hi.
    pose proof (label_in_geomb (S.fs_geom f) (S.gpt (G.t_xy t)) Hwf) as Ha. rewrite Hi in Ha. cbn [tri_agrees] in Ha.
    unfold insideb in Hn. rewrite Hl, Ha in Hn. discriminate.
Qed.
Lemma nets_okb_net_of : forall texts shapes,
  (forall t, In t texts -> S.ascii_bytes (G.t_string t) = true) -> Forall (fun f => geom_wf (S.fs_geom f)) shapes ->
  S.nets_okb texts shapes (map (net_of texts) shapes) = true.
Proof.
  intros texts shapes Hasc Hwf. induction Hwf as [|f r Hf Hr IH]; [reflexivity|]. cbn [map S.nets_okb].
  rewrite (net_okb_net_of texts f Hasc Hf), IH. reflexivity.
Qed.

Lemma annot_is_self : forall t, S.ascii_bytes (G.t_string t) = true -> S.annot_is t (annot_pair (annot_of t)) = true.
Proof.
  intros t H. unfold S.annot_is, annot_pair, annot_of, tloc. cbn [t_string t_loc fst snd].
  rewrite (bytes_str_roundtrip _ (ascii_bytes_range _ H)), zlist_eqb_refl. cbn [andb].
  destruct (G.t_xy t) as [x y]. unfold S.pt_eqb, S.gpt, import_point. cbn [G.px G.py px py fst snd]. rewrite !Z.eqb_refl. reflexivity.
Qed.

Lemma annots_okb_annots_of : forall shapes texts,
  (forall t, In t texts -> S.ascii_bytes (G.t_string t) = true) -> Forall (fun f => geom_wf (S.fs_geom f)) shapes ->
  S.annots_okb shapes texts (map annot_pair (annots_of shapes texts)) = true.
Proof.
  intros shapes texts Hasc Hwf. induction texts as [|t r IH]; [reflexivity|].
  assert (IH' := IH (fun u Hu => Hasc u (or_intror Hu))). clear IH.
  unfold annots_of in *. cbn [filter]. cbn [S.annots_okb].
  assert (Hagree : forall f, In f shapes -> tri_agrees (S.label_in (S.fs_geom f) (S.gpt (G.t_xy t))) (in_geomb (S.fs_geom f) (S.gpt (G.t_xy t)))).
  { intros f Hf. apply label_in_geomb. rewrite Forall_forall in Hwf. apply Hwf. exact Hf. }
  destruct (S.text_must shapes t) eqn:Em.
  - assert (Ha : is_annot shapes t = true).
    { unfold is_annot. apply negb_true_iff. apply not_true_is_false. intro Hc. apply existsb_exists in Hc. destruct Hc as [f [Hf Hi]].
      unfold S.text_must in Em. rewrite forallb_forall in Em. specialize (Em f Hf).
      unfold insideb in Hi. apply andb_prop in Hi. destruct Hi as [Hl Hg]. rewrite Hl in Em. cbn [negb orb] in Em.
      apply tri_is_out in Em. pose proof (Hagree f Hf) as A. rewrite Em in A. cbn [tri_agrees] in A. congruence. }
    rewrite Ha. cbn [map]. rewrite (annot_is_self t (Hasc t (or_introl eq_refl))), IH'. reflexivity.
  - destruct (S.text_mustnot shapes t) eqn:En.
    + assert (Ha : is_annot shapes t = false).
      { unfold is_annot. apply negb_false_iff. unfold S.text_mustnot in En. apply existsb_exists in En. destruct En as [f [Hf Hi]].
        apply andb_prop in Hi. destruct Hi as [Hl Hi]. apply tri_is_in in Hi. apply existsb_exists. exists f. split; [exact Hf|].
        pose proof (Hagree f Hf) as A. rewrite Hi in A. cbn [tri_agrees] in A. unfold insideb. rewrite Hl, A. reflexivity. }
      rewrite Ha. exact IH'.
    + destruct (is_annot shapes t).
      * cbn [map]. rewrite (annot_is_self t (Hasc t (or_introl eq_refl))), IH'. reflexivity.
      * destruct (map annot_pair (map annot_of (filter (is_annot shapes) r))); [exact IH'|]. rewrite IH'. apply orb_true_r.
Qed.

(** a struct the flattening specification covers has own shapes *)
Lemma flatten_ok_own_ok : forall g s, S.names_distinct g = true -> In s (G.l_structs g) ->
  forall fs, S.gds_flatten g (G.s_name s) = S.SOk fs -> S.own_shapes s <> S.SSilent.
Proof.
  intros g s Hnd Hs fs Hf. rewrite (gds_flatten_unfold g s Hnd Hs), flatten_struct_S in Hf.
  destruct (existsb _ _); [discriminate|]. apply sconcat_ok in Hf. destruct Hf as [ys [HF _]].
  rewrite own_shapes_eq. clear -HF. revert ys HF. induction (G.s_elems s) as [|e es IH]; intros ys HF; cbn [map]; [discriminate|].
  inversion HF as [|x y xs ys' Hxy HF']; subst.
  specialize (IH _ HF').
  assert (He : exists a, own_comp e = S.SOk a).
  { destruct e; cbn [own_comp]; try (eexists; reflexivity); exists y; exact Hxy. }
  destruct He as [a Ha]. rewrite Ha. cbn [S.sconcat]. destruct (S.sconcat (map own_comp es)); cbn; [discriminate | discriminate | contradiction].
Qed.

Theorem nets_oracle_gen : forall c ly0 g L,
  cfg_ok c -> fx_contains c = true -> ly_inv ly0 -> S.names_distinct g = true -> S.labels_ascii g = true ->
  import_lib c ly0 g = IOk L ->
  forall s, In s (G.l_structs g) -> S.own_shapes s <> S.SSilent ->
  exists k cl l shapes,
    nth_error (lib_cells L) k = Some cl /\ c_name cl = str_of_bytes (G.s_name s) /\ c_layout cl = Some l /\
    S.own_shapes s = S.SOk shapes /\
    S.omap_all (S.norm_raw_elem (lib_layers L)) (lay_elems l) = Some (map S.norm_fshape shapes) /\
    S.nets_okb (S.own_texts s) shapes (map e_net (lay_elems l)) = true /\
    S.annots_okb shapes (S.own_texts s) (map annot_pair (lay_annots l)) = true.
Proof.
  intros c ly0 g L Hc Hfc Hly Hnd Hasc H s Hs Hns.
  destruct (nets_exact_gen c ly0 g L Hc Hfc Hly Hnd H s Hs Hns) as (k & cl & l & shapes & H1 & H2 & H3 & H4 & F2 & Hn & Ha).
  exists k, cl, l, shapes. repeat (split; [assumption|]).
  assert (Hasc' : forall t, In t (S.own_texts s) -> S.ascii_bytes (G.t_string t) = true).
  { unfold S.labels_ascii in Hasc. rewrite forallb_forall in Hasc. specialize (Hasc s Hs). rewrite forallb_forall in Hasc. exact Hasc. }
  assert (Hwf : Forall (fun f => geom_wf (S.fs_geom f)) shapes) by (rewrite own_shapes_eq in H4; exact (own_shapes_wf _ _ H4)).
  split; [apply omap_all_Forall2; exact F2|]. rewrite Hn, Ha.
  split; [apply nets_okb_net_of | apply annots_okb_annots_of]; assumption.
Qed.

Theorem nets_full_fixed : forall g L,
  import_lib cfg_fixed [] g = IOk L -> S.right_angle g -> S.labels_ascii g = true ->
  forall s, In s (G.l_structs g) ->
  exists k cl l shapes,
    nth_error (lib_cells L) k = Some cl /\ c_name cl = str_of_bytes (G.s_name s) /\ c_layout cl = Some l /\
    S.own_shapes s = S.SOk shapes /\
    S.omap_all (S.norm_raw_elem (lib_layers L)) (lay_elems l) = Some (map S.norm_fshape shapes) /\
    S.nets_okb (S.own_texts s) shapes (map e_net (lay_elems l)) = true /\
    S.annots_okb shapes (S.own_texts s) (map annot_pair (lay_annots l)) = true.
Proof.
  intros g L H Hra Hasc s Hs. destruct (right_angle_facts g Hra) as [Hnd Hns].
  destruct (import_flatten_gen cfg_fixed [] g L cfg_fixed_ok (Forall_nil _) Hnd H s Hs (Hns s Hs)) as (_ & _ & _ & fs & _ & _ & _ & _ & Hfs & _).
  exact (nets_oracle_gen cfg_fixed [] g L cfg_fixed_ok eq_refl (Forall_nil _) Hnd Hasc H s Hs (flatten_ok_own_ok g s Hnd Hs fs Hfs)).
Qed.

(* ---- n8 ---- *)
(** `Path.width` is a `usize`: the hypothesis [0 <= w] is a type invariant of the Rust value *)
Lemma shape_rel_wf : forall sh gm, shape_rel sh gm -> (forall pts w, sh = Path pts w -> 0 <= w) -> geom_wf gm.
Proof. intros sh gm H Hw. destruct H as [pts | a b c d H | pts w]; cbn [geom_wf]; [exact I | exact I | exact (Hw pts w eq_refl)]. Qed.

Theorem label_test_sound_all : forall c sh gm q b,
  fx_contains c = true -> shape_rel sh gm -> (forall pts w, sh = Path pts w -> 0 <= w) ->
  shape_contains c sh q = IOk b -> tri_agrees (S.label_in gm (S.rpt q)) b.
Proof. intros c sh gm q b Hc Hrel Hw H. exact (label_test_sound c sh gm q b Hc Hrel (shape_rel_wf sh gm Hrel Hw) H). Qed.

Theorem label_test_region : forall c sh gm q b,
  fx_contains c = true -> shape_rel sh gm -> (forall pts w, sh = Path pts w -> 0 <= w) ->
  shape_contains c sh q = IOk b -> (b = true <-> in_geom gm (S.rpt q)).
Proof.
  intros c sh gm q b Hc Hrel Hw H. rewrite (contains_in_geom c sh gm q b Hc Hrel (shape_rel_wf sh gm Hrel Hw) H).
  apply in_geomb_spec.
Qed.

Theorem nets_exact_fixed : forall g L,
  import_lib cfg_fixed [] g = IOk L -> S.right_angle g ->
  forall s, In s (G.l_structs g) ->
  exists k cl l shapes,
    nth_error (lib_cells L) k = Some cl /\ c_name cl = str_of_bytes (G.s_name s) /\ c_layout cl = Some l /\
    S.own_shapes s = S.SOk shapes /\
    Forall2 (elem_rel (lib_layers L)) (lay_elems l) shapes /\
    map e_net (lay_elems l) = map (net_of (S.own_texts s)) shapes /\
    lay_annots l = annots_of shapes (S.own_texts s).
Proof.
  intros g L H Hra s Hs. destruct (right_angle_facts g Hra) as [Hnd Hns].
  destruct (import_flatten_gen cfg_fixed [] g L cfg_fixed_ok (Forall_nil _) Hnd H s Hs (Hns s Hs)) as (_ & _ & _ & fs & _ & _ & _ & _ & Hfs & _).
  exact (nets_exact_gen cfg_fixed [] g L cfg_fixed_ok eq_refl (Forall_nil _) Hnd H s Hs (flatten_ok_own_ok g s Hnd Hs fs Hfs)).
Qed.

(** the same shape by shape: the i-th element carries the net of the i-th shape *)
Lemma nets_pointwise : forall (elems : list element) (shapes : list S.fshape) texts,
  map e_net elems = map (net_of texts) shapes ->
  forall i e f, nth_error elems i = Some e -> nth_error shapes i = Some f -> e_net e = net_of texts f.
Proof.
  intros elems shapes texts H i e f He Hf.
  pose proof (map_nth_error e_net i elems He) as A. pose proof (map_nth_error (net_of texts) i shapes Hf) as B.
  rewrite H in A. congruence.
Qed.

(* ---- n9 ---- *)
(** a decision procedure for the unambiguity hypothesis (for closed examples) *)
Definition labels_unambiguousb (shapes : list S.fshape) (texts : list G.textelem) : bool :=
  forallb (fun t => Nat.leb (countb (insideb t) shapes) 1) texts &&
  forallb (fun f => Nat.leb (countb (fun t => insideb t f) texts) 1) shapes.

Lemma countb_pos : forall (A : Type) (p : A -> bool) l y, In y l -> p y = true -> (1 <= countb p l)%nat.
Proof.
  intros A p l y Hy Py. unfold countb. assert (H : In y (filter p l)) by (apply filter_In; split; assumption).
  destruct (filter p l); [destruct H | cbn; lia].
Qed.
Lemma count_le1_unique : forall (A : Type) (p : A -> bool) l, (countb p l <= 1)%nat ->
  forall i j x y, nth_error l i = Some x -> nth_error l j = Some y -> p x = true -> p y = true -> i = j.
Proof.
  intros A p l. induction l as [|a r IH]; intros Hc i j x y Hi Hj Px Py; [destruct i; discriminate|].
  rewrite countb_cons in Hc.
  destruct i as [|i], j as [|j]; cbn [nth_error] in Hi, Hj.
  - reflexivity.
  - injection Hi as ->. rewrite Px in Hc. cbn [ind] in Hc.
    pose proof (countb_pos _ p r y (nth_error_In _ _ Hj) Py). lia.
  - injection Hj as ->. rewrite Py in Hc. cbn [ind] in Hc.
    pose proof (countb_pos _ p r x (nth_error_In _ _ Hi) Px). lia.
  - f_equal. apply (IH ltac:(lia) i j x y); assumption.
Qed.
Lemma labels_unambiguousb_sound : forall shapes texts,
  labels_unambiguousb shapes texts = true -> labels_unambiguous shapes texts.
Proof.
  intros shapes texts H. unfold labels_unambiguousb in H. apply andb_prop in H. destruct H as [H1 H2].
  rewrite forallb_forall in H1, H2. split.
  - intros t i j f1 f2 Ht. apply count_le1_unique. apply Nat.leb_le. exact (H1 t Ht).
  - intros f i j t1 t2 Hf. apply (count_le1_unique _ (fun t => insideb t f)). apply Nat.leb_le. exact (H2 f Hf).
Qed.
