(** Specification for C06, written from the property statement and the meaning of the GDSII
    stream format -- NOT from the importer (this file does not mention Raw/RawGds.v).

    What a GDSII library says, geometrically ([gds_flatten]):
    - BOUNDARY: the polygon with the listed vertices (the list repeats its first point at the
      end; that closing point is not a vertex), on (layer, datatype).
    - BOX: the polygon of its first four points (a BOX is an axis-parallel rectangle; its XY has
      five points, the last closing it), on (layer, boxtype).
    - PATH: the centre line with the listed points and the stated width (an absent WIDTH is 0,
      a negative WIDTH is an absolute width: its magnitude), on (layer, datatype).
    - SREF: every shape of the referenced structure, reflected about the x-axis when the
      reflection bit is set, then rotated counter-clockwise by ANGLE, then translated to XY
      ([place_pt] of Geom/TransformSpec.v, the specification of C12).
    - AREF: COLS x ROWS such placements, at p0 + i*(p1-p0)/cols + j*(p2-p0)/rows for
      0 <= i < cols, 0 <= j < rows, where p0 p1 p2 are the three XY points -- the lattice
      vectors are what the file states, whatever the angle -- each copy with the same
      reflection and rotation.
    - TEXT and NODE elements are not geometry.

    Three outcomes ([sres]):
    - [SErr]    the library is malformed in a way for which the property demands an error:
                a reference to an undefined structure, a structure that (directly or not)
                contains itself, COLS <= 0 or ROWS <= 0, a BOUNDARY or PATH without coordinates,
                the absolute-magnification / absolute-angle flags or a magnification other
                than 1 (the raw model has no magnification: any imported library would
                misplace geometry);
    - [SSilent] the property does not say (this file cannot, or the statement leaves it open):
                an angle that is not a whole multiple of 90 degrees (covered at ring level by
                C12 only), lattice displacements that are not divisible by COLS / ROWS, a
                BOUNDARY whose last point does not repeat the first, a BOX that is not a closed
                axis-parallel rectangle, an AREF/BOX whose XY has the wrong number of points
                (not representable in gds21), structure names that are not pairwise distinct;
    - [SOk l]   the flattened shapes, in element order (a reference contributes the shapes of its
                target at its position).  The property compares them as a MULTISET
                ("contain exactly the shapes"): [flat_equiv] is a permutation of normal forms.

    Shape representation (DESIGN.md section 4): a 4-vertex axis-parallel polygon and the rectangle
    with the same corners are the same shape; a rectangle is the same whichever two opposite
    corners are stored ([norm_poly], [NRect]).

    Labels ([net_okb], [annots_okb]): a TEXT lying inside a shape of the same structure on the
    same layer NUMBER names that shape's net; the other TEXTs are annotations.  "Inside" is the
    closed region of Geom/ContainsSpec.v for polygons (even-odd and non-zero winding must agree,
    otherwise unspecified) and "within half the width of a segment, projection on the segment"
    for paths (flush ends; beyond the ends and in corner notches unspecified): [label_in] is
    three-valued and the relations accept either answer where it is [Unk3].  Net names are
    compared without regard to ASCII case.  No proofs in this file. *)
From Coq Require Import ZArith List String Ascii Bool Permutation.
From L21 Require Import Base.F64 Base.Hex Gds.GdsData Geom.TransformSpec.
From L21 Require Geom.ContainsSpec Raw.RawData.
Import ListNotations.
Local Open Scope list_scope.
Local Open Scope Z_scope.

Module CS := Geom.ContainsSpec.
Module R := Raw.RawData.

(** * Flattened shapes *)
Inductive geom : Type :=
| GPoly (pts : list pt)
| GPath (pts : list pt) (w : Z).
Record fshape : Type := mkfs { fs_layer : Z; fs_dtype : Z; fs_geom : geom }.

Inductive sres (A : Type) : Type :=
| SOk (a : A)
| SErr
| SSilent.
Arguments SOk {A} a.
Arguments SErr {A}.
Arguments SSilent {A}.

(** [SErr] anywhere wins over [SSilent] anywhere: a malformed library must be rejected whatever
    else it contains *)
Definition sbind2 {A B C : Type} (x : sres A) (y : sres B) (f : A -> B -> sres C) : sres C :=
  match x, y with
  | SErr, _ | _, SErr => SErr
  | SSilent, _ | _, SSilent => SSilent
  | SOk a, SOk b => f a b
  end.
Definition smap {A B : Type} (f : A -> B) (x : sres A) : sres B :=
  match x with SOk a => SOk (f a) | SErr => SErr | SSilent => SSilent end.
Fixpoint sconcat {A : Type} (l : list (sres (list A))) : sres (list A) :=
  match l with
  | [] => SOk []
  | x :: r => sbind2 x (sconcat r) (fun a b => SOk (a ++ b))
  end.

Definition gpt (p : point) : pt := (px p, py p).
Definition pt_eqb (a b : pt) : bool := (fst a =? fst b) && (snd a =? snd b).

(** four vertices, in order, of an axis-parallel rectangle (either sense, any start corner) *)
Definition rect4 (a b c d : pt) : bool :=
  ((fst a =? fst b) && (snd b =? snd c) && (fst c =? fst d) && (snd d =? snd a))
  || ((snd a =? snd b) && (fst b =? fst c) && (snd c =? snd d) && (fst d =? fst a)).

(** * Elements *)
Definition boundary_geom (b : boundary) : sres geom :=
  match map gpt (b_xy b) with
  | [] => SErr
  | (p0 :: _) as pts => if pt_eqb p0 (last pts p0) then SOk (GPoly (removelast pts)) else SSilent
  end.
Definition box_geom (b : gbox) : sres geom :=
  match map gpt (x_xy b) with
  | [a; b0; c; d; e] => if pt_eqb a e && rect4 a b0 c d then SOk (GPoly [a; b0; c; d]) else SSilent
  | _ => SSilent
  end.
Definition path_geom (p : path) : sres geom :=
  match map gpt (p_xy p) with
  | [] => SErr
  | pts => SOk (GPath pts (match p_width p with Some w => Z.abs w | None => 0 end))
  end.

(** * Placements *)
Definition bits_one : Z := 4607182418800017408.   (* the double 1.0 *)
(** reflection and number of quarter turns of an STRANS *)
Definition strans_place (s : option strans) : sres (bool * nat) :=
  match s with
  | None => SOk (false, O)
  | Some st =>
    if st_abs_mag st || st_abs_angle st then SErr
    else if match st_mag st with Some m => negb (m =? bits_one) | None => false end then SErr
    else match st_angle st with
         | None => SOk (st_reflected st, O)
         | Some a => match R.f64_int_value a with
                     | Some d => match quarters_of d with
                                 | Some q => SOk (st_reflected st, q)
                                 | None => SSilent
                                 end
                     | None => SSilent
                     end
         end
  end.

Definition sref_placements (r : sref) : sres (list splacement) :=
  smap (fun rq => [(px (sr_xy r), py (sr_xy r), fst rq, snd rq)]) (strans_place (sr_strans r)).

Definition zrange (n : Z) : list Z := map Z.of_nat (seq 0 (Z.to_nat n)).
Definition aref_placements (a : aref) : sres (list splacement) :=
  if (ar_cols a <=? 0) || (ar_rows a <=? 0) then SErr
  else
    sbind2 (strans_place (ar_strans a))
      (match map gpt (ar_xy a) with
       | [p0; p1; p2] =>
         let cx := fst p1 - fst p0 in let cy := snd p1 - snd p0 in
         let rx := fst p2 - fst p0 in let ry := snd p2 - snd p0 in
         if (cx mod ar_cols a =? 0) && (cy mod ar_cols a =? 0) && (rx mod ar_rows a =? 0) && (ry mod ar_rows a =? 0)
         then SOk (p0, (cx / ar_cols a, cy / ar_cols a), (rx / ar_rows a, ry / ar_rows a))
         else SSilent
       | _ => SSilent
       end)
      (fun rq lat =>
         let '(p0, cv, rv) := lat in
         SOk (flat_map (fun i => map (fun j => (fst p0 + i * fst cv + j * fst rv,
                                                snd p0 + i * snd cv + j * snd rv, fst rq, snd rq))
                                     (zrange (ar_rows a))) (zrange (ar_cols a)))).

Definition place_geom (pl : splacement) (gm : geom) : geom :=
  match gm with
  | GPoly pts => GPoly (map (place_pt pl) pts)
  | GPath pts w => GPath (map (place_pt pl) pts) w
  end.
Definition place_fshape (pl : splacement) (s : fshape) : fshape :=
  mkfs (fs_layer s) (fs_dtype s) (place_geom pl (fs_geom s)).

(** * Structures by name *)
Definition find_struct (g : library) (nm : bytes) : option gstruct :=
  find (fun s => zlist_eqb (s_name s) nm) (l_structs g).
Fixpoint names_distinct_from (seen : list bytes) (structs : list gstruct) : bool :=
  match structs with
  | [] => true
  | s :: r => negb (existsb (zlist_eqb (s_name s)) seen) && names_distinct_from (s_name s :: seen) r
  end.
Definition names_distinct (g : library) : bool := names_distinct_from [] (l_structs g).

(** * gds_flatten *)
(** [visiting]: the names of the structures on the way down (a structure met again contains
    itself).  [fuel]: remaining depth; the names on the way are distinct structure names, so
    [length structs + 1] always suffices. *)
Fixpoint flatten_struct (fuel : nat) (g : library) (visiting : list bytes) (s : gstruct) : sres (list fshape) :=
  match fuel with
  | O => SSilent
  | S f =>
    if existsb (zlist_eqb (s_name s)) visiting then SErr
    else
      let sub (nm : bytes) (pls : sres (list splacement)) : sres (list fshape) :=
        match find_struct g nm with
        | None => SErr
        | Some t =>
          sbind2 pls (flatten_struct f g (s_name s :: visiting) t)
                 (fun pls shapes => SOk (flat_map (fun pl => map (place_fshape pl) shapes) pls))
        end in
      sconcat (map (fun e =>
                      match e with
                      | EBoundary b => smap (fun gm => [mkfs (b_layer b) (b_datatype b) gm]) (boundary_geom b)
                      | EBox b => smap (fun gm => [mkfs (x_layer b) (x_boxtype b) gm]) (box_geom b)
                      | EPath p => smap (fun gm => [mkfs (p_layer p) (p_datatype p) gm]) (path_geom p)
                      | ESref r => sub (sr_name r) (sref_placements r)
                      | EAref a => sub (ar_name a) (aref_placements a)
                      | EText _ | ENode _ => SOk []
                      end) (s_elems s))
  end.

Definition gds_flatten (g : library) (c : bytes) : sres (list fshape) :=
  if negb (names_distinct g) then SSilent
  else match find_struct g c with
       | None => SErr
       | Some s => flatten_struct (S (List.length (l_structs g))) g [] s
       end.

(** the library as a whole: malformed as soon as one structure is *)
Definition is_serr {A : Type} (x : sres A) : bool := match x with SErr => true | _ => false end.
Definition is_ssilent {A : Type} (x : sres A) : bool := match x with SSilent => true | _ => false end.
Definition malformedb (g : library) : bool :=
  names_distinct g && existsb (fun s => is_serr (gds_flatten g (s_name s))) (l_structs g).
Definition malformed (g : library) : Prop := malformedb g = true.
Definition silentb (g : library) : bool :=
  negb (names_distinct g) || existsb (fun s => is_ssilent (gds_flatten g (s_name s))) (l_structs g).
(** every reference in the library turns by a whole number of right angles, and nothing else
    takes the library out of the property's reach *)
Definition right_angle (g : library) : Prop := silentb g = false.

(** * Normal forms and [flat_equiv] *)
Inductive ngeom : Type :=
| NRect (x0 y0 x1 y1 : Z)
| NPoly (pts : list pt)
| NPath (pts : list pt) (w : Z).
Definition nrect_of (a c : pt) : ngeom :=
  NRect (Z.min (fst a) (fst c)) (Z.min (snd a) (snd c)) (Z.max (fst a) (fst c)) (Z.max (snd a) (snd c)).
Definition norm_poly (pts : list pt) : ngeom :=
  match pts with
  | [a; b; c; d] => if rect4 a b c d then nrect_of a c else NPoly pts
  | _ => NPoly pts
  end.
Definition norm_geom (gm : geom) : ngeom :=
  match gm with GPoly pts => norm_poly pts | GPath pts w => NPath pts w end.
Definition nshape : Type := (Z * Z * ngeom)%type.
Definition norm_fshape (s : fshape) : nshape := (fs_layer s, fs_dtype s, norm_geom (fs_geom s)).

(** a raw shape / element as a normal form; [None]: the element's layer key or purpose is not
    registered in the layer table (it then stands for no (layer, datatype) pair) *)
Definition rpt (p : R.point) : pt := (R.px p, R.py p).
Definition norm_raw_shape (s : R.shape) : ngeom :=
  match s with
  | R.Rect p0 p1 => nrect_of (rpt p0) (rpt p1)
  | R.Polygon pts => norm_poly (map rpt pts)
  | R.Path pts w => NPath (map rpt pts) w
  end.
Definition norm_raw_elem (ly : R.layers) (e : R.element) : option nshape :=
  match R.resolve_lp ly (R.e_layer e) (R.e_purpose e) with
  | Some (l, d) => Some (l, d, norm_raw_shape (R.e_shape e))
  | None => None
  end.
Fixpoint omap_all {A B : Type} (f : A -> option B) (l : list A) : option (list B) :=
  match l with
  | [] => Some []
  | x :: r => match f x, omap_all f r with Some y, Some ys => Some (y :: ys) | _, _ => None end
  end.

(** the flattened raw elements say exactly the flattened GDSII shapes *)
Definition flat_equiv (ly : R.layers) (raw : list R.element) (spec : list fshape) : Prop :=
  exists ns, omap_all (norm_raw_elem ly) raw = Some ns /\ Permutation ns (map norm_fshape spec).

(** ** decidable form: remove one by one *)
Definition pts_eqb (a b : list pt) : bool := list_eqb pt_eqb a b.
Definition ngeom_eqb (a b : ngeom) : bool :=
  match a, b with
  | NRect a0 a1 a2 a3, NRect b0 b1 b2 b3 => (a0 =? b0) && (a1 =? b1) && (a2 =? b2) && (a3 =? b3)
  | NPoly p, NPoly q => pts_eqb p q
  | NPath p w, NPath q v => pts_eqb p q && (w =? v)
  | _, _ => false
  end.
Definition nshape_eqb (a b : nshape) : bool :=
  (fst (fst a) =? fst (fst b)) && (snd (fst a) =? snd (fst b)) && ngeom_eqb (snd a) (snd b).
Fixpoint remove_first (x : nshape) (l : list nshape) : option (list nshape) :=
  match l with
  | [] => None
  | y :: r => if nshape_eqb x y then Some r
              else match remove_first x r with Some r' => Some (y :: r') | None => None end
  end.
Fixpoint perm_eqb (a b : list nshape) : bool :=
  match a with
  | [] => match b with [] => true | _ => false end
  | x :: r => match remove_first x b with Some b' => perm_eqb r b' | None => false end
  end.
Definition flat_equivb (ly : R.layers) (raw : list R.element) (spec : list fshape) : bool :=
  match omap_all (norm_raw_elem ly) raw with
  | Some ns => perm_eqb ns (map norm_fshape spec)
  | None => false
  end.

(** * Labels *)
Inductive tri : Type := In3 | Out3 | Unk3.

Definition on_boundaryb (P : list pt) (q : pt) : bool :=
  existsb (fun e => CS.on_segb (fst e) (snd e) q) (CS.edges P).
Definition poly_in (P : list pt) (q : pt) : tri :=
  if on_boundaryb P q then In3
  else
    let eo := Z.odd (CS.crossings P q) in
    let nz := negb (CS.winding P q =? 0) in
    if Bool.eqb eo nz then (if eo then In3 else Out3) else Unk3.

(** within half the width of the segment a b, the projection falling on the segment: exact, no
    division: (2 * cross)^2 <= w^2 * |b - a|^2 and 0 <= (q - a).(b - a) <= |b - a|^2 *)
Definition near_segb (w : Z) (a b q : pt) : bool :=
  let dx := fst b - fst a in let dy := snd b - snd a in
  let len2 := dx * dx + dy * dy in
  let dot := (fst q - fst a) * dx + (snd q - snd a) * dy in
  let cr := CS.cross a b q in
  CS.on_segb a b q
  || ((0 <? len2) && (0 <=? dot) && (dot <=? len2) && (4 * cr * cr <=? w * w * len2)).
(** farther than half the width from the segment's bounding box in the Chebyshev sense *)
Definition far_segb (w : Z) (a b q : pt) : bool := w <? 2 * CS.cheb_seg a b q.
Definition path_in (pts : list pt) (w : Z) (q : pt) : tri :=
  let segs := CS.chain pts in
  if existsb (fun e => near_segb w (fst e) (snd e) q) segs then In3
  else if forallb (fun e => far_segb w (fst e) (snd e) q) segs then Out3
  else Unk3.
Definition label_in (gm : geom) (q : pt) : tri :=
  match gm with GPoly P => poly_in P q | GPath pts w => path_in pts w q end.

(** the shapes of a structure itself (no references), in element order, and its texts *)
Definition own_shapes (s : gstruct) : sres (list fshape) :=
  sconcat (map (fun e =>
                  match e with
                  | EBoundary b => smap (fun gm => [mkfs (b_layer b) (b_datatype b) gm]) (boundary_geom b)
                  | EBox b => smap (fun gm => [mkfs (x_layer b) (x_boxtype b) gm]) (box_geom b)
                  | EPath p => smap (fun gm => [mkfs (p_layer p) (p_datatype p) gm]) (path_geom p)
                  | _ => SOk []
                  end) (s_elems s)).
Definition own_texts (s : gstruct) : list textelem :=
  flat_map (fun e => match e with EText t => [t] | _ => [] end) (s_elems s).

(** net names: the same up to ASCII case *)
Definition up_byte (b : Z) : Z := if (97 <=? b) && (b <=? 122) then b - 32 else b.
Definition name_eq_nocase (a b : bytes) : bool := zlist_eqb (map up_byte a) (map up_byte b).
Definition bytes_of_string (s : string) : bytes :=
  (fix go (s : string) : bytes :=
     match s with EmptyString => [] | String a r => Z.of_N (N_of_ascii a) :: go r end) s.
Definition ascii_bytes (l : bytes) : bool := forallb (fun b => (0 <=? b) && (b <? 128)) l.

Definition tri_is (a b : tri) : bool :=
  match a, b with In3, In3 | Out3, Out3 | Unk3, Unk3 => true | _, _ => false end.

(** the net of one shape: a name it carries must be that of a label not outside it; a shape
    without net has no label inside it *)
Definition net_okb (texts : list textelem) (s : fshape) (net : option string) : bool :=
  match net with
  | Some n =>
    existsb (fun t => (t_layer t =? fs_layer s) && name_eq_nocase (t_string t) (bytes_of_string n)
                      && negb (tri_is (label_in (fs_geom s) (gpt (t_xy t))) Out3)) texts
  | None =>
    forallb (fun t => negb ((t_layer t =? fs_layer s) && tri_is (label_in (fs_geom s) (gpt (t_xy t))) In3)) texts
  end.
Fixpoint nets_okb (texts : list textelem) (shapes : list fshape) (nets : list (option string)) : bool :=
  match shapes, nets with
  | [], [] => true
  | s :: r, n :: rn => net_okb texts s n && nets_okb texts r rn
  | _, _ => false
  end.

(** annotations: in the order of the texts, every text outside all shapes of its layer, no text
    inside one of them; string verbatim, location unchanged *)
Definition text_must (shapes : list fshape) (t : textelem) : bool :=
  forallb (fun s => negb (t_layer t =? fs_layer s) || tri_is (label_in (fs_geom s) (gpt (t_xy t))) Out3) shapes.
Definition text_mustnot (shapes : list fshape) (t : textelem) : bool :=
  existsb (fun s => (t_layer t =? fs_layer s) && tri_is (label_in (fs_geom s) (gpt (t_xy t))) In3) shapes.
Definition annot_is (t : textelem) (a : string * pt) : bool :=
  zlist_eqb (t_string t) (bytes_of_string (fst a)) && pt_eqb (gpt (t_xy t)) (snd a).
Fixpoint annots_okb (shapes : list fshape) (texts : list textelem) (annots : list (string * pt)) : bool :=
  match texts with
  | [] => match annots with [] => true | _ => false end
  | t :: r =>
    if text_must shapes t then
      match annots with a :: ra => annot_is t a && annots_okb shapes r ra | [] => false end
    else if text_mustnot shapes t then annots_okb shapes r annots
    else (* unspecified: the text may be an annotation (then it is the next one) or not *)
         match annots with
         | a :: ra => (annot_is t a && annots_okb shapes r ra) || annots_okb shapes r annots
         | [] => annots_okb shapes r annots
         end
  end.

(** all label strings of the library are ASCII (otherwise case folding is outside this file) *)
Definition labels_ascii (g : library) : bool :=
  forallb (fun s => forallb (fun t => ascii_bytes (t_string t)) (own_texts s)) (l_structs g).
