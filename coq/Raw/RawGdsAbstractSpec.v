(** C07, abstract views -- what "exported to GDSII and imported back is unchanged" means for a cell
    that has only an ABSTRACT.  Written from the property statement and the GDSII data model, not from
    the exporter's code.

    GDSII has no abstract view: a struct holds boundaries, paths, texts and references, nothing else.
    The cell therefore comes back as a LAYOUT cell, and the meaningful statement is one about content:
    the re-imported layout holds, in order,
      - the outline polygon, on the reserved pair of numbers (32767, 32767);
      - for every port (in order), for every layer of the port (ascending layer key), for every shape
        on it (in order): the shape on the layer's Drawing number and the shape on the layer's Pin
        number, both carrying the port's net (lower-cased);
      - nothing for the blockages (they have no GDSII counterpart: inherent loss of the format mapping),
    no instances and no annotation.  [abstract_image] is that layout; it is expressed over the layer
    table in which the reserved pair (32767, 32767) has a slot ([outline_table]): the table itself when
    the pair is already registered, else the table with the layer [outline_layer] appended (or, when a
    layer numbered 32767 exists without purpose number 32767, with that purpose added to it).
    [layout_content_equiv] compares two layouts as content: same name, same instances, same shapes in
    order (layer number, purpose number, shape modulo representation, lower-cased net; the relation
    [velem_equiv] of Raw/RawGdsExportSpec.v), no annotation.
    A cell with BOTH views is exported by its layout; its abstract plays no part.
    No proofs in this file. *)
From Coq Require Import ZArith List String Bool.
From L21 Require Import Raw.RawData Raw.RawGdsExportSpec.
Import ListNotations.
Local Open Scope list_scope.
Local Open Scope Z_scope.

(** * the reserved slot of the outline *)
(** the layer the table receives when no layer carries the number 32767 *)
Definition outline_layer : layer := mklayer outline_num None [(outline_num, Other outline_num)].
(** `Layers::get_or_insert(32767, 32767)`: the table's own answer for the reserved pair *)
Definition outline_table (ly : layers) : layers := fst (fst (get_or_insert ly outline_num outline_num)).
Definition outline_key (ly : layers) : nat := snd (fst (get_or_insert ly outline_num outline_num)).
Definition outline_purpose (ly : layers) : purpose := snd (get_or_insert ly outline_num outline_num).

(** * the image of an abstract *)
Definition port_layer_image (net : string) (e : nat * list shape) : list element :=
  flat_map (fun s => [mkelem (Some net) (fst e) Drawing s; mkelem (Some net) (fst e) Pin s]) (snd e).
Definition port_image (p : absport) : list element :=
  flat_map (port_layer_image (ap_net p)) (by_key (ap_shapes p)).
Definition abstract_image_elems (ko : nat) (po : purpose) (a : abstract) : list element :=
  mkelem None ko po (Polygon (ab_outline a)) :: flat_map port_image (ab_ports a).
(** over the table [outline_table ly] *)
Definition abstract_image (ly : layers) (a : abstract) : layout :=
  mklayout (ab_name a) [] (abstract_image_elems (outline_key ly) (outline_purpose ly) a) [].

(** * layouts as content, over one layer table and one cell list *)
Definition layout_content_equiv (ly : layers) (cells : list cell) (l l' : layout) : Prop :=
  lay_name l' = lay_name l /\
  (exists iv, all_some (map (inst_view cells) (lay_insts l)) = Some iv /\
              all_some (map (inst_view cells) (lay_insts l')) = Some iv) /\
  (exists ev ev', all_some (map (elem_view ly) (lay_elems l)) = Some ev /\
                  all_some (map (elem_view ly) (lay_elems l')) = Some ev' /\
                  Forall2 velem_equiv ev ev') /\
  lay_annots l' = [].
Definition layout_content_equivb (ly : layers) (cells : list cell) (l l' : layout) : bool :=
  String.eqb (lay_name l') (lay_name l) &&
  match all_some (map (inst_view cells) (lay_insts l)), all_some (map (inst_view cells) (lay_insts l')) with
  | Some iv, Some iv' => forall2b vinst_eqb iv iv'
  | _, _ => false
  end &&
  match all_some (map (elem_view ly) (lay_elems l)), all_some (map (elem_view ly) (lay_elems l')) with
  | Some ev, Some ev' => forall2b velem_equivb ev ev'
  | _, _ => false
  end &&
  match lay_annots l' with [] => true | _ => false end.

(** * the input space *)
(** a cell exported by its abstract *)
Definition abstract_only (c : cell) : option abstract :=
  match c_layout c with Some _ => None | None => c_abs c end.
Definition is_abstract_only (c : cell) : bool :=
  match abstract_only c with Some _ => true | None => false end.

(** Every Named / Other purpose of a layer is registered under its own number: the check of
    `Layer::add_purpose`, hence an invariant of every table built through the API (the two maps of
    `Layer` are private).  It is needed of one layer only: a layer numbered 32767 that has no purpose
    numbered 32767 yet (the importer then adds `Other(32767)` to THAT layer). *)
Definition purposes_numberedb (l : layer) : bool :=
  forallb (fun np => purpose_num_ok (fst np) (snd np)) (l_pairs l).
Definition outline_slot_okb (ly : layers) : bool :=
  match ly_keynum ly outline_num with
  | None => true
  | Some k => match ly_get ly k with
              | Some l => match layer_purpose l outline_num with
                          | Some _ => true
                          | None => purposes_numberedb l
                          end
              | None => false
              end
  end.
(** [exportable] of Raw/RawGdsExportSpec.v already speaks about abstract-only cells ([abstract_okb]: the
    abstract carries the cell's name, a non-empty outline in i32, ASCII port nets, every port layer with
    Drawing, Pin and Label numbers, every port shape in range and with a label location). *)
Definition exportable_absb (L : library) : bool := exportableb L && outline_slot_okb (lib_layers L).
Definition exportable_abs (L : library) : Prop := exportable_absb L = true.

(** * the layer table after the round trip *)
Definition table_after (L : library) : layers :=
  if existsb is_abstract_only (lib_cells L) then outline_table (lib_layers L) else lib_layers L.
