(** Lemmas for property C14, part 6: the statements of Properties/C14.v that are not already
    theorems of the other parts -- the code's own iteration order is a permutation, the
    rotation field is exact, what the schema cannot express is an error (or, for
    `Units::Pico`, the `unimplemented!()` panic), the exporter as found (rotation written as
    0) is refuted by a closed witness, and closed examples that meet every hypothesis.

    Parts: Raw/RawProtoBase_proofs.v (monads, layer table), RawProtoImport_proofs.v (the importer keeps
    the content), RawProtoOrder_proofs.v (dependency order, via the C17 theorems),
    RawProtoTotal_proofs.v (when the importer succeeds), RawProtoExport_proofs.v (the exporter
    writes the content; raw -> proto -> raw), RawProtoBack_proofs.v (proto -> raw -> proto). *)
From Coq Require Import ZArith NArith List String Bool Lia Permutation Arith.
From L21 Require Import Base.F64 Base.Outcome Raw.RawData Raw.RawProto Raw.RawProtoSpec.
From L21 Require Export Raw.RawProtoBase_proofs Raw.RawProtoImport_proofs Raw.RawProtoOrder_proofs
  Raw.RawProtoTotal_proofs Raw.RawProtoExport_proofs Raw.RawProtoBack_proofs.
From L21 Require Order.DepOrderSpec.
Import ListNotations.
Local Open Scope list_scope.
Local Open Scope Z_scope.

(** * `sorted_by_layer` visits every entry once *)
Lemma insert_entry_perm : forall x l, Permutation (insert_entry x l) (x :: l).
Proof.
  induction l as [|y r IH]; simpl; auto. destruct (Nat.leb (fst x) (fst y)); auto.
  eapply perm_trans; [apply perm_skip; apply IH|apply perm_swap].
Qed.
Lemma sorted_by_layer_perm : perm_oracle sorted_by_layer.
Proof.
  intros m. unfold sorted_by_layer. induction m as [|x r IH]; simpl; auto.
  eapply perm_trans; [apply insert_entry_perm|apply perm_skip; auto].
Qed.

Theorem raw_proto_raw_code : forall L ly0, proto_exportable L -> layers_wf ly0 ->
  exists P L', to_proto L = Ok P /\ from_proto ly0 P = Ok L' /\ raw_equiv_grouped L L'.
Proof. intros. apply raw_proto_raw; auto. apply sorted_by_layer_perm. Qed.

(** * the rotation field is exactly the rotation content, or an error *)
Theorem export_rotation_exact : forall a v, export_rotation a = Ok v <-> angle_content a = Some v.
Proof.
  intros [b|] v; simpl.
  - destruct (f64_int_value b) as [w|]; [destruct (i32_okb w)|]; split; intros H; inversion H; auto.
  - split; intros H; inversion H; auto.
Qed.
Theorem export_rotation_error : forall a, angle_content a = None -> exists e, export_rotation a = Err e.
Proof.
  intros [b|] H; simpl in *; [|discriminate].
  destruct (f64_int_value b) as [w|]; [destruct (i32_okb w); [discriminate|]|]; eauto.
Qed.
(** ... and such an instance makes the whole export an error (not a panic, not a message with
    another rotation), when it is the first thing wrong with the library *)
Lemma mapM_first_err : forall (A B : Type) (f : A -> res B) l1 x l2 e,
  (forall y, In y l1 -> exists z, f y = Ok z) -> f x = Err e -> mapM f (l1 ++ x :: l2) = Err e.
Proof.
  induction l1 as [|y r IH]; intros x l2 e Hok He; simpl.
  - rewrite He. reflexivity.
  - destruct (Hok y (or_introl eq_refl)) as [z Hz]. rewrite Hz. simpl. rewrite (IH x l2 e); auto. intros; apply Hok; right; auto.
Qed.

(** * what the schema cannot express *)
Theorem export_pico_panics : forall xrot ord L, lib_units L = Pico -> to_proto_with xrot ord L = Panic.
Proof. intros xrot ord L H. unfold to_proto_with. rewrite H. reflexivity. Qed.

Theorem export_cyclic_error : forall xrot ord L,
  lib_units L <> Pico -> closed (lib_cells L) -> ~ acyclic (lib_cells L) -> exists e, to_proto_with xrot ord L = Err e.
Proof.
  intros xrot ord L Hu Hc Hac. unfold to_proto_with.
  assert (exists u, export_units (lib_units L) = Ok u) as [u Eu] by (destruct (lib_units L); simpl; eauto; congruence).
  rewrite Eu. simpl. destruct (dep_order_cyclic _ Hc Hac) as [e E]. rewrite E. simpl. eauto.
Qed.

(** * the exporter as found: rotation written as 0 *)
Definition b90 : Z := 4636033603912859648.    (* 90.0_f64 *)
Definition Lw : library :=
  mklib "l" Nano []
    [mkcell "a" None (Some (mklayout "a" [] [] []));
     mkcell "b" None (Some (mklayout "b" [mkinst "i" 0 (mkpt 3 4) true (Some b90)] [] []))].

Lemma reach_from_leaf : forall (deps : N -> list N) x y, deps x = [] -> DepOrderSpec.reach deps x y -> y = x.
Proof. intros deps x y H R. inversion R; subst; auto. rewrite H in H0. destruct H0. Qed.

Lemma Lw_exportable : proto_exportable Lw.
Proof.
  unfold proto_exportable, Lw. cbn [lib_units lib_cells lib_layers]. split; [discriminate|]. split; [|split].
  - simpl. repeat constructor; simpl; intuition congruence.
  - intros x [d [Hd Hr]]. unfold cell_deps_N in Hd.
    destruct (N.to_nat x) as [|[|k]] eqn:Ex; simpl in Hd.
    + destruct Hd.
    + destruct Hd as [<-|[]]. apply reach_from_leaf in Hr; [|reflexivity]. subst x. discriminate.
    + destruct k; destruct Hd.
  - intros c [<-|[<-|[]]]; simpl; (split; [|discriminate]); intros l E; inversion E; subst; clear E; split; simpl.
    + intros i [].
    + intros e [].
    + intros i [<-|[]]. simpl. split; [lia|]. vm_compute. discriminate.
    + intros e [].
Qed.

Lemma perm2_inv : forall (A : Type) (a b : A) l, Permutation l [a; b] -> l = [a; b] \/ l = [b; a].
Proof. intros A a b l H. apply Permutation_sym in H. apply Permutation_length_2_inv in H. tauto. Qed.

Theorem raw_proto_raw_orig_witness :
  proto_exportable Lw /\ layers_wf [] /\
  exists P L', to_proto_orig Lw = Ok P /\ from_proto [] P = Ok L' /\ ~ raw_equiv_grouped Lw L'.
Proof.
  split; [apply Lw_exportable|]. split; [split; [constructor|intros l []]|].
  eexists. eexists. split; [vm_compute; reflexivity|]. split; [vm_compute; reflexivity|].
  intros [C [C' [E1 [E2 [_ [_ [cs [Hp Hf]]]]]]]].
  vm_compute in E1. vm_compute in E2. inversion E1; subst C; clear E1. inversion E2; subst C'; clear E2.
  cbn [ct_cells] in *.
  inversion Hf as [|x y l l' Hxy Hf' ]; subst. inversion Hf' as [|x2 y2 l2 l2' Hxy2 Hf'']; subst. inversion Hf''; subst.
  apply perm2_inv in Hp. destruct Hp as [Hp|Hp]; inversion Hp; subst.
  - destruct Hxy2 as [_ [Hl _]]. simpl in Hl. destruct Hl as [_ [Hi _]]. simpl in Hi. inversion Hi.
  - destruct Hxy as [Hn _]. simpl in Hn. discriminate.
Qed.

(** the round-trip statement, for the exporter as found, is false *)
Theorem raw_proto_raw_orig_refuted :
  ~ (forall ord L ly0, perm_oracle ord -> proto_exportable L -> layers_wf ly0 ->
       exists P L', to_proto_with export_rotation_orig ord L = Ok P /\ from_proto ly0 P = Ok L' /\ raw_equiv_grouped L L').
Proof.
  intros H. destruct raw_proto_raw_orig_witness as [Hex [Hwf [P [L' [E1 [E2 Hn]]]]]].
  destruct (H sorted_by_layer Lw [] sorted_by_layer_perm Hex Hwf) as [P2 [L2 [F1 [F2 F3]]]].
  unfold to_proto_orig in E1. rewrite E1 in F1. inversion F1; subst P2. rewrite E2 in F2. inversion F2; subst L2. auto.
Qed.

(** the same defect seen from the message side: a canonical message with a rotation does not
    come back *)
Definition Pw : plib :=
  mkplib "l" 1
    [mkpcell "a" false None (Some (mkplayout "a" [] [] []));
     mkpcell "b" false None (Some (mkplayout "b" [] [mkpinst "i" (Some (Some (RefLocal "a"))) (Some (mkpp 3 4)) true 90] []))]
    false.
Lemma Pw_ok : layers_wf [] /\ proto_typed Pw /\ deps_first Pw /\ canonical [] Pw.
Proof.
  split; [split; [constructor|intros l []]|]. split; [|split].
  - intros c l i [<-|[<-|[]]] E Hi; inversion E; subst; simpl in Hi; [destruct Hi|]. destruct Hi as [<-|[]]. simpl. unfold i32_ok. lia.
  - unfold deps_first, Pw. simpl. split; [intros i []|]. split; [|exact I]. intros i [<-|[]]. exists "a"%string. simpl. auto.
  - unfold canonical, Pw. cbn [pb_author pb_cells]. split; auto.
    constructor; [|constructor; [|constructor]];
      (split; [reflexivity|]; split; [intros l E; inversion E; subst; split; constructor|intros a E; discriminate]).
Qed.
Theorem proto_raw_proto_orig_witness :
  layers_wf [] /\ proto_typed Pw /\ deps_first Pw /\ canonical [] Pw /\
  exists L P', from_proto [] Pw = Ok L /\ to_proto_orig L = Ok P' /\ P' <> Pw.
Proof.
  destruct Pw_ok as [A [B [C D]]]. repeat (split; auto).
  eexists. eexists. split; [vm_compute; reflexivity|]. split; [vm_compute; reflexivity|]. discriminate.
Qed.
Theorem proto_raw_proto_orig_refuted :
  ~ (forall ly0 P L, layers_wf ly0 -> proto_typed P -> deps_first P -> canonical ly0 P ->
       from_proto ly0 P = Ok L -> to_proto_orig L = Ok P).
Proof.
  intros H. destruct proto_raw_proto_orig_witness as [A [B [C [D [L [P' [E1 [E2 Hne]]]]]]]].
  specialize (H [] Pw L A B C D E1). rewrite E2 in H. inversion H. auto.
Qed.

(** * closed examples that meet every hypothesis *)
Definition ly_nv : layers :=
  [mklayer 5 (Some "M1"%string) [(0, Drawing); (1, Pin); (2, Obstruction)];
   mklayer 7 None [(0, Drawing); (3, Pin); (4, Obstruction); (9, Other 9)]].
(** users listed first; corners of the rectangle swapped; a rotated and reflected instance *)
Definition L_nv : library :=
  mklib "lib" Nano ly_nv
    [mkcell "b" None
       (Some (mklayout "b_lay"
                [mkinst "i0" 1 (mkpt 10 20) true (Some b90); mkinst "i1" 1 (mkpt (-5) 0) false None]
                [mkelem None 1 (Other 9) (Rect (mkpt 0 0) (mkpt 1 1))]
                [mktext "t" (mkpt 1 2)]));
     mkcell "a"
       (Some (mkabstract "a" [mkpt 0 0; mkpt 9 0; mkpt 9 9; mkpt 0 9]
                [mkabsport "p" [(1%nat, [Rect (mkpt 1 1) (mkpt 2 2)]); (0%nat, [Polygon [mkpt 0 0; mkpt 1 0; mkpt 1 1]; Rect (mkpt 4 4) (mkpt 3 3)])]]
                [(0%nat, [Path [mkpt 0 0; mkpt 5 0] 2])]))
       (Some (mklayout "a"
                []
                [mkelem (Some "vdd"%string) 0 Drawing (Rect (mkpt 5 9) (mkpt 1 2));
                 mkelem None 1 Drawing (Path [mkpt 0 0; mkpt 10 0] 2);
                 mkelem (Some "vdd"%string) 0 Drawing (Polygon [mkpt 0 0; mkpt 4 0; mkpt 4 4]);
                 mkelem None 1 Drawing (Rect (mkpt 0 0) (mkpt 3 3))]
                []))].

Ltac numbered := eexists; eexists; split; [vm_compute; reflexivity|split; unfold i16_ok; lia].
Ltac shapeok := simpl; unfold i64_ok, i64_min, i64_max, two63; lia.

Lemma L_nv_exportable : proto_exportable L_nv.
Proof.
  unfold proto_exportable, L_nv. cbn [lib_units lib_cells lib_layers]. split; [discriminate|]. split; [|split].
  - simpl. repeat constructor; simpl; intuition congruence.
  - intros x [d [Hd Hr]]. unfold cell_deps_N in Hd.
    destruct (N.to_nat x) as [|[|k]] eqn:Ex; simpl in Hd.
    + assert (d = 1%N) by (destruct Hd as [<-|[<-|[]]]; reflexivity). subst d.
      apply reach_from_leaf in Hr; [|reflexivity]. subst x. discriminate.
    + destruct Hd.
    + destruct k; destruct Hd.
  - intros c [<-|[<-|[]]]; cbn [c_layout c_abs]; split.
    + intros l E; inversion E; subst; clear E. split; cbn [lay_insts lay_elems].
      * intros i [<-|[<-|[]]]; simpl; (split; [lia|]); vm_compute; discriminate.
      * intros e [<-|[]]; cbn [e_layer e_purpose e_shape]; split; [numbered|shapeok].
    + discriminate.
    + intros l E; inversion E; subst; clear E. split; cbn [lay_insts lay_elems].
      * intros i [].
      * intros e [<-|[<-|[<-|[<-|[]]]]]; cbn [e_layer e_purpose e_shape]; split; try numbered; try shapeok; exact I.
    + intros a E; inversion E; subst; clear E. split; cbn [ab_ports ab_blockages].
      * intros p [<-|[]]. cbn [ap_shapes]. split; [|split].
        -- simpl. repeat constructor; simpl; intuition congruence.
        -- intros k ss [E|[E|[]]]; inversion E; subst; (split; [numbered|]); repeat constructor; try shapeok.
        -- intros k k' ss ss' [E|[E|[]]] [E'|[E'|[]]] Hk; inversion E; inversion E'; subst; auto; vm_compute in Hk; discriminate.
      * split; [|split].
        -- simpl. repeat constructor; simpl; intuition.
        -- intros k ss [E|[]]; inversion E; subst; (split; [numbered|]); repeat constructor; try shapeok.
        -- intros k k' ss ss' [E|[]] [E'|[]] Hk; inversion E; inversion E'; subst; auto.
Qed.
Lemma ly_nv_wf : layers_wf ly_nv.
Proof.
  split.
  - simpl. repeat constructor; simpl; intuition congruence.
  - intros l [<-|[<-|[]]]; (split; [|split]); simpl;
      try (repeat constructor; simpl; intuition congruence);
      intros n p H; repeat (destruct H as [H|H]; [inversion H; subst; reflexivity|]); destruct H.
Qed.

(** a canonical message: two LayerShapes in a layout, an abstract whose layer lists are in the
    order of the layer table, rotations 90, -90, 720 and 0 *)
Definition P_nv : plib :=
  mkplib "dom" 2
    [mkpcell "a" false
       (Some (mkpabstract "a" (Some (mkppoly "" [mkpp 0 0; mkpp 9 0; mkpp 9 9]))
                [mkpabsport "p" [mkpls (Some (mkplayer 5 1)) [mkprect "" (Some (mkpp 1 1)) 2 3] [] [];
                                 mkpls (Some (mkplayer 7 3)) [] [mkppoly "" [mkpp 0 0; mkpp 1 0; mkpp 1 1]] []]]
                [mkpls (Some (mkplayer 5 2)) [] [] [mkppath "" [mkpp 0 0; mkpp 5 0] 2]]))
       (Some (mkplayout "a"
                [mkpls (Some (mkplayer 5 0)) [mkprect "vdd" (Some (mkpp 1 2)) 4 7] [] [mkppath "" [mkpp 0 0; mkpp 9 0] 2];
                 mkpls (Some (mkplayer 8 6)) [] [mkppoly "n" [mkpp 0 0; mkpp 4 0; mkpp 4 4]] []]
                [] [mkptext "t" (Some (mkpp 1 1))]));
     mkpcell "b" false None
       (Some (mkplayout "b" []
                [mkpinst "i0" (Some (Some (RefLocal "a"))) (Some (mkpp 10 20)) true 90;
                 mkpinst "i1" (Some (Some (RefLocal "a"))) (Some (mkpp 0 0)) false (-90);
                 mkpinst "i2" (Some (Some (RefLocal "a"))) (Some (mkpp 0 0)) false 720;
                 mkpinst "i3" (Some (Some (RefLocal "a"))) (Some (mkpp 1 1)) true 0] []))]
    false.

Ltac plscanon :=
  split; [eexists; split; [reflexivity|split; unfold i16_ok; simpl; lia]|];
  split; repeat constructor; try discriminate; simpl; unfold i64_max, two63; try lia.

Lemma P_nv_ok : proto_typed P_nv /\ deps_first P_nv /\ canonical ly_nv P_nv.
Proof.
  split; [|split].
  - intros c l i [<-|[<-|[]]] E Hi; inversion E; subst; cbn [ply_insts] in Hi; [destruct Hi|].
    repeat (destruct Hi as [<-|Hi]; [simpl; unfold i32_ok; lia|]). destruct Hi.
  - unfold deps_first, P_nv. simpl. split; [intros i []|]. split; [|exact I].
    intros i Hi. exists "a"%string. repeat (destruct Hi as [<-|Hi]; [simpl; auto|]). destruct Hi.
  - unfold canonical, P_nv. cbn [pb_author pb_cells]. split; auto.
    constructor; [|constructor; [|constructor]]; (split; [reflexivity|]); split.
    + intros l E; inversion E; subst; clear E. split; cbn [ply_shapes].
      * constructor; [|constructor; [|constructor]]; (split; [plscanon|]); unfold pls_nonempty; simpl; [left|right; left]; discriminate.
      * simpl. constructor; [intros [H|[]]; discriminate|constructor; [intros []|constructor]].
    + intros a E; inversion E; subst; clear E. split; [eexists; split; reflexivity|]. cbn [pab_ports pab_blockages]. split.
      * constructor; [|constructor]. cbn [pap_shapes]. split.
        -- constructor; [|constructor; [|constructor]]; (split; [plscanon|]); simpl;
             (split; [repeat constructor|]); (split; [repeat constructor|]); (split; [repeat constructor|]);
             eexists; eexists; eexists; (split; [reflexivity|]); (split; [vm_compute; reflexivity|]); split; vm_compute; reflexivity.
        -- vm_compute. split; [lia|]. split; exact I.
      * split.
        -- constructor; [|constructor]; (split; [plscanon|]); simpl;
             (split; [repeat constructor|]); (split; [repeat constructor|]); (split; [repeat constructor|]);
             eexists; eexists; eexists; (split; [reflexivity|]); (split; [vm_compute; reflexivity|]); split; vm_compute; reflexivity.
        -- vm_compute. split; exact I.
    + intros l E; inversion E; subst; clear E. split; cbn [ply_shapes]; constructor.
    + intros a E; discriminate.
Qed.
