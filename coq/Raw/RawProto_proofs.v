(** Lemmas for C14 (in progress). *)
From Coq Require Import ZArith List String Bool Lia Permutation.
From L21 Require Import Base.F64 Base.Outcome Raw.RawData Raw.RawProto Raw.RawProtoSpec.
Import ListNotations.
