(** Lemmas for C06 about the model of `Layout::flatten` (Raw/RawFlatten.v).
    Part 1 (any commutative ring): flattening one level at a time -- [flatten_K] of a layout is its own
            elements followed, instance by instance, by the flattening of the instantiated cell moved by
            the instance's transform ([flatten_K_step]); derived from C12's [flatten_helper_paths].
    Part 2 the raw library: [rflat] is that one-level recursion on a [library] itself (no tags, no
            tree); whenever it is defined, [raw_flatten] returns it ([rflat_raw_flatten]). *)
From Coq Require Import ZArith List String Bool Lia Permutation Arith.
From L21 Require Import Base.F64 Raw.RawData Raw.RawFlatten.
From L21 Require Geom.Transform Geom.TransformSpec Geom.Transform_proofs.
Import ListNotations.
Local Open Scope Z_scope.
Module TP := Geom.Transform_proofs.

(** * flatten_helper under a transform = the flattening from the identity, moved *)
Section Compose.
  Context {K : Type} (R : T.ring_ops K).
  Hypothesis Rth : Ring_theory.ring_theory (T.k0 R) (T.k1 R) (T.kadd R) (T.kmul R) (T.ksub R) (T.kopp R) (@eq K).

  Lemma shape_map_comp : forall (f h : K * K -> K * K) s, TP.shape_map f (TP.shape_map h s) = TP.shape_map (fun v => f (h v)) s.
  Proof. intros f h s. destruct s; cbn; rewrite ?map_map; reflexivity. Qed.
  Lemma elem_map_comp : forall (f h : K * K -> K * K) e, TP.elem_map f (TP.elem_map h e) = TP.elem_map (fun v => f (h v)) e.
  Proof. intros f h [tag s]. unfold TP.elem_map; cbn. rewrite shape_map_comp. reflexivity. Qed.
  Lemma elem_map_ext : forall (f h : K * K -> K * K) e, (forall v, f v = h v) -> TP.elem_map f e = TP.elem_map h e.
  Proof. intros f h [tag s] H. unfold TP.elem_map; cbn. f_equal. apply TP.shape_map_ext. exact H. Qed.

  Lemma image_under_trans : forall (t : T.transform K) pe,
    TP.image_under R t pe = TP.elem_map (T.apply R t) (TP.image_under R (T.identity R) pe).
  Proof.
    intros t [path e]. unfold TP.image_under; cbn [fst snd]. rewrite elem_map_comp. apply elem_map_ext. intro v.
    unfold TP.along. rewrite !(TP.fold_cascade_apply R Rth). rewrite (TP.apply_identity R Rth). reflexivity.
  Qed.

  Lemma flatten_helper_K_trans : forall (l : T.layout (T.placement K) (K * K)) (t : T.transform K),
    T.flatten_helper_K R l t =
    match T.flatten_K R l with
    | T.Ok xs => T.Ok (map (TP.elem_map (T.apply R t)) xs)
    | T.Panic => T.Panic
    | T.OutOfModel => T.OutOfModel
    end.
  Proof.
    intros l t. unfold T.flatten_K. rewrite !(TP.flatten_helper_paths R).
    destruct (TP.paths l) as [ps|]; [|reflexivity]. f_equal. rewrite map_map. apply map_ext. intro pe.
    apply image_under_trans.
  Qed.

  (** one level of [flatten_K] *)
  Fixpoint sub_flat (insts : list (T.placement K * option (T.layout (T.placement K) (K * K)))) : T.outcome (list (T.element (K * K))) :=
    match insts with
    | [] => T.Ok []
    | (p, oc) :: rest =>
      match oc with
      | None => T.Panic
      | Some c =>
        match T.flatten_K R c with
        | T.Ok xs => match sub_flat rest with
                     | T.Ok ys => T.Ok (map (TP.elem_map (T.apply R (T.from_placement R p))) xs ++ ys)
                     | T.Panic => T.Panic
                     | T.OutOfModel => T.OutOfModel
                     end
        | T.Panic => T.Panic
        | T.OutOfModel => T.OutOfModel
        end
      end
    end.

  Lemma elem_map_id : forall es : list (T.element (K * K)), map (TP.elem_map (T.apply R (T.identity R))) es = es.
  Proof.
    intro es. rewrite <- (map_id es) at 2. apply map_ext. intros [tag s]. unfold TP.elem_map; cbn. f_equal.
    rewrite (TP.shape_map_ext (T.apply R (T.identity R)) (fun v => v)) by (apply (TP.apply_identity R Rth)).
    destruct s; cbn; rewrite ?map_id; reflexivity.
  Qed.

  Lemma flatten_K_step : forall es insts,
    T.flatten_K R (T.Layout es insts) =
    match sub_flat insts with
    | T.Ok sub => T.Ok (es ++ sub)
    | T.Panic => T.Panic
    | T.OutOfModel => T.OutOfModel
    end.
  Proof.
    intros es insts. unfold T.flatten_K at 1. unfold T.flatten_helper_K. rewrite TP.flatten_helper_eq.
    rewrite TP.elems_transform_total, elem_map_id.
    assert (H : TP.flatten_insts (fun p q => Some (T.cascade R p q)) (fun p => Some (T.from_placement R p))
                                 (fun t v => Some (T.apply R t v)) (T.identity R) insts = sub_flat insts).
    { induction insts as [|[p [c|]] rest IH]; rewrite ?TP.flatten_insts_nil, ?TP.flatten_insts_cons; cbn [sub_flat]; try reflexivity.
      rewrite (TP.cascade_identity_l R Rth).
      change (T.flatten_helper (fun p0 q => Some (T.cascade R p0 q)) (fun p0 => Some (T.from_placement R p0))
                               (fun t v => Some (T.apply R t v)) c (T.from_placement R p))
        with (T.flatten_helper_K R c (T.from_placement R p)).
      rewrite flatten_helper_K_trans, IH. destruct (T.flatten_K R c); reflexivity. }
    rewrite H. reflexivity.
  Qed.
End Compose.

(** * The raw library level: [raw_flatten] one level at a time *)
Definition rshape_map (f : Z * Z -> Z * Z) (s : shape) : shape :=
  match s with
  | Rect a c => Rect (ptz (f (zpt a))) (ptz (f (zpt c)))
  | Polygon pts => Polygon (map (fun p => ptz (f (zpt p))) pts)
  | Path pts w => Path (map (fun p => ptz (f (zpt p))) pts) w
  end.
Definition relem_map (f : Z * Z -> Z * Z) (e : element) : element :=
  mkelem (e_net e) (e_layer e) (e_purpose e) (rshape_map f (e_shape e)).

Fixpoint rflat (fuel : nat) (cells : list cell) (k : nat) : option (list element) :=
  match fuel with
  | O => None
  | S f =>
    match nth_error cells k with
    | Some c =>
      match c_layout c with
      | Some l =>
        match (fix go (is : list instance) : option (list element) :=
                 match is with
                 | [] => Some []
                 | inst :: r =>
                   match placement_of inst, rflat f cells (i_cell inst), go r with
                   | Some p, Some xs, Some ys => Some (map (relem_map (T.apply_Z (T.from_placement_Z p))) xs ++ ys)
                   | _, _, _ => None
                   end
                 end) (lay_insts l) with
        | Some sub => Some (lay_elems l ++ sub)
        | None => None
        end
      | None => None
      end
    | None => None
    end
  end.
Definition rflat_insts (f : nat) (cells : list cell) : list instance -> option (list element) :=
  fix go (is : list instance) : option (list element) :=
    match is with
    | [] => Some []
    | inst :: r =>
      match placement_of inst, rflat f cells (i_cell inst), go r with
      | Some p, Some xs, Some ys => Some (map (relem_map (T.apply_Z (T.from_placement_Z p))) xs ++ ys)
      | _, _, _ => None
      end
    end.
Lemma rflat_S : forall f cells k,
  rflat (S f) cells k =
  match nth_error cells k with
  | Some c => match c_layout c with
              | Some l => match rflat_insts f cells (lay_insts l) with
                          | Some sub => Some (lay_elems l ++ sub)
                          | None => None
                          end
              | None => None
              end
  | None => None
  end.
Proof. reflexivity. Qed.

Lemma zpt_ptz : forall v, zpt (ptz v) = v.
Proof. intros [x y]. reflexivity. Qed.
Lemma ptz_zpt : forall p, ptz (zpt p) = p.
Proof. intros [x y]. reflexivity. Qed.
Lemma shape_of_t_tshape : forall s, shape_of_t (tshape s) = s.
Proof.
  intros [a c|pts|pts w]; cbn; rewrite ?ptz_zpt, ?map_map; f_equal;
    try (rewrite <- (map_id pts) at 2; apply map_ext; exact ptz_zpt).
Qed.
Lemma shape_of_t_shape_map : forall f s, shape_of_t (TP.shape_map f s) = rshape_map f (shape_of_t s).
Proof.
  intros f [a c|pts|pts w]; cbn; rewrite ?zpt_ptz, ?map_map; f_equal;
    try (apply map_ext; intro v; rewrite zpt_ptz; reflexivity).
Qed.
Lemma untag_elem_map : forall all f te, untag all (TP.elem_map f te) = relem_map f (untag all te).
Proof.
  intros all f [tag s]. unfold untag, TP.elem_map, relem_map; cbn [fst snd e_net e_layer e_purpose e_shape].
  rewrite shape_of_t_shape_map. reflexivity.
Qed.

Lemma all_elems_split : forall cells k c,
  nth_error cells k = Some c ->
  exists a b, all_elems cells = a ++ cell_elems c ++ b /\ Z.of_nat (List.length a) = elem_offset cells k.
Proof.
  induction cells as [|c0 cells IH]; intros k c H; destruct k; cbn in H; try discriminate.
  - injection H as ->. exists [], (all_elems cells). split; reflexivity.
  - destruct (IH k c H) as [a [b [E L]]]. exists (cell_elems c0 ++ a), b. split.
    + unfold all_elems in *. cbn [flat_map]. rewrite E, app_assoc. reflexivity.
    + cbn [elem_offset]. rewrite app_length, Nat2Z.inj_add, L. reflexivity.
Qed.

Lemma untag_tag_from : forall es a b,
  map (untag (a ++ es ++ b)) (tag_from (Z.of_nat (List.length a)) es) = es.
Proof.
  induction es as [|e es IH]; intros a b; cbn [tag_from map]; [reflexivity|]. f_equal.
  - unfold untag; cbn [fst snd]. rewrite Nat2Z.id. rewrite app_nth2 by lia. rewrite Nat.sub_diag. cbn [app nth].
    rewrite shape_of_t_tshape. destruct e; reflexivity.
  - replace (Z.of_nat (List.length a) + 1) with (Z.of_nat (List.length (a ++ [e]))) by (rewrite app_length; cbn; lia).
    replace (a ++ (e :: es) ++ b) with ((a ++ [e]) ++ es ++ b) by (rewrite <- app_assoc; reflexivity).
    apply IH.
Qed.

Lemma rflat_unfold : forall fuel cells k es,
  rflat fuel cells k = Some es ->
  exists t tes, unfold fuel cells k = Some (Some t) /\ T.flatten_K T.ZR t = T.Ok tes /\
                map (untag (all_elems cells)) tes = es.
Proof.
  induction fuel as [|f IH]; intros cells k es H; [discriminate|].
  rewrite rflat_S in H. cbn [unfold].
  destruct (nth_error cells k) as [c|] eqn:Ec; [|discriminate].
  destruct (c_layout c) as [l|] eqn:El; [|discriminate].
  destruct (rflat_insts f cells (lay_insts l)) as [sub|] eqn:Es; [|discriminate]. injection H as <-.
  assert (Hgo : exists insts tsub,
             (fix go (is : list instance) : option (list (T.placement Z * option tree)) :=
                match is with
                | [] => Some []
                | inst :: r =>
                  match placement_of inst with
                  | None => None
                  | Some p => match unfold f cells (i_cell inst) with
                              | None => None
                              | Some oc => match go r with Some rest => Some ((p, oc) :: rest) | None => None end
                              end
                  end
                end) (lay_insts l) = Some insts /\
             sub_flat T.ZR insts = T.Ok tsub /\ map (untag (all_elems cells)) tsub = sub).
  { clear El Ec. revert sub Es. induction (lay_insts l) as [|inst r IHr]; intros sub Es; cbn [rflat_insts] in Es.
    - injection Es as <-. exists [], []. repeat split.
    - destruct (placement_of inst) as [p|]; [|discriminate].
      destruct (rflat f cells (i_cell inst)) as [xs|] eqn:Ex; [|discriminate].
      destruct (rflat_insts f cells r) as [ys|] eqn:Ey; [|discriminate]. injection Es as <-.
      destruct (IH cells (i_cell inst) xs Ex) as [t [tes [Hu [Hf Hm]]]].
      destruct (IHr ys eq_refl) as [insts [tsub [Hg [Hs Hms]]]].
      rewrite Hu, Hg. eexists. eexists. split; [reflexivity|]. cbn [sub_flat]. rewrite Hf, Hs. split; [reflexivity|].
      rewrite map_app, map_map. rewrite <- Hm, <- Hms, map_map. f_equal.
      apply map_ext. intro te. apply untag_elem_map. }
  destruct Hgo as [insts [tsub [Hg [Hs Hms]]]]. rewrite Hg.
  eexists. eexists. split; [reflexivity|]. rewrite (flatten_K_step T.ZR TP.ZRth), Hs. split; [reflexivity|].
  rewrite map_app, Hms. f_equal.
  destruct (all_elems_split cells k c Ec) as [a [b [E L]]]. rewrite E, <- L.
  unfold cell_elems. rewrite El. apply untag_tag_from.
Qed.

Lemma rflat_raw_flatten : forall L k es,
  rflat (S (List.length (lib_cells L))) (lib_cells L) k = Some es -> raw_flatten L k = T.Ok es.
Proof.
  intros L k es H. unfold raw_flatten. destruct (rflat_unfold _ _ _ _ H) as [t [tes [Hu [Hf Hm]]]].
  rewrite Hu, Hf, Hm. reflexivity.
Qed.

Lemma rflat_mono : forall f f' cells k es, rflat f cells k = Some es -> (f <= f')%nat -> rflat f' cells k = Some es.
Proof.
  induction f as [|f IH]; intros f' cells k es H Hle; [discriminate|].
  destruct f' as [|f']; [lia|]. rewrite rflat_S in *.
  destruct (nth_error cells k) as [c|]; [|discriminate]. destruct (c_layout c) as [l|]; [|discriminate].
  destruct (rflat_insts f cells (lay_insts l)) as [sub|] eqn:Es; [|discriminate]. injection H as <-.
  assert (Hs : rflat_insts f' cells (lay_insts l) = Some sub).
  { revert sub Es. induction (lay_insts l) as [|inst r IHr]; intros sub Es; cbn [rflat_insts] in *; [exact Es|].
    destruct (placement_of inst) as [p|]; [|discriminate].
    destruct (rflat f cells (i_cell inst)) as [xs|] eqn:Ex; [|discriminate].
    destruct (rflat_insts f cells r) as [ys|] eqn:Ey; [|discriminate].
    rewrite (IH f' cells (i_cell inst) xs Ex) by lia. rewrite (IHr ys eq_refl). exact Es. }
  rewrite Hs. reflexivity.
Qed.
