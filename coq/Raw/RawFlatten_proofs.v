(** Lemmas for C06 about the model of Layout::flatten (Raw/RawFlatten.v). *)
From Coq Require Import ZArith List String Bool Lia.
From L21 Require Import Base.F64 Raw.RawData Raw.RawFlatten.
Import ListNotations.
Local Open Scope Z_scope.
