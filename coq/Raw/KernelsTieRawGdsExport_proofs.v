(** Tie (a) of DESIGN.md 2.3 for the GDSII exporter (family "raw_gdsx", property C07): the definitions generated from
    layout21raw/src/gds.rs `GdsExporter::export_point`, `export_layerspec`, `export_shape` (rectangle as five points, polygon
    closed with its first point, path with its width) and the `PlaceLabels` impls `label_location` of Rect, Path, Polygon
    (bounding-box centre, the four neighbours of the first vertex, the loop with its early return) and Shape
    (Gen/KernelsRawGdsExportGen.v), read over Z with range checks and abstract errors (Raw/KernelsInstRawGdsExport.v), EQUAL
    [export_point], [export_layerspec], [export_shape], [rect_center], [path_label], [poly_label], [label_location] of
    Raw/RawGdsExport.v, error kinds apart. *)
From Coq Require Import ZArith Bool List String Lia.
From L21 Require Import Base.KernelOps Base.KernelOpsX Base.KernelOpsS Base.Outcome Gen.KernelsRawGdsExportGen Raw.KernelsInstRaw2 Raw.KernelsInstRawGdsExport.
From L21 Require Import Raw.RawData Raw.RawGdsExport.
From L21 Require Gds.GdsData Geom.Contains Raw.KernelsTieRaw_proofs.
Import ListNotations.
Local Open Scope Z_scope.

Ltac xs := cbn [rc_xops kx_base rc_kops k_bind k_ret k_fail k_panic i_try_from_q i_add i_sub i_div i_lit v_get ou_bind ou_ret ou_err ou_pan obind ounit omap].

Lemma i32_in : forall z, ity_in I32 z = i32_okb z.
Proof.
  intros z. unfold ity_in, i32_okb. change (ity_min I32) with (-2147483648). change (ity_max I32) with 2147483647.
  destruct (-2147483648 <=? z); cbn [andb]; [|reflexivity].
  destruct (z <=? 2147483647) eqn:A, (z <? 2147483648) eqn:B; try reflexivity.
  - apply Z.leb_le in A. apply Z.ltb_ge in B. lia.
  - apply Z.leb_gt in A. apply Z.ltb_lt in B. lia.
Qed.

(** `export_point`: both coordinates into i32, the first failure is the error *)
Lemma tie_gdsx_export_point : forall p, g_export_point p = ounit (omap Ggp (export_point p)).
Proof.
  intros [x y]. unfold g_export_point, g_GdsExporter_export_point, g_GdsPoint_new, export_point. xs.
  cbn [Gpt gPoint_x gPoint_y px py]. rewrite !i32_in.
  destruct (i32_okb x); xs; [|reflexivity]. destruct (i32_okb y); reflexivity.
Qed.

Lemma tie_gdsx_export_points : forall ps,
  k_map_m rc_kops (fun p => g_GdsExporter_export_point rc_xops Gx p) (map Gpt ps) = ounit (omap (map Ggp) (export_points ps)).
Proof.
  induction ps as [|p r IH]; [reflexivity|].
  cbn [map k_map_m export_points]. fold (g_export_point p). rewrite tie_gdsx_export_point. xs.
  destruct (export_point p) as [q| | |]; xs; try reflexivity. rewrite IH.
  destruct (export_points r); reflexivity.
Qed.

Lemma tie_gdsx_export_shape_loop : forall ps acc,
  k_foreach rc_kops (map Gpt ps) (fun p st__ => g_GdsExporter_export_shape_loop1 rc_xops Gx p st__) (map Ggp acc)
  = match export_points ps with
    | Ok qs => Ok (Cont (R:=unit) (map Ggp (acc ++ qs)))
    | Err _ => Err tt | Panic => Panic | OutOfFuel => OutOfFuel
    end.
Proof.
  induction ps as [|p r IH]; intros acc.
  - cbn. rewrite app_nil_r. reflexivity.
  - cbn [map k_foreach export_points]. unfold g_GdsExporter_export_shape_loop1 at 1. fold (g_export_point p).
    rewrite tie_gdsx_export_point. xs.
    destruct (export_point p) as [q| | |]; xs; try reflexivity.
    replace (map Ggp acc ++ [Ggp q])%list with (map Ggp (acc ++ [q])) by (rewrite map_app; reflexivity).
    rewrite IH. destruct (export_points r) as [qs| | |]; xs; try reflexivity.
    rewrite <- app_assoc. reflexivity.
Qed.

(** `export_shape` of the tree as repaired (a path is not closed): rectangle as five points, polygon closed with its first
    point again, path with its width into i32 *)
Lemma tie_gdsx_export_shape : forall cfg s spec, x_path_close cfg = false ->
  g_export_shape s spec = ounit (omap Gelem (export_shape cfg s spec)).
Proof.
  intros cfg s spec Hc. unfold g_export_shape, g_GdsExporter_export_shape, export_shape.
  destruct s as [p0 p1|ps|ps w]; cbn [Gshape].
  - destruct p0 as [x0 y0], p1 as [x1 y1]. xs. cbn [Gpt gRect_p0 gRect_p1 gPoint_x gPoint_y px py]. rewrite !i32_in.
    destruct (i32_okb x0); xs; [|reflexivity]. destruct (i32_okb y0); xs; [|reflexivity].
    destruct (i32_okb x1); xs; [|reflexivity]. destruct (i32_okb y1); xs; reflexivity.
  - xs. cbn [gPolygon_points]. rewrite tie_gdsx_export_points.
    destruct (export_points ps) as [xy| | |]; xs; try reflexivity.
    destruct ps as [|p0 r]; [reflexivity|].
    cbn [map]. unfold rc_get. change (0 <? 0) with false. cbv iota. change (Z.to_nat 0) with 0%nat. cbn [nth_error]. xs.
    fold (g_export_point p0). rewrite tie_gdsx_export_point.
    destruct (export_point p0) as [q0| | |]; xs; try reflexivity.
    unfold mk_boundary. cbn [Gelem G.b_layer G.b_datatype G.b_xy Gspec gGdsLayerSpec_layer gGdsLayerSpec_xtype]. rewrite map_app. reflexivity.
  - xs. cbn [gPath_points gPath_width]. rewrite Hc.
    change (@nil (gGdsPoint unit Z)) with (map Ggp []). rewrite tie_gdsx_export_shape_loop. cbn [app].
    destruct (export_points ps) as [xy| | |]; xs; try reflexivity.
    rewrite i32_in. destruct (i32_okb w); reflexivity.
Qed.

(** `export_layerspec`: an undefined layer key, then an undefined purpose, is the error *)
Lemma tie_gdsx_export_layerspec : forall ly key p,
  g_export_layerspec ly key p = ounit (omap Gspec (export_layerspec ly key p)).
Proof.
  intros ly key p. unfold g_export_layerspec, g_GdsExporter_export_layerspec, export_layerspec, x_layers_get, x_layer_num. xs.
  destruct (ly_get ly key) as [l|]; cbn [option_map]; xs; [|reflexivity].
  destruct (layer_pnum l p); reflexivity.
Qed.

(** `(a + b) / 2` in isize *)
Lemma half_sum_rc : forall a b,
  ou_bind _ _ (rc_chk Isize (a + b)) (fun t => if 2 =? 0 then Panic else rc_chk Isize (Z.quot t 2)) = ounit (half_sum a b).
Proof.
  intros a b. unfold half_sum, i64c, rc_chk. change (ity_in Isize (a + b)) with (i64_okb (a + b)).
  destruct (i64_okb (a + b)) eqn:E; xs; [|reflexivity].
  change (2 =? 0) with false. cbv iota. rewrite (KernelsTieRaw_proofs.quot2_ok _ E). reflexivity.
Qed.

Lemma center_rc : forall a0 a1 b0 b1 : Z,
  ou_bind _ _ (ou_bind _ _ (rc_chk Isize (a0 + a1)) (fun t => if 2 =? 0 then Panic else rc_chk Isize (Z.quot t 2)))
    (fun x => ou_bind _ _ (ou_bind _ _ (rc_chk Isize (b0 + b1)) (fun t => if 2 =? 0 then Panic else rc_chk Isize (Z.quot t 2)))
                (fun y => Ok (mk_gPoint (F:=unit) x y)))
  = ounit (let? x := half_sum a0 a1 in let? y := half_sum b0 b1 in Ok (mk_gPoint (F:=unit) x y))%outcome.
Proof.
  intros. rewrite !half_sum_rc. destruct (half_sum a0 a1); xs; try reflexivity. destruct (half_sum b0 b1); reflexivity.
Qed.

(** `Rect::label_location` = `Rect::center` *)
Lemma tie_gdsx_rect_label : forall p0 p1, g_rect_label p0 p1 = ounit (omap Gpt (rect_center p0 p1)).
Proof.
  intros [x0 y0] [x1 y1]. unfold g_rect_label, g_Rect_label_location, g_Rect_center, g_Point_new, rect_center. xs.
  cbn [Gpt gRect_p0 gRect_p1 gPoint_x gPoint_y px py].
  rewrite center_rc. destruct (half_sum x0 x1); xs; try reflexivity. destruct (half_sum y0 y1); reflexivity.
Qed.

(** `Path::label_location`: the centre of the first segment; fewer than two points is the index panic *)
Lemma tie_gdsx_path_label : forall ps w, g_path_label ps w = ounit (omap Gpt (path_label ps)).
Proof.
  intros ps w. unfold g_path_label, g_Path_label_location, g_Point_new, path_label. xs. cbn [gPath_points].
  unfold rc_get. change (0 <? 0) with false. change (1 <? 0) with false. cbv iota.
  change (Z.to_nat 0) with 0%nat. change (Z.to_nat 1) with 1%nat.
  destruct ps as [|[x0 y0] [|[x1 y1] r]]; cbn [map nth_error]; xs; try reflexivity.
  cbn [Gpt gPoint_x gPoint_y px py]. rewrite center_rc.
  destruct (half_sum x0 x1); xs; try reflexivity. destruct (half_sum y0 y1); reflexivity.
Qed.

Lemma unG_G : forall p, unGpt (Gpt p) = p.
Proof. intros [x y]. reflexivity. Qed.
Lemma map_unG_G : forall ps, map unGpt (map Gpt ps) = ps.
Proof. intros ps. rewrite map_map. rewrite (map_ext _ (fun p => p)) by apply unG_G. apply map_id. Qed.
Lemma map_pt2_G : forall ps, map (fun q => pt2 (unGpt q)) (map Gpt ps) = map pt2 ps.
Proof. intros ps. rewrite map_map. apply map_ext. intros p. rewrite unG_G. reflexivity. Qed.

Lemma chk_i64 : forall z, rc_chk Isize z = ounit (i64c z).
Proof. intros z. unfold rc_chk, i64c. change (ity_in Isize z) with (i64_okb z). destruct (i64_okb z); reflexivity. Qed.

Lemma tie_gdsx_poly_label_loop : forall orig ps cands,
  k_bind rc_kops (k_foreach rc_kops (map Gpt cands)
                    (fun pt st__ => g_Polygon_label_location_loop1 rc_xops (x_contains orig) (mk_gPolygon (map Gpt ps)) pt st__) tt)
         (fun r__ => match r__ with Brk v__ => k_ret rc_kops v__ | Cont _ => k_fail rc_xops end)
  = ounit (omap Gpt (first_containing orig ps cands)).
Proof.
  intros orig ps. induction cands as [|q r IH]; [reflexivity|].
  cbn [map k_foreach first_containing]. unfold g_Polygon_label_location_loop1 at 1. unfold x_contains at 1.
  cbn [gPolygon_points]. rewrite map_unG_G, unG_G. xs.
  destruct (poly_contains_v orig ps q) as [[|]| | |]; xs; try reflexivity. exact IH.
Qed.

(** `Polygon::label_location`: the centre of the bounding box when the polygon contains it, else the first of the four
    neighbours of the first vertex that it contains, else the error *)
Lemma tie_gdsx_poly_label : forall orig ps, g_poly_label orig ps = ounit (omap Gpt (poly_label orig ps)).
Proof.
  intros orig ps. unfold g_poly_label, g_Polygon_label_location, poly_label, bbox_center. xs. cbn [gPolygon_points].
  unfold x_bbox. rewrite map_pt2_G. xs.
  destruct (Contains.points_bbox (map pt2 ps)) as [[b0x b0y] [b1x b1y]]. unfold x_center.
  cbn [GB gBoundBox_p0 gBoundBox_p1 gPoint_x gPoint_y fst snd].
  destruct (half_sum b0x b1x) as [cx| | |]; xs; try reflexivity.
  destruct (half_sum b0y b1y) as [cy| | |]; xs; try reflexivity.
  unfold x_contains at 1. cbn [gPolygon_points]. rewrite map_unG_G.
  change (unGpt (mk_gPoint cx cy)) with (mkpt cx cy).
  destruct (poly_contains_v orig ps (mkpt cx cy)) as [[|]| | |]; xs; try reflexivity.
  unfold g_Polygon_point0, g_Point_new. xs. cbn [gPolygon_points]. unfold rc_get. change (0 <? 0) with false. cbv iota.
  change (Z.to_nat 0) with 0%nat.
  destruct ps as [|[x0 y0] r]; [reflexivity|]. cbn [map nth_error]. xs. cbn [Gpt gPoint_x gPoint_y px py].
  rewrite !chk_i64.
  destruct (i64c (y0 - 1)) as [ym| | |]; xs; try reflexivity.
  destruct (i64c (x0 - 1)) as [xm| | |]; xs; try reflexivity.
  destruct (i64c (y0 + 1)) as [yp| | |]; xs; try reflexivity.
  destruct (i64c (x0 + 1)) as [xp| | |]; xs; try reflexivity.
  change (mk_gPoint (F:=unit) x0 ym :: mk_gPoint xm y0 :: mk_gPoint x0 yp :: mk_gPoint xp y0 :: nil)
    with (map Gpt [mkpt x0 ym; mkpt xm y0; mkpt x0 yp; mkpt xp y0]).
  change (mk_gPoint (F:=unit) x0 y0 :: map Gpt r) with (map Gpt (mkpt x0 y0 :: r)).
  apply (tie_gdsx_poly_label_loop orig (mkpt x0 y0 :: r)).
Qed.

(** `Shape::label_location`: the dispatch *)
Lemma tie_gdsx_label_location : forall cfg s,
  g_label_location (x_contains_orig cfg) s = ounit (omap Gpt (label_location cfg s)).
Proof.
  intros cfg s. unfold g_label_location, g_Shape_label_location, label_location.
  destruct s as [p0 p1|ps|ps w]; cbn [Gshape].
  - apply tie_gdsx_rect_label.
  - apply tie_gdsx_poly_label.
  - apply tie_gdsx_path_label.
Qed.
