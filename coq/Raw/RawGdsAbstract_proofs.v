(** C07, abstract views -- proofs.  A cell that has only an abstract is exported exactly like a
    certain layout ([abs_pre]: the outline, then per port shape the shape on Drawing without net and the
    shape on Pin with the port's net); the importer model (Raw/RawGds.v) makes of that struct the layout
    [abstract_image] of Raw/RawGdsAbstractSpec.v (both copies of every port shape receive the net from the
    one label), adding the outline slot to the layer table; the library theorem [roundtrip_abstract]
    covers libraries that mix layout cells and abstract-only cells and removes gap (a) of
    Properties/C07.v.  Reuses the lemmas of Raw/RawGds{Roundtrip,Bridge,Library,NoPanic}_proofs.v. *)
From Coq Require Import ZArith NArith List String Bool Lia.
From L21 Require Import Base.Outcome Base.F64 Base.Hex Raw.RawData Raw.RawGdsExport Raw.RawGdsExportSpec
                        Raw.RawGdsExport_proofs Raw.RawGdsRoundtrip_proofs Raw.RawGdsBridge_proofs
                        Raw.RawGdsLibrary_proofs Raw.RawGdsNoPanic_proofs Raw.RawGdsAbstractSpec Raw.RawGdsExportCheck Raw.RawGdsAbstractCheck.
From L21 Require Gds.GdsData Geom.Contains Geom.ContainsSpec Geom.ContainsCheck Geom.Contains_proofs Raw.RawGds Order.DepOrderSpec Order.DepOrder.
Import ListNotations.
Local Open Scope Z_scope.


(** * 1. The reserved slot of the outline in a layer table *)
Definition ext (ly ly' : layers) : Prop :=
  forall k p v, resolve_lp ly k p = Some v -> resolve_lp ly' k p = Some v.
Lemma ext_refl ly : ext ly ly.
Proof. intros k p v H. exact H. Qed.

Record slot_ok (ly lyo : layers) (ko : nat) (po : purpose) : Prop := mkslot {
  so_goi : get_or_insert ly outline_num outline_num = (lyo, ko, po);
  so_stable : get_or_insert lyo outline_num outline_num = (lyo, ko, po);
  so_ok : layers_okb lyo = true;
  so_ext : ext ly lyo }.

Lemma goi_fresh ly n x : ly_keynum ly n = None ->
  get_or_insert ly n x = (ly ++ [mklayer n None [(x, Other x)]], List.length ly, Other x).
Proof.
  intros E. unfold get_or_insert. rewrite E. unfold ly_add, ly_get.
  rewrite nth_error_app2, Nat.sub_diag; [|lia]. cbn [nth_error]. unfold layer_from_num.
  unfold layer_purpose. cbn [l_pairs find_last option_map l_num l_name app].
  rewrite (list_set_mid ly (mklayer n None []) (mklayer n None [(x, Other x)]) []). reflexivity.
Qed.

Lemma z_nodupb_snoc l y : z_nodupb l = true -> (forall x, In x l -> x <> y) -> z_nodupb (l ++ [y]) = true.
Proof.
  induction l as [|a r IH]; intros H Hn; [reflexivity|]. cbn [app z_nodupb] in *.
  apply andb_prop in H as [H1 H2]. apply andb_true_intro. split.
  - apply negb_true_iff. apply negb_true_iff in H1. rewrite existsb_app, H1. cbn [existsb orb].
    rewrite orb_false_r. apply Z.eqb_neq. apply Hn. left. reflexivity.
  - apply IH; [exact H2|]. intros x Hx. apply Hn. right. exact Hx.
Qed.

Lemma layers_ok_distinct ly : layers_okb ly = true -> layer_nums_distinctb ly = true.
Proof. unfold layers_okb. intros H. apply andb_prop in H as [_ H]. exact H. Qed.

Lemma list_set_length {A} (l : list A) k x : List.length (list_set l k x) = List.length l.
Proof. revert k; induction l as [|z r IH]; intros [|k]; cbn; try reflexivity. rewrite IH. reflexivity. Qed.
Lemma map_list_set {A B} (f : A -> B) (l : list A) k x y :
  nth_error l k = Some y -> f x = f y -> map f (list_set l k x) = map f l.
Proof.
  revert k; induction l as [|z r IH]; intros [|k] Hk Hf; cbn in *; try discriminate.
  - injection Hk as ->. rewrite Hf. reflexivity.
  - rewrite (IH k Hk Hf). reflexivity.
Qed.
Lemma forallb_list_set {A} (f : A -> bool) (l : list A) k x :
  forallb f l = true -> f x = true -> forallb f (list_set l k x) = true.
Proof.
  revert k; induction l as [|z r IH]; intros [|k] H Hx; cbn in *; try reflexivity.
  - apply andb_prop in H as [_ H]. rewrite Hx, H. reflexivity.
  - apply andb_prop in H as [H1 H2]. rewrite H1, (IH k H2 Hx). reflexivity.
Qed.

Lemma outline_slot_props ly :
  layers_okb ly = true -> outline_slot_okb ly = true ->
  slot_ok ly (outline_table ly) (outline_key ly) (outline_purpose ly).
Proof.
  intros Hly Hslot. unfold outline_table, outline_key, outline_purpose.
  pose proof Hly as Hly0. unfold layers_okb in Hly0. apply andb_prop in Hly0 as [Hall Hdist].
  unfold outline_slot_okb in Hslot.
  destruct (ly_keynum ly outline_num) as [k0|] eqn:Ek.
  - destruct (keynum_some _ _ _ Ek) as [l [Hl Hn]]. unfold ly_get in Hslot. rewrite Hl in Hslot.
    destruct (layer_purpose l outline_num) as [p|] eqn:Ep.
    + (* the pair is registered: nothing changes *)
      assert (Hg : get_or_insert ly outline_num outline_num = (ly, k0, p)).
      { unfold get_or_insert. rewrite Ek. unfold ly_get. rewrite Hl, Ep. reflexivity. }
      rewrite Hg. cbn [fst snd]. constructor; [exact Hg|exact Hg|exact Hly|apply ext_refl].
    + (* a layer numbered 32767 without purpose number 32767: it receives Other(32767) *)
      set (l' := mklayer (l_num l) (l_name l) (l_pairs l ++ [(outline_num, Other outline_num)])).
      assert (Hg : get_or_insert ly outline_num outline_num = (list_set ly k0 l', k0, Other outline_num)).
      { unfold get_or_insert. rewrite Ek. unfold ly_get. rewrite Hl, Ep. reflexivity. }
      rewrite Hg. cbn [fst snd].
      (* no pair of l has the number 32767, none the purpose Other(32767) *)
      assert (Hnonum : forall np, In np (l_pairs l) -> (fst np =? outline_num) = false).
      { unfold layer_purpose in Ep. destruct (find_last (fun np => fst np =? outline_num) (l_pairs l)) eqn:F; [discriminate|].
        exact (find_last_none _ _ F). }
      assert (Hnopurp : forall np, In np (l_pairs l) -> purpose_eqb (snd np) (Other outline_num) = false).
      { intros np Hin. unfold purposes_numberedb in Hslot. rewrite forallb_forall in Hslot. specialize (Hslot np Hin).
        specialize (Hnonum np Hin). destruct np as [n q]. cbn [fst snd] in *. destruct q; try reflexivity.
        cbn [purpose_num_ok] in Hslot. cbn [purpose_eqb]. apply Z.eqb_eq in Hslot. subst k. exact Hnonum. }
      assert (Hpur : forall n, (n =? outline_num) = false -> layer_purpose l' n = layer_purpose l n).
      { intros n Hne. unfold layer_purpose, l'. cbn [l_pairs]. rewrite find_last_app_miss; [reflexivity|].
        cbn [fst]. rewrite Z.eqb_sym. exact Hne. }
      assert (Hpn : forall q, purpose_eqb q (Other outline_num) = false -> layer_pnum l' q = layer_pnum l q).
      { intros q Hne. unfold layer_pnum, l'. cbn [l_pairs]. rewrite find_last_app_miss; [reflexivity|].
        cbn [snd]. destruct q; try reflexivity. cbn [purpose_eqb] in *. rewrite Z.eqb_sym. exact Hne. }
      assert (Hl'k : nth_error (list_set ly k0 l') k0 = Some l') by (eapply nth_list_set_same; exact Hl).
      assert (Hnums : map l_num (list_set ly k0 l') = map l_num ly) by (apply (map_list_set l_num ly k0 l' l Hl); reflexivity).
      assert (Hok' : layers_okb (list_set ly k0 l') = true).
      { unfold layers_okb. apply andb_true_intro. split.
        - apply forallb_list_set; [exact Hall|].
          rewrite forallb_forall in Hall. specialize (Hall l (nth_error_In _ _ Hl)).
          apply andb_prop in Hall as [Ha Hcons]. apply andb_prop in Ha as [Ha1 Ha2].
          apply andb_true_intro. split; [apply andb_true_intro; split|].
          + exact Ha1.
          + unfold l'. cbn [l_pairs]. rewrite forallb_app, Ha2. reflexivity.
          + unfold layer_consistentb. change (l_pairs l') with (l_pairs l ++ [(outline_num, Other outline_num)]). rewrite forallb_app. apply andb_true_intro. split.
            * apply forallb_forall. intros np Hin. rewrite (Hpur _ (Hnonum np Hin)).
              unfold layer_consistentb in Hcons. rewrite forallb_forall in Hcons. specialize (Hcons np Hin).
              destruct (layer_purpose l (fst np)) as [q|] eqn:Eq; [|discriminate].
              rewrite Hpn; [exact Hcons|].
              unfold layer_purpose in Eq. destruct (find_last (fun np0 => fst np0 =? fst np) (l_pairs l)) as [np0|] eqn:F; [|discriminate].
              cbn in Eq. injection Eq as <-. destruct (find_last_some _ _ _ F) as [Hin0 _]. apply Hnopurp. exact Hin0.
            * cbn [forallb fst snd]. unfold layer_purpose, layer_pnum, l'. cbn [l_pairs].
              rewrite find_last_app_hit by reflexivity. cbn [option_map snd].
              rewrite find_last_app_hit by reflexivity. cbn [option_map fst]. rewrite Z.eqb_refl. reflexivity.
        - unfold layer_nums_distinctb. rewrite Hnums. exact Hdist. }
      constructor; [exact Hg| |exact Hok'|].
      * pose proof (keynum_distinct _ _ _ (layers_ok_distinct _ Hok') Hl'k) as Hkn.
        replace (l_num l') with outline_num in Hkn by (unfold l'; cbn [l_num]; symmetry; exact Hn).
        unfold get_or_insert. rewrite Hkn. unfold ly_get. rewrite Hl'k.
        assert (Hp' : layer_purpose l' outline_num = Some (Other outline_num)).
        { unfold layer_purpose, l'. cbn [l_pairs]. rewrite find_last_app_hit by reflexivity. reflexivity. }
        rewrite Hp'. reflexivity.
      * intros k p v Hr. unfold resolve_lp, ly_get in *. destruct (Nat.eq_dec k k0) as [->|Hne].
        -- rewrite Hl in Hr. rewrite Hl'k. destruct (layer_pnum l p) as [pn|] eqn:Epn; [|discriminate].
           rewrite Hpn; [rewrite Epn; exact Hr|].
           unfold layer_pnum in Epn. destruct (find_last (fun np => purpose_eqb (snd np) p) (l_pairs l)) as [np|] eqn:F; [|discriminate].
           destruct (find_last_some _ _ _ F) as [Hin Hf]. pose proof (Hnopurp np Hin) as Hq.
           destruct (purpose_eqb p (Other outline_num)) eqn:Ee; [|reflexivity]. exfalso.
           destruct p; cbn [purpose_eqb] in Ee; try discriminate. apply Z.eqb_eq in Ee. subst k.
           destruct np as [n q]. cbn [snd] in *. destruct q; cbn [purpose_eqb] in Hf, Hq; try discriminate. congruence.
        -- rewrite nth_list_set_other by exact Hne. exact Hr.
  - (* no layer numbered 32767: the outline layer is appended *)
    rewrite (goi_fresh _ _ outline_num Ek). cbn [fst snd].
    assert (Hok' : layers_okb (ly ++ [mklayer outline_num None [(outline_num, Other outline_num)]]) = true).
    { unfold layers_okb. apply andb_true_intro. split.
      - rewrite forallb_app, Hall. reflexivity.
      - unfold layer_nums_distinctb. rewrite map_app. cbn [map l_num]. apply z_nodupb_snoc; [exact Hdist|].
        intros x Hx. apply in_map_iff in Hx as [l [<- Hin]]. apply In_nth_error in Hin as [k Hk].
        exact (keynum_none _ _ Ek k l Hk). }
    constructor; [apply goi_fresh; exact Ek| |exact Hok'|].
    + assert (Hk : nth_error (ly ++ [mklayer outline_num None [(outline_num, Other outline_num)]]) (List.length ly)
                   = Some (mklayer outline_num None [(outline_num, Other outline_num)])).
      { rewrite nth_error_app2, Nat.sub_diag; [reflexivity|lia]. }
      pose proof (keynum_distinct _ _ _ (layers_ok_distinct _ Hok') Hk) as Hkn. cbn [l_num] in Hkn.
      unfold get_or_insert. rewrite Hkn. unfold ly_get. rewrite Hk. reflexivity.
    + intros k p v Hr. unfold resolve_lp, ly_get in *. destruct (nth_error ly k) as [l|] eqn:El; [|discriminate].
      rewrite nth_error_app1 by (apply nth_error_Some; congruence). rewrite El. exact Hr.
Qed.

(** the three shapes the table can take *)
Lemma outline_table_cases ly :
  (ly_keynum ly outline_num = None /\ outline_table ly = ly ++ [outline_layer]) \/
  (exists k l, ly_keynum ly outline_num = Some k /\ nth_error ly k = Some l /\
               ((exists p, layer_purpose l outline_num = Some p /\ outline_table ly = ly) \/
                (layer_purpose l outline_num = None /\
                 outline_table ly = list_set ly k (mklayer (l_num l) (l_name l) (l_pairs l ++ [(outline_num, Other outline_num)]))))).
Proof.
  unfold outline_table. destruct (ly_keynum ly outline_num) as [k|] eqn:Ek.
  - right. destruct (keynum_some _ _ _ Ek) as [l [Hl Hn]]. exists k, l. split; [reflexivity|]. split; [exact Hl|].
    unfold get_or_insert. rewrite Ek. unfold ly_get. rewrite Hl.
    destruct (layer_purpose l outline_num) as [p|]; [left; exists p; split; reflexivity|right; split; reflexivity].
  - left. split; [reflexivity|]. rewrite (goi_fresh _ _ outline_num Ek). reflexivity.
Qed.


(** * 2. Exporting over an extended table *)
Lemma export_layerspec_ext ly ly' k p nx : ext ly ly' -> export_layerspec ly k p = Ok nx -> export_layerspec ly' k p = Ok nx.
Proof. intros He H. apply layerspec_resolve. apply He. apply layerspec_resolve. exact H. Qed.

Lemma export_element_ext cfg ly ly' e gl : ext ly ly' -> export_element cfg ly e = Ok gl -> export_element cfg ly' e = Ok gl.
Proof.
  intros He H. unfold export_element in *. obind_inv H. rewrite (export_layerspec_ext _ _ _ _ _ He E). cbn [obind].
  obind_inv H. destruct (e_net e).
  - obind_inv H. rewrite (export_layerspec_ext _ _ _ _ _ He E1). cbn [obind]. exact H.
  - exact H.
Qed.

Lemma concat_res_impl {A B} (f g : A -> res (list B)) l r :
  (forall x y, In x l -> f x = Ok y -> g x = Ok y) -> concat_res (map f l) = Ok r -> concat_res (map g l) = Ok r.
Proof.
  revert r; induction l as [|a t IH]; intros r Hfg H; [exact H|]. cbn [map concat_res] in *.
  obind_inv H. obind_inv H. rewrite (Hfg a _ (or_introl eq_refl) E). cbn [obind].
  rewrite (IH _ (fun x y Hx => Hfg x y (or_intror Hx)) eq_refl). exact H.
Qed.

Lemma export_layout_ext cfg ly ly' cells l s : ext ly ly' -> export_layout cfg ly cells l = Ok s -> export_layout cfg ly' cells l = Ok s.
Proof.
  intros He H. unfold export_layout in *. obind_inv H. obind_inv H.
  rewrite (concat_res_impl _ (export_element cfg ly') _ _ (fun x y _ Hx => export_element_ext cfg ly ly' x y He Hx) E0). exact H.
Qed.

(** export_layout looks at the cell list only for the names of the instantiated cells *)
Lemma export_layout_cells cfg ly cells cells' l :
  (forall k, option_map c_name (nth_error cells' k) = option_map c_name (nth_error cells k)) ->
  export_layout cfg ly cells' l = export_layout cfg ly cells l.
Proof.
  intros Hn. unfold export_layout. f_equal. f_equal. apply map_ext. intros i. unfold export_instance.
  specialize (Hn (i_cell i)). destruct (nth_error cells' (i_cell i)) as [c'|], (nth_error cells (i_cell i)) as [c0|]; cbn in Hn; try discriminate; [|reflexivity].
  injection Hn as ->. reflexivity.
Qed.

(** * 3. An abstract is exported exactly like a layout: the outline, then per port shape the shape on
    Drawing (no net) and the shape on Pin carrying the net (whose label is the one text written) *)
Definition pre_port_layer (net : string) (e : nat * list shape) : list element :=
  flat_map (fun s => [mkelem None (fst e) Drawing s; mkelem (Some net) (fst e) Pin s]) (snd e).
Definition pre_port (p : absport) : list element := flat_map (pre_port_layer (ap_net p)) (by_key (ap_shapes p)).
Definition pre_elems (ko : nat) (po : purpose) (a : abstract) : list element :=
  mkelem None ko po (Polygon (ab_outline a)) :: flat_map pre_port (ab_ports a).
Definition abs_pre (ko : nat) (po : purpose) (a : abstract) : layout := mklayout (ab_name a) [] (pre_elems ko po a) [].

Lemma insert_entry_by_key x l : insert_entry x l = insert_by_key x l.
Proof. induction l as [|y r IH]; cbn; [reflexivity|]. rewrite IH. reflexivity. Qed.
Lemma sorted_by_key m : sorted_by_layer m = by_key m.
Proof. unfold sorted_by_layer, by_key. induction m as [|x r IH]; cbn; [reflexivity|]. rewrite IH. apply insert_entry_by_key. Qed.

Lemma concat_res_app {A} (a b : list (res (list A))) :
  concat_res (a ++ b) = (let? x := concat_res a in let? y := concat_res b in Ok (x ++ y))%outcome.
Proof.
  induction a as [|h t IH]; cbn [app concat_res].
  - destruct (concat_res b); reflexivity.
  - destruct h as [v| | |]; cbn [obind]; try reflexivity. rewrite IH.
    destruct (concat_res t) as [x| | |]; cbn [obind]; try reflexivity.
    destruct (concat_res b) as [y| | |]; cbn [obind]; try reflexivity. rewrite app_assoc. reflexivity.
Qed.
Lemma concat_res_flat_map {A B C} (f : B -> res (list C)) (h : A -> list B) l r :
  concat_res (map (fun x => concat_res (map f (h x))) l) = Ok r -> concat_res (map f (flat_map h l)) = Ok r.
Proof.
  revert r; induction l as [|a t IH]; intros r H; [exact H|]. cbn [map flat_map concat_res] in *.
  obind_inv H. obind_inv H. rewrite map_app, concat_res_app, E, (IH _ eq_refl). exact H.
Qed.

Section AbsPre.
  Variables (ly lyo : layers) (ko : nat) (po : purpose).
  Hypothesis Hly : layers_okb ly = true.
  Hypothesis Hslot : slot_ok ly lyo ko po.

  Lemma slot_resolves : resolve_lp lyo ko po = Some (outline_num, outline_num).
  Proof.
    pose proof (get_or_insert_resolves ly outline_num outline_num) as H. rewrite (so_goi _ _ _ _ Hslot) in H. apply H.
    intros k l Hk. unfold layers_okb in Hly. apply andb_prop in Hly as [H1 _]. rewrite forallb_forall in H1.
    specialize (H1 l (nth_error_In _ _ Hk)). apply andb_prop in H1 as [_ H1]. exact H1.
  Qed.

  Lemma export_port_shape_pre net k d p lb s r :
    export_layerspec lyo k Drawing = Ok d -> export_layerspec lyo k Pin = Ok p -> export_layerspec lyo k Label = Ok lb ->
    export_port_shape xcfg_fixed net d p lb s = Ok r ->
    concat_res (map (export_element xcfg_fixed lyo) [mkelem None k Drawing s; mkelem (Some net) k Pin s]) = Ok r.
  Proof.
    intros Hd Hp Hlb H. unfold export_port_shape in H. obind_inv H. obind_inv H. obind_inv H. injection H as <-.
    cbn [map concat_res]. unfold export_element. cbn [e_layer e_purpose e_shape e_net].
    rewrite Hd, Hp, Hlb. cbn [obind]. rewrite E, E0. cbn [obind]. rewrite E1. reflexivity.
  Qed.

  Lemma export_port_layer_pre net e r :
    export_port_layer xcfg_fixed ly net e = Ok r ->
    concat_res (map (export_element xcfg_fixed lyo) (pre_port_layer net e)) = Ok r.
  Proof.
    intros H. unfold export_port_layer in H. obind_inv H. obind_inv H. obind_inv H.
    apply (export_layerspec_ext _ _ _ _ _ (so_ext _ _ _ _ Hslot)) in E, E0, E1.
    unfold pre_port_layer. apply concat_res_flat_map.
    eapply concat_res_impl; [|exact H]. intros s y _ Hs. cbv beta. eapply export_port_shape_pre; eassumption.
  Qed.

  Lemma export_port_pre p r :
    export_abstract_port xcfg_fixed ly p = Ok r ->
    concat_res (map (export_element xcfg_fixed lyo) (pre_port p)) = Ok r.
  Proof.
    intros H. unfold export_abstract_port in H. rewrite sorted_by_key in H. unfold pre_port. apply concat_res_flat_map.
    eapply concat_res_impl; [|exact H]. intros e y _ He. apply export_port_layer_pre. exact He.
  Qed.

  Lemma export_abstract_pre cells a s :
    export_abstract xcfg_fixed ly a = Ok s -> export_layout xcfg_fixed lyo cells (abs_pre ko po a) = Ok s.
  Proof.
    intros H. unfold export_abstract in H. obind_inv H. destruct (ab_outline a) as [|p0 r0] eqn:Eo; [discriminate|].
    obind_inv H. obind_inv H. injection H as <-.
    unfold export_layout, abs_pre. cbn [lay_insts lay_elems lay_name map all_res obind pre_elems concat_res].
    unfold export_element at 1. cbn [e_layer e_purpose e_shape e_net].
    pose proof slot_resolves as Hr. apply layerspec_resolve in Hr. rewrite Hr. cbn [obind].
    rewrite Eo. cbn [export_shape]. rewrite E, E0. cbn [obind].
    assert (Hports : concat_res (map (export_element xcfg_fixed lyo) (flat_map pre_port (ab_ports a))) = Ok a2).
    { apply concat_res_flat_map. eapply concat_res_impl; [|exact E1]. intros p y _ Hp. apply export_port_pre. exact Hp. }
    rewrite Hports. reflexivity.
  Qed.
End AbsPre.


(** * 4. The exported layout [abs_pre] against the specified image [abstract_image] *)
Lemma Forall2_flat_map {A B C} (R : B -> C -> Prop) (f : A -> list B) (g : A -> list C) l :
  (forall a, In a l -> Forall2 R (f a) (g a)) -> Forall2 R (flat_map f l) (flat_map g l).
Proof.
  induction l as [|a t IH]; intros H; [constructor|]. cbn [flat_map]. apply Forall2_app.
  - apply H. left. reflexivity.
  - apply IH. intros x Hx. apply H. right. exact Hx.
Qed.

Definition same_but_net (e x : element) : Prop :=
  e_layer e = e_layer x /\ e_purpose e = e_purpose x /\ e_shape e = e_shape x.

Lemma pre_image_fields ko po a : Forall2 same_but_net (pre_elems ko po a) (abstract_image_elems ko po a).
Proof.
  unfold pre_elems, abstract_image_elems. constructor; [repeat split|].
  apply Forall2_flat_map. intros p _. unfold pre_port, port_image. apply Forall2_flat_map. intros e _.
  unfold pre_port_layer, port_layer_image. apply Forall2_flat_map. intros s _.
  constructor; [repeat split|]. constructor; [repeat split|constructor].
Qed.

(** the elements of [abs_pre] that carry a net are elements of the image *)
Lemma pre_named_in_image ko po a e nm :
  In e (pre_elems ko po a) -> e_net e = Some nm -> In e (abstract_image_elems ko po a).
Proof.
  unfold pre_elems, abstract_image_elems. intros [<-|Hin] Hn; [discriminate|]. right.
  apply in_flat_map in Hin as [p [Hp Hin]]. apply in_flat_map. exists p. split; [exact Hp|].
  unfold pre_port in Hin. apply in_flat_map in Hin as [ke [Hke Hin]]. unfold port_image. apply in_flat_map. exists ke. split; [exact Hke|].
  unfold pre_port_layer in Hin. apply in_flat_map in Hin as [s [Hs Hin]]. unfold port_layer_image. apply in_flat_map. exists s. split; [exact Hs|].
  destruct Hin as [<-|[<-|[]]]; [discriminate|]. right. left. reflexivity.
Qed.

(** every element of the image that carries a net has its Pin twin (same key, same shape, same net) in [abs_pre] *)
Lemma image_named_twin ko po a x nm :
  In x (abstract_image_elems ko po a) -> e_net x = Some nm ->
  exists e, In e (pre_elems ko po a) /\ e_net e = Some nm /\ e_layer e = e_layer x /\ e_shape e = e_shape x /\ e_purpose e = Pin.
Proof.
  unfold pre_elems, abstract_image_elems. intros [<-|Hin] Hn; [discriminate|].
  apply in_flat_map in Hin as [p [Hp Hin]]. unfold port_image in Hin. apply in_flat_map in Hin as [ke [Hke Hin]].
  unfold port_layer_image in Hin. apply in_flat_map in Hin as [s [Hs Hin]].
  exists (mkelem (Some (ap_net p)) (fst ke) Pin s). split.
  - right. apply in_flat_map. exists p. split; [exact Hp|]. unfold pre_port. apply in_flat_map. exists ke. split; [exact Hke|].
    unfold pre_port_layer. apply in_flat_map. exists s. split; [exact Hs|]. right. left. reflexivity.
  - destruct Hin as [<-|[<-|[]]]; cbn [e_net e_layer e_shape e_purpose] in *; repeat split; assumption.
Qed.

(** ** the image's view is the specification's [abstract_view] *)
Lemma all_some_app {A} (a b : list (option A)) :
  all_some (a ++ b) = match all_some a, all_some b with Some x, Some y => Some (x ++ y) | _, _ => None end.
Proof.
  induction a as [|h t IH]; cbn [app all_some]; [destruct (all_some b); reflexivity|].
  destruct h as [v|]; [|reflexivity]. rewrite IH. destruct (all_some t), (all_some b); reflexivity.
Qed.
Lemma all_some_flat_map {A B C} (f : B -> option C) (h : A -> list B) l rs :
  all_some (map (fun x => all_some (map f (h x))) l) = Some rs -> all_some (map f (flat_map h l)) = Some (List.concat rs).
Proof.
  revert rs; induction l as [|a t IH]; intros rs H; cbn [map flat_map all_some] in *; [injection H as <-; reflexivity|].
  destruct (all_some (map f (h a))) as [r|] eqn:E; [|discriminate].
  destruct (all_some (map (fun x => all_some (map f (h x))) t)) as [rt|] eqn:Et; [|discriminate]. injection H as <-.
  rewrite map_app, all_some_app, E, (IH _ eq_refl). reflexivity.
Qed.
Lemma all_some_impl {A B} (f g : A -> option B) l r :
  (forall x y, In x l -> f x = Some y -> g x = Some y) -> all_some (map f l) = Some r -> all_some (map g l) = Some r.
Proof.
  revert r; induction l as [|a t IH]; intros r Hfg H; [exact H|]. cbn [map all_some] in *.
  destruct (f a) as [y|] eqn:Fa; [|discriminate]. rewrite (Hfg a y (or_introl eq_refl) Fa).
  destruct (all_some (map f t)) as [ys|] eqn:E; [|discriminate].
  rewrite (IH _ (fun x y0 Hx => Hfg x y0 (or_intror Hx)) eq_refl). exact H.
Qed.

Section ImageView.
  Variables (ly lyo : layers) (ko : nat) (po : purpose).
  Hypothesis Hly : layers_okb ly = true.
  Hypothesis Hslot : slot_ok ly lyo ko po.

  Lemma port_layer_image_view net e r :
    port_layer_view ly net e = Some r -> all_some (map (elem_view lyo) (port_layer_image net e)) = Some r.
  Proof.
    unfold port_layer_view. destruct (resolve_lp ly (fst e) Drawing) as [[n d]|] eqn:Ed; [|discriminate].
    destruct (resolve_lp ly (fst e) Pin) as [[n' p]|] eqn:Ep; [|discriminate]. intros [= <-].
    assert (n' = n).
    { unfold resolve_lp in Ed, Ep. destruct (ly_get ly (fst e)) as [l|]; [|discriminate].
      destruct (layer_pnum l Drawing); [|discriminate]. destruct (layer_pnum l Pin); [|discriminate]. congruence. }
    subst n'. apply (so_ext _ _ _ _ Hslot) in Ed, Ep.
    unfold port_layer_image. induction (snd e) as [|s t IH]; [reflexivity|].
    cbn [flat_map app map all_some]. unfold elem_view at 1 2. cbn [e_layer e_purpose e_shape e_net]. rewrite Ed, Ep.
    rewrite IH. reflexivity.
  Qed.

  Lemma port_image_view p r : port_view ly p = Some r -> all_some (map (elem_view lyo) (port_image p)) = Some r.
  Proof.
    unfold port_view. destruct (all_some (map (port_layer_view ly (ap_net p)) (by_key (ap_shapes p)))) as [rs|] eqn:E; [|discriminate].
    intros [= <-]. unfold port_image. apply all_some_flat_map.
    eapply all_some_impl; [|exact E]. intros e y _ He. apply port_layer_image_view. exact He.
  Qed.

  Lemma abstract_image_view a av :
    abstract_view ly a = Some av -> all_some (map (elem_view lyo) (abstract_image_elems ko po a)) = Some av.
  Proof.
    unfold abstract_view. destruct (all_some (map (port_view ly) (ab_ports a))) as [pv|] eqn:E; [|discriminate]. intros [= <-].
    unfold abstract_image_elems. cbn [map all_some]. unfold elem_view at 1. cbn [e_layer e_purpose e_shape e_net].
    rewrite (slot_resolves ly lyo ko po Hly Hslot).
    assert (H : all_some (map (elem_view lyo) (flat_map port_image (ab_ports a))) = Some (List.concat pv)).
    { apply all_some_flat_map. eapply all_some_impl; [|exact E]. intros p y _ Hp. apply port_image_view. exact Hp. }
    rewrite H. reflexivity.
  Qed.
End ImageView.

(** [abstract_okb] makes [abstract_view] defined *)
Lemma in_insert_by_key e x l : In e (insert_by_key x l) -> e = x \/ In e l.
Proof.
  induction l as [|z t IH]; cbn [insert_by_key]; [intros [<-|[]]; left; reflexivity|].
  destruct (Nat.leb (fst x) (fst z)); [intros [<-|H]; [left; reflexivity|right; exact H]|].
  intros [<-|H]; [right; left; reflexivity|]. destruct (IH H) as [->|H']; [left; reflexivity|right; right; exact H'].
Qed.
Lemma in_by_key e m : In e (by_key m) -> In e m.
Proof.
  unfold by_key. induction m as [|x r IH]; [intros []|]. cbn [fold_right]. intros H.
  destruct (in_insert_by_key _ _ _ H) as [->|H']; [left; reflexivity|right; apply IH; exact H'].
Qed.
Lemma insert_by_key_in e x l : e = x \/ In e l -> In e (insert_by_key x l).
Proof.
  induction l as [|z t IH]; cbn [insert_by_key]; [intros [->|[]]; left; reflexivity|].
  destruct (Nat.leb (fst x) (fst z)); [intros [->|H]; [left; reflexivity|right; exact H]|].
  intros [->|[->|H]]; [right; apply IH; left; reflexivity|left; reflexivity|right; apply IH; right; exact H].
Qed.
Lemma by_key_in e m : In e m -> In e (by_key m).
Proof.
  unfold by_key. induction m as [|x r IH]; [intros []|]. cbn [fold_right]. intros [->|H]; apply insert_by_key_in; [left; reflexivity|right; apply IH; exact H].
Qed.

Lemma abstract_view_defined ly cname a : abstract_okb ly cname a = true -> exists av, abstract_view ly a = Some av.
Proof.
  unfold abstract_okb. intros H. apply andb_prop in H as [_ Hports]. unfold abstract_view.
  destruct (all_some_total (port_view ly) (ab_ports a)) as [pv Hpv]; [|rewrite Hpv; eexists; reflexivity].
  intros p Hp. rewrite forallb_forall in Hports. specialize (Hports p Hp). unfold port_okb in Hports.
  apply andb_prop in Hports as [_ Hsh]. unfold port_view.
  destruct (all_some_total (port_layer_view ly (ap_net p)) (by_key (ap_shapes p))) as [rs Hrs]; [|rewrite Hrs; discriminate].
  intros e He. apply in_by_key in He. rewrite forallb_forall in Hsh. specialize (Hsh e He).
  apply andb_prop in Hsh as [Hsh _]. apply andb_prop in Hsh as [Hsh _]. apply andb_prop in Hsh as [Hd Hp0].
  unfold resolves in Hd, Hp0. unfold port_layer_view.
  destruct (resolve_lp ly (fst e) Drawing) as [[? ?]|]; [|discriminate]. destruct (resolve_lp ly (fst e) Pin) as [[? ?]|]; [|discriminate]. discriminate.
Qed.

(** * 5. The library with every abstract-only cell replaced by the layout it is exported as *)
Definition conv (ko : nat) (po : purpose) (c : cell) : cell :=
  match c_layout c with
  | Some _ => c
  | None => match c_abs c with
            | Some a => mkcell (c_name c) None (Some (abs_pre ko po a))
            | None => c
            end
  end.
Lemma conv_name ko po c : c_name (conv ko po c) = c_name c.
Proof. unfold conv. destruct (c_layout c); [reflexivity|]. destruct (c_abs c); reflexivity. Qed.
Lemma conv_names ko po cells k :
  option_map c_name (nth_error (map (conv ko po) cells) k) = option_map c_name (nth_error cells k).
Proof. rewrite nth_error_map. destruct (nth_error cells k); cbn; [rewrite conv_name|]; reflexivity. Qed.
Lemma conv_map_names ko po cells : map c_name (map (conv ko po) cells) = map c_name cells.
Proof. rewrite map_map. apply map_ext. intros c. apply conv_name. Qed.

Lemma forallb_ext' {A} (f g : A -> bool) l : (forall x, f x = g x) -> forallb f l = forallb g l.
Proof. intros H. induction l as [|a t IH]; cbn; [reflexivity|rewrite H, IH; reflexivity]. Qed.
Lemma depth_conv ko po cells : forall f k, depth_okb (map (conv ko po) cells) f k = depth_okb cells f k.
Proof.
  induction f as [|f IH]; intros k; [reflexivity|]. cbn [depth_okb]. rewrite nth_error_map.
  destruct (nth_error cells k) as [c|]; cbn [option_map]; [|reflexivity]. unfold conv.
  destruct (c_layout c) as [l|] eqn:El.
  - rewrite El. apply forallb_ext'. intros i. apply IH.
  - destruct (c_abs c) as [a|]; [reflexivity|]. rewrite El. reflexivity.
Qed.
Lemma acyclic_conv ko po cells : acyclicb (map (conv ko po) cells) = acyclicb cells.
Proof. unfold acyclicb. rewrite map_length. apply forallb_ext'. intros k. apply depth_conv. Qed.

Lemma Forall2_map_l {A B C} (R : B -> C -> Prop) (f : A -> B) l l' : Forall2 (fun a c => R (f a) c) l l' -> Forall2 R (map f l) l'.
Proof. induction 1; cbn; constructor; assumption. Qed.

Section Conv.
  Variables (ly lyo : layers) (ko : nat) (po : purpose).
  Hypothesis Hly : layers_okb ly = true.
  Hypothesis Hslot : slot_ok ly lyo ko po.

  Lemma export_cells_conv cells : forall todo ss,
    forallb (cell_okb ly (List.length cells)) todo = true ->
    export_cells xcfg_fixed ly cells todo = Ok ss ->
    Forall2 (fun c0 s => exists l, c_layout (conv ko po c0) = Some l /\ lay_name l = c_name (conv ko po c0) /\
                                    export_layout xcfg_fixed lyo (map (conv ko po) cells) l = Ok s) todo ss.
  Proof.
    induction todo as [|c0 r IH]; intros ss Hok H; cbn [export_cells] in H.
    - injection H as <-. constructor.
    - cbn [forallb] in Hok. apply andb_prop in Hok as [Hc Hr]. obind_inv H. obind_inv H.
      unfold export_cell in E. unfold cell_okb in Hc.
      destruct (c_layout c0) as [l|] eqn:El.
      + obind_inv E. injection E as <-. injection H as <-. constructor; [|apply IH; [exact Hr|reflexivity]].
        rewrite conv_name. unfold conv. rewrite El.
        exists l. split; [exact El|]. split.
        * unfold layout_okb in Hc. apply andb_prop in Hc as [Hc _]. apply andb_prop in Hc as [Hc _]. apply String.eqb_eq. exact Hc.
        * rewrite (export_layout_cells _ _ cells _ _ (conv_names ko po cells)).
          exact (export_layout_ext _ _ _ _ _ _ (so_ext _ _ _ _ Hslot) E1).
      + destruct (c_abs c0) as [ab|] eqn:Ea; [|discriminate]. obind_inv E. injection E as <-. injection H as <-.
        constructor; [|apply IH; [exact Hr|reflexivity]].
        rewrite conv_name. unfold conv. rewrite El, Ea.
        exists (abs_pre ko po ab). split; [reflexivity|]. split.
        * cbn [abs_pre lay_name c_name]. unfold abstract_okb in Hc. apply andb_prop in Hc as [Hc _]. apply andb_prop in Hc as [Hc _].
          apply andb_prop in Hc as [Hc _]. apply String.eqb_eq. exact Hc.
        * exact (export_abstract_pre ly lyo ko po Hly Hslot _ ab _ E1).
  Qed.
End Conv.


(** * 6. Pass 2 of the importer with EXPECTED nets: an element may receive its net from the label of
    another element (the Drawing copy of a port shape from the label of the Pin copy) *)
Section Pass2G.
  Variable c : RG.cfg.
  Variable ly : layers.
  Variable itx : list (xitem * option string).
  Let its := map fst itx.
  Hypothesis Hok : Forall (xi_ok ly) its.
  Hypothesis Hnp : forall j nm lx loc v k, In j its -> xi_label j = Some (nm, lx, loc, v) -> In k its -> cont_ok c loc (xi_elem k).
  Hypothesis Hown : forall j nm lx loc v, In j its -> xi_label j = Some (nm, lx, loc, v) -> cont c loc (xi_elem j) = true.
  Hypothesis HunG : forall j nm lx loc v k xn, In j its -> xi_label j = Some (nm, lx, loc, v) -> In (k, xn) itx ->
                      xi_n k = xi_n j -> cont c loc (xi_elem k) = true -> exists nm', xn = Some nm' /\ lower nm' = lower nm.
  Hypothesis HhitG : forall k nm', In (k, Some nm') itx ->
                      exists j nm lx loc v, In j its /\ xi_label j = Some (nm, lx, loc, v) /\ xi_n k = xi_n j /\ cont c loc (xi_elem k) = true.

  Definition xfinal (kx : xitem * option string) : element :=
    mkelem (option_map lower (snd kx)) (xi_key (fst kx)) (xi_purp (fst kx)) (imp_shape (xi_shape (fst kx))).

  Lemma final_netG k xn : In (k, xn) itx ->
    option_map tname (find (fun t => hits c (enum_of ly) t (xi_elem k)) (flat_map xi_texts its)) = option_map lower xn.
  Proof.
    intros Hkx. assert (Hk : In k its) by (unfold its; apply in_map_iff; exists (k, xn); split; [reflexivity|exact Hkx]).
    destruct (find (fun t => hits c (enum_of ly) t (xi_elem k)) (flat_map xi_texts its)) as [t|] eqn:F.
    - apply find_some in F as [Ht Hh].
      destruct (text_origin its t Ht) as (j & nm & lx & loc & v & Hj & Hl & ->).
      rewrite (hits_item c ly its Hok j nm lx loc v k Hj Hl Hk) in Hh. apply andb_prop in Hh as [Hn Hc]. apply Z.eqb_eq in Hn.
      destruct (HunG j nm lx loc v k xn Hj Hl Hkx Hn Hc) as [nm' [-> E2]].
      cbn [option_map]. unfold tname. cbn [GdsData.t_string]. rewrite bytes_str_roundtrip, rg_lower_eq, E2. reflexivity.
    - destruct xn as [nm'|]; [|reflexivity]. exfalso.
      destruct (HhitG k nm' Hkx) as (j & nm & lx & loc & v & Hj & Hl & Hn & Hc).
      pose proof (find_none _ _ F) as Hnone.
      set (t := GdsData.mkText (bytes_of_string nm) (xi_n j) lx (gp loc) None None None (if v then Some strans_angle90 else None) None None []).
      assert (Ht : In t (flat_map xi_texts its)).
      { apply in_flat_map. exists j. split; [exact Hj|]. unfold xi_texts. rewrite Hl. left. reflexivity. }
      specialize (Hnone t Ht). cbv beta in Hnone. unfold t in Hnone.
      rewrite (hits_item c ly its Hok j nm lx loc v k Hj Hl Hk), Hn, Z.eqb_refl, Hc in Hnone. discriminate.
  Qed.

  Lemma pass2_itemsG B :
    Binv (enum_of ly) B (map xi_elem its) ->
    RG.pass2 c B (map xi_elem its) [] (flat_map xi_texts its) = RG.IOk (map xfinal itx, []).
  Proof.
    intros HB.
    rewrite (pass2_map c (enum_of ly) (enum_setnet_ly ly) B (flat_map xi_texts its) (map xi_elem its) [] HB).
    - rewrite (all_texts_hit c ly its Hok Hown). cbn [map app]. f_equal. f_equal.
      rewrite (fold_upd_map c (enum_of ly)). unfold its. rewrite !map_map. apply map_ext_in. intros [k xn] Hk.
      cbn [fst].
      destruct (fold_upd_fields c (enum_of ly) (enum_setnet_ly ly) (flat_map xi_texts (map fst itx)) (xi_elem k)) as (H1 & H2 & H3 & H4).
      cbv zeta in *.
      set (e' := fold_left (fun e t => upd_t c (enum_of ly) t e) (flat_map xi_texts (map fst itx)) (xi_elem k)) in *.
      destruct e' as [net' lay' pur' sh']. cbn [e_layer e_purpose e_shape e_net] in *. subst.
      unfold xfinal. cbn [fst snd]. f_equal. cbn [xi_elem e_net]. apply final_netG. exact Hk.
    - intros t Ht. destruct (text_origin its t Ht) as (j & nm & lx & loc & v & Hj & Hl & ->).
      apply Forall_forall. intros e He. apply in_map_iff in He as [k [<- Hk]].
      unfold tloc. cbn [GdsData.t_xy]. rewrite import_gp. exact (Hnp j nm lx loc v k Hj Hl Hk).
  Qed.
End Pass2G.

(** * 7. Generic facts about three lists related pointwise *)
Lemma triple_in {A B C D} (R1 : A -> B -> Prop) (R2 : A -> C -> Prop) (f : C -> D) pre its img :
  Forall2 R1 pre its -> Forall2 R2 pre img -> forall k d, In (k, d) (combine its (map f img)) ->
  exists a x, In a pre /\ In x img /\ R1 a k /\ R2 a x /\ d = f x.
Proof.
  intros H1. revert img. induction H1 as [|a k0 pre its Hak Hr IH]; intros img H2 k d Hin; [destruct Hin|].
  inversion H2 as [|? x ? img' Hax Hr2]; subst. cbn [map combine] in Hin. destruct Hin as [Heq|Hin].
  - injection Heq as <- <-. exists a, x. repeat split; try assumption; left; reflexivity.
  - destruct (IH img' Hr2 k d Hin) as (a' & x' & Ha & Hx & H3 & H4 & H5). exists a', x'. repeat split; try assumption; right; assumption.
Qed.
Lemma triple_map {A B C D E} (R1 : A -> B -> Prop) (R2 : A -> C -> Prop) (f : C -> D) (g : B * D -> E) (P : C -> E -> Prop) pre its img :
  Forall2 R1 pre its -> Forall2 R2 pre img -> (forall a k x, R1 a k -> R2 a x -> P x (g (k, f x))) ->
  Forall2 P img (map g (combine its (map f img))).
Proof.
  intros H1. revert img. induction H1 as [|a k0 pre its Hak Hr IH]; intros img H2 HP; inversion H2 as [|? x ? img' Hax Hr2]; subst; cbn [map combine]; constructor.
  - apply (HP a k0 x Hak Hax).
  - apply IH; assumption.
Qed.
Lemma triple_fst {A B C D} (R1 : A -> B -> Prop) (R2 : A -> C -> Prop) (f : C -> D) pre its img :
  Forall2 R1 pre its -> Forall2 R2 pre img -> map fst (combine its (map f img)) = its.
Proof.
  intros H1. revert img. induction H1 as [|a k0 pre its Hak Hr IH]; intros img H2; inversion H2 as [|? x ? img' Hax Hr2]; subst; cbn [map combine fst]; [reflexivity|].
  rewrite (IH img' Hr2). reflexivity.
Qed.
Lemma Forall2_in_l {A B} (R : A -> B -> Prop) l l' x : Forall2 R l l' -> In x l -> exists y, In y l' /\ R x y.
Proof.
  intros H. induction H as [|a b l l' Hab Hr IH]; intros Hx; [destruct Hx|].
  destruct Hx as [<-|Hx]; [exists b; split; [left; reflexivity|exact Hab]|].
  destruct (IH Hx) as [y [Hy Hxy]]. exists y. split; [right; exact Hy|exact Hxy].
Qed.

(** the head of a struct decides the table: a first boundary imported into two tables that answer
    alike for its pair of numbers leaves the same state *)
Lemma pass1_head_table c cm T T' n x s rest I E B Tx :
  shape_imp_ok s -> get_or_insert T n x = get_or_insert T' n x ->
  RG.pass1_all c cm (RG.mkp1 T I E B Tx) (gshape n x s :: rest) = RG.pass1_all c cm (RG.mkp1 T' I E B Tx) (gshape n x s :: rest).
Proof.
  intros Hs Hg. cbn [RG.pass1_all].
  assert (H : RG.pass1_step c cm (RG.mkp1 T I E B Tx) (gshape n x s) = RG.pass1_step c cm (RG.mkp1 T' I E B Tx) (gshape n x s)).
  { pose proof (import_gshape c T n x s Hs) as H1. pose proof (import_gshape c T' n x s Hs) as H2.
    destruct (gshape n x s); try contradiction; cbn [RG.pass1_step RG.p_layers]; rewrite H1, H2; cbn [RG.ibind];
      unfold RG.mk_element; rewrite Hg; destruct (get_or_insert T' n x) as [[ly' key] purp]; reflexivity. }
  rewrite H. reflexivity.
Qed.

(** the importer's [Polygon::contains] on a polygon with i32 vertices (simple or not) *)
Lemma contains_region_poly c ps q :
  RG.fx_contains c = true -> forallb point_i32b ps = true -> point_i32b q = true ->
  exists b, RG.shape_contains c (imp_shape (Polygon ps)) q = RG.IOk b /\ (b = true <-> in_region_shape_nz (Polygon ps) q).
Proof.
  intros Hc Hi Hq.
  assert (Hpoly : exists b, RG.shape_contains c (Polygon ps) q = RG.IOk b /\ (b = true <-> in_region_shape_nz (Polygon ps) q)).
  { exists (ContainsCheck.in_region_nzb (map spt ps) (spt q)). split.
    - unfold RG.shape_contains, RG.contains_res. cbn [RG.shape_c]. rewrite Hc.
      rewrite map_cpt_spt, cpt_spt, (CP.poly_contains_eq_nzb _ _ (i32_pts_ok _ Hi) (i32_pt_ok _ Hq)). reflexivity.
    - apply CP.in_region_nzb_spec. }
  destruct ps as [|a [|b [|c0 [|d [|e r]]]]]; try exact Hpoly.
  cbn [imp_shape]. destruct (RG.rect_pattern a b c0 d) eqn:Ep; [|exact Hpoly].
  exists (Geom.Contains.rect_contains (spt a) (spt c0) (spt q)). split; [reflexivity|].
  rewrite CP.rect_contains_spec. cbn [in_region_shape_nz map]. symmetry. apply rect4_region.
  unfold RG.rect_pattern in Ep. apply orb_prop in Ep as [Ep|Ep];
    repeat (apply andb_prop in Ep; destruct Ep as [Ep ?]);
    repeat match goal with H : (_ =? _) = true |- _ => apply Z.eqb_eq in H end; [left|right]; repeat split; assumption.
Qed.

Lemma resolve_same_key ly k p p' n x n' x' :
  resolve_lp ly k p = Some (n, x) -> resolve_lp ly k p' = Some (n', x') -> n' = n.
Proof.
  unfold resolve_lp. destruct (ly_get ly k) as [l|]; [|discriminate].
  destruct (layer_pnum l p); [|discriminate]. destruct (layer_pnum l p'); [|discriminate]. congruence.
Qed.

(** * 8. Importing the struct of an abstract *)
Section AbsImport.
  Variables (c : RG.cfg) (ly lyo : layers) (ko : nat) (po : purpose) (cells : list cell) (cm : RG.cell_map).
  Variables (a : abstract) (cname : string) (s : GdsData.gstruct) (T : layers) (av : list velem).
  Hypothesis Hc : RG.fx_contains c = true.
  Hypothesis Hly : layers_okb ly = true.
  Hypothesis Hslot : slot_ok ly lyo ko po.
  Hypothesis HT : get_or_insert T outline_num outline_num = (lyo, ko, po).
  Hypothesis Hokb : abstract_okb ly cname a = true.
  Hypothesis Hexp : export_layout xcfg_fixed lyo cells (abs_pre ko po a) = Ok s.
  Hypothesis Hview : abstract_view ly a = Some av.
  Hypothesis Hun : unambiguous_view_gen in_region_shape_nz label_of av.

  Let pre := pre_elems ko po a.
  Let img := abstract_image_elems ko po a.
  Let outline_elem := mkelem None ko po (Polygon (ab_outline a)).

  Lemma abs_parts : ab_outline a <> [] /\ forallb point_i32b (ab_outline a) = true /\ forallb (port_okb ly) (ab_ports a) = true.
  Proof.
    unfold abstract_okb in Hokb. apply andb_prop in Hokb as [H H3]. apply andb_prop in H as [H H2]. apply andb_prop in H as [_ H1].
    split; [destruct (ab_outline a); [discriminate|discriminate]|]. split; assumption.
  Qed.

  (** the elements of [abs_pre]: the outline, or a port shape in range with a label location *)
  Lemma pre_cases e : In e pre -> e = outline_elem \/ (named_shape_okb (e_shape e) = true /\ e_net e <> None \/
                                                       named_shape_okb (e_shape e) = true /\ e_net e = None).
  Proof.
    destruct abs_parts as (_ & _ & Hports).
    unfold pre, pre_elems. intros [<-|Hin]; [left; reflexivity|]. right.
    apply in_flat_map in Hin as [p [Hp Hin]]. unfold pre_port in Hin. apply in_flat_map in Hin as [ke [Hke Hin]].
    unfold pre_port_layer in Hin. apply in_flat_map in Hin as [sh [Hs Hin]].
    rewrite forallb_forall in Hports. specialize (Hports p Hp). unfold port_okb in Hports. apply andb_prop in Hports as [_ Hsh].
    rewrite forallb_forall in Hsh. specialize (Hsh ke (in_by_key _ _ Hke)). apply andb_prop in Hsh as [_ Hsh].
    rewrite forallb_forall in Hsh. specialize (Hsh sh Hs).
    destruct Hin as [<-|[<-|[]]]; cbn [e_shape e_net]; [right|left]; split; try exact Hsh; [reflexivity|discriminate].
  Qed.
  Lemma pre_shape_okb e : In e pre -> e <> outline_elem -> shape_okb (e_shape e) = true.
  Proof.
    intros He Hne. destruct (pre_cases e He) as [->|[[H _]|[H _]]]; [congruence| |]; unfold named_shape_okb in H; apply andb_prop in H as [H _]; exact H.
  Qed.
  Lemma pre_named_okb e nm : In e pre -> e_net e = Some nm -> shape_okb (e_shape e) = true.
  Proof. intros He Hn. apply pre_shape_okb; [exact He|]. intros ->. discriminate. Qed.

  (** the importer's contains on the shape an element of [abs_pre] comes back with *)
  Lemma pre_contains e q : In e pre -> point_i32b q = true ->
    exists b, RG.shape_contains c (ishape e) q = RG.IOk b /\ (b = true <-> in_region_shape_nz (e_shape e) q).
  Proof.
    intros He Hq. destruct (pre_cases e He) as [->|Hr].
    - destruct abs_parts as (_ & Hpts & _). unfold ishape, outline_elem. cbn [e_shape]. apply contains_region_poly; assumption.
    - unfold ishape. apply contains_region; [exact Hc| |exact Hq].
      destruct Hr as [[H _]|[H _]]; unfold named_shape_okb in H; apply andb_prop in H as [H _]; exact H.
  Qed.

  Theorem abstract_import :
    exists l', RG.import_layout c cm T s = RG.IOk (lyo, l') /\ lay_name l' = ab_name a /\ lay_insts l' = [] /\
               Forall2 (elem_rel lyo) img (lay_elems l') /\ lay_annots l' = [].
  Proof.
    pose proof (so_ok _ _ _ _ Hslot) as Hlyo.
    destruct (layers_ok_parts lyo Hlyo) as [Hd Hcons].
    destruct abs_parts as (Hne0 & Hpts & Hports).
    pose proof (abstract_image_view ly lyo ko po Hly Hslot a av Hview) as Himgview. fold img in Himgview.
    pose proof (pre_image_fields ko po a) as Hfields. fold pre img in Hfields.
    unfold export_layout in Hexp. cbn [abs_pre lay_insts lay_elems lay_name map all_res obind] in Hexp.
    obind_inv Hexp. injection Hexp as <-. apply concat_res_inv in E as [gls [Hgl ->]].
    destruct (export_elements_items _ _ _ Hd Hgl) as [its [Hits [Hcat Hne]]]. fold pre in Hits, Hne.
    cbn [app]. rewrite Hcat.
    (* items are fine for pass 1 *)
    assert (Hok : Forall (xi_ok lyo) its).
    { apply Forall_forall. intros it Hit. destruct (Forall2_in_r _ _ _ _ Hits Hit) as [e [He (Hs & Hr & Hg & Hl)]].
      split; [exact Hg|]. rewrite Hs. unfold shape_imp_ok.
      rewrite Forall_forall in Hne. specialize (Hne e He).
      destruct (e_shape e) as [p0 p1|ps|ps w] eqn:Es; [exact I|exact Hne|].
      assert (Hsk : shape_okb (e_shape e) = true).
      { apply pre_shape_okb; [exact He|]. intros ->. unfold outline_elem in Es. discriminate. }
      rewrite Es in Hsk. cbn [shape_okb] in Hsk. repeat (apply andb_prop in Hsk; destruct Hsk as [Hsk ?]).
      split; [apply Nat.leb_le; assumption|apply Z.leb_le; assumption]. }
    (* the head item is the outline *)
    unfold pre, pre_elems in Hits. inversion Hits as [|e0 it0 es its1 Hrel0 Hrest]; subst. fold (pre_elems ko po a) in *.
    destruct Hrel0 as (Hs0 & Hr0 & Hg0 & Hl0). cbn [e_shape e_layer e_purpose e_net] in Hs0, Hr0, Hl0.
    rewrite (slot_resolves ly lyo ko po Hly Hslot) in Hr0. injection Hr0 as Hn0 Hx0.
    assert (Hgds0 : xi_gds it0 = [gshape outline_num outline_num (Polygon (ab_outline a))]).
    { unfold xi_gds, xi_texts. rewrite Hl0, Hs0, <- Hn0, <- Hx0. reflexivity. }
    unfold RG.import_layout. cbn [GdsData.s_elems GdsData.s_name flat_map]. rewrite Hgds0. cbn [app].
    assert (Himp0 : shape_imp_ok (Polygon (ab_outline a))) by exact Hne0.
    rewrite (pass1_head_table c cm T lyo outline_num outline_num (Polygon (ab_outline a)) _ [] [] [] [] Himp0)
      by (rewrite HT, (so_stable _ _ _ _ Hslot); reflexivity).
    change (gshape outline_num outline_num (Polygon (ab_outline a)) :: flat_map xi_gds its1)
      with ([gshape outline_num outline_num (Polygon (ab_outline a))] ++ flat_map xi_gds its1).
    rewrite <- Hgds0. change (xi_gds it0 ++ flat_map xi_gds its1) with (flat_map xi_gds (it0 :: its1)).
    set (its := it0 :: its1) in *.
    rewrite (pass1_items c cm lyo its [] [] [] [] Hok).
    cbn [RG.ibind app RG.p_buckets RG.p_elems RG.p_texts RG.p_layers RG.p_insts List.length].
    assert (HB : Binv (enum_of lyo) (buckets_after [] 0 its) (map xi_elem its)).
    { apply (Binv_items lyo its [] [] Hok). apply Binv_nil. }
    (* expected nets *)
    set (itx := combine its (map e_net img)).
    assert (Hfst : map fst itx = its) by exact (triple_fst _ _ e_net _ _ _ Hits Hfields).
    (* facts about items from facts about elements *)
    assert (Hsrc : forall j nm lx loc v, In j its -> xi_label j = Some (nm, lx, loc, v) ->
              exists ej, In ej pre /\ item_rel lyo ej j /\ e_net ej = Some nm /\ label_location xcfg_fixed (e_shape ej) = Ok loc /\
                         point_i32b loc = true).
    { intros j nm lx loc v Hj Hl. destruct (Forall2_in_r _ _ _ _ Hits Hj) as [ej [Hej Hrel]].
      exists ej. split; [exact Hej|]. split; [exact Hrel|]. destruct Hrel as (_ & _ & _ & Hlab).
      destruct (e_net ej) as [nm0|]; [|rewrite Hlab in Hl; discriminate].
      destruct Hlab as (lx0 & loc0 & v0 & Hl0' & Hloc & H32). rewrite Hl0' in Hl. injection Hl as -> -> -> ->. split; [reflexivity|split; [exact Hloc|exact H32]]. }
    assert (Hshape_k : forall k ek, item_rel lyo ek k -> e_shape (xi_elem k) = ishape ek).
    { intros k ek (Hs & _). unfold xi_elem, ishape. cbn [e_shape]. rewrite Hs. reflexivity. }
    assert (Hlab_in : forall ej nm loc, In ej pre -> e_net ej = Some nm -> label_location xcfg_fixed (e_shape ej) = Ok loc ->
              in_region_shape_nz (e_shape ej) loc).
    { intros ej nm loc Hej Hn Hloc. apply label_inside_nz; [exact (pre_named_okb ej nm Hej Hn)|exact Hloc]. }
    rewrite <- Hfst.
    rewrite (pass2_itemsG c lyo itx); rewrite ?Hfst; [| exact Hok | | | | | exact HB].
    - cbn [RG.ibind fst snd]. eexists. split; [reflexivity|].
      cbn [lay_name lay_insts lay_elems lay_annots]. split; [apply bytes_str_roundtrip|]. split; [reflexivity|]. split; [|reflexivity].
      unfold itx. apply (triple_map _ _ e_net (xfinal) (elem_rel lyo) _ _ _ Hits Hfields).
      intros e k x (Hs & Hres & Hg & Hlab) (F1 & F2 & F3). unfold elem_rel, xfinal. cbn [fst snd e_net e_shape e_layer e_purpose].
      split; [reflexivity|]. split; [unfold ishape; rewrite Hs, F3; reflexivity|].
      pose proof (get_or_insert_resolves lyo (xi_n k) (xi_x k) Hcons) as Hgr. rewrite Hg in Hgr.
      rewrite <- F1, <- F2, Hres. split; [exact Hgr|discriminate].
    - (* no panic *)
      intros j nm lx loc v k Hj Hl Hk. destruct (Hsrc j nm lx loc v Hj Hl) as (ej & Hej & _ & Hn & Hloc & H32).
      destruct (Forall2_in_r _ _ _ _ Hits Hk) as [ek [Hek Hrelk]].
      unfold cont_ok. rewrite (Hshape_k k ek Hrelk). destruct (pre_contains ek loc Hek H32) as [b [Hb _]]. exists b. exact Hb.
    - (* own label *)
      intros j nm lx loc v Hj Hl. destruct (Hsrc j nm lx loc v Hj Hl) as (ej & Hej & Hrelj & Hn & Hloc & H32).
      unfold cont. rewrite (Hshape_k j ej Hrelj). destruct (pre_contains ej loc Hej H32) as [b [Hb Hiff]]. rewrite Hb.
      apply Hiff. exact (Hlab_in ej nm loc Hej Hn Hloc).
    - (* a label that hits an element: the element is expected to carry that net *)
      intros j nm lx loc v k xn Hj Hl Hkx Hnum Hcnt.
      destruct (Hsrc j nm lx loc v Hj Hl) as (ej & Hej & Hrelj & Hn & Hloc & H32).
      destruct (triple_in _ _ e_net _ _ _ Hits Hfields k xn Hkx) as (ek & x & Hek & Hx & Hrelk & (F1 & F2 & F3) & ->).
      unfold cont in Hcnt. rewrite (Hshape_k k ek Hrelk) in Hcnt.
      destruct (pre_contains ek loc Hek H32) as [b [Hb Hiff]]. rewrite Hb in Hcnt. subst b.
      pose proof (pre_named_in_image ko po a ej nm Hej Hn) as Hej_img. fold img in Hej_img.
      destruct (all_some_in _ _ _ ej Himgview Hej_img) as [vj [Hvj Hinj]].
      destruct (all_some_in _ _ _ x Himgview Hx) as [vx [Hvx Hinx]].
      unfold elem_view in Hvj, Hvx.
      destruct Hrelj as (_ & Hrj & _). destruct Hrelk as (_ & Hrk & _).
      assert (Evj : vj = mkvelem (xi_n j) (xi_x j) (e_shape ej) (e_net ej)) by (rewrite Hrj in Hvj; injection Hvj as <-; reflexivity).
      assert (Evx : vx = mkvelem (xi_n k) (xi_x k) (e_shape x) (e_net x)) by (rewrite <- F1, <- F2, Hrk in Hvx; injection Hvx as <-; reflexivity).
      pose proof (Hun vj nm loc vx Hinj) as Hu. rewrite Evx in Hinx. rewrite Evj, Evx in Hu. cbn [v_net v_shape v_lnum] in Hu.
      assert (Hlab : label_of (e_shape ej) = Some loc) by (unfold label_of; rewrite Hloc; reflexivity).
      specialize (Hu Hn Hlab Hinx Hnum). rewrite <- F3 in Hu. specialize (Hu (proj1 Hiff eq_refl)).
      destruct (e_net x) as [nm'|]; [|discriminate]. cbn [option_map] in Hu. injection Hu as Hu.
      exists nm'. split; [reflexivity|exact Hu].
    - (* an element expected to carry a net is hit by the label of its Pin twin *)
      intros k nm' Hkx.
      destruct (triple_in _ _ e_net _ _ _ Hits Hfields k (Some nm') Hkx) as (ek & x & Hek & Hx & Hrelk & (F1 & F2 & F3) & Hnx).
      destruct (image_named_twin ko po a x nm' Hx (eq_sym Hnx)) as (e & He & Hne' & Hle & Hse & _). fold pre in He.
      destruct (Forall2_in_l _ _ _ e Hits He) as [j [Hj Hrelj]].
      pose proof Hrelj as (_ & Hrj & _ & Hlab). rewrite Hne' in Hlab. destruct Hlab as (lx & loc & v & Hl & Hloc & H32).
      exists j, nm', lx, loc, v. split; [exact Hj|]. split; [exact Hl|].
      pose proof Hrelk as (_ & Hrk & _). split.
      + rewrite Hle, <- F1 in Hrj. exact (resolve_same_key _ _ _ _ _ _ _ _ Hrj Hrk).
      + unfold cont. rewrite (Hshape_k k ek Hrelk). destruct (pre_contains ek loc Hek H32) as [b [Hb Hiff]]. rewrite Hb.
        apply Hiff. rewrite F3, <- Hse. exact (Hlab_in e nm' loc He Hne' Hloc).
  Qed.
End AbsImport.


(** * 9. The importer's loop over the structs, the layer table changing on the way *)
Lemma elem_rel_ext T T' e e' : ext T T' -> elem_rel T e e' -> elem_rel T' e e'.
Proof.
  intros He (H1 & H2 & H3 & H4). unfold elem_rel. split; [exact H1|]. split; [exact H2|].
  destruct (resolve_lp T (e_layer e) (e_purpose e)) as [v|] eqn:E; [|congruence].
  rewrite (He _ _ _ E), (He _ _ _ H3). split; [reflexivity|discriminate].
Qed.

Section ImportG.
  Variables (c : RG.cfg) (lyx : layers) (cells : list cell) (structs : list GdsData.gstruct).
  Hypothesis Hstructs : Forall2 (fun c0 s => exists l, c_layout c0 = Some l /\ lay_name l = c_name c0 /\
                                                     export_layout xcfg_fixed lyx cells l = Ok s) cells structs.
  Hypothesis Hnodup : string_nodupb (map c_name cells) = true.
  Variable tbl : list nat -> layers.
  Variable expect : nat -> list element.
  Hypothesis Hmono : forall done i e e', elem_rel (tbl done) e e' -> elem_rel (tbl (done ++ [i])) e e'.
  Hypothesis Hcell : forall done i ci l s cm,
    nth_error cells i = Some ci -> c_layout ci = Some l -> export_layout xcfg_fixed lyx cells l = Ok s ->
    (forall i0 ci0, In i0 (lay_insts l) -> nth_error cells (i_cell i0) = Some ci0 ->
                    exists idx, RG.cm_get cm (bytes_of_string (c_name ci0)) = Some idx) ->
    exists l', RG.import_layout c cm (tbl done) s = RG.IOk (tbl (done ++ [i]), l') /\ lay_name l' = lay_name l /\
               Forall2 (inst_rel cells cm) (lay_insts l) (lay_insts l') /\
               Forall2 (elem_rel (tbl (done ++ [i]))) (expect i) (lay_elems l') /\ lay_annots l' = [].

  Let n := List.length cells.

  Lemma mkmapG_app done x pos : mkmap cells (done ++ [x]) pos = mkmap cells done pos ++ [(bytes_of_string (cname cells x), (pos + List.length done)%nat)].
  Proof.
    revert pos; induction done as [|d r IH]; intros pos; cbn [app mkmap List.length].
    - rewrite Nat.add_0_r. reflexivity.
    - rewrite IH. replace (S pos + Datatypes.length r)%nat with (pos + S (Datatypes.length r))%nat by lia. reflexivity.
  Qed.
  Lemma cnameG_inj j k : (j < n)%nat -> (k < n)%nat -> cname cells j = cname cells k -> j = k.
  Proof.
    intros Hj Hk He. unfold cname in He.
    destruct (nth_error cells j) as [cj|] eqn:Ej; [|apply nth_error_None in Ej; fold n in Ej; lia].
    destruct (nth_error cells k) as [ck|] eqn:Ek; [|apply nth_error_None in Ek; fold n in Ek; lia].
    eapply (nodup_names cells); eassumption.
  Qed.
  Lemma mkmapG_get : forall done pos t, Forall (fun d => (d < n)%nat) done -> (t < n)%nat ->
    (forall idx, RG.cm_get (mkmap cells done pos) (bytes_of_string (cname cells t)) = Some idx ->
                 exists p, idx = (pos + p)%nat /\ nth_error done p = Some t) /\
    (In t done -> exists idx, RG.cm_get (mkmap cells done pos) (bytes_of_string (cname cells t)) = Some idx).
  Proof.
    induction done as [|d r IH]; intros pos t Hall Ht; cbn [mkmap RG.cm_get].
    - split; [discriminate|intros []].
    - inversion Hall as [|? ? Hd Hr]; subst. destruct (IH (S pos) t Hr Ht) as [IH1 IH2].
      destruct (zlist_eqb (bytes_of_string (cname cells d)) (bytes_of_string (cname cells t))) eqn:E.
      + apply zlist_eqb_eq in E. apply bytes_inj in E. apply (cnameG_inj d t Hd Ht) in E. subst d. split.
        * intros idx [= <-]. exists 0%nat. split; [lia|reflexivity].
        * intros _. eexists. reflexivity.
      + split.
        * intros idx Hi. destruct (IH1 idx Hi) as [p [-> Hp]]. exists (S p). split; [lia|exact Hp].
        * intros [->|Hin]; [rewrite (proj2 (zlist_eqb_eq _ _) eq_refl) in E; discriminate|exact (IH2 Hin)].
  Qed.
  Lemma mkmapG_get_none : forall done pos t, Forall (fun d => (d < n)%nat) done -> (t < n)%nat -> ~ In t done ->
    RG.cm_get (mkmap cells done pos) (bytes_of_string (cname cells t)) = None.
  Proof.
    intros done pos t Hall Ht Hnin. destruct (RG.cm_get (mkmap cells done pos) (bytes_of_string (cname cells t))) as [idx|] eqn:E; [|reflexivity].
    exfalso. destruct (proj1 (mkmapG_get done pos t Hall Ht) idx E) as [p [_ Hp]]. apply Hnin. eapply nth_error_In. exact Hp.
  Qed.

  Definition cell_relG (T : layers) (cs : list cell) (k : nat) (c' : cell) : Prop :=
    exists c0 l l', nth_error cells k = Some c0 /\ c_layout c0 = Some l /\ c' = mkcell (c_name c0) None (Some l') /\
                    lay_name l' = lay_name l /\ Forall2 (inst_rel2 cells cs) (lay_insts l) (lay_insts l') /\
                    Forall2 (elem_rel T) (expect k) (lay_elems l') /\ lay_annots l' = [].
  Lemma cell_relG_mono done i cs x k c' : cell_relG (tbl done) cs k c' -> cell_relG (tbl (done ++ [i])) (cs ++ x) k c'.
  Proof.
    intros (c0 & l & l' & H1 & H2 & H3 & H4 & H5 & H6 & H7). exists c0, l, l'. repeat split; try assumption.
    - eapply Forall2_impl; [|exact H5]. intros a b. apply inst_rel2_mono.
    - eapply Forall2_impl; [|exact H6]. intros a b. apply Hmono.
  Qed.

  Definition InvG (done : list nat) (st : RG.istate) : Prop :=
    RG.is_layers st = tbl done /\ RG.is_map st = mkmap cells done 0 /\
    Forall2 (cell_relG (tbl done) (RG.is_cells st)) done (RG.is_cells st).

  Lemma import_stepG done st i :
    InvG done st -> Forall (fun d => (d < n)%nat) done -> (i < n)%nat -> ~ In i done ->
    (forall t, In t (cell_deps cells i) -> In t done) ->
    exists s st', nth_error structs i = Some s /\ RG.import_and_add c st s = RG.IOk st' /\ InvG (done ++ [i]) st'.
  Proof.
    intros (Hl & Hm & Hcs) Hall Hi Hnin Hdeps.
    destruct (nth_error cells i) as [ci|] eqn:Eci; [|apply nth_error_None in Eci; fold n in Eci; lia].
    destruct (struct_of lyx cells structs Hstructs i ci Eci) as (s & l & Hs & Hlay & Hname & Hexp & Hsn).
    exists s. unfold RG.import_and_add. rewrite Hm, Hsn.
    assert (Hcn : cname cells i = c_name ci) by (unfold cname; rewrite Eci; reflexivity).
    rewrite <- Hcn, (mkmapG_get_none done 0 i Hall Hi Hnin), Hl.
    assert (Hcm : forall i0 ci0, In i0 (lay_insts l) -> nth_error cells (i_cell i0) = Some ci0 ->
                    exists idx, RG.cm_get (mkmap cells done 0) (bytes_of_string (c_name ci0)) = Some idx).
    { intros i0 ci0 Hi0 Hci0. assert (Ht : In (i_cell i0) done).
      { apply Hdeps. unfold cell_deps. rewrite Eci, Hlay. apply in_map. exact Hi0. }
      assert (Hlt : (i_cell i0 < n)%nat) by (apply nth_error_Some; congruence).
      destruct (proj2 (mkmapG_get done 0 (i_cell i0) Hall Hlt) Ht) as [idx Hidx].
      exists idx. unfold cname in Hidx. rewrite Hci0 in Hidx. exact Hidx. }
    destruct (Hcell done i ci l s (mkmap cells done 0) Eci Hlay Hexp Hcm) as (l' & Himp & Hn' & Hi' & He' & Ha').
    rewrite Himp. cbn [RG.ibind fst snd]. eexists. split; [exact Hs|]. split; [reflexivity|].
    assert (Hlen : List.length (RG.is_cells st) = List.length done) by (symmetry; exact (Forall2_len _ _ _ Hcs)).
    unfold InvG. cbn [RG.is_layers RG.is_map RG.is_cells]. split; [reflexivity|]. split.
    - rewrite mkmapG_app. cbn [Nat.add]. rewrite Hlen. reflexivity.
    - apply Forall2_app.
      + eapply Forall2_impl; [|exact Hcs]. intros a b. apply cell_relG_mono.
      + constructor; [|constructor].
        exists ci, l, l'. rewrite bytes_str_roundtrip, Hcn. repeat split; try assumption.
        eapply Forall2_impl; [|exact Hi']. intros a b (ca & idx & H1 & H2 & ->).
        assert (Hlt : (i_cell a < n)%nat) by (apply nth_error_Some; congruence).
        assert (Hca : cname cells (i_cell a) = c_name ca) by (unfold cname; rewrite H1; reflexivity).
        rewrite <- Hca in H2. destruct (proj1 (mkmapG_get done 0 (i_cell a) Hall Hlt) idx H2) as [p [-> Hp]]. cbn [Nat.add].
        destruct (Forall2_nth _ _ _ _ _ Hcs Hp) as [c'a [Hc'a (c0 & l0 & l0' & G1 & G2 & G3 & _)]].
        exists ca, c'a. cbn [i_cell]. repeat split; try assumption.
        * rewrite nth_error_app1; [exact Hc'a|apply nth_error_Some; congruence].
        * rewrite G3. cbn [c_name]. congruence.
  Qed.

  Lemma import_allG : forall rest done st,
    InvG done st -> Forall (fun d => (d < n)%nat) (done ++ rest) -> NoDup (done ++ rest) ->
    (forall l1 x l2, rest = l1 ++ x :: l2 -> forall t, In t (cell_deps cells x) -> In t (done ++ l1)) ->
    exists st', RG.import_structs c structs st (map N.of_nat rest) = RG.IOk st' /\ InvG (done ++ rest) st'.
  Proof.
    induction rest as [|i r IH]; intros done st HI Hall Hnd Hdeps.
    - exists st. rewrite app_nil_r. split; [reflexivity|exact HI].
    - assert (Hall_done : Forall (fun d => (d < n)%nat) done) by (apply Forall_app in Hall; tauto).
      assert (Hi : (i < n)%nat). { apply Forall_app in Hall as [_ H]. inversion H; assumption. }
      assert (Hnin : ~ In i done). { intros Hin. apply NoDup_remove_2 in Hnd. apply Hnd. apply in_or_app. left. exact Hin. }
      assert (Hd : forall t, In t (cell_deps cells i) -> In t done).
      { intros t Ht. specialize (Hdeps [] i r eq_refl t Ht). rewrite app_nil_r in Hdeps. exact Hdeps. }
      destruct (import_stepG done st i HI Hall_done Hi Hnin Hd) as (s & st1 & Hs & Himp & HI1).
      cbn [map RG.import_structs]. rewrite Nat2N.id, Hs, Himp. cbn [RG.ibind].
      destruct (IH (done ++ [i]) st1 HI1) as [st' [H1 H2]].
      + rewrite <- app_assoc. exact Hall.
      + rewrite <- app_assoc. exact Hnd.
      + intros l1 x l2 Hr t Ht. rewrite <- app_assoc. apply (Hdeps (i :: l1) x l2); [cbn; rewrite Hr; reflexivity|exact Ht].
      + exists st'. split; [exact H1|]. rewrite <- app_assoc in H2. exact H2.
  Qed.
End ImportG.


(** * 10. The whole library, layouts and abstract-only cells mixed *)
Definition is_abs (cells : list cell) (k : nat) : bool :=
  match nth_error cells k with Some c0 => is_abstract_only c0 | None => false end.
Definition tblf (ly lyo : layers) (cells : list cell) (done : list nat) : layers :=
  if existsb (is_abs cells) done then lyo else ly.
Definition expectf (ko : nat) (po : purpose) (cells : list cell) (k : nat) : list element :=
  match nth_error cells k with
  | Some c0 => match c_layout c0 with
               | Some l => lay_elems l
               | None => match c_abs c0 with Some a => abstract_image_elems ko po a | None => [] end
               end
  | None => []
  end.

Lemma resolves_ext ly T k p : ext ly T -> resolves ly k p = true -> resolves T k p = true.
Proof. unfold resolves. intros He H. destruct (resolve_lp ly k p) as [v|] eqn:E; [|discriminate]. rewrite (He _ _ _ E). reflexivity. Qed.
Lemma elem_okb_ext ly T e : ext ly T -> elem_okb ly e = true -> elem_okb T e = true.
Proof.
  unfold elem_okb. intros He H. apply andb_prop in H as [H1 H2]. rewrite (resolves_ext _ _ _ _ He H1). cbn [andb].
  destruct (e_net e); [|exact H2]. apply andb_prop in H2 as [H2 H4]. apply andb_prop in H2 as [H2 H3].
  rewrite H2, H4, (resolves_ext _ _ _ _ He H3). reflexivity.
Qed.
Lemma elem_view_ext ly T e v : ext ly T -> elem_view ly e = Some v -> elem_view T e = Some v.
Proof.
  unfold elem_view. intros He H. destruct (resolve_lp ly (e_layer e) (e_purpose e)) as [[n pn]|] eqn:E; [|discriminate].
  rewrite (He _ _ _ E). exact H.
Qed.

Lemma elem_rel_view T a b x : elem_rel T a b -> elem_view T a = Some x -> exists y, elem_view T b = Some y /\ velem_equiv x y.
Proof.
  intros (R1 & R2 & R3 & R4) Hx. unfold elem_view in *. rewrite R3.
  destruct (resolve_lp T (e_layer a) (e_purpose a)) as [[na xa]|]; [|discriminate]. injection Hx as <-.
  eexists. split; [reflexivity|]. unfold velem_equiv. cbn [v_lnum v_pnum v_shape v_net]. rewrite R1, R2.
  repeat split; try reflexivity. apply imp_shape_equiv.
Qed.

Theorem roundtrip_abstract c L g :
  RG.fx_contains c = true -> RG.fx_pico c = true ->
  exportable_abs L -> labels_unambiguous_nz_at label_of L ->
  export_lib L = Ok g ->
  exists L', RG.import_lib c (lib_layers L) g = RG.IOk L' /\ raw_equiv L L' /\
             lib_layers L' = table_after L /\
             (forall c0 a, In c0 (lib_cells L) -> abstract_only c0 = Some a ->
                exists c' l', In c' (lib_cells L') /\ c_name c' = c_name c0 /\ c_abs c' = None /\ c_layout c' = Some l' /\
                              layout_content_equiv (lib_layers L') (lib_cells L') (abstract_image (lib_layers L) a) l').
Proof.
  intros Hc Hpico Hexa Hun Hexp.
  unfold exportable_abs, exportable_absb in Hexa. apply andb_prop in Hexa as [Hex Hslot0].
  destruct (exportable_parts L Hex) as (Hly & Hcells & Hnd & Hac).
  unfold table_after, abstract_image.
  set (ly := lib_layers L) in *. set (cells := lib_cells L) in *. set (n := List.length cells) in *.
  pose proof (outline_slot_props ly Hly Hslot0) as Hslot.
  set (lyo := outline_table ly) in *. set (ko := outline_key ly) in *. set (po := outline_purpose ly) in *.
  set (cells2 := map (conv ko po) cells).
  unfold export_lib, export_lib_gen in Hexp. fold ly cells in Hexp. obind_inv Hexp. injection Hexp as <-. rename a into structs.
  assert (Hlen2 : List.length cells2 = n) by (unfold cells2; apply map_length).
  assert (Hnth2 : forall k, nth_error cells2 k = option_map (conv ko po) (nth_error cells k)) by (intros k; unfold cells2; apply nth_error_map).
  assert (Hstructs2 : Forall2 (fun c0 s => exists l, c_layout c0 = Some l /\ lay_name l = c_name c0 /\
                                                    export_layout xcfg_fixed lyo cells2 l = Ok s) cells2 structs).
  { unfold cells2. apply (Forall2_map_l (fun c0 s => exists l, c_layout c0 = Some l /\ lay_name l = c_name c0 /\
                                              export_layout xcfg_fixed lyo (map (conv ko po) cells) l = Ok s) (conv ko po)).
    exact (export_cells_conv ly lyo ko po Hly Hslot cells cells structs Hcells E). }
  assert (Hnd2 : string_nodupb (map c_name cells2) = true) by (unfold cells2; rewrite conv_map_names; exact Hnd).
  assert (Hac2 : acyclicb cells2 = true) by (unfold cells2; rewrite acyclic_conv; exact Hac).
  (* per-cell facts *)
  assert (Hcell : forall k c0 l, nth_error cells k = Some c0 -> c_layout c0 = Some l ->
            layout_okb ly n (c_name c0) l = true /\ forallb (inst_okb n) (lay_insts l) = true /\ forallb (elem_okb ly) (lay_elems l) = true).
  { intros k c0 l Hk Hl. rewrite forallb_forall in Hcells. specialize (Hcells c0 (nth_error_In _ _ Hk)).
    unfold cell_okb in Hcells. rewrite Hl in Hcells. split; [exact Hcells|]. unfold layout_okb in Hcells.
    apply andb_prop in Hcells as [H1 H3]. apply andb_prop in H1 as [_ H2]. split; assumption. }
  assert (Hviews : forall k c0 l, nth_error cells k = Some c0 -> c_layout c0 = Some l ->
            exists ev, all_some (map (elem_view ly) (lay_elems l)) = Some ev /\ unambiguous_view_gen in_region_shape_nz label_of ev).
  { intros k c0 l Hk Hl. destruct (Hcell k c0 l Hk Hl) as (_ & Hi & He).
    destruct (all_some_total (elem_view ly) (lay_elems l)) as [ev Hev].
    { intros e Hin. rewrite forallb_forall in He. specialize (He e Hin). unfold elem_okb in He. apply andb_prop in He as [He _].
      unfold resolves in He. unfold elem_view. destruct (resolve_lp ly (e_layer e) (e_purpose e)) as [[? ?]|]; [discriminate|discriminate]. }
    exists ev. split; [exact Hev|]. unfold labels_unambiguous_nz_at in Hun. rewrite Forall_forall in Hun. apply Hun.
    exact (views_of_in L k c0 l ev Hk Hl Hi Hev). }
  assert (Habs : forall k c0 a, nth_error cells k = Some c0 -> c_layout c0 = None -> c_abs c0 = Some a ->
            abstract_okb ly (c_name c0) a = true /\
            exists av, abstract_view ly a = Some av /\ unambiguous_view_gen in_region_shape_nz label_of av).
  { intros k c0 a Hk Hl Ha. rewrite forallb_forall in Hcells. specialize (Hcells c0 (nth_error_In _ _ Hk)).
    unfold cell_okb in Hcells. rewrite Hl, Ha in Hcells. split; [exact Hcells|].
    destruct (abstract_view_defined ly _ a Hcells) as [av Hav]. exists av. split; [exact Hav|].
    unfold labels_unambiguous_nz_at in Hun. rewrite Forall_forall in Hun. apply Hun.
    unfold views_of. apply in_flat_map. exists c0. split; [eapply nth_error_In; exact Hk|].
    unfold cell_view. fold ly cells. rewrite Hl, Ha, Hav. left. reflexivity. }
  (* the order *)
  destruct (gds_order_ok lyo cells2 structs Hstructs2 Hnd2 Hac2) as [out [Hout Htopo]].
  destruct Htopo as (Hnodup_out & Hin_out & Hbefore).
  set (outn := map N.to_nat out).
  assert (Hout_eq : out = map N.of_nat outn).
  { unfold outn. rewrite map_map. rewrite <- (map_id out) at 1. apply map_ext. intros x. rewrite N2Nat.id. reflexivity. }
  assert (Hlt : Forall (fun d => (d < n)%nat) outn).
  { apply Forall_forall. intros d Hd. unfold outn in Hd. apply in_map_iff in Hd as [x [<- Hx]].
    apply Hin_out in Hx. apply (reachable_bound lyo cells2 structs Hstructs2 Hnd2) in Hx as [k [-> Hk]]. rewrite Nat2N.id. rewrite <- Hlen2. exact Hk. }
  assert (Hnd_n : NoDup outn).
  { unfold outn. apply FinFun.Injective_map_NoDup; [|exact Hnodup_out]. intros x y Hxy. apply N2Nat.inj. exact Hxy. }
  assert (Hcover : forall k, (k < n)%nat -> In k outn).
  { intros k Hk. unfold outn. apply in_map_iff. exists (N.of_nat k). split; [apply Nat2N.id|].
    apply Hin_out. apply (reachable_bound lyo cells2 structs Hstructs2 Hnd2). exists k. split; [reflexivity|rewrite Hlen2; exact Hk]. }
  assert (Hdeps : forall l1 x l2, outn = l1 ++ x :: l2 -> forall t, In t (cell_deps cells2 x) -> In t ([] ++ l1)).
  { intros l1 x l2 Hsplit t Ht. cbn [app].
    assert (Hx : (x < n)%nat). { rewrite Forall_forall in Hlt. apply Hlt. rewrite Hsplit. apply in_or_app. right. left. reflexivity. }
    assert (Hsp : out = map N.of_nat l1 ++ N.of_nat x :: map N.of_nat l2) by (rewrite Hout_eq, Hsplit, map_app; reflexivity).
    rewrite <- Hlen2 in Hx.
    destruct (gds_deps_cells lyo cells2 structs Hstructs2 Hnd2 x Hx) as [Hd _].
    assert (Hin : In (N.of_nat t) (map N.of_nat l1)).
    { apply (Hbefore _ _ _ Hsp). rewrite Hd. apply in_map. exact Ht. }
    apply in_map_iff in Hin as [t' [Ht' Hin]]. apply Nat2N.inj in Ht'. subst t'. exact Hin. }
  (* the table on the way, and what each cell is expected to come back with *)
  set (tbl := tblf ly lyo cells). set (expect := expectf ko po cells).
  assert (Htbl : forall done, (tbl done = ly \/ tbl done = lyo) /\ ext ly (tbl done) /\ layers_okb (tbl done) = true /\
                              get_or_insert (tbl done) outline_num outline_num = (lyo, ko, po)).
  { intros done. unfold tbl, tblf. destruct (existsb (is_abs cells) done).
    - split; [right; reflexivity|]. split; [exact (so_ext _ _ _ _ Hslot)|]. split; [exact (so_ok _ _ _ _ Hslot)|exact (so_stable _ _ _ _ Hslot)].
    - split; [left; reflexivity|]. split; [apply ext_refl|]. split; [exact Hly|exact (so_goi _ _ _ _ Hslot)]. }
  assert (Htbl_step : forall done i, tbl (done ++ [i]) = if is_abs cells i then lyo else tbl done).
  { intros done i. unfold tbl, tblf. rewrite existsb_app. cbn [existsb]. rewrite orb_false_r.
    destruct (existsb (is_abs cells) done), (is_abs cells i); reflexivity. }
  assert (Hmono : forall done i e e', elem_rel (tbl done) e e' -> elem_rel (tbl (done ++ [i])) e e').
  { intros done i e e' H. rewrite Htbl_step. destruct (is_abs cells i); [|exact H].
    destruct (proj1 (Htbl done)) as [Ht|Ht]; rewrite Ht in H; [|exact H]. exact (elem_rel_ext _ _ _ _ (so_ext _ _ _ _ Hslot) H). }
  assert (Hcellimp : forall done i ci l s cm,
    nth_error cells2 i = Some ci -> c_layout ci = Some l -> export_layout xcfg_fixed lyo cells2 l = Ok s ->
    (forall i0 ci0, In i0 (lay_insts l) -> nth_error cells2 (i_cell i0) = Some ci0 ->
                    exists idx, RG.cm_get cm (bytes_of_string (c_name ci0)) = Some idx) ->
    exists l', RG.import_layout c cm (tbl done) s = RG.IOk (tbl (done ++ [i]), l') /\ lay_name l' = lay_name l /\
               Forall2 (inst_rel cells2 cm) (lay_insts l) (lay_insts l') /\
               Forall2 (elem_rel (tbl (done ++ [i]))) (expect i) (lay_elems l') /\ lay_annots l' = []).
  { intros done i ci l s cm Hi Hlay Hexps Hcm. rewrite Hnth2 in Hi.
    destruct (nth_error cells i) as [c0|] eqn:E0; cbn [option_map] in Hi; [|discriminate]. injection Hi as <-.
    destruct (Htbl done) as (_ & Hext_d & Hok_d & Hgoi_d).
    rewrite Htbl_step. unfold is_abs. rewrite E0. unfold is_abstract_only, abstract_only. unfold expect, expectf. rewrite E0.
    unfold conv in Hlay, Hexps. destruct (c_layout c0) as [l0|] eqn:El0.
    - (* a layout cell *)
      rewrite El0 in Hlay. injection Hlay as <-.
      destruct (Hcell i c0 l0 E0 El0) as (Hlok & Hinsts & Helems).
      destruct (Hviews i c0 l0 E0 El0) as [ev [Hev Hunv]].
      destruct (export_layout_ok ly cells (c_name c0) l0 Hlok) as [s' Hs'].
      rewrite <- (export_layout_cells _ _ cells cells2 _ (conv_names ko po cells)) in Hs'. fold cells2 in Hs'.
      assert (s' = s).
      { pose proof (export_layout_ext _ _ _ _ _ _ (so_ext _ _ _ _ Hslot) Hs') as H. rewrite Hexps in H. congruence. }
      subst s'.
      apply (layout_roundtrip_spec c (tbl done) cells2 cm l0 s ev Hc Hok_d).
      + exact (export_layout_ext _ _ _ _ _ _ Hext_d Hs').
      + apply forallb_forall. intros e He. rewrite forallb_forall in Helems. exact (elem_okb_ext _ _ _ Hext_d (Helems e He)).
      + exact Hcm.
      + eapply all_some_impl; [|exact Hev]. intros e v _ Hv. exact (elem_view_ext _ _ _ _ Hext_d Hv).
      + exact Hunv.
    - destruct (c_abs c0) as [a|] eqn:Ea.
      + (* an abstract-only cell *)
        cbn [c_layout] in Hlay. injection Hlay as <-.
        destruct (Habs i c0 a E0 El0 Ea) as [Hokb [av [Hav Hunv]]].
        destruct (abstract_import c ly lyo ko po cells2 cm a (c_name c0) s (tbl done) av Hc Hly Hslot Hgoi_d Hokb Hexps Hav Hunv)
          as (l' & Himp & Hn' & Hi' & He' & Ha').
        exists l'. split; [exact Himp|]. split; [exact Hn'|]. split; [rewrite Hi'; constructor|]. split; [exact He'|exact Ha'].
      + rewrite El0 in Hlay. discriminate. }
  destruct (import_allG c lyo cells2 structs Hstructs2 Hnd2 tbl expect Hmono Hcellimp outn [] (RG.mkist ly [] []))
    as [st' [Himp HInv]]; try assumption.
  { split; [reflexivity|]. split; [reflexivity|constructor]. }
  { cbn [app]. rewrite Hlen2. exact Hlt. }
  cbn [app] in HInv. destruct HInv as (Hl' & _ & Hcs).
  set (Tf := tbl outn) in *. set (cs := RG.is_cells st') in *.
  destruct (Htbl outn) as (HTf & Hext_f & _ & _). fold Tf in HTf, Hext_f.
  assert (Hlen : List.length cs = n).
  { rewrite <- (Forall2_len _ _ _ Hcs). apply Nat.le_antisymm.
    - rewrite <- (seq_length n 0). apply NoDup_incl_length; [exact Hnd_n|]. intros d Hd. apply in_seq.
      rewrite Forall_forall in Hlt. specialize (Hlt d Hd). lia.
    - rewrite <- (seq_length n 0) at 1. apply NoDup_incl_length; [apply seq_NoDup|]. intros d Hd. apply in_seq in Hd. apply Hcover. lia. }
  (* every cell of the source comes back *)
  assert (Hback : forall k c0, nth_error cells k = Some c0 ->
            exists c' l l', In c' cs /\ c_layout (conv ko po c0) = Some l /\ c' = mkcell (c_name c0) None (Some l') /\
                            lay_name l' = lay_name l /\ Forall2 (inst_rel2 cells2 cs) (lay_insts l) (lay_insts l') /\
                            Forall2 (elem_rel Tf) (expect k) (lay_elems l') /\ lay_annots l' = []).
  { intros k c0 Hk. assert (Hkn : (k < n)%nat) by (apply nth_error_Some; congruence).
    destruct (In_nth_error _ _ (Hcover k Hkn)) as [pos Hpos].
    destruct (Forall2_nth _ _ _ _ _ Hcs Hpos) as [c' [Hc' (c1 & l & l' & G1 & G2 & G3 & G4 & G5 & G6 & G7)]].
    rewrite Hnth2, Hk in G1. cbn [option_map] in G1. injection G1 as <-. rewrite conv_name in G3.
    exists c', l, l'. split; [eapply nth_error_In; exact Hc'|]. repeat split; assumption. }
  assert (Habs_tf : forall k c0, nth_error cells k = Some c0 -> is_abstract_only c0 = true -> Tf = lyo).
  { intros k c0 Hk Ha. unfold Tf, tbl, tblf.
    assert (Hex1 : existsb (is_abs cells) outn = true).
    { apply existsb_exists. exists k. split; [apply Hcover; apply nth_error_Some; congruence|]. unfold is_abs. rewrite Hk. exact Ha. }
    rewrite Hex1. reflexivity. }
  exists (mklib (RG.str_of_bytes (bytes_of_string (lib_name L))) (lib_units L) (RG.is_layers st') cs).
  split; [|split; [|split]].
  - unfold RG.import_lib. cbn [GdsData.l_units GdsData.l_structs GdsData.l_name].
    rewrite (import_units_export c _ Hpico). cbn [RG.ibind]. rewrite Hout, Hout_eq, Himp. reflexivity.
  - unfold raw_equiv. cbn [lib_units lib_cells lib_layers]. split; [reflexivity|]. split; [exact Hlen|].
    apply Forall_forall. intros c0 Hc0. apply In_nth_error in Hc0 as [k Hk]. change (lib_cells L) with cells in Hk.
    destruct (Hback k c0 Hk) as (c' & l & l' & Hin' & G2 & G3 & G4 & G5 & G6 & G7).
    unfold cell_equiv. cbn [lib_layers lib_cells]. fold ly cells. rewrite Hl'.
    unfold conv in G2. unfold expect, expectf in G6. rewrite Hk in G6.
    destruct (c_layout c0) as [l0|] eqn:El0.
    + rewrite El0 in G2. injection G2 as <-.
      destruct (Hcell k c0 l0 Hk El0) as (_ & Hinsts & _).
      destruct (Hviews k c0 l0 Hk El0) as [ev [Hev _]].
      assert (Hiv : exists iv, all_some (map (inst_view cells) (lay_insts l0)) = Some iv).
      { apply all_some_total. intros i Hi. rewrite forallb_forall in Hinsts. specialize (Hinsts i Hi). unfold inst_okb in Hinsts.
        apply andb_prop in Hinsts as [H1 _]. apply Nat.ltb_lt in H1. unfold inst_view.
        destruct (nth_error cells (i_cell i)) eqn:E1; [discriminate|apply nth_error_None in E1; fold n in E1; lia]. }
      destruct Hiv as [iv Hiv].
      assert (Hiv' : all_some (map (inst_view cs) (lay_insts l')) = Some iv).
      { rewrite <- Hiv. symmetry. eapply all_some_rel; [|exact G5]. intros a b (ca & c'a & H1 & H2 & H3 & ->).
        unfold inst_view. cbn [i_cell i_loc i_reflect i_angle]. rewrite H2, H3.
        rewrite Hnth2 in H1. destruct (nth_error cells (i_cell a)) as [co|]; cbn [option_map] in H1; [|discriminate].
        injection H1 as <-. rewrite conv_name. reflexivity. }
      destruct (all_some_rel2 (elem_view ly) (elem_view Tf) (elem_rel Tf) velem_equiv (lay_elems l0) (lay_elems l') ev) as [ev' [Hev' Hequiv]]; [|exact G6|exact Hev|].
      { intros a b x Hr Hx. apply (elem_rel_view Tf a b x Hr). exact (elem_view_ext _ _ _ _ Hext_f Hx). }
      exists c', l', iv, ev, ev'. split; [exact Hin'|].
      rewrite G3. cbn [c_name c_layout]. split; [reflexivity|]. split; [reflexivity|].
      split; [unfold cell_view; rewrite El0, Hiv, Hev; reflexivity|].
      split; [unfold cell_view; cbn [c_layout]; rewrite Hiv', Hev'; reflexivity|exact Hequiv].
    + destruct (c_abs c0) as [a|] eqn:Ea; [|rewrite El0 in G2; discriminate].
      cbn [c_layout] in G2. injection G2 as <-. cbn [abs_pre lay_insts] in G5. assert (Hnil : lay_insts l' = []) by (destruct (lay_insts l'); [reflexivity|inversion G5]).
      destruct (Habs k c0 a Hk El0 Ea) as [_ [av [Hav _]]].
      assert (HTlyo : Tf = lyo) by (apply (Habs_tf k c0 Hk); unfold is_abstract_only, abstract_only; rewrite El0, Ea; reflexivity).
      rewrite HTlyo in *.
      pose proof (abstract_image_view ly lyo ko po Hly Hslot a av Hav) as Himgview.
      destruct (all_some_rel2 (elem_view lyo) (elem_view lyo) (elem_rel lyo) velem_equiv _ (lay_elems l') av (elem_rel_view lyo) G6 Himgview) as [ev' [Hev' Hequiv]].
      exists c', l', [], av, ev'. split; [exact Hin'|].
      rewrite G3. cbn [c_name c_layout]. split; [reflexivity|]. split; [reflexivity|].
      split; [unfold cell_view; rewrite El0, Ea, Hav; reflexivity|].
      split; [unfold cell_view; cbn [c_layout]; rewrite Hnil, Hev'; reflexivity|exact Hequiv].
  - cbn [lib_layers]. rewrite Hl'. unfold Tf, tbl, tblf. fold cells.
    replace (existsb (is_abs cells) outn) with (existsb is_abstract_only cells); [reflexivity|].
    apply Bool.eq_iff_eq_true. rewrite !existsb_exists. split.
    + intros [c0 [Hin Ha]]. apply In_nth_error in Hin as [k Hk]. exists k. split; [apply Hcover; apply nth_error_Some; congruence|].
      unfold is_abs. rewrite Hk. exact Ha.
    + intros [k [_ Ha]]. unfold is_abs in Ha. destruct (nth_error cells k) as [c0|] eqn:Hk; [|discriminate].
      exists c0. split; [eapply nth_error_In; exact Hk|exact Ha].
  - cbn [lib_layers lib_cells]. intros c0 a Hc0 Hao. apply In_nth_error in Hc0 as [k Hk]. change (lib_cells L) with cells in Hk.
    unfold abstract_only in Hao. destruct (c_layout c0) as [l0|] eqn:El0; [discriminate|].
    destruct (Hback k c0 Hk) as (c' & l & l' & Hin' & G2 & G3 & G4 & G5 & G6 & G7).
    unfold conv in G2. rewrite El0, Hao in G2. cbn [c_layout] in G2. injection G2 as <-.
    unfold expect, expectf in G6. rewrite Hk, El0, Hao in G6. cbn [abs_pre lay_insts] in G5. assert (Hnil : lay_insts l' = []) by (destruct (lay_insts l'); [reflexivity|inversion G5]).
    destruct (Habs k c0 a Hk El0 Hao) as [_ [av [Hav _]]].
    assert (HTlyo : Tf = lyo) by (apply (Habs_tf k c0 Hk); unfold is_abstract_only, abstract_only; rewrite El0, Hao; reflexivity).
    rewrite Hl', HTlyo in *.
    pose proof (abstract_image_view ly lyo ko po Hly Hslot a av Hav) as Himgview.
    destruct (all_some_rel2 (elem_view lyo) (elem_view lyo) (elem_rel lyo) velem_equiv _ (lay_elems l') av (elem_rel_view lyo) G6 Himgview) as [ev' [Hev' Hequiv]].
    exists (mkcell (c_name c0) None (Some l')), l'. split; [rewrite <- G3; exact Hin'|]. cbn [c_name c_abs c_layout].
    split; [reflexivity|]. split; [reflexivity|]. split; [reflexivity|].
    unfold layout_content_equiv. cbn [lay_name lay_insts lay_elems lay_annots]. split; [exact G4|]. split.
    + exists []. rewrite Hnil. split; reflexivity.
    + split; [|exact G7]. exists av, ev'. split; [exact Himgview|]. split; [exact Hev'|exact Hequiv].
Qed.


(** * 11. What the exporter does NOT carry over, and where it fails *)
(** blockages are not exported: two abstracts that differ in their blockages only give one struct *)
Lemma blockages_not_exported cfg ly n o p b b' :
  export_abstract cfg ly (mkabstract n o p b) = export_abstract cfg ly (mkabstract n o p b').
Proof. reflexivity. Qed.

(** a cell with both views is exported by its layout; the abstract plays no part *)
Lemma both_views_layout_wins cfg ly cells n a a' l :
  export_cell cfg ly cells (mkcell n a (Some l)) = export_cell cfg ly cells (mkcell n a' (Some l)).
Proof. reflexivity. Qed.

(** an abstract whose outline has no point: `abs.outline.points[0]` panics *)
Lemma empty_outline_panics cfg ly a : ab_outline a = [] -> export_abstract cfg ly a = Panic.
Proof. intros H. unfold export_abstract. rewrite H. reflexivity. Qed.

(** a port with an entry (even one without shapes) on a layer that lacks a Drawing, a Pin or a Label
    number: the export is not Ok (an `Err`, unless something fails before it) *)
Lemma port_needs_purposes cfg ly a p e :
  In p (ab_ports a) -> In e (ap_shapes p) ->
  resolves ly (fst e) Drawing && resolves ly (fst e) Pin && resolves ly (fst e) Label = false ->
  forall s, export_abstract cfg ly a <> Ok s.
Proof.
  intros Hp He Hres s H. unfold export_abstract in H. obind_inv H. destruct (ab_outline a); [discriminate|].
  obind_inv H. obind_inv H. apply concat_res_inv in E1 as [rs [Hrs _]].
  destruct (Forall2_in_l _ _ _ p Hrs Hp) as [y [_ Hy]]. unfold export_abstract_port in Hy.
  apply concat_res_inv in Hy as [rs' [Hrs' _]].
  assert (Hin : In e (sorted_by_layer (ap_shapes p))) by (rewrite sorted_by_key; apply by_key_in; exact He).
  destruct (Forall2_in_l _ _ _ e Hrs' Hin) as [y' [_ Hy']]. unfold export_port_layer in Hy'.
  obind_inv Hy'. obind_inv Hy'. obind_inv Hy'. apply layerspec_resolve in E1, E2, E3.
  unfold resolves in Hres. rewrite E1, E2, E3 in Hres. discriminate.
Qed.
(** and when the outline is in range and that port is the only one the failure is an error *)
Lemma port_needs_purposes_err ly n o e net :
  o <> [] -> forallb point_i32b o = true ->
  resolves ly (fst e) Drawing && resolves ly (fst e) Pin && resolves ly (fst e) Label = false ->
  exists x, export_abstract xcfg_fixed ly (mkabstract n o [mkabsport net [e]] []) = Err x.
Proof.
  intros Hne Hpts Hres. unfold export_abstract. cbn [ab_outline ab_ports ab_name]. rewrite (export_points_ok _ Hpts). cbn [obind].
  destruct o as [|p0 r]; [congruence|]. cbn [forallb] in Hpts. apply andb_prop in Hpts as [H0 _]. rewrite (export_point_ok _ H0). cbn [obind].
  cbn [map concat_res]. unfold export_abstract_port. cbn [ap_shapes ap_net sorted_by_layer fold_right insert_entry map concat_res].
  unfold export_port_layer, export_layerspec. unfold resolves, resolve_lp in Hres.
  destruct (ly_get ly (fst e)) as [l|]; [|eexists; reflexivity].
  destruct (layer_pnum l Drawing); [|eexists; reflexivity]. cbn [obind].
  destruct (layer_pnum l Pin); [|eexists; reflexivity]. cbn [obind].
  destruct (layer_pnum l Label); [discriminate|eexists; reflexivity].
Qed.

(** * 12. The executable oracle of the correspondence run implies the specification *)
Lemma layout_content_equivb_sound ly cells l l' : layout_content_equivb ly cells l l' = true -> layout_content_equiv ly cells l l'.
Proof.
  unfold layout_content_equivb, layout_content_equiv. intros H.
  apply andb_prop in H as [H H4]. apply andb_prop in H as [H H3]. apply andb_prop in H as [H1 H2].
  split; [apply String.eqb_eq; exact H1|]. split; [|split].
  - destruct (all_some (map (inst_view cells) (lay_insts l))) as [iv|]; [|discriminate].
    destruct (all_some (map (inst_view cells) (lay_insts l'))) as [iv'|]; [|discriminate].
    apply (forall2b_eq _ vinst_eqb_eq) in H2. subst iv'. exists iv. split; reflexivity.
  - destruct (all_some (map (elem_view ly) (lay_elems l))) as [ev|]; [|discriminate].
    destruct (all_some (map (elem_view ly) (lay_elems l'))) as [ev'|]; [|discriminate].
    exists ev, ev'. split; [reflexivity|]. split; [reflexivity|]. exact (forall2b_Forall2 _ _ velem_equivb_sound _ _ H3).
  - destruct (lay_annots l'); [reflexivity|discriminate].
Qed.

Theorem abstract_cells_okb_sound L L' :
  abstract_cells_okb L L' = true ->
  forall c0 a, In c0 (lib_cells L) -> abstract_only c0 = Some a ->
    exists c' l', In c' (lib_cells L') /\ c_name c' = c_name c0 /\ c_abs c' = None /\ c_layout c' = Some l' /\
                  layout_content_equiv (lib_layers L') (lib_cells L') (abstract_image (lib_layers L) a) l'.
Proof.
  unfold abstract_cells_okb. intros H c0 a Hc0 Ha. rewrite forallb_forall in H. specialize (H c0 Hc0). rewrite Ha in H.
  unfold abstract_cell_okb in H. apply existsb_exists in H as [c' [Hc' H]]. apply andb_prop in H as [Hn H].
  destruct (c_abs c') eqn:Eab; [discriminate|]. destruct (c_layout c') as [l'|] eqn:El; [|discriminate].
  exists c', l'. split; [exact Hc'|]. split; [apply String.eqb_eq; exact Hn|]. split; [exact Eab|]. split; [exact El|].
  apply layout_content_equivb_sound. exact H.
Qed.

(** * 13. The layer table after the round trip: unchanged when every cell has a layout, and in any case
    one of the three forms of [outline_table_cases] *)
Lemma table_after_all_layouts L : all_layouts L -> table_after L = lib_layers L.
Proof.
  unfold all_layouts, table_after. intros H.
  replace (existsb is_abstract_only (lib_cells L)) with false; [reflexivity|]. symmetry.
  apply not_true_is_false. intros Hx. apply existsb_exists in Hx as [c0 [Hc0 Ha]].
  rewrite forallb_forall in H. specialize (H c0 Hc0). unfold has_layout in H. unfold is_abstract_only, abstract_only in Ha.
  destruct (c_layout c0); discriminate.
Qed.

Lemma abstract_image_view_spec ly a av :
  layers_okb ly = true -> outline_slot_okb ly = true -> abstract_view ly a = Some av ->
  all_some (map (elem_view (outline_table ly)) (lay_elems (abstract_image ly a))) = Some av.
Proof.
  intros Hly Hs Hav. unfold abstract_image. cbn [lay_elems].
  exact (abstract_image_view ly _ _ _ Hly (outline_slot_props ly Hly Hs) a av Hav).
Qed.

Lemma export_abstract_as_layout ly cells a s :
  layers_okb ly = true -> outline_slot_okb ly = true ->
  export_abstract xcfg_fixed ly a = Ok s ->
  export_layout xcfg_fixed (outline_table ly) cells (abs_pre (outline_key ly) (outline_purpose ly) a) = Ok s.
Proof. intros Hly Hs H. exact (export_abstract_pre ly _ _ _ Hly (outline_slot_props ly Hly Hs) cells a s H). Qed.
