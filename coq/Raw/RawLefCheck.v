(** Executable checks used by the correspondence run of C16 (tools/props/c16.py).
    Result codes: 0 = impl agrees with the (repaired) model and the property holds on the impl's
    output; 1 = impl differs from the model, property still holds on the impl's output (or is
    silent); 2 = the property fails on the impl's output.  No proofs here. *)
From Coq Require Import ZArith Bool List String.
From L21 Require Import Base.Outcome Raw.RawLefDec Raw.RawLefTypes Raw.RawLef Raw.RawLefSpec.
Import ListNotations.
Local Open Scope Z_scope.

(** What the harness reports for [LefImporter::import]. *)
Inductive ires : Type :=
| IOk (name : string) (units : Z)       (* Units: 0 Micro, 1 Nano, 2 Angstrom, 3 Pico *)
      (cells : list (string * bool * option abstract))   (* cell name, has a layout, abstract *)
      (L : layers)
| IErr (e : ekind)
| IPanic.

(** The caller's layer table, built the way the harness builds it: [Layers::add] in order. *)
Definition layers_of_list (l : list (Z * option string)) : layers :=
  fold_left (fun L e => snd (layers_add (mklayer (fst e) (snd e)) L)) l layers_empty.
Definition layers0 (l : option (list (Z * option string))) : option layers :=
  match l with Some x => Some (layers_of_list x) | None => None end.

Definition ekind_code (e : ekind) : Z :=
  match e with
  | EFract => 1 | ERange => 2 | ENoSize => 3 | ENoWidth => 4 | EExceptPg => 5
  | ESpacing => 6 | EIterate => 7 | ECaseInsens => 8 | ENoLayerNum => 9 | EOther => 10
  end.

Definition smap_eqb (M1 M2 : smap) : bool :=
  Nat.eqb (List.length M1) (List.length M2) &&
  forallb (fun e => match nlookup (fst e) M2 with
                    | Some sh' => list_eqb shape_eqb (snd e) sh'
                    | None => false
                    end) M1.
Definition aport_eqb (a b : aport) : bool :=
  String.eqb (ap_net a) (ap_net b) && smap_eqb (ap_shapes a) (ap_shapes b).
Definition abstract_eqb (a b : abstract) : bool :=
  String.eqb (a_name a) (a_name b) &&
  list_eqb point_eqb (a_outline a) (a_outline b) &&
  list_eqb aport_eqb (a_ports a) (a_ports b) &&
  smap_eqb (a_blockages a) (a_blockages b).
Definition layer_eqb (a b : layer) : bool :=
  (ly_num a =? ly_num b) && ostring_eqb (ly_name a) (ly_name b).
Definition onat_eqb (a b : option nat) : bool :=
  match a, b with Some x, Some y => Nat.eqb x y | None, None => true | _, _ => false end.
Definition layers_eqb (L I : layers) : bool :=
  list_eqb layer_eqb (l_slots L) (l_slots I) &&
  Nat.eqb (List.length (l_nums L)) (List.length (l_nums I)) &&
  forallb (fun e => onat_eqb (zlookup (fst e) (l_nums L)) (Some (snd e))) (l_nums I) &&
  Nat.eqb (List.length (l_names L)) (List.length (l_names I)) &&
  forallb (fun e => onat_eqb (slookup (fst e) (l_names L)) (Some (snd e))) (l_names I).

(** [Cell::from(abs)]: the abstract's name, the abstract, no layout. *)
Definition cell_eqb (a : abstract) (c : string * bool * option abstract) : bool :=
  match c with
  | (cn, has_layout, Some ia) => String.eqb cn (a_name a) && negb has_layout && abstract_eqb a ia
  | _ => false
  end.

Definition model_eqb (v : variant) (l0 : option (list (Z * option string))) (lib : llib) (r : ires) : bool :=
  match import_gen v lib (layers0 l0), r with
  | Ok (cells, L), IOk nm u icells IL =>
      String.eqb nm EmptyString && (u =? 2) && forall2b cell_eqb cells icells && layers_eqb L IL
  | Err e, IErr e' => ekind_code e =? ekind_code e'
  | Panic, IPanic => true
  | _, _ => false
  end.

(** Enough free layer numbers for every layer statement plus "boundary" (conservative). *)
Definition count_lgs (lib : llib) : nat :=
  fold_right (fun m n => (List.length (List.concat (List.concat (map pin_ports (m_pins m))))
                          + List.length (m_obs m) + n)%nat) O (lib_macros lib).
Definition layers_room (l0 : option (list (Z * option string))) (lib : llib) : bool :=
  Nat.leb (match l0 with Some x => List.length x | None => O end + 1 + count_lgs lib) 32000.

Definition prop_okb (l0 : option (list (Z * option string))) (lib : llib) (r : ires) : bool :=
  match r with
  | IOk _ u icells IL =>
      (u =? 2) &&
      forall2b (fun m c =>
                  match c with
                  | (cn, has_layout, Some a) =>
                      String.eqb cn (m_name m) && negb has_layout && spec_abstractb IL m a
                  | _ => false
                  end) (lib_macros lib) icells
  | IErr _ | IPanic => negb (lib_demands_success lib && layers_room l0 lib)
  end.

Definition code (prop_ok model_eq : bool) : Z :=
  if negb prop_ok then 2 else if model_eq then 0 else 1.

Definition c16_check (l0 : option (list (Z * option string))) (lib : llib) (r : ires) : Z :=
  code (prop_okb l0 lib r) (model_eqb repaired l0 lib r).

(** Diagnostic: 0 when the impl's output is what the model of the code AS FOUND computes. *)
Definition c16_check_orig (l0 : option (list (Z * option string))) (lib : llib) (r : ires) : Z :=
  if model_eqb original l0 lib r then 0 else 1.

(** op "dec": the rust_decimal operations one by one.  [r] = None when [checked_mul] overflowed,
    else (product, fract().is_zero(), mantissa(), trunc(), trunc().mantissa(), == ZERO). *)
Definition dec_repr_eqb (a b : dec) : bool :=
  Bool.eqb (dneg a) (dneg b) && (dmant a =? dmant b) && Nat.eqb (dscale a) (dscale b).
Definition c16_check_dec (d : dec) (r : option (dec * bool * Z * dec * Z * bool)) : Z :=
  match @dec_mul_10000 unit d, r with
  | Ok s, Some (p, fz, mant, tr, trmant, isz) =>
      if dec_repr_eqb s p && Bool.eqb (dec_fract_is_zero s) fz && (dec_mantissa s =? mant)
         && (dmant (dec_trunc s) =? dmant tr) && Nat.eqb (dscale tr) 0
         && (dec_mantissa (dec_trunc s) =? trmant) && Bool.eqb (dec_is_zero d) isz
      then 0 else 1
  | Panic, None => 0
  | _, _ => 1
  end.
