(** C07, abstract views -- executable oracle for the correspondence run (tools/props/c07.py).
    The harness builds the raw library [L], calls `to_gds` ([gres]) and `from_gds(gds, Some(L.layers))`
    ([rres]).  For a library in the input space ([exportable_absb]) whose emitted texts are unambiguous
    the re-imported library [L'] is JUDGED, on the implementation's output, by the specification of
    Raw/RawGdsAbstractSpec.v:
      - every abstract-only cell of [L] is found by name in [L'] as a cell without abstract whose layout
        is, as content, [abstract_image] of the abstract ([abstract_cells_okb]);
      - the layer table of [L'] is [table_after L]: the table of [L], grown by the outline slot exactly
        when an abstract-only cell was exported ([table_sameb]; the implementation's table is observed
        through `Layer::purpose(n)` for a set of probe numbers that contains every registered number
        and 32767, so tables are compared by what they answer, not by the order of their pairs).
    [c07_abstract_check]: 0 = judged, holds, an abstract-only cell is present; 1 = judged, holds, no
    abstract-only cell (only the table statement is non-trivial); 2 = the property fails on the
    implementation's output; 10 = not judged (outside the input space, ambiguous texts, or no re-import
    to judge: the main check [c07_check] decides those).  No proofs here. *)
From Coq Require Import ZArith List String Bool.
From L21 Require Import Base.Outcome Raw.RawData Raw.RawGdsExport Raw.RawGdsExportSpec Raw.RawGdsExportCheck Raw.RawGdsAbstractSpec.
From L21 Require Gds.GdsData.
Import ListNotations.
Local Open Scope Z_scope.

Definition abstract_cell_okb (L L' : library) (c0 : cell) (a : abstract) : bool :=
  existsb (fun c' =>
    String.eqb (c_name c') (c_name c0) &&
    match c_abs c', c_layout c' with
    | None, Some l' => layout_content_equivb (lib_layers L') (lib_cells L') (abstract_image (lib_layers L) a) l'
    | _, _ => false
    end) (lib_cells L').
Definition abstract_cells_okb (L L' : library) : bool :=
  forallb (fun c0 => match abstract_only c0 with
                     | Some a => abstract_cell_okb L L' c0 a
                     | None => true
                     end) (lib_cells L).

(** two layers answer alike: same number and name; every pair the observation shows is what the
    expected layer answers, and every number registered in the expected layer is answered alike *)
Definition opurpose_eqb (a b : option purpose) : bool :=
  match a, b with
  | None, None => true
  | Some x, Some y => purpose_eqb x y
  | _, _ => false
  end.
Definition layer_sameb (expd obs : layer) : bool :=
  (l_num obs =? l_num expd) && ostring_eqb (l_name obs) (l_name expd) &&
  forallb (fun np => opurpose_eqb (layer_purpose expd (fst np)) (layer_purpose obs (fst np))) (l_pairs obs) &&
  forallb (fun np => opurpose_eqb (layer_purpose expd (fst np)) (layer_purpose obs (fst np))) (l_pairs expd).
Definition table_sameb (expd obs : layers) : bool := forall2b layer_sameb expd obs.

Definition c07_abstract_check (L : library) (gr : gres) (rr : rres) : Z :=
  match gr, rr with
  | GOk g, ROk L' =>
    if exportable_absb L && per_cell texts_unambiguous_cell L g then
      if abstract_cells_okb L L' && table_sameb (table_after L) (lib_layers L') then
        (if existsb is_abstract_only (lib_cells L) then 0 else 1)
      else 2
    else 10
  | _, _ => 10
  end.
