(** C07 -- the exporter model (Raw/RawGdsExport.v) composed with the importer model (Raw/RawGds.v,
    property C06): what the importer makes of what the exporter wrote. *)
From Coq Require Import ZArith List String Bool Lia.
From L21 Require Import Base.Outcome Base.F64 Raw.RawData Raw.RawGdsExport Raw.RawGdsExportSpec Raw.RawGdsExport_proofs.
From L21 Require Gds.GdsData Geom.Contains Geom.ContainsSpec Raw.RawGds.
Import ListNotations.
Local Open Scope Z_scope.
Module RG := Raw.RawGds.


Lemma import_gp p : RG.import_point (gp p) = p.
Proof. destruct p; reflexivity. Qed.
Lemma map_import_gp ps : map RG.import_point (map gp ps) = ps.
Proof. induction ps as [|p r IH]; cbn [map]; [reflexivity|rewrite import_gp, IH; reflexivity]. Qed.
Lemma pt_eqb_refl p : RG.pt_eqb p p = true.
Proof. unfold RG.pt_eqb. rewrite !Z.eqb_refl. reflexivity. Qed.
Lemma last_app1 {A} (l : list A) x d : last (l ++ [x]) d = x.
Proof. apply last_last. Qed.
Lemma removelast_app1 {A} (l : list A) x : removelast (l ++ [x]) = l.
Proof. rewrite removelast_app; [cbn; apply app_nil_r|discriminate]. Qed.

(* importing an exported polygon boundary *)
Lemma import_exported_polygon c ly p0 ps n x :
  exists s', RG.import_boundary c ly (GdsData.mkBoundary n x (map gp (p0 :: ps) ++ [gp p0]) None None [])
             = RG.IOk (RG.mk_element ly n x s') /\ shape_equiv (Polygon (p0 :: ps)) s'.
Proof.
  unfold RG.import_boundary. cbn [GdsData.b_xy GdsData.b_layer GdsData.b_datatype].
  rewrite map_app, map_import_gp. cbn [map]. rewrite import_gp.
  cbn [app]. 
  assert (Hl : last (p0 :: ps ++ [p0]) p0 = p0) by (change (p0 :: ps ++ [p0]) with ((p0 :: ps) ++ [p0]); apply last_app1).
  rewrite Hl, pt_eqb_refl. cbn [negb].
  change (p0 :: ps ++ [p0]) with ((p0 :: ps) ++ [p0]). rewrite removelast_app1.
  destruct ps as [|b [|c0 [|d [|e r]]]]; try (eexists; split; [reflexivity|reflexivity]).
  destruct (RG.rect_pattern p0 b c0 d) eqn:E.
  - eexists; split; [reflexivity|]. unfold shape_equiv. cbn [shape_norm].
    change (axis_parallel4 p0 b c0 d) with (RG.rect_pattern p0 b c0 d). rewrite E. reflexivity.
  - eexists; split; [reflexivity|reflexivity].
Qed.

Lemma import_exported_rect c ly p0 p1 n x :
  RG.import_boundary c ly (GdsData.mkBoundary n x
     [gp p0; GdsData.mkPt (px p1) (py p0); gp p1; GdsData.mkPt (px p0) (py p1); gp p0] None None [])
  = RG.IOk (RG.mk_element ly n x (Rect p0 p1)).
Proof.
  unfold RG.import_boundary. cbn [GdsData.b_xy GdsData.b_layer GdsData.b_datatype map].
  rewrite !import_gp. cbn [last removelast]. rewrite pt_eqb_refl. cbn [negb].
  unfold RG.rect_pattern, RG.import_point. cbn [GdsData.px GdsData.py px py].
  rewrite !Z.eqb_refl. cbn [andb orb]. rewrite orb_true_r. reflexivity.
Qed.

Lemma import_exported_path c ly ps w n x :
  (2 <= List.length ps)%nat -> 0 <= w ->
  RG.import_path c ly (GdsData.mkPath n x (map gp ps) (Some w) None None None None None [])
  = RG.IOk (RG.mk_element ly n x (Path ps w)).
Proof.
  intros Hl Hw. unfold RG.import_path. cbn [GdsData.p_xy GdsData.p_width GdsData.p_layer GdsData.p_datatype].
  rewrite map_import_gp. destruct ps as [|a r]; [cbn in Hl; lia|].
  destruct (w <? 0) eqn:E; [apply Z.ltb_lt in E; lia|]. reflexivity.
Qed.

(* instances *)
Lemma bytes_str_roundtrip s : RG.str_of_bytes (bytes_of_string s) = s.
Proof.
  induction s as [|a r IH]; [reflexivity|]. cbn [bytes_of_string]. unfold RG.str_of_bytes in *. cbn [fold_right].
  rewrite IH, N2Z.id, Ascii.ascii_N_embedding. reflexivity.
Qed.

(** * The layer table is left unchanged *)
Lemma keynum_distinct : forall ly k l,
  layer_nums_distinctb ly = true -> nth_error ly k = Some l -> ly_keynum ly (l_num l) = Some k.
Proof.
  induction ly as [|l0 r IH]; intros k l Hd Hk; [destruct k; discriminate|].
  unfold layer_nums_distinctb in Hd. cbn [map z_nodupb] in Hd. apply andb_prop in Hd as [Hn Hd].
  apply negb_true_iff in Hn.
  cbn [ly_keynum]. destruct k as [|k]; cbn [nth_error] in Hk.
  - injection Hk as <-.
    destruct (ly_keynum r (l_num l0)) as [k'|] eqn:E.
    + exfalso. destruct (keynum_some _ _ _ E) as [l' [Hl' Hn']].
      assert (Hex : existsb (Z.eqb (l_num l0)) (map l_num r) = true).
      { apply existsb_exists. exists (l_num l'). split; [apply in_map; eapply nth_error_In; exact Hl'|]. apply Z.eqb_eq. symmetry. exact Hn'. }
      rewrite Hex in Hn. discriminate.
    + rewrite Z.eqb_refl. reflexivity.
  - rewrite (IH k l Hd Hk). reflexivity.
Qed.

(** with pairwise distinct layer numbers and consistent layers the importer finds, for the numbers the
    exporter wrote, the layer itself and a registered purpose: the table is left as it is *)
Lemma goi_unchanged ly k p n x :
  layer_nums_distinctb ly = true ->
  resolve_lp ly k p = Some (n, x) ->
  exists p', get_or_insert ly n x = (ly, k, p').
Proof.
  intros Hd Hr. unfold resolve_lp, ly_get in Hr.
  destruct (nth_error ly k) as [l|] eqn:Hl; [|discriminate].
  destruct (layer_pnum l p) as [x'|] eqn:Hp; [|discriminate]. injection Hr as <- <-.
  unfold get_or_insert. rewrite (keynum_distinct _ _ _ Hd Hl). unfold ly_get. rewrite Hl.
  unfold layer_pnum in Hp. destruct (find_last (fun np => purpose_eqb (snd np) p) (l_pairs l)) as [np|] eqn:F; [|discriminate].
  cbn in Hp. injection Hp as <-. destruct (find_last_some _ _ _ F) as [Hin _].
  destruct (layer_purpose l (fst np)) as [p'|] eqn:Hq.
  - exists p'. reflexivity.
  - exfalso. unfold layer_purpose in Hq.
    destruct (find_last (fun np0 => fst np0 =? fst np) (l_pairs l)) eqn:G; [discriminate|].
    pose proof (find_last_none _ _ G np Hin) as Hc. cbv beta in Hc. rewrite Z.eqb_refl in Hc. discriminate.
Qed.

(** * buckets *)
Fixpoint positions (P : element -> bool) (E : list element) (start : nat) : list nat :=
  match E with
  | [] => []
  | e :: r => if P e then start :: positions P r (S start) else positions P r (S start)
  end.
Lemma positions_app P E F s : positions P (E ++ F) s = positions P E s ++ positions P F (s + List.length E)%nat.
Proof.
  revert s; induction E as [|e r IH]; intros s; cbn [app positions List.length].
  - rewrite Nat.add_0_r. reflexivity.
  - rewrite IH. replace (S s + Datatypes.length r)%nat with (s + S (Datatypes.length r))%nat by lia.
    destruct (P e); reflexivity.
Qed.

Lemma bucket_get_add B n k m :
  RG.bucket_get (RG.bucket_add B n k) m =
  if m =? n then Some (match RG.bucket_get B n with Some ks => ks ++ [k] | None => [k] end)
  else RG.bucket_get B m.
Proof.
  induction B as [|[n' ks] r IH]; cbn [RG.bucket_add RG.bucket_get].
  - destruct (Z.eqb_spec n m), (Z.eqb_spec m n); try reflexivity; congruence.
  - destruct (Z.eqb_spec n' n) as [->|Hn]; cbn [RG.bucket_get].
    + destruct (Z.eqb_spec n m), (Z.eqb_spec m n); try reflexivity; congruence.
    + rewrite IH. destruct (Z.eqb_spec n' m), (Z.eqb_spec m n); try reflexivity; congruence.
Qed.

Section Buckets.
  Variable enum : element -> Z.
  Definition on_num (n : Z) (e : element) : bool := enum e =? n.
  Definition Binv (B : list (Z * list nat)) (E : list element) : Prop :=
    forall n, RG.bucket_get B n = match positions (on_num n) E 0 with [] => None | ks => Some ks end.
  Lemma Binv_nil : Binv [] [].
  Proof. intros n. reflexivity. Qed.
  Lemma Binv_add B E e : Binv B E -> Binv (RG.bucket_add B (enum e) (List.length E)) (E ++ [e]).
  Proof.
    intros H n. rewrite bucket_get_add, positions_app. cbn [positions]. unfold on_num at 2. cbn [Nat.add].
    rewrite (Z.eqb_sym (enum e) n).
    destruct (n =? enum e) eqn:F.
    - apply Z.eqb_eq in F. subst n. rewrite H. destruct (positions (on_num (enum e)) E 0); reflexivity.
    - rewrite app_nil_r. apply H.
  Qed.
End Buckets.

(** * label_bucket and pass2 as maps *)
Definition cont (c : RG.cfg) (loc : point) (e : element) : bool :=
  match RG.shape_contains c (e_shape e) loc with RG.IOk b => b | _ => false end.
Definition cont_ok (c : RG.cfg) (loc : point) (e : element) : Prop :=
  exists b, RG.shape_contains c (e_shape e) loc = RG.IOk b.
Definition setnet (name : string) (e : element) : element :=
  match e_net e with Some _ => e | None => mkelem (Some name) (e_layer e) (e_purpose e) (e_shape e) end.

Lemma list_set_mid {A} (pre : list A) x y suf : list_set (pre ++ x :: suf) (List.length pre) y = pre ++ y :: suf.
Proof. induction pre as [|a r IH]; cbn; [reflexivity|rewrite IH; reflexivity]. Qed.
Lemma nth_mid {A} (pre : list A) x suf : nth_error (pre ++ x :: suf) (List.length pre) = Some x.
Proof. induction pre as [|a r IH]; cbn; [reflexivity|exact IH]. Qed.

Section Pass2.
  Variable c : RG.cfg.
  Variable P : element -> bool.
  Hypothesis P_setnet : forall nm e, P (setnet nm e) = P e.

  Definition upd (name : string) (loc : point) (e : element) : element :=
    if P e && cont c loc e then setnet name e else e.

  Lemma label_bucket_map name loc : forall suf pre hit,
    Forall (cont_ok c loc) suf ->
    RG.label_bucket c name loc (pre ++ suf) hit (positions P suf (List.length pre)) =
    RG.IOk (pre ++ map (upd name loc) suf, hit || existsb (fun e => P e && cont c loc e) suf).
  Proof.
    induction suf as [|e r IH]; intros pre hit Hok; cbn [positions map existsb].
    - cbn [RG.label_bucket]. rewrite orb_false_r. reflexivity.
    - inversion Hok as [|? ? [b Hb] Hr]; subst.
      unfold upd at 1. unfold cont at 1 2. rewrite Hb.
      destruct (P e) eqn:Pe; cbn [andb].
      + cbn [RG.label_bucket]. rewrite nth_mid. rewrite Hb. cbn [RG.ibind].
        destruct b.
        * rewrite list_set_mid.
          replace (pre ++ (match e_net e with Some _ => e | None => mkelem (Some name) (e_layer e) (e_purpose e) (e_shape e) end) :: r)
            with ((pre ++ [setnet name e]) ++ r) by (rewrite <- app_assoc; reflexivity).
          replace (S (Datatypes.length pre)) with (Datatypes.length (pre ++ [setnet name e])) by (rewrite app_length; cbn; lia).
          rewrite (IH _ _ Hr). rewrite <- app_assoc. cbn [app orb]. rewrite orb_true_r. reflexivity.
        * replace (pre ++ e :: r) with ((pre ++ [e]) ++ r) by (rewrite <- app_assoc; reflexivity).
          replace (S (Datatypes.length pre)) with (Datatypes.length (pre ++ [e])) by (rewrite app_length; cbn; lia).
          rewrite (IH _ _ Hr). rewrite <- app_assoc. reflexivity.
      + replace (pre ++ e :: r) with ((pre ++ [e]) ++ r) by (rewrite <- app_assoc; reflexivity).
        replace (S (Datatypes.length pre)) with (Datatypes.length (pre ++ [e])) by (rewrite app_length; cbn; lia).
        rewrite (IH _ _ Hr). rewrite <- app_assoc. reflexivity.
  Qed.
End Pass2.

Section Pass2All.
  Variable c : RG.cfg.
  Variable enum : element -> Z.
  Hypothesis enum_setnet : forall nm e, enum (setnet nm e) = enum e.

  Definition tloc (t : GdsData.textelem) : point := RG.import_point (GdsData.t_xy t).
  Definition tname (t : GdsData.textelem) : string := RG.lower (RG.str_of_bytes (GdsData.t_string t)).
  Definition hits (t : GdsData.textelem) (e : element) : bool :=
    on_num enum (GdsData.t_layer t) e && cont c (tloc t) e.
  Definition upd_t (t : GdsData.textelem) (e : element) : element :=
    if hits t e then setnet (tname t) e else e.

  Lemma setnet_shape nm e : e_shape (setnet nm e) = e_shape e.
  Proof. unfold setnet. destruct (e_net e); reflexivity. Qed.
  Lemma setnet_layer nm e : e_layer (setnet nm e) = e_layer e.
  Proof. unfold setnet. destruct (e_net e); reflexivity. Qed.
  Lemma upd_t_shape t e : e_shape (upd_t t e) = e_shape e.
  Proof. unfold upd_t. destruct (hits t e); [apply setnet_shape|reflexivity]. Qed.
  Lemma upd_t_enum t e : enum (upd_t t e) = enum e.
  Proof. unfold upd_t. destruct (hits t e); [apply enum_setnet|reflexivity]. Qed.
  Lemma hits_upd t u e : hits t (upd_t u e) = hits t e.
  Proof. unfold hits, on_num, cont. rewrite upd_t_enum, upd_t_shape. reflexivity. Qed.

  Lemma positions_map_upd n u E s : positions (on_num enum n) (map (upd_t u) E) s = positions (on_num enum n) E s.
  Proof.
    revert s; induction E as [|e r IH]; intros s; cbn [map positions]; [reflexivity|].
    rewrite IH. replace (on_num enum n (upd_t u e)) with (on_num enum n e); [reflexivity|].
    unfold on_num. rewrite upd_t_enum. reflexivity.
  Qed.
  Lemma Binv_map_upd B E u : Binv enum B E -> Binv enum B (map (upd_t u) E).
  Proof. intros H n. rewrite positions_map_upd. apply H. Qed.
  Lemma cont_ok_map_upd loc u E : Forall (cont_ok c loc) E -> Forall (cont_ok c loc) (map (upd_t u) E).
  Proof.
    intros H. apply Forall_map. eapply Forall_impl; [|exact H]. intros e [b Hb]. exists b.
    rewrite upd_t_shape. exact Hb.
  Qed.
  Lemma existsb_hits_map t u E : existsb (hits t) (map (upd_t u) E) = existsb (hits t) E.
  Proof. induction E as [|e r IH]; cbn [map existsb]; [reflexivity|rewrite hits_upd, IH; reflexivity]. Qed.

  Definition annot_of (t : GdsData.textelem) : textelem := mktext (RG.str_of_bytes (GdsData.t_string t)) (tloc t).

  (** one step of pass2 *)
  Lemma positions_none_no_hit n E : positions (on_num enum n) E 0 = [] -> forall e, In e E -> on_num enum n e = false.
  Proof.
    generalize 0%nat. induction E as [|e r IH]; intros s H x Hx; [destruct Hx|].
    cbn [positions] in H. destruct (on_num enum n e) eqn:F; [discriminate|].
    destruct Hx as [<-|Hx]; [exact F|eapply IH; eassumption].
  Qed.

  Lemma pass2_map B : forall T E annots,
    Binv enum B E ->
    (forall t, In t T -> Forall (cont_ok c (tloc t)) E) ->
    RG.pass2 c B E annots T =
    RG.IOk (fold_left (fun E t => map (upd_t t) E) T E,
            annots ++ map annot_of (filter (fun t => negb (existsb (hits t) E)) T)).
  Proof.
    induction T as [|t r IH]; intros E annots HB Hok; cbn [RG.pass2 fold_left filter map].
    - rewrite app_nil_r. reflexivity.
    - assert (Hok_t := Hok t (or_introl eq_refl)).
      assert (Hok_r : forall u, In u r -> Forall (cont_ok c (tloc u)) (map (upd_t t) E)).
      { intros u Hu. apply cont_ok_map_upd. apply Hok. right. exact Hu. }
      rewrite HB. fold (tloc t).
      destruct (positions (on_num enum (GdsData.t_layer t)) E 0) as [|k ks] eqn:Epos.
      + (* no element on that layer number *)
        assert (Hno : forall e, In e E -> hits t e = false).
        { intros e He. unfold hits. rewrite (positions_none_no_hit _ _ Epos e He). reflexivity. }
        assert (Hmap : map (upd_t t) E = E).
        { rewrite <- (map_id E) at 2. apply map_ext_in. intros e He. unfold upd_t. rewrite (Hno e He). reflexivity. }
        assert (Hex : existsb (hits t) E = false).
        { apply not_true_is_false. intros Hx. apply existsb_exists in Hx as [e [He Hh]]. rewrite (Hno e He) in Hh. discriminate. }
        rewrite Hex. cbn [negb map]. rewrite Hmap. rewrite Hmap in Hok_r.
        rewrite (IH E _ HB Hok_r). rewrite <- app_assoc. reflexivity.
      + rewrite <- Epos.
        pose proof (label_bucket_map c (on_num enum (GdsData.t_layer t))) as LB.
        assert (HP : forall nm e, on_num enum (GdsData.t_layer t) (setnet nm e) = on_num enum (GdsData.t_layer t) e)
          by (intros nm e; unfold on_num; rewrite enum_setnet; reflexivity).
        specialize (LB HP (tname t) (tloc t) E [] false Hok_t). cbn [app List.length] in LB.
        unfold tname in LB. rewrite LB. cbn [RG.ibind snd fst orb].
        change (map (upd c (on_num enum (GdsData.t_layer t)) (RG.lower (RG.str_of_bytes (GdsData.t_string t))) (tloc t)) E)
          with (map (upd_t t) E).
        change (existsb (fun e => on_num enum (GdsData.t_layer t) e && cont c (tloc t) e) E) with (existsb (hits t) E).
        assert (Hfe : filter (fun t0 => negb (existsb (hits t0) (map (upd_t t) E))) r =
                      filter (fun t0 => negb (existsb (hits t0) E)) r)
          by (apply filter_ext; intros u; rewrite existsb_hits_map; reflexivity).
        destruct (existsb (hits t) E) eqn:Hex; cbn [negb].
        * rewrite (IH _ _ (Binv_map_upd _ _ _ HB) Hok_r), Hfe. reflexivity.
        * rewrite (IH _ _ (Binv_map_upd _ _ _ HB) Hok_r), Hfe. cbn [map]. rewrite <- app_assoc. reflexivity.
  Qed.
End Pass2All.

(** * final nets *)
Section Final.
  Variable c : RG.cfg.
  Variable enum : element -> Z.
  Hypothesis enum_setnet : forall nm e, enum (setnet nm e) = enum e.
  Let updt := upd_t c enum.
  Let hit := hits c enum.

  Lemma fold_upd_map T : forall E,
    fold_left (fun E t => map (updt t) E) T E = map (fun e => fold_left (fun e t => updt t e) T e) E.
  Proof.
    induction T as [|t r IH]; intros E; cbn [fold_left].
    - rewrite map_id. reflexivity.
    - rewrite IH, map_map. reflexivity.
  Qed.

  Lemma fold_upd_fields T : forall e,
    let e' := fold_left (fun e t => updt t e) T e in
    e_layer e' = e_layer e /\ e_purpose e' = e_purpose e /\ e_shape e' = e_shape e /\
    e_net e' = match e_net e with
               | Some x => Some x
               | None => option_map tname (find (fun t => hit t e) T)
               end.
  Proof.
    induction T as [|t r IH]; intros e; cbn [fold_left find].
    - destruct (e_net e); repeat split; reflexivity.
    - destruct (IH (updt t e)) as (H1 & H2 & H3 & H4). cbv zeta in *.
      rewrite H1, H2, H3, H4. clear H1 H2 H3 H4.
      assert (Hh : forall u, hit u (updt t e) = hit u e) by (intros u; apply hits_upd; exact enum_setnet).
      unfold updt, upd_t. fold hit. destruct (hit t e) eqn:Ht.
      + unfold setnet. destruct (e_net e) eqn:En.
        * rewrite En. repeat split; reflexivity.
        * cbn [e_layer e_purpose e_shape e_net option_map]. repeat split; reflexivity.
      + repeat split; reflexivity.
  Qed.
End Final.

(** * what the exporter writes for one element, and what pass 1 makes of it *)
Definition imp_shape (s : shape) : shape :=
  match s with
  | Polygon [a; b; c0; d] => if RG.rect_pattern a b c0 d then Rect a c0 else s
  | _ => s
  end.
Lemma imp_shape_equiv s : shape_equiv s (imp_shape s).
Proof.
  destruct s as [p0 p1|ps|ps w]; try reflexivity.
  destruct ps as [|a [|b [|c0 [|d [|e r]]]]]; try reflexivity.
  cbn [imp_shape]. destruct (RG.rect_pattern a b c0 d) eqn:E; [|reflexivity].
  unfold shape_equiv. cbn [shape_norm]. change (axis_parallel4 a b c0 d) with (RG.rect_pattern a b c0 d).
  rewrite E. reflexivity.
Qed.

(** the GDSII element of a shape (what [export_shape xcfg_fixed] returns when it succeeds) *)
Definition gshape (n x : Z) (s : shape) : GdsData.element :=
  match s with
  | Rect p0 p1 => mk_boundary (n, x) [gp p0; GdsData.mkPt (px p1) (py p0); gp p1; GdsData.mkPt (px p0) (py p1); gp p0]
  | Polygon ps => mk_boundary (n, x) (map gp ps ++ match ps with p0 :: _ => [gp p0] | [] => [] end)
  | Path ps w => mk_path (n, x) (map gp ps) w
  end.
Definition shape_imp_ok (s : shape) : Prop :=
  match s with
  | Rect _ _ => True
  | Polygon ps => ps <> []
  | Path ps w => (2 <= List.length ps)%nat /\ 0 <= w
  end.

Lemma export_shape_gshape s n x g :
  export_shape xcfg_fixed s (n, x) = Ok g -> g = gshape n x s /\ (match s with Polygon ps => ps <> [] | _ => True end).
Proof.
  destruct s as [p0 p1|ps|ps w]; intros H.
  - apply rect_closed_once in H. split; [exact H|exact I].
  - destruct ps as [|p0 r]; [cbn in H; discriminate|]. apply polygon_closed_once in H. split; [exact H|discriminate].
  - apply path_stays_open in H. split; [exact H|exact I].
Qed.

Definition gtext (nm : string) (n lx : Z) (loc : point) (vert : bool) : GdsData.element :=
  GdsData.EText (GdsData.mkText (bytes_of_string nm) n lx (gp loc) None None None
                                (if vert then Some strans_angle90 else None) None None []).

Record xitem : Type := mkxi {
  xi_n : Z; xi_x : Z; xi_shape : shape; xi_key : nat; xi_purp : purpose;
  xi_label : option (string * Z * point * bool) }.
Definition xi_texts (it : xitem) : list GdsData.textelem :=
  match xi_label it with
  | Some (nm, lx, loc, v) =>
    [GdsData.mkText (bytes_of_string nm) (xi_n it) lx (gp loc) None None None (if v then Some strans_angle90 else None) None None []]
  | None => []
  end.
Definition xi_gds (it : xitem) : list GdsData.element :=
  gshape (xi_n it) (xi_x it) (xi_shape it) :: map GdsData.EText (xi_texts it).
Definition xi_elem (it : xitem) : element := mkelem None (xi_key it) (xi_purp it) (imp_shape (xi_shape it)).
Definition xi_ok (ly : layers) (it : xitem) : Prop :=
  get_or_insert ly (xi_n it) (xi_x it) = (ly, xi_key it, xi_purp it) /\ shape_imp_ok (xi_shape it).

Definition enum_of (ly : layers) (e : element) : Z :=
  match ly_get ly (e_layer e) with Some l => l_num l | None => -1 end.

Lemma goi_stable_key ly n x k p :
  get_or_insert ly n x = (ly, k, p) -> exists l, ly_get ly k = Some l /\ l_num l = n.
Proof.
  unfold get_or_insert. destruct (ly_keynum ly n) as [k0|] eqn:E.
  - destruct (keynum_some _ _ _ E) as [l [Hl Hn]]. unfold ly_get at 1. rewrite Hl.
    destruct (layer_purpose l x); intros H; (assert (Hk : k0 = k) by (inversion H; reflexivity)); subst k0; exists l; split; assumption.
  - unfold ly_add. intros H.
    assert (Hlen : List.length (ly ++ [layer_from_num n]) = List.length ly).
    { destruct (ly_get (ly ++ [layer_from_num n]) (Datatypes.length ly)) as [l|] eqn:F.
      - destruct (layer_purpose l x); injection H as H _ _.
        + rewrite H. reflexivity.
        + apply (f_equal (@List.length layer)) in H.
          assert (Hs : forall (A : Type) (l0 : list A) k0 y, List.length (list_set l0 k0 y) = List.length l0).
          { intros A l0. induction l0 as [|z r IH]; intros [|k0] y; cbn; try reflexivity. rewrite IH. reflexivity. }
          rewrite Hs in H. exact H.
      - injection H as H _ _. rewrite H. reflexivity. }
    rewrite app_length in Hlen. cbn in Hlen. lia.
Qed.

Lemma import_gshape c ly n x s :
  shape_imp_ok s ->
  match gshape n x s with
  | GdsData.EBoundary b => RG.import_boundary c ly b = RG.IOk (RG.mk_element ly n x (imp_shape s))
  | GdsData.EPath p => RG.import_path c ly p = RG.IOk (RG.mk_element ly n x (imp_shape s))
  | _ => False
  end.
Proof.
  destruct s as [p0 p1|ps|ps w]; cbn [gshape mk_boundary mk_path fst snd shape_imp_ok]; intros H.
  - apply import_exported_rect.
  - destruct ps as [|p0 r]; [congruence|].
    unfold RG.import_boundary. cbn [GdsData.b_xy GdsData.b_layer GdsData.b_datatype].
    rewrite map_app, map_import_gp. cbn [map]. rewrite import_gp. cbn [app].
    assert (Hl : last (p0 :: r ++ [p0]) p0 = p0) by (change (p0 :: r ++ [p0]) with ((p0 :: r) ++ [p0]); apply last_app1).
    rewrite Hl, pt_eqb_refl. cbn [negb].
    change (p0 :: r ++ [p0]) with ((p0 :: r) ++ [p0]). rewrite removelast_app1.
    destruct r as [|b [|c0 [|d [|e r]]]]; reflexivity.
  - destruct H as [H1 H2]. apply import_exported_path; assumption.
Qed.

Lemma pass1_item c cm ly it I E B T :
  xi_ok ly it ->
  RG.pass1_all c cm (RG.mkp1 ly I E B T) (xi_gds it) =
  RG.IOk (RG.mkp1 ly I (E ++ [xi_elem it]) (RG.bucket_add B (xi_n it) (List.length E)) (T ++ xi_texts it)).
Proof.
  intros [Hg Hs]. unfold xi_gds. cbn [RG.pass1_all].
  pose proof (import_gshape c ly (xi_n it) (xi_x it) (xi_shape it) Hs) as Hi.
  destruct (goi_stable_key _ _ _ _ _ Hg) as [l [Hl Hn]].
  assert (Hadd : RG.add_element (RG.mkp1 ly I E B T) (RG.mk_element ly (xi_n it) (xi_x it) (imp_shape (xi_shape it))) =
                 RG.IOk (RG.mkp1 ly I (E ++ [xi_elem it]) (RG.bucket_add B (xi_n it) (List.length E)) T)).
  { unfold RG.mk_element. rewrite Hg. unfold RG.add_element. cbn [e_layer RG.p_layers RG.p_insts RG.p_elems RG.p_buckets RG.p_texts].
    rewrite Hl, Hn. reflexivity. }
  assert (Hstep : RG.pass1_step c cm (RG.mkp1 ly I E B T) (gshape (xi_n it) (xi_x it) (xi_shape it)) =
                  RG.IOk (RG.mkp1 ly I (E ++ [xi_elem it]) (RG.bucket_add B (xi_n it) (List.length E)) T)).
  { destruct (gshape (xi_n it) (xi_x it) (xi_shape it)) eqn:G; try contradiction;
      cbn [RG.pass1_step RG.p_layers]; rewrite Hi; cbn [RG.ibind]; exact Hadd. }
  rewrite Hstep. cbn [RG.ibind].
  unfold xi_texts. destruct (xi_label it) as [[[[nm lx] loc] v]|]; cbn [map RG.pass1_all RG.pass1_step RG.ibind
     RG.p_layers RG.p_insts RG.p_elems RG.p_buckets RG.p_texts].
  - reflexivity.
  - rewrite app_nil_r. reflexivity.
Qed.

Fixpoint buckets_after (B : list (Z * list nat)) (len : nat) (its : list xitem) : list (Z * list nat) :=
  match its with
  | [] => B
  | it :: r => buckets_after (RG.bucket_add B (xi_n it) len) (S len) r
  end.

Lemma pass1_all_app c cm s a b :
  RG.pass1_all c cm s (a ++ b) = RG.ibind (RG.pass1_all c cm s a) (fun s' => RG.pass1_all c cm s' b).
Proof.
  revert s; induction a as [|e r IH]; intros s; cbn [app RG.pass1_all]; [reflexivity|].
  destruct (RG.pass1_step c cm s e); cbn [RG.ibind]; [apply IH|reflexivity|reflexivity|reflexivity].
Qed.

Lemma pass1_items c cm ly : forall its I E B T,
  Forall (xi_ok ly) its ->
  RG.pass1_all c cm (RG.mkp1 ly I E B T) (flat_map xi_gds its) =
  RG.IOk (RG.mkp1 ly I (E ++ map xi_elem its) (buckets_after B (List.length E) its) (T ++ flat_map xi_texts its)).
Proof.
  induction its as [|it r IH]; intros I E B T H; cbn [flat_map map buckets_after].
  - rewrite !app_nil_r. reflexivity.
  - inversion H as [|? ? Hit Hr]; subst.
    rewrite pass1_all_app, (pass1_item _ _ _ _ _ _ _ _ Hit). cbn [RG.ibind].
    rewrite (IH _ _ _ _ Hr). rewrite app_length. cbn [List.length]. rewrite Nat.add_1_r.
    rewrite <- !app_assoc. reflexivity.
Qed.

Lemma xi_elem_enum ly it : xi_ok ly it -> enum_of ly (xi_elem it) = xi_n it.
Proof.
  intros [Hg _]. destruct (goi_stable_key _ _ _ _ _ Hg) as [l [Hl Hn]].
  unfold enum_of, xi_elem. cbn [e_layer]. rewrite Hl. exact Hn.
Qed.

Lemma Binv_items ly : forall its B E,
  Forall (xi_ok ly) its -> Binv (enum_of ly) B E ->
  Binv (enum_of ly) (buckets_after B (List.length E) its) (E ++ map xi_elem its).
Proof.
  induction its as [|it r IH]; intros B E H HB; cbn [buckets_after map].
  - rewrite app_nil_r. exact HB.
  - inversion H as [|? ? Hit Hr]; subst.
    replace (E ++ xi_elem it :: map xi_elem r) with ((E ++ [xi_elem it]) ++ map xi_elem r) by (rewrite <- app_assoc; reflexivity).
    replace (S (Datatypes.length E)) with (Datatypes.length (E ++ [xi_elem it])) by (rewrite app_length; cbn; lia).
    apply IH; [exact Hr|]. rewrite <- (xi_elem_enum ly it Hit). apply Binv_add. exact HB.
Qed.

Lemma rg_lower_eq s : RG.lower s = lower s.
Proof. induction s as [|a r IH]; [reflexivity|]. cbn. rewrite IH. reflexivity. Qed.

(** * pass 2 on the items of a layout: the nets come back lower-cased *)
Definition xi_name (it : xitem) : option string :=
  match xi_label it with Some (nm, _, _, _) => Some nm | None => None end.
Definition xi_final (it : xitem) : element :=
  mkelem (option_map lower (xi_name it)) (xi_key it) (xi_purp it) (imp_shape (xi_shape it)).

Section Layout2.
  Variable c : RG.cfg.
  Variable ly : layers.
  Variable its : list xitem.
  Hypothesis Hok : Forall (xi_ok ly) its.
  (* no contains call panics *)
  Hypothesis Hnp : forall j nm lx loc v k, In j its -> xi_label j = Some (nm, lx, loc, v) -> In k its ->
                     cont_ok c loc (xi_elem k).
  (* every label lies inside its own (imported) shape *)
  Hypothesis Hown : forall j nm lx loc v, In j its -> xi_label j = Some (nm, lx, loc, v) -> cont c loc (xi_elem j) = true.
  (* labels are unambiguous *)
  Hypothesis Hun : forall j nm lx loc v k, In j its -> xi_label j = Some (nm, lx, loc, v) -> In k its ->
                     xi_n k = xi_n j -> cont c loc (xi_elem k) = true ->
                     exists nm', xi_name k = Some nm' /\ lower nm' = lower nm.

  Let enum := enum_of ly.
  Let T := flat_map xi_texts its.

  Lemma enum_setnet_ly nm e : enum (setnet nm e) = enum e.
  Proof. unfold enum, enum_of. rewrite setnet_layer. reflexivity. Qed.

  Lemma text_origin t : In t T -> exists j nm lx loc v, In j its /\ xi_label j = Some (nm, lx, loc, v) /\
     t = GdsData.mkText (bytes_of_string nm) (xi_n j) lx (gp loc) None None None (if v then Some strans_angle90 else None) None None [].
  Proof.
    unfold T. intros H. apply in_flat_map in H as [j [Hj Ht]]. unfold xi_texts in Ht.
    destruct (xi_label j) as [[[[nm lx] loc] v]|] eqn:E; [|destruct Ht].
    destruct Ht as [<-|[]]. exists j, nm, lx, loc, v. repeat split; assumption.
  Qed.

  Lemma hits_item j nm lx loc v k : In j its -> xi_label j = Some (nm, lx, loc, v) -> In k its ->
    hits c enum (GdsData.mkText (bytes_of_string nm) (xi_n j) lx (gp loc) None None None (if v then Some strans_angle90 else None) None None [])
         (xi_elem k) = (xi_n k =? xi_n j) && cont c loc (xi_elem k).
  Proof.
    intros Hj Hl Hk. unfold hits, on_num, tloc. cbn [GdsData.t_layer GdsData.t_xy]. rewrite import_gp.
    unfold enum. rewrite (xi_elem_enum ly k); [reflexivity|]. rewrite Forall_forall in Hok. apply Hok. exact Hk.
  Qed.

  Lemma final_net k : In k its ->
    option_map (tname) (find (fun t => hits c enum t (xi_elem k)) T) = option_map lower (xi_name k).
  Proof.
    intros Hk.
    destruct (find (fun t => hits c enum t (xi_elem k)) T) as [t|] eqn:F.
    - apply find_some in F as [Ht Hh].
      destruct (text_origin t Ht) as (j & nm & lx & loc & v & Hj & Hl & ->).
      rewrite (hits_item j nm lx loc v k Hj Hl Hk) in Hh. apply andb_prop in Hh as [Hn Hc]. apply Z.eqb_eq in Hn.
      destruct (Hun j nm lx loc v k Hj Hl Hk Hn Hc) as [nm' [E1 E2]].
      rewrite E1. cbn [option_map]. unfold tname. cbn [GdsData.t_string].
      rewrite bytes_str_roundtrip, rg_lower_eq, E2. reflexivity.
    - destruct (xi_name k) as [nm|] eqn:En; [|reflexivity]. exfalso.
      unfold xi_name in En. destruct (xi_label k) as [[[[nm0 lx] loc] v]|] eqn:El; [|discriminate]. injection En as ->.
      pose proof (find_none _ _ F) as Hnone.
      set (t := GdsData.mkText (bytes_of_string nm) (xi_n k) lx (gp loc) None None None (if v then Some strans_angle90 else None) None None []).
      assert (Ht : In t T).
      { unfold T. apply in_flat_map. exists k. split; [exact Hk|]. unfold xi_texts. rewrite El. left. reflexivity. }
      specialize (Hnone t Ht). cbv beta in Hnone. unfold t in Hnone.
      rewrite (hits_item k nm lx loc v k Hk El Hk), Z.eqb_refl, (Hown k nm lx loc v Hk El) in Hnone. discriminate.
  Qed.

  Lemma all_texts_hit : filter (fun t => negb (existsb (hits c enum t) (map xi_elem its))) T = [].
  Proof.
    destruct (filter (fun t => negb (existsb (hits c enum t) (map xi_elem its))) T) as [|t r] eqn:F; [reflexivity|exfalso].
    assert (Hin : In t (filter (fun t => negb (existsb (hits c enum t) (map xi_elem its))) T)) by (rewrite F; left; reflexivity).
    apply filter_In in Hin as [Ht Hneg].
    destruct (text_origin t Ht) as (j & nm & lx & loc & v & Hj & Hl & ->).
    apply negb_true_iff in Hneg. 
    assert (Hex : existsb (hits c enum (GdsData.mkText (bytes_of_string nm) (xi_n j) lx (gp loc) None None None (if v then Some strans_angle90 else None) None None [])) (map xi_elem its) = true).
    { apply existsb_exists. exists (xi_elem j). split; [apply in_map; exact Hj|].
      rewrite (hits_item j nm lx loc v j Hj Hl Hj), Z.eqb_refl, (Hown j nm lx loc v Hj Hl). reflexivity. }
    rewrite Hex in Hneg. discriminate.
  Qed.

  Lemma pass2_items B :
    Binv enum B (map xi_elem its) ->
    RG.pass2 c B (map xi_elem its) [] T = RG.IOk (map xi_final its, []).
  Proof.
    intros HB.
    rewrite (pass2_map c enum enum_setnet_ly B T (map xi_elem its) [] HB).
    - rewrite all_texts_hit. cbn [map app]. f_equal. f_equal.
      rewrite (fold_upd_map c enum). rewrite map_map. apply map_ext_in. intros k Hk.
      destruct (fold_upd_fields c enum enum_setnet_ly T (xi_elem k)) as (H1 & H2 & H3 & H4). cbv zeta in *.
      set (e' := fold_left (fun e t => upd_t c enum t e) T (xi_elem k)) in *.
      destruct e' as [net' lay' pur' sh']. cbn [e_layer e_purpose e_shape e_net] in *. subst.
      unfold xi_final. f_equal. cbn [xi_elem e_net]. apply final_net. exact Hk.
    - intros t Ht. destruct (text_origin t Ht) as (j & nm & lx & loc & v & Hj & Hl & ->).
      apply Forall_forall. intros e He. apply in_map_iff in He as [k [<- Hk]].
      unfold tloc. cbn [GdsData.t_xy]. rewrite import_gp. exact (Hnp j nm lx loc v k Hj Hl Hk).
  Qed.
End Layout2.

(** * instances *)
Definition gstrans (i : instance) : option GdsData.strans :=
  if i_reflect i || (match i_angle i with Some _ => true | None => false end)
  then Some (GdsData.mkStrans (i_reflect i) false false None (i_angle i)) else None.
Definition gsref (name : string) (i : instance) : GdsData.sref :=
  GdsData.mkSref (bytes_of_string name) (gp (i_loc i)) (gstrans i) None None [].

Lemma export_instance_inv cells i g :
  export_instance cells i = Ok g ->
  exists ci, nth_error cells (i_cell i) = Some ci /\ g = GdsData.ESref (gsref (c_name ci) i) /\ point_i32b (i_loc i) = true.
Proof.
  unfold export_instance. destruct (nth_error cells (i_cell i)) as [ci|]; [|discriminate].
  intros H. obind_inv H. apply export_point_inv in E as [-> Hp]. injection H as <-.
  exists ci. repeat split. exact Hp.
Qed.

Lemma import_gsref c cm name idx i :
  RG.cm_get cm (bytes_of_string name) = Some idx ->
  RG.import_instance c cm (gsref name i) = RG.IOk (mkinst EmptyString idx (i_loc i) (i_reflect i) (i_angle i)).
Proof.
  intros H. unfold RG.import_instance, gsref. cbn [GdsData.sr_name GdsData.sr_xy GdsData.sr_strans].
  rewrite H, import_gp. unfold gstrans.
  destruct (i_reflect i) eqn:R; cbn [orb].
  - cbn [GdsData.st_abs_mag GdsData.st_abs_angle GdsData.st_mag GdsData.st_reflected GdsData.st_angle orb].
    rewrite andb_false_r. reflexivity.
  - destruct (i_angle i) as [a|] eqn:A.
    + cbn [GdsData.st_abs_mag GdsData.st_abs_angle GdsData.st_mag GdsData.st_reflected GdsData.st_angle orb].
      rewrite andb_false_r. reflexivity.
    + reflexivity.
Qed.

Definition imp_inst (idx : nat) (i : instance) : instance := mkinst EmptyString idx (i_loc i) (i_reflect i) (i_angle i).

Lemma pass1_srefs c cm ly : forall (srs : list (string * instance)) (idxs : list nat) I E B T,
  Forall2 (fun sr idx => RG.cm_get cm (bytes_of_string (fst sr)) = Some idx) srs idxs ->
  RG.pass1_all c cm (RG.mkp1 ly I E B T) (map (fun sr => GdsData.ESref (gsref (fst sr) (snd sr))) srs) =
  RG.IOk (RG.mkp1 ly (I ++ map (fun p => imp_inst (snd p) (snd (fst p))) (combine srs idxs)) E B T).
Proof.
  induction srs as [|sr r IH]; intros idxs I E B T H; inversion H as [|? idx ? idxr Hsr Hr]; subst; cbn [map combine RG.pass1_all].
  - rewrite app_nil_r. reflexivity.
  - cbn [RG.pass1_step]. rewrite (import_gsref c cm _ _ _ Hsr). cbn [RG.ibind RG.p_layers RG.p_insts RG.p_elems RG.p_buckets RG.p_texts].
    rewrite (IH idxr _ _ _ _ Hr). rewrite <- app_assoc. reflexivity.
Qed.

(** * inversion of the list combinators *)
Lemma all_res_inv {A B} (f : A -> res B) : forall l r, all_res (map f l) = Ok r -> Forall2 (fun x y => f x = Ok y) l r.
Proof.
  induction l as [|x t IH]; intros r H; cbn [map all_res] in H.
  - injection H as <-. constructor.
  - obind_inv H. obind_inv H. injection H as <-. constructor; [exact E|apply IH; reflexivity].
Qed.
Lemma concat_res_inv {A B} (f : A -> res (list B)) : forall l r, concat_res (map f l) = Ok r ->
  exists rs, Forall2 (fun x y => f x = Ok y) l rs /\ r = List.concat rs.
Proof.
  induction l as [|x t IH]; intros r H; cbn [map concat_res] in H.
  - injection H as <-. exists []. split; [constructor|reflexivity].
  - obind_inv H. obind_inv H. injection H as <-. destruct (IH _ eq_refl) as [rs [H1 H2]].
    exists (a :: rs). split; [constructor; assumption|]. cbn. rewrite H2. reflexivity.
Qed.

(** * one element: what the exporter writes is the GDSII of an item *)
Definition item_rel (ly : layers) (e : element) (it : xitem) : Prop :=
  xi_shape it = e_shape e /\
  resolve_lp ly (e_layer e) (e_purpose e) = Some (xi_n it, xi_x it) /\
  get_or_insert ly (xi_n it) (xi_x it) = (ly, xi_key it, xi_purp it) /\
  match e_net e with
  | None => xi_label it = None
  | Some nm => exists lx loc v, xi_label it = Some (nm, lx, loc, v) /\
                                label_location xcfg_fixed (e_shape e) = Ok loc /\ point_i32b loc = true
  end.

Lemma export_element_item ly e gl :
  layer_nums_distinctb ly = true ->
  export_element xcfg_fixed ly e = Ok gl ->
  exists it, gl = xi_gds it /\ item_rel ly e it /\ (match e_shape e with Polygon ps => ps <> [] | _ => True end).
Proof.
  intros Hd H. unfold export_element in H.
  obind_inv H. destruct a as [n x]. obind_inv H.
  apply layerspec_resolve in E.
  destruct (goi_unchanged _ _ _ _ _ Hd E) as [p' Hg].
  apply export_shape_gshape in E0 as [-> Hne].
  destruct (e_net e) as [nm|] eqn:En.
  - obind_inv H. destruct a as [n' lx]. obind_inv H. injection H as <-.
    apply layerspec_resolve in E0.
    assert (n' = n).
    { unfold resolve_lp in E, E0. destruct (ly_get ly (e_layer e)) as [l|]; [|discriminate].
      destruct (layer_pnum l (e_purpose e)); [|discriminate]. destruct (layer_pnum l Label); [|discriminate].
      congruence. }
    subst n'.
    unfold export_shape_label in E1.
    destruct (label_location xcfg_fixed (e_shape e)) as [loc| | |] eqn:Eloc; cbn [obind] in E1; try discriminate E1.
    destruct (orientation_vert (e_shape e)) as [vert| | |] eqn:Ev; cbn [obind] in E1; try discriminate E1.
    destruct (export_point loc) as [xy| | |] eqn:Exy; cbn [obind] in E1; try discriminate E1.
    injection E1 as <-. apply export_point_inv in Exy as [-> Hloc32].
    exists (mkxi n x (e_shape e) (e_layer e) p' (Some (nm, lx, loc, vert))).
    split; [reflexivity|]. split; [|exact Hne].
    unfold item_rel. cbn [xi_shape xi_n xi_x xi_key xi_purp xi_label]. rewrite En.
    repeat split; try assumption. exists lx, loc, vert. split; [reflexivity|split; [exact Eloc|exact Hloc32]].
  - injection H as <-.
    exists (mkxi n x (e_shape e) (e_layer e) p' None).
    split; [reflexivity|]. split; [|exact Hne].
    unfold item_rel. cbn [xi_shape xi_n xi_x xi_key xi_purp xi_label]. rewrite En. repeat split; assumption.
Qed.

Lemma export_elements_items ly es gls :
  layer_nums_distinctb ly = true ->
  Forall2 (fun e gl => export_element xcfg_fixed ly e = Ok gl) es gls ->
  exists its, Forall2 (item_rel ly) es its /\ List.concat gls = flat_map xi_gds its /\
              Forall (fun e => match e_shape e with Polygon ps => ps <> [] | _ => True end) es.
Proof.
  intros Hd H. induction H as [|e gl es gls He Hr IH].
  - exists []. repeat split; constructor.
  - destruct IH as [its [H1 [H2 H3]]]. destruct (export_element_item _ _ _ Hd He) as [it [-> [Hi Hne]]].
    exists (it :: its). split; [constructor; assumption|]. split; [cbn; rewrite H2; reflexivity|constructor; assumption].
Qed.

Lemma Forall2_in_r {A B} (R : A -> B -> Prop) l l' y : Forall2 R l l' -> In y l' -> exists x, In x l /\ R x y.
Proof.
  intros H. induction H as [|a b l l' Hab Hr IH]; intros Hy; [destruct Hy|].
  destruct Hy as [<-|Hy]; [exists a; split; [left; reflexivity|exact Hab]|].
  destruct (IH Hy) as [x [Hx Hxy]]. exists x. split; [right; exact Hx|exact Hxy].
Qed.

(** the shape an element comes back with *)
Definition ishape (e : element) : shape := imp_shape (e_shape e).
Definition elem_shape_ok (e : element) : Prop :=
  match e_shape e with Path ps w => (2 <= List.length ps)%nat /\ 0 <= w | _ => True end.

(** * A layout: export, then import (model level) *)
Section LayoutRT.
  Variable c : RG.cfg.
  Variable ly : layers.
  Variable cells : list cell.
  Variable cm : RG.cell_map.
  Variable l : layout.
  Variable g : GdsData.gstruct.
  Hypothesis Hly : layers_okb ly = true.
  Hypothesis Hexp : export_layout xcfg_fixed ly cells l = Ok g.
  Hypothesis Hshapes : Forall elem_shape_ok (lay_elems l).
  Hypothesis Hcm : forall i ci, In i (lay_insts l) -> nth_error cells (i_cell i) = Some ci ->
                     exists idx, RG.cm_get cm (bytes_of_string (c_name ci)) = Some idx.
  (* the importer's `contains` on the label points: no panic, the own shape contains its label, and
     a shape of the same layer number that contains a label carries that net (up to case) *)
  Hypothesis Hnp : forall ej nm loc ek, In ej (lay_elems l) -> e_net ej = Some nm ->
      label_location xcfg_fixed (e_shape ej) = Ok loc -> point_i32b loc = true -> In ek (lay_elems l) ->
      exists b, RG.shape_contains c (ishape ek) loc = RG.IOk b.
  Hypothesis Hown : forall ej nm loc, In ej (lay_elems l) -> e_net ej = Some nm ->
      label_location xcfg_fixed (e_shape ej) = Ok loc -> point_i32b loc = true ->
      RG.shape_contains c (ishape ej) loc = RG.IOk true.
  Hypothesis Hun : forall ej nm loc ek, In ej (lay_elems l) -> e_net ej = Some nm ->
      label_location xcfg_fixed (e_shape ej) = Ok loc -> point_i32b loc = true -> In ek (lay_elems l) ->
      key_num ly (e_layer ek) = key_num ly (e_layer ej) ->
      RG.shape_contains c (ishape ek) loc = RG.IOk true ->
      exists nm', e_net ek = Some nm' /\ lower nm' = lower nm.

  Definition inst_rel (i i' : instance) : Prop :=
    exists ci idx, nth_error cells (i_cell i) = Some ci /\ RG.cm_get cm (bytes_of_string (c_name ci)) = Some idx /\
                   i' = mkinst EmptyString idx (i_loc i) (i_reflect i) (i_angle i).
  Definition elem_rel (e e' : element) : Prop :=
    e_net e' = option_map lower (e_net e) /\ e_shape e' = ishape e /\
    resolve_lp ly (e_layer e') (e_purpose e') = resolve_lp ly (e_layer e) (e_purpose e) /\
    resolve_lp ly (e_layer e) (e_purpose e) <> None.

  Lemma layers_ok_parts : layer_nums_distinctb ly = true /\ (forall k l0, nth_error ly k = Some l0 -> layer_consistent l0).
  Proof.
    unfold layers_okb in Hly. apply andb_prop in Hly as [H1 H2]. split; [exact H2|].
    intros k l0 Hk. rewrite forallb_forall in H1. specialize (H1 l0 (nth_error_In _ _ Hk)).
    apply andb_prop in H1 as [_ H1]. exact H1.
  Qed.

  Theorem layout_roundtrip_model :
    exists l', RG.import_layout c cm ly g = RG.IOk (ly, l') /\
               lay_name l' = lay_name l /\
               Forall2 inst_rel (lay_insts l) (lay_insts l') /\
               Forall2 elem_rel (lay_elems l) (lay_elems l') /\
               lay_annots l' = [].
  Proof.
    destruct layers_ok_parts as [Hd Hcons].
    unfold export_layout in Hexp. pose proof Hexp as H. obind_inv H. obind_inv H. injection H as <-.
    rename a into gis, a0 into ges.
    apply all_res_inv in E. apply concat_res_inv in E0 as [gls [Hgl ->]].
    destruct (export_elements_items _ _ _ Hd Hgl) as [its [Hits [Hcat Hne]]]. rewrite Hcat.
    (* the instances *)
    assert (Hsr : exists srs idxs, gis = map (fun sr => GdsData.ESref (gsref (fst sr) (snd sr))) srs /\
                   Forall2 (fun sr idx => RG.cm_get cm (bytes_of_string (fst sr)) = Some idx) srs idxs /\
                   Forall2 inst_rel (lay_insts l) (map (fun p => imp_inst (snd p) (snd (fst p))) (combine srs idxs))).
    { clear Hexp Hgl Hcat Hits. revert Hcm. generalize dependent (lay_insts l). intros insts0 E.
      induction E as [|i gi insts gis Hi Hr IH]; intros Hcm0.
      - exists [], []. repeat split; constructor.
      - destruct IH as (srs & idxs & -> & H1 & H2). { intros i0 ci Hin. apply Hcm0. right. exact Hin. }
        apply export_instance_inv in Hi as (ci & Hci & -> & _).
        destruct (Hcm0 i ci (or_introl eq_refl) Hci) as [idx Hidx].
        exists ((c_name ci, i) :: srs), (idx :: idxs). split; [reflexivity|]. split; [constructor; assumption|].
        cbn [combine map]. constructor; [|exact H2]. exists ci, idx. repeat split; assumption. }
    destruct Hsr as (srs & idxs & -> & Hidx & Hinsts).
    (* items are fine for pass 1 *)
    assert (Hok : Forall (xi_ok ly) its).
    { apply Forall_forall. intros it Hit. destruct (Forall2_in_r _ _ _ _ Hits Hit) as [e [He (Hs & Hr & Hg & Hl)]].
      split; [exact Hg|]. rewrite Hs. unfold shape_imp_ok.
      rewrite Forall_forall in Hshapes, Hne. specialize (Hshapes e He). specialize (Hne e He). unfold elem_shape_ok in Hshapes.
      destruct (e_shape e); [exact I|exact Hne|exact Hshapes]. }
    unfold RG.import_layout. cbn [GdsData.s_elems GdsData.s_name].
    rewrite pass1_all_app, (pass1_srefs c cm ly srs idxs [] [] [] [] Hidx). cbn [RG.ibind app].
    rewrite (pass1_items c cm ly its _ [] [] [] Hok). cbn [RG.ibind app RG.p_buckets RG.p_elems RG.p_texts RG.p_layers RG.p_insts List.length].
    assert (HB : Binv (enum_of ly) (buckets_after [] 0 its) (map xi_elem its)).
    { apply (Binv_items ly its [] [] Hok). apply Binv_nil. }
    (* facts about items from facts about elements *)
    assert (Hsrc : forall j nm lx loc v, In j its -> xi_label j = Some (nm, lx, loc, v) ->
              exists ej, In ej (lay_elems l) /\ item_rel ly ej j /\ e_net ej = Some nm /\ label_location xcfg_fixed (e_shape ej) = Ok loc /\
                         point_i32b loc = true).
    { intros j nm lx loc v Hj Hl. destruct (Forall2_in_r _ _ _ _ Hits Hj) as [ej [Hej Hrel]].
      exists ej. split; [exact Hej|]. split; [exact Hrel|]. destruct Hrel as (_ & _ & _ & Hlab).
      destruct (e_net ej) as [nm0|]; [|rewrite Hlab in Hl; discriminate].
      destruct Hlab as (lx0 & loc0 & v0 & Hl0 & Hloc & H32). rewrite Hl0 in Hl. injection Hl as -> -> -> ->. split; [reflexivity|split; [exact Hloc|exact H32]]. }
    assert (Hshape_k : forall k ek, item_rel ly ek k -> e_shape (xi_elem k) = ishape ek).
    { intros k ek (Hs & _). unfold xi_elem, ishape. cbn [e_shape]. rewrite Hs. reflexivity. }
    rewrite (pass2_items c ly its Hok); [| | | |exact HB].
    - cbn [RG.ibind fst snd]. eexists. split; [reflexivity|].
      cbn [lay_name lay_insts lay_elems lay_annots]. split; [apply bytes_str_roundtrip|]. split; [exact Hinsts|]. split; [|reflexivity].
      clear -Hits Hcons. induction Hits as [|e it es its Hrel Hr IH]; cbn [map]; constructor; [|exact IH].
      destruct Hrel as (Hs & Hres & Hg & Hlab). unfold elem_rel, xi_final. cbn [e_net e_shape e_layer e_purpose].
      split; [|split; [|split]].
      + unfold xi_name. destruct (e_net e) as [nm|]; [destruct Hlab as (lx & loc & v & -> & _ & _); reflexivity|rewrite Hlab; reflexivity].
      + unfold ishape. rewrite Hs. reflexivity.
      + rewrite Hres. pose proof (get_or_insert_resolves ly (xi_n it) (xi_x it) Hcons) as Hgr. rewrite Hg in Hgr. exact Hgr.
      + rewrite Hres. discriminate.
    - (* no panic *)
      intros j nm lx loc v k Hj Hl Hk. destruct (Hsrc j nm lx loc v Hj Hl) as (ej & Hej & _ & Hn & Hloc & H32).
      destruct (Forall2_in_r _ _ _ _ Hits Hk) as [ek [Hek Hrelk]].
      unfold cont_ok. rewrite (Hshape_k k ek Hrelk). exact (Hnp ej nm loc ek Hej Hn Hloc H32 Hek).
    - (* own label *)
      intros j nm lx loc v Hj Hl. destruct (Hsrc j nm lx loc v Hj Hl) as (ej & Hej & Hrelj & Hn & Hloc & H32).
      unfold cont. rewrite (Hshape_k j ej Hrelj), (Hown ej nm loc Hej Hn Hloc H32). reflexivity.
    - (* unambiguous *)
      intros j nm lx loc v k Hj Hl Hk Hnum Hc. destruct (Hsrc j nm lx loc v Hj Hl) as (ej & Hej & Hrelj & Hn & Hloc & H32).
      destruct (Forall2_in_r _ _ _ _ Hits Hk) as [ek [Hek Hrelk]].
      unfold cont in Hc. rewrite (Hshape_k k ek Hrelk) in Hc.
      destruct (RG.shape_contains c (ishape ek) loc) as [b| | |] eqn:Hsc; try discriminate. subst b.
      assert (Hkn : key_num ly (e_layer ek) = key_num ly (e_layer ej)).
      { destruct Hrelk as (_ & Hrk & _). destruct Hrelj as (_ & Hrj & _). unfold resolve_lp in Hrk, Hrj. unfold key_num.
        destruct (ly_get ly (e_layer ek)) as [lk|]; [|discriminate]. destruct (ly_get ly (e_layer ej)) as [lj|]; [|discriminate].
        destruct (layer_pnum lk (e_purpose ek)); [|discriminate]. destruct (layer_pnum lj (e_purpose ej)); [|discriminate].
        cbn. congruence. }
      destruct (Hun ej nm loc ek Hej Hn Hloc H32 Hek Hkn Hsc) as [nm' [H1 H2]].
      exists nm'. split; [|exact H2]. destruct Hrelk as (_ & _ & _ & Hlab). unfold xi_name. rewrite H1 in Hlab.
      destruct Hlab as (lx' & loc' & v' & -> & _ & _). reflexivity.
  Qed.
End LayoutRT.
