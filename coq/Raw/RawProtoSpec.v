(** Specification side of C14, written from the property statement and the schema
    (vlsir raw.proto), not from the conversion code.  No proofs in this file.

    Both formats are mapped to one neutral description of what a library SAYS, its [content]:
    cells by name; instances by instance name, target cell NAME, location, reflection and
    rotation (a whole number of degrees); annotations; every shape with its
    points, width, net and layer / purpose NUMBERS; abstract views with outline, ports (net and
    shapes per layer number) and blockages per layer number.  Rectangles are normalised to
    (lower-left, upper-right) corners: which two opposite corners are stored is a representation
    choice (DESIGN.md section 4).

    [raw_content] reads a raw library, [proto_content] reads a message.  The property compares
    contents with [content_equiv_grouped]: cells as a multiset (the exporter lists them in
    dependency order), the shapes of a layout as a list AFTER the documented grouping
    [spec_group] (by first-seen (layer, purpose), then rectangles / polygons / paths), the
    per-layer shape lists of an abstract after grouping by kind, the layers of a port or of
    the blockages as a multiset (they live in a hash map). *)
From Coq Require Import ZArith List String Bool Permutation.
From L21 Require Import Base.F64 Base.Outcome Raw.RawData Raw.RawProto.
From L21 Require Order.DepOrderSpec.
Import ListNotations.
Local Open Scope list_scope.
Local Open Scope Z_scope.

(** * Contents *)
Record celem : Type := mkcelem {
  ce_layer : Z; ce_purpose : Z; ce_net : option string; ce_shape : shape }.
Record cinst : Type := mkcinst {
  ci_name : string; ci_cell : string; ci_loc : point; ci_reflect : bool; ci_rot : Z }.
Record clayout : Type := mkclayout {
  cl_name : string; cl_insts : list cinst; cl_annots : list (string * point); cl_elems : list celem }.
Definition cmap : Type := list (Z * list shape).
Record cport : Type := mkcport { cp_net : string; cp_shapes : cmap }.
Record cabs : Type := mkcabs {
  ca_name : string; ca_outline : list point; ca_ports : list cport; ca_blockages : cmap }.
Record ccell : Type := mkccell { cc_name : string; cc_layout : option clayout; cc_abs : option cabs }.
Record content : Type := mkcontent { ct_name : string; ct_units : units; ct_cells : list ccell }.

Definition norm_shape (s : shape) : shape :=
  match s with
  | Rect p0 p1 => Rect (mkpt (Z.min (px p0) (px p1)) (Z.min (py p0) (py p1)))
                       (mkpt (Z.max (px p0) (px p1)) (Z.max (py p0) (py p1)))
  | _ => s
  end.

(** traversal in [option] *)
Fixpoint omapM {A B : Type} (f : A -> option B) (l : list A) : option (list B) :=
  match l with
  | [] => Some []
  | x :: r => match f x, omapM f r with
              | Some y, Some ys => Some (y :: ys)
              | _, _ => None
              end
  end.

(** * What a raw library says *)
(** Rotation.  Both formats document the same quantity: raw `Instance.angle` is "Angle of
    rotation (degrees), Clockwise and applied *after* reflection", the schema's
    `rotation_clockwise_degrees` is "Angle of rotation (degrees), Clockwise", a whole number in
    an `i32`.  The rotation an instance has is therefore that NUMBER of degrees: the content
    of a raw angle `Some(a)` is the integer a is equal to, the content of a message field r is
    r ([rot_content] below), with no change of sign and no reduction modulo 360 (360 and 0
    describe the same placement, but they are different field values, and the property's second
    half wants the message back EQUAL).  No angle, `Some(0.0)` and `Some(-0.0)` all say
    "rotation 0": they have the same content, so a library that comes back with `None` where
    it had `Some(0.0)` has kept its rotation.  [None]: the angle is not a whole number of
    degrees or does not fit an `i32` (the schema cannot express it). *)
Definition angle_content (a : option Z) : option Z :=
  match a with
  | None => Some 0
  | Some b => match f64_int_value b with
              | Some v => if i32_okb v then Some v else None
              | None => None
              end
  end.

(** a net is a non-empty name: `Some("")` names no net (the schema writes "no net" as "") *)
Definition net_content (s : string) : option string := if String.eqb s "" then None else Some s.
Definition raw_net_content (n : option string) : option string :=
  match n with Some s => net_content s | None => None end.
Definition raw_elem_content (ly : layers) (e : element) : option celem :=
  match resolve_lp ly (e_layer e) (e_purpose e) with
  | Some (n, p) => Some (mkcelem n p (raw_net_content (e_net e)) (norm_shape (e_shape e)))
  | None => None
  end.
Definition raw_inst_content (cells : list cell) (i : instance) : option cinst :=
  match nth_error cells (i_cell i), angle_content (i_angle i) with
  | Some c, Some r => Some (mkcinst (i_name i) (c_name c) (i_loc i) (i_reflect i) r)
  | _, _ => None
  end.
Definition raw_layout_content (ly : layers) (cells : list cell) (l : layout) : option clayout :=
  match omapM (raw_inst_content cells) (lay_insts l), omapM (raw_elem_content ly) (lay_elems l) with
  | Some is, Some es => Some (mkclayout (lay_name l) is (map (fun t => (t_string t, t_loc t)) (lay_annots l)) es)
  | _, _ => None
  end.
Definition raw_map_content (ly : layers) (m : shapemap) : option cmap :=
  omapM (fun ks => match key_num ly (fst ks) with
                   | Some n => Some (n, map norm_shape (snd ks))
                   | None => None
                   end) m.
Definition raw_port_content (ly : layers) (p : absport) : option cport :=
  option_map (mkcport (ap_net p)) (raw_map_content ly (ap_shapes p)).
Definition raw_abs_content (ly : layers) (a : abstract) : option cabs :=
  match omapM (raw_port_content ly) (ab_ports a), raw_map_content ly (ab_blockages a) with
  | Some ps, Some b => Some (mkcabs (ab_name a) (ab_outline a) ps b)
  | _, _ => None
  end.
Definition oopt {A B : Type} (f : A -> option B) (x : option A) : option (option B) :=
  match x with
  | None => Some None
  | Some a => option_map Some (f a)
  end.
Definition raw_cell_content (ly : layers) (cells : list cell) (c : cell) : option ccell :=
  match oopt (raw_layout_content ly cells) (c_layout c), oopt (raw_abs_content ly) (c_abs c) with
  | Some l, Some a => Some (mkccell (c_name c) l a)
  | _, _ => None
  end.
Definition raw_content (L : library) : option content :=
  option_map (mkcontent (lib_name L) (lib_units L))
             (omapM (raw_cell_content (lib_layers L) (lib_cells L)) (lib_cells L)).

(** * What a message says (raw.proto) *)
Definition pt_content (p : ppoint) : point := mkpt (ppx p) (ppy p).
(** "The lower-left corner of the rectangle", width, height *)
Definition prect_shape (r : prect) : option shape :=
  match pr_ll r with
  | Some p => Some (norm_shape (Rect (pt_content p) (mkpt (ppx p + pr_width r) (ppy p + pr_height r))))
  | None => None
  end.
Definition ppoly_shape (p : ppoly) : shape := Polygon (map pt_content (pg_vertices p)).
Definition ppath_shape (p : ppath) : shape := Path (map pt_content (pp_points p)) (pp_width p).

(** the shapes of one LayerShapes, in the order rectangles, polygons, paths *)
Definition pls_shapes (ls : playershapes) : option (list (string * shape)) :=
  match omapM (fun r => option_map (pair (pr_net r)) (prect_shape r)) (pls_rects ls) with
  | Some rs => Some (rs ++ map (fun p => (pg_net p, ppoly_shape p)) (pls_polys ls)
                        ++ map (fun p => (pp_net p, ppath_shape p)) (pls_paths ls))
  | None => None
  end.
Definition pls_elems (ls : playershapes) : option (list celem) :=
  match pls_layer ls, pls_shapes ls with
  | Some l, Some ss => Some (map (fun ns => mkcelem (pl_number l) (pl_purpose l) (net_content (fst ns)) (snd ns)) ss)
  | _, _ => None
  end.
(** in an abstract the purpose is implied (pin / obstruction) and shapes carry no net *)
Definition pls_entry (ls : playershapes) : option (Z * list shape) :=
  match pls_layer ls, pls_shapes ls with
  | Some l, Some ss => Some (pl_number l, map snd ss)
  | _, _ => None
  end.
(** "Angle of rotation (degrees), Clockwise": that number *)
Definition rot_content (r : Z) : Z := r.
Definition pinst_content (i : pinstance) : option cinst :=
  match pi_cell i, pi_origin i with
  | Some (Some (RefLocal n)), Some o => Some (mkcinst (pi_name i) n (pt_content o) (pi_reflect i) (rot_content (pi_rot i)))
  | _, _ => None
  end.
Definition playout_content (l : playout) : option clayout :=
  match omapM pinst_content (ply_insts l),
        omapM (fun t => option_map (fun p => (ptx_string t, pt_content p)) (ptx_loc t)) (ply_annots l),
        omapM pls_elems (ply_shapes l) with
  | Some is, Some an, Some es => Some (mkclayout (ply_name l) is an (List.concat es))
  | _, _, _ => None
  end.
Definition pport_content (p : pabsport) : option cport :=
  option_map (mkcport (pap_net p)) (omapM pls_entry (pap_shapes p)).
Definition pabs_content (a : pabstract) : option cabs :=
  match pab_outline a, omapM pport_content (pab_ports a), omapM pls_entry (pab_blockages a) with
  | Some o, Some ps, Some b => Some (mkcabs (pab_name a) (map pt_content (pg_vertices o)) ps b)
  | _, _, _ => None
  end.
Definition pcell_content (c : pcell) : option ccell :=
  match oopt playout_content (pc_layout c), oopt pabs_content (pc_abs c) with
  | Some l, Some a => Some (mkccell (pc_name c) l a)
  | _, _ => None
  end.
Definition units_content (u : Z) : option units :=
  if u =? 0 then Some Micro else if u =? 1 then Some Nano else if u =? 2 then Some Angstrom else None.
Definition proto_content (P : plib) : option content :=
  match units_content (pb_units P), omapM pcell_content (pb_cells P) with
  | Some u, Some cs => Some (mkcontent (pb_domain P) u cs)
  | _, _ => None
  end.

(** * The documented grouping *)
Definition lp_eqb (a b : Z * Z) : bool := (fst a =? fst b) && (snd a =? snd b).
Definition is_rect (s : shape) : bool := match s with Rect _ _ => true | _ => false end.
Definition is_poly (s : shape) : bool := match s with Polygon _ => true | _ => false end.
Definition is_path (s : shape) : bool := match s with Path _ _ => true | _ => false end.
(** rectangles, then polygons, then paths; each kind in its original order *)
Definition by_kind {A : Type} (sh : A -> shape) (l : list A) : list A :=
  filter (fun x => is_rect (sh x)) l ++ filter (fun x => is_poly (sh x)) l ++ filter (fun x => is_path (sh x)) l.
(** the distinct keys in order of first appearance *)
Fixpoint first_seen (ks : list (Z * Z)) : list (Z * Z) :=
  match ks with
  | [] => []
  | k :: r => k :: filter (fun k' => negb (lp_eqb k' k)) (first_seen r)
  end.
Definition ce_lp (e : celem) : Z * Z := (ce_layer e, ce_purpose e).
Definition spec_group (es : list celem) : list celem :=
  flat_map (fun k => by_kind ce_shape (filter (fun e => lp_eqb (ce_lp e) k) es)) (first_seen (map ce_lp es)).

(** * Equivalence of contents *)
Definition cmap_equiv (m m' : cmap) : Prop :=
  Permutation (map (fun e => (fst e, by_kind (fun s => s) (snd e))) m)
              (map (fun e => (fst e, by_kind (fun s => s) (snd e))) m').
Definition cport_equiv (p p' : cport) : Prop :=
  cp_net p = cp_net p' /\ cmap_equiv (cp_shapes p) (cp_shapes p').
Definition cabs_equiv (a a' : cabs) : Prop :=
  ca_name a = ca_name a' /\ ca_outline a = ca_outline a' /\
  Forall2 cport_equiv (ca_ports a) (ca_ports a') /\ cmap_equiv (ca_blockages a) (ca_blockages a').
Definition clayout_equiv (l l' : clayout) : Prop :=
  cl_name l = cl_name l' /\ cl_insts l = cl_insts l' /\ cl_annots l = cl_annots l' /\
  spec_group (cl_elems l) = spec_group (cl_elems l').
Definition opt_rel {A : Type} (R : A -> A -> Prop) (x y : option A) : Prop :=
  match x, y with
  | None, None => True
  | Some a, Some b => R a b
  | _, _ => False
  end.
Definition ccell_equiv (c c' : ccell) : Prop :=
  cc_name c = cc_name c' /\ opt_rel clayout_equiv (cc_layout c) (cc_layout c') /\
  opt_rel cabs_equiv (cc_abs c) (cc_abs c').
Definition content_equiv_grouped (C C' : content) : Prop :=
  ct_name C = ct_name C' /\ ct_units C = ct_units C' /\
  exists cs, Permutation cs (ct_cells C') /\ Forall2 ccell_equiv (ct_cells C) cs.

(** The relation of the property: both libraries say something, and say the same. *)
Definition raw_equiv_grouped (L L' : library) : Prop :=
  exists C C', raw_content L = Some C /\ raw_content L' = Some C' /\ content_equiv_grouped C C'.

(** * Cells listed before their users *)
Definition pcell_insts (c : pcell) : list pinstance :=
  match pc_layout c with Some l => ply_insts l | None => [] end.
Fixpoint deps_first_from (seen : list string) (cs : list pcell) : Prop :=
  match cs with
  | [] => True
  | c :: r =>
    (forall i, In i (pcell_insts c) -> exists n, pi_cell i = Some (Some (RefLocal n)) /\ In n seen) /\
    deps_first_from (pc_name c :: seen) r
  end.
Definition deps_first (P : plib) : Prop := deps_first_from [] (pb_cells P).

(** * Well-formed layer tables: one layer per number; within a layer one purpose per number
    and one number per purpose; numbered purposes carry their own number (`add_purpose`
    refuses anything else). *)
Definition layer_wf (l : layer) : Prop :=
  NoDup (map fst (l_pairs l)) /\ NoDup (map snd (l_pairs l)) /\
  (forall n p, In (n, p) (l_pairs l) -> purpose_num_ok n p = true).
Definition layers_wf (ly : layers) : Prop :=
  NoDup (map l_num ly) /\ (forall l, In l ly -> layer_wf l).

(** * Raw libraries the schema can express ([proto_exportable]) *)
(** No cell reaches itself through one or more instances: [reach_plus] is the notion of the
    dependency-order specification (Order/DepOrderSpec.v, property C17) on the graph "cell index
    -> target indices of the instances of its layout". *)
Definition acyclic (cells : list cell) : Prop :=
  forall x, ~ DepOrderSpec.reach_plus (cell_deps_N cells) x x.

Definition shape_ok (s : shape) : Prop :=
  match s with
  | Rect p0 p1 => i64_ok (px p0) /\ i64_ok (py p0) /\ i64_ok (px p1) /\ i64_ok (py p1) /\
                  Z.abs (px p1 - px p0) <= i64_max /\ Z.abs (py p1 - py p0) <= i64_max
  | Polygon _ => True
  | Path _ w => 0 <= w <= i64_max
  end.
Definition numbered_ok (ly : layers) (key : nat) (p : purpose) : Prop :=
  exists n pn, resolve_lp ly key p = Some (n, pn) /\ i16_ok n /\ i16_ok pn.
Definition map_ok (ly : layers) (p : purpose) (m : shapemap) : Prop :=
  NoDup (map fst m) /\
  (forall k ss, In (k, ss) m -> numbered_ok ly k p /\ Forall shape_ok ss) /\
  (forall k k' ss ss', In (k, ss) m -> In (k', ss') m -> key_num ly k = key_num ly k' -> k = k').
Definition abstract_ok (ly : layers) (a : abstract) : Prop :=
  (forall p, In p (ab_ports a) -> map_ok ly Pin (ap_shapes p)) /\ map_ok ly Obstruction (ab_blockages a).
Definition layout_ok (ly : layers) (ncells : nat) (l : layout) : Prop :=
  (forall i, In i (lay_insts l) -> (i_cell i < ncells)%nat /\ angle_content (i_angle i) <> None) /\
  (forall e, In e (lay_elems l) -> numbered_ok ly (e_layer e) (e_purpose e) /\ shape_ok (e_shape e)).
Definition proto_exportable (L : library) : Prop :=
  lib_units L <> Pico /\                                              (* units in the schema *)
  NoDup (map c_name (lib_cells L)) /\                                 (* references are by name *)
  acyclic (lib_cells L) /\
  (forall c, In c (lib_cells L) ->
     (forall l, c_layout c = Some l -> layout_ok (lib_layers L) (List.length (lib_cells L)) l) /\
     (forall a, c_abs c = Some a -> abstract_ok (lib_layers L) a)).

(** * Messages that can come back unchanged ([canonical]) -- see Properties/C14.v for what
    this excludes and why each clause is necessary. [ly0] is the layer table handed to the
    importer. *)
Definition prect_canon (r : prect) : Prop :=
  pr_ll r <> None /\ 0 <= pr_width r <= i64_max /\ 0 <= pr_height r <= i64_max.
Definition ppath_canon (p : ppath) : Prop := 0 <= pp_width p <= i64_max.
Definition pls_nonempty (ls : playershapes) : Prop :=
  pls_rects ls <> [] \/ pls_polys ls <> [] \/ pls_paths ls <> [].
Definition pls_lp (ls : playershapes) : option (Z * Z) :=
  option_map (fun l => (pl_number l, pl_purpose l)) (pls_layer ls).
Definition pls_canon (ls : playershapes) : Prop :=
  (exists l, pls_layer ls = Some l /\ i16_ok (pl_number l) /\ i16_ok (pl_purpose l)) /\
  Forall prect_canon (pls_rects ls) /\ Forall ppath_canon (pls_paths ls).
(** in an abstract: no nets, and the purpose number is the one [ly0] registers for [p] on that layer *)
Definition pls_abs_canon (ly0 : layers) (p : purpose) (ls : playershapes) : Prop :=
  pls_canon ls /\
  Forall (fun r => pr_net r = EmptyString) (pls_rects ls) /\
  Forall (fun g => pg_net g = EmptyString) (pls_polys ls) /\
  Forall (fun q => pp_net q = EmptyString) (pls_paths ls) /\
  (exists l key ll, pls_layer ls = Some l /\ ly_keynum ly0 (pl_number l) = Some key /\
     ly_get ly0 key = Some ll /\ layer_pnum ll p = Some (pl_purpose l)).
(** the key (slot of [ly0]) a LayerShapes of an abstract is stored under *)
Definition pls_key (ly0 : layers) (ls : playershapes) : option nat :=
  match pls_layer ls with Some l => ly_keynum ly0 (pl_number l) | None => None end.
(** strictly ascending, all defined *)
Fixpoint ascending_keys (l : list (option nat)) : Prop :=
  match l with
  | a :: r => match r with
              | b :: _ => match a, b with Some x, Some y => (x < y)%nat | _, _ => False end
              | [] => True
              end /\ ascending_keys r
  | [] => True
  end.
(** the layer list of a port / of the blockages: the exporter writes a hash map's entries in
    ascending key order, so only a list in that order (which also makes the layers distinct)
    can come back as it was *)
Definition plss_abs_canon (ly0 : layers) (p : purpose) (lss : list playershapes) : Prop :=
  Forall (pls_abs_canon ly0 p) lss /\ ascending_keys (map (pls_key ly0) lss).
Definition playout_canon (l : playout) : Prop :=
  Forall (fun ls => pls_canon ls /\ pls_nonempty ls) (ply_shapes l) /\
  NoDup (map pls_lp (ply_shapes l)).
Definition pabs_canon (ly0 : layers) (a : pabstract) : Prop :=
  (exists o, pab_outline a = Some o /\ pg_net o = EmptyString) /\
  Forall (fun p => plss_abs_canon ly0 Pin (pap_shapes p)) (pab_ports a) /\
  plss_abs_canon ly0 Obstruction (pab_blockages a).
Definition pcell_canon (ly0 : layers) (c : pcell) : Prop :=
  pc_circuit c = false /\
  (forall l, pc_layout c = Some l -> playout_canon l) /\
  (forall a, pc_abs c = Some a -> pabs_canon ly0 a).
Definition canonical (ly0 : layers) (P : plib) : Prop :=
  pb_author P = false /\ Forall (pcell_canon ly0) (pb_cells P).

(** * Type invariant of a message: `rotation_clockwise_degrees` is an `i32` *)
Definition i32_ok (z : Z) : Prop := -2147483648 <= z < 2147483648.
Definition proto_typed (P : plib) : Prop :=
  forall c l i, In c (pb_cells P) -> pc_layout c = Some l -> In i (ply_insts l) -> i32_ok (pi_rot i).
