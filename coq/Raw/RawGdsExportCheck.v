(** Executable checks for the correspondence run of C07 (tools/props/c07.py).
    The harness builds the raw library [L] through the public API, calls `to_gds` ([gres]) and then
    `from_gds(gds, Some(L.layers))` ([rres]).
    Result code (last decimal digit of [c07_check]):
      0 = the implementation's GDSII equals the model's (variant [cfg], read from the source text) and
          the property holds on the implementation's output;
      1 = the implementation differs from the model, the property still holds or is silent;
      2 = the property fails on the implementation's output.
    The property is decided on the OUTPUT by the spec oracles of Raw/RawGdsExportSpec.v: for an
    [exportable] library the export must succeed, every named shape must have a text with its net on
    its layer number INSIDE the shape ([labels_insideb]), the PATH elements must carry exactly the
    point lists of the paths ([paths_openb]), and -- when every emitted text is unambiguous
    ([texts_unambiguousb]) -- the re-import must succeed with [raw_equivb L L'].
    Further digits are diagnostics: 10 = exportable, 100 = texts unambiguous, 1000 = labels inside,
    10000 = paths open, 100000 = re-import equivalent.  No proofs here. *)
From Coq Require Import ZArith List String Bool.
From L21 Require Import Base.Outcome Base.Hex Raw.RawData Raw.RawGdsExport Raw.RawGdsExportSpec.
From L21 Require Gds.GdsData.
Import ListNotations.
Local Open Scope Z_scope.

Inductive gres : Type := GOk (g : GdsData.library) | GErr | GPanic.
Inductive rres : Type := ROk (L' : library) | RErr | RPanic | RNone.

Definition code (prop_ok model_eq : bool) : Z :=
  if negb prop_ok then 2 else if model_eq then 0 else 1.

(** ** model = implementation *)
Definition export_eqb (cfg : xcfg) (L : library) (gr : gres) : bool :=
  match export_lib_gen cfg L, gr with
  | Ok g, GOk g' => GdsData.lib_eqb g g'
  | Err _, GErr => true
  | Panic, GPanic => true
  | _, _ => false
  end.
(** the unit table of the importer, on the units the implementation exported *)
Definition units_import_eqb (cfg : xcfg) (gr : gres) (rr : rres) : bool :=
  match gr with
  | GOk g =>
    match import_units cfg (GdsData.l_units g), rr with
    | Ok u, ROk L' => units_eqb (lib_units L') u
    | Ok _, _ => true                    (* the import may fail later for other reasons *)
    | Err _, RErr => true
    | _, _ => false
    end
  | _ => true
  end.

(** ** the property on the implementation's output *)
Definition find_struct (g : GdsData.library) (name : string) : option GdsData.gstruct :=
  find (fun s => zlist_eqb (GdsData.s_name s) (bytes_of_string name)) (GdsData.l_structs g).
Definition struct_texts (s : GdsData.gstruct) : list GdsData.textelem :=
  flat_map (fun e => match e with GdsData.EText t => [t] | _ => [] end) (GdsData.s_elems s).
Definition struct_paths (s : GdsData.gstruct) : list GdsData.path :=
  flat_map (fun e => match e with GdsData.EPath t => [t] | _ => [] end) (GdsData.s_elems s).
Definition gpt (p : GdsData.point) : point := mkpt (GdsData.px p) (GdsData.py p).

Definition lowerZ (b : Z) : Z := if (65 <=? b) && (b <=? 90) then b + 32 else b.
Definition lower_bytes (l : list Z) : list Z := map lowerZ l.

(** every named shape has a text with its net, on its layer number, inside it *)
Definition labels_inside_cell (ev : list velem) (s : GdsData.gstruct) : bool :=
  forallb (fun v =>
    match v_net v with
    | None => true
    | Some n =>
      existsb (fun t => (GdsData.t_layer t =? v_lnum v) &&
                        zlist_eqb (GdsData.t_string t) (bytes_of_string n) &&
                        in_region_shapeb (v_shape v) (gpt (GdsData.t_xy t))) (struct_texts s)
    end) ev.
(** the PATH elements carry exactly the paths' point lists and widths, in order *)
Definition view_paths (ev : list velem) : list (list point * Z) :=
  flat_map (fun v => match v_shape v with Path ps w => [(ps, w)] | _ => [] end) ev.
Definition path_matches (pw : list point * Z) (p : GdsData.path) : bool :=
  points_eqb (fst pw) (map gpt (GdsData.p_xy p)) &&
  match GdsData.p_width p with Some w => w =? snd pw | None => false end.
Definition paths_open_cell (ev : list velem) (s : GdsData.gstruct) : bool :=
  forall2b path_matches (view_paths ev) (struct_paths s).
(** every emitted text is unambiguous: each shape of the cell on the text's layer number that
    contains the text's point carries the text's (lower-cased) string as its net *)
Definition texts_unambiguous_cell (ev : list velem) (s : GdsData.gstruct) : bool :=
  forallb (fun t =>
    forallb (fun v =>
      negb ((v_lnum v =? GdsData.t_layer t) && in_region_shapeb (v_shape v) (gpt (GdsData.t_xy t))) ||
      match v_net v with
      | Some n => zlist_eqb (lower_bytes (bytes_of_string n)) (lower_bytes (GdsData.t_string t))
      | None => false
      end) ev) (struct_texts s).

Definition per_cell (f : list velem -> GdsData.gstruct -> bool) (L : library) (g : GdsData.library) : bool :=
  forallb (fun c =>
    match cell_view (lib_layers L) (lib_cells L) c, find_struct g (c_name c) with
    | Some (_, ev), Some s => f ev s
    | _, _ => false
    end) (lib_cells L).

Definition b2z (b : bool) (w : Z) : Z := if b then w else 0.

(** a rectangle that comes back as a rectangle keeps its two corner points as given (not only the area they span: [raw_equivb]
    compares shapes modulo representation because a four-point axis-parallel polygon comes back as a rectangle) *)
Definition rect_exactb (v v' : velem) : bool :=
  match v_shape v, v_shape v' with
  | Rect p0 p1, Rect q0 q1 => point_eqb p0 q0 && point_eqb p1 q1
  | _, _ => true
  end.
Definition rects_exact_cellb (L L' : library) (c : cell) : bool :=
  existsb (fun c' =>
    String.eqb (c_name c') (c_name c) &&
    match cell_view (lib_layers L) (lib_cells L) c, cell_view (lib_layers L') (lib_cells L') c' with
    | Some (_, ev), Some (_, ev') => forall2b rect_exactb ev ev'
    | _, _ => false
    end) (lib_cells L').
Definition rects_exactb (L L' : library) : bool := forallb (rects_exact_cellb L L') (lib_cells L).

Definition c07_check (cfg : xcfg) (L : library) (gr : gres) (rr : rres) : Z :=
  let ex := exportableb L in
  let inside := match gr with GOk g => per_cell labels_inside_cell L g | _ => false end in
  let popen := match gr with GOk g => per_cell paths_open_cell L g | _ => false end in
  let unamb := match gr with GOk g => per_cell texts_unambiguous_cell L g | _ => false end in
  let requiv := match rr with ROk L' => raw_equivb L L' && rects_exactb L L' | _ => false end in
  let prop_ok := negb ex || (inside && popen && (negb unamb || requiv)) in
  let model_eq := export_eqb cfg L gr && units_import_eqb cfg gr rr in
  code prop_ok model_eq + b2z ex 10 + b2z unamb 100 + b2z inside 1000 + b2z popen 10000 + b2z requiv 100000.

(** Diagnostic: 0 when the implementation's GDSII is what the model of variant [cfg] computes. *)
Definition c07_model_only (cfg : xcfg) (L : library) (gr : gres) : Z :=
  if export_eqb cfg L gr then 0 else 1.

(** The label the model places on a shape (for generators and witnesses). *)
Definition c07_label (cfg : xcfg) (s : shape) : Z * Z * Z :=
  match label_location cfg s with
  | Ok p => (0, px p, py p)
  | Err _ => (1, 0, 0)
  | Panic => (2, 0, 0)
  | OutOfFuel => (3, 0, 0)
  end.
