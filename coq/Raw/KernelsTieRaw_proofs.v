(** Tie (a) of DESIGN.md 2.3 for the label-placement arithmetic of the GDSII export
    (layout21raw/src/geom.rs `Rect::center`, bbox.rs `BoundBox::center`): the definitions generated from the
    Rust source (Gen/KernelsGen.v), read over Z with range checks ([zc_kops]), equal [rect_center] and the
    centre computation of [bbox_center] in Raw/RawGdsExport.v (an overflow is a panic there: debug build). *)
From Coq Require Import ZArith Bool List Lia.
From L21 Require Import Base.KernelOps Base.Outcome Gen.KernelsGen Raw.RawData Raw.RawGdsExport Geom.KernelsInst.
From L21 Require Geom.Contains Geom.KernelsTieContains_proofs.
Local Open Scope Z_scope.

Definition Gp (p : point) : gPoint unit Z := mk_gPoint (px p) (py p).
Definition raw_of (c : cres (gPoint unit Z)) : res point :=
  match c with CVal p => Ok (mkpt (gPoint_x p) (gPoint_y p)) | _ => Panic end.

Lemma quot2_ok : forall s, i64_okb s = true -> ity_in Isize (Z.quot s 2) = true.
Proof.
  intros s H. unfold i64_okb, i64_min, i64_max in H. unfold ity_in.
  change (ity_min Isize) with (- 2 ^ 63). change (ity_max Isize) with (2 ^ 63 - 1).
  apply andb_true_iff in H. destruct H as [A B]. apply Z.leb_le in A, B.
  apply andb_true_iff; split; apply Z.leb_le.
  - assert (- 2 ^ 63 <= s) by exact A. Ltac Zify.zify_post_hook ::= Z.to_euclidean_division_equations. lia.
  - assert (s <= 2 ^ 63 - 1) by exact B. lia.
Qed.

(** `(a + b) / 2` as the generated code computes it *)
Lemma half_sum_eq : forall a b,
  match cbnd _ _ (i_add zc_kops Isize a b) (fun t => i_div zc_kops Isize t (i_lit zc_kops 2)) with
  | CVal z => Ok z | _ => Panic end = half_sum a b.
Proof.
  intros. unfold half_sum, i64c. cbn [i_add i_div i_lit zc_kops]. unfold zc_chk.
  change (ity_in Isize (a + b)) with (i64_okb (a + b)).
  destruct (i64_okb (a + b)) eqn:E; cbn [cbnd obind]; [|reflexivity].
  change (2 =? 0) with false. cbv iota. rewrite (quot2_ok _ E). reflexivity.
Qed.

Lemma center_eq : forall a0 a1 b0 b1 : Z,
  raw_of (cbnd _ _ (cbnd _ _ (i_add zc_kops Isize a0 a1) (fun t => i_div zc_kops Isize t (i_lit zc_kops 2)))
            (fun x => cbnd _ _ (cbnd _ _ (i_add zc_kops Isize b0 b1) (fun t => i_div zc_kops Isize t (i_lit zc_kops 2)))
                        (fun y => g_Point_new zc_kops x y)))
  = obind (half_sum a0 a1) (fun x => obind (half_sum b0 b1) (fun y => Ok (mkpt x y))).
Proof.
  intros. rewrite <- !half_sum_eq.
  destruct (cbnd _ _ (i_add zc_kops Isize a0 a1) _); cbn [cbnd obind]; try reflexivity.
  destruct (cbnd _ _ (i_add zc_kops Isize b0 b1) _); reflexivity.
Qed.

Lemma tie_rect_center : forall p0 p1 : point,
  raw_of (g_Rect_center zc_kops (mk_gRect (Gp p0) (Gp p1))) = rect_center p0 p1.
Proof. intros. unfold g_Rect_center, rect_center. apply center_eq. Qed.

Lemma tie_bbox_center : forall bb : Contains.point * Contains.point,
  raw_of (g_BoundBox_center zc_kops (B_of bb)) =
  (let '(b0, b1) := bb in
   obind (half_sum (fst b0) (fst b1)) (fun x => obind (half_sum (snd b0) (snd b1)) (fun y => Ok (mkpt x y)))).
Proof. intros [b0 b1]. unfold g_BoundBox_center. apply center_eq. Qed.

(** `self.points.bbox().center()` of `Polygon::label_location` *)
Lemma tie_points_bbox_center : forall ps : list point,
  raw_of (cbnd _ _ (g_Vec_Point_bbox zc_kops (map (fun p => KernelsTieContains_proofs.Pz (pt2 p)) ps))
               (fun b => g_BoundBox_center zc_kops b))
  = bbox_center ps.
Proof.
  intros. rewrite <- map_map. rewrite KernelsTieContains_proofs.tie_points_bbox. cbn [cbnd].
  rewrite tie_bbox_center. unfold bbox_center. destruct (Contains.points_bbox (map pt2 ps)) as [b0 b1]. reflexivity.
Qed.
