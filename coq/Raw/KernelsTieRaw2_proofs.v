(** Tie (a) of DESIGN.md 2.3 for the geometry conversions of the protobuf exporter / importer (family "raw_proto",
    property C14): the definitions generated from layout21raw/src/proto.rs `ProtoExporter::export_point`, `export_rect`,
    `ProtoImporter::import_point`, `import_rect` (Gen/KernelsRaw2Gen.v), read over Z with range checks and abstract errors
    ([rc_xops], Raw/KernelsInstRaw2.v), EQUAL [export_point], [export_rect], [import_point], [import_rect] of
    Raw/RawProto.v on values of the Rust types (coordinates in the range of `isize` = `i64`), the error message apart
    ([ounit]).  The `net` string of a rectangle is not represented in the generated record. *)
From Coq Require Import ZArith Bool List Lia String.
From L21 Require Import Base.KernelOps Base.KernelOpsX Base.Outcome Gen.KernelsRaw2Gen Raw.KernelsInstRaw2.
From L21 Require Import Raw.RawData Raw.RawProto.
Import ListNotations.
Local Open Scope Z_scope.
Import PB.

Lemma i64_ity : forall z, ity_in I64 z = i64_okb z.
Proof. reflexivity. Qed.
Lemma isize_ity : forall z, ity_in Isize z = i64_okb z.
Proof. reflexivity. Qed.

Lemma tie_proto_export_point : forall p, pt_ok p ->
  g_ProtoExporter_export_point rc_xops mk_gProtoExporter (Gpt p) = Ok (Gpp (export_point p)).
Proof.
  intros p [Hx Hy]. unfold g_ProtoExporter_export_point, g_proto__Point_new.
  cbn [rc_xops kx_base rc_kops k_bind k_ret i_try_from_q Gpt gPoint_x gPoint_y].
  rewrite i64_ity, Hx. cbn [ou_bind obind]. rewrite i64_ity, Hy. reflexivity.
Qed.

Lemma tie_proto_import_point : forall p, ppt_ok p ->
  g_ProtoImporter_import_point rc_xops mk_gProtoImporter (Gpp p) = Ok (Gpt (import_point p)).
Proof.
  intros p [Hx Hy]. unfold g_ProtoImporter_import_point, g_Point_new.
  cbn [rc_xops kx_base rc_kops k_bind k_ret i_try_from_q Gpp gproto__Point_x gproto__Point_y].
  rewrite isize_ity, Hx. cbn [ou_bind obind]. rewrite isize_ity, Hy. reflexivity.
Qed.

Lemma min_ok : forall a b, i64_okb a = true -> i64_okb b = true -> i64_okb (Z.min a b) = true.
Proof. intros a b Ha Hb. destruct (Z.min_spec a b) as [[_ E]|[_ E]]; rewrite E; assumption. Qed.
Lemma max_ok : forall a b, i64_okb a = true -> i64_okb b = true -> i64_okb (Z.max a b) = true.
Proof. intros a b Ha Hb. destruct (Z.max_spec a b) as [[_ E]|[_ E]]; rewrite E; assumption. Qed.

Lemma tie_proto_export_rect : forall p0 p1, pt_ok p0 -> pt_ok p1 ->
  g_ProtoExporter_export_rect rc_xops mk_gProtoExporter (mk_gRect (Gpt p0) (Gpt p1))
  = ounit (omap Gprect (export_rect p0 p1)).
Proof.
  intros p0 p1 [Hx0 Hy0] [Hx1 Hy1]. unfold g_ProtoExporter_export_rect, g_proto__Point_new, export_rect.
  cbn [rc_xops kx_base rc_kops k_bind k_ret i_cast i_min i_max i_sub gRect_p0 gRect_p1 Gpt gPoint_x gPoint_y].
  cbn [ou_bind obind]. change (ity_in I64) with i64_okb.
  rewrite (min_ok _ _ Hx0 Hx1), (max_ok _ _ Hx0 Hx1).
  unfold rc_chk. change (ity_in I64) with i64_okb.
  destruct (i64_okb (Z.max (px p0) (px p1) - Z.min (px p0) (px p1))); cbn [andb ou_bind obind]; [|reflexivity].
  rewrite (min_ok _ _ Hy0 Hy1), (max_ok _ _ Hy0 Hy1).
  destruct (i64_okb (Z.max (py p0) (py p1) - Z.min (py p0) (py p1))); reflexivity.
Qed.

Lemma tie_proto_import_rect : forall r, prect_ok r ->
  g_ProtoImporter_import_rect rc_xops mk_gProtoImporter (Gprect r) = ounit (omap Gshape (import_rect r)).
Proof.
  intros [net ll w h] [Hll [Hw Hh]]. unfold g_ProtoImporter_import_rect, import_rect.
  cbn [pr_ll pr_width pr_height Gprect gproto__Rectangle_lower_left gproto__Rectangle_width gproto__Rectangle_height] in *.
  destruct ll as [p|]; cbn [option_map]; [|reflexivity].
  cbn [rc_xops kx_base rc_kops k_bind k_ret k_fail i_try_from_q i_add]. fold rc_xops.
  rewrite (tie_proto_import_point p Hll). cbn [ou_bind obind].
  rewrite isize_ity, Hw. cbn [ou_bind obind]. rewrite isize_ity, Hh. cbn [ou_bind obind Gpt gPoint_x gPoint_y import_point px py].
  unfold rc_chk, g_Point_new. change (ity_in Isize) with i64_okb.
  destruct (i64_okb (ppx p + w)); cbn [andb ou_bind obind]; [|reflexivity].
  change (ity_in Isize) with i64_okb.
  destruct (i64_okb (ppy p + h)); reflexivity.
Qed.
