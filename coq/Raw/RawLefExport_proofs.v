(** C20 for the raw -> LEF exporter (model Raw/RawLefExport.v): proofs.
    Uses the definitions of Order/Determinism_proofs.v ([lib_maps_permuted], [perm_oracle],
    [sorted_by_layer_order_irrelevant]) and, for the chain LEF -> raw -> LEF, the specification theorem of property
    C16 ([RawLef_proofs.import_spec]: what the importer returns realises [RawLefSpec.spec_abstract]).

    Contents: 1 [mapM]; 2 the exporter does not depend on the listing order of the hash maps
    ([lef_export_order_independent], [lef_export_any_hash_order]; refuted without the sort:
    [lef_export_map_order_refuted]); 3 LEF -> raw -> LEF: the relations [coord_back] .. [macro_back] and
    [lef_import_export_coordinates]; the importer returns maps with distinct keys ([lef_import_maps_wf],
    [lef_reexport_any_hash_order]); 4 only the abstracts are read; 5 the outcome on the importer's image: never an
    error, a panic exactly when there is a PATH ([lef_reexport_outcome]); 6 the exporter writes no SIZE, so the
    importer refuses every exported macro ([lef_export_reimport_no_size]). *)
From Coq Require Import ZArith List String Bool Lia Permutation Sorted.
From L21 Require Import Base.Outcome Raw.RawData Raw.RawLefDec Raw.RawLefExport Order.Determinism_proofs.
From L21 Require Raw.RawProto Raw.RawLefTypes Raw.RawLef Raw.RawLefSpec Raw.RawLef_proofs.
Import ListNotations.
Set Implicit Arguments.
Local Open Scope list_scope.
Local Open Scope outcome_scope.

Module P := Raw.RawProto.
Module T := Raw.RawLefTypes.

(** * 1. Generic facts about [mapM] *)
Lemma mapM_ext : forall (A B : Type) (f g : A -> res B) l, (forall x, f x = g x) -> mapM f l = mapM g l.
Proof.
  intros A B f g l H. induction l as [|x r IH]; cbn [mapM]; [reflexivity|]. rewrite H, IH. reflexivity.
Qed.

Lemma mapM_cong : forall (A A' B : Type) (R : A -> A' -> Prop) (f : A -> res B) (g : A' -> res B) l l',
  Forall2 R l l' -> (forall x y, R x y -> f x = g y) -> mapM f l = mapM g l'.
Proof.
  intros A A' B R f g l l' HF Hfg. induction HF as [|x y l l' Hxy HF IH]; cbn [mapM]; [reflexivity|].
  rewrite (Hfg _ _ Hxy), IH. reflexivity.
Qed.

(** * 2. The exporter does not depend on the order in which the hash maps list their entries *)
Section LefExport.
Variable v : xvariant.
Variables ord1 ord2 : P.oracle.
Hypothesis Hord : forall m1 m2, map_permuted m1 m2 -> ord1 m1 = ord2 m2.

Lemma export_port_permuted : forall u ly p1 p2, port_permuted p1 p2 ->
  export_port v u ly ord1 p1 = export_port v u ly ord2 p2.
Proof.
  intros u ly p1 p2 [Hnet Hm]. unfold export_port. rewrite (Hord Hm), Hnet. reflexivity.
Qed.

Lemma export_abstract_permuted : forall u ly a1 a2, abs_permuted a1 a2 ->
  export_abstract v u ly ord1 a1 = export_abstract v u ly ord2 a2.
Proof.
  intros u ly a1 a2 [Hname [_ [Hports Hblk]]]. unfold export_abstract.
  rewrite (mapM_cong (export_port v u ly ord1) (export_port v u ly ord2) Hports)
    by (intros x y Hxy; apply export_port_permuted; exact Hxy).
  rewrite (Hord Hblk), Hname. reflexivity.
Qed.

Lemma export_cells_permuted : forall u ly cs1 cs2, Forall2 cell_permuted cs1 cs2 ->
  export_cells v u ly ord1 cs1 = export_cells v u ly ord2 cs2.
Proof.
  intros u ly cs1 cs2 HF. induction HF as [|c1 c2 r1 r2 [_ [_ Habs]] HF IH]; cbn [export_cells]; [reflexivity|].
  unfold oabs_permuted in Habs. destruct (c_abs c1) as [a1|], (c_abs c2) as [a2|]; try contradiction; [|exact IH].
  rewrite (export_abstract_permuted u ly Habs), IH. reflexivity.
Qed.

Lemma export_with_permuted : forall L1 L2, lib_maps_permuted L1 L2 -> export_with v ord1 L1 = export_with v ord2 L2.
Proof.
  intros L1 L2 [_ [Hu [Hly HF]]]. unfold export_with.
  rewrite Hu, Hly, (export_cells_permuted (lib_units L2) (lib_layers L2) HF). reflexivity.
Qed.
End LefExport.

Theorem lef_export_order_independent : forall v L1 L2, lib_maps_permuted L1 L2 -> export_gen v L1 = export_gen v L2.
Proof.
  intros v L1 L2 H. unfold export_gen. apply export_with_permuted; [|exact H].
  intros m1 m2 [Hnd Hp]. apply sorted_by_layer_order_irrelevant; assumption.
Qed.

Theorem lef_export_any_hash_order : forall v h1 h2 L, perm_oracle h1 -> perm_oracle h2 -> lib_maps_wf L ->
  export_with v (fun m => P.sorted_by_layer (h1 m)) L = export_with v (fun m => P.sorted_by_layer (h2 m)) L.
Proof.
  intros v h1 h2 L H1 H2 Hwf. apply export_with_permuted; [|exact Hwf].
  apply sorted_after_hash_order; assumption.
Qed.

(** the witness: one cell, an abstract with one port on two NAMED layers (the exporter refuses layers without name) *)
Local Open Scope string_scope.
Definition wl_layer (n : Z) (nm : string) : layer := mklayer n (Some nm) [].
Definition wl_lib (m : shapemap) : library :=
  mklib "lib" Nano [wl_layer 5 "met1"; wl_layer 6 "met2"]
        [mkcell "c" (Some (mkabstract "c" [mkpt 0 0; mkpt 100 0; mkpt 100 100; mkpt 0 100]%Z [mkabsport "a" m] m)) None].

Lemma wl_permuted : lib_maps_permuted (wl_lib w_m12) (wl_lib w_m21).
Proof.
  assert (Hm : map_permuted w_m12 w_m21).
  { split; [|apply perm_swap]. repeat constructor; cbn; intuition discriminate. }
  unfold lib_maps_permuted, wl_lib; cbn [lib_name lib_units lib_layers lib_cells].
  split; [reflexivity|]. split; [reflexivity|]. split; [reflexivity|].
  constructor; [|constructor].
  unfold cell_permuted; cbn [c_name c_layout c_abs oabs_permuted].
  split; [reflexivity|]. split; [reflexivity|].
  unfold abs_permuted; cbn [ab_name ab_outline ab_ports ab_blockages].
  split; [reflexivity|]. split; [reflexivity|]. split; [|exact Hm].
  constructor; [|constructor]. split; [reflexivity|exact Hm].
Qed.

Theorem lef_export_map_order_refuted : forall v,
  exists L1 L2 X1 X2, lib_maps_permuted L1 L2 /\
    export_with v (fun m => m) L1 = Ok X1 /\ export_with v (fun m => m) L2 = Ok X2 /\ X1 <> X2.
Proof.
  intros [[|]]; exists (wl_lib w_m12), (wl_lib w_m21); eexists; eexists;
    (split; [exact wl_permuted|]); (split; [vm_compute; reflexivity|]); (split; [vm_compute; reflexivity|]); discriminate.
Qed.

(** * 3. LEF -> raw -> LEF: what the exporter gives back on the importer's image *)
Module S := Raw.RawLefSpec.
Module I := Raw.RawLef.
Module IP := Raw.RawLef_proofs.
Local Open Scope Z_scope.

(** [coord_back v d d']: the LEF decimal [d] (microns) is a whole number [n] of raw units (Angstrom) and [d'] is
    what the exporter writes for [n] *)
Definition coord_back (v : xvariant) (d d' : dec) : Prop :=
  exists n, S.scaled_is d n /\ d' = export_dist v Angstrom n.
Definition point_back (v : xvariant) (p q : T.lpoint) : Prop :=
  coord_back v (T.lpx p) (T.lpx q) /\ coord_back v (T.lpy p) (T.lpy q).
Definition geom_back (v : xvariant) (g g' : T.lgeom) : Prop :=
  match g, g' with
  | T.LShape (T.LRect p0 p1), T.LShape (T.LRect q0 q1) => point_back v p0 q0 /\ point_back v p1 q1
  | T.LShape (T.LPolygon ps), T.LShape (T.LPolygon qs) => Forall2 (point_back v) ps qs
  | _, _ => False
  end.
(** a LAYER statement as the exporter writes it: no vias, no EXCEPTPGNET, no SPACING, no WIDTH *)
Definition lg_plain (lg : T.llayergeoms) : Prop :=
  T.lg_nvias lg = 0%nat /\ T.lg_except_pg lg = false /\ T.lg_spacing lg = None /\ T.lg_width lg = None.
(** the LAYER statements [lgs] of a pin (all its ports) or of the obstructions come back as [lgs']:
    ONE statement per layer name, the same set of names, in ascending order of the layer keys of the table [L'];
    under each name the geometries written under that name anywhere in [lgs], in order, one for one *)
Definition lgs_back (v : xvariant) (L' : T.layers) (lgs lgs' : list T.llayergeoms) : Prop :=
  NoDup (map T.lg_layer lgs') /\
  (forall nm, In nm (map T.lg_layer lgs) <-> In nm (map T.lg_layer lgs')) /\
  Forall (fun lg' => lg_plain lg' /\
                     Forall2 (fun wg g' => geom_back v (snd wg) g') (S.geoms_named (T.lg_layer lg') lgs) (T.lg_geoms lg')) lgs' /\
  (exists ks, map (T.key_of_name L') (map T.lg_layer lgs') = map Some ks /\ StronglySorted lt ks).
Definition pin_back (v : xvariant) (L' : T.layers) (p p' : T.lpin) : Prop :=
  T.pin_name p' = T.pin_name p /\
  exists lgs', T.pin_ports p' = [lgs'] /\ lgs_back v L' (List.concat (T.pin_ports p)) lgs'.
Definition macro_back (v : xvariant) (L' : T.layers) (m m' : T.lmacro) : Prop :=
  T.m_name m' = T.m_name m /\ T.m_size m' = None /\
  Forall2 (pin_back v L') (T.m_pins m) (T.m_pins m') /\ lgs_back v L' (T.m_obs m) (T.m_obs m').

(** ** decimals *)
Lemma dec_num_new : forall n s, dec_num (dec_new n s) = n.
Proof.
  intros n s. unfold dec_num, dec_new; cbn [dneg dmant]. destruct (Z.ltb_spec n 0); lia.
Qed.

Lemma coord_back_original : forall d d', coord_back original d d' ->
  dscale d' = 0%nat /\ dec_num d' * pow10 (dscale d) = dec_num d * 10000.
Proof.
  intros d d' [n [Hs ->]]. unfold export_dist; cbn [xv_scaled original]. unfold dec_of_int.
  split; [reflexivity|]. rewrite dec_num_new. unfold S.scaled_is, S.units_per_micron in Hs. lia.
Qed.

Lemma coord_back_repaired : forall d d', coord_back repaired d d' -> dscale d' = 4%nat /\ dec_eq d d'.
Proof.
  intros d d' [n [Hs ->]]. unfold export_dist; cbn [xv_scaled repaired units_digits].
  split; [reflexivity|]. unfold dec_eq. rewrite dec_num_new. cbn [dscale dec_new]. rewrite IP.pow10_4.
  unfold S.scaled_is, S.units_per_micron in Hs. lia.
Qed.

Lemma coord_back_original_not_value :
  exists d d', dec_wf d /\ coord_back original d d' /\ ~ dec_eq d d'.
Proof.
  exists (mkdec false 150 2), (mkdec false 15000 0). split; [|split].
  - unfold dec_wf; cbn [dmant dscale]. rewrite IP.two96_val. lia.
  - exists 15000. split; [reflexivity|reflexivity].
  - unfold dec_eq. cbn. discriminate.
Qed.

Lemma export_dist_wf : forall v u n, in_isize n = true -> dec_wf (export_dist v u n).
Proof.
  intros v u n Hn. unfold in_isize, isize_min, isize_max in Hn. apply andb_prop in Hn. destruct Hn as [H1 H2].
  apply Z.leb_le in H1. apply Z.leb_le in H2.
  assert (Hm : 0 <= Z.abs n < two96) by (rewrite IP.two96_val; lia).
  unfold export_dist, dec_of_int. destruct (xv_scaled v); split; cbn [dmant dscale dec_new]; try exact Hm; try lia.
  destruct u; cbn; lia.
Qed.

(** raw -> LEF -> raw, one coordinate: the repaired exporter writes microns, which the importer scales back *)
Lemma import_export_dist_repaired : forall n, in_isize n = true -> I.import_dist (export_dist repaired Angstrom n) = Ok n.
Proof.
  intros n Hn. apply (proj2 (proj1 (IP.dist_exact (@export_dist_wf repaired Angstrom n Hn)) n)). split; [|exact Hn].
  unfold S.scaled_is, S.units_per_micron, export_dist; cbn [xv_scaled repaired units_digits].
  rewrite dec_num_new. cbn [dscale dec_new]. rewrite IP.pow10_4. reflexivity.
Qed.
(** ... the exporter as found writes raw units, which the importer reads as microns *)
Lemma import_export_dist_original : forall u n, in_isize n = true -> in_isize (n * 10000) = true ->
  I.import_dist (export_dist original u n) = Ok (n * 10000).
Proof.
  intros u n Hn Hn'. apply (proj2 (proj1 (IP.dist_exact (@export_dist_wf original u n Hn)) (n * 10000))). split; [|exact Hn'].
  unfold S.scaled_is, S.units_per_micron, export_dist; cbn [xv_scaled original]. unfold dec_of_int.
  rewrite dec_num_new. cbn [dscale dec_new]. rewrite IP.pow10_0. lia.
Qed.

(** ** lists *)
Lemma mapM_ok_Forall2 : forall (A B : Type) (f : A -> res B) l l', mapM f l = Ok l' -> Forall2 (fun a b => f a = Ok b) l l'.
Proof.
  intros A B f. induction l as [|a r IH]; intros l' H; cbn [mapM] in H.
  - inversion H. constructor.
  - destruct (f a) as [b| | |] eqn:Hb; cbn [obind] in H; try discriminate.
    destruct (mapM f r) as [bs| | |]; cbn [obind] in H; try discriminate. inversion H; subst. constructor; auto.
Qed.

Lemma Forall2_in_l : forall (A B : Type) (R : A -> B -> Prop) l l' a, Forall2 R l l' -> In a l -> exists b, In b l' /\ R a b.
Proof.
  intros A B R l l' a HF. induction HF as [|x y l l' Hxy HF IH]; intros Hin; [destruct Hin|].
  destruct Hin as [->|Hin]; [exists y; split; [left; reflexivity|exact Hxy]|].
  destruct (IH Hin) as [b [Hb Hr]]. exists b. split; [right; exact Hb|exact Hr].
Qed.
Lemma Forall2_in_r : forall (A B : Type) (R : A -> B -> Prop) l l' b, Forall2 R l l' -> In b l' -> exists a, In a l /\ R a b.
Proof.
  intros A B R l l' b HF. induction HF as [|x y l l' Hxy HF IH]; intros Hin; [destruct Hin|].
  destruct Hin as [->|Hin]; [exists x; split; [left; reflexivity|exact Hxy]|].
  destruct (IH Hin) as [a [Ha Hr]]. exists a. split; [right; exact Ha|exact Hr].
Qed.
Lemma Forall2_map_l : forall (A A' B : Type) (g : A -> A') (R : A' -> B -> Prop) l l',
  Forall2 R (map g l) l' -> Forall2 (fun a b => R (g a) b) l l'.
Proof.
  intros A A' B g R. induction l as [|a r IH]; intros l' H; inversion H; subst; constructor; auto.
Qed.
Lemma Forall2_trans' : forall (A B C : Type) (R1 : A -> B -> Prop) (R2 : B -> C -> Prop) l1 l2 l3,
  Forall2 R1 l1 l2 -> Forall2 R2 l2 l3 -> Forall2 (fun a c => exists b, R1 a b /\ R2 b c) l1 l3.
Proof.
  intros A B C R1 R2 l1 l2 l3 H1. revert l3. induction H1 as [|a b l1 l2 Hab H1 IH]; intros l3 H2; inversion H2; subst; constructor; eauto.
Qed.
Lemma Forall2_impl : forall (A B : Type) (R R' : A -> B -> Prop) l l', (forall a b, R a b -> R' a b) -> Forall2 R l l' -> Forall2 R' l l'.
Proof. intros A B R R' l l' H HF. induction HF; constructor; auto. Qed.
Lemma Forall2_map_eq : forall (A B C : Type) (f : A -> C) (g : B -> C) l l', Forall2 (fun a b => g b = f a) l l' -> map g l' = map f l.
Proof. intros A B C f g l l' HF. induction HF as [|a b l l' Hab HF IH]; cbn [map]; [reflexivity|]. rewrite Hab, IH. reflexivity. Qed.
Lemma Forall2_NoDup_map : forall (A B C D : Type) (R : A -> B -> Prop) (f : A -> C) (g : B -> D) l l',
  Forall2 R l l' -> NoDup (map f l) ->
  (forall a a' b b', In a l -> In a' l -> R a b -> R a' b' -> g b = g b' -> f a = f a') -> NoDup (map g l').
Proof.
  intros A B C D R f g l l' HF. induction HF as [|a b l l' Hab HF IH]; intros Hnd Hinj; cbn [map]; [constructor|].
  cbn [map] in Hnd. inversion Hnd as [|? ? Hni Hnd']; subst. constructor.
  - intros Hin. apply in_map_iff in Hin. destruct Hin as [b' [Hg Hb']].
    destruct (Forall2_in_r _ HF Hb') as [a' [Ha' Hr']]. apply Hni. apply in_map_iff. exists a'. split; [|exact Ha'].
    symmetry. apply (Hinj a a' b b'); [left; reflexivity|right; exact Ha'|exact Hab|exact Hr'|symmetry; exact Hg].
  - apply IH; [exact Hnd'|]. intros a1 a2 b1 b2 H1 H2. apply Hinj; right; assumption.
Qed.
Lemma Forall2_Forall_r : forall (A B : Type) (R : A -> B -> Prop) (Q : B -> Prop) l l',
  Forall2 R l l' -> (forall a b, In a l -> R a b -> Q b) -> Forall Q l'.
Proof.
  intros A B R Q l l' HF. induction HF as [|a b l l' Hab HF IH]; intros H; constructor.
  - apply (H a b); [left; reflexivity|exact Hab].
  - apply IH. intros a' b' Hin. apply H. right. exact Hin.
Qed.

(** ** `sorted_by_layer`: a permutation, in ascending key order *)
Lemma insert_entry_perm : forall x l, Permutation (P.insert_entry x l) (x :: l).
Proof.
  intros x. induction l as [|y r IH]; cbn [P.insert_entry]; [reflexivity|].
  destruct (Nat.leb (fst x) (fst y)); [reflexivity|]. rewrite IH. apply perm_swap.
Qed.
Lemma sorted_by_layer_perm : forall m, Permutation (P.sorted_by_layer m) m.
Proof.
  unfold P.sorted_by_layer. induction m as [|x r IH]; cbn [fold_right]; [reflexivity|].
  rewrite insert_entry_perm. constructor. exact IH.
Qed.
Lemma sorted_by_layer_sorted : forall m : shapemap, NoDup (map fst m) -> StronglySorted lt (map fst (P.sorted_by_layer m)).
Proof.
  intros m Hnd.
  assert (Hs : StronglySorted (@SortedIter.klt (list shape)) (map zk (P.sorted_by_layer m))).
  { rewrite map_zk_sorted. apply SortedIter.isort_sorted. rewrite keys_zk.
    apply FinFun.Injective_map_NoDup; [|exact Hnd]. intros a b H. apply Nat2Z.inj. exact H. }
  induction (P.sorted_by_layer m) as [|x r IH]; cbn [map] in *; [constructor|].
  inversion Hs as [|? ? Hs' Hall]; subst. constructor; [apply IH; exact Hs'|].
  rewrite Forall_forall in *. intros k Hk. apply in_map_iff in Hk. destruct Hk as [y [<- Hy]].
  specialize (Hall (zk y) (in_map zk _ _ Hy)). unfold SortedIter.klt, zk in Hall. cbn [fst] in Hall. lia.
Qed.

(** ** the layer table and the shape maps of the importer, in the data model of Raw/RawData.v *)
Lemma get_name_import : forall L k, get_name (map raw_layer_of (T.l_slots L)) k = T.name_of_key L k.
Proof.
  intros L k. unfold get_name, ly_get, T.name_of_key. rewrite nth_error_map.
  destruct (nth_error (T.l_slots L) k) as [l|]; reflexivity.
Qed.
Lemma raw_smap_keys : forall M, map fst (raw_smap_of M) = map fst M.
Proof. intros M. unfold raw_smap_of. rewrite map_map. reflexivity. Qed.
Lemma raw_smap_in : forall M e, In e (raw_smap_of M) -> exists k sh, In (k, sh) M /\ e = (k, map raw_shape_of sh).
Proof.
  intros M e H. unfold raw_smap_of in H. apply in_map_iff in H. destruct H as [[k sh] [<- Hin]]. exists k, sh. split; [exact Hin|reflexivity].
Qed.
Lemma nlookup_in_nodup : forall (M : T.smap) k sh, NoDup (map fst M) -> In (k, sh) M -> T.nlookup k M = Some sh.
Proof.
  induction M as [|[k0 s0] r IH]; intros k sh Hnd Hin; [destruct Hin|]. cbn [T.nlookup].
  cbn [map fst] in Hnd. inversion Hnd as [|? ? Hni Hnd']; subst.
  destruct Hin as [Heq|Hin].
  - inversion Heq; subst. rewrite Nat.eqb_refl. reflexivity.
  - destruct (Nat.eqb_spec k k0) as [->|Hne]; [|apply IH; assumption].
    exfalso. apply Hni. apply in_map_iff. exists (k0, sh). split; [reflexivity|exact Hin].
Qed.
Lemma nlookup_some_in : forall (M : T.smap) k sh, T.nlookup k M = Some sh -> In (k, sh) M.
Proof.
  induction M as [|[k0 s0] r IH]; intros k sh H; [discriminate|]. cbn [T.nlookup] in H.
  destruct (Nat.eqb_spec k k0) as [->|Hne]; [inversion H; left; reflexivity|right; apply IH; exact H].
Qed.

(** what the specification of the import says about ONE entry of a shape map *)
Lemma shapes_match_entry : forall L lgs M k sh, T.layers_wf L -> S.shapes_match L lgs M -> In (k, sh) M ->
  exists nm, In nm (map T.lg_layer lgs) /\ T.key_of_name L nm = Some k /\ T.name_of_key L k = Some nm /\
             S.spec_shapes_named nm lgs = Some sh.
Proof.
  intros L lgs M k sh Hwf [Hnd [Hnm Hk]] Hin.
  assert (Hkin : In k (map fst M)) by (apply in_map_iff; exists (k, sh); split; [reflexivity|exact Hin]).
  destruct (Hk k Hkin) as [nm [Hnmin Hkey]]. exists nm. split; [exact Hnmin|]. split; [exact Hkey|].
  destruct (Hnm nm Hnmin) as [k0 [sh0 [Hkey0 [Hname [Hlook Hspec]]]]].
  assert (k0 = k) by congruence. subst k0. split; [exact Hname|].
  rewrite (@nlookup_in_nodup M k sh Hnd Hin) in Hlook. inversion Hlook; subst. exact Hspec.
Qed.

(** ** shapes *)
Lemma spec_coord_back : forall v d n, S.spec_coord d = Some n -> coord_back v d (export_dist v Angstrom n).
Proof. intros v d n H. exists n. split; [apply IP.spec_coord_scaled; exact H|reflexivity]. Qed.

Lemma spec_point_back : forall v p q, S.spec_point p = Some q -> point_back v p (export_point v Angstrom (raw_point_of q)).
Proof.
  intros v p q H. unfold S.spec_point in H.
  destruct (S.spec_coord (T.lpx p)) as [x|] eqn:Hx; [|discriminate].
  destruct (S.spec_coord (T.lpy p)) as [y|] eqn:Hy; [|discriminate]. inversion H; subst.
  split; cbn [export_point T.lpx T.lpy raw_point_of px py fst snd]; apply spec_coord_back; assumption.
Qed.

Lemma spec_points_back : forall v pts l, S.opt_all S.spec_point pts = Some l ->
  Forall2 (point_back v) pts (map (export_point v Angstrom) (map raw_point_of l)).
Proof.
  intros v pts l H. apply IP.opt_all_Forall2 in H. induction H as [|p q pts l Hpq H IH]; cbn [map]; constructor; [|exact IH].
  apply spec_point_back. exact Hpq.
Qed.

Lemma export_shape_back : forall v w g s g', S.spec_geom w g = Some s -> export_shape v Angstrom (raw_shape_of s) = Ok g' -> geom_back v g g'.
Proof.
  intros v w g s g' Hs He. destruct g as [sh|sh]; cbn [S.spec_geom] in Hs; [|discriminate].
  destruct sh as [p0 p1|pts|pts]; cbn [S.spec_shape] in Hs.
  - destruct (S.spec_point p0) as [a|] eqn:Ha; [|discriminate]. destruct (S.spec_point p1) as [b|] eqn:Hb; [|discriminate].
    inversion Hs; subst s. cbn [raw_shape_of export_shape] in He. inversion He; subst g'. cbn [geom_back].
    split; apply spec_point_back; assumption.
  - destruct (S.opt_all S.spec_point pts) as [l|] eqn:Hl; [|discriminate]. inversion Hs; subst s.
    cbn [raw_shape_of export_shape] in He. inversion He; subst g'. cbn [geom_back]. apply spec_points_back. exact Hl.
  - destruct w as [w|]; [|discriminate]. destruct (S.spec_coord w) as [W|]; [|discriminate].
    destruct (S.opt_all S.spec_point pts) as [l|]; [|discriminate]. destruct (0 <=? W); [|discriminate].
    inversion Hs; subst s. cbn [raw_shape_of export_shape] in He. discriminate.
Qed.

(** ** one shape map (the ports of a pin merged, or the obstructions) *)
Section OneMap.
Variable v : xvariant.
Variable L' : T.layers.
Hypothesis Hwf : T.layers_wf L'.
Let ly := map raw_layer_of (T.l_slots L').

(** the exported statement of one entry *)
Lemma export_entry : forall lgs M k sh lg', S.shapes_match L' lgs M -> In (k, sh) M ->
  export_layer_shapes v Angstrom ly (k, map raw_shape_of sh) = Ok lg' ->
  exists nm, In nm (map T.lg_layer lgs) /\ T.key_of_name L' nm = Some k /\ T.lg_layer lg' = nm /\ lg_plain lg' /\
             Forall2 (fun wg g' => geom_back v (snd wg) g') (S.geoms_named nm lgs) (T.lg_geoms lg').
Proof.
  intros lgs M k sh lg' Hm Hin He.
  destruct (@shapes_match_entry L' lgs M k sh Hwf Hm Hin) as [nm [Hnmin [Hkey [Hname Hspec]]]]. exists nm.
  unfold export_layer_shapes, export_layer in He. cbn [fst snd] in He. unfold ly in He. rewrite get_name_import, Hname in He.
  cbn [obind] in He. destruct (mapM (export_shape v Angstrom) (map raw_shape_of sh)) as [gs| | |] eqn:Hgs; cbn [obind] in He; try discriminate.
  inversion He; subst lg'. cbn [T.lg_layer T.lg_geoms]. split; [exact Hnmin|]. split; [exact Hkey|]. split; [reflexivity|].
  split; [repeat split|].
  apply IP.shapes_one_per_geometry in Hspec. apply mapM_ok_Forall2 in Hgs. apply Forall2_map_l in Hgs.
  eapply Forall2_impl; [|exact (Forall2_trans' Hspec Hgs)].
  intros [w g] g' [s [H1 H2]]. cbn [fst snd] in *. eapply export_shape_back; eassumption.
Qed.

Lemma lgs_export_back : forall lgs M lgs', S.shapes_match L' lgs M ->
  mapM (export_layer_shapes v Angstrom ly) (P.sorted_by_layer (raw_smap_of M)) = Ok lgs' -> lgs_back v L' lgs lgs'.
Proof.
  intros lgs M lgs' Hm He. apply mapM_ok_Forall2 in He.
  set (Srt := P.sorted_by_layer (raw_smap_of M)) in *.
  assert (Hperm : Permutation Srt (raw_smap_of M)) by apply sorted_by_layer_perm.
  assert (HndM : NoDup (map fst M)) by (destruct Hm as [H _]; exact H).
  (* every visited entry comes from the map, and its statement is described by [export_entry] *)
  assert (Hent : forall e lg', In e Srt -> export_layer_shapes v Angstrom ly e = Ok lg' ->
            exists nm, In nm (map T.lg_layer lgs) /\ T.key_of_name L' nm = Some (fst e) /\ T.lg_layer lg' = nm /\ lg_plain lg' /\
                       Forall2 (fun wg g' => geom_back v (snd wg) g') (S.geoms_named nm lgs) (T.lg_geoms lg')).
  { intros e lg' Hin Hx. apply (Permutation_in _ Hperm) in Hin. destruct (@raw_smap_in M e Hin) as [k [sh [HinM ->]]].
    cbn [fst]. eapply export_entry; eassumption. }
  split; [|split; [|split]].
  - (* one statement per name *)
    apply (@Forall2_NoDup_map _ _ _ _ _ fst T.lg_layer _ _ He).
    + eapply Permutation_NoDup; [apply Permutation_map, Permutation_sym; exact Hperm|]. rewrite raw_smap_keys. exact HndM.
    + intros a a' b b' Ha Ha' Hab Hab' Hg.
      destruct (Hent a b Ha Hab) as [nm [_ [Hk [Hn _]]]]. destruct (Hent a' b' Ha' Hab') as [nm' [_ [Hk' [Hn' _]]]].
      assert (nm = nm') by congruence. subst nm'. congruence.
  - (* the same names *)
    intros nm. split; intros Hin.
    + destruct Hm as [_ [Hnm _]]. destruct (Hnm nm Hin) as [k [sh [Hkey [Hname [Hlook _]]]]].
      apply nlookup_some_in in Hlook.
      assert (HinS : In (k, map raw_shape_of sh) Srt).
      { apply (Permutation_in _ (Permutation_sym Hperm)). unfold raw_smap_of. apply in_map_iff. exists (k, sh). split; [reflexivity|exact Hlook]. }
      destruct (Forall2_in_l _ He HinS) as [lg' [Hlg' Hx]].
      destruct (Hent _ _ HinS Hx) as [nm' [_ [Hk' [Hn' _]]]]. cbn [fst] in Hk'.
      assert (nm' = nm) by (eapply IP.wf_key_inj; eassumption). subst nm'.
      apply in_map_iff. exists lg'. split; assumption.
    + apply in_map_iff in Hin. destruct Hin as [lg' [Hn Hlg']].
      destruct (Forall2_in_r _ He Hlg') as [e [HeS Hx]]. destruct (Hent _ _ HeS Hx) as [nm' [Hnmin [_ [Hn' _]]]]. congruence.
  - (* under each name, the geometries written under that name *)
    apply (@Forall2_Forall_r _ _ _ _ _ _ He). intros e lg' HeS Hx. destruct (Hent _ _ HeS Hx) as [nm [_ [_ [Hn [Hpl Hg]]]]].
    split; [exact Hpl|]. rewrite Hn. exact Hg.
  - (* in ascending key order *)
    exists (map fst Srt). split.
    + rewrite !map_map. apply (@Forall2_map_eq _ _ _ (fun e : nat * list shape => Some (fst e)) (fun lg => T.key_of_name L' (T.lg_layer lg))).
      clear Hperm. revert Hent. induction He as [|e lg' l l' Hx He IH]; intros Hent; constructor.
      * destruct (Hent e lg' (or_introl eq_refl) Hx) as [nm [_ [Hk [Hn _]]]]. rewrite Hn. exact Hk.
      * apply IH. intros e0 lg0 Hin. apply Hent. right. exact Hin.
    + apply sorted_by_layer_sorted. rewrite raw_smap_keys. exact HndM.
Qed.

(** ** pins, macros *)
Lemma export_pins_back : forall pins ports pins',
  Forall2 (fun pin port => T.ap_net port = T.pin_name pin /\ S.shapes_match L' (List.concat (T.pin_ports pin)) (T.ap_shapes port)) pins ports ->
  mapM (export_port v Angstrom ly P.sorted_by_layer) (map raw_port_of ports) = Ok pins' -> Forall2 (pin_back v L') pins pins'.
Proof.
  intros pins ports pins' HF. revert pins'. induction HF as [|pin port pins ports [Hnet Hm] HF IH]; intros pins' He; cbn [map mapM] in He.
  - inversion He. constructor.
  - destruct (export_port v Angstrom ly P.sorted_by_layer (raw_port_of port)) as [p'| | |] eqn:Hp; cbn [obind] in He; try discriminate.
    destruct (mapM (export_port v Angstrom ly P.sorted_by_layer) (map raw_port_of ports)) as [ps'| | |] eqn:Hps; cbn [obind] in He; try discriminate.
    inversion He; subst pins'. constructor; [|apply IH; reflexivity].
    unfold export_port in Hp. cbn [raw_port_of ap_shapes ap_net] in Hp.
    destruct (mapM (export_layer_shapes v Angstrom ly) (P.sorted_by_layer (raw_smap_of (T.ap_shapes port)))) as [lgs'| | |] eqn:Hl; cbn [obind] in Hp; try discriminate.
    inversion Hp; subst p'. split; [cbn [T.pin_name]; exact Hnet|]. exists lgs'. split; [reflexivity|].
    eapply lgs_export_back; eassumption.
Qed.

Lemma export_abstract_back : forall m a m', S.spec_abstract L' m a ->
  export_abstract v Angstrom ly P.sorted_by_layer (raw_abstract_of a) = Ok m' -> macro_back v L' m m'.
Proof.
  intros m a m' [Hname [_ [Hports Hblk]]] He. unfold export_abstract in He. cbn [raw_abstract_of ab_ports ab_blockages ab_name] in He.
  destruct (mapM (export_port v Angstrom ly P.sorted_by_layer) (map raw_port_of (T.a_ports a))) as [pins'| | |] eqn:Hp; cbn [obind] in He; try discriminate.
  destruct (mapM (export_layer_shapes v Angstrom ly) (P.sorted_by_layer (raw_smap_of (T.a_blockages a)))) as [obs'| | |] eqn:Ho; cbn [obind] in He; try discriminate.
  inversion He; subst m'. unfold macro_back; cbn [T.m_name T.m_size T.m_pins T.m_obs].
  split; [exact Hname|]. split; [reflexivity|]. split; [eapply export_pins_back; eassumption|eapply lgs_export_back; eassumption].
Qed.

Lemma export_cells_back : forall ms cells ms', Forall2 (S.spec_abstract L') ms cells ->
  export_cells v Angstrom ly P.sorted_by_layer (map (fun a => mkcell (T.a_name a) (Some (raw_abstract_of a)) None) cells) = Ok ms' ->
  Forall2 (macro_back v L') ms ms'.
Proof.
  intros ms cells ms' HF. revert ms'. induction HF as [|m a ms cells Hma HF IH]; intros ms' He; cbn [map export_cells c_abs] in He.
  - inversion He. constructor.
  - destruct (export_abstract v Angstrom ly P.sorted_by_layer (raw_abstract_of a)) as [m'| | |] eqn:Hm; cbn [obind] in He; try discriminate.
    match type of He with obind ?x _ = _ => destruct x as [r'| | |] eqn:Hr end; cbn [obind] in He; try discriminate.
    inversion He; subst ms'. constructor; [eapply export_abstract_back; eassumption|apply IH; reflexivity].
Qed.
End OneMap.

(** ** libraries *)
Theorem lef_import_export_coordinates : forall v lib L0 cells L' X,
  Forall T.lmacro_wf (T.lib_macros lib) -> IP.layers0_wf L0 ->
  I.import lib L0 = Ok (cells, L') -> export_gen v (raw_lib_of_import (cells, L')) = Ok X ->
  xl_dbu X = 10000 /\ T.lib_case_off (xl_lib X) = false /\
  Forall2 (macro_back v L') (T.lib_macros lib) (T.lib_macros (xl_lib X)).
Proof.
  intros v lib L0 cells L' X Hwf HL0 Hi He.
  destruct (@IP.import_spec lib L0 cells L' Hwf HL0 Hi) as [HwfL HF].
  unfold export_gen, export_with, raw_lib_of_import in He. cbn [lib_units lib_layers lib_cells fst snd] in He.
  change (export_units Angstrom) with (@Ok xerr Z 10000) in He. cbn [obind] in He.
  match type of He with obind ?x _ = _ => destruct x as [ms'| | |] eqn:Hms end; cbn [obind] in He; try discriminate.
  inversion He; subst X. cbn [xl_dbu xl_lib T.lib_case_off T.lib_macros]. split; [reflexivity|]. split; [reflexivity|].
  eapply export_cells_back; eassumption.
Qed.

(** ** the importer builds maps: what it returns has maps with distinct keys, so the chain LEF -> raw -> LEF is
    covered by [lef_export_any_hash_order] whatever order those freshly built maps are iterated in *)
Lemma raw_smap_wf : forall L lgs M, S.shapes_match L lgs M -> map_permuted (raw_smap_of M) (raw_smap_of M).
Proof.
  intros L lgs M [Hnd _]. apply map_wf_of_nodup. rewrite raw_smap_keys. exact Hnd.
Qed.

Theorem lef_import_maps_wf : forall lib L0 cells L',
  Forall T.lmacro_wf (T.lib_macros lib) -> IP.layers0_wf L0 -> I.import lib L0 = Ok (cells, L') ->
  lib_maps_wf (raw_lib_of_import (cells, L')).
Proof.
  intros lib L0 cells L' Hwf HL0 Hi. destruct (@IP.import_spec lib L0 cells L' Hwf HL0 Hi) as [_ HF].
  unfold lib_maps_wf, lib_maps_permuted, raw_lib_of_import; cbn [lib_name lib_units lib_layers lib_cells fst snd].
  split; [reflexivity|]. split; [reflexivity|]. split; [reflexivity|].
  apply Forall_Forall2_diag. apply Forall_forall. intros c Hc. apply in_map_iff in Hc. destruct Hc as [a [<- Ha]].
  destruct (Forall2_in_r _ HF Ha) as [m [_ [_ [_ [Hports Hblk]]]]].
  unfold cell_permuted; cbn [c_name c_layout c_abs oabs_permuted]. split; [reflexivity|]. split; [reflexivity|].
  unfold abs_permuted, raw_abstract_of; cbn [ab_name ab_outline ab_ports ab_blockages].
  split; [reflexivity|]. split; [reflexivity|]. split; [|eapply raw_smap_wf; exact Hblk].
  apply Forall_Forall2_diag. apply Forall_forall. intros p Hp. apply in_map_iff in Hp. destruct Hp as [port [<- Hport]].
  destruct (Forall2_in_r _ Hports Hport) as [pin [_ [_ Hm]]].
  split; [reflexivity|]. cbn [raw_port_of ap_shapes]. eapply raw_smap_wf; exact Hm.
Qed.

Theorem lef_reexport_any_hash_order : forall v h lib L0 r,
  Forall T.lmacro_wf (T.lib_macros lib) -> IP.layers0_wf L0 -> perm_oracle h -> I.import lib L0 = Ok r ->
  export_with v (fun m => P.sorted_by_layer (h m)) (raw_lib_of_import r) = export_gen v (raw_lib_of_import r).
Proof.
  intros v h lib L0 [cells L'] Hwf HL0 Hh Hi. unfold export_gen.
  apply (@lef_export_any_hash_order v h (fun m => m) (raw_lib_of_import (cells, L')) Hh); [intros m; apply Permutation_refl|].
  eapply lef_import_maps_wf; eassumption.
Qed.

(** * 4. What the exporter reads: the abstracts, in the order of the cell list; nothing else of a cell *)
Definition abstracts_of (cs : list cell) : list abstract :=
  flat_map (fun c => match c_abs c with Some a => [a] | None => [] end) cs.

Lemma export_cells_abstracts : forall v u ly ord cs,
  export_cells v u ly ord cs = mapM (export_abstract v u ly ord) (abstracts_of cs).
Proof.
  intros v u ly ord. induction cs as [|c r IH]; cbn [export_cells abstracts_of flat_map]; [reflexivity|].
  destruct (c_abs c) as [a|]; cbn [app mapM]; fold (abstracts_of r); rewrite IH; reflexivity.
Qed.

Theorem lef_export_reads_abstracts_only : forall v ord L1 L2,
  lib_units L1 = lib_units L2 -> lib_layers L1 = lib_layers L2 -> abstracts_of (lib_cells L1) = abstracts_of (lib_cells L2) ->
  export_with v ord L1 = export_with v ord L2.
Proof.
  intros v ord L1 L2 Hu Hl Ha. unfold export_with. rewrite !export_cells_abstracts, Hu, Hl, Ha. reflexivity.
Qed.

(** * 5. The outcome of the exporter on the importer's image: never an error; a panic exactly when the LEF
    library contains a PATH (the importer accepts paths, the exporter has `unimplemented!` for them) *)
Definition lgeom_is_path (g : T.lgeom) : Prop := match g with T.LShape (T.LPath _) => True | _ => False end.
Definition lgs_no_path (lgs : list T.llayergeoms) : Prop :=
  Forall (fun lg => Forall (fun g => ~ lgeom_is_path g) (T.lg_geoms lg)) lgs.
Definition macro_no_path (m : T.lmacro) : Prop := lgs_no_path (S.macro_lgs m).
Definition shape_is_path (s : T.shape) : Prop := match s with T.SPath _ _ => True | _ => False end.
Definition ok_or_panic {A : Type} (r : res A) : Prop := (exists y, r = Ok y) \/ r = Panic.

Lemma mapM_ok_all : forall (A B : Type) (f : A -> res B) l, (forall x, In x l -> exists y, f x = Ok y) -> exists ys, mapM f l = Ok ys.
Proof.
  intros A B f. induction l as [|a r IH]; intros H; cbn [mapM]; [eexists; reflexivity|].
  destruct (H a (or_introl eq_refl)) as [y Hy]. destruct IH as [ys Hys]; [intros x Hx; apply H; right; exact Hx|].
  rewrite Hy, Hys. cbn [obind]. eexists; reflexivity.
Qed.
Lemma mapM_ok_inv : forall (A B : Type) (f : A -> res B) l ys x, mapM f l = Ok ys -> In x l -> exists y, f x = Ok y.
Proof.
  intros A B f l ys x H Hin. apply mapM_ok_Forall2 in H. destruct (Forall2_in_l _ H Hin) as [y [_ Hy]]. exists y. exact Hy.
Qed.
Lemma mapM_ok_or_panic : forall (A B : Type) (f : A -> res B) l, (forall x, In x l -> ok_or_panic (f x)) -> ok_or_panic (mapM f l).
Proof.
  intros A B f. induction l as [|a r IH]; intros H; cbn [mapM]; [left; eexists; reflexivity|].
  destruct (H a (or_introl eq_refl)) as [[y Hy]|Hp]; rewrite ?Hy, ?Hp; cbn [obind]; [|right; reflexivity].
  destruct IH as [[ys Hys]|Hp]; [intros x Hx; apply H; right; exact Hx| |]; rewrite ?Hys, ?Hp; cbn [obind]; [left; eexists; reflexivity|right; reflexivity].
Qed.

Lemma mapM_map : forall (A A' B : Type) (g : A -> A') (f : A' -> res B) l, mapM f (map g l) = mapM (fun a => f (g a)) l.
Proof. intros A A' B g f. induction l as [|a r IH]; cbn [map mapM]; [reflexivity|]. rewrite IH. reflexivity. Qed.

(** a list is converted when every element is; it panics when the first element that is not converted panics *)
Lemma mapM_outcome_iff2 : forall (A B C : Type) (R : C -> A -> Prop) (f : A -> res B) (Q : C -> Prop) cs l,
  Forall2 R cs l -> (forall c x, R c x -> ok_or_panic (f x) /\ ((exists y, f x = Ok y) <-> Q c)) ->
  ok_or_panic (mapM f l) /\ ((exists ys, mapM f l = Ok ys) <-> Forall Q cs).
Proof.
  intros A B C R f Q cs l HF H. induction HF as [|c x cs l Hcx HF [IHo IHi]]; cbn [mapM].
  - split; [left; eexists; reflexivity|]. split; [intros _; constructor|intros _; eexists; reflexivity].
  - destruct (H c x Hcx) as [Ho Hi].
    assert (Hc : Forall Q (c :: cs) <-> Q c /\ Forall Q cs).
    { split; [intros H0; inversion H0; auto|intros [H1 H2]; constructor; assumption]. }
    rewrite Hc, <- Hi, <- IHi.
    destruct Ho as [[y Hy]|Hp]; rewrite ?Hy, ?Hp; cbn [obind].
    + destruct IHo as [[ys Hys]|Hp]; rewrite ?Hys, ?Hp; cbn [obind].
      * split; [left; eexists; reflexivity|]. split; [intros _; split; eexists; reflexivity|intros _; eexists; reflexivity].
      * split; [right; reflexivity|]. split; [intros [? H0]; discriminate|intros [_ [? H0]]; discriminate].
    + split; [right; reflexivity|]. split; [intros [? H0]; discriminate|intros [[? H0] _]; discriminate].
Qed.

Lemma export_shape_outcome : forall v u s,
  (shape_is_path s /\ export_shape v u (raw_shape_of s) = Panic) \/ (~ shape_is_path s /\ exists g, export_shape v u (raw_shape_of s) = Ok g).
Proof.
  intros v u [a b|l|w l]; cbn [raw_shape_of export_shape shape_is_path]; [right|right|left]; (split; [tauto|]); try reflexivity; eexists; reflexivity.
Qed.

Lemma spec_geom_path : forall w g s, S.spec_geom w g = Some s -> (shape_is_path s <-> lgeom_is_path g).
Proof.
  intros w g s H. destruct g as [sh|sh]; cbn [S.spec_geom] in H; [|discriminate].
  destruct sh as [p0 p1|pts|pts]; cbn [S.spec_shape] in H.
  - destruct (S.spec_point p0); [|discriminate]. destruct (S.spec_point p1); [|discriminate]. inversion H; subst. cbn. tauto.
  - destruct (S.opt_all S.spec_point pts); [|discriminate]. inversion H; subst. cbn. tauto.
  - destruct w as [w|]; [|discriminate]. destruct (S.spec_coord w) as [W|]; [|discriminate].
    destruct (S.opt_all S.spec_point pts); [|discriminate]. destruct (0 <=? W); [|discriminate]. inversion H; subst. cbn. tauto.
Qed.

Lemma geoms_named_from : forall nm lgs wg, In wg (S.geoms_named nm lgs) -> exists lg, In lg lgs /\ T.lg_layer lg = nm /\ In (snd wg) (T.lg_geoms lg).
Proof.
  intros nm. induction lgs as [|lg0 r IH]; intros wg H; cbn [S.geoms_named] in H; [destruct H|].
  apply in_app_iff in H. destruct H as [H|H].
  - destruct (String.eqb_spec nm (T.lg_layer lg0)) as [->|Hne]; [|destruct H].
    apply in_map_iff in H. destruct H as [g [<- Hg]]. exists lg0. split; [left; reflexivity|]. split; [reflexivity|exact Hg].
  - destruct (IH wg H) as [lg [Hl [Hn Hg]]]. exists lg. split; [right; exact Hl|]. split; assumption.
Qed.

(** the shapes of a map contain a path exactly when the LAYER statements they were imported from do *)
Lemma shapes_match_no_path : forall L lgs M, T.layers_wf L -> S.shapes_match L lgs M ->
  (lgs_no_path lgs <-> forall k sh, In (k, sh) M -> Forall (fun s => ~ shape_is_path s) sh).
Proof.
  intros L lgs M Hwf Hm. split.
  - intros Hnp k sh Hin. destruct (@shapes_match_entry L lgs M k sh Hwf Hm Hin) as [nm [_ [_ [_ Hspec]]]].
    apply IP.shapes_one_per_geometry in Hspec. apply Forall_forall. intros s Hs.
    destruct (Forall2_in_r _ Hspec Hs) as [wg [Hwg Hsg]]. destruct (geoms_named_from _ _ _ Hwg) as [lg [Hlg [_ Hg]]].
    unfold lgs_no_path in Hnp. rewrite Forall_forall in Hnp. specialize (Hnp lg Hlg). rewrite Forall_forall in Hnp. specialize (Hnp _ Hg).
    intros Hp. apply Hnp. apply (proj1 (spec_geom_path _ _ Hsg)). exact Hp.
  - intros H. apply Forall_forall. intros lg Hlg. apply Forall_forall. intros g Hg Hp.
    destruct Hm as [Hnd [Hnm Hk]]. destruct (Hnm (T.lg_layer lg) (in_map _ _ _ Hlg)) as [k [sh [_ [_ [Hlook Hspec]]]]].
    apply nlookup_some_in in Hlook. specialize (H k sh Hlook). apply IP.shapes_one_per_geometry in Hspec.
    pose proof (IP.geoms_named_in _ _ _ Hlg Hg) as Hin. destruct (Forall2_in_l _ Hspec Hin) as [s [Hs Hsg]]. cbn [fst snd] in Hsg.
    rewrite Forall_forall in H. apply (H s Hs). apply (proj2 (spec_geom_path _ _ Hsg)). exact Hp.
Qed.

Section Outcome.
Variable v : xvariant.
Variable L' : T.layers.
Hypothesis Hwf : T.layers_wf L'.
Let ly := map raw_layer_of (T.l_slots L').

Lemma export_entry_outcome : forall lgs M k sh, S.shapes_match L' lgs M -> In (k, sh) M ->
  ok_or_panic (export_layer_shapes v Angstrom ly (k, map raw_shape_of sh)) /\
  ((exists lg', export_layer_shapes v Angstrom ly (k, map raw_shape_of sh) = Ok lg') <-> Forall (fun s => ~ shape_is_path s) sh).
Proof.
  intros lgs M k sh Hm Hin. destruct (@shapes_match_entry L' lgs M k sh Hwf Hm Hin) as [nm [_ [_ [Hname _]]]].
  unfold export_layer_shapes, export_layer. cbn [fst snd]. unfold ly. rewrite get_name_import, Hname. cbn [obind].
  assert (Hop : ok_or_panic (mapM (export_shape v Angstrom) (map raw_shape_of sh))).
  { apply mapM_ok_or_panic. intros x Hx. apply in_map_iff in Hx. destruct Hx as [s [<- _]].
    destruct (export_shape_outcome v Angstrom s) as [[_ H]|[_ [g H]]]; [right; exact H|left; exists g; exact H]. }
  split.
  - destruct Hop as [[gs Hgs]|Hp]; rewrite ?Hgs, ?Hp; cbn [obind]; [left; eexists; reflexivity|right; reflexivity].
  - split.
    + intros [lg' H]. destruct (mapM (export_shape v Angstrom) (map raw_shape_of sh)) as [gs| | |] eqn:Hgs; cbn [obind] in H; try discriminate.
      apply Forall_forall. intros s Hs Hp. destruct (mapM_ok_inv _ _ (raw_shape_of s) Hgs (in_map _ _ _ Hs)) as [g Hg].
      destruct (export_shape_outcome v Angstrom s) as [[_ H1]|[H1 _]]; [congruence|exact (H1 Hp)].
    + intros Hnp. destruct (@mapM_ok_all _ _ (export_shape v Angstrom) (map raw_shape_of sh)) as [gs Hgs].
      { intros x Hx. apply in_map_iff in Hx. destruct Hx as [s [<- Hs]]. rewrite Forall_forall in Hnp.
        destruct (export_shape_outcome v Angstrom s) as [[H1 _]|[_ H1]]; [destruct (Hnp s Hs H1)|exact H1]. }
      rewrite Hgs. cbn [obind]. eexists; reflexivity.
Qed.

Lemma export_map_outcome : forall lgs M, S.shapes_match L' lgs M ->
  ok_or_panic (mapM (export_layer_shapes v Angstrom ly) (P.sorted_by_layer (raw_smap_of M))) /\
  ((exists lgs', mapM (export_layer_shapes v Angstrom ly) (P.sorted_by_layer (raw_smap_of M)) = Ok lgs') <-> lgs_no_path lgs).
Proof.
  intros lgs M Hm.
  assert (Hperm : Permutation (P.sorted_by_layer (raw_smap_of M)) (raw_smap_of M)) by apply sorted_by_layer_perm.
  split.
  - apply mapM_ok_or_panic. intros e He. apply (Permutation_in _ Hperm) in He. destruct (@raw_smap_in M e He) as [k [sh [Hin ->]]].
    apply (@export_entry_outcome lgs M k sh Hm Hin).
  - rewrite (shapes_match_no_path Hwf Hm). split.
    + intros [lgs' H] k sh Hin. apply (proj2 (@export_entry_outcome lgs M k sh Hm Hin)).
      apply (mapM_ok_inv _ _ (k, map raw_shape_of sh) H). apply (Permutation_in _ (Permutation_sym Hperm)).
      unfold raw_smap_of. apply in_map_iff. exists (k, sh). split; [reflexivity|exact Hin].
    + intros H. apply mapM_ok_all. intros e He. apply (Permutation_in _ Hperm) in He. destruct (@raw_smap_in M e He) as [k [sh [Hin ->]]].
      apply (proj2 (@export_entry_outcome lgs M k sh Hm Hin)). exact (H k sh Hin).
Qed.

Lemma lgs_no_path_app : forall a b, lgs_no_path (a ++ b) <-> lgs_no_path a /\ lgs_no_path b.
Proof. intros a b. unfold lgs_no_path. apply Forall_app. Qed.
Lemma lgs_no_path_flat_map : forall (A : Type) (f : A -> list T.llayergeoms) l, lgs_no_path (flat_map f l) <-> Forall (fun a => lgs_no_path (f a)) l.
Proof.
  intros A f. induction l as [|a r IH]; cbn [flat_map].
  - split; intros _; constructor.
  - rewrite lgs_no_path_app, IH. split; [intros [H1 H2]; constructor; assumption|intros H; inversion H; auto].
Qed.

Lemma export_port_outcome : forall pin port, S.shapes_match L' (List.concat (T.pin_ports pin)) (T.ap_shapes port) ->
  ok_or_panic (export_port v Angstrom ly P.sorted_by_layer (raw_port_of port)) /\
  ((exists p', export_port v Angstrom ly P.sorted_by_layer (raw_port_of port) = Ok p') <-> lgs_no_path (List.concat (T.pin_ports pin))).
Proof.
  intros pin port Hm. destruct (export_map_outcome Hm) as [Ho Hi]. rewrite <- Hi. unfold export_port. cbn [raw_port_of ap_shapes ap_net].
  destruct Ho as [[lgs' Hl]|Hp]; rewrite ?Hl, ?Hp; cbn [obind].
  - split; [left; eexists; reflexivity|]. split; intros _; eexists; reflexivity.
  - split; [right; reflexivity|]. split; intros [? H]; discriminate.
Qed.

Lemma export_abstract_outcome : forall m a, S.spec_abstract L' m a ->
  ok_or_panic (export_abstract v Angstrom ly P.sorted_by_layer (raw_abstract_of a)) /\
  ((exists m', export_abstract v Angstrom ly P.sorted_by_layer (raw_abstract_of a) = Ok m') <-> macro_no_path m).
Proof.
  intros m a [_ [_ [Hports Hblk]]]. unfold export_abstract, macro_no_path, S.macro_lgs. cbn [raw_abstract_of ab_ports ab_blockages ab_name].
  destruct (export_map_outcome Hblk) as [Hbo Hbi].
  destruct (@mapM_outcome_iff2 _ _ _ (fun pin port => T.ap_net port = T.pin_name pin /\ S.shapes_match L' (List.concat (T.pin_ports pin)) (T.ap_shapes port))
              (fun port => export_port v Angstrom ly P.sorted_by_layer (raw_port_of port))
              (fun pin => lgs_no_path (List.concat (T.pin_ports pin))) _ _ Hports) as [Hpo Hpi].
  { intros pin port [_ Hm]. apply export_port_outcome. exact Hm. }
  rewrite mapM_map, lgs_no_path_app, lgs_no_path_flat_map, <- Hpi, <- Hbi.
  destruct Hpo as [[ps Hps]|Hp]; rewrite ?Hps, ?Hp; cbn [obind].
  - destruct Hbo as [[obs Hobs]|Hp]; rewrite ?Hobs, ?Hp; cbn [obind].
    + split; [left; eexists; reflexivity|]. split; [intros _; split; eexists; reflexivity|intros _; eexists; reflexivity].
    + split; [right; reflexivity|]. split; [intros [? H]; discriminate|intros [_ [? H]]; discriminate].
  - split; [right; reflexivity|]. split; [intros [? H]; discriminate|intros [[? H] _]; discriminate].
Qed.

Lemma export_cells_of_abstracts : forall u ord (g : T.abstract -> abstract) cells,
  export_cells v u ly ord (map (fun a => mkcell (T.a_name a) (Some (g a)) None) cells) = mapM (fun a => export_abstract v u ly ord (g a)) cells.
Proof.
  intros u ord g. induction cells as [|a r IH]; cbn [map export_cells c_abs mapM]; [reflexivity|]. rewrite IH. reflexivity.
Qed.

Lemma export_cells_outcome : forall ms cells, Forall2 (S.spec_abstract L') ms cells ->
  ok_or_panic (export_cells v Angstrom ly P.sorted_by_layer (map (fun a => mkcell (T.a_name a) (Some (raw_abstract_of a)) None) cells)) /\
  ((exists ms', export_cells v Angstrom ly P.sorted_by_layer (map (fun a => mkcell (T.a_name a) (Some (raw_abstract_of a)) None) cells) = Ok ms')
   <-> Forall macro_no_path ms).
Proof.
  intros ms cells HF. rewrite export_cells_of_abstracts.
  apply (@mapM_outcome_iff2 _ _ _ (S.spec_abstract L') (fun a => export_abstract v Angstrom ly P.sorted_by_layer (raw_abstract_of a)) macro_no_path _ _ HF).
  intros m a Hma. apply export_abstract_outcome. exact Hma.
Qed.
End Outcome.

Theorem lef_reexport_outcome : forall v lib L0 cells L',
  Forall T.lmacro_wf (T.lib_macros lib) -> IP.layers0_wf L0 -> I.import lib L0 = Ok (cells, L') ->
  ((exists X, export_gen v (raw_lib_of_import (cells, L')) = Ok X) \/ export_gen v (raw_lib_of_import (cells, L')) = Panic) /\
  ((exists X, export_gen v (raw_lib_of_import (cells, L')) = Ok X) <-> Forall macro_no_path (T.lib_macros lib)).
Proof.
  intros v lib L0 cells L' Hwf HL0 Hi. destruct (@IP.import_spec lib L0 cells L' Hwf HL0 Hi) as [HwfL HF].
  destruct (export_cells_outcome v HwfL HF) as [Ho Hiff]. rewrite <- Hiff.
  unfold export_gen, export_with, raw_lib_of_import. cbn [lib_units lib_layers lib_cells fst snd].
  change (export_units Angstrom) with (@Ok xerr Z 10000). cbn [obind].
  destruct Ho as [[ms' Hms]|Hp]; rewrite ?Hms, ?Hp; cbn [obind].
  - split; [left; eexists; reflexivity|]. split; [intros _; eexists; reflexivity|intros _; eexists; reflexivity].
  - split; [right; reflexivity|]. split; [intros [? H]; discriminate|intros [? H]; discriminate].
Qed.

(** * 6. raw -> LEF -> raw: the exporter writes no SIZE, the importer demands one *)
Lemma export_abstract_no_size : forall v u ly ord a m, export_abstract v u ly ord a = Ok m -> T.m_size m = None.
Proof.
  intros v u ly ord a m H. unfold export_abstract in H.
  destruct (mapM (export_port v u ly ord) (ab_ports a)) as [pins| | |]; cbn [obind] in H; try discriminate.
  destruct (mapM (export_layer_shapes v u ly) (ord (ab_blockages a))) as [obs| | |]; cbn [obind] in H; try discriminate.
  inversion H. reflexivity.
Qed.

Theorem lef_export_reimport_no_size : forall v ord L X L0,
  export_with v ord L = Ok X -> T.lib_macros (xl_lib X) <> [] -> I.import (xl_lib X) L0 = Err T.ENoSize.
Proof.
  intros v ord L X L0 H Hne. unfold export_with in H.
  destruct (export_units (lib_units L)) as [dbu| | |]; cbn [obind] in H; try discriminate.
  rewrite export_cells_abstracts in H.
  destruct (mapM (export_abstract v (lib_units L) (lib_layers L) ord) (abstracts_of (lib_cells L))) as [ms| | |] eqn:Hms; cbn [obind] in H; try discriminate.
  inversion H; subst X. cbn [xl_lib T.lib_macros] in *.
  destruct ms as [|m r]; [contradiction|]. apply mapM_ok_Forall2 in Hms. inversion Hms as [|a ? l ? Hm _]; subst.
  apply export_abstract_no_size in Hm.
  unfold I.import, I.import_gen, I.import_lib_gen. cbn [T.lib_case_off T.lib_macros I.import_macros_gen].
  unfold I.import_abstract_gen. rewrite Hm. reflexivity.
Qed.
