(** Executable check used by the correspondence leg of C20 for `Layers::from_proto` (tools/props/c20.py
    [layers_leg], harness bin c20, source "tech").  Result codes: 0 = the layer table the implementation
    returned (or its error, or its panic) is what the model Raw/RawLayersProto.v computes; 1 = it differs.
    (Code 2 of the C20 check -- the implementation's own outputs differ between repetitions or between
    processes -- is decided by the runner, which compares them.)  No proofs here.

    The harness prints a table in full: per slot, in slot order, the layer number, whether it has a name, and the
    two private maps of the `Layer` (`purps`: number -> purpose, `nums`: purpose -> number) as sorted lists;
    then `Layers.nums` (layer number -> position of the slot its key points to) and the size of `Layers.names`.
    The model's [layer] keeps the list of `add_purpose` calls; the two maps are its last-write-wins lookups
    [layer_purpose] / [layer_pnum] (Raw/RawData.v), `Layers.nums` is [ly_keynum]. *)
From Coq Require Import ZArith Bool List String.
From L21 Require Import Base.Outcome Raw.RawData Order.SortedIter Raw.RawLayersProto.
Import ListNotations.
Local Open Scope Z_scope.

Record islot : Type := mkislot {
  is_num : Z;
  is_named : bool;
  is_purps : list (Z * purpose);
  is_nums : list (purpose * Z) }.

Inductive limpl : Type :=
| LIOk (slots : list islot) (nums : list (Z * Z)) (names : Z)
| LIErr
| LIPanic.

Fixpoint dedup {A : Type} (eqb : A -> A -> bool) (l : list A) : list A :=
  match l with
  | [] => []
  | x :: r => if existsb (eqb x) r then dedup eqb r else x :: dedup eqb r
  end.
Definition distinctb {A : Type} (eqb : A -> A -> bool) (l : list A) : bool :=
  Nat.eqb (List.length (dedup eqb l)) (List.length l).
Definition opurpose_eqb (a : option purpose) (b : purpose) : bool :=
  match a with Some x => purpose_eqb x b | None => false end.
Definition oz_eqb (a : option Z) (b : Z) : bool := match a with Some x => x =? b | None => false end.

(** one slot of the implementation against one layer of the model *)
Definition slot_matches (l : layer) (s : islot) : bool :=
  (l_num l =? is_num s) &&
  Bool.eqb (match l_name l with Some _ => true | None => false end) (is_named s) &&
  (* purps: the printed entries have distinct numbers, each is the model's lookup, and there are as many as the model has numbers *)
  distinctb Z.eqb (map fst (is_purps s)) &&
  forallb (fun e => opurpose_eqb (layer_purpose l (fst e)) (snd e)) (is_purps s) &&
  Nat.eqb (List.length (is_purps s)) (List.length (dedup Z.eqb (map fst (l_pairs l)))) &&
  (* nums likewise *)
  distinctb purpose_eqb (map fst (is_nums s)) &&
  forallb (fun e => oz_eqb (layer_pnum l (fst e)) (snd e)) (is_nums s) &&
  Nat.eqb (List.length (is_nums s)) (List.length (dedup purpose_eqb (map snd (l_pairs l)))).

Fixpoint slots_match (ls : list layer) (ss : list islot) : bool :=
  match ls, ss with
  | [], [] => true
  | l :: ls', s :: ss' => slot_matches l s && slots_match ls' ss'
  | _, _ => false
  end.

(** the same up to the order of the slots (used for the texts of the second loop whose order the model leaves
    to the oracle): every model layer is matched by a slot of its own *)
Fixpoint remove_match (l : layer) (ss : list islot) : option (list islot) :=
  match ss with
  | [] => None
  | s :: r => if slot_matches l s then Some r
              else match remove_match l r with Some r' => Some (s :: r') | None => None end
  end.
Fixpoint slots_match_perm (ls : list layer) (ss : list islot) : bool :=
  match ls with
  | [] => match ss with [] => true | _ => false end
  | l :: ls' => match remove_match l ss with Some ss' => slots_match_perm ls' ss' | None => false end
  end.

(** `Layers.nums` against the implementation's OWN slots: the entry of a number points to the last slot
    holding that number, and every number of a slot has an entry *)
Definition nums_consistent (ss : list islot) (nums : list (Z * Z)) : bool :=
  let ly := map (fun s => mklayer (is_num s) None []) ss in
  distinctb Z.eqb (map fst nums) &&
  forallb (fun e => match ly_keynum ly (fst e) with Some k => Z.of_nat k =? snd e | None => false end) nums &&
  Nat.eqb (List.length nums) (List.length (dedup Z.eqb (map is_num ss))).

Definition c20l_check (v : variant) (tech : list tlayer) (impl : limpl) : Z :=
  match from_proto_with v (fun m => m) tech, impl with
  | Ok ly, LIOk ss nums names =>
    if (match v with SortByKey => slots_match ly ss | _ => slots_match_perm ly ss end)
       && nums_consistent ss nums && (names =? 0)
    then 0 else 1
  | Err _, LIErr => 0
  | Panic, LIPanic => 0
  | _, _ => 1
  end.

(** the independent reading of the table (theorem C20_layers_from_proto_spec): the slots are [table_spec tech], the layers
    [layer_for tech k] of the distinct indices [k] in ascending order (theorem C20_layers_from_proto_closed_form); evaluated next to [c20l_check] so that the
    run also compares the implementation with the SPECIFICATION side of the theorem, not only with the model *)
Definition c20l_spec_check (tech : list tlayer) (impl : limpl) : Z :=
  match impl with
  | LIOk ss _ _ => if slots_match (table_spec tech) ss then 0 else 1
  | _ => 1
  end.
