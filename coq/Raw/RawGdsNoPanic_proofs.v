(** C07 -- the export of every library in the input space succeeds (no panic, no error):
    coordinates and label arithmetic stay in range, every layer/purpose lookup answers, and a named
    polygon's label is found (bounding-box centre of the specification = the exporter's; the C13
    theorem turns "a candidate lies in the polygon" into "the exporter's contains accepts it"). *)
From Coq Require Import ZArith NArith List String Bool Lia.
From L21 Require Import Base.Outcome Base.F64 Base.Hex Raw.RawData Raw.RawGdsExport Raw.RawGdsExportSpec Raw.RawGdsExport_proofs Raw.RawGdsRoundtrip_proofs Raw.RawGdsBridge_proofs.
From L21 Require Gds.GdsData Geom.Contains Geom.ContainsSpec Geom.ContainsCheck Geom.Contains_proofs Raw.RawGds.
Import ListNotations.
Local Open Scope Z_scope.
Module C := Geom.Contains.
(** * bounding boxes *)
Lemma fold_min_le l : forall a, fold_left Z.min l a <= a /\ (forall x, In x l -> fold_left Z.min l a <= x) /\
                                (fold_left Z.min l a = a \/ In (fold_left Z.min l a) l).
Proof.
  induction l as [|h t IH]; intros a; cbn [fold_left].
  - split; [lia|]. split; [intros x []|left; reflexivity].
  - destruct (IH (Z.min a h)) as (H1 & H2 & H3). split; [lia|]. split.
    + intros x [<-|Hx]; [lia|apply H2; exact Hx].
    + destruct H3 as [H3|H3]; [|right; right; exact H3].
      destruct (Z.min_spec a h) as [[_ E]|[_ E]]; rewrite E in *; [left; exact H3|right; left; symmetry; exact H3].
Qed.
Lemma fold_max_ge l : forall a, a <= fold_left Z.max l a /\ (forall x, In x l -> x <= fold_left Z.max l a) /\
                                (fold_left Z.max l a = a \/ In (fold_left Z.max l a) l).
Proof.
  induction l as [|h t IH]; intros a; cbn [fold_left].
  - split; [lia|]. split; [intros x []|left; reflexivity].
  - destruct (IH (Z.max a h)) as (H1 & H2 & H3). split; [lia|]. split.
    + intros x [<-|Hx]; [lia|apply H2; exact Hx].
    + destruct H3 as [H3|H3]; [|right; right; exact H3].
      destruct (Z.max_spec a h) as [[_ E]|[_ E]]; rewrite E in *; [right; left; symmetry; exact H3|left; exact H3].
Qed.
Lemma foldr_min_spec h l : let s := fold_right Z.min h l in s <= h /\ (forall x, In x l -> s <= x) /\ (s = h \/ In s l).
Proof.
  induction l as [|a t IH]; cbn [fold_right]; [split; [lia|]; split; [intros x []|left; reflexivity]|].
  cbv zeta in *. destruct IH as (H1 & H2 & H3). split; [lia|]. split.
  - intros x [<-|Hx]; [lia|specialize (H2 x Hx); lia].
  - destruct (Z.min_spec a (fold_right Z.min h t)) as [[_ E]|[_ E]]; rewrite E; [right; left; reflexivity|].
    destruct H3 as [H3|H3]; [left; exact H3|right; right; exact H3].
Qed.
Lemma foldr_max_spec h l : let s := fold_right Z.max h l in h <= s /\ (forall x, In x l -> x <= s) /\ (s = h \/ In s l).
Proof.
  induction l as [|a t IH]; cbn [fold_right]; [split; [lia|]; split; [intros x []|left; reflexivity]|].
  cbv zeta in *. destruct IH as (H1 & H2 & H3). split; [lia|]. split.
  - intros x [<-|Hx]; [lia|specialize (H2 x Hx); lia].
  - destruct (Z.max_spec a (fold_right Z.max h t)) as [[_ E]|[_ E]]; rewrite E; [|right; left; reflexivity].
    destruct H3 as [H3|H3]; [left; exact H3|right; right; exact H3].
Qed.

(** the model's bounding box of a point list, componentwise *)
Lemma points_bbox_folds ps : forall b0x b0y b1x b1y,
  fold_left C.bbox_union_pt (map pt2 ps) ((b0x, b0y), (b1x, b1y)) =
  ((fold_left Z.min (map px ps) b0x, fold_left Z.min (map py ps) b0y),
   (fold_left Z.max (map px ps) b1x, fold_left Z.max (map py ps) b1y)).
Proof.
  induction ps as [|p r IH]; intros; cbn [map fold_left]; [reflexivity|].
  unfold C.bbox_union_pt at 2. unfold pt2, C.X, C.Y. cbn [fst snd]. apply IH.
Qed.

Lemma min_unique (l : list Z) s m : (forall x, In x l -> s <= x) -> In s l -> (forall x, In x l -> m <= x) -> In m l -> s = m.
Proof. intros H1 H2 H3 H4. specialize (H1 m H4). specialize (H3 s H2). lia. Qed.
Lemma max_unique (l : list Z) s m : (forall x, In x l -> x <= s) -> In s l -> (forall x, In x l -> x <= m) -> In m l -> s = m.
Proof. intros H1 H2 H3 H4. specialize (H1 m H4). specialize (H3 s H2). lia. Qed.

Lemma fold_min_eq l h t : l = h :: t -> (forall x, In x l -> x <= C.int_max) ->
  fold_left Z.min l C.int_max = fold_right Z.min (hd 0 l) l /\ In (fold_left Z.min l C.int_max) l.
Proof.
  intros -> Hb. cbn [hd].
  destruct (fold_min_le (h :: t) C.int_max) as (A1 & A2 & A3).
  destruct (foldr_min_spec h (h :: t)) as (B1 & B2 & B3). cbv zeta in *.
  assert (Am : In (fold_left Z.min (h :: t) C.int_max) (h :: t)).
  { destruct A3 as [A3|A3]; [|exact A3]. left. specialize (A2 h (or_introl eq_refl)). specialize (Hb h (or_introl eq_refl)). lia. }
  assert (Bm : In (fold_right Z.min h (h :: t)) (h :: t)).
  { destruct B3 as [B3|B3]; [left; symmetry; exact B3|exact B3]. }
  split; [|exact Am]. symmetry. apply (min_unique (h :: t)); assumption.
Qed.
Lemma fold_max_eq l h t : l = h :: t -> (forall x, In x l -> C.int_min <= x) ->
  fold_left Z.max l C.int_min = fold_right Z.max (hd 0 l) l /\ In (fold_left Z.max l C.int_min) l.
Proof.
  intros -> Hb. cbn [hd].
  destruct (fold_max_ge (h :: t) C.int_min) as (A1 & A2 & A3).
  destruct (foldr_max_spec h (h :: t)) as (B1 & B2 & B3). cbv zeta in *.
  assert (Am : In (fold_left Z.max (h :: t) C.int_min) (h :: t)).
  { destruct A3 as [A3|A3]; [|exact A3]. left. specialize (A2 h (or_introl eq_refl)). specialize (Hb h (or_introl eq_refl)). lia. }
  assert (Bm : In (fold_right Z.max h (h :: t)) (h :: t)).
  { destruct B3 as [B3|B3]; [left; symmetry; exact B3|exact B3]. }
  split; [|exact Am]. symmetry. apply (max_unique (h :: t)); assumption.
Qed.

Definition i32z (z : Z) : Prop := -2147483648 <= z < 2147483648.
Lemma point_i32_iff p : point_i32b p = true <-> i32z (px p) /\ i32z (py p).
Proof.
  unfold point_i32b, i32_okb, i32z. rewrite !andb_true_iff, !Z.leb_le, !Z.ltb_lt. tauto.
Qed.

Lemma half_sum_i32 a b : i32z a -> i32z b -> half_sum a b = Ok (Z.quot (a + b) 2).
Proof.
  unfold i32z, half_sum, i64c. intros Ha Hb.
  destruct (i64_okb (a + b)) eqn:E; [reflexivity|exfalso].
  unfold i64_okb, i64_min, i64_max, two63 in E. apply andb_false_iff in E as [E|E]; [apply Z.leb_gt in E|apply Z.leb_gt in E]; lia.
Qed.

(** the model's bounding-box centre is the specification's, and lies in i32 *)
Lemma bbox_center_spec ps : ps <> [] -> forallb point_i32b ps = true ->
  bbox_center ps = Ok (bbox_centre ps) /\ point_i32b (bbox_centre ps) = true.
Proof.
  intros Hne Hall. destruct ps as [|p0 r]; [congruence|].
  assert (Hx : forall x, In x (map px (p0 :: r)) -> i32z x).
  { intros x Hx. apply in_map_iff in Hx as [p [<- Hp]]. rewrite forallb_forall in Hall. specialize (Hall p Hp). apply point_i32_iff in Hall. tauto. }
  assert (Hy : forall y, In y (map py (p0 :: r)) -> i32z y).
  { intros y Hy. apply in_map_iff in Hy as [p [<- Hp]]. rewrite forallb_forall in Hall. specialize (Hall p Hp). apply point_i32_iff in Hall. tauto. }
  assert (HM : C.int_max = 9223372036854775807) by reflexivity. assert (Hm : C.int_min = -9223372036854775808) by reflexivity.
  unfold bbox_center, C.points_bbox, C.bbox_empty. rewrite points_bbox_folds.
  destruct (fold_min_eq (map px (p0 :: r)) (px p0) (map px r) eq_refl) as [E1 I1]; [intros x Hxx; specialize (Hx x Hxx); unfold i32z in Hx; lia|].
  destruct (fold_min_eq (map py (p0 :: r)) (py p0) (map py r) eq_refl) as [E2 I2]; [intros x Hxx; specialize (Hy x Hxx); unfold i32z in Hy; lia|].
  destruct (fold_max_eq (map px (p0 :: r)) (px p0) (map px r) eq_refl) as [E3 I3]; [intros x Hxx; specialize (Hx x Hxx); unfold i32z in Hx; lia|].
  destruct (fold_max_eq (map py (p0 :: r)) (py p0) (map py r) eq_refl) as [E4 I4]; [intros x Hxx; specialize (Hy x Hxx); unfold i32z in Hy; lia|].
  pose proof (Hx _ I1) as B1. pose proof (Hy _ I2) as B2. pose proof (Hx _ I3) as B3. pose proof (Hy _ I4) as B4.
  cbn [fst snd].
  rewrite (half_sum_i32 _ _ B1 B3), (half_sum_i32 _ _ B2 B4).
  cbn [obind]. unfold bbox_centre. rewrite <- E1, <- E2, <- E3, <- E4. split; [reflexivity|].
  apply point_i32_iff. cbn [px py]. unfold i32z.
  unfold i32z in B1, B2, B3, B4.
  pose proof (quot2_between (fold_left Z.min (map px (p0 :: r)) C.int_max) (fold_left Z.max (map px (p0 :: r)) C.int_min)).
  pose proof (quot2_between (fold_left Z.min (map py (p0 :: r)) C.int_max) (fold_left Z.max (map py (p0 :: r)) C.int_min)). lia.
Qed.

(** * the label of a named shape in range exists and is representable *)
Lemma poly_contains_v_total ps q : forallb point_i32b ps = true -> point_i32b q = true ->
  poly_contains_v false ps q = Ok (ContainsCheck.in_region_nzb (map spt ps) (spt q)).
Proof.
  intros Hp Hq. unfold poly_contains_v.
  change (map pt2 ps) with (map spt ps). change (pt2 q) with (spt q).
  rewrite (CP.poly_contains_eq_nzb _ _ (i32_pts_ok _ Hp) (i32_pt_ok _ Hq)). reflexivity.
Qed.

Lemma first_containing_total ps cands :
  forallb point_i32b ps = true -> forallb point_i32b cands = true ->
  existsb (fun q => ContainsCheck.in_region_nzb (map spt ps) (spt q)) cands = true ->
  exists q, first_containing false ps cands = Ok q /\ In q cands.
Proof.
  intros Hp. induction cands as [|q r IH]; intros Hc Hex; [discriminate|].
  cbn [forallb] in Hc. apply andb_prop in Hc as [Hq Hr]. cbn [existsb] in Hex. cbn [first_containing].
  rewrite (poly_contains_v_total ps q Hp Hq). cbn [obind].
  destruct (ContainsCheck.in_region_nzb (map spt ps) (spt q)) eqn:E.
  - exists q. split; [reflexivity|left; reflexivity].
  - cbn [orb] in Hex. destruct (IH Hr Hex) as [q' [H1 H2]]. exists q'. split; [exact H1|right; exact H2].
Qed.

Lemma simple_nonempty ps : CS.simpleb (map spt ps) = true -> ps <> [].
Proof. intros H ->. discriminate H. Qed.

Lemma i64c_i32 z : -4294967296 <= z <= 4294967296 -> i64c z = Ok z.
Proof.
  intros H. unfold i64c. destruct (i64_okb z) eqn:E; [reflexivity|exfalso].
  unfold i64_okb, i64_min, i64_max, two63 in E. apply andb_false_iff in E as [E|E]; apply Z.leb_gt in E; lia.
Qed.

Lemma label_ok s : named_shape_okb s = true ->
  exists p, label_location xcfg_fixed s = Ok p /\ point_i32b p = true.
Proof.
  unfold named_shape_okb. intros H. apply andb_prop in H as [Hs Hl]. destruct s as [p0 p1|ps|ps w].
  - cbn [shape_okb] in Hs. apply andb_prop in Hs as [H0 H1]. apply point_i32_iff in H0 as [A0 B0]. apply point_i32_iff in H1 as [A1 B1].
    cbn [label_location]. unfold rect_center. rewrite (half_sum_i32 _ _ A0 A1), (half_sum_i32 _ _ B0 B1). cbn [obind].
    eexists. split; [reflexivity|]. apply point_i32_iff. cbn [px py]. unfold i32z in *.
    pose proof (quot2_between (px p0) (px p1)). pose proof (quot2_between (py p0) (py p1)). lia.
  - cbn [shape_okb] in Hs. apply andb_prop in Hs as [Hp Hsimple]. pose proof (simple_nonempty ps Hsimple) as Hne.
    cbn [has_label_locationb] in Hl. apply andb_prop in Hl as [Hc32 Hex].
    cbn [label_location xcfg_fixed x_contains_orig]. unfold poly_label.
    destruct (bbox_center_spec ps Hne Hp) as [Hbc Hbc32]. rewrite Hbc. cbn [obind].
    rewrite (poly_contains_v_total ps _ Hp Hbc32). cbn [obind].
    destruct (ContainsCheck.in_region_nzb (map spt ps) (spt (bbox_centre ps))) eqn:Ec.
    + exists (bbox_centre ps). split; [reflexivity|exact Hbc32].
    + destruct ps as [|q0 r]; [congruence|]. cbn [label_candidates forallb] in Hc32.
      apply andb_prop in Hc32 as [_ Hc4].
      assert (Hq0 : i32z (px q0) /\ i32z (py q0)).
      { cbn [forallb] in Hp. apply andb_prop in Hp as [Hq _]. apply point_i32_iff. exact Hq. }
      destruct Hq0 as [Qx Qy]. unfold i32z in Qx, Qy.
      rewrite !i64c_i32 by lia. cbn [obind].
      set (cands := [mkpt (px q0) (py q0 - 1); mkpt (px q0 - 1) (py q0); mkpt (px q0) (py q0 + 1); mkpt (px q0 + 1) (py q0)]).
      assert (Hc4' : forallb point_i32b cands = true) by exact Hc4.
      destruct (first_containing_total (q0 :: r) cands Hp Hc4') as [q [Hq Hin]].
      * cbn [label_candidates existsb] in Hex.
        assert (Hconv : forall cs, existsb (in_region_shapeb (Polygon (q0 :: r))) cs = true ->
                          existsb (fun q => ContainsCheck.in_region_nzb (map spt (q0 :: r)) (spt q)) cs = true).
        { intros cs Hx. apply existsb_exists in Hx as [x [Hx1 Hx2]]. apply existsb_exists. exists x. split; [exact Hx1|].
          cbn [in_region_shapeb] in Hx2. apply CP.in_region_nzb_spec. apply CP.in_region_in_nz. apply CP.in_regionb_spec. exact Hx2. }
        apply orb_prop in Hex as [Hex|Hex].
        -- exfalso. cbn [in_region_shapeb] in Hex. apply CP.in_regionb_spec in Hex. apply CP.in_region_in_nz in Hex.
           apply CP.in_region_nzb_spec in Hex. rewrite Hex in Ec. discriminate.
        -- apply Hconv. exact Hex.
      * exists q. split; [exact Hq|]. rewrite forallb_forall in Hc4'. apply Hc4'. exact Hin.
  - cbn [shape_okb] in Hs. repeat (apply andb_prop in Hs; destruct Hs as [Hs ?]).
    destruct ps as [|a [|b r]]; try discriminate.
    cbn [forallb] in Hs. apply andb_prop in Hs as [Ha Hs]. apply andb_prop in Hs as [Hb _].
    apply point_i32_iff in Ha as [A0 B0]. apply point_i32_iff in Hb as [A1 B1].
    cbn [label_location]. unfold path_label. rewrite (half_sum_i32 _ _ A0 A1), (half_sum_i32 _ _ B0 B1). cbn [obind].
    eexists. split; [reflexivity|]. apply point_i32_iff. cbn [px py]. unfold i32z in *.
    pose proof (quot2_between (px a) (px b)). pose proof (quot2_between (py a) (py b)). lia.
Qed.

Lemma orientation_ok s : shape_okb s = true -> exists v, orientation_vert s = Ok v.
Proof.
  destruct s as [p0 p1|ps|ps w]; intros Hs; try (eexists; reflexivity).
  cbn [shape_okb] in Hs. apply andb_prop in Hs as [H0 H1]. apply point_i32_iff in H0 as [A0 B0]. apply point_i32_iff in H1 as [A1 B1].
  unfold i32z in *. cbn [orientation_vert]. rewrite !i64c_i32 by lia. cbn [obind]. unfold iabs.
  destruct (px p1 - px p0 =? i64_min) eqn:E1; [apply Z.eqb_eq in E1; unfold i64_min, two63 in E1; lia|].
  destruct (py p1 - py p0 =? i64_min) eqn:E2; [apply Z.eqb_eq in E2; unfold i64_min, two63 in E2; lia|].
  cbn [obind]. eexists. reflexivity.
Qed.

Lemma export_shape_ok s spec : shape_okb s = true -> exists g, export_shape xcfg_fixed s spec = Ok g.
Proof.
  destruct s as [p0 p1|ps|ps w]; intros Hs; cbn [shape_okb] in Hs.
  - apply andb_prop in Hs as [H0 H1]. unfold point_i32b in H0, H1. apply andb_prop in H0 as [A0 B0]. apply andb_prop in H1 as [A1 B1].
    cbn [export_shape]. rewrite A0, B0, A1, B1. eexists. reflexivity.
  - apply andb_prop in Hs as [Hp Hsimple]. pose proof (simple_nonempty ps Hsimple) as Hne.
    cbn [export_shape]. rewrite (export_points_ok _ Hp). cbn [obind]. destruct ps as [|p0 r]; [congruence|].
    cbn [forallb] in Hp. apply andb_prop in Hp as [H0 _]. rewrite (export_point_ok _ H0). eexists. reflexivity.
  - repeat (apply andb_prop in Hs; destruct Hs as [Hs ?]).
    cbn [export_shape xcfg_fixed x_path_close]. rewrite (export_points_ok _ Hs). cbn [obind]. rewrite H. eexists. reflexivity.
Qed.

(** * the export of a library in range succeeds *)
Lemma layerspec_ok ly k p : resolves ly k p = true -> exists nx, export_layerspec ly k p = Ok nx.
Proof.
  unfold resolves. destruct (resolve_lp ly k p) as [nx|] eqn:E; [|discriminate]. intros _. exists nx. apply layerspec_resolve. exact E.
Qed.

Lemma export_label_ok net s spec : named_shape_okb s = true -> exists t, export_shape_label xcfg_fixed net s spec = Ok t.
Proof.
  intros H. destruct (label_ok s H) as [p [Hp H32]]. unfold named_shape_okb in H. apply andb_prop in H as [Hs _].
  destruct (orientation_ok s Hs) as [v Hv]. unfold export_shape_label. rewrite Hp, Hv. cbn [obind].
  rewrite (export_point_ok _ H32). cbn [obind]. eexists. reflexivity.
Qed.

Lemma export_element_ok ly e : elem_okb ly e = true -> exists gl, export_element xcfg_fixed ly e = Ok gl.
Proof.
  unfold elem_okb. intros H. apply andb_prop in H as [Hr H]. destruct (layerspec_ok _ _ _ Hr) as [nx Hnx].
  unfold export_element. rewrite Hnx. cbn [obind]. destruct (e_net e) as [nm|].
  - apply andb_prop in H as [H _]. apply andb_prop in H as [Hs Hl]. destruct (layerspec_ok _ _ _ Hl) as [lx Hlx].
    pose proof Hs as Hs0. unfold named_shape_okb in Hs0. apply andb_prop in Hs0 as [Hs0 _].
    destruct (export_shape_ok (e_shape e) nx Hs0) as [g Hg]. rewrite Hg. cbn [obind]. rewrite Hlx. cbn [obind].
    destruct (export_label_ok nm (e_shape e) lx Hs) as [t Ht]. rewrite Ht. eexists. reflexivity.
  - destruct (export_shape_ok (e_shape e) nx H) as [g Hg]. rewrite Hg. eexists. reflexivity.
Qed.

Lemma concat_res_ok {A B} (f : A -> res (list B)) l : (forall x, In x l -> exists y, f x = Ok y) -> exists r, concat_res (map f l) = Ok r.
Proof.
  induction l as [|a t IH]; intros H; [exists []; reflexivity|]. cbn [map concat_res].
  destruct (H a (or_introl eq_refl)) as [y Hy]. rewrite Hy. cbn [obind].
  destruct IH as [r Hr]; [intros x Hx; apply H; right; exact Hx|]. rewrite Hr. eexists. reflexivity.
Qed.
Lemma all_res_ok {A B} (f : A -> res B) l : (forall x, In x l -> exists y, f x = Ok y) -> exists r, all_res (map f l) = Ok r.
Proof.
  induction l as [|a t IH]; intros H; [exists []; reflexivity|]. cbn [map all_res].
  destruct (H a (or_introl eq_refl)) as [y Hy]. rewrite Hy. cbn [obind].
  destruct IH as [r Hr]; [intros x Hx; apply H; right; exact Hx|]. rewrite Hr. eexists. reflexivity.
Qed.

Lemma export_instance_ok cells i : inst_okb (List.length cells) i = true -> exists g, export_instance cells i = Ok g.
Proof.
  unfold inst_okb. intros H. apply andb_prop in H as [H1 H2]. apply Nat.ltb_lt in H1. unfold export_instance.
  destruct (nth_error cells (i_cell i)) eqn:E; [|apply nth_error_None in E; lia].
  rewrite (export_point_ok _ H2). eexists. reflexivity.
Qed.

Lemma export_layout_ok ly cells cname l : layout_okb ly (List.length cells) cname l = true ->
  exists s, export_layout xcfg_fixed ly cells l = Ok s.
Proof.
  unfold layout_okb. intros H. apply andb_prop in H as [H He]. apply andb_prop in H as [_ Hi].
  unfold export_layout.
  destruct (all_res_ok (export_instance cells) (lay_insts l)) as [is His].
  { intros i Hin. rewrite forallb_forall in Hi. apply export_instance_ok. apply Hi. exact Hin. }
  destruct (concat_res_ok (export_element xcfg_fixed ly) (lay_elems l)) as [es Hes].
  { intros e Hin. rewrite forallb_forall in He. apply export_element_ok. apply He. exact Hin. }
  rewrite His, Hes. eexists. reflexivity.
Qed.

Lemma export_port_ok ly p : port_okb ly p = true -> exists es, export_abstract_port xcfg_fixed ly p = Ok es.
Proof.
  unfold port_okb. intros H. apply andb_prop in H as [_ H]. unfold export_abstract_port.
  apply concat_res_ok. intros e He.
  assert (Hin : In e (ap_shapes p)).
  { clear -He. unfold sorted_by_layer in He. induction (ap_shapes p) as [|x r IH]; [destruct He|]. cbn [fold_right] in He.
    assert (Hins : forall y l, In e (insert_entry y l) -> e = y \/ In e l).
    { intros y l. induction l as [|z t IHl]; cbn [insert_entry]; [intros [<-|[]]; left; reflexivity|].
      destruct (Nat.leb (fst y) (fst z)); [intros [<-|H]; [left; reflexivity|right; exact H]|].
      intros [<-|H]; [right; left; reflexivity|]. destruct (IHl H) as [->|H']; [left; reflexivity|right; right; exact H']. }
    destruct (Hins _ _ He) as [->|H']; [left; reflexivity|right; apply IH; exact H']. }
  rewrite forallb_forall in H. specialize (H e Hin).
  apply andb_prop in H as [H Hs]. apply andb_prop in H as [H Hl]. apply andb_prop in H as [Hd Hp].
  destruct (layerspec_ok _ _ _ Hd) as [d Ed]. destruct (layerspec_ok _ _ _ Hp) as [pp Ep]. destruct (layerspec_ok _ _ _ Hl) as [lb El].
  unfold export_port_layer. rewrite Ed, Ep, El. cbn [obind].
  apply concat_res_ok. intros s Hsin. rewrite forallb_forall in Hs. specialize (Hs s Hsin).
  pose proof Hs as Hs0. unfold named_shape_okb in Hs0. apply andb_prop in Hs0 as [Hs0 _].
  unfold export_port_shape.
  destruct (export_shape_ok s d Hs0) as [a Ha]. destruct (export_shape_ok s pp Hs0) as [b Hb].
  destruct (export_label_ok (ap_net p) s lb Hs) as [t Ht]. rewrite Ha, Hb, Ht. eexists. reflexivity.
Qed.

Lemma export_abstract_ok ly cname a : abstract_okb ly cname a = true -> exists s, export_abstract xcfg_fixed ly a = Ok s.
Proof.
  unfold abstract_okb. intros H. apply andb_prop in H as [H Hports]. apply andb_prop in H as [H Hpts]. apply andb_prop in H as [_ Hne].
  unfold export_abstract. rewrite (export_points_ok _ Hpts). cbn [obind].
  destruct (ab_outline a) as [|p0 r] eqn:Eo; [discriminate|].
  cbn [forallb] in Hpts. apply andb_prop in Hpts as [H0 _]. rewrite (export_point_ok _ H0). cbn [obind].
  destruct (concat_res_ok (export_abstract_port xcfg_fixed ly) (ab_ports a)) as [ps Hps].
  { intros p Hin. rewrite forallb_forall in Hports. apply export_port_ok. apply Hports. exact Hin. }
  rewrite Hps. eexists. reflexivity.
Qed.

Lemma export_cells_ok ly cells : forall todo, forallb (cell_okb ly (List.length cells)) todo = true ->
  exists ss, export_cells xcfg_fixed ly cells todo = Ok ss.
Proof.
  induction todo as [|c0 r IH]; intros H; [exists []; reflexivity|].
  cbn [forallb] in H. apply andb_prop in H as [Hc Hr]. cbn [export_cells].
  assert (Hcell : exists s, export_cell xcfg_fixed ly cells c0 = Ok s).
  { unfold cell_okb in Hc. unfold export_cell. destruct (c_layout c0) as [l|].
    - destruct (export_layout_ok ly cells _ l Hc) as [s Hs]. rewrite Hs. eexists. reflexivity.
    - destruct (c_abs c0) as [a|]; [|discriminate]. destruct (export_abstract_ok ly _ a Hc) as [s Hs]. rewrite Hs. eexists. reflexivity. }
  destruct Hcell as [s Hs]. rewrite Hs. cbn [obind]. destruct (IH Hr) as [ss Hss]. rewrite Hss. eexists. reflexivity.
Qed.

(** no panic, no error: every library in the input space is exported *)
Theorem export_no_panic L : exportable L -> exists g, export_lib L = Ok g.
Proof.
  unfold exportable, exportableb. cbv zeta. intros H.
  apply andb_prop in H as [H _]. apply andb_prop in H as [H _]. apply andb_prop in H as [_ Hcells].
  unfold export_lib, export_lib_gen. destruct (export_cells_ok _ _ _ Hcells) as [ss Hss]. rewrite Hss. eexists. reflexivity.
Qed.
