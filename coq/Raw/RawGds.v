(** Model of layout21raw/src/gds.rs, the GDSII IMPORTER: [GdsImporter::import], [import_lib],
    [import_units], [GdsDepOrder] (as repaired in /repo commit e6fd6b8: pending set, error on an
    undefined name), [import_and_add], [import_cell], [import_layout] (both passes),
    [import_boundary], [import_box], [import_path], [import_instance], [import_instance_array],
    [import_point], [import_element_layer] (= RawData.get_or_insert).  Properties C06 and C07.
    Transcribed function by function; no proofs in this file.

    Variants.  The importer was found with several defects (DESIGN.md section 6, rows 19-21, and
    the report of C06).  The model carries one boolean per proposed repair ([cfg]); [true] = the
    source has the repaired form.  Which form the tree carries is read from the SOURCE on every
    run (tools/props/c06.py, [model_cfg]).  [cfg_orig] is the code as found at /repo b8a7638,
    [cfg_fixed] the code with every proposed patch of work/c06/ applied.

    Conventions
    - GDSII strings are byte lists (Gds/GdsData.v); raw strings are Coq [string]s with the same
      bytes ([str_of_bytes]).  `String::to_lowercase` is modelled on ASCII only ([lower]); label
      strings with non-ASCII letters are outside the model.
    - `Ptr<Cell>` = index into the library's cell list, [LayerKey] = index into the layer
      slots (Raw/RawData.v).  `cell_map : HashMap<String, Ptr<Cell>>` is an association list
      (only looked up, never iterated).  The local `layers : HashMap<i16, Vec<ElementKey>>` of
      [import_layout] likewise; `elems : SlotMap` without removals is a list in insertion order
      (`drain()` yields that order).
    - [GdsDepOrder]: nodes are struct INDICES; a name stands for the last struct carrying it
      (`HashMap::insert` overwrites) and an undefined name for the index [length structs].  The
      Rust code keys `seen`/`pending` by NAME: the two coincide when struct names are pairwise
      distinct ([names_distinctb]); libraries with repeated struct names are outside the model.
      The orderer itself is Order/DepOrderFixed.v [order_checked] (theorems: Properties/C17.v).
    - Integers are [Z].  `Int = isize` is 64 bits; every coordinate of a GDSII library is an
      `i32`, so the sums and products of the importer stay far inside `isize` and are not
      range-checked, except where the code itself narrows (`i32::try_from`, `i16` product,
      `as usize`).
    - Floating point appears in two places: the unit comparison of [import_units] and the
      rotation of the array pitch in [import_instance_array] as found.  Both are modelled with
      the exact dyadic arithmetic of Geom/Transform.v (round-to-nearest-even after every
      operation).  `sin`/`cos` come from the generated table Gen/LibmGen.v (right angles only);
      any other angle in that place is [INoModel].
    - `println!` warnings and the error-context stack are not modelled; errors carry a kind
      ([ierr]) that only serves diagnostics: the checks compare the CLASS (error or not). *)
From Coq Require Import ZArith NArith List String Ascii Bool DecimalString.
From L21 Require Import Base.F64 Gen.LibmGen Raw.RawData.
From L21 Require Geom.Transform Geom.Contains Gds.GdsData Order.DepOrder Order.DepOrderFixed.
Import ListNotations.
Local Open Scope list_scope.
Local Open Scope Z_scope.

Module G := Gds.GdsData.
Module T := Geom.Transform.
Module C := Geom.Contains.
Module D := Order.DepOrder.

(** * Outcomes *)
Inductive ierr : Type :=
| EUnits          (* "Unsupported GDSII Units" *)
| EDepOrder       (* GdsDepOrder: undefined or self-referencing struct *)
| EOpenBoundary   (* "GDS Boundary must start and end at the same point" *)
| EPathWidth      (* "Invalid nonspecifed GDS Path width" *)
| EAbsFlags       (* "Unsupported ... Absolute Magnitude/ Angle" *)
| EMag            (* "Unsupported GDSII Array Setting: Magnitude", (repaired) SREF magnification *)
| ENoCell         (* "Instance of invalid cell" *)
| EConv           (* TryFromIntError *)
| EArrayDims      (* (repaired) rows or columns not positive *)
| EEmptyXY        (* (repaired) boundary or path without coordinates *)
| ELayer.         (* "Internal error: element added to invalid layer" *)

Inductive ires (A : Type) : Type :=
| IOk (a : A)
| IErr (e : ierr)
| IPanic
| INoModel.       (* the model does not say: libm outside the table, ill-typed input *)
Arguments IOk {A} a.
Arguments IErr {A} e.
Arguments IPanic {A}.
Arguments INoModel {A}.

Definition ibind {A B : Type} (x : ires A) (f : A -> ires B) : ires B :=
  match x with
  | IOk a => f a
  | IErr e => IErr e
  | IPanic => IPanic
  | INoModel => INoModel
  end.
Notation "'do' x <- e ; k" := (ibind e (fun x => k))
  (at level 200, x pattern, e at level 100, k at level 200, right associativity).

(** * Which code the model stands for *)
Record cfg : Type := mkcfg {
  fx_dims : bool;       (* array with cols <= 0 or rows <= 0 is an error (as found: division by zero) *)
  fx_cap : bool;        (* capacity rows*cols computed in usize (as found: in i16) *)
  fx_deg : bool;        (* array instances carry the angle in degrees (as found: radians) *)
  fx_lattice : bool;    (* the lattice is taken from the three XY points (as found: axis-parallel pitch,
                           rotated by the angle; any other XY silently yields no instance) *)
  fx_emptyxy : bool;    (* boundary / path without coordinates is an error (as found: `pts[0]` panics;
                           an empty path is imported) *)
  fx_mag : bool;        (* SREF magnification other than 1 is an error (as found: ignored) *)
  fx_width : bool;      (* a negative path width (GDSII: an absolute width) is imported as its magnitude
                           (as found: `as usize` wraps it to 2^64 - |w|) *)
  fx_contains : bool;   (* Polygon::contains as repaired for C13 (as found: Geom/Contains.v [_orig]) *)
  fx_pico : bool;       (* import_units knows 1e-12 m = Units::Pico (repair proposed by C07; as found: an error) *)
  fx_pathdiag : bool }. (* Path::contains handles non-Manhattan segments (as found: `unimplemented!`) *)

Definition cfg_orig : cfg := mkcfg false false false false false false false false false false.
Definition cfg_fixed : cfg := mkcfg true true true true true true true true true true.

(** * Strings *)
Definition str_of_bytes (l : list Z) : string :=
  fold_right (fun b s => String (ascii_of_N (Z.to_N b)) s) EmptyString l.
Definition lower_ascii (a : ascii) : ascii :=
  let n := N_of_ascii a in
  if (N.leb 65 n && N.leb n 90)%bool then ascii_of_N (n + 32) else a.
(** `str::to_lowercase`, ASCII part *)
Fixpoint lower (s : string) : string :=
  match s with
  | EmptyString => EmptyString
  | String a r => String (lower_ascii a) (lower r)
  end.
Definition is_ascii_str (s : string) : bool :=
  (fix go (s : string) : bool :=
     match s with EmptyString => true | String a r => (N.ltb (N_of_ascii a) 128 && go r)%bool end) s.
(** `format!("{}", n)` for a non-negative integer *)
Definition dec_string (n : Z) : string := NilZero.string_of_uint (N.to_uint (Z.to_N n)).
(** `format!("{}[{}][{}]", cname, ix, iy)` *)
Definition array_inst_name (cname : string) (ix iy : Z) : string :=
  (cname ++ "[" ++ dec_string ix ++ "][" ++ dec_string iy ++ "]")%string.

(** * Points *)
(** import_point: `pt.x.try_into()?` from `i32` to `isize` cannot fail *)
Definition import_point (p : G.point) : point := mkpt (G.px p) (G.py p).
Definition pt_eqb (a b : point) : bool := (px a =? px b) && (py a =? py b).
Definition cpt (p : point) : C.point := (px p, py p).

(** * import_units *)
Definition bits_1em10 : Z := 4457293557087583675.   (* 1e-10 *)
Definition bits_1em13 : Z := 4412443251819771522.   (* 1e-13 *)
Definition bits_1em9 : Z := 4472406533629990549.    (* 1e-9 *)
Definition bits_1em12 : Z := 4427486594234968593.   (* 1e-12 *)
Definition bits_1em15 : Z := 4382569440205035030.   (* 1e-15 *)
Definition bits_1em6 : Z := 4517329193108106637.    (* 1e-6 *)
Definition bits_one : Z := 4607182418800017408.     (* 1.0 *)
Definition bits_deg2rad : Z := 4580687790476533049. (* consts::PI / 180.0 *)

(** a < b on dyadics m * 2^e *)
Definition dy_ltb (a b : T.dy) : bool :=
  let e := Z.min (snd a) (snd b) in
  fst a * T.pow2 (snd a - e) <? fst b * T.pow2 (snd b - e).
Definition dy_abs (a : T.dy) : T.dy := (Z.abs (fst a), snd a).
(** `(u - c).abs() < t` on doubles given as bit patterns; [false] when [u] is NaN or infinite *)
Definition near (u c t : Z) : bool :=
  match T.dy_of_bits u, T.dy_of_bits c, T.dy_of_bits t with
  | Some du, Some dc, Some dt =>
    match T.fadd du (T.fneg dc) with
    | Some d => dy_ltb (dy_abs d) dt
    | None => false
    end
  | _, _, _ => false
  end.
Definition import_units (c : cfg) (u : Z * Z) : ires units :=
  let gdsunit := snd u in                                   (* units.db_unit() = units.1 *)
  if fx_pico c && near gdsunit bits_1em12 bits_1em15 then IOk Pico
  else if near gdsunit bits_1em10 bits_1em13 then IOk Angstrom
  else if near gdsunit bits_1em9 bits_1em12 then IOk Nano
  else if near gdsunit bits_1em6 bits_1em9 then IOk Micro
  else IErr EUnits.

(** * GdsDepOrder *)
Definition struct_refs (s : G.gstruct) : list G.bytes :=
  flat_map (fun e => match e with
                     | G.ESref x => [G.sr_name x]
                     | G.EAref x => [G.ar_name x]
                     | _ => []
                     end) (G.s_elems s).
(** `strukts.get(name)`: the last struct with that name; [length structs] when there is none *)
Fixpoint name_index_from (structs : list G.gstruct) (nm : G.bytes) (k : N) (dflt : N) : N :=
  match structs with
  | [] => dflt
  | s :: r => name_index_from r nm (N.succ k) (if Base.Hex.zlist_eqb (G.s_name s) nm then k else dflt)
  end.
Definition name_index (structs : list G.gstruct) (nm : G.bytes) : N :=
  name_index_from structs nm 0%N (N.of_nat (List.length structs)).
Definition gds_deps (structs : list G.gstruct) (i : N) : list N :=
  match nth_error structs (N.to_nat i) with
  | Some s => map (name_index structs) (struct_refs s)
  | None => []
  end.
Definition gds_defined (structs : list G.gstruct) (d : N) : bool := N.ltb d (N.of_nat (List.length structs)).
Definition gds_items (structs : list G.gstruct) : list N := map N.of_nat (seq 0 (List.length structs)).
(** GdsDepOrder::order; recursion depth [length structs + 2] always suffices (C17_repaired_total) *)
Definition gds_order (structs : list G.gstruct) : D.res (list N) :=
  Order.DepOrderFixed.order_checked (S (S (List.length structs))) (gds_defined structs) (gds_deps structs)
                                    (gds_items structs).
Fixpoint names_distinct_from (seen : list G.bytes) (structs : list G.gstruct) : bool :=
  match structs with
  | [] => true
  | s :: r => negb (existsb (Base.Hex.zlist_eqb (G.s_name s)) seen) && names_distinct_from (G.s_name s :: seen) r
  end.
Definition names_distinctb (g : G.library) : bool := names_distinct_from [] (G.l_structs g).

(** * Elements *)
(** the two rectangle patterns of import_boundary *)
Definition rect_pattern (a b c d : point) : bool :=
  ((px a =? px b) && (py b =? py c) && (px c =? px d) && (py d =? py a))
  || ((py a =? py b) && (px b =? px c) && (py c =? py d) && (px d =? px a)).

Definition mk_element (ly : layers) (layer xtype : Z) (inner : shape) : layers * element :=
  let '(ly', key, purp) := get_or_insert ly layer xtype in      (* import_element_layer *)
  (ly', mkelem None key purp inner).

Definition import_boundary (c : cfg) (ly : layers) (x : G.boundary) : ires (layers * element) :=
  let pts := map import_point (G.b_xy x) in
  match pts with
  | [] => if fx_emptyxy c then IErr EEmptyXY else IPanic          (* `pts[0]` *)
  | p0 :: _ =>
    if negb (pt_eqb p0 (last pts p0)) then IErr EOpenBoundary
    else
      let pts' := removelast pts in                               (* pts.pop() *)
      let inner := match pts' with
                   | [a; b; c0; d] => if rect_pattern a b c0 d then Rect a c0 else Polygon pts'
                   | _ => Polygon pts'
                   end in
      IOk (mk_element ly (G.b_layer x) (G.b_datatype x) inner)
  end.

(** `[GdsPoint; 5]`: a list of another length is ill-typed *)
Definition import_box (ly : layers) (x : G.gbox) : ires (layers * element) :=
  match G.x_xy x with
  | [q0; _; q2; _; _] =>
    IOk (mk_element ly (G.x_layer x) (G.x_boxtype x) (Rect (import_point q0) (import_point q2)))
  | _ => INoModel
  end.

Definition import_path (c : cfg) (ly : layers) (x : G.path) : ires (layers * element) :=
  let pts := map import_point (G.p_xy x) in
  match pts, fx_emptyxy c with
  | [], true => IErr EEmptyXY
  | _, _ =>
    match G.p_width x with
    | None => IErr EPathWidth
    | Some w =>
      (* repaired: `w.unsigned_abs() as usize`; as found: `w as usize` *)
      let w' := if w <? 0 then (if fx_width c then - w else w + two64) else w in
      IOk (mk_element ly (G.p_layer x) (G.p_datatype x) (Path pts w'))
    end
  end.

(** * Instances *)
(** `cell_map : HashMap<String, Ptr<Cell>>`, keyed by the name's bytes (a Rust `String` is its UTF-8 bytes) *)
Definition cell_map : Type := list (G.bytes * nat).
Fixpoint cm_get (m : cell_map) (nm : G.bytes) : option nat :=
  match m with
  | [] => None
  | (k, v) :: r => if Base.Hex.zlist_eqb k nm then Some v else cm_get r nm
  end.

Definition import_instance (c : cfg) (cm : cell_map) (x : G.sref) : ires instance :=
  match cm_get cm (G.sr_name x) with
  | None => IErr ENoCell
  | Some cell =>
    let loc := import_point (G.sr_xy x) in
    match G.sr_strans x with
    | None => IOk (mkinst EmptyString cell loc false None)
    | Some st =>
      if G.st_abs_mag st || G.st_abs_angle st then IErr EAbsFlags
      else if fx_mag c && match G.st_mag st with Some m => negb (m =? bits_one) | None => false end
           then IErr EMag
      else IOk (mkinst EmptyString cell loc (G.st_reflected st) (G.st_angle st))
    end
  end.

(** `x as Int` on a finite double: truncation toward zero, saturating *)
Definition f_trunc (d : T.dy) : Z :=
  let '(m, e) := d in
  if 0 <=? e then m * T.pow2 e else Z.quot m (T.pow2 (- e)).
Definition f_as_int (d : T.dy) : Z := T.as_isize (f_trunc d).

(** `a.to_radians()` as a bit pattern (`a * (PI / 180.0)`); the sign of a zero is kept *)
Definition to_radians_bits (a : Z) : option Z :=
  if f64_is_zero a then Some a
  else match T.dy_of_bits a, T.dy_of_bits bits_deg2rad with
       | Some da, Some dk =>
         match T.fmul da dk with Some r => T.dy_to_bits r | None => None end
       | _, _ => None
       end.

(** sin and cos of the angle (bit pattern, degrees), from the libm table *)
Definition sincos_deg_bits (a : Z) : option (T.dy * T.dy) :=
  match f64_int_value a with
  | Some d => T.libm_sincos d
  | None => None
  end.

(** the rotation of the pitch in import_instance_array as found:
    `xstep = (px * cos - py * sin) as Int; ystep = (px * sin + py * cos) as Int` *)
Definition rotate_steps (sc : T.dy * T.dy) (xs ys : Z) : option (Z * Z) :=
  let '(sn, cs) := sc in
  match T.f_of_int xs, T.f_of_int ys with
  | Some fx, Some fy =>
    match T.fmul fx cs, T.fmul fy sn, T.fmul fx sn, T.fmul fy cs with
    | Some a, Some b, Some c0, Some d =>
      match T.fadd a (T.fneg b), T.fadd c0 d with
      | Some x', Some y' => Some (f_as_int x', f_as_int y')
      | _, _ => None
      end
    | _, _, _, _ => None
    end
  | _, _ => None
  end.

(** `for ix in 0..cols { for iy in 0..rows { insts.push(..) } }` *)
Definition zrange (n : Z) : list Z := map Z.of_nat (seq 0 (Z.to_nat n)).
Definition array_insts (cname : string) (cell : nat) (cols rows : Z) (loc : Z -> Z -> point)
           (refl : bool) (angle : option Z) : list instance :=
  flat_map (fun ix => map (fun iy => mkinst (array_inst_name cname ix iy) cell (loc ix iy) refl angle)
                          (zrange rows)) (zrange cols).

(** the capacity of `Vec::with_capacity(..)`: [IOk tt] when the expression evaluates *)
Definition array_capacity (c : cfg) (cols rows : Z) : ires unit :=
  if fx_cap c then
    (* `usize::try_from(aref.rows)? * usize::try_from(aref.cols)?` *)
    if (rows <? 0) || (cols <? 0) then IErr EConv else IOk tt
  else
    (* `(aref.rows * aref.cols) as usize`: i16 product; a negative product is a capacity overflow *)
    let p := rows * cols in
    if negb (i16_okb p) then IPanic else if p <? 0 then IPanic else IOk tt.

Definition import_instance_array (c : cfg) (cm : cell_map) (x : G.aref) : ires (option (list instance)) :=
  let cname := str_of_bytes (G.ar_name x) in
  match cm_get cm (G.ar_name x) with
  | None => IErr ENoCell
  | Some cell =>
    match G.ar_xy x with
    | [q0; q1; q2] =>
      let p0 := import_point q0 in let p1 := import_point q1 in let p2 := import_point q2 in
      let cols := G.ar_cols x in let rows := G.ar_rows x in
      if fx_dims c && ((cols <=? 0) || (rows <=? 0)) then IErr EArrayDims
      else if fx_lattice c then
        (* the column and row displacement vectors, from the three points *)
        if (cols =? 0) || (rows =? 0) then IPanic               (* division by zero *)
        else
          let cdx := Z.quot (px p1 - px p0) cols in let cdy := Z.quot (py p1 - py p0) cols in
          let rdx := Z.quot (px p2 - px p0) rows in let rdy := Z.quot (py p2 - py p0) rows in
          do ra <- match G.ar_strans x with
                   | None => IOk (false, None)
                   | Some st =>
                     if G.st_abs_mag st || G.st_abs_angle st then IErr EAbsFlags
                     else match G.st_mag st with
                          | Some _ => IErr EMag
                          | None =>
                            match G.st_angle st with
                            | None => IOk (G.st_reflected st, None)
                            | Some a =>
                              if fx_deg c then IOk (G.st_reflected st, Some a)
                              else match to_radians_bits a with
                                   | Some r => IOk (G.st_reflected st, Some r)
                                   | None => INoModel
                                   end
                            end
                          end
                   end;
          do _ <- array_capacity c cols rows;
          IOk (Some (array_insts cname cell cols rows
                                 (fun ix iy => mkpt (px p0 + ix * cdx + iy * rdx) (py p0 + ix * cdy + iy * rdy))
                                 (fst ra) (snd ra)))
      else
        (* as found *)
        if negb (py p0 =? py p1) || negb (px p0 =? px p2) then IOk None     (* silently nothing *)
        else if (cols =? 0) || (rows =? 0) then IPanic                        (* division by zero *)
        else
          let xstep := Z.quot (px p1 - px p0) cols in
          let ystep := Z.quot (py p2 - py p0) rows in
          do sra <- match G.ar_strans x with
                    | None => IOk (xstep, ystep, false, None)
                    | Some st =>
                      if G.st_abs_mag st || G.st_abs_angle st then IErr EAbsFlags
                      else match G.st_mag st with
                           | Some _ => IErr EMag
                           | None =>
                             match G.st_angle st with
                             | None => IOk (xstep, ystep, G.st_reflected st, None)
                             | Some a =>
                               if negb (i32_okb xstep && i32_okb ystep) then IErr EConv
                               else match sincos_deg_bits a, to_radians_bits a with
                                    | Some sc, Some r =>
                                      match rotate_steps sc xstep ystep with
                                      | Some (xs', ys') =>
                                        IOk (xs', ys', G.st_reflected st, Some (if fx_deg c then a else r))
                                      | None => INoModel
                                      end
                                    | _, _ => INoModel
                                    end
                             end
                           end
                    end;
          let '(xs, ys, refl, angle) := sra in
          do _ <- array_capacity c cols rows;
          IOk (Some (array_insts cname cell cols rows
                                 (fun ix iy => mkpt (px p0 + ix * xs) (py p0 + iy * ys)) refl angle))
    | _ => INoModel
    end
  end.

(** * import_layout *)
Definition shape_c (s : shape) : C.shape :=
  match s with
  | Rect p0 p1 => C.SRect (cpt p0) (cpt p1)
  | Polygon pts => C.SPolygon (map cpt pts)
  | Path pts w => C.SPath (map cpt pts) w
  end.
(** Path::contains with the repair work/c06/fix-8-path-contains-nonmanhattan.patch: horizontal and
    vertical segments as before ([C.path_scan]); any other segment a b holds q when
    0 <= (q-a).(b-a) <= |b-a|^2 and 2 |(b-a) x (q-a)| <= isqrt(width^2 |b-a|^2), computed in i128 / u128
    ([C.Ovf] when an intermediate leaves that range). *)
Definition u128_max : Z := 2 ^ 128 - 1.
Definition in_u128 (z : Z) : bool := (0 <=? z) && (z <=? u128_max).
Fixpoint path_scan_fixed (ps : list C.point) (w : Z) (q : C.point) : C.res :=
  match ps with
  | a :: (b :: _) as tl =>
    let hw := Z.quot w 2 in
    if C.X a =? C.X b then
      let x0 := C.X a - hw in let x1 := C.X a + hw in
      if C.all_in_int [x0; x1] then
        if C.rect_contains (x0, C.Y a) (x1, C.Y b) q then C.Ret true else path_scan_fixed tl w q
      else C.Ovf
    else if C.Y a =? C.Y b then
      let y0 := C.Y a - hw in let y1 := C.Y a + hw in
      if C.all_in_int [y0; y1] then
        if C.rect_contains (C.X a, y0) (C.X b, y1) q then C.Ret true else path_scan_fixed tl w q
      else C.Ovf
    else
      let dx := C.X b - C.X a in let dy := C.Y b - C.Y a in
      let qx := C.X q - C.X a in let qy := C.Y q - C.Y a in
      let len2 := dx * dx + dy * dy in
      let dot := qx * dx + qy * dy in
      let cr := dx * qy - dy * qx in
      if C.all_in_i128 [dx; dy; qx; qy; dx * dx; dy * dy; len2; qx * dx; qy * dy; dot; dx * qy; dy * qx; cr]
         && in_u128 (w * w) && in_u128 (w * w * len2) && in_u128 (2 * Z.abs cr) then
        if (0 <=? dot) && (dot <=? len2) && (2 * Z.abs cr <=? Z.sqrt (w * w * len2)) then C.Ret true
        else path_scan_fixed tl w q
      else C.Ovf
  | _ => C.Ret false
  end.
Definition path_contains_fixed (ps : list C.point) (width : Z) (q : C.point) : C.res :=
  if negb (C.in_int width) then C.Panic
  else match ps with
       | [] => C.Panic
       | _ => path_scan_fixed ps width q
       end.

(** Shape::contains of the tree at hand *)
Definition contains_res (c : cfg) (s : C.shape) (q : C.point) : C.res :=
  match s with
  | C.SRect p0 p1 => C.Ret (C.rect_contains p0 p1 q)
  | C.SPolygon ps => if fx_contains c then C.poly_contains ps q else C.poly_contains_orig ps q
  | C.SPath ps w => if fx_pathdiag c then path_contains_fixed ps w q else C.path_contains ps w q
  end.

(** `elem.inner.contains(&loc)`; an integer overflow is a panic (the harness is built with
    overflow checks) *)
Definition shape_contains (c : cfg) (s : shape) (q : point) : ires bool :=
  match contains_res c (shape_c s) (cpt q) with
  | C.Ret b => IOk b
  | C.Ovf => IPanic
  | C.Panic => IPanic
  end.

(** state of the first pass *)
Record pass1 : Type := mkp1 {
  p_layers : layers;
  p_insts : list instance;
  p_elems : list element;                 (* the slot map, in key order *)
  p_buckets : list (Z * list nat);        (* layer number -> element keys, in insertion order *)
  p_texts : list G.textelem }.

Fixpoint bucket_add (b : list (Z * list nat)) (n : Z) (k : nat) : list (Z * list nat) :=
  match b with
  | [] => [(n, [k])]
  | (n', ks) :: r => if n' =? n then (n', ks ++ [k]) :: r else (n', ks) :: bucket_add r n k
  end.
Fixpoint bucket_get (b : list (Z * list nat)) (n : Z) : option (list nat) :=
  match b with
  | [] => None
  | (n', ks) :: r => if n' =? n then Some ks else bucket_get r n
  end.

Definition add_element (s : pass1) (le : layers * element) : ires pass1 :=
  let '(ly, e) := le in
  match ly_get ly (e_layer e) with
  | None => IErr ELayer
  | Some l =>
    IOk (mkp1 ly (p_insts s) (p_elems s ++ [e])
              (bucket_add (p_buckets s) (l_num l) (List.length (p_elems s))) (p_texts s))
  end.

Definition pass1_step (c : cfg) (cm : cell_map) (s : pass1) (e : G.element) : ires pass1 :=
  match e with
  | G.EBoundary x => do le <- import_boundary c (p_layers s) x; add_element s le
  | G.EPath x => do le <- import_path c (p_layers s) x; add_element s le
  | G.EBox x => do le <- import_box (p_layers s) x; add_element s le
  | G.EAref x =>
    do arr <- import_instance_array c cm x;
    IOk (mkp1 (p_layers s) (p_insts s ++ match arr with Some l => l | None => [] end)
              (p_elems s) (p_buckets s) (p_texts s))
  | G.ESref x =>
    do i <- import_instance c cm x;
    IOk (mkp1 (p_layers s) (p_insts s ++ [i]) (p_elems s) (p_buckets s) (p_texts s))
  | G.EText x => IOk (mkp1 (p_layers s) (p_insts s) (p_elems s) (p_buckets s) (p_texts s ++ [x]))
  | G.ENode _ => IOk s
  end.

Fixpoint pass1_all (c : cfg) (cm : cell_map) (s : pass1) (es : list G.element) : ires pass1 :=
  match es with
  | [] => IOk s
  | e :: r => do s' <- pass1_step c cm s e; pass1_all c cm s' r
  end.

(** the inner loop of the second pass over one layer's elements: (elems, hit) *)
Fixpoint label_bucket (c : cfg) (name : string) (loc : point) (elems : list element) (hit : bool)
         (keys : list nat) : ires (list element * bool) :=
  match keys with
  | [] => IOk (elems, hit)
  | k :: r =>
    match nth_error elems k with
    | None => IPanic                                        (* `elems.get_mut(ekey).unwrap()` *)
    | Some e =>
      do b <- shape_contains c (e_shape e) loc;
      if b then
        let e' := match e_net e with
                  | Some _ => e                             (* already named: a warning, nothing else *)
                  | None => mkelem (Some name) (e_layer e) (e_purpose e) (e_shape e)
                  end in
        label_bucket c name loc (list_set elems k e') true r
      else label_bucket c name loc elems hit r
    end
  end.

Fixpoint pass2 (c : cfg) (buckets : list (Z * list nat)) (elems : list element) (annots : list textelem)
         (texts : list G.textelem) : ires (list element * list textelem) :=
  match texts with
  | [] => IOk (elems, annots)
  | t :: r =>
    let loc := import_point (G.t_xy t) in
    let str := str_of_bytes (G.t_string t) in
    let annot := annots ++ [mktext str loc] in
    match bucket_get buckets (G.t_layer t) with
    | None => pass2 c buckets elems annot r
    | Some keys =>
      do eh <- label_bucket c (lower str) loc elems false keys;
      if snd eh then pass2 c buckets (fst eh) annots r
      else pass2 c buckets (fst eh) annot r
    end
  end.

Definition import_layout (c : cfg) (cm : cell_map) (ly : layers) (s : G.gstruct) : ires (layers * layout) :=
  do p <- pass1_all c cm (mkp1 ly [] [] [] []) (G.s_elems s);
  do ea <- pass2 c (p_buckets p) (p_elems p) [] (p_texts p);
  IOk (p_layers p, mklayout (str_of_bytes (G.s_name s)) (p_insts p) (fst ea) (snd ea)).

(** * import_lib *)
Record istate : Type := mkist { is_layers : layers; is_cells : list cell; is_map : cell_map }.

(** import_and_add (with import_cell and `Cell::from(layout)`) *)
Definition import_and_add (c : cfg) (st : istate) (s : G.gstruct) : ires istate :=
  let name := str_of_bytes (G.s_name s) in
  match cm_get (is_map st) (G.s_name s) with
  | Some _ => IOk st                                         (* already done *)
  | None =>
    do ll <- import_layout c (is_map st) (is_layers st) s;
    IOk (mkist (fst ll) (is_cells st ++ [mkcell name None (Some (snd ll))])
               (is_map st ++ [(G.s_name s, List.length (is_cells st))]))
  end.

Fixpoint import_structs (c : cfg) (structs : list G.gstruct) (st : istate) (order : list N) : ires istate :=
  match order with
  | [] => IOk st
  | i :: r =>
    match nth_error structs (N.to_nat i) with
    | None => INoModel                                       (* the orderer only returns struct indices *)
    | Some s => do st' <- import_and_add c st s; import_structs c structs st' r
    end
  end.

(** GdsImporter::import(gdslib, layers): [ly0] = the caller's layer table ([[]] for `None`) *)
Definition import_lib (c : cfg) (ly0 : layers) (g : G.library) : ires library :=
  do u <- import_units c (G.l_units g);
  match gds_order (G.l_structs g) with
  | D.Err => IErr EDepOrder
  | D.Panic => IPanic
  | D.OutOfFuel => INoModel
  | D.Ok order =>
    do st <- import_structs c (G.l_structs g) (mkist ly0 [] []) order;
    IOk (mklib (str_of_bytes (G.l_name g)) u (is_layers st) (is_cells st))
  end.
