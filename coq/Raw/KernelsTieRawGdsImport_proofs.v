(** Tie (a) of DESIGN.md 2.3 for the GDSII importer (family "raw_gdsi", property C06; `import_boundary` is in family
    raw_gds): the definitions generated from layout21raw/src/gds.rs `GdsImporter::import_point`, `import_point_vec`,
    `import_units` (the four comparisons `(u - c).abs() < t` on doubles), `import_box` (first and third coordinate), `import_path` (no coordinates / no width are errors, `unsigned_abs` of the
    width) and `import_instance` (cell lookup by name, the STRANS flags, the magnification test `m != 1.0`, reflection and
    angle taken over) (Gen/KernelsRawGdsImportGen.v), read as in Raw/KernelsInstRawGdsImport.v, EQUAL [import_point],
    [import_units], [import_box], [import_path], [import_instance] of Raw/RawGds.v (the repaired variants), the error kind and the updated
    layer table apart. *)
From Coq Require Import ZArith Bool List String Lia.
From L21 Require Import Base.KernelOps Base.KernelOpsX Base.KernelOpsS Base.Outcome Base.F64 Gen.KernelsRawGdsImportGen Raw.KernelsInstRaw2 Raw.KernelsInstRawGdsImport.
From L21 Require Import Raw.RawData.
From L21 Require Gds.GdsData Raw.RawGds Raw.RawGdsExport.
Import ListNotations.
Local Open Scope Z_scope.

Ltac is := cbn [rb_xops kx_base rb_kops k_bind k_ret k_fail k_panic i_try_from_q i_cast i_lit i_eq v_get v_len f_eq f_one ou_bind ou_ret ou_err ou_pan obind
                iunit GI.iunit].

Lemma i64_in : forall z, ity_in Isize z = i64_okb z.
Proof. reflexivity. Qed.

Lemma import_point_any : forall imp q, gp_ok q ->
  g_GdsImporter_import_point rb_xops gstr cmap imp (Ggp q) = Ok (Gpt (R.import_point q)).
Proof.
  intros imp [x y] [Hx Hy]. cbn [G.px G.py] in Hx, Hy. unfold g_GdsImporter_import_point, g_Point_new, R.import_point. is.
  cbn [Ggp gGdsPoint_x gGdsPoint_y G.px G.py]. rewrite i64_in, Hx. is. rewrite i64_in, Hy. reflexivity.
Qed.
(** `import_point`: i32 into isize cannot fail *)
Lemma tie_gdsi_import_point : forall q, gp_ok q -> g_import_point q = Ok (Gpt (R.import_point q)).
Proof. intros q H. apply import_point_any. exact H. Qed.

Lemma tie_gdsi_import_point_vec : forall qs, Forall gp_ok qs ->
  g_import_point_vec qs = Ok (map Gpt (map R.import_point qs)).
Proof.
  intros qs H. unfold g_import_point_vec, g_GdsImporter_import_point_vec.
  induction H as [|q r Hq Hr IH]; [reflexivity|].
  cbn [map k_map_m]. fold (g_import_point q). rewrite (tie_gdsi_import_point q Hq). is.
  change (kx_base rb_xops) with rb_kops in IH. rewrite IH. reflexivity.
Qed.

(** `import_box`: the first and the third of the five coordinates are the corners *)
Lemma tie_gdsi_import_box : forall ly x q0 q1 q2 q3 q4, G.x_xy x = [q0; q1; q2; q3; q4] -> gp_ok q0 -> gp_ok q2 ->
  g_import_box ly x = iunit (fun le => Gelem (snd le)) (R.import_box ly x).
Proof.
  intros ly x q0 q1 q2 q3 q4 Hxy H0 H2. unfold g_import_box, g_GdsImporter_import_box, R.import_box. rewrite Hxy. is.
  cbn [gGdsBox_xy map]. unfold rc_get. change (0 <? 0) with false. change (2 <? 0) with false. cbv iota.
  change (Z.to_nat 0) with 0%nat. change (Z.to_nat 2) with 2%nat. cbn [nth_error]. is.
  fold (g_import_point q0). rewrite (tie_gdsi_import_point q0 H0). is.
  fold (g_import_point q2). rewrite (tie_gdsi_import_point q2 H2). is.
  unfold x_layer, R.mk_element. destruct (get_or_insert ly (G.x_layer x) (G.x_boxtype x)) as [[ly' key] purp]. reflexivity.
Qed.

(** `import_path` of the tree as repaired: no coordinates and no width are errors, a negative width is its magnitude *)
Lemma tie_gdsi_import_path : forall c ly x, R.fx_emptyxy c = true -> R.fx_width c = true ->
  Forall gp_ok (G.p_xy x) -> (forall w, G.p_width x = Some w -> i32_okb w = true) ->
  g_import_path ly x = iunit (fun le => Gelem (snd le)) (R.import_path c ly x).
Proof.
  intros c ly x He Hw Hp Hwd. unfold g_import_path, g_GdsImporter_import_path, R.import_path. is.
  cbn [gGdsPath_xy gGdsPath_width]. fold (g_import_point_vec (G.p_xy x)). rewrite (tie_gdsi_import_point_vec _ Hp). is. rewrite He.
  destruct (G.p_xy x) as [|q r]; [reflexivity|]. cbn [map].
  destruct (G.p_width x) as [w|] eqn:Ew; [|reflexivity].
  unfold x_uabs. is. rewrite Hw.
  assert (Hr : ity_in Usize (Z.abs w) = true).
  { specialize (Hwd w eq_refl). unfold i32_okb in Hwd. apply andb_true_iff in Hwd. destruct Hwd as [A B].
    apply Z.leb_le in A. apply Z.ltb_lt in B. unfold ity_in. change (ity_min Usize) with 0. change (ity_max Usize) with (2 ^ 64 - 1).
    apply andb_true_iff; split; apply Z.leb_le; lia. }
  rewrite Hr.
  replace (if w <? 0 then - w else w) with (Z.abs w)
    by (destruct (w <? 0) eqn:E; [apply Z.ltb_lt in E; lia | apply Z.ltb_ge in E; lia]).
  unfold x_layer, R.mk_element. destruct (get_or_insert ly (G.p_layer x) (G.p_datatype x)) as [[ly' key] purp]. reflexivity.
Qed.

Lemma feq_one : forall m, feq_bits m R.bits_one = (m =? R.bits_one).
Proof.
  intros m. unfold feq_bits.
  assert (N1 : f64_is_nan R.bits_one = false) by (vm_compute; reflexivity).
  assert (Z1 : f64_is_zero R.bits_one = false) by (vm_compute; reflexivity).
  rewrite N1, Z1, orb_false_r, andb_false_r.
  destruct (f64_is_nan m) eqn:E; [|reflexivity].
  symmetry. apply Z.eqb_neq. intros ->. rewrite N1 in E. discriminate.
Qed.

(** `import_instance` of the tree as repaired: an unknown cell name, the absolute flags and a magnification other than 1.0
    are errors; reflection and angle are taken over *)
Lemma tie_gdsi_import_instance : forall c cm x, R.fx_mag c = true -> gp_ok (G.sr_xy x) ->
  g_import_instance cm x = iunit Ginst (R.import_instance c cm x).
Proof.
  intros c cm x Hm Hp. unfold g_import_instance, g_GdsImporter_import_instance, R.import_instance. is.
  cbn [Gsref gGdsStructRef_name gGdsStructRef_xy gGdsStructRef_strans Gimp gGdsImporter_cell_map cmap km_get].
  destruct (R.cm_get cm (G.sr_name x)) as [cell|]; is; [|reflexivity].
  rewrite (import_point_any _ _ Hp). is.
  destruct (G.sr_strans x) as [st|]; cbn [option_map]; [|reflexivity].
  cbn [Gstrans gGdsStrans_abs_mag gGdsStrans_abs_angle gGdsStrans_mag gGdsStrans_reflected gGdsStrans_angle].
  destruct (G.st_abs_mag st || G.st_abs_angle st); [reflexivity|]. rewrite Hm. cbn [andb].
  destruct (G.st_mag st) as [m|].
  - rewrite feq_one. destruct (m =? R.bits_one); reflexivity.
  - reflexivity.
Qed.

(** * import_units *)
(** `(u - c).abs() < t` as the generated code computes it is the model's [near] *)
Lemma near_rd : forall u c t,
  rd_lt (option_map R.dy_abs (match T.dy_of_bits u, T.dy_of_bits c with Some x, Some y => T.fadd x (T.fneg y) | _, _ => None end))
        (T.dy_of_bits t)
  = R.near u c t.
Proof.
  intros u c t. unfold R.near, rd_lt.
  destruct (T.dy_of_bits u) as [du|]; [|reflexivity].
  destruct (T.dy_of_bits c) as [dc|]; [|reflexivity].
  destruct (T.dy_of_bits t) as [dt|].
  - destruct (T.fadd du (T.fneg dc)); reflexivity.
  - destruct (T.fadd du (T.fneg dc)); reflexivity.
Qed.

(** `import_units` of the tree as repaired (picometres known): the database unit against 1e-12, 1e-10, 1e-9, 1e-6 *)
Lemma tie_gdsi_import_units : forall c u, R.fx_pico c = true ->
  g_import_units u = iunit Gunits (R.import_units c u).
Proof.
  intros c u Hp. unfold g_import_units, g_GdsImporter_import_units, g_GdsUnits_db_unit, R.import_units. rewrite Hp.
  cbn [rd_xops kx_base rd_kops k_bind k_ret k_fail f_sub f_lt f_lit ou_bind ou_ret ou_err obind gGdsUnits_1 rd_sub rd_abs andb].
  change (rd_lit 1 (-12)) with (T.dy_of_bits R.bits_1em12). change (rd_lit 1 (-15)) with (T.dy_of_bits R.bits_1em15).
  change (rd_lit 1 (-10)) with (T.dy_of_bits R.bits_1em10). change (rd_lit 1 (-13)) with (T.dy_of_bits R.bits_1em13).
  change (rd_lit 1 (-9)) with (T.dy_of_bits R.bits_1em9). change (rd_lit 1 (-6)) with (T.dy_of_bits R.bits_1em6).
  rewrite !near_rd.
  destruct (R.near (snd u) R.bits_1em12 R.bits_1em15); [reflexivity|].
  destruct (R.near (snd u) R.bits_1em10 R.bits_1em13); [reflexivity|].
  destruct (R.near (snd u) R.bits_1em9 R.bits_1em12); [reflexivity|].
  destruct (R.near (snd u) R.bits_1em6 R.bits_1em9); reflexivity.
Qed.
