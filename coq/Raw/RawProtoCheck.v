(** Executable checks used by the correspondence run of C14 (tools/props/c14.py).
    Result codes: 0 = impl agrees with the model and the property holds on the impl's output;
    1 = impl differs from the model, property still holds on the impl's output (or is silent);
    2 = the property fails on the impl's output.  No proofs here.

    The boolean functions below decide the relations of Raw/RawProtoSpec.v
    ([raw_equiv_groupedb] decides [raw_equiv_grouped], [deps_firstb] decides [deps_first],
    [canonicalb] decides [canonical], [exportableb] decides [proto_exportable]); they are used
    on the implementation's outputs only, never inside a theorem. *)
From Coq Require Import ZArith List String Bool.
From L21 Require Import Base.F64 Base.Outcome Raw.RawData Raw.RawProto Raw.RawProtoSpec.
Import ListNotations.
Local Open Scope list_scope.
Local Open Scope Z_scope.

(** * generic deciders *)
Fixpoint list_eqb {A : Type} (eqb : A -> A -> bool) (l l' : list A) : bool :=
  match l, l' with
  | [], [] => true
  | x :: r, y :: r' => eqb x y && list_eqb eqb r r'
  | _, _ => false
  end.
Definition option_eqb {A : Type} (eqb : A -> A -> bool) (x y : option A) : bool :=
  match x, y with
  | None, None => true
  | Some a, Some b => eqb a b
  | _, _ => false
  end.
Definition pair_eqb {A B : Type} (ea : A -> A -> bool) (eb : B -> B -> bool) (x y : A * B) : bool :=
  ea (fst x) (fst y) && eb (snd x) (snd y).
(** multiset equality up to [eqv] *)
Fixpoint remove_first {A : Type} (eqv : A -> A -> bool) (x : A) (l : list A) : option (list A) :=
  match l with
  | [] => None
  | y :: r => if eqv x y then Some r
              else match remove_first eqv x r with Some r' => Some (y :: r') | None => None end
  end.
Fixpoint perm_eqb {A : Type} (eqv : A -> A -> bool) (l l' : list A) : bool :=
  match l with
  | [] => match l' with [] => true | _ => false end
  | x :: r => match remove_first eqv x l' with
              | Some r' => perm_eqb eqv r r'
              | None => false
              end
  end.
(** stable insertion sort *)
Fixpoint insert_by {A : Type} (le : A -> A -> bool) (x : A) (l : list A) : list A :=
  match l with
  | [] => [x]
  | y :: r => if le x y then x :: l else y :: insert_by le x r
  end.
Definition sort_by {A : Type} (le : A -> A -> bool) (l : list A) : list A := fold_right (insert_by le) [] l.
Fixpoint nodupb {A : Type} (eqb : A -> A -> bool) (l : list A) : bool :=
  match l with
  | [] => true
  | x :: r => negb (existsb (eqb x) r) && nodupb eqb r
  end.

(** * equality on the data *)
Definition point_eqb (a b : point) : bool := (px a =? px b) && (py a =? py b).
Definition shape_eqb (a b : shape) : bool :=
  match a, b with
  | Rect p q, Rect p' q' => point_eqb p p' && point_eqb q q'
  | Polygon l, Polygon l' => list_eqb point_eqb l l'
  | Path l w, Path l' w' => list_eqb point_eqb l l' && (w =? w')
  | _, _ => false
  end.
Definition units_eqb (a b : units) : bool :=
  match a, b with
  | Micro, Micro | Nano, Nano | Angstrom, Angstrom | Pico, Pico => true
  | _, _ => false
  end.
Definition elem_eqb (a b : element) : bool :=
  option_eqb String.eqb (e_net a) (e_net b) && Nat.eqb (e_layer a) (e_layer b) &&
  purpose_eqb (e_purpose a) (e_purpose b) && shape_eqb (e_shape a) (e_shape b).
Definition inst_eqb (a b : instance) : bool :=
  String.eqb (i_name a) (i_name b) && Nat.eqb (i_cell a) (i_cell b) && point_eqb (i_loc a) (i_loc b) &&
  Bool.eqb (i_reflect a) (i_reflect b) && option_eqb Z.eqb (i_angle a) (i_angle b).
Definition text_eqb (a b : textelem) : bool :=
  String.eqb (t_string a) (t_string b) && point_eqb (t_loc a) (t_loc b).
Definition layout_eqb (a b : layout) : bool :=
  String.eqb (lay_name a) (lay_name b) && list_eqb inst_eqb (lay_insts a) (lay_insts b) &&
  list_eqb elem_eqb (lay_elems a) (lay_elems b) && list_eqb text_eqb (lay_annots a) (lay_annots b).
(** hash maps are compared as sets of entries *)
Definition shapemap_eqb (a b : shapemap) : bool :=
  perm_eqb (pair_eqb Nat.eqb (list_eqb shape_eqb)) a b.
Definition absport_eqb (a b : absport) : bool :=
  String.eqb (ap_net a) (ap_net b) && shapemap_eqb (ap_shapes a) (ap_shapes b).
Definition abstract_eqb (a b : abstract) : bool :=
  String.eqb (ab_name a) (ab_name b) && list_eqb point_eqb (ab_outline a) (ab_outline b) &&
  list_eqb absport_eqb (ab_ports a) (ab_ports b) && shapemap_eqb (ab_blockages a) (ab_blockages b).
Definition cell_eqb (a b : cell) : bool :=
  String.eqb (c_name a) (c_name b) && option_eqb abstract_eqb (c_abs a) (c_abs b) &&
  option_eqb layout_eqb (c_layout a) (c_layout b).

(** A layer table as the harness can observe it: per slot the number, the name, whether
    `keynum(number)` is this slot, and for every probed purpose number n with
    `purpose(n) = Some p` the triple (n, p, `num(p)`). *)
Definition layer_obs : Type := (Z * option string * bool * list (Z * purpose * option Z))%type.
Definition observe_layers (probes : list Z) (ly : layers) : list layer_obs :=
  map (fun kl => let '(k, l) := kl in
         (l_num l, l_name l,
          match ly_keynum ly (l_num l) with Some k' => Nat.eqb k k' | None => false end,
          flat_map (fun n => match layer_purpose l n with
                             | Some p => [(n, p, layer_pnum l p)]
                             | None => []
                             end) probes))
      (combine (seq 0 (List.length ly)) ly).
Definition layer_obs_eqb (a b : layer_obs) : bool :=
  let '(n, nm, kn, ps) := a in
  let '(n', nm', kn', ps') := b in
  (n =? n') && option_eqb String.eqb nm nm' && Bool.eqb kn kn' &&
  list_eqb (fun x y => (fst (fst x) =? fst (fst y)) && purpose_eqb (snd (fst x)) (snd (fst y)) &&
                       option_eqb Z.eqb (snd x) (snd y)) ps ps'.
(** model library against the impl's library; the impl's [lib_layers] is a reconstruction from
    the observations, so tables are compared through [observe_layers] *)
Definition library_eqb (probes : list Z) (a b : library) : bool :=
  String.eqb (lib_name a) (lib_name b) && units_eqb (lib_units a) (lib_units b) &&
  list_eqb layer_obs_eqb (observe_layers probes (lib_layers a)) (observe_layers probes (lib_layers b)) &&
  list_eqb cell_eqb (lib_cells a) (lib_cells b).

Definition ppoint_eqb (a b : ppoint) : bool := (ppx a =? ppx b) && (ppy a =? ppy b).
Definition prect_eqb (a b : prect) : bool :=
  String.eqb (pr_net a) (pr_net b) && option_eqb ppoint_eqb (pr_ll a) (pr_ll b) &&
  (pr_width a =? pr_width b) && (pr_height a =? pr_height b).
Definition ppoly_eqb (a b : ppoly) : bool :=
  String.eqb (pg_net a) (pg_net b) && list_eqb ppoint_eqb (pg_vertices a) (pg_vertices b).
Definition ppath_eqb (a b : ppath) : bool :=
  String.eqb (pp_net a) (pp_net b) && list_eqb ppoint_eqb (pp_points a) (pp_points b) && (pp_width a =? pp_width b).
Definition player_eqb (a b : player) : bool := (pl_number a =? pl_number b) && (pl_purpose a =? pl_purpose b).
Definition pls_eqb (a b : playershapes) : bool :=
  option_eqb player_eqb (pls_layer a) (pls_layer b) && list_eqb prect_eqb (pls_rects a) (pls_rects b) &&
  list_eqb ppoly_eqb (pls_polys a) (pls_polys b) && list_eqb ppath_eqb (pls_paths a) (pls_paths b).
Definition prefto_eqb (a b : prefto) : bool :=
  match a, b with
  | RefLocal n, RefLocal n' => String.eqb n n'
  | RefExternal d n, RefExternal d' n' => String.eqb d d' && String.eqb n n'
  | _, _ => false
  end.
Definition pinst_eqb (a b : pinstance) : bool :=
  String.eqb (pi_name a) (pi_name b) && option_eqb (option_eqb prefto_eqb) (pi_cell a) (pi_cell b) &&
  option_eqb ppoint_eqb (pi_origin a) (pi_origin b) && Bool.eqb (pi_reflect a) (pi_reflect b) && (pi_rot a =? pi_rot b).
Definition ptext_eqb (a b : ptext) : bool :=
  String.eqb (ptx_string a) (ptx_string b) && option_eqb ppoint_eqb (ptx_loc a) (ptx_loc b).
Definition playout_eqb (a b : playout) : bool :=
  String.eqb (ply_name a) (ply_name b) && list_eqb pls_eqb (ply_shapes a) (ply_shapes b) &&
  list_eqb pinst_eqb (ply_insts a) (ply_insts b) && list_eqb ptext_eqb (ply_annots a) (ply_annots b).
Definition pabsport_eqb (a b : pabsport) : bool :=
  String.eqb (pap_net a) (pap_net b) && list_eqb pls_eqb (pap_shapes a) (pap_shapes b).
Definition pabstract_eqb (a b : pabstract) : bool :=
  String.eqb (pab_name a) (pab_name b) && option_eqb ppoly_eqb (pab_outline a) (pab_outline b) &&
  list_eqb pabsport_eqb (pab_ports a) (pab_ports b) && list_eqb pls_eqb (pab_blockages a) (pab_blockages b).
Definition pcell_eqb (a b : pcell) : bool :=
  String.eqb (pc_name a) (pc_name b) && Bool.eqb (pc_circuit a) (pc_circuit b) &&
  option_eqb pabstract_eqb (pc_abs a) (pc_abs b) && option_eqb playout_eqb (pc_layout a) (pc_layout b).
Definition plib_eqb (a b : plib) : bool :=
  String.eqb (pb_domain a) (pb_domain b) && (pb_units a =? pb_units b) &&
  list_eqb pcell_eqb (pb_cells a) (pb_cells b) && Bool.eqb (pb_author a) (pb_author b).

(** * abstract layer lists compared as sets: both sides sorted by (number, purpose) (stable) *)
Definition pls_le (a b : playershapes) : bool :=
  match pls_layer a, pls_layer b with
  | None, _ => true
  | Some _, None => false
  | Some x, Some y => (pl_number x <? pl_number y) || ((pl_number x =? pl_number y) && (pl_purpose x <=? pl_purpose y))
  end.
Definition sort_plss (l : list playershapes) : list playershapes := sort_by pls_le l.
Definition sort_abs_pcell (c : pcell) : pcell :=
  mkpcell (pc_name c) (pc_circuit c)
    (option_map (fun a => mkpabstract (pab_name a) (pab_outline a)
                            (map (fun p => mkpabsport (pap_net p) (sort_plss (pap_shapes p))) (pab_ports a))
                            (sort_plss (pab_blockages a))) (pc_abs c))
    (pc_layout c).
Definition sort_abs (P : plib) : plib :=
  mkplib (pb_domain P) (pb_units P) (map sort_abs_pcell (pb_cells P)) (pb_author P).
(** * deciders for the specification *)
Definition celem_eqb (a b : celem) : bool :=
  (ce_layer a =? ce_layer b) && (ce_purpose a =? ce_purpose b) &&
  option_eqb String.eqb (ce_net a) (ce_net b) && shape_eqb (ce_shape a) (ce_shape b).
Definition cinst_eqb (a b : cinst) : bool :=
  String.eqb (ci_name a) (ci_name b) && String.eqb (ci_cell a) (ci_cell b) && point_eqb (ci_loc a) (ci_loc b) &&
  Bool.eqb (ci_reflect a) (ci_reflect b) && (ci_rot a =? ci_rot b).
Definition centry_groupedb (a b : Z * list shape) : bool :=
  (fst a =? fst b) && list_eqb shape_eqb (by_kind (fun s => s) (snd a)) (by_kind (fun s => s) (snd b)).
Definition cmap_equivb (m m' : cmap) : bool := perm_eqb centry_groupedb m m'.
Definition cport_equivb (p p' : cport) : bool :=
  String.eqb (cp_net p) (cp_net p') && cmap_equivb (cp_shapes p) (cp_shapes p').
Definition cabs_equivb (a a' : cabs) : bool :=
  String.eqb (ca_name a) (ca_name a') && list_eqb point_eqb (ca_outline a) (ca_outline a') &&
  list_eqb cport_equivb (ca_ports a) (ca_ports a') && cmap_equivb (ca_blockages a) (ca_blockages a').
Definition annot_eqb : string * point -> string * point -> bool := pair_eqb String.eqb point_eqb.
Definition clayout_equivb (l l' : clayout) : bool :=
  String.eqb (cl_name l) (cl_name l') && list_eqb cinst_eqb (cl_insts l) (cl_insts l') &&
  list_eqb annot_eqb (cl_annots l) (cl_annots l') &&
  list_eqb celem_eqb (spec_group (cl_elems l)) (spec_group (cl_elems l')).
Definition ccell_equivb (c c' : ccell) : bool :=
  String.eqb (cc_name c) (cc_name c') && option_eqb clayout_equivb (cc_layout c) (cc_layout c') &&
  option_eqb cabs_equivb (cc_abs c) (cc_abs c').
Definition content_equiv_groupedb (C C' : content) : bool :=
  String.eqb (ct_name C) (ct_name C') && units_eqb (ct_units C) (ct_units C') &&
  perm_eqb ccell_equivb (ct_cells C) (ct_cells C').
Definition raw_equiv_groupedb (L L' : library) : bool :=
  match raw_content L, raw_content L' with
  | Some C, Some C' => content_equiv_groupedb C C'
  | _, _ => false
  end.

(** the stricter comparison used for direct imports ("content is preserved"): everything in
    order, only the layers of a hash map as a set *)
Definition centry_eqb (a b : Z * list shape) : bool := (fst a =? fst b) && list_eqb shape_eqb (snd a) (snd b).
Definition cmap_eqb (m m' : cmap) : bool := perm_eqb centry_eqb m m'.
Definition cport_eqb (p p' : cport) : bool := String.eqb (cp_net p) (cp_net p') && cmap_eqb (cp_shapes p) (cp_shapes p').
Definition cabs_eqb (a a' : cabs) : bool :=
  String.eqb (ca_name a) (ca_name a') && list_eqb point_eqb (ca_outline a) (ca_outline a') &&
  list_eqb cport_eqb (ca_ports a) (ca_ports a') && cmap_eqb (ca_blockages a) (ca_blockages a').
Definition clayout_eqb (l l' : clayout) : bool :=
  String.eqb (cl_name l) (cl_name l') && list_eqb cinst_eqb (cl_insts l) (cl_insts l') &&
  list_eqb annot_eqb (cl_annots l) (cl_annots l') && list_eqb celem_eqb (cl_elems l) (cl_elems l').
Definition ccell_eqb (c c' : ccell) : bool :=
  String.eqb (cc_name c) (cc_name c') && option_eqb clayout_eqb (cc_layout c) (cc_layout c') &&
  option_eqb cabs_eqb (cc_abs c) (cc_abs c').
Definition content_eqb (C C' : content) : bool :=
  String.eqb (ct_name C) (ct_name C') && units_eqb (ct_units C) (ct_units C') &&
  list_eqb ccell_eqb (ct_cells C) (ct_cells C').

(** [deps_first] *)
Fixpoint deps_first_fromb (seen : list string) (cs : list pcell) : bool :=
  match cs with
  | [] => true
  | c :: r =>
    forallb (fun i => match pi_cell i with
                      | Some (Some (RefLocal n)) => existsb (String.eqb n) seen
                      | _ => false
                      end) (pcell_insts c) &&
    deps_first_fromb (pc_name c :: seen) r
  end.
Definition deps_firstb (P : plib) : bool := deps_first_fromb [] (pb_cells P).

(** [layers_wf] *)
Definition layer_wfb (l : layer) : bool :=
  nodupb Z.eqb (map fst (l_pairs l)) && nodupb purpose_eqb (map snd (l_pairs l)) &&
  forallb (fun np => purpose_num_ok (fst np) (snd np)) (l_pairs l).
Definition layers_wfb (ly : layers) : bool := nodupb Z.eqb (map l_num ly) && forallb layer_wfb ly.

(** [proto_exportable]; acyclicity by repeatedly retiring the cells all of whose targets are retired *)
Definition memn (i : nat) (l : list nat) : bool := existsb (Nat.eqb i) l.
Fixpoint retire (fuel : nat) (cells : list cell) (done : list nat) : list nat :=
  match fuel with
  | O => done
  | S f =>
    retire f cells
      (done ++ filter (fun i => negb (memn i done) &&
                                match nth_error cells i with
                                | Some c => forallb (fun d => memn d done) (cell_deps c)
                                | None => false
                                end) (seq 0 (List.length cells)))
  end.
Definition acyclicb (cells : list cell) : bool :=
  Nat.eqb (List.length (retire (List.length cells) cells [])) (List.length cells).
Definition shape_okb (s : shape) : bool :=
  match s with
  | Rect p0 p1 => i64_okb (px p0) && i64_okb (py p0) && i64_okb (px p1) && i64_okb (py p1) &&
                  (Z.abs (px p1 - px p0) <=? i64_max) && (Z.abs (py p1 - py p0) <=? i64_max)
  | Polygon _ => true
  | Path _ w => (0 <=? w) && (w <=? i64_max)
  end.
Definition numbered_okb (ly : layers) (key : nat) (p : purpose) : bool :=
  match resolve_lp ly key p with
  | Some (n, pn) => i16_okb n && i16_okb pn
  | None => false
  end.
Definition map_okb (ly : layers) (p : purpose) (m : shapemap) : bool :=
  nodupb Nat.eqb (map fst m) &&
  forallb (fun ks => numbered_okb ly (fst ks) p && forallb shape_okb (snd ks)) m &&
  nodupb (option_eqb Z.eqb) (map (fun ks => key_num ly (fst ks)) m).
Definition abstract_okb (ly : layers) (a : abstract) : bool :=
  forallb (fun p => map_okb ly Pin (ap_shapes p)) (ab_ports a) && map_okb ly Obstruction (ab_blockages a).
Definition layout_okb (ly : layers) (ncells : nat) (l : layout) : bool :=
  forallb (fun i => Nat.ltb (i_cell i) ncells &&
                    match angle_content (i_angle i) with Some _ => true | None => false end) (lay_insts l) &&
  forallb (fun e => numbered_okb ly (e_layer e) (e_purpose e) && shape_okb (e_shape e)) (lay_elems l).
Definition exportableb (L : library) : bool :=
  negb (units_eqb (lib_units L) Pico) &&
  nodupb String.eqb (map c_name (lib_cells L)) &&
  acyclicb (lib_cells L) &&
  forallb (fun c => match c_layout c with
                    | Some l => layout_okb (lib_layers L) (List.length (lib_cells L)) l
                    | None => true
                    end &&
                    match c_abs c with
                    | Some a => abstract_okb (lib_layers L) a
                    | None => true
                    end) (lib_cells L).

(** [canonical] *)
Definition isnil {A : Type} (l : list A) : bool := match l with [] => true | _ => false end.
Definition prect_canonb (r : prect) : bool :=
  match pr_ll r with Some _ => true | None => false end &&
  (0 <=? pr_width r) && (pr_width r <=? i64_max) && (0 <=? pr_height r) && (pr_height r <=? i64_max).
Definition ppath_canonb (p : ppath) : bool := (0 <=? pp_width p) && (pp_width p <=? i64_max).
Definition pls_canonb (ls : playershapes) : bool :=
  match pls_layer ls with
  | Some l => i16_okb (pl_number l) && i16_okb (pl_purpose l)
  | None => false
  end && forallb prect_canonb (pls_rects ls) && forallb ppath_canonb (pls_paths ls).
Definition pls_nonemptyb (ls : playershapes) : bool :=
  negb (isnil (pls_rects ls) && isnil (pls_polys ls) && isnil (pls_paths ls)).
Definition pls_abs_canonb (ly0 : layers) (p : purpose) (ls : playershapes) : bool :=
  pls_canonb ls &&
  forallb (fun r => String.eqb (pr_net r) EmptyString) (pls_rects ls) &&
  forallb (fun g => String.eqb (pg_net g) EmptyString) (pls_polys ls) &&
  forallb (fun q => String.eqb (pp_net q) EmptyString) (pls_paths ls) &&
  match pls_layer ls with
  | Some l => match ly_keynum ly0 (pl_number l) with
              | Some key => match ly_get ly0 key with
                            | Some ll => option_eqb Z.eqb (layer_pnum ll p) (Some (pl_purpose l))
                            | None => false
                            end
              | None => false
              end
  | None => false
  end.
(** [sorted] = false: the clauses of [plss_abs_canon] with "distinct layer numbers" in place of
    "ascending keys" (a message that can come back equal only up to the order of these lists) *)
Fixpoint ascending_keysb (l : list (option nat)) : bool :=
  match l with
  | a :: r => match r with
              | b :: _ => match a, b with Some x, Some y => Nat.ltb x y | _, _ => false end
              | [] => true
              end && ascending_keysb r
  | [] => true
  end.
Definition plss_abs_canonb (sorted : bool) (ly0 : layers) (p : purpose) (lss : list playershapes) : bool :=
  forallb (pls_abs_canonb ly0 p) lss &&
  (if sorted then ascending_keysb (map (pls_key ly0) lss)
   else nodupb (option_eqb Z.eqb) (map (fun ls => option_map pl_number (pls_layer ls)) lss)).
Definition playout_canonb (l : playout) : bool :=
  forallb (fun ls => pls_canonb ls && pls_nonemptyb ls) (ply_shapes l) &&
  nodupb (option_eqb lp_eqb) (map pls_lp (ply_shapes l)).
Definition pabs_canonb (sorted : bool) (ly0 : layers) (a : pabstract) : bool :=
  match pab_outline a with Some o => String.eqb (pg_net o) EmptyString | None => false end &&
  forallb (fun p => plss_abs_canonb sorted ly0 Pin (pap_shapes p)) (pab_ports a) &&
  plss_abs_canonb sorted ly0 Obstruction (pab_blockages a).
Definition pcell_canonb (sorted : bool) (ly0 : layers) (c : pcell) : bool :=
  negb (pc_circuit c) &&
  match pc_layout c with Some l => playout_canonb l | None => true end &&
  match pc_abs c with Some a => pabs_canonb sorted ly0 a | None => true end.
(** [canonicalb] decides [canonical]; [canonical_unsortedb] is the same without the order of
    the abstract layer lists *)
Definition canonicalb (ly0 : layers) (P : plib) : bool :=
  negb (pb_author P) && forallb (pcell_canonb true ly0) (pb_cells P).
Definition canonical_unsortedb (ly0 : layers) (P : plib) : bool :=
  negb (pb_author P) && forallb (pcell_canonb false ly0) (pb_cells P).
(** [proto_typed] *)
Definition typedb (P : plib) : bool :=
  forallb (fun c => match pc_layout c with
                    | Some l => forallb (fun i => i32_okb (pi_rot i)) (ply_insts l)
                    | None => true
                    end) (pb_cells P).

(** distinct layer numbers inside every port and inside the blockages *)
Definition abs_distinctb (P : plib) : bool :=
  forallb (fun c => match pc_abs c with
                    | None => true
                    | Some a =>
                      let nd lss := nodupb (option_eqb Z.eqb) (map (fun ls => option_map (fun l => wrap16 (pl_number l)) (pls_layer ls)) lss) in
                      forallb (fun p => nd (pap_shapes p)) (pab_ports a) && nd (pab_blockages a)
                    end) (pb_cells P).

(** every field the importer needs is present and in range, sums do not overflow *)
Definition prect_importableb (r : prect) : bool :=
  match pr_ll r with
  | Some p => i64_okb (ppx p + pr_width r) && i64_okb (ppy p + pr_height r)
  | None => false
  end.
Definition pls_importableb (ls : playershapes) : bool :=
  match pls_layer ls with
  | Some l => i16_okb (pl_number l) && i16_okb (pl_purpose l)
  | None => false
  end && forallb prect_importableb (pls_rects ls) && forallb (fun p => 0 <=? pp_width p) (pls_paths ls).
Definition pcell_importableb (c : pcell) : bool :=
  match pc_layout c with
  | None => true
  | Some l =>
    forallb (fun i => match pi_origin i with Some _ => true | None => false end) (ply_insts l) &&
    forallb pls_importableb (ply_shapes l) &&
    forallb (fun t => match ptx_loc t with Some _ => true | None => false end) (ply_annots l)
  end &&
  match pc_abs c with
  | None => true
  | Some a =>
    match pab_outline a with Some _ => true | None => false end &&
    forallb (fun p => forallb pls_importableb (pap_shapes p)) (pab_ports a) &&
    forallb pls_importableb (pab_blockages a)
  end.
Definition importableb (P : plib) : bool :=
  match units_content (pb_units P) with Some _ => true | None => false end &&
  forallb pcell_importableb (pb_cells P).

(** * results reported by the harness *)
Inductive ires (A : Type) : Type := IOk (a : A) | IErr | IPanic | INotRun.
Arguments IOk {A} a.
Arguments IErr {A}.
Arguments IPanic {A}.
Arguments INotRun {A}.

Definition agrees {A : Type} (eqb : A -> A -> bool) (m : res A) (i : ires A) : bool :=
  match m, i with
  | Ok a, IOk b => eqb a b
  | Err _, IErr => true
  | Panic, IPanic => true
  | _, _ => false
  end.
Definition code (prop_ok model_eq : bool) : Z :=
  if negb prop_ok then 2 else if model_eq then 0 else 1.

(** op "raw": L -> to_proto -> from_proto ly0.  [rep]: which exporter the tree under test has
    (true = with the rotation repair, false = as found), read from the source on every run. *)
Definition check_raw (rep : bool) (L : library) (ly0 : layers) (probes : list Z) (rP : ires plib) (rL2 : ires library) : Z :=
  let mP := to_proto_v rep L in
  let eq1 := agrees plib_eqb mP rP in
  let eq2 := match rP with
             | IOk P => agrees (library_eqb probes) (from_proto ly0 P) rL2
             | _ => match rL2 with INotRun => true | _ => false end
             end in
  let eq3 := match rP with
             | IOk P => if layers_wfb (lib_layers L) then canonicalb (lib_layers L) P else true
             | _ => true
             end in
  let prop_ok :=
    match rP with
    | IOk P => deps_firstb P
    | _ => true
    end &&
    (if exportableb L && layers_wfb ly0 then
       match rP, rL2 with
       | IOk P, IOk L2 => raw_equiv_groupedb L L2
       | _, _ => false
       end
     else true) in
  code prop_ok (eq1 && eq2 && eq3).

(** op "proto": P -> from_proto ly0 -> to_proto. *)
Definition check_proto (rep : bool) (P : plib) (ly0 : layers) (probes : list Z) (rL : ires library) (rP2 : ires plib) : Z :=
  let mL := from_proto ly0 P in
  let eq1 := agrees (library_eqb probes) mL rL in
  let eq2 := match rL with
             | IOk L => agrees plib_eqb (to_proto_v rep L) rP2
             | _ => match rP2 with INotRun => true | _ => false end
             end in
  let prop_ok :=
    (* content is preserved by every successful import of a message whose abstract layer lists
       have no repeated layer *)
    (* cells listed before their users, all fields present: the import succeeds *)
    (if deps_firstb P && importableb P then match rL with IOk _ => true | _ => false end else true) &&
    match rL with
    | IOk L => if abs_distinctb P && layers_wfb ly0 then
                 match raw_content L, proto_content P with
                 | Some C, Some C' => content_eqb C C'
                 | _, _ => false
                 end
               else true
    | _ => true
    end &&
    (* cells listed before their users + canonical: the same message comes back; when only the
       order of the layer lists of an abstract is not the exporter's: the same up to that order *)
    (if deps_firstb P && canonical_unsortedb ly0 P && typedb P && layers_wfb ly0 then
       match rL with
       | IOk L => match rP2 with
                  | IOk P2 => if canonicalb ly0 P then plib_eqb P P2 else plib_eqb (sort_abs P) (sort_abs P2)
                  | _ => false
                  end
       | _ => negb (importableb P)
       end
     else true) in
  code prop_ok (eq1 && eq2).

Definition c14_check_raw := check_raw.
Definition c14_check_proto := check_proto.
