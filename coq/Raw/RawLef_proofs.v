(** Lemmas for C16 (Properties/C16.v). *)
From Coq Require Import ZArith Bool List String Lia.
From L21 Require Import Base.Outcome Raw.RawLefDec Raw.RawLefTypes Raw.RawLef Raw.RawLefSpec.
Import ListNotations.
Local Open Scope Z_scope.

(** * Powers of ten *)
Lemma pow10_pos n : 0 < pow10 n.
Proof. unfold pow10. apply Z.pow_pos_nonneg; lia. Qed.
Lemma pow10_0 : pow10 0 = 1.
Proof. reflexivity. Qed.
Lemma pow10_S n : pow10 (S n) = 10 * pow10 n.
Proof. unfold pow10. rewrite Nat2Z.inj_succ, Z.pow_succ_r; lia. Qed.
Lemma pow10_add a b : pow10 (a + b) = pow10 a * pow10 b.
Proof. unfold pow10. rewrite Nat2Z.inj_add, Z.pow_add_r; lia. Qed.
Lemma pow10_4 : pow10 4 = 10000.
Proof. reflexivity. Qed.
Lemma pow10_le a b : (a <= b)%nat -> pow10 a <= pow10 b.
Proof. intros H. unfold pow10. apply Z.pow_le_mono_r; lia. Qed.

Lemma two96_val : two96 = 79228162514264337593543950336.
Proof. reflexivity. Qed.
Lemma two96_pos : 0 < two96.
Proof. rewrite two96_val. lia. Qed.

(** * [Buf24::rescale]: dropping digits until the product fits *)
Lemma rescale_more_spec (E : Type) : forall fuel j m s,
  0 <= m < two96 -> (j <= fuel)%nat -> 0 <= s ->
  match @rescale_more E fuel (m * pow10 j) s with
  | Ok (q, s') => exists i, (i <= j)%nat /\ q = m * pow10 i /\ s' = s - Z.of_nat (j - i) /\
                            q < two96 /\ 0 <= s'
  | Panic => s < Z.of_nat j /\ two96 <= m * pow10 (j - Z.to_nat s)
  | _ => False
  end.
Proof.
  induction fuel as [|fuel IH]; intros j m s Hm Hj Hs; cbn [rescale_more].
  - assert (j = 0%nat) by lia. subst j. rewrite pow10_0, Z.mul_1_r.
    destruct (Z.ltb_spec m two96) as [Hlt|Hge]; [|lia].
    exists 0%nat. rewrite pow10_0. repeat split; try lia.
  - destruct (Z.ltb_spec (m * pow10 j) two96) as [Hlt|Hge].
    + exists j. repeat split; try lia.
    + destruct j as [|j'].
      { rewrite pow10_0 in Hge. lia. }
      destruct (Z.eqb_spec s 0) as [Hs0|Hs0].
      * subst s. split; [lia|]. cbn [Z.to_nat]. rewrite Nat.sub_0_r. exact Hge.
      * rewrite pow10_S.
        replace (m * (10 * pow10 j')) with (m * pow10 j' * 10) by ring.
        rewrite Z.div_mul by lia.
        specialize (IH j' m (s - 1) Hm ltac:(lia) ltac:(lia)).
        destruct (rescale_more fuel (m * pow10 j') (s - 1)) as [[q s']| | |]; try exact IH.
        -- destruct IH as (i & Hi & Hq & Hs' & Hq96 & Hs'0).
           exists i. repeat split; try lia.
        -- destruct IH as (Hlt' & Hbig). split; [lia|].
           replace (S j' - Z.to_nat s)%nat with (j' - Z.to_nat (s - 1))%nat by lia. exact Hbig.
Qed.

Lemma rescale_digits_range P :
  two96 <= P < two96 * 10000 ->
  let t := rescale_digits P in
  1 <= t <= 4 /\ two96 * 10 ^ (t - 1) <= P.
Proof.
  intros [Hlo Hhi]. cbv zeta. unfold rescale_digits.
  assert (HP : 0 < P) by (pose proof two96_pos; lia).
  pose proof (Z.log2_spec P HP) as [Hl1 Hl2].
  assert (H96 : 96 <= Z.log2 P).
  { apply Z.log2_le_pow2; [lia|]. exact Hlo. }
  assert (H109 : Z.log2 P < 110).
  { apply Z.log2_lt_pow2; [lia|]. rewrite two96_val in Hhi.
    change (2 ^ 110) with 1298074214633706907132624082305024. lia. }
  set (h := Z.log2 P - 96).
  assert (Hh : 0 <= h <= 13) by (unfold h; lia).
  assert (HP2 : two96 * 2 ^ h <= P).
  { unfold two96. rewrite <- Z.pow_add_r by lia. replace (96 + h) with (Z.log2 P) by (unfold h; lia). exact Hl1. }
  assert (Hcases : h = 0 \/ h = 1 \/ h = 2 \/ h = 3 \/ h = 4 \/ h = 5 \/ h = 6 \/ h = 7 \/ h = 8 \/
                   h = 9 \/ h = 10 \/ h = 11 \/ h = 12 \/ h = 13) by lia.
  pose proof two96_pos as H96pos.
  destruct Hcases as [Hc|[Hc|[Hc|[Hc|[Hc|[Hc|[Hc|[Hc|[Hc|[Hc|[Hc|[Hc|[Hc|Hc]]]]]]]]]]]]];
    rewrite Hc in HP2 |- *; cbn in HP2 |- *; lia.
Qed.

(** What [d * 10000] yields: an exact product (digits dropped are zeros), or an overflow panic
    exactly when the product's value does not fit 96 bits even at scale 0. *)
Lemma mul_10000_spec (E : Type) d : dec_wf d ->
  match @dec_mul_10000 E d with
  | Ok r =>
      (dmant d = 0 /\ r = dec_zero) \/
      (dmant d <> 0 /\ dneg r = dneg d /\
       exists i, (i <= 4)%nat /\ dmant r = dmant d * pow10 i /\
                 (dscale r + (4 - i) = dscale d)%nat /\ dmant r < two96)
  | Panic => (dscale d < 4)%nat /\ two96 <= dmant d * pow10 (4 - dscale d)
  | _ => False
  end.
Proof.
  intros [Hm Hs]. unfold dec_mul_10000, dec_is_zero.
  destruct (Z.eqb_spec (dmant d) 0) as [Hz|Hnz]; [left; auto|].
  destruct (Z.ltb_spec (dmant d * 10000) two96) as [Hfit|Hbig].
  - right. cbn [dneg dmant dscale]. repeat split; auto.
    exists 4%nat. rewrite pow10_4. repeat split; try lia.
  - pose proof (rescale_digits_range (dmant d * 10000) ltac:(lia)) as Ht. cbv zeta in Ht.
    set (t := rescale_digits (dmant d * 10000)) in *.
    destruct Ht as [Ht Htbig].
    destruct (Z.ltb_spec (Z.of_nat (dscale d)) t) as [Hst|Hst].
    + (* scale < t *)
      split; [lia|].
      assert (Hle : pow10 (dscale d) <= 10 ^ (t - 1)).
      { unfold pow10. apply Z.pow_le_mono_r; lia. }
      assert (Hsplit : dmant d * 10000 = dmant d * pow10 (4 - dscale d) * pow10 (dscale d)).
      { rewrite <- Z.mul_assoc, <- pow10_add. replace (4 - dscale d + dscale d)%nat with 4%nat by lia.
        rewrite pow10_4. reflexivity. }
      pose proof (pow10_pos (dscale d)) as Hp. pose proof two96_pos as H96.
      assert (two96 * pow10 (dscale d) <= dmant d * pow10 (4 - dscale d) * pow10 (dscale d)).
      { rewrite <- Hsplit. eapply Z.le_trans; [|exact Htbig]. apply Z.mul_le_mono_nonneg_l; lia. }
      apply Z.mul_le_mono_pos_r in H; auto.
    + set (tn := Z.to_nat t).
      assert (Htn : (1 <= tn <= 4)%nat) by (unfold tn; lia).
      assert (Hdiv : dmant d * 10000 / 10 ^ t = dmant d * pow10 (4 - tn)).
      { replace (10 ^ t) with (pow10 tn) by (unfold pow10, tn; f_equal; lia).
        rewrite <- pow10_4. replace 4%nat with ((4 - tn) + tn)%nat at 1 by lia.
        rewrite pow10_add, Z.mul_assoc, Z.div_mul; auto. pose proof (pow10_pos tn); lia. }
      rewrite Hdiv.
      pose proof (@rescale_more_spec E 4 (4 - tn) (dmant d) (Z.of_nat (dscale d) - t) Hm ltac:(lia) ltac:(lia)) as Hr.
      destruct (rescale_more 4 (dmant d * pow10 (4 - tn)) (Z.of_nat (dscale d) - t)) as [[q s']| | |]; try exact Hr.
      * destruct Hr as (i & Hi & Hq & Hs' & Hq96 & Hs'0).
        right. cbn [dneg dmant dscale]. repeat split; auto.
        exists i. repeat split; try lia.
      * destruct Hr as (Hlt & Hbig').
        split; [lia|].
        replace (4 - dscale d)%nat with (4 - tn - Z.to_nat (Z.of_nat (dscale d) - t))%nat by lia.
        exact Hbig'.
Qed.

Set Implicit Arguments.

(** * [import_dist] in closed form *)
(** Panic when |value * 10000| >= 2^96; else an error when not integral; else the integer, if
    it fits [isize]. *)
Definition dist_spec (d : dec) : res Z :=
  if two96 * pow10 (dscale d) <=? dmant d * 10000 then Panic
  else if negb ((dec_num d * 10000) mod pow10 (dscale d) =? 0) then Err EFract
  else let n := dec_num d * 10000 / pow10 (dscale d) in
       if in_isize n then Ok n else Err ERange.

Lemma dec_num_abs d : 0 <= dmant d -> Z.abs (dec_num d) = dmant d.
Proof. intros H. unfold dec_num. destruct (dneg d); lia. Qed.

Lemma mod_opp_zero a b : 0 < b -> ((- a) mod b =? 0) = (a mod b =? 0).
Proof.
  intros Hb. destruct (Z.eqb_spec (a mod b) 0) as [H|H].
  - apply Z.eqb_eq. apply Z_mod_zero_opp_full. exact H.
  - apply Z.eqb_neq. intros H'. apply H.
    rewrite <- (Z.opp_involutive a). apply Z_mod_zero_opp_full. exact H'.
Qed.

Lemma num_mod_zero d c : 0 < c ->
  ((dec_num d * 10000) mod c =? 0) = ((dmant d * 10000) mod c =? 0).
Proof.
  intros Hc. unfold dec_num. destruct (dneg d); auto.
  rewrite Z.mul_opp_l. apply mod_opp_zero; auto.
Qed.

Lemma import_dist_closed d : dec_wf d -> import_dist d = dist_spec d.
Proof.
  intros Hwf. pose proof (@mul_10000_spec ekind d Hwf) as Hmul.
  destruct Hwf as [Hm Hs].
  unfold import_dist, import_dist_gen, dist_spec.
  pose proof (pow10_pos (dscale d)) as Hp. pose proof two96_pos as H96.
  destruct (dec_mul_10000 d) as [r| | |]; cbn [obind]; try contradiction.
  - destruct Hmul as [[Hz Hr]|(Hnz & Hneg & i & Hi & Hmr & Hsc & Hr96)].
    + subst r. unfold dec_num. rewrite Hz. cbn [dec_zero dec_fract_is_zero dmant dscale dneg].
      destruct (Z.leb_spec (two96 * pow10 (dscale d)) (0 * 10000)) as [H|H]; [nia|].
      replace (if dneg d then - 0 else 0) with 0 by (destruct (dneg d); reflexivity).
      rewrite Z.mul_0_l, Z.mod_0_l, Z.div_0_l by lia. reflexivity.
    + (* no panic *)
      set (A := dmant r) in *. set (B := pow10 (dscale r)). set (C := pow10 (4 - i)).
      assert (HB : 0 < B) by apply pow10_pos. assert (HC : 0 < C) by apply pow10_pos.
      assert (HBC : pow10 (dscale d) = B * C).
      { unfold B, C. rewrite <- pow10_add. f_equal. lia. }
      assert (HAC : dmant d * 10000 = A * C).
      { rewrite Hmr. unfold C. rewrite <- Z.mul_assoc, <- pow10_add.
        replace (i + (4 - i))%nat with 4%nat by lia. rewrite pow10_4. reflexivity. }
      destruct (Z.leb_spec (two96 * pow10 (dscale d)) (dmant d * 10000)) as [Hov|Hov].
      { exfalso. rewrite HBC, HAC in Hov.
        assert (A * C < two96 * (B * C)) by nia. lia. }
      unfold dec_fract_is_zero. fold A. fold B.
      rewrite num_mod_zero by lia. rewrite HAC, HBC.
      rewrite Z.mul_mod_distr_r by lia.
      assert (Hz : (A mod B * C =? 0) = (A mod B =? 0)).
      { destruct (Z.eqb_spec (A mod B) 0) as [H0|H0]; [rewrite H0; reflexivity|].
        apply Z.eqb_neq. nia. }
      rewrite Hz.
      destruct (Z.eqb_spec (A mod B) 0) as [Hdiv|Hdiv]; cbn [negb]; [|reflexivity].
      assert (HA : A = B * (A / B)) by (apply Z_div_exact_full_2; lia).
      assert (Hn : dec_mantissa (dec_trunc r) = dec_num d * 10000 / (B * C)).
      { unfold dec_mantissa, dec_num, dec_trunc. cbn [dneg dmant dscale]. fold A. fold B.
        rewrite Hneg. destruct (dneg d).
        - rewrite Z.mul_opp_l, HAC. rewrite HA at 2.
          replace (- (B * (A / B) * C)) with ((- (A / B)) * (B * C)) by ring.
          rewrite Z.div_mul by lia. reflexivity.
        - rewrite HAC. rewrite HA at 2.
          replace (B * (A / B) * C) with ((A / B) * (B * C)) by ring.
          rewrite Z.div_mul by lia. reflexivity. }
      rewrite Hn. reflexivity.
  - destruct Hmul as [Hlt Hbig].
    destruct (Z.leb_spec (two96 * pow10 (dscale d)) (dmant d * 10000)) as [Hov|Hov]; [reflexivity|].
    exfalso.
    assert (Hsplit : dmant d * 10000 = dmant d * pow10 (4 - dscale d) * pow10 (dscale d)).
    { rewrite <- Z.mul_assoc, <- pow10_add. replace (4 - dscale d + dscale d)%nat with 4%nat by lia.
      rewrite pow10_4. reflexivity. }
    rewrite Hsplit in Hov. nia.
Qed.

Lemma div_exact_r a b : 0 < b -> a mod b = 0 -> a = a / b * b.
Proof. intros Hb H. rewrite (Z.mul_comm (a / b) b). apply Z_div_exact_full_2; lia. Qed.

(** Integrality as divisibility. *)
Lemma integral_iff_mod d :
  integral_scaled d <-> (dec_num d * 10000) mod pow10 (dscale d) = 0.
Proof.
  pose proof (pow10_pos (dscale d)) as Hp. unfold integral_scaled, scaled_is, units_per_micron. split.
  - intros [n Hn]. rewrite Hn. apply Z.mod_mul. lia.
  - intros H. exists (dec_num d * 10000 / pow10 (dscale d)).
    apply div_exact_r; lia.
Qed.

Lemma scaled_is_div d n :
  scaled_is d n -> n = dec_num d * 10000 / pow10 (dscale d).
Proof.
  pose proof (pow10_pos (dscale d)) as Hp. unfold scaled_is, units_per_micron. intros H.
  rewrite H, Z.div_mul; lia.
Qed.

Lemma scaled_is_unique d n n' : scaled_is d n -> scaled_is d n' -> n = n'.
Proof. intros H H'. rewrite (scaled_is_div H), (scaled_is_div H'). reflexivity. Qed.

Lemma scaled_is_abs d n : 0 <= dmant d -> scaled_is d n ->
  dmant d * 10000 = Z.abs n * pow10 (dscale d).
Proof.
  intros Hm H. pose proof (pow10_pos (dscale d)) as Hp. unfold scaled_is, units_per_micron in H.
  rewrite <- (dec_num_abs d Hm).
  replace 10000 with (Z.abs 10000) by reflexivity.
  rewrite <- Z.abs_mul, H, Z.abs_mul. f_equal. lia.
Qed.

(** Off-grid values never reach the overflow: a panic needs scale < 4, where value*10000 is integral. *)
Lemma overflow_integral d : 0 <= dmant d < two96 ->
  two96 * pow10 (dscale d) <= dmant d * 10000 -> integral_scaled d.
Proof.
  intros Hm Hov. pose proof two96_pos as H96.
  assert (Hs : (dscale d < 4)%nat).
  { destruct (Nat.ltb_spec (dscale d) 4) as [H|H]; auto. exfalso.
    pose proof (@pow10_le 4 (dscale d) H) as Hle. rewrite pow10_4 in Hle. nia. }
  exists (dec_num d * pow10 (4 - dscale d)). unfold scaled_is, units_per_micron.
  rewrite <- Z.mul_assoc, <- pow10_add. replace (4 - dscale d + dscale d)%nat with 4%nat by lia.
  rewrite pow10_4. reflexivity.
Qed.

Lemma dist_exact d : dec_wf d ->
  (forall n, import_dist d = Ok n <-> scaled_is d n /\ in_isize n = true) /\
  (import_dist d = Err EFract <-> ~ integral_scaled d) /\
  (forall n, scaled_is d n -> in_isize n = false ->
     import_dist d = if Z.abs n <? two96 then Err ERange else Panic).
Proof.
  intros Hwf. rewrite (import_dist_closed Hwf). destruct Hwf as [Hm Hs].
  pose proof (pow10_pos (dscale d)) as Hp. pose proof two96_pos as H96.
  unfold dist_spec.
  destruct (Z.leb_spec (two96 * pow10 (dscale d)) (dmant d * 10000)) as [Hov|Hov].
  - (* overflow *)
    pose proof (@overflow_integral d Hm Hov) as Hint.
    split; [|split].
    + intros n. split; [discriminate|]. intros [Hn Hfit]. exfalso.
      pose proof (scaled_is_abs (proj1 Hm) Hn) as Habs. rewrite Habs in Hov.
      apply Z.mul_le_mono_pos_r in Hov; auto.
      unfold in_isize, isize_min, isize_max in Hfit. rewrite two96_val in Hov. lia.
    + split; [discriminate|]. intros H; contradiction.
    + intros n Hn _. pose proof (scaled_is_abs (proj1 Hm) Hn) as Habs. rewrite Habs in Hov.
      apply Z.mul_le_mono_pos_r in Hov; auto.
      destruct (Z.ltb_spec (Z.abs n) two96); [lia|reflexivity].
  - destruct (Z.eqb_spec ((dec_num d * 10000) mod pow10 (dscale d)) 0) as [Hdiv|Hdiv]; cbn [negb].
    + assert (Hint : integral_scaled d) by (apply integral_iff_mod; exact Hdiv).
      set (n0 := dec_num d * 10000 / pow10 (dscale d)).
      assert (Hn0 : scaled_is d n0).
      { unfold scaled_is, units_per_micron, n0. apply div_exact_r; lia. }
      split; [|split].
      * intros n. destruct (in_isize n0) eqn:Hfit.
        -- split.
           ++ intros H. injection H as <-. auto.
           ++ intros [Hn _]. f_equal. apply (scaled_is_unique Hn0 Hn).
        -- split; [discriminate|]. intros [Hn Hfit']. rewrite (scaled_is_unique Hn Hn0) in Hfit'. congruence.
      * destruct (in_isize n0); split; try discriminate; intros H; contradiction.
      * intros n Hn Hfit. rewrite <- (scaled_is_unique Hn Hn0). fold n0. rewrite Hfit.
        pose proof (scaled_is_abs (proj1 Hm) Hn) as Habs. rewrite Habs in Hov.
        apply Z.mul_lt_mono_pos_r in Hov; auto.
        destruct (Z.ltb_spec (Z.abs n) two96); [reflexivity|lia].
    + assert (Hnint : ~ integral_scaled d) by (rewrite integral_iff_mod; exact Hdiv).
      split; [|split].
      * intros n. split; [discriminate|]. intros [Hn _]. exfalso. apply Hnint. exists n. exact Hn.
      * split; auto.
      * intros n Hn _. exfalso. apply Hnint. exists n. exact Hn.
Qed.

(** [import_dist] computes the specification's [spec_coord]. *)
Lemma import_dist_spec_coord d n : dec_wf d -> import_dist d = Ok n -> spec_coord d = Some n.
Proof.
  intros Hwf H. rewrite (import_dist_closed Hwf) in H. unfold dist_spec in H. unfold spec_coord, units_per_micron.
  destruct (two96 * pow10 (dscale d) <=? dmant d * 10000); [discriminate|].
  destruct ((dec_num d * 10000) mod pow10 (dscale d) =? 0); cbn [negb] in H; [|discriminate].
  destruct (in_isize _); [|discriminate]. injection H as <-. reflexivity.
Qed.

Lemma spec_coord_scaled d n : spec_coord d = Some n <-> scaled_is d n.
Proof.
  pose proof (pow10_pos (dscale d)) as Hp. unfold spec_coord. split.
  - destruct (Z.eqb_spec ((dec_num d * units_per_micron) mod pow10 (dscale d)) 0) as [H|H]; [|discriminate].
    intros E. injection E as <-. unfold scaled_is. apply div_exact_r; lia.
  - intros H. pose proof (proj1 (integral_iff_mod d) (ex_intro _ n H)) as Hmod.
    unfold units_per_micron. rewrite Hmod. cbn [Z.eqb]. f_equal. symmetry. apply scaled_is_div. exact H.
Qed.

(** * Independence of the written scale *)
Lemma dist_scale_independent d d' : dec_wf d -> dec_wf d' -> dec_eq d d' -> import_dist d = import_dist d'.
Proof.
  intros Hwf Hwf' Heq. rewrite (import_dist_closed Hwf), (import_dist_closed Hwf').
  destruct Hwf as [Hm _], Hwf' as [Hm' _]. unfold dec_eq in Heq.
  set (P := pow10 (dscale d)) in *. set (P' := pow10 (dscale d')) in *.
  assert (HP : 0 < P) by apply pow10_pos. assert (HP' : 0 < P') by apply pow10_pos.
  assert (Habs : dmant d * P' = dmant d' * P).
  { rewrite <- (dec_num_abs d), <- (dec_num_abs d') by lia.
    rewrite <- (Z.abs_eq P'), <- (Z.abs_eq P) by lia. rewrite <- !Z.abs_mul. f_equal. exact Heq. }
  unfold dist_spec. fold P. fold P'.
  assert (Hov : (two96 * P <=? dmant d * 10000) = (two96 * P' <=? dmant d' * 10000)).
  { apply Bool.eq_true_iff_eq. rewrite !Z.leb_le. split; intros H.
    - apply (Z.mul_le_mono_pos_r _ _ P HP). nia.
    - apply (Z.mul_le_mono_pos_r _ _ P' HP'). nia. }
  rewrite Hov. destruct (two96 * P' <=? dmant d' * 10000); [reflexivity|].
  assert (Hint : forall n, dec_num d * 10000 = n * P <-> dec_num d' * 10000 = n * P').
  { intros n. split; intros H.
    - apply (Z.mul_cancel_r _ _ P); [lia|]. nia.
    - apply (Z.mul_cancel_r _ _ P'); [lia|]. nia. }
  destruct (Z.eqb_spec ((dec_num d * 10000) mod P) 0) as [Hd|Hd];
  destruct (Z.eqb_spec ((dec_num d' * 10000) mod P') 0) as [Hd'|Hd']; cbn [negb]; auto.
  - assert (H1 : dec_num d * 10000 = (dec_num d * 10000 / P) * P).
    { apply div_exact_r; lia. }
    apply Hint in H1.
    assert (Hq : dec_num d' * 10000 / P' = dec_num d * 10000 / P) by (rewrite H1, Z.div_mul; lia).
    rewrite Hq. reflexivity.
  - exfalso. apply Hd'.
    assert (H1 : dec_num d * 10000 = (dec_num d * 10000 / P) * P).
    { apply div_exact_r; lia. }
    apply Hint in H1. rewrite H1. apply Z.mod_mul. lia.
  - exfalso. apply Hd.
    assert (H1 : dec_num d' * 10000 = (dec_num d' * 10000 / P') * P').
    { apply div_exact_r; lia. }
    apply Hint in H1. rewrite H1. apply Z.mod_mul. lia.
Qed.

(** * Points and shapes *)
Lemma obind_ok (E A B : Type) (x : outcome E A) (f : A -> outcome E B) (b : B) :
  obind x f = Ok b -> exists a, x = Ok a /\ f a = Ok b.
Proof. destruct x; cbn [obind]; try discriminate. eauto. Qed.

Lemma import_point_ok p X Y :
  import_point p = Ok (X, Y) -> import_dist (lpx p) = Ok X /\ import_dist (lpy p) = Ok Y.
Proof.
  unfold import_point, import_point_gen, repaired, import_dist. cbn [v_fix_dist v_fix_point].
  intros H. apply obind_ok in H as (x & Hx & H). apply obind_ok in H as (y & Hy & H).
  injection H as <- <-. auto.
Qed.

Lemma import_point_spec p q : lpoint_wf p -> import_point p = Ok q -> spec_point p = Some q.
Proof.
  intros [Hx Hy] H. destruct q as [X Y]. apply import_point_ok in H as [HX HY].
  unfold spec_point. rewrite (import_dist_spec_coord Hx HX), (import_dist_spec_coord Hy HY). reflexivity.
Qed.

Lemma mapM_ok_opt_all (A B : Type) (f : A -> res B) (g : A -> option B) l : forall l',
  (forall a b, In a l -> f a = Ok b -> g a = Some b) ->
  mapM f l = Ok l' -> opt_all g l = Some l'.
Proof.
  induction l as [|a r IH]; intros l' Hfg H; cbn [mapM opt_all] in *.
  - injection H as <-. reflexivity.
  - apply obind_ok in H as (b & Hb & H). apply obind_ok in H as (bs & Hbs & H). injection H as <-.
    rewrite (Hfg a b (or_introl eq_refl) Hb).
    rewrite (IH bs (fun a' b' Hin => Hfg a' b' (or_intror Hin)) Hbs). reflexivity.
Qed.

Lemma import_points_spec l l' :
  Forall lpoint_wf l -> mapM import_point l = Ok l' -> opt_all spec_point l = Some l'.
Proof.
  intros Hwf. apply mapM_ok_opt_all. intros a b Hin. apply import_point_spec.
  rewrite Forall_forall in Hwf. auto.
Qed.

Lemma import_shape_spec lg s sh :
  lshape_wf s -> (forall w, lg_width lg = Some w -> dec_wf w) ->
  import_shape lg s = Ok sh -> spec_shape (lg_width lg) s = Some sh.
Proof.
  intros Hs Hw H. unfold import_shape, import_shape_gen in H. fold import_point in H.
  destruct s as [p0 p1|pts|pts]; cbn [spec_shape lshape_wf] in *.
  - destruct Hs as [H0 H1].
    apply obind_ok in H as (a & Ha & H). apply obind_ok in H as (b & Hb & H). injection H as <-.
    rewrite (import_point_spec H0 Ha), (import_point_spec H1 Hb). reflexivity.
  - apply obind_ok in H as (l & Hl & H). injection H as <-.
    rewrite (import_points_spec Hs Hl). reflexivity.
  - destruct (lg_width lg) as [w|]; [|discriminate].
    cbn [repaired v_fix_dist] in H. change (import_dist_gen true) with import_dist in H.
    apply obind_ok in H as (W & HW & H).
    destruct (Z.ltb_spec W 0) as [Hneg|Hpos]; [discriminate|].
    apply obind_ok in H as (l & Hl & H). injection H as <-.
    rewrite (import_dist_spec_coord (Hw w eq_refl) HW), (import_points_spec Hs Hl).
    destruct (Z.leb_spec 0 W); [reflexivity|lia].
Qed.

Lemma import_geometry_spec lg g sh :
  lgeom_wf g -> (forall w, lg_width lg = Some w -> dec_wf w) ->
  import_geometry lg g = Ok sh -> spec_geom (lg_width lg) g = Some sh.
Proof.
  intros Hg Hw H. destruct g as [s|s]; cbn in H; [|discriminate].
  cbn [spec_geom]. apply import_shape_spec; auto.
Qed.

(** * Layer table *)
Lemma string_eqb_sym a b : String.eqb a b = String.eqb b a.
Proof.
  destruct (String.eqb_spec a b) as [->|H].
  - symmetry. apply String.eqb_refl.
  - symmetry. apply String.eqb_neq. congruence.
Qed.

Lemma slookup_sinsert a b v m :
  slookup a (sinsert b v m) = if String.eqb a b then Some v else slookup a m.
Proof.
  induction m as [|[k' v'] r IH]; cbn [sinsert slookup].
  - reflexivity.
  - destruct (String.eqb_spec b k') as [->|Hbk]; cbn [slookup].
    + destruct (String.eqb a k'); reflexivity.
    + rewrite IH. destruct (String.eqb_spec a k') as [->|Hak]; [|reflexivity].
      destruct (String.eqb_spec k' b) as [->|]; [congruence|reflexivity].
Qed.

Lemma layers_le_refl L : layers_le L L.
Proof. intros nm k H. exact H. Qed.
Lemma layers_le_trans L1 L2 L3 : layers_le L1 L2 -> layers_le L2 L3 -> layers_le L1 L3.
Proof. intros H12 H23 nm k H. auto. Qed.

Lemma layers_add_named nm num L :
  layers_wf L -> key_of_name L nm = None ->
  let r := layers_add (mklayer num (Some nm)) L in
  layers_wf (snd r) /\ layers_le L (snd r) /\ key_of_name (snd r) nm = Some (fst r).
Proof.
  intros Hwf Hnone. cbv zeta. unfold layers_add. cbn [fst snd ly_name ly_num].
  unfold layers_wf, layers_le, key_of_name, name_of_key in *. cbn [l_names l_slots].
  split; [|split].
  - intros nm' k. rewrite slookup_sinsert.
    destruct (String.eqb_spec nm' nm) as [->|Hne].
    + intros E. injection E as <-. rewrite nth_error_app2 by lia. rewrite Nat.sub_diag. reflexivity.
    + intros H. specialize (Hwf nm' k H).
      destruct (nth_error (l_slots L) k) as [ly|] eqn:Hn; [|discriminate].
      rewrite nth_error_app1; [rewrite Hn; exact Hwf|].
      apply nth_error_Some. congruence.
  - intros nm' k H. rewrite slookup_sinsert.
    destruct (String.eqb_spec nm' nm) as [->|Hne]; [congruence|exact H].
  - rewrite slookup_sinsert, String.eqb_refl. reflexivity.
Qed.

Lemma import_layer_ok nm L k L1 :
  layers_wf L -> import_layer nm L = Ok (k, L1) ->
  layers_wf L1 /\ layers_le L L1 /\ key_of_name L1 nm = Some k.
Proof.
  intros Hwf H. unfold import_layer in H.
  destruct (key_of_name L nm) as [k0|] eqn:Hk.
  - injection H as <- <-. split; [auto|]. split; [apply layers_le_refl|auto].
  - apply obind_ok in H as (num & _ & H).
    pose proof (@layers_add_named nm num L Hwf Hk) as Hadd. cbv zeta in Hadd.
    destruct (layers_add (mklayer num (Some nm)) L) as [k' L'].
    injection H as <- <-. exact Hadd.
Qed.

Lemma import_lg_ok lg L k sh L1 :
  llg_wf lg -> layers_wf L -> import_layer_geometries lg L = Ok ((k, sh), L1) ->
  layers_wf L1 /\ layers_le L L1 /\ key_of_name L1 (lg_layer lg) = Some k /\
  opt_all (spec_geom (lg_width lg)) (lg_geoms lg) = Some sh.
Proof.
  intros [Hg Hw] Hwf H. unfold import_layer_geometries, import_layer_geometries_gen in H.
  apply obind_ok in H as ([k0 L0] & Hl & H).
  destruct (lg_except_pg lg); [discriminate|].
  destruct (negb (spacing_ok (lg_spacing lg))); [discriminate|].
  apply obind_ok in H as (shapes & Hs & H). injection H as <- <- <-.
  destruct (@import_layer_ok _ _ _ _ Hwf Hl) as (Hwf1 & Hle & Hk).
  repeat split; auto.
  revert Hs. apply mapM_ok_opt_all. intros g s Hin. apply import_geometry_spec; auto.
  rewrite Forall_forall in Hg. auto.
Qed.

(** * The per-layer shape map *)
Lemma nlookup_extend_same k sh m :
  nlookup k (smap_extend k sh m) =
  Some (match nlookup k m with Some old => old ++ sh | None => sh end).
Proof.
  induction m as [|[k' s'] r IH]; cbn [smap_extend nlookup].
  - rewrite Nat.eqb_refl. reflexivity.
  - destruct (Nat.eqb_spec k k') as [->|Hne]; cbn [nlookup].
    + rewrite Nat.eqb_refl. reflexivity.
    + destruct (Nat.eqb_spec k k'); [contradiction|]. exact IH.
Qed.

Lemma nlookup_extend_other k k' sh m :
  k' <> k -> nlookup k' (smap_extend k sh m) = nlookup k' m.
Proof.
  intros Hne. induction m as [|[k0 s0] r IH]; cbn [smap_extend nlookup].
  - destruct (Nat.eqb_spec k' k); [contradiction|reflexivity].
  - destruct (Nat.eqb_spec k k0) as [->|Hk]; cbn [nlookup].
    + destruct (Nat.eqb_spec k' k0); [contradiction|reflexivity].
    + destruct (Nat.eqb_spec k' k0); [reflexivity|exact IH].
Qed.

Lemma keys_extend_in k sh m :
  In k (map fst m) -> map fst (smap_extend k sh m) = map fst m.
Proof.
  induction m as [|[k0 s0] r IH]; cbn [smap_extend map fst In]; [tauto|].
  intros [->|Hin].
  - rewrite Nat.eqb_refl. reflexivity.
  - destruct (Nat.eqb_spec k k0); cbn [map fst]; [reflexivity|]. rewrite IH; auto.
Qed.

Lemma keys_extend_notin k sh m :
  ~ In k (map fst m) -> map fst (smap_extend k sh m) = map fst m ++ [k].
Proof.
  induction m as [|[k0 s0] r IH]; cbn [smap_extend map fst In app]; [reflexivity|].
  intros Hnin. destruct (Nat.eqb_spec k k0) as [->|Hne]; [tauto|].
  cbn [map fst]. rewrite IH; tauto.
Qed.

Lemma NoDup_snoc (A : Type) (l : list A) (a : A) : NoDup l -> ~ In a l -> NoDup (l ++ [a]).
Proof.
  induction l as [|b r IH]; intros Hnd Hnin; cbn [app].
  - constructor; [tauto|constructor].
  - inversion Hnd as [|b' r' Hb Hr]; subst. constructor.
    + rewrite in_app_iff. cbn [In] in *. intros [H|[H|[]]]; [tauto|]. subst. tauto.
    + apply IH; auto. cbn [In] in Hnin. tauto.
Qed.

Lemma nlookup_in k m : In k (map fst m) <-> exists sh, nlookup k m = Some sh.
Proof.
  induction m as [|[k0 s0] r IH]; cbn [map fst In nlookup].
  - split; [tauto|]. intros [sh H]; discriminate.
  - destruct (Nat.eqb_spec k k0) as [->|Hne].
    + split; eauto.
    + rewrite IH. split; [intros [H|H]; [congruence|exact H]|tauto].
Qed.

(** * The specification's grouping of geometries by layer name *)
Lemma geoms_named_app nm a b : geoms_named nm (a ++ b) = geoms_named nm a ++ geoms_named nm b.
Proof.
  induction a as [|lg r IH]; cbn [geoms_named app]; [reflexivity|]. rewrite IH, app_assoc. reflexivity.
Qed.

Lemma opt_all_app (A B : Type) (f : A -> option B) a b :
  opt_all f (a ++ b) =
  match opt_all f a, opt_all f b with Some x, Some y => Some (x ++ y) | _, _ => None end.
Proof.
  induction a as [|x r IH]; cbn [opt_all app].
  - destruct (opt_all f b); reflexivity.
  - rewrite IH. destruct (f x); [|reflexivity].
    destruct (opt_all f r); [|reflexivity]. destruct (opt_all f b); reflexivity.
Qed.

Lemma opt_all_map (A B C : Type) (f : B -> option C) (g : A -> B) l :
  opt_all f (map g l) = opt_all (fun a => f (g a)) l.
Proof. induction l as [|a r IH]; cbn [opt_all map]; [reflexivity|]. rewrite IH. reflexivity. Qed.

Lemma ssn_notin nm done : ~ In nm (map lg_layer done) -> spec_shapes_named nm done = Some [].
Proof.
  unfold spec_shapes_named. induction done as [|lg r IH]; cbn [geoms_named map In]; [reflexivity|].
  intros Hnin. destruct (String.eqb_spec nm (lg_layer lg)) as [->|Hne]; [tauto|].
  cbn [app]. apply IH. tauto.
Qed.

Lemma ssn_single nm lg :
  spec_shapes_named nm [lg] =
  if String.eqb nm (lg_layer lg) then opt_all (spec_geom (lg_width lg)) (lg_geoms lg) else Some [].
Proof.
  unfold spec_shapes_named. cbn [geoms_named]. rewrite app_nil_r.
  destruct (String.eqb nm (lg_layer lg)); [|reflexivity].
  rewrite opt_all_map. cbn [fst snd]. reflexivity.
Qed.

Lemma ssn_snoc nm done lg :
  spec_shapes_named nm (done ++ [lg]) =
  match spec_shapes_named nm done, spec_shapes_named nm [lg] with
  | Some x, Some y => Some (x ++ y)
  | _, _ => None
  end.
Proof. unfold spec_shapes_named. rewrite geoms_named_app, opt_all_app. reflexivity. Qed.

(** * The loop over layer statements *)
Definition lgs_inv (L : layers) (done : list llayergeoms) (acc : smap) : Prop :=
  NoDup (map fst acc) /\
  (forall nm, In nm (map lg_layer done) ->
     exists k sh, key_of_name L nm = Some k /\ nlookup k acc = Some sh /\
                  spec_shapes_named nm done = Some sh) /\
  (forall k, In k (map fst acc) ->
     exists nm, In nm (map lg_layer done) /\ key_of_name L nm = Some k).

Lemma lgs_inv_nil L : lgs_inv L [] [].
Proof. split; [constructor|]. split; cbn; intros ? []. Qed.

Lemma lgs_inv_mono L L' done acc : layers_le L L' -> lgs_inv L done acc -> lgs_inv L' done acc.
Proof.
  intros Hle (Hnd & Hnm & Hk). split; [exact Hnd|]. split.
  - intros nm Hin. destruct (Hnm nm Hin) as (k & sh & H1 & H2 & H3). exists k, sh. auto.
  - intros k Hin. destruct (Hk k Hin) as (nm & H1 & H2). exists nm. auto.
Qed.

Lemma wf_key_inj L nm nm' k :
  layers_wf L -> key_of_name L nm = Some k -> key_of_name L nm' = Some k -> nm = nm'.
Proof. intros Hwf H H'. apply Hwf in H. apply Hwf in H'. congruence. Qed.

Lemma lgs_inv_step L done acc lg k sh :
  layers_wf L -> lgs_inv L done acc ->
  key_of_name L (lg_layer lg) = Some k ->
  opt_all (spec_geom (lg_width lg)) (lg_geoms lg) = Some sh ->
  lgs_inv L (done ++ [lg]) (smap_extend k sh acc).
Proof.
  intros Hwf (Hnd & Hnm & Hk) Hkey Hsh.
  set (nm0 := lg_layer lg) in *.
  assert (Hnames : forall nm, In nm (map lg_layer (done ++ [lg])) <-> In nm (map lg_layer done) \/ nm = nm0).
  { intros nm. rewrite map_app, in_app_iff. cbn [map In]. fold nm0. intuition congruence. }
  assert (Hfresh : ~ In nm0 (map lg_layer done) -> nlookup k acc = None).
  { intros Hnin. destruct (nlookup k acc) as [s|] eqn:Hl; [|reflexivity]. exfalso.
    assert (Hin : In k (map fst acc)) by (apply nlookup_in; eauto).
    destruct (Hk k Hin) as (nm & Hnmin & Hnmk).
    rewrite (@wf_key_inj L _ _ _ Hwf Hkey Hnmk) in Hnin. contradiction. }
  split; [|split].
  - destruct (in_dec Nat.eq_dec k (map fst acc)) as [Hin|Hnin].
    + rewrite keys_extend_in; auto.
    + rewrite keys_extend_notin; auto. apply NoDup_snoc; auto.
  - intros nm Hin. apply Hnames in Hin. rewrite ssn_snoc, ssn_single. fold nm0.
    destruct (String.eqb_spec nm nm0) as [->|Hne].
    + exists k. rewrite nlookup_extend_same, Hsh.
      destruct (in_dec string_dec nm0 (map lg_layer done)) as [Hd|Hd].
      * destruct (Hnm nm0 Hd) as (k' & sh' & H1 & H2 & H3).
        assert (k' = k) by congruence. subst k'. rewrite H2, H3. eauto.
      * rewrite (Hfresh Hd), (ssn_notin _ _ Hd). cbn [app]. eauto.
    + destruct Hin as [Hin|Hin]; [|contradiction].
      destruct (Hnm nm Hin) as (k' & sh' & H1 & H2 & H3).
      exists k', sh'. rewrite H3, app_nil_r. repeat split; auto.
      rewrite nlookup_extend_other; auto.
      intros ->. apply Hne. apply (@wf_key_inj L _ _ _ Hwf H1 Hkey).
  - intros k' Hin.
    assert (Hk' : k' = k \/ In k' (map fst acc)).
    { destruct (in_dec Nat.eq_dec k (map fst acc)) as [Hi|Hni].
      - rewrite keys_extend_in in Hin; auto.
      - rewrite keys_extend_notin in Hin; auto. apply in_app_iff in Hin. cbn [In] in Hin. intuition. }
    destruct Hk' as [->|Hin'].
    + exists nm0. split; [apply Hnames; auto|exact Hkey].
    + destruct (Hk k' Hin') as (nm & H1 & H2). exists nm. split; [apply Hnames; auto|exact H2].
Qed.

Lemma import_lgs_inv : forall lgs done acc L M L',
  Forall llg_wf lgs -> layers_wf L -> lgs_inv L done acc ->
  import_lgs lgs acc L = Ok (M, L') ->
  layers_wf L' /\ layers_le L L' /\ lgs_inv L' (done ++ lgs) M.
Proof.
  induction lgs as [|lg r IH]; intros done acc L M L' Hwfl Hwf Hinv H;
    unfold import_lgs in H; cbn [import_lgs_gen] in H.
  - injection H as <- <-. rewrite app_nil_r. split; [auto|]. split; [apply layers_le_refl|auto].
  - apply obind_ok in H as ([[k sh] L1] & Hlg & H).
    inversion Hwfl as [|lg' r' Hlgwf Hrwf]; subst.
    destruct (@import_lg_ok _ _ _ _ _ Hlgwf Hwf Hlg) as (Hwf1 & Hle1 & Hkey & Hsh).
    pose proof (@lgs_inv_step L1 done acc lg k sh Hwf1 (@lgs_inv_mono L L1 done acc Hle1 Hinv) Hkey Hsh) as Hinv1.
    destruct (IH (done ++ [lg]) (smap_extend k sh acc) L1 M L' Hrwf Hwf1 Hinv1 H) as (Hwf' & Hle' & Hinv').
    split; [auto|]. split; [eapply layers_le_trans; eauto|].
    rewrite <- app_assoc in Hinv'. exact Hinv'.
Qed.

Lemma lgs_inv_shapes_match L lgs M : layers_wf L -> lgs_inv L lgs M -> shapes_match L lgs M.
Proof.
  intros Hwf (Hnd & Hnm & Hk). split; [exact Hnd|]. split; [|exact Hk].
  intros nm Hin. destruct (Hnm nm Hin) as (k & sh & H1 & H2 & H3). exists k, sh. auto.
Qed.

Lemma shapes_match_mono L L' lgs M :
  layers_wf L' -> layers_le L L' -> shapes_match L lgs M -> shapes_match L' lgs M.
Proof.
  intros Hwf Hle (Hnd & Hnm & Hk). split; [exact Hnd|]. split.
  - intros nm Hin. destruct (Hnm nm Hin) as (k & sh & H1 & H2 & H3 & H4). exists k, sh. auto 6.
  - intros k Hin. destruct (Hk k Hin) as (nm & H1 & H2). eauto.
Qed.

Lemma import_lgs_match lgs L M L' :
  Forall llg_wf lgs -> layers_wf L -> import_lgs lgs [] L = Ok (M, L') ->
  layers_wf L' /\ layers_le L L' /\ shapes_match L' lgs M.
Proof.
  intros Hwfl Hwf H.
  destruct (@import_lgs_inv lgs [] [] L M L' Hwfl Hwf (lgs_inv_nil L) H) as (Hwf' & Hle & Hinv).
  cbn [app] in Hinv. auto using lgs_inv_shapes_match.
Qed.

(** * Pins, abstracts, libraries *)
Lemma Forall2_imp (A B : Type) (P Q : A -> B -> Prop) (l : list A) (l' : list B) :
  (forall a b, P a b -> Q a b) -> Forall2 P l l' -> Forall2 Q l l'.
Proof. intros HPQ H. induction H; constructor; auto. Qed.

Definition port_matches (L : layers) (pin : lpin) (port : aport) : Prop :=
  ap_net port = pin_name pin /\ shapes_match L (List.concat (pin_ports pin)) (ap_shapes port).

Lemma import_pins_match : forall ps L ports L',
  Forall lpin_wf ps -> layers_wf L -> import_pins ps L = Ok (ports, L') ->
  layers_wf L' /\ layers_le L L' /\ Forall2 (port_matches L') ps ports.
Proof.
  induction ps as [|p r IH]; intros L ports L' Hwfp Hwf H; unfold import_pins in H; cbn [import_pins_gen] in H.
  - injection H as <- <-. split; [auto|]. split; [apply layers_le_refl|constructor].
  - apply obind_ok in H as ([ap L1] & Hp & H). apply obind_ok in H as ([aps L2] & Hr & H).
    injection H as <- <-.
    inversion Hwfp as [|p' r' Hpwf Hrwf]; subst.
    unfold import_pin_gen in Hp. apply obind_ok in Hp as ([m L1'] & Hm & Hp). injection Hp as <- <-.
    destruct (@import_lgs_match _ _ _ _ Hpwf Hwf Hm) as (Hwf1 & Hle1 & Hmatch).
    destruct (IH L1' aps L2 Hrwf Hwf1 Hr) as (Hwf2 & Hle2 & Hall).
    split; [auto|]. split; [eapply layers_le_trans; eauto|].
    constructor; [|exact Hall].
    split; [reflexivity|]. cbn [ap_shapes]. eapply shapes_match_mono; eauto.
Qed.

Lemma port_matches_mono L L' pin port :
  layers_wf L' -> layers_le L L' -> port_matches L pin port -> port_matches L' pin port.
Proof. intros Hwf Hle [Hn Hm]. split; [exact Hn|]. eapply shapes_match_mono; eauto. Qed.

Lemma import_boundary_ok L L1 :
  layers_wf L ->
  match key_of_name L boundary_name with
  | Some _ => Ok L
  | None => obind (nextnum L) (fun num => Ok (snd (layers_add (mklayer num (Some boundary_name)) L)))
  end = (Ok L1 : res layers) ->
  layers_wf L1 /\ layers_le L L1.
Proof.
  intros Hwf H. destruct (key_of_name L boundary_name) as [k|] eqn:Hk.
  - injection H as <-. split; [auto|apply layers_le_refl].
  - apply obind_ok in H as (num & _ & H). injection H as <-.
    pose proof (@layers_add_named boundary_name num L Hwf Hk) as Hadd. cbv zeta in Hadd. tauto.
Qed.

Lemma import_abstract_spec m L a L' :
  lmacro_wf m -> layers_wf L -> import_abstract m L = Ok (a, L') ->
  layers_wf L' /\ layers_le L L' /\ spec_abstract L' m a.
Proof.
  intros (Hsz & Hpins & Hobs) Hwf H. unfold import_abstract, import_abstract_gen in H.
  destruct (m_size m) as [[w h]|] eqn:Hsize; [|discriminate].
  apply obind_ok in H as ([x y] & Hxy & H).
  apply obind_ok in H as (L1 & HL1 & H).
  apply obind_ok in H as ([ports L2] & Hp & H).
  apply obind_ok in H as ([blk L3] & Hb & H).
  injection H as <- <-.
  destruct (import_boundary_ok Hwf HL1) as (Hwf1 & Hle1).
  destruct (@import_pins_match _ _ _ _ Hpins Hwf1 Hp) as (Hwf2 & Hle2 & Hports).
  destruct (@import_lgs_match _ _ _ _ Hobs Hwf2 Hb) as (Hwf3 & Hle3 & Hblk).
  split; [auto|]. split; [eauto using layers_le_trans|].
  unfold spec_abstract. cbn [a_name a_outline a_ports a_blockages].
  split; [reflexivity|]. split; [|split; [|exact Hblk]].
  - destruct (Hsz w h eq_refl) as [Hw Hh].
    change (import_point_gen repaired) with import_point in Hxy.
    apply import_point_ok in Hxy as [Hx Hy]. cbn [lpx lpy] in Hx, Hy.
    exists w, h, x, y. split; [exact Hsize|].
    split; [exact (proj1 (proj1 (proj1 (dist_exact Hw) x) Hx))|].
    split; [exact (proj1 (proj1 (proj1 (dist_exact Hh) y) Hy))|reflexivity].
  - revert Hports. apply Forall2_imp. intros pin port. apply port_matches_mono; auto.
Qed.

Lemma spec_abstract_mono L L' m a :
  layers_wf L' -> layers_le L L' -> spec_abstract L m a -> spec_abstract L' m a.
Proof.
  intros Hwf Hle (Hn & Ho & Hp & Hb). split; [exact Hn|]. split; [exact Ho|]. split.
  - revert Hp. apply Forall2_imp. intros pin port [H1 H2]. split; [exact H1|]. eapply shapes_match_mono; eauto.
  - eapply shapes_match_mono; eauto.
Qed.

Lemma import_macros_spec : forall ms L cells L',
  Forall lmacro_wf ms -> layers_wf L -> import_macros ms L = Ok (cells, L') ->
  layers_wf L' /\ layers_le L L' /\ Forall2 (spec_abstract L') ms cells.
Proof.
  induction ms as [|m r IH]; intros L cells L' Hwfm Hwf H; unfold import_macros in H; cbn [import_macros_gen] in H.
  - injection H as <- <-. split; [auto|]. split; [apply layers_le_refl|constructor].
  - apply obind_ok in H as ([a L1] & Ha & H). apply obind_ok in H as ([al L2] & Hr & H).
    injection H as <- <-.
    inversion Hwfm as [|m' r' Hmwf Hrwf]; subst.
    destruct (@import_abstract_spec _ _ _ _ Hmwf Hwf Ha) as (Hwf1 & Hle1 & Hspec).
    destruct (IH L1 al L2 Hrwf Hwf1 Hr) as (Hwf2 & Hle2 & Hall).
    split; [auto|]. split; [eapply layers_le_trans; eauto|].
    constructor; [|exact Hall]. eapply spec_abstract_mono; eauto.
Qed.

(** * Top level *)
Lemma point_exact p X Y :
  lpoint_wf p -> import_point p = Ok (X, Y) -> scaled_is (lpx p) X /\ scaled_is (lpy p) Y.
Proof.
  intros [Hx Hy] H. apply import_point_ok in H as [HX HY].
  split.
  - exact (proj1 (proj1 (proj1 (dist_exact Hx) X) HX)).
  - exact (proj1 (proj1 (proj1 (dist_exact Hy) Y) HY)).
Qed.

Lemma layers_empty_wf : layers_wf layers_empty.
Proof. intros nm k H. discriminate. Qed.

Definition layers0_wf (L0 : option layers) : Prop :=
  match L0 with Some L => layers_wf L | None => True end.

Lemma import_spec lib L0 cells L' :
  Forall lmacro_wf (lib_macros lib) -> layers0_wf L0 ->
  import lib L0 = Ok (cells, L') ->
  layers_wf L' /\ Forall2 (spec_abstract L') (lib_macros lib) cells.
Proof.
  intros Hwf HL0 H. unfold import, import_gen, import_lib_gen in H.
  destruct (lib_case_off lib); [discriminate|].
  assert (Hwf0 : layers_wf (match L0 with Some L => L | None => layers_empty end)).
  { destruct L0; [exact HL0|apply layers_empty_wf]. }
  destruct (@import_macros_spec _ _ _ _ Hwf Hwf0 H) as (H1 & _ & H2). auto.
Qed.

(** One shape per geometry, in order. *)
Lemma opt_all_Forall2 (A B : Type) (f : A -> option B) l : forall l',
  opt_all f l = Some l' -> Forall2 (fun a b => f a = Some b) l l'.
Proof.
  induction l as [|a r IH]; intros l' H; cbn [opt_all] in H.
  - injection H as <-. constructor.
  - destruct (f a) as [b|] eqn:Hb; [|discriminate].
    destruct (opt_all f r) as [bs|]; [|discriminate]. injection H as <-. constructor; auto.
Qed.

Lemma shapes_one_per_geometry nm lgs sh :
  spec_shapes_named nm lgs = Some sh ->
  Forall2 (fun wg s => spec_geom (fst wg) (snd wg) = Some s) (geoms_named nm lgs) sh.
Proof. apply opt_all_Forall2. Qed.

(** Off-grid coordinates are rejected. *)
Lemma spec_point_integral p q : spec_point p = Some q -> Forall integral_scaled (point_coords p).
Proof.
  unfold spec_point, point_coords. intros H.
  destruct (spec_coord (lpx p)) as [x|] eqn:Hx; [|discriminate].
  destruct (spec_coord (lpy p)) as [y|] eqn:Hy; [|discriminate].
  repeat constructor; [exists x|exists y]; apply spec_coord_scaled; assumption.
Qed.

Lemma spec_points_integral l : forall l',
  opt_all spec_point l = Some l' -> Forall integral_scaled (flat_map point_coords l).
Proof.
  induction l as [|p r IH]; intros l' H; cbn [opt_all flat_map] in *; [constructor|].
  destruct (spec_point p) as [q|] eqn:Hq; [|discriminate].
  destruct (opt_all spec_point r) as [qs|]; [|discriminate].
  apply Forall_app. split; [eapply spec_point_integral; eauto|eapply IH; eauto].
Qed.

Lemma spec_shape_integral w s sh : spec_shape w s = Some sh -> Forall integral_scaled (shape_coords w s).
Proof.
  destruct s as [p0 p1|pts|pts]; cbn [spec_shape shape_coords]; intros H.
  - destruct (spec_point p0) eqn:H0; [|discriminate]. destruct (spec_point p1) eqn:H1; [|discriminate].
    apply Forall_app. split; eapply spec_point_integral; eauto.
  - destruct (opt_all spec_point pts) eqn:Hp; [|discriminate]. eapply spec_points_integral; eauto.
  - destruct w as [w|]; [|discriminate].
    destruct (spec_coord w) as [W|] eqn:HW; [|discriminate].
    destruct (opt_all spec_point pts) eqn:Hp; [|discriminate].
    apply Forall_app. split; [|eapply spec_points_integral; eauto].
    repeat constructor. exists W. apply spec_coord_scaled. exact HW.
Qed.

Lemma spec_geom_integral w g sh : spec_geom w g = Some sh -> Forall integral_scaled (geom_coords w g).
Proof. destruct g; cbn [spec_geom geom_coords]; [apply spec_shape_integral|discriminate]. Qed.

Lemma geoms_named_in lg lgs g :
  In lg lgs -> In g (lg_geoms lg) -> In (lg_width lg, g) (geoms_named (lg_layer lg) lgs).
Proof.
  induction lgs as [|lg0 r IH]; cbn [In geoms_named]; [tauto|].
  intros [->|Hin] Hg; apply in_app_iff.
  - left. rewrite String.eqb_refl. apply in_map_iff. eauto.
  - right. auto.
Qed.

Lemma shapes_match_integral L lgs M lg g :
  shapes_match L lgs M -> In lg lgs -> In g (lg_geoms lg) ->
  Forall integral_scaled (geom_coords (lg_width lg) g).
Proof.
  intros (_ & Hnm & _) Hlg Hg.
  destruct (Hnm (lg_layer lg)) as (k & sh & _ & _ & _ & Hspec).
  { apply in_map. exact Hlg. }
  apply shapes_one_per_geometry in Hspec.
  pose proof (geoms_named_in _ _ _ Hlg Hg) as Hin.
  set (l := geoms_named (lg_layer lg) lgs) in *. clearbody l. revert Hin.
  induction Hspec as [|wg s l0 sh0 Hhd Htl IH]; intros Hin; [contradiction|].
  destruct Hin as [->|Hin]; [|auto].
  cbn [fst snd] in Hhd. eapply spec_geom_integral; eauto.
Qed.

Lemma spec_abstract_integral L m a lg g :
  spec_abstract L m a -> In lg (macro_lgs m) -> In g (lg_geoms lg) ->
  Forall integral_scaled (geom_coords (lg_width lg) g).
Proof.
  intros (_ & _ & Hports & Hblk) Hlg Hg. unfold macro_lgs in Hlg. apply in_app_iff in Hlg as [Hlg|Hlg].
  - apply in_flat_map in Hlg as (pin & Hpin & Hlg).
    revert Hpin. induction Hports as [|p ap ps aps [_ Hm] Hrest IH]; [contradiction|].
    intros [->|Hpin]; [|auto].
    exact (@shapes_match_integral L (List.concat (pin_ports pin)) (ap_shapes ap) lg g Hm Hlg Hg).
  - exact (@shapes_match_integral L (m_obs m) (a_blockages a) lg g Hblk Hlg Hg).
Qed.

Lemma offgrid_rejected m L lg g d :
  lmacro_wf m -> layers_wf L ->
  In lg (macro_lgs m) -> In g (lg_geoms lg) -> In d (geom_coords (lg_width lg) g) ->
  ~ integral_scaled d ->
  forall a L', import_abstract m L <> Ok (a, L').
Proof.
  intros Hm HL Hlg Hg Hd Hoff a L' H.
  destruct (@import_abstract_spec _ _ _ _ Hm HL H) as (_ & _ & Hspec).
  pose proof (spec_abstract_integral _ _ Hspec Hlg Hg) as Hall.
  rewrite Forall_forall in Hall. exact (Hoff (Hall d Hd)).
Qed.

Lemma offgrid_size_rejected m L w h :
  lmacro_wf m -> layers_wf L -> m_size m = Some (w, h) ->
  ~ integral_scaled w \/ ~ integral_scaled h ->
  forall a L', import_abstract m L <> Ok (a, L').
Proof.
  intros Hm HL Hsz Hoff a L' H.
  destruct (@import_abstract_spec _ _ _ _ Hm HL H) as (_ & _ & (_ & (w' & h' & W & H' & Hs & HW & HH & _) & _)).
  rewrite Hsz in Hs. injection Hs as <- <-.
  destruct Hoff as [Hoff|Hoff]; apply Hoff; [exists W|exists H']; assumption.
Qed.

(** * The code as found *)
Definition d_1_50 : dec := mkdec false 150 2.     (* "1.50" *)
Definition d_1_5 : dec := mkdec false 15 1.       (* "1.5"  *)
Definition d_2 : dec := mkdec false 2 0.          (* "2"    *)
Definition d_3 : dec := mkdec false 3 0.          (* "3"    *)

Lemma orig_dist_refuted :
  exists d n, dec_wf d /\ import_dist_orig d = Ok n /\ ~ scaled_is d n.
Proof.
  exists d_1_50, 1500000. split; [|split].
  - split; [split; [vm_compute; discriminate|vm_compute; reflexivity]|cbn; lia].
  - vm_compute. reflexivity.
  - vm_compute. discriminate.
Qed.

Lemma orig_dist_scale_dependent :
  exists d d', dec_wf d /\ dec_wf d' /\ dec_eq d d' /\ import_dist_orig d <> import_dist_orig d'.
Proof.
  exists d_1_5, d_1_50. repeat split; try (vm_compute; discriminate); try (vm_compute; reflexivity); cbn; lia.
Qed.

Lemma orig_point_refuted :
  exists p X Y, lpoint_wf p /\ import_point_orig p = Ok (X, Y) /\ ~ scaled_is (lpy p) Y.
Proof.
  exists (mklpoint d_3 d_2), 30000, 30000. split; [|split].
  - repeat split; try (vm_compute; discriminate); try (vm_compute; reflexivity); cbn; lia.
  - vm_compute. reflexivity.
  - vm_compute. discriminate.
Qed.

(** SIZE 1.50 BY 2 *)
Definition m_size_only : lmacro := mklmacro "m" (Some (d_1_50, d_2)) [] [].
Lemma orig_macro_refuted :
  exists a L', import_abstract_gen original m_size_only layers_empty = Ok (a, L') /\
               a_outline a = outline_of 1500000 1500000 /\
               import_abstract m_size_only layers_empty =
                 Ok (mkabstract "m" (outline_of 15000 20000) [] [],
                     mklayers [mklayer 0 (Some "boundary"%string)] [(0, 0%nat)] [("boundary"%string, 0%nat)]).
Proof. eexists. eexists. split; [vm_compute; reflexivity|]. split; vm_compute; reflexivity. Qed.

(** * The checker's executable specification implies the specification *)
Lemma point_eqb_eq a b : point_eqb a b = true -> a = b.
Proof.
  destruct a, b. unfold point_eqb. cbn [fst snd]. intros H. apply andb_prop in H as [H1 H2].
  apply Z.eqb_eq in H1, H2. congruence.
Qed.

Lemma list_eqb_eq (A : Type) (eqb : A -> A -> bool) :
  (forall a b, eqb a b = true -> a = b) -> forall l l', list_eqb eqb l l' = true -> l = l'.
Proof.
  intros Heq. induction l as [|x r IH]; intros [|y r'] H; cbn [list_eqb] in H; try discriminate; auto.
  apply andb_prop in H as [H1 H2]. f_equal; auto.
Qed.

Lemma shape_eqb_eq a b : shape_eqb a b = true -> a = b.
Proof.
  destruct a, b; cbn [shape_eqb]; intros H; try discriminate.
  - apply andb_prop in H as [H1 H2]. apply point_eqb_eq in H1, H2. congruence.
  - apply (@list_eqb_eq _ _ point_eqb_eq _ _) in H. congruence.
  - apply andb_prop in H as [H1 H2]. apply Z.eqb_eq in H1. apply (@list_eqb_eq _ _ point_eqb_eq _ _) in H2. congruence.
Qed.

Lemma ostring_eqb_eq a b : ostring_eqb a b = true -> a = b.
Proof.
  destruct a, b; cbn [ostring_eqb]; intros H; try discriminate; auto.
  apply String.eqb_eq in H. congruence.
Qed.

Lemma nat_nodupb_NoDup l : nat_nodupb l = true -> NoDup l.
Proof.
  induction l as [|k r IH]; cbn [nat_nodupb]; intros H; constructor.
  - apply andb_prop in H as [H _]. intros Hin. apply negb_true_iff in H.
    assert (existsb (Nat.eqb k) r = true); [|congruence].
    apply existsb_exists. exists k. split; [exact Hin|apply Nat.eqb_refl].
  - apply andb_prop in H as [_ H]. auto.
Qed.

Lemma shapes_matchb_sound L lgs M : shapes_matchb L lgs M = true -> shapes_match L lgs M.
Proof.
  unfold shapes_matchb. intros H. apply andb_prop in H as [H H3]. apply andb_prop in H as [H1 H2].
  split; [apply nat_nodupb_NoDup; exact H1|]. split.
  - intros nm Hin. rewrite forallb_forall in H2. specialize (H2 nm Hin).
    destruct (key_of_name L nm) as [k|] eqn:Hk; [|discriminate].
    apply andb_prop in H2 as [Hn Hs]. apply ostring_eqb_eq in Hn.
    destruct (nlookup k M) as [sh|] eqn:Hl; [|discriminate].
    destruct (spec_shapes_named nm lgs) as [sh'|] eqn:Hsp; [|discriminate].
    apply (@list_eqb_eq _ _ shape_eqb_eq _ _) in Hs. subst sh'. exists k, sh. repeat split; auto.
  - intros k Hin. rewrite forallb_forall in H3. specialize (H3 k Hin).
    apply existsb_exists in H3 as (nm & Hnm & Hk). exists nm. split; [exact Hnm|].
    destruct (key_of_name L nm) as [k'|]; [|discriminate]. apply Nat.eqb_eq in Hk. congruence.
Qed.

Lemma forall2b_Forall2 (A B : Type) (f : A -> B -> bool) (P : A -> B -> Prop) :
  (forall a b, f a b = true -> P a b) -> forall l l', forall2b f l l' = true -> Forall2 P l l'.
Proof.
  intros HfP. induction l as [|x r IH]; intros [|y r'] H; cbn [forall2b] in H; try discriminate; constructor.
  - apply andb_prop in H as [H _]. auto.
  - apply andb_prop in H as [_ H]. auto.
Qed.

Lemma spec_abstractb_sound L m a : spec_abstractb L m a = true -> spec_abstract L m a.
Proof.
  unfold spec_abstractb. intros H. apply andb_prop in H as [H H4]. apply andb_prop in H as [H H3].
  apply andb_prop in H as [H1 H2].
  split; [apply String.eqb_eq; exact H1|]. split; [|split].
  - destruct (m_size m) as [[w h]|]; [|discriminate].
    destruct (spec_coord w) as [W|] eqn:HW; [|discriminate].
    destruct (spec_coord h) as [H'|] eqn:HH; [|discriminate].
    apply (@list_eqb_eq _ _ point_eqb_eq _ _) in H2.
    exists w, h, W, H'. repeat split; auto; apply spec_coord_scaled; assumption.
  - revert H3. apply forall2b_Forall2. intros pin port Hb. apply andb_prop in Hb as [Hn Hm].
    split; [apply String.eqb_eq; exact Hn|apply shapes_matchb_sound; exact Hm].
  - apply shapes_matchb_sound. exact H4.
Qed.
