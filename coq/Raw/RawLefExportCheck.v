(** Executable checks used by the correspondence leg of C20 for the raw -> LEF exporter (tools/props/c20.py,
    harness bin c20x).  Result codes: 0 = the implementation's exported LefLibrary (or error kind, or panic)
    is what the model computes; 1 = it differs.  (Code 2 of the C20 check -- the implementation's own
    outputs differ between repetitions -- is decided by the runner, which compares the repetitions.)
    No proofs here. *)
From Coq Require Import ZArith Bool List String.
From L21 Require Import Base.Outcome Raw.RawData Raw.RawLefDec Raw.RawLefExport.
From L21 Require Raw.RawLefTypes Raw.RawLef Raw.RawLefSpec Raw.RawLefCheck.
Import ListNotations.
Local Open Scope Z_scope.

Module T := Raw.RawLefTypes.

(** What the harness reports for [LefExporter::export]. *)
Inductive ximpl : Type :=
| XIOk (dbu : option Z) (lib : T.llib)
| XIErr (e : xerr)
| XIPanic.

Definition xerr_code (e : xerr) : Z := match e with XUnits => 1 | XNoName => 2 | XOther => 3 end.

(** decimals are compared as REPRESENTATIONS (sign flag, magnitude, scale), not as values *)
Definition dec_repr_eqb (a b : dec) : bool :=
  Bool.eqb (dneg a) (dneg b) && (dmant a =? dmant b) && Nat.eqb (dscale a) (dscale b).
Definition odec_eqb (a b : option dec) : bool :=
  match a, b with Some x, Some y => dec_repr_eqb x y | None, None => true | _, _ => false end.
Fixpoint list_eqb {A : Type} (eqb : A -> A -> bool) (a b : list A) : bool :=
  match a, b with
  | [], [] => true
  | x :: a', y :: b' => eqb x y && list_eqb eqb a' b'
  | _, _ => false
  end.
Definition lpoint_eqb (a b : T.lpoint) : bool := dec_repr_eqb (T.lpx a) (T.lpx b) && dec_repr_eqb (T.lpy a) (T.lpy b).
Definition lshape_eqb (a b : T.lshape) : bool :=
  match a, b with
  | T.LRect p0 p1, T.LRect q0 q1 => lpoint_eqb p0 q0 && lpoint_eqb p1 q1
  | T.LPolygon l, T.LPolygon l' => list_eqb lpoint_eqb l l'
  | T.LPath l, T.LPath l' => list_eqb lpoint_eqb l l'
  | _, _ => false
  end.
Definition lgeom_eqb (a b : T.lgeom) : bool :=
  match a, b with
  | T.LShape s, T.LShape s' => lshape_eqb s s'
  | T.LIterate s, T.LIterate s' => lshape_eqb s s'
  | _, _ => false
  end.
Definition lspacing_eqb (a b : option T.lspacing) : bool :=
  match a, b with
  | None, None => true
  | Some (T.LSpacing d), Some (T.LSpacing d') => dec_repr_eqb d d'
  | Some (T.LDesignRuleWidth d), Some (T.LDesignRuleWidth d') => dec_repr_eqb d d'
  | _, _ => false
  end.
Definition llg_eqb (a b : T.llayergeoms) : bool :=
  String.eqb (T.lg_layer a) (T.lg_layer b) && list_eqb lgeom_eqb (T.lg_geoms a) (T.lg_geoms b) &&
  Nat.eqb (T.lg_nvias a) (T.lg_nvias b) && Bool.eqb (T.lg_except_pg a) (T.lg_except_pg b) &&
  lspacing_eqb (T.lg_spacing a) (T.lg_spacing b) && odec_eqb (T.lg_width a) (T.lg_width b).
Definition lpin_eqb (a b : T.lpin) : bool :=
  String.eqb (T.pin_name a) (T.pin_name b) && list_eqb (list_eqb llg_eqb) (T.pin_ports a) (T.pin_ports b).
Definition osize_eqb (a b : option (dec * dec)) : bool :=
  match a, b with
  | Some (w, h), Some (w', h') => dec_repr_eqb w w' && dec_repr_eqb h h'
  | None, None => true
  | _, _ => false
  end.
Definition lmacro_eqb (a b : T.lmacro) : bool :=
  String.eqb (T.m_name a) (T.m_name b) && osize_eqb (T.m_size a) (T.m_size b) &&
  list_eqb lpin_eqb (T.m_pins a) (T.m_pins b) && list_eqb llg_eqb (T.m_obs a) (T.m_obs b).
Definition llib_eqb (a b : T.llib) : bool :=
  Bool.eqb (T.lib_case_off a) (T.lib_case_off b) && list_eqb lmacro_eqb (T.lib_macros a) (T.lib_macros b).

Definition xres_eqb (m : res xlef) (i : ximpl) : bool :=
  match m, i with
  | Ok x, XIOk (Some dbu) lib => (xl_dbu x =? dbu) && llib_eqb (xl_lib x) lib
  | Err e, XIErr e' => xerr_code e =? xerr_code e'
  | Panic, XIPanic => true
  | _, _ => false
  end.

(** raw -> LEF -> raw: what the model of the importer (Raw/RawLef.v) says about the exported library, as a number:
    -1 nothing was exported, 0 imported, 1..10 the error kind ([RawLefCheck.ekind_code]; 3 = "Missing LEF size"), 100 panic *)
Definition reimport_code (r : res xlef) : Z :=
  match r with
  | Ok x => match Raw.RawLef.import (xl_lib x) None with
            | Ok _ => 0
            | Err e => Raw.RawLefCheck.ekind_code e
            | Panic => 100
            | OutOfFuel => 101
            end
  | _ => -1
  end.

(** op "export": [L] lists the entries of every map in the order of the case file (arbitrary);
    [reimp]: the implementation's LefImporter::import of its own exported library, coded as [reimport_code] *)
Definition c20x_check (v : xvariant) (L : library) (i : ximpl) (reimp : Z) : Z :=
  if xres_eqb (export_gen v L) i && (reimport_code (export_gen v L) =? reimp) then 0 else 1.

(** op "roundtrip": LEF -> raw (model of C16, the importer of the tree) -> LEF.
    [imp_ok]: the implementation's import succeeded (otherwise nothing was exported). *)
Definition c20x_check_rt (v : xvariant) (l0 : option (list (Z * option string))) (lib : T.llib)
           (imp_ok : bool) (i : ximpl) : Z :=
  match Raw.RawLef.import lib (Raw.RawLefCheck.layers0 l0) with
  | Ok r => if imp_ok && xres_eqb (export_gen v (raw_lib_of_import r)) i then 0 else 1
  | _ => if imp_ok then 1 else 0
  end.
