(** Model of the [rust_decimal::Decimal] (= [lef21::LefDecimal]) operations that
    layout21raw/src/lef.rs uses.  rust_decimal 1.43.0 (the version pinned in Cargo.lock).

    A Decimal is a sign flag, a 96-bit unsigned magnitude and a scale 0..28; its value is
    (-1)^neg * mant / 10^scale.  Several representations denote the same number ("1.5" is
    (15,1), "1.50" is (150,2)); the parser keeps the scale the text was written with.
    Negative zero exists as a representation ([set_sign_negative] on zero keeps the flag).

    What is modelled, and how (nothing here is proved about the Rust crate; the contracts below were
    written from the crate source -- src/ops/mul.rs, src/ops/common.rs [Buf24::rescale],
    src/decimal.rs [trunc], [fract], [mantissa], [is_zero] -- and are validated against the real
    crate by the correspondence run, harness op "dec" and every import):

    - [Decimal::from(u32)]           : (false, n, 0).
    - [d * Decimal::from(10_000u32)] : [dec_mul_10000].  [mul_impl] returns [Decimal::ZERO] when an
      operand is zero; otherwise the exact 192-bit product of the magnitudes with scale
      s1 + s2 = s1.  If the product does not fit 96 bits, [Buf24::rescale] removes decimal digits:
      first t = ((hb * 77) >> 8) + 1 digits where hb is the index of the top bit above bit 96,
      failing when t > scale; then one digit at a time while the quotient still exceeds 96 bits,
      failing when the scale reaches 0.  Failure is [CalculationResult::Overflow], which the [Mul]
      operator turns into panic "Multiplication overflowed".  The rescale rounds half-even on the
      remainder of the last division (with a sticky bit for earlier ones); for the multiplier
      10000 at most 4 digits are removed and the product is a multiple of 10^4, so every remainder
      is 0 and the rounding code is dead: the model divides exactly.  (That the removed digits are
      zeros is lemma [mul_10000_exact_value] in RawLef_proofs.v: the value of the result is
      always exactly 10000 times the value of the operand.)
    - [d.trunc()]                    : (neg, mant / 10^scale, 0).
    - [d.fract().is_zero()]          : [fract] is [d - d.trunc()], computed exactly at scale [scale d];
      only its zero test is used: mant mod 10^scale = 0.
    - [d.mantissa()] : i128          : the signed magnitude, ignoring the scale.
    - [d.is_zero()]                  : mant = 0 (the sign flag is ignored).
    - [==] on Decimals (used for `spacing != Spacing(ZERO)`): numeric comparison; only comparison
      with zero is used: [dec_is_zero].
    No proofs in this file. *)
From Coq Require Import ZArith Bool Lia.
From L21 Require Import Base.Outcome.
Local Open Scope Z_scope.

Record dec : Type := mkdec { dneg : bool; dmant : Z; dscale : nat }.

Definition two96 : Z := 2 ^ 96.
Definition pow10 (n : nat) : Z := 10 ^ Z.of_nat n.

(** Representable Decimals. *)
Definition dec_wf (d : dec) : Prop := 0 <= dmant d < two96 /\ (dscale d <= 28)%nat.
Definition dec_wfb (d : dec) : bool :=
  (0 <=? dmant d) && (dmant d <? two96) && Nat.leb (dscale d) 28.

(** Signed numerator: the value of [d] is [dec_num d / pow10 (dscale d)]. *)
Definition dec_num (d : dec) : Z := if dneg d then - dmant d else dmant d.

(** Same number, possibly written with a different number of decimals. *)
Definition dec_eq (d d' : dec) : Prop :=
  dec_num d * pow10 (dscale d') = dec_num d' * pow10 (dscale d).
Definition dec_eqb (d d' : dec) : bool :=
  dec_num d * pow10 (dscale d') =? dec_num d' * pow10 (dscale d).

Definition dec_zero : dec := mkdec false 0 0.
Definition dec_of_u32 (n : Z) : dec := mkdec false n 0.
Definition dec_is_zero (d : dec) : bool := dmant d =? 0.
Definition dec_mantissa (d : dec) : Z := dec_num d.
Definition dec_trunc (d : dec) : dec := mkdec (dneg d) (dmant d / pow10 (dscale d)) 0.
Definition dec_fract_is_zero (d : dec) : bool := dmant d mod pow10 (dscale d) =? 0.

(** [Buf24::rescale] for a product [P] with 2^96 <= P < 2^128 (upper word index 3):
    the first estimate of the number of digits to drop. *)
Definition rescale_digits (P : Z) : Z := ((Z.log2 P - 96) * 77) / 256 + 1.

(** "If we fit into 96 bits then we've scaled enough. Otherwise, scale once more." *)
Fixpoint rescale_more {E : Type} (fuel : nat) (q : Z) (s : Z) : outcome E (Z * Z) :=
  if q <? two96 then Ok (q, s)
  else if s =? 0 then Panic
  else match fuel with
       | O => OutOfFuel
       | S f => rescale_more f (q / 10) (s - 1)
       end.

Definition dec_mul_10000 {E : Type} (d : dec) : outcome E dec :=
  if dec_is_zero d then Ok dec_zero
  else
    let P := dmant d * 10000 in
    if P <? two96 then Ok (mkdec (dneg d) P (dscale d))
    else
      let t := rescale_digits P in
      let s := Z.of_nat (dscale d) in
      if s <? t then Panic                       (* "Multiplication overflowed" *)
      else
        match rescale_more 4 (P / 10 ^ t) (s - t) with
        | Ok (q, s') => Ok (mkdec (dneg d) q (Z.to_nat s'))
        | Err e => Err e
        | Panic => Panic
        | OutOfFuel => OutOfFuel
        end.

(** Integer conversions ([TryFrom]): 64-bit [isize] / [usize]. *)
Definition isize_min : Z := - 2 ^ 63.
Definition isize_max : Z := 2 ^ 63 - 1.
Definition in_isize (n : Z) : bool := (isize_min <=? n) && (n <=? isize_max).
