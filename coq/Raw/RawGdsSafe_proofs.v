(** Lemmas for C06, second part: the repaired importer cannot panic (Raw/RawGds.v against the ranges
    of the Rust types), hence on a malformed library its outcome is an error.

    [shape_contains_total]: `Shape::contains` (rectangle; polygon as repaired for C13, by C13's
    [poly_contains_total]; path with the repair of work/c06/fix-8) returns a value on every shape with i32
    coordinates, a non-empty path and a width of at most 2^31 -- no integer operation leaves its type.
    [import_lib_fine]: for every library of gds21's types ([G.lib_ok]: i32 coordinates, `[GdsPoint; 3]` /
    `[GdsPoint; 5]` arrays) the importer with all repairs neither panics nor leaves the model.
    Uses Geom/Contains_proofs.v (property C13) and Order/DepOrderFixed_proofs.v (property C17). *)
From Coq Require Import ZArith NArith List String Bool Lia Permutation Arith.
From L21 Require Import Base.F64 Base.Hex Raw.RawData Raw.RawGds Raw.RawFlatten Raw.RawGds_proofs.
From L21 Require Gds.GdsData Raw.RawGdsSpec Geom.Contains Geom.ContainsSpec Geom.Contains_proofs.
From L21 Require Order.DepOrder Order.DepOrderSpec Order.DepOrderFixed Order.DepOrderFixed_proofs.
Import ListNotations.
Local Open Scope Z_scope.
Module CP := Geom.Contains_proofs.
Module CS := Geom.ContainsSpec.


(* ---- s1.v ---- *)
(** * `contains` cannot panic on shapes with i32 coordinates *)
Definition i32 (z : Z) : Prop := -2147483648 <= z <= 2147483647.
Definition pt32 (p : point) : Prop := i32 (px p) /\ i32 (py p).
Definition shape_safe (s : shape) : Prop :=
  match s with
  | Rect a c => pt32 a /\ pt32 c
  | Polygon pts => Forall pt32 pts
  | Path pts w => Forall pt32 pts /\ pts <> [] /\ 0 <= w <= 2147483648
  end.

Lemma abs_mul_le : forall u v A B, Z.abs u <= A -> Z.abs v <= B -> Z.abs (u * v) <= A * B.
Proof.
  intros u v A B Hu Hv. rewrite Z.abs_mul. apply Z.mul_le_mono_nonneg; lia.
Qed.
Lemma in_int_bound : forall z, Z.abs z <= 9223372036854775807 -> C.in_int z = true.
Proof.
  intros z H. unfold C.in_int, C.int_min, C.int_max.
  change (2 ^ 63) with 9223372036854775808. apply andb_true_iff. split; apply Z.leb_le; lia.
Qed.
Lemma in_i128_bound : forall z, Z.abs z <= 170141183460469231731687303715884105727 -> C.in_i128 z = true.
Proof.
  intros z H. unfold C.in_i128, C.i128_min, C.i128_max.
  change (2 ^ 127) with 170141183460469231731687303715884105728. apply andb_true_iff. split; apply Z.leb_le; lia.
Qed.
Lemma in_u128_bound : forall z, 0 <= z <= 340282366920938463463374607431768211455 -> in_u128 z = true.
Proof.
  intros z H. unfold in_u128, u128_max. change (2 ^ 128) with 340282366920938463463374607431768211456.
  apply andb_true_iff. split; apply Z.leb_le; lia.
Qed.

Definition cpt32 (p : C.point) : Prop := i32 (fst p) /\ i32 (snd p).

Lemma path_scan_fixed_cons2 : forall a b ps w q,
  path_scan_fixed (a :: b :: ps) w q =
  let tl := b :: ps in
  let hw := Z.quot w 2 in
  if C.X a =? C.X b then
    let x0 := C.X a - hw in let x1 := C.X a + hw in
    if C.all_in_int [x0; x1] then
      if C.rect_contains (x0, C.Y a) (x1, C.Y b) q then C.Ret true else path_scan_fixed tl w q
    else C.Ovf
  else if C.Y a =? C.Y b then
    let y0 := C.Y a - hw in let y1 := C.Y a + hw in
    if C.all_in_int [y0; y1] then
      if C.rect_contains (C.X a, y0) (C.X b, y1) q then C.Ret true else path_scan_fixed tl w q
    else C.Ovf
  else
    let dx := C.X b - C.X a in let dy := C.Y b - C.Y a in
    let qx := C.X q - C.X a in let qy := C.Y q - C.Y a in
    let len2 := dx * dx + dy * dy in
    let dot := qx * dx + qy * dy in
    let cr := dx * qy - dy * qx in
    if C.all_in_i128 [dx; dy; qx; qy; dx * dx; dy * dy; len2; qx * dx; qy * dy; dot; dx * qy; dy * qx; cr]
       && in_u128 (w * w) && in_u128 (w * w * len2) && in_u128 (2 * Z.abs cr) then
      if (0 <=? dot) && (dot <=? len2) && (2 * Z.abs cr <=? Z.sqrt (w * w * len2)) then C.Ret true
      else path_scan_fixed tl w q
    else C.Ovf.
Proof. reflexivity. Qed.

Lemma mul_range : forall u v A, 0 <= A -> - A <= u <= A -> - A <= v <= A -> - (A * A) <= u * v <= A * A.
Proof.
  intros u v A HA Hu Hv. assert (H : Z.abs (u * v) <= A * A) by (apply abs_mul_le; lia). lia.
Qed.
Lemma in_i128_range : forall z, - 170141183460469231731687303715884105727 <= z <= 170141183460469231731687303715884105727 -> C.in_i128 z = true.
Proof. intros z H. apply in_i128_bound. lia. Qed.

(** the range checks of the general-segment branch all pass on i32 coordinates *)
Lemma diag_total : forall ax ay bx by_ qx qy w (rest : C.res),
  -2147483648 <= ax <= 2147483647 -> -2147483648 <= ay <= 2147483647 ->
  -2147483648 <= bx <= 2147483647 -> -2147483648 <= by_ <= 2147483647 ->
  -2147483648 <= qx <= 2147483647 -> -2147483648 <= qy <= 2147483647 -> 0 <= w <= 2147483648 ->
  (True -> exists b, rest = C.Ret b) ->
  exists b,
    (if C.all_in_i128 [bx - ax; by_ - ay; qx - ax; qy - ay; (bx - ax) * (bx - ax); (by_ - ay) * (by_ - ay);
                       (bx - ax) * (bx - ax) + (by_ - ay) * (by_ - ay); (qx - ax) * (bx - ax); (qy - ay) * (by_ - ay);
                       (qx - ax) * (bx - ax) + (qy - ay) * (by_ - ay); (bx - ax) * (qy - ay); (by_ - ay) * (qx - ax);
                       (bx - ax) * (qy - ay) - (by_ - ay) * (qx - ax)]
        && in_u128 (w * w) && in_u128 (w * w * ((bx - ax) * (bx - ax) + (by_ - ay) * (by_ - ay)))
        && in_u128 (2 * Z.abs ((bx - ax) * (qy - ay) - (by_ - ay) * (qx - ax)))
     then if (0 <=? (qx - ax) * (bx - ax) + (qy - ay) * (by_ - ay))
             && ((qx - ax) * (bx - ax) + (qy - ay) * (by_ - ay) <=? (bx - ax) * (bx - ax) + (by_ - ay) * (by_ - ay))
             && (2 * Z.abs ((bx - ax) * (qy - ay) - (by_ - ay) * (qx - ax)) <=?
                 Z.sqrt (w * w * ((bx - ax) * (bx - ax) + (by_ - ay) * (by_ - ay))))
          then C.Ret true else rest
     else C.Ovf) = C.Ret b.
Proof.
  intros ax ay bx by_ qx qy w rest Hax Hay Hbx Hby Hqx Hqy Hw Hrest.
  set (B := 4294967295).
  assert (HB : 0 <= B) by (subst B; lia).
  assert (Hdx : - B <= bx - ax <= B) by (subst B; lia).
  assert (Hdy : - B <= by_ - ay <= B) by (subst B; lia).
  assert (Hux : - B <= qx - ax <= B) by (subst B; lia).
  assert (Huy : - B <= qy - ay <= B) by (subst B; lia).
  generalize dependent (bx - ax). intros dx Hdx. generalize dependent (by_ - ay). intros dy Hdy.
  generalize dependent (qx - ax). intros ux Hux. generalize dependent (qy - ay). intros uy Huy.
  pose proof (mul_range dx dx B HB Hdx Hdx) as H1. pose proof (mul_range dy dy B HB Hdy Hdy) as H2.
  pose proof (mul_range ux dx B HB Hux Hdx) as H3. pose proof (mul_range uy dy B HB Huy Hdy) as H4.
  pose proof (mul_range dx uy B HB Hdx Huy) as H5. pose proof (mul_range dy ux B HB Hdy Hux) as H6.
  pose proof (Z.square_nonneg dx) as S1. pose proof (Z.square_nonneg dy) as S2.
  assert (HBB : B * B = 18446744065119617025) by (subst B; reflexivity). rewrite HBB in *.
  assert (Hww : 0 <= w * w <= 4611686018427387904).
  { split; [apply Z.mul_nonneg_nonneg; lia|]. change 4611686018427387904 with (2147483648 * 2147483648). apply Z.mul_le_mono_nonneg; lia. }
  generalize dependent (dx * dx). intros p1 H1 S1. generalize dependent (dy * dy). intros p2 H2 S2.
  generalize dependent (ux * dx). intros p3 H3. generalize dependent (uy * dy). intros p4 H4.
  generalize dependent (dx * uy). intros p5 H5. generalize dependent (dy * ux). intros p6 H6.
  assert (Hwl : 0 <= w * w * (p1 + p2) <= 170141183381241069226646338159194931200).
  { split; [apply Z.mul_nonneg_nonneg; lia|].
    change 170141183381241069226646338159194931200 with (4611686018427387904 * 36893488130239234050). apply Z.mul_le_mono_nonneg; lia. }
  generalize dependent (w * w). intros ww Hww Hwl. generalize dependent (ww * (p1 + p2)). intros wl Hwl.
  assert (Habs : 0 <= 2 * Z.abs (p5 - p6) <= 73786976260478468100) by lia.
  unfold C.all_in_i128. cbn [forallb].
  rewrite !in_i128_range by lia. rewrite !in_u128_bound by lia. cbn [andb].
  destruct ((0 <=? p3 + p4) && (p3 + p4 <=? p1 + p2) && (2 * Z.abs (p5 - p6) <=? Z.sqrt wl)); [eexists; reflexivity|].
  apply Hrest. exact I.
Qed.

Lemma path_scan_fixed_total : forall ps w q,
  Forall cpt32 ps -> cpt32 q -> 0 <= w <= 2147483648 -> exists b, path_scan_fixed ps w q = C.Ret b.
Proof.
  induction ps as [|a ps IH]; intros w q Hps Hq Hw; [eexists; reflexivity|].
  destruct ps as [|b ps]; [eexists; reflexivity|].
  inversion Hps as [|? ? Ha Hps']; subst. inversion Hps' as [|? ? Hb _]; subst.
  destruct a as [ax ay], b as [bx by_], q as [qx qy]. unfold cpt32, i32 in *. cbn [fst snd] in *.
  assert (Hhw : 0 <= Z.quot w 2 <= 1073741824).
  { split; [apply Z.quot_pos; lia|]. apply Z.quot_le_upper_bound; lia. }
  rewrite path_scan_fixed_cons2. cbv zeta. unfold C.X, C.Y. cbn [fst snd].
  destruct (ax =? bx).
  - unfold C.all_in_int. cbn [forallb]. rewrite !in_int_bound by lia. cbn [andb].
    destruct (C.rect_contains _ _ _); [eexists; reflexivity|]. apply IH; [exact Hps' | exact Hq | exact Hw].
  - destruct (ay =? by_).
    + unfold C.all_in_int. cbn [forallb]. rewrite !in_int_bound by lia. cbn [andb].
      destruct (C.rect_contains _ _ _); [eexists; reflexivity|]. apply IH; [exact Hps' | exact Hq | exact Hw].
    + apply diag_total; try lia.
      intros _. apply IH; [exact Hps' | exact Hq | exact Hw].
Qed.

Lemma pt32_ok : forall p, pt32 p -> CP.pt_ok (cpt p).
Proof.
  intros [x y] [Hx Hy]. unfold CP.pt_ok, CP.coord_ok, cpt, i32 in *. cbn [px py CS.px CS.py fst snd] in *.
  change (2 ^ 62) with 4611686018427387904. lia.
Qed.

Lemma shape_contains_total : forall c s q,
  fx_contains c = true -> fx_pathdiag c = true -> shape_safe s -> pt32 q ->
  exists b, shape_contains c s q = IOk b.
Proof.
  intros c s q Hc Hp Hs Hq. unfold shape_contains, contains_res. destruct s as [a b|pts|pts w]; cbn [shape_c].
  - eexists; reflexivity.
  - rewrite Hc. destruct (CP.poly_contains_total (map cpt pts) (cpt q)) as [b Hb].
    + apply Forall_forall. intros p Hin. apply in_map_iff in Hin. destruct Hin as [p0 [<- Hin0]].
      apply pt32_ok. cbn [shape_safe] in Hs. rewrite Forall_forall in Hs. apply Hs. exact Hin0.
    + apply pt32_ok. exact Hq.
    + rewrite Hb. eexists; reflexivity.
  - rewrite Hp. destruct Hs as [Hpts [Hne Hw]]. unfold path_contains_fixed.
    rewrite in_int_bound by lia. cbn [negb].
    destruct (map cpt pts) as [|p0 r] eqn:E; [destruct pts; [contradiction | discriminate]|].
    rewrite <- E. destruct (path_scan_fixed_total (map cpt pts) w (cpt q)) as [b Hb].
    + apply Forall_forall. intros p Hin. apply in_map_iff in Hin. destruct Hin as [p1 [<- Hin1]].
      rewrite Forall_forall in Hpts. destruct (Hpts p1 Hin1) as [H1 H2]. destruct p1; split; assumption.
    + destruct Hq as [H1 H2]. destruct q; split; assumption.
    + exact Hw.
    + rewrite Hb. eexists; reflexivity.
Qed.


(* ---- s2.v ---- *)
Definition fine {A : Type} (r : ires A) : Prop := r <> IPanic /\ r <> INoModel.
Lemma fine_ok : forall (A : Type) (a : A), fine (IOk a).
Proof. intros; split; discriminate. Qed.
Lemma fine_err : forall (A : Type) e, fine (@IErr A e).
Proof. intros; split; discriminate. Qed.
Lemma fine_bind : forall (A B : Type) (x : ires A) (f : A -> ires B),
  fine x -> (forall a, x = IOk a -> fine (f a)) -> fine (ibind x f).
Proof.
  intros A B x f [H1 H2] Hf. destruct x as [a|e| |]; cbn [ibind]; [apply Hf; reflexivity | apply fine_err | contradiction | contradiction].
Qed.

Definition cfg_safe (c : cfg) : Prop :=
  cfg_ok c /\ fx_cap c = true /\ fx_contains c = true /\ fx_pathdiag c = true.

(** ranges of the GDSII element (the Rust types: i32 coordinates, fixed-size XY arrays) *)
Definition gpt32 (p : G.point) : Prop := i32 (G.px p) /\ i32 (G.py p).
Definition elem_in_range (e : G.element) : Prop :=
  match e with
  | G.EBoundary b => Forall gpt32 (G.b_xy b)
  | G.EBox b => Forall gpt32 (G.x_xy b) /\ List.length (G.x_xy b) = 5%nat
  | G.EPath p => Forall gpt32 (G.p_xy p) /\ (forall w, G.p_width p = Some w -> i32 w)
  | G.EText t => gpt32 (G.t_xy t)
  | G.EAref a => List.length (G.ar_xy a) = 3%nat
  | _ => True
  end.
Lemma i32b_i32 : forall z, G.i32b z = true -> i32 z.
Proof. intros z H. unfold G.i32b in H. apply andb_prop in H. destruct H as [H1 H2]. apply Z.leb_le in H1, H2. split; assumption. Qed.
Lemma point_okb_32 : forall p, G.point_okb p = true -> gpt32 p.
Proof. intros p H. unfold G.point_okb in H. apply andb_prop in H. destruct H. split; apply i32b_i32; assumption. Qed.
Lemma forallb_point_okb : forall l, forallb G.point_okb l = true -> Forall gpt32 l.
Proof. intros l H. apply Forall_forall. intros p Hp. apply point_okb_32. rewrite forallb_forall in H. apply H. exact Hp. Qed.
Ltac andbs H := repeat (let H1 := fresh H in apply andb_prop in H; destruct H as [H H1]).
Lemma element_okb_range : forall e, G.element_okb e = true -> elem_in_range e.
Proof.
  intros [b|p|r|a|t|n|b] H; cbn [G.element_okb elem_in_range] in *; try exact I.
  - unfold G.boundary_okb in H. andbs H. apply forallb_point_okb. assumption.
  - unfold G.path_okb in H. andbs H. split; [apply forallb_point_okb; assumption|].
    intros w Hw. match goal with Hx : G.opt_okb G.i32b (G.p_width p) = true |- _ => rewrite Hw in Hx; cbn in Hx; apply i32b_i32; exact Hx end.
  - unfold G.aref_okb in H. andbs H.
    match goal with Hx : (Z.of_nat (List.length (G.ar_xy a)) =? 3) = true |- _ => apply Z.eqb_eq in Hx; lia end.
  - unfold G.text_okb in H. andbs H. apply point_okb_32. assumption.
  - unfold G.box_okb in H. andbs H. split; [apply forallb_point_okb; assumption|].
    match goal with Hx : (Z.of_nat (List.length (G.x_xy b)) =? 5) = true |- _ => apply Z.eqb_eq in Hx; lia end.
Qed.

Lemma pt32_import : forall p, gpt32 p -> pt32 (import_point p).
Proof. intros [x y] H. exact H. Qed.
Lemma Forall_pt32_import : forall l, Forall gpt32 l -> Forall pt32 (map import_point l).
Proof. intros l H. induction H; cbn [map]; constructor; auto using pt32_import. Qed.

Definition elems_safe (elems : list element) : Prop := Forall (fun e => shape_safe (e_shape e)) elems.
Definition buckets_ok (b : list (Z * list nat)) (n : nat) : Prop :=
  forall ln ks, bucket_get b ln = Some ks -> Forall (fun k => (k < n)%nat) ks.

Lemma bucket_get_add : forall b n k m,
  bucket_get (bucket_add b n k) m =
  if m =? n then Some (match bucket_get b n with Some ks => ks ++ [k] | None => [k] end) else bucket_get b m.
Proof.
  induction b as [|[n' ks] b IH]; intros n k m; cbn [bucket_add bucket_get].
  - rewrite (Z.eqb_sym n m). reflexivity.
  - destruct (n' =? n) eqn:E.
    + apply Z.eqb_eq in E. subst n'. cbn [bucket_get]. rewrite (Z.eqb_sym n m). destruct (m =? n); reflexivity.
    + cbn [bucket_get]. rewrite IH. destruct (m =? n) eqn:Em.
      * apply Z.eqb_eq in Em. subst m. rewrite E. reflexivity.
      * reflexivity.
Qed.
Lemma buckets_ok_add : forall b n ln, buckets_ok b n -> buckets_ok (bucket_add b ln n) (S n).
Proof.
  intros b n ln H m ks Hg. rewrite bucket_get_add in Hg. destruct (m =? ln).
  - injection Hg as <-. destruct (bucket_get b ln) as [ks0|] eqn:E.
    + apply Forall_app. split; [eapply Forall_impl; [|apply (H ln ks0 E)]; intros; cbn in *; lia | constructor; [lia|constructor]].
    + constructor; [lia|constructor].
  - eapply Forall_impl; [|apply (H m ks Hg)]. intros; cbn in *; lia.
Qed.

Record p1_safe (s : pass1) : Prop := {
  ps_elems : elems_safe (p_elems s);
  ps_buckets : buckets_ok (p_buckets s) (List.length (p_elems s));
  ps_texts : Forall (fun t => gpt32 (G.t_xy t)) (p_texts s) }.

Lemma add_element_safe : forall s ly e,
  p1_safe s -> shape_safe (e_shape e) -> fine (add_element s (ly, e)) /\
  forall s', add_element s (ly, e) = IOk s' -> p1_safe s'.
Proof.
  intros s ly e [H1 H2 H3] He. unfold add_element. destruct (ly_get ly (e_layer e)) as [l|].
  - split; [apply fine_ok|]. intros s' H. injection H as <-. constructor; cbn.
    + apply Forall_app. split; [exact H1 | constructor; [exact He | constructor]].
    + rewrite app_length. cbn. rewrite Nat.add_1_r. apply buckets_ok_add. exact H2.
    + exact H3.
  - split; [apply fine_err | discriminate].
Qed.

Lemma removelast_Forall : forall (A : Type) (P : A -> Prop) l, Forall P l -> Forall P (removelast l).
Proof.
  intros A P l H. induction H as [|x l Hx Hl IH]; [constructor|]. cbn [removelast]. destruct l; [constructor|].
  constructor; assumption.
Qed.

Lemma import_boundary_safe : forall c ly b,
  fx_emptyxy c = true -> Forall gpt32 (G.b_xy b) ->
  fine (import_boundary c ly b) /\ forall ly' e, import_boundary c ly b = IOk (ly', e) -> shape_safe (e_shape e).
Proof.
  intros c ly b He Hr. unfold import_boundary. pose proof (Forall_pt32_import _ Hr) as Hpts.
  destruct (map import_point (G.b_xy b)) as [|p0 rest] eqn:E.
  - rewrite He. split; [apply fine_err | discriminate].
  - destruct (negb (pt_eqb p0 (last (p0 :: rest) p0))); [split; [apply fine_err | discriminate]|].
    pose proof (removelast_Forall _ _ _ Hpts) as Hrl.
    remember (removelast (p0 :: rest)) as pts' eqn:Epts'. clear Epts'.
    split; [apply fine_ok|]. intros ly' e H. unfold mk_element in H.
    destruct (get_or_insert ly (G.b_layer b) (G.b_datatype b)) as [[ly1 key] purp]. injection H as _ <-. cbn [e_shape].
    destruct pts' as [|a [|b0 [|c0 [|d [|x r]]]]]; try exact Hrl.
    destruct (rect_pattern a b0 c0 d); [|exact Hrl]. cbn [shape_safe].
    inversion Hrl as [|? ? Ha Hr1]; subst. inversion Hr1 as [|? ? _ Hr2]; subst. inversion Hr2 as [|? ? Hc _]; subst. split; assumption.
Qed.

Lemma import_box_safe : forall ly b,
  Forall gpt32 (G.x_xy b) -> List.length (G.x_xy b) = 5%nat ->
  fine (import_box ly b) /\ forall ly' e, import_box ly b = IOk (ly', e) -> shape_safe (e_shape e).
Proof.
  intros ly b Hr Hl. unfold import_box.
  destruct (G.x_xy b) as [|q0 [|q1 [|q2 [|q3 [|q4 [|x r]]]]]]; try discriminate.
  split; [apply fine_ok|]. intros ly' e H. unfold mk_element in H.
  destruct (get_or_insert ly (G.x_layer b) (G.x_boxtype b)) as [[ly1 key] purp]. injection H as _ <-. cbn [e_shape shape_safe].
  inversion Hr as [|? ? H0 Hr1]; subst. inversion Hr1 as [|? ? _ Hr2]; subst. inversion Hr2 as [|? ? H2 _]; subst.
  split; apply pt32_import; assumption.
Qed.

Lemma import_path_safe : forall c ly p,
  fx_emptyxy c = true -> fx_width c = true -> Forall gpt32 (G.p_xy p) -> (forall w, G.p_width p = Some w -> i32 w) ->
  fine (import_path c ly p) /\ forall ly' e, import_path c ly p = IOk (ly', e) -> shape_safe (e_shape e).
Proof.
  intros c ly p He Hw Hr Hwd. unfold import_path. pose proof (Forall_pt32_import _ Hr) as Hpts. rewrite He, Hw.
  destruct (map import_point (G.p_xy p)) as [|p0 rest] eqn:E.
  - split; [apply fine_err | discriminate].
  - destruct (G.p_width p) as [w|] eqn:Ew; [|split; [apply fine_err | discriminate]].
    split; [apply fine_ok|]. intros ly' e H. unfold mk_element in H.
    destruct (get_or_insert ly (G.p_layer p) (G.p_datatype p)) as [[ly1 key] purp]. injection H as _ <-. cbn [e_shape shape_safe].
    split; [exact Hpts|]. split; [discriminate|]. specialize (Hwd w eq_refl). unfold i32 in Hwd.
    destruct (Z.ltb_spec w 0); lia.
Qed.

Lemma import_instance_fine : forall c cm r, fine (import_instance c cm r).
Proof.
  intros c cm r. unfold import_instance. destruct (cm_get cm (G.sr_name r)); [|apply fine_err].
  destruct (G.sr_strans r) as [st|]; [|apply fine_ok].
  destruct (G.st_abs_mag st || G.st_abs_angle st); [apply fine_err|].
  destruct (fx_mag c && _); [apply fine_err | apply fine_ok].
Qed.

Lemma import_array_fine : forall c cm a,
  fx_dims c = true -> fx_deg c = true -> fx_lattice c = true -> fx_cap c = true -> List.length (G.ar_xy a) = 3%nat ->
  fine (import_instance_array c cm a).
Proof.
  intros c cm a Hd Hg Hl Hc Hlen. unfold import_instance_array. destruct (cm_get cm (G.ar_name a)); [|apply fine_err].
  destruct (G.ar_xy a) as [|q0 [|q1 [|q2 [|x r]]]]; try discriminate.
  rewrite Hd, Hl. cbn [andb].
  destruct ((G.ar_cols a <=? 0) || (G.ar_rows a <=? 0)) eqn:E; [apply fine_err|].
  apply orb_false_elim in E. destruct E as [E1 E2]. apply Z.leb_gt in E1, E2.
  replace ((G.ar_cols a =? 0) || (G.ar_rows a =? 0)) with false by (symmetry; apply orb_false_intro; apply Z.eqb_neq; lia).
  apply fine_bind.
  - destruct (G.ar_strans a) as [st|]; [|apply fine_ok].
    destruct (G.st_abs_mag st || G.st_abs_angle st); [apply fine_err|]. destruct (G.st_mag st); [apply fine_err|].
    rewrite Hg. destruct (G.st_angle st); apply fine_ok.
  - intros ra _. apply fine_bind; [|intros; apply fine_ok].
    unfold array_capacity. rewrite Hc. destruct ((G.ar_rows a <? 0) || (G.ar_cols a <? 0)); [apply fine_err | apply fine_ok].
Qed.

Lemma pass1_step_safe : forall c cm s e,
  cfg_safe c -> elem_in_range e -> p1_safe s ->
  fine (pass1_step c cm s e) /\ forall s', pass1_step c cm s e = IOk s' -> p1_safe s'.
Proof.
  intros c cm s e [(Hdims & Hdeg & Hlat & Hempty & Hmag & Hwidth) [Hcap [Hcont Hpd]]] Hr Hs.
  destruct e as [b|p|r|a|t|n|b]; cbn [pass1_step elem_in_range] in *.
  - destruct (import_boundary_safe c (p_layers s) b Hempty Hr) as [Hf Hsafe].
    destruct (import_boundary c (p_layers s) b) as [[ly e]| | |] eqn:E; cbn [ibind];
      try (split; [apply fine_err | intros ? HH; discriminate HH]); try (exfalso; apply (proj1 Hf); reflexivity); try (exfalso; apply (proj2 Hf); reflexivity).
    apply add_element_safe; [exact Hs | eapply Hsafe; reflexivity].
  - destruct Hr as [Hr Hw]. destruct (import_path_safe c (p_layers s) p Hempty Hwidth Hr Hw) as [Hf Hsafe].
    destruct (import_path c (p_layers s) p) as [[ly e]| | |] eqn:E; cbn [ibind];
      try (split; [apply fine_err | intros ? HH; discriminate HH]); try (exfalso; apply (proj1 Hf); reflexivity); try (exfalso; apply (proj2 Hf); reflexivity).
    apply add_element_safe; [exact Hs | eapply Hsafe; reflexivity].
  - pose proof (import_instance_fine c cm r) as Hf.
    destruct (import_instance c cm r) as [i| | |]; cbn [ibind]; try (split; [apply fine_err | intros ? HH; discriminate HH]); try (exfalso; apply (proj1 Hf); reflexivity); try (exfalso; apply (proj2 Hf); reflexivity).
    split; [apply fine_ok|]. intros s' H. injection H as <-. destruct Hs. constructor; assumption.
  - pose proof (import_array_fine c cm a Hdims Hdeg Hlat Hcap Hr) as Hf.
    destruct (import_instance_array c cm a) as [oi| | |]; cbn [ibind]; try (split; [apply fine_err | intros ? HH; discriminate HH]); try (exfalso; apply (proj1 Hf); reflexivity); try (exfalso; apply (proj2 Hf); reflexivity).
    split; [apply fine_ok|]. intros s' H. injection H as <-. destruct Hs. constructor; assumption.
  - split; [apply fine_ok|]. intros s' H. injection H as <-. destruct Hs as [H1 H2 H3]. constructor; cbn; try assumption.
    apply Forall_app. split; [exact H3 | constructor; [exact Hr | constructor]].
  - split; [apply fine_ok|]. intros s' H. injection H as <-. exact Hs.
  - destruct Hr as [Hr Hl]. destruct (import_box_safe (p_layers s) b Hr Hl) as [Hf Hsafe].
    destruct (import_box (p_layers s) b) as [[ly e]| | |] eqn:E; cbn [ibind];
      try (split; [apply fine_err | intros ? HH; discriminate HH]); try (exfalso; apply (proj1 Hf); reflexivity); try (exfalso; apply (proj2 Hf); reflexivity).
    apply add_element_safe; [exact Hs | eapply Hsafe; reflexivity].
Qed.

Lemma pass1_all_safe : forall c cm es s,
  cfg_safe c -> Forall elem_in_range es -> p1_safe s ->
  fine (pass1_all c cm s es) /\ forall s', pass1_all c cm s es = IOk s' -> p1_safe s'.
Proof.
  intros c cm es. induction es as [|e es IH]; intros s Hc Hr Hs; cbn [pass1_all].
  - split; [apply fine_ok|]. intros s' H. injection H as <-. exact Hs.
  - inversion Hr as [|? ? He Hes]; subst. destruct (pass1_step_safe c cm s e Hc He Hs) as [Hf Hn].
    destruct (pass1_step c cm s e) as [s1| | |] eqn:E; cbn [ibind]; try (split; [apply fine_err | intros ? HH; discriminate HH]); try (exfalso; apply (proj1 Hf); reflexivity); try (exfalso; apply (proj2 Hf); reflexivity).
    apply IH; [exact Hc | exact Hes | apply Hn; reflexivity].
Qed.

(** pass 2 *)
Lemma list_set_safe : forall elems k e, elems_safe elems -> shape_safe (e_shape e) -> elems_safe (list_set elems k e).
Proof. intros. apply Forall_list_set; assumption. Qed.

Lemma label_bucket_safe : forall c name loc keys elems hit,
  fx_contains c = true -> fx_pathdiag c = true -> pt32 loc -> elems_safe elems ->
  Forall (fun k => (k < List.length elems)%nat) keys ->
  fine (label_bucket c name loc elems hit keys) /\
  forall elems' hit', label_bucket c name loc elems hit keys = IOk (elems', hit') ->
    elems_safe elems' /\ List.length elems' = List.length elems.
Proof.
  intros c name loc keys. induction keys as [|k keys IH]; intros elems hit Hc Hp Hloc Hs Hk; cbn [label_bucket].
  - split; [apply fine_ok|]. intros el h H. injection H as <- _. split; [exact Hs | reflexivity].
  - inversion Hk as [|? ? Hk0 Hks]; subst.
    destruct (nth_error elems k) as [e|] eqn:En; [|exfalso; apply nth_error_None in En; lia].
    assert (He : shape_safe (e_shape e)).
    { unfold elems_safe in Hs. rewrite Forall_forall in Hs. apply Hs. eapply nth_error_In; exact En. }
    destruct (shape_contains_total c (e_shape e) loc Hc Hp He Hloc) as [b Hb]. rewrite Hb. cbn [ibind].
    destruct b.
    + set (e' := match e_net e with Some _ => e | None => mkelem (Some name) (e_layer e) (e_purpose e) (e_shape e) end).
      assert (He' : shape_safe (e_shape e')) by (subst e'; destruct (e_net e); exact He).
      destruct (IH (list_set elems k e') true Hc Hp Hloc (list_set_safe _ _ _ Hs He')) as [Hf Hn].
      { rewrite list_set_length. exact Hks. }
      split; [exact Hf|]. intros el h H. destruct (Hn el h H) as [H1 H2]. split; [exact H1 | rewrite H2; apply list_set_length].
    + apply IH; assumption.
Qed.

Lemma pass2_fine : forall c buckets texts elems annots,
  fx_contains c = true -> fx_pathdiag c = true -> elems_safe elems -> buckets_ok buckets (List.length elems) ->
  Forall (fun t => gpt32 (G.t_xy t)) texts ->
  fine (pass2 c buckets elems annots texts).
Proof.
  intros c buckets. induction texts as [|t texts IH]; intros elems annots Hc Hp Hs Hb Ht; cbn [pass2]; [apply fine_ok|].
  inversion Ht as [|? ? Ht0 Hts]; subst.
  destruct (bucket_get buckets (G.t_layer t)) as [keys|] eqn:Eb; [|apply IH; assumption].
  destruct (label_bucket_safe c (lower (str_of_bytes (G.t_string t))) (import_point (G.t_xy t)) keys elems false Hc Hp
                              (pt32_import _ Ht0) Hs (Hb _ _ Eb)) as [Hf Hn].
  apply fine_bind; [exact Hf|]. intros [el h] Hl. destruct (Hn el h Hl) as [H1 H2]. cbn [fst snd].
  destruct h; apply IH; try assumption; rewrite H2; exact Hb.
Qed.

Lemma import_layout_fine : forall c cm ly s,
  cfg_safe c -> Forall elem_in_range (G.s_elems s) -> fine (import_layout c cm ly s).
Proof.
  intros c cm ly s Hc Hr. unfold import_layout.
  destruct (pass1_all_safe c cm (G.s_elems s) (mkp1 ly [] [] [] []) Hc Hr) as [Hf Hn].
  { constructor; cbn; [constructor | intros ln ks H; discriminate | constructor]. }
  apply fine_bind; [exact Hf|]. intros p Hp. destruct (Hn p Hp) as [H1 H2 H3].
  destruct Hc as [_ [_ [Hcont Hpd]]].
  apply fine_bind; [apply pass2_fine; assumption | intros; apply fine_ok].
Qed.

Lemma import_structs_fine : forall c structs order st,
  cfg_safe c -> Forall (fun s => Forall elem_in_range (G.s_elems s)) structs ->
  Forall (fun i => (N.to_nat i < List.length structs)%nat) order ->
  fine (import_structs c structs st order).
Proof.
  intros c structs order. induction order as [|i order IH]; intros st Hc Hr Ho; cbn [import_structs]; [apply fine_ok|].
  inversion Ho as [|? ? Hi Hos]; subst.
  destruct (nth_error structs (N.to_nat i)) as [s|] eqn:En; [|exfalso; apply nth_error_None in En; lia].
  apply fine_bind; [|intros; apply IH; assumption].
  unfold import_and_add. destruct (cm_get (is_map st) (G.s_name s)); [apply fine_ok|].
  apply fine_bind; [|intros; apply fine_ok]. apply import_layout_fine; [exact Hc|].
  rewrite Forall_forall in Hr. apply Hr. eapply nth_error_In; exact En.
Qed.


(* ---- s3.v ---- *)
(** * the orderer neither panics nor runs out of depth, and returns struct indices only *)
Lemma name_index_from_le : forall structs nm k dflt n,
  (dflt <= n)%N -> (k + N.of_nat (List.length structs) <= n)%N -> (name_index_from structs nm k dflt <= n)%N.
Proof.
  induction structs as [|s r IH]; intros nm k dflt n Hd Hk; cbn [name_index_from]; [exact Hd|].
  apply IH.
  - destruct (zlist_eqb (G.s_name s) nm); [|exact Hd]. cbn [List.length] in Hk. lia.
  - cbn [List.length] in Hk. lia.
Qed.
Lemma name_index_le : forall structs nm, (name_index structs nm <= N.of_nat (List.length structs))%N.
Proof. intros. unfold name_index. apply name_index_from_le; lia. Qed.

Lemma gds_deps_le : forall structs i d, In d (gds_deps structs i) -> (d <= N.of_nat (List.length structs))%N.
Proof.
  intros structs i d H. unfold gds_deps in H. destruct (nth_error structs (N.to_nat i)); [|destruct H].
  apply in_map_iff in H. destruct H as [nm [<- _]]. apply name_index_le.
Qed.
Lemma gds_reach_le : forall structs r x,
  DS.reach (gds_deps structs) r x -> (r <= N.of_nat (List.length structs))%N -> (x <= N.of_nat (List.length structs))%N.
Proof.
  intros structs r x H. induction H as [x | x d y Hd _ IH]; intro Hr; [exact Hr|].
  apply IH. eapply gds_deps_le; exact Hd.
Qed.
Lemma gds_items_lt : forall structs r, In r (gds_items structs) -> (r < N.of_nat (List.length structs))%N.
Proof.
  intros structs r H. unfold gds_items in H. apply in_map_iff in H. destruct H as [k [<- Hk]]. apply in_seq in Hk. lia.
Qed.

Lemma gds_order_fine : forall structs,
  gds_order structs <> D.Panic /\ gds_order structs <> D.OutOfFuel /\
  forall order, gds_order structs = D.Ok order -> Forall (fun i => (N.to_nat i < List.length structs)%nat) order.
Proof.
  intro structs. unfold gds_order. set (n := List.length structs).
  split; [apply DP.order_checked_no_panic|]. split.
  - apply (DP.order_checked_bounded _ _ _ (map N.of_nat (seq 0 (S n)))).
    + intros x [r [Hr Hx]]. pose proof (gds_items_lt _ _ Hr) as Hlt.
      assert (Hle : (x <= N.of_nat n)%N) by (eapply gds_reach_le; [exact Hx | subst n; lia]).
      apply in_map_iff. exists (N.to_nat x). split; [apply N2Nat.id | apply in_seq; lia].
    + rewrite map_length, seq_length. lia.
  - intros order H. destruct (DP.order_checked_sound _ _ _ _ _ H) as [[_ [Hin _]] [_ Hnd]].
    apply Forall_forall. intros x Hx. apply Hin in Hx. destruct Hx as [r [Hr Hreach]].
    assert (Hgoal : (x < N.of_nat n)%N).
    { pose proof (gds_items_lt _ _ Hr) as Hlt. fold n in Hlt.
      assert (Hrr : DS.reachable (gds_deps structs) (gds_items structs) r) by (exists r; split; [exact Hr | apply DS.reach_refl]).
      clear Hr. induction Hreach as [x | x d y Hd Hdy IH]; [exact Hlt|].
      apply IH.
      - destruct (gds_defined structs d) eqn:Ed; [unfold gds_defined in Ed; apply N.ltb_lt in Ed; exact Ed|].
        exfalso. apply Hnd. exists x, d. split; [exact Hrr|]. split; [exact Hd | exact Ed].
      - destruct Hrr as [r0 [Hr0 Hx0]]. exists r0. split; [exact Hr0|].
        clear - Hx0 Hd. induction Hx0 as [x | x d0 y0 Hd0 _ IH0]; [eapply DS.reach_step; [exact Hd | apply DS.reach_refl]|].
        eapply DS.reach_step; [exact Hd0 | apply IH0; exact Hd]. }
    lia.
Qed.

Lemma lib_ok_ranges : forall g, G.lib_ok g -> Forall (fun s => Forall elem_in_range (G.s_elems s)) (G.l_structs g).
Proof.
  intros g H. unfold G.lib_ok, G.lib_okb in H. andbs H.
  apply Forall_forall. intros s Hs.
  match goal with Hx : forallb G.struct_okb (G.l_structs g) = true |- _ => rewrite forallb_forall in Hx; specialize (Hx s Hs); unfold G.struct_okb in Hx; andbs Hx end.
  apply Forall_forall. intros e He. apply element_okb_range.
  match goal with Hx : forallb G.element_okb (G.s_elems s) = true |- _ => rewrite forallb_forall in Hx; apply Hx; exact He end.
Qed.

Theorem import_lib_fine : forall c ly0 g, cfg_safe c -> G.lib_ok g -> fine (import_lib c ly0 g).
Proof.
  intros c ly0 g Hc Hok. unfold import_lib. apply fine_bind.
  - unfold import_units. destruct (fx_pico c && _); [apply fine_ok|]. destruct (near _ _ _); [apply fine_ok|].
    destruct (near _ _ _); [apply fine_ok|]. destruct (near _ _ _); [apply fine_ok | apply fine_err].
  - intros u _. destruct (gds_order_fine (G.l_structs g)) as [Hp [Hf Hidx]].
    destruct (gds_order (G.l_structs g)) as [order| | |] eqn:Eo; [|apply fine_err | contradiction | contradiction].
    apply fine_bind; [|intros; apply fine_ok].
    apply import_structs_fine; [exact Hc | apply lib_ok_ranges; exact Hok | apply Hidx; reflexivity].
Qed.

Lemma cfg_fixed_safe : cfg_safe cfg_fixed.
Proof. repeat split. Qed.

Theorem no_panic_fixed : forall g, G.lib_ok g -> import_lib cfg_fixed [] g <> IPanic.
Proof. intros g H. exact (proj1 (import_lib_fine cfg_fixed [] g cfg_fixed_safe H)). Qed.

Theorem error_cases_fixed : forall g, G.lib_ok g -> S.malformed g -> exists e, import_lib cfg_fixed [] g = IErr e.
Proof.
  intros g Hok Hm. destruct (import_lib_fine cfg_fixed [] g cfg_fixed_safe Hok) as [Hp Hn].
  destruct (import_lib cfg_fixed [] g) as [L|e| |] eqn:E; [|exists e; reflexivity | contradiction | contradiction].
  exfalso. exact (import_ok_not_malformed cfg_fixed [] g L cfg_fixed_ok (Forall_nil _) E Hm).
Qed.

(** the outcome is one of two: an error, or a library with the property (1) *)
Theorem outcome_fixed : forall g, G.lib_ok g ->
  (exists e, import_lib cfg_fixed [] g = IErr e) \/ (exists L, import_lib cfg_fixed [] g = IOk L /\ ~ S.malformed g).
Proof.
  intros g Hok. destruct (import_lib_fine cfg_fixed [] g cfg_fixed_safe Hok) as [Hp Hn].
  destruct (import_lib cfg_fixed [] g) as [L|e| |] eqn:E; [right | left; exists e; reflexivity | contradiction | contradiction].
  exists L. split; [reflexivity|]. exact (import_ok_not_malformed cfg_fixed [] g L cfg_fixed_ok (Forall_nil _) E).
Qed.

(* ---- n1.v ---- *)
(** * The importer's label test against the specification's three-valued "inside" *)
Definition tri_agrees (t : S.tri) (b : bool) : Prop :=
  match t with S.In3 => b = true | S.Out3 => b = false | S.Unk3 => True end.

Lemma on_boundaryb_iff : forall P q, S.on_boundaryb P q = true <-> CS.on_boundary P q.
Proof.
  intros P q. unfold S.on_boundaryb, CS.on_boundary. rewrite existsb_exists. split.
  - intros [e [He Hs]]. exists e. split; [exact He | apply CP.on_segb_spec; exact Hs].
  - intros [e [He Hs]]. exists e. split; [exact He | apply CP.on_segb_spec; exact Hs].
Qed.

Lemma poly_in_nz : forall P q,
  (S.poly_in P q = S.In3 -> CS.in_region_nz P q) /\ (S.poly_in P q = S.Out3 -> ~ CS.in_region_nz P q).
Proof.
  intros P q. unfold S.poly_in, CS.in_region_nz.
  destruct (S.on_boundaryb P q) eqn:Eb.
  - split; [intros _; left; apply on_boundaryb_iff; exact Eb | discriminate].
  - assert (Hnb : ~ CS.on_boundary P q) by (intro H; apply on_boundaryb_iff in H; congruence).
    destruct (Z.odd (CS.crossings P q)) eqn:Eo; destruct (CS.winding P q =? 0) eqn:Ew; cbn [negb Bool.eqb]; split; try discriminate.
    + intros _. right. apply Z.eqb_neq. exact Ew.
    + intros _ [H | H]; [exact (Hnb H) | apply Z.eqb_eq in Ew; exact (H Ew)].
Qed.

(** polygons: `Polygon::contains` as repaired for C13 *)
Lemma poly_label_sound : forall P q b, C.poly_contains P q = C.Ret b -> tri_agrees (S.poly_in P q) b.
Proof.
  intros P q b H. pose proof (CP.poly_contains_nz P q b H) as Hnz. destruct (poly_in_nz P q) as [H1 H2].
  destruct (S.poly_in P q) eqn:E; cbn [tri_agrees]; [apply Hnz; apply H1; reflexivity | | exact I].
  destruct b; [|reflexivity]. exfalso. apply (H2 eq_refl). apply Hnz. reflexivity.
Qed.

(** rectangles: a boundary imported as `Rect` answers as its four-vertex polygon would *)
Lemma rect_label_sound : forall a b c d q,
  S.rect4 a b c d = true -> tri_agrees (S.poly_in [a; b; c; d] q) (C.rect_contains a c q).
Proof.
  intros a b c d q H. apply rect4_iff in H.
  assert (Hbox : CS.in_region_nz [a; b; c; d] q <-> CS.in_box a c q).
  { destruct a as [ax ay], b as [bx by_], c as [cx cy], d as [dx dy]. cbn [fst snd] in H.
    destruct H as [(H1 & H2 & H3 & H4) | (H1 & H2 & H3 & H4)].
    - (* a, (ax, cy), c, (cx, ay): the reversed polygon, started at a *)
      replace bx with ax by exact H1. replace by_ with cy by (symmetry; exact H2).
      replace dx with cx by exact H3. replace dy with ay by (symmetry; exact H4).
      exact (proj2 (CP.rect_poly_all_variants (ax, ay) (cx, cy) [(ax, cy); (cx, cy); (cx, ay)] [(ax, ay)] q (or_intror eq_refl))).
    - replace by_ with ay by exact H1. replace bx with cx by (symmetry; exact H2).
      replace dy with cy by exact H3. replace dx with ax by exact H4.
      exact (proj2 (CP.rect_poly_all_variants (ax, ay) (cx, cy) [] [(ax, ay); (cx, ay); (cx, cy); (ax, cy)] q (or_introl eq_refl))). }
  destruct (poly_in_nz [a; b; c; d] q) as [H1 H2].
  destruct (S.poly_in [a; b; c; d] q) eqn:E; cbn [tri_agrees]; [| | exact I].
  - apply CP.rect_contains_spec. apply Hbox. apply H1. reflexivity.
  - destruct (C.rect_contains a c q) eqn:Er; [|reflexivity]. exfalso. apply (H2 eq_refl). apply Hbox. apply CP.rect_contains_spec. exact Er.
Qed.

(** both, through the importer's [shape_contains] and [shape_rel] *)
Theorem label_test_sound_partial : forall c sh gm q b,
  fx_contains c = true -> shape_rel sh gm -> (forall pts w, sh <> Path pts w) ->
  shape_contains c sh q = IOk b -> tri_agrees (S.label_in gm (S.rpt q)) b.
Proof.
  intros c sh gm q b Hc Hrel Hnp H. unfold shape_contains, contains_res in H.
  destruct Hrel as [pts | a b0 c0 d Hr | pts w]; cbn [shape_c S.label_in] in *.
  - rewrite Hc in H. destruct (C.poly_contains (map cpt pts) (cpt q)) as [b'| |] eqn:E; try discriminate. injection H as <-.
    replace (map S.rpt pts) with (map cpt pts) by (apply map_ext; intros [x y]; reflexivity).
    replace (S.rpt q) with (cpt q) by (destruct q; reflexivity). apply poly_label_sound. exact E.
  - injection H as <-. replace (S.rpt q) with (cpt q) by (destruct q; reflexivity).
    replace (cpt a) with (S.rpt a) by (destruct a; reflexivity). replace (cpt c0) with (S.rpt c0) by (destruct c0; reflexivity).
    apply rect_label_sound. exact Hr.
  - exfalso. exact (Hnp pts w eq_refl).
Qed.
