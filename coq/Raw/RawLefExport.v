(** Model of layout21raw/src/lef.rs [LefExporter] (raw -> LEF), function by function:
    [export] / [export_lib], [export_units] (with lef21 [LefDbuPerMicron::try_new]), [export_abstract],
    [export_port], [export_layer_shapes], [export_layer] ([Layers::get_name]), [export_shape], [export_point].
    No proofs in this file.

    Raw side: Raw/RawData.v ([library], [cell], [abstract], [absport], [shapemap], [layers]).
    LEF side: the types of property C16 (Raw/RawLefTypes.v [llib], [lmacro], [lpin], [llayergeoms], [lgeom],
    [lshape], [lpoint]; decimals Raw/RawLefDec.v), referred to with the prefix [T.]; a [lef21::LefLibrary] is
    represented by the fields the exporter writes -- UNITS DATABASE MICRONS ([xl_dbu]) and the macros -- every
    other field keeps its `Default` value (the harness checks that: "defaults_ok"), in particular a macro has
    NO SIZE ([m_size] = None), a pin no direction, a LAYER statement no WIDTH / SPACING / vias.

    Hash maps.  `Abstract.blockages` and `AbstractPort.shapes` are `HashMap<LayerKey, Vec<Shape>>`; the
    exporter ITERATES both.  As in Raw/RawProto.v [to_proto_with], the order in which a map's entries are
    visited is an explicit argument [ord : RawProto.oracle]; the code of the tree visits them through
    `crate::sorted_by_layer` = [RawProto.sorted_by_layer] (ascending layer key), which is the instance
    [export_gen].  The code before /repo commit 4604246 iterated the maps directly: [ord := fun m => m].

    Decimals.  [export_point] is `LefDecimal::from(point.x)`: rust_decimal's `From<isize>` = `from_i64`, the
    integer itself with scale 0 and the sign as a flag (exact for every 64-bit integer, zero is +0).  The code
    as found does NOT convert raw units to microns (LEF distances are microns): a raw coordinate n is written
    as the LEF number n, whatever the library's units, while UNITS DATABASE MICRONS is set from the units.
    The variant flag [xv_scaled] describes the repair proposed in work/lefx/fix-lef-export-microns.patch:
    `LefDecimal::new(n, digits)` = n / 10^digits microns with digits = 0, 3, 4, 6 for Micro, Nano, Angstrom,
    Pico (`Decimal::new(i64, u32)`: magnitude |n|, that scale, negative flag iff n < 0).  [original] is the
    code as found.

    Not modelled: the error-context stack and the message text (errors are compared by kind), locks
    (`cell.read()?`, `layers.read()?` succeed), `Int = isize` is 64 bit (a type invariant of the inputs). *)
From Coq Require Import ZArith Bool List String.
From L21 Require Import Base.Outcome Raw.RawData Raw.RawLefDec.
From L21 Require Raw.RawLefTypes Raw.RawProto.
Import ListNotations.
Local Open Scope list_scope.
Local Open Scope Z_scope.
Local Open Scope outcome_scope.

Module T := Raw.RawLefTypes.

Inductive xerr : Type :=
| XUnits        (* "Internal error: invalid units for LEF export" *)
| XNoName       (* "Invalid un-named layer for LEF export" *)
| XOther.       (* never produced by the model *)

Definition res (A : Type) : Type := outcome xerr A.

Record xvariant : Type := mkxvariant { xv_scaled : bool }.
Definition original : xvariant := mkxvariant false.
Definition repaired : xvariant := mkxvariant true.

(** the exported [lef21::LefLibrary] *)
Record xlef : Type := mkxlef {
  xl_dbu : Z;                 (* units = Some(LefUnits { database_microns: Some(LefDbuPerMicron(dbu)), ..default }) *)
  xl_lib : T.llib }.          (* names_case_sensitive = None; macros *)

(** `for x in l { v.push(f(x)?) }` and `iter().map(f).collect::<Result<Vec<_>,_>>()` *)
Fixpoint mapM {A B : Type} (f : A -> res B) (l : list A) : res (list B) :=
  match l with
  | [] => Ok []
  | x :: r => let? y := f x in let? ys := mapM f r in Ok (y :: ys)
  end.

(** * rust_decimal constructors *)
(** `Decimal::new(num: i64, scale: u32)` (scale <= 28) and `Decimal::from(isize)` (scale 0) *)
Definition dec_new (num : Z) (scale : nat) : dec := mkdec (num <? 0) (Z.abs num) scale.
Definition dec_of_int (n : Z) : dec := dec_new n 0.

(** * lef21: `LefDbuPerMicron::try_new(x)` *)
Definition dbu_allowed : list Z := [100; 200; 400; 800; 1000; 2000; 4000; 8000; 10000; 20000].
Definition dbu_try_new (x : dec) : option Z :=
  if negb (dec_fract_is_zero x) then None                            (* "DBU per Micron must be an integer" *)
  else let v := dec_mantissa (dec_trunc x) in
       if existsb (Z.eqb v) dbu_allowed then Some v else None.       (* "Invalid DBU per Micron value" *)

(** * lef.rs: LefExporter *)
(** [export_units]: raw units per micron; only 1000 and 10000 are legal DATABASE MICRONS values *)
Definition units_scale (u : units) : Z :=
  match u with Micro => 1 | Nano => 1000 | Angstrom => 10000 | Pico => 1000000 end.
Definition export_units (u : units) : res Z :=
  match dbu_try_new (dec_new (units_scale u) 0) with
  | Some v => Ok v
  | None => Err XUnits
  end.

(** decimal digits of one raw unit in microns (the proposed repair only) *)
Definition units_digits (u : units) : nat :=
  match u with Micro => 0%nat | Nano => 3%nat | Angstrom => 4%nat | Pico => 6%nat end.

(** one coordinate *)
Definition export_dist (v : xvariant) (u : units) (n : Z) : dec :=
  if xv_scaled v then dec_new n (units_digits u) else dec_of_int n.

(** [export_point] (never fails) *)
Definition export_point (v : xvariant) (u : units) (p : point) : T.lpoint :=
  T.mklpoint (export_dist v u (px p)) (export_dist v u (py p)).

(** [export_shape]: `Shape::Path { .. } => unimplemented!("LefExporter::PATH")` *)
Definition export_shape (v : xvariant) (u : units) (s : shape) : res T.lgeom :=
  match s with
  | Rect p0 p1 => Ok (T.LShape (T.LRect (export_point v u p0) (export_point v u p1)))
  | Polygon pts => Ok (T.LShape (T.LPolygon (map (export_point v u) pts)))
  | Path _ _ => Panic
  end.

(** [export_layer]: `layers.get_name(layerkey)` is None for a key in no slot and for a layer without a name *)
Definition get_name (ly : layers) (k : nat) : option string :=
  match ly_get ly k with Some l => l_name l | None => None end.
Definition export_layer (ly : layers) (k : nat) : res string :=
  match get_name ly k with Some nm => Ok nm | None => Err XNoName end.

(** [export_layer_shapes]: the layer name first, then the shapes in order *)
Definition export_layer_shapes (v : xvariant) (u : units) (ly : layers) (e : nat * list shape) : res T.llayergeoms :=
  let? nm := export_layer ly (fst e) in
  let? gs := mapM (export_shape v u) (snd e) in
  Ok (T.mkllg nm gs 0 false None None).

(** [export_port]: one LefPin with exactly one LefPort *)
Definition export_port (v : xvariant) (u : units) (ly : layers) (ord : RawProto.oracle) (p : absport) : res T.lpin :=
  let? lgs := mapM (export_layer_shapes v u ly) (ord (ap_shapes p)) in
  Ok (T.mklpin (ap_net p) [lgs]).

(** [export_abstract]: the ports in order, then the blockages *)
Definition export_abstract (v : xvariant) (u : units) (ly : layers) (ord : RawProto.oracle) (a : abstract) : res T.lmacro :=
  let? pins := mapM (export_port v u ly ord) (ab_ports a) in
  let? obs := mapM (export_layer_shapes v u ly) (ord (ab_blockages a)) in
  Ok (T.mklmacro (ab_name a) None pins obs).

(** [export_lib]: `for cell in cells { if let Some(a) = cell.abs { macros.push(export_abstract(a)?) } }`:
    a cell without abstract is skipped, a cell's layout (elements, instances) is never looked at *)
Fixpoint export_cells (v : xvariant) (u : units) (ly : layers) (ord : RawProto.oracle) (cs : list cell) : res (list T.lmacro) :=
  match cs with
  | [] => Ok []
  | c :: r =>
    match c_abs c with
    | Some a =>
      let? m := export_abstract v u ly ord a in
      let? ms := export_cells v u ly ord r in
      Ok (m :: ms)
    | None => export_cells v u ly ord r
    end
  end.

Definition export_with (v : xvariant) (ord : RawProto.oracle) (L : library) : res xlef :=
  let? dbu := export_units (lib_units L) in
  let? ms := export_cells v (lib_units L) (lib_layers L) ord (lib_cells L) in
  Ok (mkxlef dbu (T.mkllib false ms)).

(** [LefExporter::export(lib)] *)
Definition export_gen (v : xvariant) : library -> res xlef := export_with v RawProto.sorted_by_layer.
Definition export : library -> res xlef := export_gen repaired.
Definition export_orig : library -> res xlef := export_gen original.

(** * The library [LefImporter::import] returns, in the data model of Raw/RawData.v
    (the model of the importer, Raw/RawLef.v, has its own reduced raw types: Raw/RawLefTypes.v).
    `Cell::from(abs)`: the abstract's name, no layout; the library is named "", its units are Angstrom;
    `Layer::new(num, name)` / `Layer::from_num(num)` have no purposes. *)
Definition raw_point_of (p : T.point) : point := mkpt (fst p) (snd p).
Definition raw_shape_of (s : T.shape) : shape :=
  match s with
  | T.SRect a b => Rect (raw_point_of a) (raw_point_of b)
  | T.SPolygon l => Polygon (map raw_point_of l)
  | T.SPath w l => Path (map raw_point_of l) w
  end.
Definition raw_smap_of (m : T.smap) : shapemap := map (fun e => (fst e, map raw_shape_of (snd e))) m.
Definition raw_port_of (p : T.aport) : absport := mkabsport (T.ap_net p) (raw_smap_of (T.ap_shapes p)).
Definition raw_abstract_of (a : T.abstract) : abstract :=
  mkabstract (T.a_name a) (map raw_point_of (T.a_outline a)) (map raw_port_of (T.a_ports a)) (raw_smap_of (T.a_blockages a)).
Definition raw_layer_of (l : T.layer) : layer := mklayer (T.ly_num l) (T.ly_name l) [].
Definition raw_lib_of_import (r : list T.abstract * T.layers) : library :=
  mklib ""%string Angstrom (map raw_layer_of (T.l_slots (snd r)))
        (map (fun a => mkcell (T.a_name a) (Some (raw_abstract_of a)) None) (fst r)).
