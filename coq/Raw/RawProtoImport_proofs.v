(** Lemmas for property C14, part 2: the importer keeps the content.
    [import_content]: whenever [from_proto ly0 P] returns a library, that library says exactly
    what the message says ([raw_content L = proto_content P]): every cell, instance (name,
    target cell name, location, reflection, rotation), annotation, shape (points, width, net,
    layer and purpose numbers, in message order), abstract, port and blockage. *)
From Coq Require Import ZArith List String Bool Lia Permutation Arith.
From L21 Require Import Base.F64 Base.Outcome Raw.RawData Raw.RawProto Raw.RawProtoSpec Raw.RawProtoBase_proofs.
From L21 Require Gds.GdsReal_proofs.
Import ListNotations.
Local Open Scope list_scope.
Local Open Scope Z_scope.

(** * import: shapes *)
Lemma import_rect_content : forall r s, import_rect r = Ok s -> prect_shape r = Some (norm_shape s).
Proof.
  intros r s H. unfold import_rect in H. unfold prect_shape. destruct (pr_ll r) as [p|]; try discriminate.
  destruct (i64_okb (ppx p + pr_width r) && i64_okb (ppy p + pr_height r)); inversion H; subst. reflexivity.
Qed.
Lemma import_path_content : forall p s, import_path p = Ok s -> s = ppath_shape p.
Proof. intros p s H. unfold import_path in H. destruct (0 <=? pp_width p); inversion H; auto. Qed.
Lemma import_polygon_content : forall p, import_polygon p = ppoly_shape p.
Proof. reflexivity. Qed.
Lemma import_rect_is_rect : forall r s, import_rect r = Ok s -> is_rect s = true.
Proof.
  intros r s H. unfold import_rect in H. destruct (pr_ll r) as [p|]; try discriminate.
  destruct (i64_okb (ppx p + pr_width r) && i64_okb (ppy p + pr_height r)); inversion H; subst. reflexivity.
Qed.
Lemma norm_shape_nonrect : forall s, is_rect s = false -> norm_shape s = s.
Proof. destruct s; simpl; auto; discriminate. Qed.

Lemma convert_net : forall s key p net, raw_net_content (e_net (convert_shape s key p net)) = net_content net.
Proof.
  intros. unfold convert_shape, net_content. simpl. destruct (String.eqb net "") eqn:E; simpl; auto.
  unfold net_content. rewrite E. auto.
Qed.

(** the (net, shape) list of one LayerShapes, as the importer builds it *)
Lemma import_shapes_content : forall ls rs pas,
  mapM import_rect (pls_rects ls) = Ok rs -> mapM import_path (pls_paths ls) = Ok pas ->
  pls_shapes ls = Some (combine (map pr_net (pls_rects ls)) (map norm_shape rs)
                        ++ map (fun p => (pg_net p, ppoly_shape p)) (pls_polys ls)
                        ++ combine (map pp_net (pls_paths ls)) pas) /\
  map norm_shape (rs ++ map import_polygon (pls_polys ls) ++ pas) =
  map snd (combine (map pr_net (pls_rects ls)) (map norm_shape rs)
                        ++ map (fun p => (pg_net p, ppoly_shape p)) (pls_polys ls)
                        ++ combine (map pp_net (pls_paths ls)) pas).
Proof.
  intros ls rs pas Hr Hp. apply mapM_ok in Hr. apply mapM_ok in Hp. unfold pls_shapes.
  assert (E1: omapM (fun r => option_map (pair (pr_net r)) (prect_shape r)) (pls_rects ls) =
              Some (combine (map pr_net (pls_rects ls)) (map norm_shape rs))).
  { apply omapM_Forall2. clear - Hr. induction Hr; simpl; constructor; auto.
    rewrite (import_rect_content _ _ H). reflexivity. }
  rewrite E1.
  assert (E2: map (fun p => (pp_net p, ppath_shape p)) (pls_paths ls) = combine (map pp_net (pls_paths ls)) pas).
  { clear - Hp. induction Hp; simpl; auto. rewrite IHHp. rewrite (import_path_content _ _ H). auto. }
  rewrite E2. split; auto.
  rewrite !map_app. f_equal; [|f_equal].
  - clear - Hr. induction Hr; simpl; auto. f_equal; auto.
  - rewrite !map_map. simpl. apply map_ext. reflexivity.
  - clear - Hp. induction Hp; simpl; auto. rewrite IHHp. rewrite (import_path_content _ _ H). auto.
Qed.

Lemma import_layer_spec : forall ly l ly' key purp,
  layers_wf ly -> import_layer ly l = Ok (ly', key, purp) ->
  goi_post ly (pl_number l) (pl_purpose l) ly' key purp /\ i16_okb (pl_number l) = true /\ i16_okb (pl_purpose l) = true.
Proof.
  intros ly l ly' key purp Hwf H. unfold import_layer in H.
  destruct (i16_okb (pl_number l)) eqn:E1; simpl in H; try discriminate.
  destruct (i16_okb (pl_purpose l)) eqn:E2; simpl in H; try discriminate.
  inversion H. split; auto. apply get_or_insert_spec; auto.
Qed.

Lemma goi_resolve : forall ly n pn ly' key purp, goi_post ly n pn ly' key purp ->
  resolve_lp ly' key purp = Some (n, pn) /\ key_num ly' key = Some n.
Proof.
  intros ly n pn ly' key purp [_ _ _ [l' [Hl [Hn [_ Hp]]]]]. unfold resolve_lp, key_num, ly_get. rewrite Hl, Hp. simpl. subst. auto.
Qed.

Lemma mapM_conv_ok : forall (A : Type) (imp : A -> res shape) (net : A -> string) key purp l es,
  mapM (fun r => obind (imp r) (fun s => Ok (convert_shape s key purp (net r)))) l = Ok es ->
  exists ss, mapM imp l = Ok ss /\ es = map (fun ns => convert_shape (snd ns) key purp (fst ns)) (combine (map net l) ss).
Proof.
  induction l as [|x r IH]; intros es H; simpl in H.
  - inversion H. exists []. auto.
  - apply obind_ok in H. destruct H as [e [He H]]. apply obind_ok in H. destruct H as [es' [Hes H]].
    apply obind_ok in He. destruct He as [s [Hs0 He]]. inversion He; subst. inversion H; subst.
    destruct (IH _ Hes) as [ss [Hs E]]. exists (s :: ss). simpl. rewrite Hs0, Hs. simpl. split; auto. f_equal; auto.
Qed.

Lemma import_layer_shapes_content : forall ly ls ly' es,
  layers_wf ly -> import_layer_shapes ly ls = Ok (ly', es) ->
  layers_wf ly' /\ ly_ext ly ly' /\
  forall lyG, ly_ext ly' lyG -> omapM (raw_elem_content lyG) es = pls_elems ls.
Proof.
  intros ly ls ly' es Hwf H. unfold import_layer_shapes in H. unfold pls_elems.
  destruct (pls_layer ls) as [l|]; try discriminate.
  apply obind_ok in H. destruct H as [[[ly1 key] purp] [Hl H]].
  apply obind_ok in H. destruct H as [rs [Hr H]]. apply obind_ok in H. destruct H as [pas [Hp H]].
  inversion H; subst; clear H.
  destruct (import_layer_spec _ _ _ _ _ Hwf Hl) as [Hg _]. destruct (goi_resolve _ _ _ _ _ _ Hg) as [Hres _].
  split; [apply Hg|]. split; [apply Hg|]. intros lyG HG.
  apply mapM_conv_ok in Hr. destruct Hr as [rss [Hr ->]]. apply mapM_conv_ok in Hp. destruct Hp as [pss [Hp ->]].
  destruct (import_shapes_content ls rss pss Hr Hp) as [E _]. rewrite E.
  assert (HresG: forall s net, raw_elem_content lyG (convert_shape s key purp net) =
            Some (mkcelem (pl_number l) (pl_purpose l) (net_content net) (norm_shape s))).
  { intros s net. unfold raw_elem_content. destruct HG as [HG _]. unfold convert_shape at 1 2. cbn [e_layer e_purpose e_shape].
    rewrite (HG _ _ _ Hres). rewrite convert_net. auto. }
  rewrite !omapM_app, !map_app. apply mapM_ok in Hr. apply mapM_ok in Hp.
  assert (R1: omapM (raw_elem_content lyG) (map (fun ns => convert_shape (snd ns) key purp (fst ns)) (combine (map pr_net (pls_rects ls)) rss)) =
     Some (map (fun ns => mkcelem (pl_number l) (pl_purpose l) (net_content (fst ns)) (snd ns)) (combine (map pr_net (pls_rects ls)) (map norm_shape rss)))).
  { rewrite omapM_map. clear - Hr HresG. induction Hr; simpl; auto. rewrite HresG. rewrite IHHr. auto. }
  assert (R2: omapM (raw_elem_content lyG) (map (fun p => convert_shape (import_polygon p) key purp (pg_net p)) (pls_polys ls)) =
     Some (map (fun ns => mkcelem (pl_number l) (pl_purpose l) (net_content (fst ns)) (snd ns)) (map (fun p => (pg_net p, ppoly_shape p)) (pls_polys ls)))).
  { rewrite omapM_map. rewrite map_map. apply omapM_total. intros x _. rewrite HresG. reflexivity. }
  assert (R3: omapM (raw_elem_content lyG) (map (fun ns => convert_shape (snd ns) key purp (fst ns)) (combine (map pp_net (pls_paths ls)) pss)) =
     Some (map (fun ns => mkcelem (pl_number l) (pl_purpose l) (net_content (fst ns)) (snd ns)) (combine (map pp_net (pls_paths ls)) pss))).
  { rewrite omapM_map. clear - Hp HresG. induction Hp; simpl; auto. rewrite HresG. rewrite IHHp.
    rewrite (import_path_content _ _ H). auto. }
  rewrite R1, R2, R3. auto.
Qed.

(** * angles: `f64::from(i32)` is exact, and the whole number it stands for is read back *)
Lemma f64_int_of_int : forall z, i32_ok z -> z <> 0 -> f64_int_value (f64_of_int z) = Some z.
Proof.
  intros z Hz Hnz. unfold i32_ok in Hz. unfold f64_of_int. rewrite (proj2 (Z.eqb_neq z 0) Hnz).
  set (a := Z.abs z). set (k := Z.log2 a).
  assert (Ha : 0 < a <= 2147483648) by (unfold a; lia).
  assert (Hpow : 2 ^ k <= a < 2 ^ (Z.succ k)) by (apply Z.log2_spec; lia).
  assert (Hk0 : 0 <= k) by apply Z.log2_nonneg.
  assert (Hk : k <= 31).
  { destruct (Z_le_gt_dec k 31); auto. exfalso.
    assert (2 ^ 32 <= 2 ^ k) by (apply Z.pow_le_mono_r; lia). change (2 ^ 32) with 4294967296 in *. lia. }
  assert (Hsplit : 2 ^ 52 = 2 ^ k * 2 ^ (52 - k)) by (rewrite <- Z.pow_add_r by lia; f_equal; lia).
  assert (Hp : 0 < 2 ^ (52 - k)) by (apply Z.pow_pos_nonneg; lia).
  assert (Hm : two52 <= a * 2 ^ (52 - k) < two53).
  { change two52 with (2 ^ 52). change two53 with (2 * 2 ^ 52). rewrite Hsplit.
    rewrite Z.pow_succ_r in Hpow by lia. split; nia. }
  unfold f64_int_value. rewrite Gds.GdsReal_proofs.decomp_of_norm by (auto; lia).
  destruct (Z.leb_spec 0 (k - 52)) as [H|H]; [lia|].
  replace (- (k - 52)) with (52 - k) by lia.
  rewrite Z.mod_mul by lia. rewrite Z.eqb_refl. rewrite Z.div_mul by lia.
  f_equal. unfold a. destruct (Z.ltb_spec z 0); lia.
Qed.
Lemma i32_okb_ok : forall z, i32_ok z -> i32_okb z = true.
Proof. intros z [H1 H2]. unfold i32_okb. apply andb_true_intro. split; [apply Z.leb_le|apply Z.ltb_lt]; auto. Qed.
Lemma import_rotation_content : forall rot, i32_ok rot -> angle_content (import_rotation rot) = Some (rot_content rot).
Proof.
  intros rot Hr. unfold import_rotation, rot_content, angle_content.
  destruct (Z.eqb_spec rot 0) as [->|Hne]; auto.
  rewrite f64_int_of_int by auto. rewrite i32_okb_ok by auto. reflexivity.
Qed.

(** * import: instances, annotations *)
Definition cm_ok (cm : cellmap) (cells : list cell) : Prop :=
  forall name k, cm_get cm name = Some k -> exists t, nth_error cells k = Some t /\ c_name t = name.

Lemma import_instance_content : forall cm cells pi i,
  cm_ok cm cells -> i32_ok (pi_rot pi) -> import_instance cm pi = Ok i ->
  raw_inst_content cells i = pinst_content pi.
Proof.
  intros cm cells pi i Hcm Hty H. unfold import_instance in H. unfold pinst_content.
  destruct (pi_cell pi) as [[[name|d nm]|]|]; try discriminate.
  destruct (cm_get cm name) as [k|] eqn:Hk; try discriminate.
  destruct (pi_origin pi) as [o|]; try discriminate. inversion H; subst; clear H.
  unfold raw_inst_content. simpl. destruct (Hcm _ _ Hk) as [t [Ht Hn]]. rewrite Ht.
  rewrite import_rotation_content by auto. subst. reflexivity.
Qed.

Lemma import_annotation_content : forall t e, import_annotation t = Ok e ->
  option_map (fun p => (ptx_string t, pt_content p)) (ptx_loc t) = Some (t_string e, t_loc e).
Proof. intros t e H. unfold import_annotation in H. destruct (ptx_loc t); inversion H; subst. reflexivity. Qed.

Lemma import_shapes_fold : forall lss ly acc ly' es,
  layers_wf ly ->
  foldM (fun st s => let '(ly, acc) := st in
                     obind (import_layer_shapes ly s) (fun x => let '(ly', es) := x in Ok (ly', acc ++ es)))
        lss (ly, acc) = Ok (ly', es) ->
  layers_wf ly' /\ ly_ext ly ly' /\
  exists new, es = acc ++ new /\
    forall lyG, ly_ext ly' lyG -> option_map (@List.concat celem) (omapM pls_elems lss) = omapM (raw_elem_content lyG) new.
Proof.
  induction lss as [|s r IH]; intros ly acc ly' es Hwf H.
  - simpl in H. inversion H; subst. split; auto. split; [apply ly_ext_refl|]. exists []. rewrite app_nil_r. split; auto.
  - apply foldM_ok_cons in H. destruct H as [[ly1 acc1] [H1 H2]].
    apply obind_ok in H1. destruct H1 as [[ly1' es1] [H1 E]]. inversion E; subst; clear E.
    destruct (import_layer_shapes_content _ _ _ _ Hwf H1) as [Hwf1 [Hext1 Hc1]].
    destruct (IH _ _ _ _ Hwf1 H2) as [Hwf2 [Hext2 [new [-> Hc2]]]].
    split; auto. split; [eapply ly_ext_trans; eauto|]. exists (es1 ++ new). rewrite app_assoc. split; auto.
    intros lyG HG. simpl. rewrite omapM_app. rewrite <- (Hc2 lyG HG).
    rewrite (Hc1 lyG) by (eapply ly_ext_trans; eauto).
    destruct (pls_elems s); auto. destruct (omapM pls_elems r); auto.
Qed.

Lemma import_layout_content : forall ly cm l ly' lay,
  layers_wf ly -> Forall (fun i => i32_ok (pi_rot i)) (ply_insts l) -> import_layout ly cm l = Ok (ly', lay) ->
  layers_wf ly' /\ ly_ext ly ly' /\
  forall lyG cells, ly_ext ly' lyG -> cm_ok cm cells -> raw_layout_content lyG cells lay = playout_content l.
Proof.
  intros ly cm l ly' lay Hwf Hty H. unfold import_layout in H.
  apply obind_ok in H. destruct H as [insts [Hi H]]. apply obind_ok in H. destruct H as [[ly1 elems] [He H]].
  apply obind_ok in H. destruct H as [annots [Ha H]]. inversion H; subst; clear H.
  destruct (import_shapes_fold _ _ _ _ _ Hwf He) as [Hwf1 [Hext [new [E Hc]]]]. simpl in E. subst.
  split; auto. split; auto. intros lyG cells HG Hcm.
  unfold raw_layout_content, playout_content. simpl.
  assert (E1: omapM (raw_inst_content cells) insts = omapM pinst_content (ply_insts l)).
  { apply mapM_ok in Hi. clear - Hi Hcm Hty. induction Hi; simpl; auto. inversion Hty; subst.
    rewrite (import_instance_content _ _ _ _ Hcm H2 H). rewrite IHHi; auto. }
  assert (E2: omapM (fun t => option_map (fun p => (ptx_string t, pt_content p)) (ptx_loc t)) (ply_annots l) =
              Some (map (fun t => (t_string t, t_loc t)) annots)).
  { apply mapM_ok in Ha. clear - Ha. induction Ha; simpl; auto. rewrite (import_annotation_content _ _ H). rewrite IHHa. auto. }
  rewrite E1, E2. rewrite <- (Hc lyG HG).
  destruct (omapM pinst_content (ply_insts l)); auto. destruct (omapM pls_elems (ply_shapes l)); auto.
Qed.

(** * import: abstracts *)
Definition lnum (ls : playershapes) : option Z := option_map pl_number (pls_layer ls).

Lemma wrap16_id : forall z, i16_okb z = true -> wrap16 z = z.
Proof.
  intros z H. unfold i16_okb in H. apply andb_prop in H. destruct H as [H1 H2].
  apply Z.leb_le in H1. apply Z.ltb_lt in H2. unfold wrap16. rewrite Z.mod_small by lia. lia.
Qed.
Lemma sm_insert_new : forall m k v, ~ In k (map fst m) -> sm_insert m k v = m ++ [(k, v)].
Proof.
  induction m as [|[k' v'] r IH]; intros k v H; simpl; auto.
  destruct (Nat.eqb k k') eqn:E.
  - apply Nat.eqb_eq in E. subst. exfalso. apply H. left; auto.
  - rewrite IH; auto. intros Hin. apply H. right; auto.
Qed.

Lemma import_abs_layer_shapes_spec : forall ly ls ly' shapes,
  layers_wf ly -> import_abstract_layer_shapes ly ls = Ok (ly', shapes) ->
  exists l key purp, pls_layer ls = Some l /\ goi_post ly (pl_number l) (pl_purpose l) ly' key purp /\
    i16_okb (pl_number l) = true /\ i16_okb (pl_purpose l) = true /\
    exists ss, pls_shapes ls = Some ss /\ map norm_shape shapes = map snd ss.
Proof.
  intros ly ls ly' shapes Hwf H. unfold import_abstract_layer_shapes in H.
  destruct (pls_layer ls) as [l|]; try discriminate.
  apply obind_ok in H. destruct H as [[[ly1 key] purp] [Hl H]].
  apply obind_ok in H. destruct H as [rs [Hr H]]. apply obind_ok in H. destruct H as [pas [Hp H]].
  inversion H; subst; clear H.
  destruct (import_layer_spec _ _ _ _ _ Hwf Hl) as [Hg [H1 H2]].
  destruct (import_shapes_content ls rs pas Hr Hp) as [E1 E2].
  exists l, key, purp. split; auto. split; auto. split; auto. split; auto. eauto.
Qed.

Lemma import_abs_entries : forall lss ly m ly' m',
  layers_wf ly ->
  foldM import_abs_entry lss (ly, m) = Ok (ly', m') ->
  NoDup (map lnum lss) ->
  (forall k, In k (map fst m) -> exists n, key_num ly k = Some n /\ ~ In (Some n) (map lnum lss)) ->
  layers_wf ly' /\ ly_ext ly ly' /\
  exists new, m' = m ++ new /\
    forall lyG, ly_ext ly' lyG -> raw_map_content lyG new = omapM pls_entry lss.
Proof.
  induction lss as [|ls r IH]; intros ly m ly' m' Hwf H Hnd Hm.
  - simpl in H. inversion H; subst. split; auto. split; [apply ly_ext_refl|]. exists []. rewrite app_nil_r. auto.
  - apply foldM_ok_cons in H. destruct H as [[ly2 m2] [H1 H2]].
    unfold import_abs_entry in H1. destruct (pls_layer ls) as [l|] eqn:Hl; try discriminate.
    destruct (get_or_insert ly (wrap16 (pl_number l)) (wrap16 (pl_purpose l))) as [[ly1 key] purp0] eqn:Hg.
    apply obind_ok in H1. destruct H1 as [[ly2' shapes] [Hs E]]. inversion E; subst; clear E.
    pose proof (get_or_insert_spec _ _ _ _ _ _ Hwf Hg) as Hpost1.
    destruct (import_abs_layer_shapes_spec _ _ _ _ (goi_wf _ _ _ _ _ _ Hpost1) Hs) as [l' [key2 [purp2 [Hl' [Hpost2 [Hi1 [Hi2 [ss [Hss Hns]]]]]]]]].
    rewrite Hl in Hl'. inversion Hl'; subst l'; clear Hl'.
    rewrite (wrap16_id _ Hi1), (wrap16_id _ Hi2) in *.
    destruct (goi_resolve _ _ _ _ _ _ Hpost1) as [_ Hkn1].
    assert (Hext12: ly_ext ly ly2) by (eapply ly_ext_trans; [apply Hpost1|apply Hpost2]).
    assert (Hkn2: key_num ly2 key = Some (pl_number l)) by (apply Hpost2; auto).
    simpl in Hnd. inversion Hnd as [|? ? Hnotin Hnd']; subst.
    assert (Hfresh: ~ In key (map fst m)).
    { intros Hin. destruct (Hm _ Hin) as [n [Hn Hnot]]. apply Hnot. left. unfold lnum. rewrite Hl. simpl.
      assert (key_num ly1 key = Some n) by (apply Hpost1; auto). congruence. }
    rewrite (sm_insert_new _ _ _ Hfresh) in H2.
    destruct (IH _ _ _ _ (goi_wf _ _ _ _ _ _ Hpost2) H2 Hnd') as [Hwf' [Hext' [new [-> Hc]]]].
    { intros k Hk. rewrite map_app in Hk. apply in_app_or in Hk. destruct Hk as [Hk|[<-|[]]].
      - destruct (Hm _ Hk) as [n [Hn Hnot]]. exists n. split; [apply Hext12; auto|]. intros Hin. apply Hnot. right; auto.
      - exists (pl_number l). split; auto. unfold lnum in Hnotin. rewrite Hl in Hnotin. auto. }
    split; auto. split; [eapply ly_ext_trans; eauto|]. exists ((key, shapes) :: new). rewrite <- app_assoc. split; auto.
    intros lyG HG. unfold raw_map_content in *. simpl. rewrite (Hc lyG HG).
    assert (key_num lyG key = Some (pl_number l)) as -> by (apply HG; apply Hext'; auto).
    assert (pls_entry ls = Some (pl_number l, map norm_shape shapes)) as ->.
    { unfold pls_entry. rewrite Hl, Hss, Hns. reflexivity. }
    reflexivity.
Qed.

Definition pabs_distinct (a : pabstract) : Prop :=
  (forall p, In p (pab_ports a) -> NoDup (map lnum (pap_shapes p))) /\ NoDup (map lnum (pab_blockages a)).
Definition abs_layers_distinct (P : plib) : Prop :=
  forall c a, In c (pb_cells P) -> pc_abs c = Some a -> pabs_distinct a.

Lemma import_abstract_port_content : forall ly p ly' port,
  layers_wf ly -> NoDup (map lnum (pap_shapes p)) -> import_abstract_port ly p = Ok (ly', port) ->
  layers_wf ly' /\ ly_ext ly ly' /\ forall lyG, ly_ext ly' lyG -> raw_port_content lyG port = pport_content p.
Proof.
  intros ly p ly' port Hwf Hnd H. unfold import_abstract_port in H.
  apply obind_ok in H. destruct H as [[ly1 m] [Hf H]]. inversion H; subst; clear H.
  destruct (import_abs_entries _ _ _ _ _ Hwf Hf Hnd) as [Hwf' [Hext [new [E Hc]]]]; [intros k []|].
  simpl in E. subst. split; auto. split; auto. intros lyG HG.
  unfold raw_port_content, pport_content. simpl. rewrite (Hc lyG HG). auto.
Qed.

Lemma import_ports_fold : forall ps ly acc ly' ports,
  layers_wf ly -> (forall p, In p ps -> NoDup (map lnum (pap_shapes p))) ->
  foldM (fun st p => let '(ly, acc) := st in
                     obind (import_abstract_port ly p) (fun x => let '(ly', port) := x in Ok (ly', acc ++ [port])))
        ps (ly, acc) = Ok (ly', ports) ->
  layers_wf ly' /\ ly_ext ly ly' /\
  exists new, ports = acc ++ new /\ forall lyG, ly_ext ly' lyG -> omapM (raw_port_content lyG) new = omapM pport_content ps.
Proof.
  induction ps as [|p r IH]; intros ly acc ly' ports Hwf Hnd H.
  - simpl in H. inversion H; subst. split; auto. split; [apply ly_ext_refl|]. exists []. rewrite app_nil_r. auto.
  - apply foldM_ok_cons in H. destruct H as [[ly1 acc1] [H1 H2]].
    apply obind_ok in H1. destruct H1 as [[ly1' port] [H1 E]]. inversion E; subst; clear E.
    destruct (import_abstract_port_content _ _ _ _ Hwf (Hnd p (or_introl eq_refl)) H1) as [Hwf1 [Hext1 Hc1]].
    destruct (IH _ _ _ _ Hwf1 (fun q Hq => Hnd q (or_intror Hq)) H2) as [Hwf2 [Hext2 [new [-> Hc2]]]].
    split; auto. split; [eapply ly_ext_trans; eauto|]. exists (port :: new). rewrite <- app_assoc. split; auto.
    intros lyG HG. simpl. rewrite (Hc2 lyG HG). rewrite (Hc1 lyG) by (eapply ly_ext_trans; eauto). auto.
Qed.

Lemma import_abstract_content : forall ly a ly' ab,
  layers_wf ly -> pabs_distinct a -> import_abstract ly a = Ok (ly', ab) ->
  layers_wf ly' /\ ly_ext ly ly' /\ forall lyG, ly_ext ly' lyG -> raw_abs_content lyG ab = pabs_content a.
Proof.
  intros ly a ly' ab Hwf [Hd1 Hd2] H. unfold import_abstract in H.
  apply obind_ok in H. destruct H as [[ly1 ports] [Hp H]]. apply obind_ok in H. destruct H as [[ly2 blk] [Hb H]].
  destruct (pab_outline a) as [o|] eqn:Ho; try discriminate. inversion H; subst; clear H.
  destruct (import_ports_fold _ _ _ _ _ Hwf Hd1 Hp) as [Hwf1 [Hext1 [new [E Hc1]]]]. simpl in E; subst.
  destruct (import_abs_entries _ _ _ _ _ Hwf1 Hb Hd2) as [Hwf2 [Hext2 [new2 [E Hc2]]]]; [intros k []|]. simpl in E; subst.
  split; auto. split; [eapply ly_ext_trans; eauto|]. intros lyG HG.
  unfold raw_abs_content, pabs_content. simpl. rewrite Ho.
  rewrite (Hc1 lyG) by (eapply ly_ext_trans; eauto). rewrite (Hc2 lyG HG). reflexivity.
Qed.

Lemma import_cell_content : forall ly cm c ly' c',
  layers_wf ly -> (forall a, pc_abs c = Some a -> pabs_distinct a) ->
  (forall l, pc_layout c = Some l -> Forall (fun i => i32_ok (pi_rot i)) (ply_insts l)) ->
  import_cell ly cm c = Ok (ly', c') ->
  layers_wf ly' /\ ly_ext ly ly' /\ c_name c' = pc_name c /\
  forall lyG cells, ly_ext ly' lyG -> cm_ok cm cells -> raw_cell_content lyG cells c' = pcell_content c.
Proof.
  intros ly cm c ly' c' Hwf Hd Hty H. unfold import_cell in H.
  apply obind_ok in H. destruct H as [[ly1 lay] [Hl H]]. apply obind_ok in H. destruct H as [[ly2 ab] [Ha H]].
  inversion H; subst; clear H.
  assert (L: layers_wf ly1 /\ ly_ext ly ly1 /\ forall lyG cells, ly_ext ly1 lyG -> cm_ok cm cells ->
             oopt (raw_layout_content lyG cells) lay = oopt playout_content (pc_layout c)).
  { destruct (pc_layout c) as [l|].
    - apply obind_ok in Hl. destruct Hl as [[ly1' x] [Hl E]]. inversion E; subst; clear E.
      destruct (import_layout_content _ _ _ _ _ Hwf (Hty l eq_refl) Hl) as [W [X C]]. split; auto. split; auto.
      intros lyG cells HG Hcm. simpl. rewrite (C lyG cells HG Hcm). auto.
    - inversion Hl; subst. split; auto. split; [apply ly_ext_refl|]. auto. }
  destruct L as [Hwf1 [Hext1 Hc1]].
  assert (A: layers_wf ly' /\ ly_ext ly1 ly' /\ forall lyG, ly_ext ly' lyG ->
             oopt (raw_abs_content lyG) ab = oopt pabs_content (pc_abs c)).
  { destruct (pc_abs c) as [a|].
    - apply obind_ok in Ha. destruct Ha as [[ly2' x] [Ha E]]. inversion E; subst; clear E.
      destruct (import_abstract_content _ _ _ _ Hwf1 (Hd a eq_refl) Ha) as [W [X C]]. split; auto. split; auto.
      intros lyG HG. simpl. rewrite (C lyG HG). auto.
    - inversion Ha; subst. split; auto. split; [apply ly_ext_refl|]. auto. }
  destruct A as [Hwf2 [Hext2 Hc2]].
  split; auto. split; [eapply ly_ext_trans; eauto|]. split; auto.
  intros lyG cells HG Hcm. unfold raw_cell_content, pcell_content. simpl.
  rewrite (Hc1 lyG cells) by (auto; eapply ly_ext_trans; eauto). rewrite (Hc2 lyG HG). reflexivity.
Qed.

Lemma import_cells_content : forall pcs ly cm cells lyF cmF cellsF,
  layers_wf ly -> cm_ok cm cells ->
  (forall c a, In c pcs -> pc_abs c = Some a -> pabs_distinct a) ->
  (forall c l i, In c pcs -> pc_layout c = Some l -> In i (ply_insts l) -> i32_ok (pi_rot i)) ->
  foldM import_step pcs (ly, cm, cells) = Ok (lyF, cmF, cellsF) ->
  layers_wf lyF /\ ly_ext ly lyF /\
  exists new, cellsF = cells ++ new /\
    forall lyG rest, ly_ext lyF lyG ->
      omapM (raw_cell_content lyG (cellsF ++ rest)) new = omapM pcell_content pcs.
Proof.
  induction pcs as [|c r IH]; intros ly cm cells lyF cmF cellsF Hwf Hcm Hd Hty H.
  - simpl in H. inversion H; subst. split; auto. split; [apply ly_ext_refl|]. exists []. rewrite app_nil_r. auto.
  - apply foldM_ok_cons in H. destruct H as [[[ly1 cm1] cells1] [H1 H2]].
    unfold import_step in H1. apply obind_ok in H1. destruct H1 as [[ly1' c'] [H1 E]]. inversion E; subst; clear E.
    assert (Hty1 : forall l, pc_layout c = Some l -> Forall (fun i => i32_ok (pi_rot i)) (ply_insts l)).
    { intros l Hl. apply Forall_forall. intros i Hi. eapply Hty; eauto. left; auto. }
    destruct (import_cell_content _ _ _ _ _ Hwf (fun a Ha => Hd c a (or_introl eq_refl) Ha) Hty1 H1) as [Hwf1 [Hext1 [Hname Hc1]]].
    assert (Hcm1: cm_ok ((pc_name c, List.length cells) :: cm) (cells ++ [c'])).
    { intros name k Hk. simpl in Hk. destruct (String.eqb name (pc_name c)) eqn:E.
      - inversion Hk; subst. exists c'. split. + rewrite nth_error_app2 by lia. rewrite Nat.sub_diag. auto.
        + apply String.eqb_eq in E. congruence.
      - destruct (Hcm _ _ Hk) as [t [Ht Hn]]. exists t. split; auto. rewrite nth_error_app1; auto. apply nth_error_Some. congruence. }
    destruct (IH _ _ _ _ _ _ Hwf1 Hcm1 (fun c0 a Hc0 Ha => Hd c0 a (or_intror Hc0) Ha)
                (fun c0 l i Hc0 => Hty c0 l i (or_intror Hc0)) H2) as [HwfF [HextF [new [-> Hc2]]]].
    split; auto. split; [eapply ly_ext_trans; eauto|]. exists (c' :: new). split; [rewrite <- app_assoc; auto|].
    intros lyG rest HG. simpl. rewrite (Hc2 lyG rest HG).
    assert (Hcm': cm_ok cm (((cells ++ [c']) ++ new) ++ rest)).
    { intros name k Hk. destruct (Hcm _ _ Hk) as [t [Ht Hn]]. exists t. split; auto.
      rewrite <- !app_assoc. rewrite nth_error_app1; auto. apply nth_error_Some. congruence. }
    rewrite (Hc1 lyG _ (ly_ext_trans _ _ _ HextF HG) Hcm').
    destruct (pcell_content c); auto.
Qed.

Theorem import_content : forall ly0 P L,
  layers_wf ly0 -> abs_layers_distinct P -> proto_typed P -> from_proto ly0 P = Ok L ->
  raw_content L = proto_content P /\ layers_wf (lib_layers L) /\ ly_ext ly0 (lib_layers L).
Proof.
  intros ly0 P L Hwf Hd Hty H. unfold from_proto in H.
  apply obind_ok in H. destruct H as [u [Hu H]]. apply obind_ok in H. destruct H as [[[lyF cmF] cellsF] [Hf H]].
  inversion H; subst; clear H.
  destruct (import_cells_content _ _ _ _ _ _ _ Hwf (fun name k (Hk : cm_get [] name = Some k) => ltac:(discriminate)) Hd Hty Hf)
    as [HwfF [HextF [new [E Hc]]]]. simpl in E. subst.
  split; auto. unfold raw_content, proto_content. simpl.
  specialize (Hc lyF [] (ly_ext_refl _)). rewrite app_nil_r in Hc. rewrite Hc.
  assert (units_content (pb_units P) = Some u) as ->.
  { unfold import_units in Hu. unfold units_content. destruct (pb_units P =? 0); [inversion Hu; auto|].
    destruct (pb_units P =? 1); [inversion Hu; auto|]. destruct (pb_units P =? 2); inversion Hu; auto. }
  destruct (omapM pcell_content (pb_cells P)); auto.
Qed.
