(** Lemmas for property C14, part 3b: when the importer succeeds.
    [import_total]: a message that lists cells before their users and has every field the
    importer needs ([pcell_imp]: locations and layers present, layer numbers in the `i16` range,
    rectangle corners that do not overflow, non-negative path widths, an outline in every
    abstract) is imported: no error and no panic, with any layer table. *)
From Coq Require Import ZArith List String Bool Lia Permutation Arith.
From L21 Require Import Base.F64 Base.Outcome Raw.RawData Raw.RawProto Raw.RawProtoSpec Raw.RawProtoBase_proofs.
Import ListNotations.
Local Open Scope list_scope.
Local Open Scope Z_scope.

Definition prect_imp (r : prect) : Prop :=
  exists p, pr_ll r = Some p /\ i64_ok (ppx p + pr_width r) /\ i64_ok (ppy p + pr_height r).
Definition pls_imp (ls : playershapes) : Prop :=
  (exists l, pls_layer ls = Some l /\ i16_ok (pl_number l) /\ i16_ok (pl_purpose l)) /\
  Forall prect_imp (pls_rects ls) /\ Forall (fun p => 0 <= pp_width p) (pls_paths ls).
Definition pinst_imp (i : pinstance) : Prop :=
  pi_origin i <> None /\ exists nm, pi_cell i = Some (Some (RefLocal nm)).
Definition playout_imp (l : playout) : Prop :=
  Forall pinst_imp (ply_insts l) /\ Forall pls_imp (ply_shapes l) /\ Forall (fun t => ptx_loc t <> None) (ply_annots l).
Definition pabs_imp (a : pabstract) : Prop :=
  pab_outline a <> None /\ Forall (fun p => Forall pls_imp (pap_shapes p)) (pab_ports a) /\ Forall pls_imp (pab_blockages a).
Definition pcell_imp (c : pcell) : Prop :=
  (forall l, pc_layout c = Some l -> playout_imp l) /\ (forall a, pc_abs c = Some a -> pabs_imp a).

Lemma mapM_all_ok : forall (A B : Type) (f : A -> res B) l,
  (forall x, In x l -> exists y, f x = Ok y) -> exists ys, mapM f l = Ok ys.
Proof.
  induction l as [|x r IH]; intros H; simpl; [eauto|].
  destruct (H x (or_introl eq_refl)) as [y Hy]. destruct IH as [ys Hys]; [intros; apply H; right; auto|].
  rewrite Hy, Hys. simpl. eauto.
Qed.
Lemma foldM_all_ok : forall (S A : Type) (f : S -> A -> res S) l s,
  (forall s x, In x l -> exists s', f s x = Ok s') -> exists s', foldM f l s = Ok s'.
Proof.
  induction l as [|x r IH]; intros s H; simpl; [eauto|].
  destruct (H s x (or_introl eq_refl)) as [s1 Hs1]. rewrite Hs1. simpl. apply IH. intros; apply H; right; auto.
Qed.
Lemma i64_okb_of : forall z, i64_ok z -> i64_okb z = true.
Proof. intros z [H1 H2]. unfold i64_okb. apply andb_true_intro. split; apply Z.leb_le; auto. Qed.
Lemma i16_okb_of : forall z, i16_ok z -> i16_okb z = true.
Proof. intros z [H1 H2]. unfold i16_okb. apply andb_true_intro. split; [apply Z.leb_le|apply Z.ltb_lt]; auto. Qed.

Lemma import_rect_total : forall r, prect_imp r -> exists s, import_rect r = Ok s.
Proof. intros r [p [E [H1 H2]]]. unfold import_rect. rewrite E, (i64_okb_of _ H1), (i64_okb_of _ H2). simpl. eauto. Qed.
Lemma import_path_total : forall p, 0 <= pp_width p -> exists s, import_path p = Ok s.
Proof. intros p H. unfold import_path. destruct (Z.leb_spec 0 (pp_width p)); [eauto|lia]. Qed.
Lemma import_layer_total : forall ly l, i16_ok (pl_number l) -> i16_ok (pl_purpose l) -> exists r, import_layer ly l = Ok r.
Proof. intros ly l H1 H2. unfold import_layer. rewrite (i16_okb_of _ H1), (i16_okb_of _ H2). simpl. eauto. Qed.

Lemma import_layer_shapes_total : forall ly ls, pls_imp ls -> exists r, import_layer_shapes ly ls = Ok r.
Proof.
  intros ly ls [[l [E [H1 H2]]] [Hr Hp]]. unfold import_layer_shapes. rewrite E.
  destruct (import_layer_total ly l H1 H2) as [[[ly1 key] purp] El]. rewrite El. simpl.
  destruct (mapM_all_ok _ _ (fun r => obind (import_rect r) (fun s => Ok (convert_shape s key purp (pr_net r)))) (pls_rects ls)) as [rs Ers].
  { intros r Hin. rewrite Forall_forall in Hr. destruct (import_rect_total r (Hr r Hin)) as [s Es]. rewrite Es. simpl. eauto. }
  rewrite Ers. simpl.
  destruct (mapM_all_ok _ _ (fun p => obind (import_path p) (fun s => Ok (convert_shape s key purp (pp_net p)))) (pls_paths ls)) as [ps Eps].
  { intros p Hin. rewrite Forall_forall in Hp. destruct (import_path_total p (Hp p Hin)) as [s Es]. rewrite Es. simpl. eauto. }
  rewrite Eps. simpl. eauto.
Qed.
Lemma import_abs_layer_shapes_total : forall ly ls, pls_imp ls -> exists r, import_abstract_layer_shapes ly ls = Ok r.
Proof.
  intros ly ls [[l [E [H1 H2]]] [Hr Hp]]. unfold import_abstract_layer_shapes. rewrite E.
  destruct (import_layer_total ly l H1 H2) as [[[ly1 key] purp] El]. rewrite El. simpl.
  destruct (mapM_all_ok _ _ import_rect (pls_rects ls)) as [rs Ers].
  { intros r Hin. rewrite Forall_forall in Hr. apply import_rect_total; auto. }
  rewrite Ers. simpl.
  destruct (mapM_all_ok _ _ import_path (pls_paths ls)) as [ps Eps].
  { intros p Hin. rewrite Forall_forall in Hp. apply import_path_total; auto. }
  rewrite Eps. simpl. eauto.
Qed.
Lemma import_abs_entry_total : forall st ls, pls_imp ls -> exists r, import_abs_entry st ls = Ok r.
Proof.
  intros [ly m] ls H. unfold import_abs_entry. destruct H as [[l [E Hl]] Hrest]. rewrite E.
  destruct (get_or_insert ly (wrap16 (pl_number l)) (wrap16 (pl_purpose l))) as [[ly1 key] pp0].
  destruct (import_abs_layer_shapes_total ly1 ls) as [[ly2 shapes] Es]; [split; eauto|]. rewrite Es. simpl. eauto.
Qed.
Lemma import_abstract_total : forall ly a, pabs_imp a -> exists r, import_abstract ly a = Ok r.
Proof.
  intros ly a [Ho [Hp Hb]]. unfold import_abstract.
  match goal with |- context [foldM ?f (pab_ports a) (ly, [])] => destruct (foldM_all_ok _ _ f (pab_ports a) (ly, [])) as [[ly1 ports] E1] end.
  { intros [ly' acc] p Hin. rewrite Forall_forall in Hp. unfold import_abstract_port.
    destruct (foldM_all_ok _ _ import_abs_entry (pap_shapes p) (ly', [])) as [[ly2 m] E].
    { intros s x Hx. apply import_abs_entry_total. specialize (Hp p Hin). rewrite Forall_forall in Hp. auto. }
    rewrite E. simpl. eauto. }
  rewrite E1. simpl.
  destruct (foldM_all_ok _ _ import_abs_entry (pab_blockages a) (ly1, [])) as [[ly2 blk] E2].
  { intros s x Hx. apply import_abs_entry_total. rewrite Forall_forall in Hb. auto. }
  rewrite E2. simpl. destruct (pab_outline a); [eauto|congruence].
Qed.
Lemma import_instance_total : forall cm pi, pinst_imp pi ->
  (forall nm, pi_cell pi = Some (Some (RefLocal nm)) -> cm_get cm nm <> None) -> exists i, import_instance cm pi = Ok i.
Proof.
  intros cm pi [Ho [nm E]] Hb. unfold import_instance. rewrite E. specialize (Hb nm E).
  destruct (cm_get cm nm); [|congruence]. destruct (pi_origin pi); [eauto|congruence].
Qed.
Lemma import_layout_total : forall ly cm l, playout_imp l ->
  (forall i nm, In i (ply_insts l) -> pi_cell i = Some (Some (RefLocal nm)) -> cm_get cm nm <> None) ->
  exists r, import_layout ly cm l = Ok r.
Proof.
  intros ly cm l [Hi [Hs Ha]] Hb. unfold import_layout.
  destruct (mapM_all_ok _ _ (import_instance cm) (ply_insts l)) as [insts E1].
  { intros i Hin. rewrite Forall_forall in Hi. apply import_instance_total; auto. intros nm. apply Hb; auto. }
  rewrite E1. simpl.
  match goal with |- context [foldM ?f (ply_shapes l) (ly, [])] => destruct (foldM_all_ok _ _ f (ply_shapes l) (ly, [])) as [[ly1 elems] E2] end.
  { intros [ly' acc] s Hin. rewrite Forall_forall in Hs. destruct (import_layer_shapes_total ly' s (Hs s Hin)) as [[ly2 es] E]. rewrite E. simpl. eauto. }
  rewrite E2. simpl.
  destruct (mapM_all_ok _ _ import_annotation (ply_annots l)) as [annots E3].
  { intros t Hin. rewrite Forall_forall in Ha. specialize (Ha t Hin). unfold import_annotation. destruct (ptx_loc t); [eauto|congruence]. }
  rewrite E3. simpl. eauto.
Qed.
Lemma import_cell_total : forall ly cm c, pcell_imp c ->
  (forall i nm, In i (pcell_insts c) -> pi_cell i = Some (Some (RefLocal nm)) -> cm_get cm nm <> None) ->
  exists r, import_cell ly cm c = Ok r.
Proof.
  intros ly cm c [Hl Ha] Hb. unfold import_cell. unfold pcell_insts in Hb.
  assert (E1 : exists ly1 lay, match pc_layout c with
               | Some l => obind (import_layout ly cm l) (fun '(ly', x) => Ok (ly', Some x))
               | None => Ok (ly, None) end = Ok (ly1, lay)).
  { destruct (pc_layout c) as [l|]; [|eauto]. destruct (import_layout_total ly cm l (Hl l eq_refl) Hb) as [[ly' x] E]. rewrite E. simpl. eauto. }
  destruct E1 as [ly1 [lay E1]]. rewrite E1. simpl.
  assert (E2 : exists ly2 ab, match pc_abs c with
               | Some a => obind (import_abstract ly1 a) (fun '(ly', x) => Ok (ly', Some x))
               | None => Ok (ly1, None) end = Ok (ly2, ab)).
  { destruct (pc_abs c) as [a|]; [|eauto]. destruct (import_abstract_total ly1 a (Ha a eq_refl)) as [[ly' x] E]. rewrite E. simpl. eauto. }
  destruct E2 as [ly2 [ab E2]]. rewrite E2. simpl. eauto.
Qed.
Lemma import_cells_total : forall pcs seen ly cm cells,
  deps_first_from seen pcs -> (forall nm, In nm seen -> cm_get cm nm <> None) -> Forall pcell_imp pcs ->
  exists r, foldM import_step pcs (ly, cm, cells) = Ok r.
Proof.
  induction pcs as [|c r IH]; intros seen ly cm cells Hd Hcm Hi; simpl; [eauto|].
  destruct Hd as [Hc Hr]. inversion Hi; subst.
  assert (Hb : forall i nm, In i (pcell_insts c) -> pi_cell i = Some (Some (RefLocal nm)) -> cm_get cm nm <> None).
  { intros i nm Hin Enm. destruct (Hc i Hin) as [nm' [E' Hs]]. rewrite Enm in E'. inversion E'; subst. auto. }
  destruct (import_cell_total ly cm c H1 Hb) as [[ly' c'] E].
  unfold import_step at 1. rewrite E. simpl.
  apply (IH (pc_name c :: seen)); auto. intros nm [<-|Hin]; simpl.
  - rewrite String.eqb_refl. discriminate.
  - destruct (String.eqb nm (pc_name c)); [discriminate|auto].
Qed.

Theorem import_total : forall ly0 P,
  units_content (pb_units P) <> None -> deps_first P -> Forall pcell_imp (pb_cells P) ->
  exists L, from_proto ly0 P = Ok L.
Proof.
  intros ly0 P Hu Hd Hi. unfold from_proto.
  assert (exists u, import_units (pb_units P) = Ok u) as [u Eu].
  { unfold units_content in Hu. unfold import_units. destruct (pb_units P =? 0); [eauto|]. destruct (pb_units P =? 1); [eauto|].
    destruct (pb_units P =? 2); [eauto|congruence]. }
  rewrite Eu. simpl.
  match goal with |- context [obind ?X _] =>
    assert (exists r, X = Ok r) as [[[ly cm] cells] E]
      by (apply (import_cells_total (pb_cells P) [] ly0 [] [] Hd (fun nm (H : In nm []) => match H with end) Hi)) end.
  rewrite E. simpl. eauto.
Qed.
