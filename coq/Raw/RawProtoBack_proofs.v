(** Lemmas for property C14, part 5: proto -> raw -> proto.
    [proto_raw_proto]: a message that lists cells before their users and is [canonical] comes
    back from import followed by export as the same message. *)
From Coq Require Import ZArith NArith List String Bool Lia Permutation Arith.
From L21 Require Import Base.F64 Base.Outcome Raw.RawData Raw.RawProto Raw.RawProtoSpec
  Raw.RawProtoBase_proofs Raw.RawProtoImport_proofs Raw.RawProtoOrder_proofs Raw.RawProtoTotal_proofs Raw.RawProtoExport_proofs.
From L21 Require Order.DepOrder Order.DepOrderFixed.
Import ListNotations.
Local Open Scope list_scope.

(** * a library whose cells only use earlier cells is exported in listing order *)
Section Identity.
Variable cells : list cell.
Let n := List.length cells.
Hypothesis Hback : forall j d, In d (deps_of cells j) -> (d < j)%nat.

Let deps := cell_deps_N cells.
Import DepOrder DepOrderFixed.
Local Notation OOk := (@Base.Outcome.Ok string).

Lemma mem_of_nat_seq : forall j k, mem (N.of_nat k) (map N.of_nat (seq 0 j)) = true <-> (k < j)%nat.
Proof.
  intros j k. unfold mem. rewrite existsb_exists. split.
  - intros [x [Hin He]]. apply N.eqb_eq in He. subst x. apply in_map_iff in Hin. destruct Hin as [i [Hi Hin]].
    apply Nat2N.inj in Hi. subst. apply in_seq in Hin. lia.
  - intros Hk. exists (N.of_nat k). split; [|apply N.eqb_refl]. apply in_map. apply in_seq. lia.
Qed.

Lemma cpush_S : forall f defined (dp : N -> list N) s item,
  cpush (S f) defined dp s item =
  if mem item (seen s) then Ok s
  else if mem item (pending s) then Err
  else match for_each (lookup_err defined (cpush f defined dp)) (mkst (stack s) (seen s) (set_insert item (pending s))) (dp item) with
       | Ok s2 => Ok (mkst (stack s2 ++ [item]) (set_insert item (seen s2)) (set_remove item (pending s2)))
       | e => e
       end.
Proof. reflexivity. Qed.

Definition inv (j : nat) (s : st) : Prop :=
  stack s = map N.of_nat (seq 0 j) /\ pending s = [] /\
  (forall k, mem (N.of_nat k) (seen s) = true <-> (k < j)%nat).

Lemma cpush_item : forall f j s, inv j s ->
  cpush (S (S f)) all_defined deps s (N.of_nat j) =
  Ok (mkst (stack s ++ [N.of_nat j]) (set_insert (N.of_nat j) (seen s)) []).
Proof.
  intros f j s [Hst [Hp Hseen]]. rewrite cpush_S.
  destruct (mem (N.of_nat j) (seen s)) eqn:E1; [apply Hseen in E1; lia|].
  rewrite Hp. cbn [mem existsb set_insert].
  assert (Hfe : forall l, (forall d, In d l -> exists k, d = N.of_nat k /\ (k < j)%nat) ->
            for_each (lookup_err all_defined (cpush (S f) all_defined deps)) (mkst (stack s) (seen s) [N.of_nat j]) l =
            Ok (mkst (stack s) (seen s) [N.of_nat j])).
  { induction l as [|d r IH]; intros Hl; [reflexivity|]. cbn [for_each]. unfold lookup_err at 1. unfold all_defined at 1.
    destruct (Hl d (or_introl eq_refl)) as [k [-> Hk]]. rewrite cpush_S. cbn [seen]. rewrite (proj2 (Hseen k) Hk).
    apply IH. intros; apply Hl; right; auto. }
  rewrite Hfe.
  - cbn [stack seen pending set_remove]. rewrite N.eqb_refl. reflexivity.
  - intros d Hd. unfold deps in Hd. rewrite (deps_of_nat cells) in Hd. apply in_map_iff in Hd. destruct Hd as [k [<- Hk]].
    exists k. split; [reflexivity|eapply Hback; eauto].
Qed.

Lemma inv_step : forall j s, inv j s -> inv (S j) (mkst (stack s ++ [N.of_nat j]) (set_insert (N.of_nat j) (seen s)) []).
Proof.
  intros j s [Hst [Hp Hseen]]. unfold inv. cbn [stack seen pending]. split; [|split; auto].
  - rewrite Hst. rewrite seq_S, map_app. reflexivity.
  - intros k. unfold set_insert. destruct (mem (N.of_nat j) (seen s)) eqn:E; [apply Hseen in E; lia|].
    cbn [mem existsb]. rewrite orb_true_iff. fold (mem (N.of_nat k) (seen s)). rewrite Hseen. rewrite N.eqb_eq. split.
    + intros [H|H]; [apply Nat2N.inj in H|]; lia.
    + intros H. destruct (Nat.eq_dec k j); [left; subst; auto|right; lia].
Qed.

Lemma for_each_items : forall f m j s, inv j s ->
  exists s', for_each (cpush (S (S f)) all_defined deps) s (map N.of_nat (seq j m)) = Ok s' /\ inv (j + m) s'.
Proof.
  induction m as [|m IH]; intros j s Hinv; cbn [seq map for_each].
  - exists s. rewrite Nat.add_0_r. auto.
  - rewrite (cpush_item f j s Hinv). destruct (IH (S j) _ (inv_step j s Hinv)) as [s' [E Hs']].
    exists s'. split; auto. replace (j + S m)%nat with (S j + m)%nat by lia. auto.
Qed.

Theorem dep_order_identity : dep_order cells = Base.Outcome.Ok (seq 0 n).
Proof.
  unfold dep_order. fold n. fold deps. unfold order_checked.
  destruct n as [|m] eqn:En; [reflexivity|].
  destruct (for_each_items m (S m) 0 (mkst [] [] [])) as [s' [E [Hst _]]].
  { unfold inv. simpl. split; auto. split; auto. intros k. split; [discriminate|lia]. }
  rewrite E. rewrite Hst. f_equal. simpl plus. rewrite map_map. rewrite <- (map_id (seq 0 (S m))) at 2.
  apply map_ext. intros; apply Nat2N.id.
Qed.
End Identity.

Local Open Scope Z_scope.

(** * shapes: import, then export *)
Lemma export_import_point : forall p, export_point (import_point p) = p.
Proof. destruct p; reflexivity. Qed.
Lemma map_export_import_point : forall l, map export_point (map import_point l) = l.
Proof. induction l; simpl; auto. rewrite export_import_point, IHl. reflexivity. Qed.

Lemma set_net_empty : forall s ps0, export_shape s = Ok ps0 -> pshape_set_net ps0 EmptyString = ps0.
Proof.
  intros [p0 p1|pts|pts w] ps0 H; simpl in H.
  - unfold export_rect in H. destruct (_ && _); inversion H; subst. reflexivity.
  - inversion H; subst. reflexivity.
  - unfold export_path in H. destruct (w <=? i64_max); inversion H; subst. reflexivity.
Qed.
Lemma export_element_convert : forall s key purp net ps0, export_shape s = Ok ps0 ->
  export_element (convert_shape s key purp net) = Ok (pshape_set_net ps0 net).
Proof.
  intros s key purp net ps0 H. unfold export_element, convert_shape. cbn [e_shape e_net]. rewrite H. simpl.
  destruct (String.eqb net "") eqn:E; auto. apply String.eqb_eq in E. subst. erewrite set_net_empty; eauto.
Qed.

Lemma rexp_rect : forall r s, prect_canon r -> import_rect r = Ok s ->
  export_shape s = Ok (PSRect (mkprect EmptyString (pr_ll r) (pr_width r) (pr_height r))).
Proof.
  intros r s [Hll [Hw Hh]] H. unfold import_rect in H. destruct (pr_ll r) as [p|]; [|congruence].
  destruct (_ && _); inversion H; subst; clear H. simpl. unfold export_rect. cbn [px py import_point].
  unfold i64_max, two63 in *.
  rewrite !Z.min_l by lia. rewrite !Z.max_r by lia.
  replace (ppx p + pr_width r - ppx p) with (pr_width r) by lia. replace (ppy p + pr_height r - ppy p) with (pr_height r) by lia.
  rewrite !i64_okb_of by (unfold i64_ok, i64_min, i64_max, two63; lia). simpl. destruct p; reflexivity.
Qed.
Lemma rexp_path : forall p s, ppath_canon p -> import_path p = Ok s ->
  export_shape s = Ok (PSPath (mkppath EmptyString (pp_points p) (pp_width p))).
Proof.
  intros p s Hc H. unfold import_path in H. destruct (0 <=? pp_width p); inversion H; subst; clear H.
  simpl. unfold export_path. destruct Hc as [_ Hc]. destruct (Z.leb_spec (pp_width p) i64_max); [|lia].
  rewrite map_export_import_point. reflexivity.
Qed.
Lemma rexp_polygon : forall g, export_shape (import_polygon g) = Ok (PSPoly (mkppoly EmptyString (pg_vertices g))).
Proof. intros g. simpl. unfold export_polygon. rewrite map_export_import_point. reflexivity. Qed.

Lemma prect_eta : forall r, mkprect (pr_net r) (pr_ll r) (pr_width r) (pr_height r) = r.
Proof. destruct r; reflexivity. Qed.
Lemma ppoly_eta : forall g, mkppoly (pg_net g) (pg_vertices g) = g.
Proof. destruct g; reflexivity. Qed.
Lemma ppath_eta : forall p, mkppath (pp_net p) (pp_points p) (pp_width p) = p.
Proof. destruct p; reflexivity. Qed.

Lemma rects_of_app : forall a b, rects_of (a ++ b) = rects_of a ++ rects_of b.
Proof. intros. unfold rects_of. apply flat_map_app. Qed.
Lemma polys_of_app : forall a b, polys_of (a ++ b) = polys_of a ++ polys_of b.
Proof. intros. unfold polys_of. apply flat_map_app. Qed.
Lemma paths_of_app : forall a b, paths_of (a ++ b) = paths_of a ++ paths_of b.
Proof. intros. unfold paths_of. apply flat_map_app. Qed.
Lemma of_rects : forall l, rects_of (map PSRect l) = l /\ polys_of (map PSRect l) = [] /\ paths_of (map PSRect l) = [].
Proof. induction l as [|x r [A [B C]]]; simpl; auto. rewrite A, B, C. auto. Qed.
Lemma of_polys : forall l, rects_of (map PSPoly l) = [] /\ polys_of (map PSPoly l) = l /\ paths_of (map PSPoly l) = [].
Proof. induction l as [|x r [A [B C]]]; simpl; auto. rewrite A, B, C. auto. Qed.
Lemma of_paths : forall l, rects_of (map PSPath l) = [] /\ polys_of (map PSPath l) = [] /\ paths_of (map PSPath l) = l.
Proof. induction l as [|x r [A [B C]]]; simpl; auto. rewrite A, B, C. auto. Qed.
Lemma pls_of_kinds : forall l rs gs ps, pls_of l (map PSRect rs ++ map PSPoly gs ++ map PSPath ps) = mkpls (Some l) rs gs ps.
Proof.
  intros. rewrite pls_of_fields. rewrite !rects_of_app, !polys_of_app, !paths_of_app.
  destruct (of_rects rs) as [A1 [A2 A3]]. destruct (of_polys gs) as [B1 [B2 B3]]. destruct (of_paths ps) as [C1 [C2 C3]].
  rewrite A1, A2, A3, B1, B2, B3, C1, C2, C3. simpl. rewrite !app_nil_r. reflexivity.
Qed.

(** the three by-kind lists of one LayerShapes, re-exported element by element *)
Lemma rexp_kinds : forall (conv : shape -> string -> element) ls rs pas,
  (forall s net ps0, export_shape s = Ok ps0 -> export_element (conv s net) = Ok (pshape_set_net ps0 net)) ->
  Forall prect_canon (pls_rects ls) -> Forall ppath_canon (pls_paths ls) ->
  mapM import_rect (pls_rects ls) = Ok rs -> mapM import_path (pls_paths ls) = Ok pas ->
  mapM export_element
    (map (fun ns => conv (snd ns) (fst ns)) (combine (map pr_net (pls_rects ls)) rs) ++
     map (fun g => conv (import_polygon g) (pg_net g)) (pls_polys ls) ++
     map (fun ns => conv (snd ns) (fst ns)) (combine (map pp_net (pls_paths ls)) pas)) =
  Ok (map PSRect (pls_rects ls) ++ map PSPoly (pls_polys ls) ++ map PSPath (pls_paths ls)).
Proof.
  intros conv ls rs pas Hconv Hcr Hcp Hr Hp. apply mapM_ok_inv. apply mapM_ok in Hr. apply mapM_ok in Hp.
  repeat apply Forall2_app'.
  - clear - Hconv Hcr Hr. induction Hr as [|r s l l' H _ IH]; simpl; constructor.
    + inversion Hcr; subst. simpl. rewrite (Hconv _ _ _ (rexp_rect _ _ H2 H)). simpl. rewrite prect_eta. reflexivity.
    + inversion Hcr; subst. auto.
  - clear - Hconv. induction (pls_polys ls) as [|g l IH]; simpl; constructor; auto.
    rewrite (Hconv _ _ _ (rexp_polygon g)). simpl. rewrite ppoly_eta. reflexivity.
  - clear - Hconv Hcp Hp. induction Hp as [|r s l l' H _ IH]; simpl; constructor.
    + inversion Hcp; subst. simpl. rewrite (Hconv _ _ _ (rexp_path _ _ H2 H)). simpl. rewrite ppath_eta. reflexivity.
    + inversion Hcp; subst. auto.
Qed.

Lemma pls_eta : forall ls l, pls_layer ls = Some l -> mkpls (Some l) (pls_rects ls) (pls_polys ls) (pls_paths ls) = ls.
Proof. destruct ls; simpl; intros; subst; reflexivity. Qed.
Lemma player_eta : forall l, mkplayer (pl_number l) (pl_purpose l) = l.
Proof. destruct l; reflexivity. Qed.

(** one LayerShapes of a layout *)
Lemma rexp_layer_shapes : forall ly ls ly' es,
  layers_wf ly -> pls_canon ls -> import_layer_shapes ly ls = Ok (ly', es) ->
  layers_wf ly' /\ ly_ext ly ly' /\
  exists l, pls_layer ls = Some l /\
    export_group ((pl_number l, pl_purpose l), es) = Ok ls /\
    (forall lyG e, ly_ext ly' lyG -> In e es -> ekey lyG e = Some (pl_number l, pl_purpose l)) /\
    (pls_nonempty ls -> es <> []).
Proof.
  intros ly ls ly' es Hwf [[l [El [Hi1 Hi2]]] [Hcr Hcp]] H. unfold import_layer_shapes in H. rewrite El in H.
  apply obind_ok in H. destruct H as [[[ly1 key] purp] [Hl H]].
  apply obind_ok in H. destruct H as [rs [Hr H]]. apply obind_ok in H. destruct H as [pas [Hp H]].
  inversion H; subst; clear H.
  destruct (import_layer_spec _ _ _ _ _ Hwf Hl) as [Hg _]. destruct (goi_resolve _ _ _ _ _ _ Hg) as [Hres _].
  split; [apply Hg|]. split; [apply Hg|]. exists l. split; auto.
  apply mapM_conv_ok in Hr. destruct Hr as [rss [Hr ->]]. apply mapM_conv_ok in Hp. destruct Hp as [pss [Hp ->]].
  split; [|split].
  - unfold export_group. cbn [fst snd].
    rewrite (rexp_kinds (fun s net => convert_shape s key purp net) ls rss pss); auto.
    + simpl. rewrite pls_of_kinds. rewrite player_eta. rewrite pls_eta; auto.
    + intros; apply export_element_convert; auto.
  - intros lyG e [HG _] Hin. unfold ekey.
    assert (He : e_layer e = key /\ e_purpose e = purp).
    { rewrite !in_app_iff, !in_map_iff in Hin. destruct Hin as [[x [<- _]]|[[x [<- _]]|[x [<- _]]]]; auto. }
    destruct He as [-> ->]. apply HG. auto.
  - intros Hne Hnil. apply app_eq_nil in Hnil. destruct Hnil as [N1 N2]. apply app_eq_nil in N2. destruct N2 as [N2 N3].
    apply map_eq_nil in N1, N2, N3. apply mapM_ok in Hr. apply mapM_ok in Hp.
    assert (pls_rects ls = []).
    { destruct (pls_rects ls); auto. inversion Hr; subst. simpl in N1. discriminate. }
    assert (pls_paths ls = []).
    { destruct (pls_paths ls); auto. inversion Hp; subst. simpl in N3. discriminate. }
    destruct Hne as [?|[?|?]]; congruence.
Qed.

(** * the grouping recovers the LayerShapes of a layout *)
Section Blocks.
Variable ly : layers.
Variable blocks : list ((Z * Z) * list element).
Hypothesis Hkey : forall k es e, In (k, es) blocks -> In e es -> ekey ly e = Some k.
Hypothesis Hnd : NoDup (map fst blocks).
Hypothesis Hne : forall k es, In (k, es) blocks -> es <> [].

Lemma blocks_kf : forall k es e, In (k, es) blocks -> In e es -> kf ly e = k.
Proof.
  intros k es e H1 H2. pose proof (Hkey _ _ _ H1 H2) as E. unfold kf, cel. rewrite E. destruct k; reflexivity.
Qed.
End Blocks.

Lemma blocks_filter : forall ly blocks, (forall k es e, In (k, es) blocks -> In e es -> kf ly e = k) -> NoDup (map fst blocks) ->
  forall k es, In (k, es) blocks -> filter (fun e => lp_eqb (kf ly e) k) (flat_map snd blocks) = es.
Proof.
  intros ly. induction blocks as [|[k0 es0] r IH]; intros Hk Hnd k es Hin; [destruct Hin|].
  simpl in Hnd. inversion Hnd; subst. simpl. rewrite filter_app. destruct Hin as [E|Hin].
  - inversion E; subst k0 es0; clear E.
    rewrite filter_all by (intros e He; apply lp_eqb_eq; eapply Hk; [left; reflexivity|auto]).
    rewrite filter_none; [apply app_nil_r|]. intros e He. apply in_flat_map in He. destruct He as [[k' es'] [Hb He]].
    assert (kf ly e = k') by (eapply Hk; [right; eauto|auto]). subst k'.
    destruct (lp_eqb (kf ly e) k) eqn:E; auto. apply lp_eqb_eq in E. exfalso. apply H1. rewrite <- E. apply (in_map fst) in Hb. auto.
  - rewrite filter_none.
    + simpl. apply IH; auto. intros; eapply Hk; [right; eauto|auto].
    + intros e He. assert (kf ly e = k0) by (eapply Hk; [left; reflexivity|auto]).
      destruct (lp_eqb (kf ly e) k) eqn:E; auto. apply lp_eqb_eq in E. exfalso. apply H1. rewrite <- H, E. apply (in_map fst) in Hin. auto.
Qed.
Lemma blocks_first_seen : forall ly blocks, (forall k es e, In (k, es) blocks -> In e es -> kf ly e = k) -> NoDup (map fst blocks) ->
  (forall k es, In (k, es) blocks -> es <> []) ->
  first_seen (map (kf ly) (flat_map snd blocks)) = map fst blocks.
Proof.
  intros ly. induction blocks as [|[k0 es0] r IH]; intros Hk Hnd Hne; [reflexivity|].
  simpl in Hnd. inversion Hnd; subst. simpl. rewrite map_app. rewrite (first_seen_same k0).
  - rewrite IH; auto; [|intros; eapply Hk; [right; eauto|auto]|intros; eapply Hne; right; eauto].
    f_equal. apply filter_all. intros k Hin. destruct (lp_eqb k k0) eqn:E; auto. apply lp_eqb_eq in E. subst. contradiction.
  - intros x Hx. apply in_map_iff in Hx. destruct Hx as [e [<- He]]. eapply Hk; [left; reflexivity|auto].
  - intros E. apply map_eq_nil in E. eapply Hne; [left; reflexivity|auto].
Qed.
Lemma group_blocks : forall ly blocks, (forall k es e, In (k, es) blocks -> In e es -> ekey ly e = Some k) -> NoDup (map fst blocks) ->
  (forall k es, In (k, es) blocks -> es <> []) ->
  group_elems ly [] (flat_map snd blocks) = Ok blocks.
Proof.
  intros ly blocks Hkey Hnd Hne.
  pose proof (blocks_kf ly blocks Hkey) as Hk.
  rewrite group_elems_grp.
  - rewrite grp_nil. rewrite map_map.
    match goal with |- context [first_seen ?X] =>
      replace (first_seen X) with (map fst blocks) by (symmetry; apply (blocks_first_seen ly blocks Hk Hnd Hne)) end.
    f_equal.
    rewrite map_map. rewrite <- (map_id blocks) at 2. apply map_ext_in. intros [k es] Hin. cbn [fst]. rewrite sel_map.
    rewrite (blocks_filter ly blocks Hk Hnd k es Hin). reflexivity.
  - intros e He. apply in_flat_map in He. destruct He as [[k es] [Hb He]]. rewrite (Hkey _ _ _ Hb He). discriminate.
Qed.

(** the shapes of a layout: fold of the importer, then grouping and export *)
Lemma rexp_shapes_fold : forall lss ly acc ly' es,
  layers_wf ly -> Forall (fun ls => pls_canon ls /\ pls_nonempty ls) lss ->
  foldM (fun st s => let '(ly, acc) := st in
                     obind (import_layer_shapes ly s) (fun x => let '(ly', es) := x in Ok (ly', acc ++ es)))
        lss (ly, acc) = Ok (ly', es) ->
  layers_wf ly' /\ ly_ext ly ly' /\
  exists blocks, es = acc ++ flat_map snd blocks /\ map (fun b => Some (fst b)) blocks = map pls_lp lss /\
    mapM export_group blocks = Ok lss /\
    (forall lyG k bs e, ly_ext ly' lyG -> In (k, bs) blocks -> In e bs -> ekey lyG e = Some k) /\
    (forall k bs, In (k, bs) blocks -> bs <> []).
Proof.
  induction lss as [|s r IH]; intros ly acc ly' es Hwf Hc H.
  - simpl in H. inversion H; subst. split; auto. split; [apply ly_ext_refl|]. exists []. simpl. rewrite app_nil_r.
    repeat split; auto; intros; contradiction.
  - apply foldM_ok_cons in H. destruct H as [[ly1 acc1] [H1 H2]].
    apply obind_ok in H1. destruct H1 as [[ly1' es1] [H1 E]]. inversion E; subst; clear E.
    inversion Hc as [|? ? [Hcs Hns] Hcr]; subst.
    destruct (rexp_layer_shapes _ _ _ _ Hwf Hcs H1) as [Hwf1 [Hext1 [l [El [Eg [Ek Hn]]]]]].
    destruct (IH _ _ _ _ Hwf1 Hcr H2) as [Hwf2 [Hext2 [blocks [-> [Hlp [Hm [Hk Hne]]]]]]].
    split; auto. split; [eapply ly_ext_trans; eauto|].
    exists (((pl_number l, pl_purpose l), es1) :: blocks). split; [simpl; rewrite app_assoc; reflexivity|].
    split; [simpl; rewrite Hlp; unfold pls_lp; rewrite El; reflexivity|]. split; [simpl; rewrite Eg, Hm; reflexivity|]. split.
    + intros lyG k bs e HG [E|Hin] He.
      * inversion E; subst. apply Ek; auto. eapply ly_ext_trans; eauto.
      * eapply Hk; eauto.
    + intros k bs [E|Hin]; [inversion E; subst; auto|eauto].
Qed.

(** * instances, annotations *)
Lemma export_import_rotation : forall rot, i32_ok rot -> export_rotation (import_rotation rot) = Ok rot.
Proof.
  intros rot H. unfold import_rotation. destruct (Z.eqb_spec rot 0) as [->|Hne]; [reflexivity|].
  simpl. rewrite f64_int_of_int by auto. rewrite i32_okb_ok by auto. reflexivity.
Qed.
Lemma rexp_instance : forall cm cells pi i, cm_ok cm cells -> i32_ok (pi_rot pi) -> import_instance cm pi = Ok i ->
  export_instance export_rotation cells i = Ok pi /\ exists nm, pi_cell pi = Some (Some (RefLocal nm)) /\ cm_get cm nm = Some (i_cell i).
Proof.
  intros cm cells pi i Hcm Hty H. unfold import_instance in H.
  destruct (pi_cell pi) as [[[name|d nm]|]|] eqn:Ec; try discriminate.
  destruct (cm_get cm name) as [k|] eqn:Hk; try discriminate.
  destruct (pi_origin pi) as [o|] eqn:Eo; try discriminate. inversion H; subst; clear H.
  split; [|eauto]. unfold export_instance. cbn [i_cell i_angle i_name i_loc i_reflect]. destruct (Hcm _ _ Hk) as [t [Ht Hn]]. rewrite Ht.
  rewrite export_import_rotation by auto. simpl. rewrite export_import_point, Hn. destruct pi; simpl in *; subst; reflexivity.
Qed.
Lemma rexp_annotation : forall t e, import_annotation t = Ok e -> export_annotation e = t.
Proof.
  intros t e H. unfold import_annotation in H. destruct (ptx_loc t) as [p|] eqn:E; inversion H; subst.
  unfold export_annotation. simpl. rewrite export_import_point. destruct t; simpl in *; subst; reflexivity.
Qed.

(** * layouts *)
Lemma rexp_layout : forall ly cm l ly' lay,
  layers_wf ly -> playout_canon l -> Forall (fun i => i32_ok (pi_rot i)) (ply_insts l) ->
  import_layout ly cm l = Ok (ly', lay) ->
  layers_wf ly' /\ ly_ext ly ly' /\
  (forall lyG cells, ly_ext ly' lyG -> cm_ok cm cells -> export_layout export_rotation lyG cells lay = Ok l) /\
  (forall d, In d (map i_cell (lay_insts lay)) -> exists nm, cm_get cm nm = Some d).
Proof.
  intros ly cm l ly' lay Hwf [Hcs Hnd] Hty H. unfold import_layout in H.
  apply obind_ok in H. destruct H as [insts [Hi H]]. apply obind_ok in H. destruct H as [[ly1 elems] [He H]].
  apply obind_ok in H. destruct H as [annots [Ha H]]. inversion H; subst; clear H.
  destruct (rexp_shapes_fold _ _ _ _ _ Hwf Hcs He) as [Hwf1 [Hext [blocks [E [Hlp [Hm [Hk Hne]]]]]]]. simpl in E. subst elems.
  split; auto. split; auto. split.
  - intros lyG cells HG Hcm. unfold export_layout. cbn [lay_insts lay_annots lay_elems lay_name].
    assert (E1 : mapM (export_instance export_rotation cells) insts = Ok (ply_insts l)).
    { apply mapM_ok_inv. apply mapM_ok in Hi. clear - Hi Hcm Hty. induction Hi; constructor; inversion Hty; subst; auto.
      eapply rexp_instance; eauto. }
    rewrite E1. simpl.
    assert (E2 : map export_annotation annots = ply_annots l).
    { apply mapM_ok in Ha. clear - Ha. induction Ha; simpl; auto. rewrite (rexp_annotation _ _ H), IHHa. reflexivity. }
    rewrite E2.
    rewrite (group_blocks lyG blocks).
    + simpl. rewrite Hm. simpl. destruct l; reflexivity.
    + intros k es e Hb Hin. eapply Hk; eauto.
    + assert (Hnd' : NoDup (map (fun b : Z * Z * list element => Some (fst b)) blocks)) by (rewrite Hlp; auto).
      rewrite <- (map_map fst (fun k => Some k)) in Hnd'. eapply NoDup_map_inv; eauto.
    + auto.
  - intros d Hd. apply in_map_iff in Hd. destruct Hd as [i [<- Hin]]. apply mapM_ok in Hi.
    clear - Hi Hin. induction Hi; [destruct Hin|]. destruct Hin as [<-|Hin]; auto.
    unfold import_instance in H. destruct (pi_cell x) as [[[name|d nm]|]|]; try discriminate.
    destruct (cm_get cm name) as [k|] eqn:Hk; try discriminate. destruct (pi_origin x); try discriminate. inversion H; subst. simpl. eauto.
Qed.

(** * abstracts *)
Definition abs_layer_ok (ly : layers) (p : purpose) (ls : playershapes) (key : nat) : Prop :=
  exists l ll, pls_layer ls = Some l /\ ly_keynum ly (pl_number l) = Some key /\ nth_error ly key = Some ll /\
    layer_pnum ll p = Some (pl_purpose l).
Lemma abs_layer_ok_ext : forall ly ly' p ls key, ly_ext ly ly' -> abs_layer_ok ly p ls key -> abs_layer_ok ly' p ls key.
Proof.
  intros ly ly' p ls key [_ [_ H3]] [l [ll [A [B [C D]]]]]. destruct (H3 _ _ _ _ _ B C D) as [l' [B' [C' D']]].
  exists l, l'. auto.
Qed.
Lemma goi_existing : forall ly p ls key l, abs_layer_ok ly p ls key -> pls_layer ls = Some l ->
  exists p', get_or_insert ly (pl_number l) (pl_purpose l) = (ly, key, p').
Proof.
  intros ly p ls key l [l0 [ll [A [B [C D]]]]] El. rewrite El in A. inversion A; subst l0; clear A.
  unfold get_or_insert. rewrite B. unfold ly_get. rewrite C.
  assert (Hp : layer_purpose ll (pl_purpose l) <> None).
  { unfold layer_pnum in D. destruct (find_last (fun np => purpose_eqb (snd np) p) (l_pairs ll)) as [[n q]|] eqn:E; [|discriminate].
    simpl in D. inversion D; subst n. apply find_last_some in E. destruct E as [Hin _].
    unfold layer_purpose. destruct (find_last_in _ (fun np => fst np =? pl_purpose l) _ _ Hin) as [y Ey]; [simpl; apply Z.eqb_refl|].
    rewrite Ey. discriminate. }
  destruct (layer_purpose ll (pl_purpose l)) as [p'|]; [eauto|congruence].
Qed.

Lemma rexp_abs_kinds : forall ls rs pas,
  Forall prect_canon (pls_rects ls) -> Forall ppath_canon (pls_paths ls) ->
  Forall (fun r => pr_net r = EmptyString) (pls_rects ls) -> Forall (fun g => pg_net g = EmptyString) (pls_polys ls) ->
  Forall (fun q => pp_net q = EmptyString) (pls_paths ls) ->
  mapM import_rect (pls_rects ls) = Ok rs -> mapM import_path (pls_paths ls) = Ok pas ->
  mapM export_shape (rs ++ map import_polygon (pls_polys ls) ++ pas) =
  Ok (map PSRect (pls_rects ls) ++ map PSPoly (pls_polys ls) ++ map PSPath (pls_paths ls)).
Proof.
  intros ls rs pas Hcr Hcp Hn1 Hn2 Hn3 Hr Hp. apply mapM_ok_inv. apply mapM_ok in Hr. apply mapM_ok in Hp.
  repeat apply Forall2_app'.
  - clear - Hcr Hn1 Hr. induction Hr as [|r s l l' H _ IH]; simpl; constructor; inversion Hcr; inversion Hn1; subst; auto.
    rewrite (rexp_rect _ _ H2 H). rewrite <- H6. rewrite prect_eta. reflexivity.
  - clear - Hn2. induction (pls_polys ls) as [|g l IH]; simpl; constructor; inversion Hn2; subst; auto.
    rewrite rexp_polygon. rewrite <- H1. rewrite ppoly_eta. reflexivity.
  - clear - Hcp Hn3 Hp. induction Hp as [|r s l l' H _ IH]; simpl; constructor; inversion Hcp; inversion Hn3; subst; auto.
    rewrite (rexp_path _ _ H2 H). rewrite <- H6. rewrite ppath_eta. reflexivity.
Qed.

Lemma rexp_abs_entry : forall ly0 ly p m ls ly' m' key,
  pls_abs_canon ly0 p ls -> abs_layer_ok ly p ls key ->
  import_abs_entry (ly, m) ls = Ok (ly', m') ->
  ly' = ly /\ exists shapes, m' = sm_insert m key shapes /\
    forall lyG, ly_ext ly lyG -> export_abs_shapes lyG p (key, shapes) = Ok ls.
Proof.
  intros ly0 ly p m ls ly' m' key [[[l [El [Hi1 Hi2]]] [Hcr Hcp]] [Hn1 [Hn2 [Hn3 _]]]] Hok H.
  unfold import_abs_entry in H. rewrite El in H.
  rewrite (wrap16_id _ (i16_okb_of _ Hi1)), (wrap16_id _ (i16_okb_of _ Hi2)) in H.
  destruct (goi_existing ly p ls key l Hok El) as [p' Eg]. rewrite Eg in H.
  apply obind_ok in H. destruct H as [[ly2 shapes] [Hs H]]. inversion H; subst; clear H.
  unfold import_abstract_layer_shapes in Hs. rewrite El in Hs. unfold import_layer in Hs.
  rewrite (i16_okb_of _ Hi1), (i16_okb_of _ Hi2), Eg in Hs. simpl in Hs.
  apply obind_ok in Hs. destruct Hs as [rs [Hr Hs]]. apply obind_ok in Hs. destruct Hs as [pas [Hp Hs]]. inversion Hs; subst; clear Hs.
  split; auto. eexists. split; [reflexivity|]. intros lyG HG.
  destruct (abs_layer_ok_ext _ _ _ _ _ HG Hok) as [l0 [ll [A [B [C D]]]]]. rewrite El in A. inversion A; subst l0; clear A.
  unfold export_abs_shapes, export_layerspec. cbn [fst snd]. unfold ly_get. rewrite C, D. simpl.
  rewrite (rexp_abs_kinds ls rs pas); auto. simpl. rewrite pls_of_kinds.
  destruct (ly_keynum_some _ _ _ B) as [ll' [C' Hnum]]. rewrite C in C'. inversion C'; subst ll'. rewrite Hnum.
  rewrite player_eta. f_equal. apply pls_eta; auto.
Qed.

Lemma sorted_ascending : forall m : shapemap,
  (forall i j a b, (i < j)%nat -> nth_error (map fst m) i = Some a -> nth_error (map fst m) j = Some b -> (a < b)%nat) ->
  sorted_by_layer m = m.
Proof.
  induction m as [|x r IH]; intros H; [reflexivity|]. unfold sorted_by_layer in *. simpl. rewrite IH.
  - destruct r as [|y r']; [reflexivity|]. simpl.
    assert (fst x < fst y)%nat by (apply (H 0%nat 1%nat); simpl; auto; lia).
    destruct (Nat.leb_spec (fst x) (fst y)); [reflexivity|lia].
  - intros i j a b Hij Ha Hb. apply (H (S i) (S j)); simpl; auto; lia.
Qed.

(** the entries of one port / of the blockages *)
Lemma rexp_abs_entries : forall ly0 p lss ly m ly' m',
  ly_ext ly0 ly -> Forall (pls_abs_canon ly0 p) lss -> ascending_keys (map (pls_key ly0) lss) ->
  (forall k key0 ls r, In k (map fst m) -> lss = ls :: r -> pls_key ly0 ls = Some key0 -> (k < key0)%nat) ->
  foldM import_abs_entry lss (ly, m) = Ok (ly', m') ->
  ly' = ly /\ exists kss, m' = m ++ kss /\
    Forall2 (fun ls ks => pls_key ly0 ls = Some (fst ks) /\ forall lyG, ly_ext ly lyG -> export_abs_shapes lyG p ks = Ok ls) lss kss.
Proof.
  intros ly0 p. induction lss as [|ls r IH]; intros ly m ly' m' Hext Hc Hasc Hlow H.
  - simpl in H. inversion H; subst. split; auto. exists []. rewrite app_nil_r. auto.
  - apply foldM_ok_cons in H. destruct H as [[ly1 m1] [H1 H2]]. inversion Hc as [|? ? Hc1 Hcr]; subst.
    assert (Hk : exists key, pls_key ly0 ls = Some key /\ abs_layer_ok ly0 p ls key).
    { destruct Hc1 as [_ [_ [_ [_ [l [key [ll [A [B [C D]]]]]]]]]]. exists key. unfold pls_key. rewrite A. split; auto. exists l, ll. auto. }
    destruct Hk as [key [Ekey Hok0]].
    destruct (rexp_abs_entry ly0 ly p m ls ly1 m1 key Hc1 (abs_layer_ok_ext _ _ _ _ _ Hext Hok0) H1) as [-> [shapes [-> Hexp]]].
    assert (Hfresh : ~ In key (map fst m)).
    { intros Hin. specialize (Hlow key key ls r Hin eq_refl Ekey). lia. }
    rewrite (sm_insert_new _ _ _ Hfresh) in H2.
    destruct (IH ly (m ++ [(key, shapes)]) ly' m' Hext Hcr) as [-> [kss [-> HF]]]; auto.
    + simpl in Hasc. destruct Hasc as [_ Hasc]. exact Hasc.
    + intros k key1 ls1 r1 Hin -> Ekey1. simpl in Hasc. rewrite Ekey, Ekey1 in Hasc. destruct Hasc as [Hlt _].
      rewrite map_app in Hin. apply in_app_or in Hin. destruct Hin as [Hin|[<-|[]]]; [|exact Hlt].
      specialize (Hlow k key ls (ls1 :: r1) Hin eq_refl Ekey). lia.
    + split; auto. exists ((key, shapes) :: kss). rewrite <- app_assoc. split; auto.
Qed.

Lemma ascending_head_lt : forall ly0 lss kss,
  Forall2 (fun ls (ks : nat * list shape) => pls_key ly0 ls = Some (fst ks)) lss kss ->
  forall key, ascending_keys (Some key :: map (pls_key ly0) lss) ->
  forall j b, nth_error (map fst kss) j = Some b -> (key < b)%nat.
Proof.
  intros ly0 lss kss HF. induction HF as [|ls ks lss kss E HF' IH]; intros key Hasc j b Hb.
  - destruct j; discriminate.
  - cbn [map ascending_keys] in Hasc. rewrite E in Hasc. destruct Hasc as [H1 H2]. destruct j as [|j]; simpl in Hb.
    + inversion Hb; subst. exact H1.
    + assert (fst ks < b)%nat by (apply (IH (fst ks)) with (j := j); auto; cbn [map ascending_keys]; rewrite <- E; exact H2). lia.
Qed.
Lemma ascending_nth : forall ly0 lss kss,
  ascending_keys (map (pls_key ly0) lss) -> Forall2 (fun ls (ks : nat * list shape) => pls_key ly0 ls = Some (fst ks)) lss kss ->
  forall i j a b, (i < j)%nat -> nth_error (map fst kss) i = Some a -> nth_error (map fst kss) j = Some b -> (a < b)%nat.
Proof.
  intros ly0 lss kss Hasc HF. revert Hasc. induction HF as [|ls ks lss kss E HF' IH]; intros Hasc i j a b Hij Ha Hb.
  - destruct i; discriminate.
  - destruct j as [|j]; [lia|]. simpl in Hb. destruct i as [|i]; simpl in Ha.
    + inversion Ha; subst a. eapply (ascending_head_lt ly0 lss kss HF' (fst ks)); eauto.
      cbn [map] in Hasc. rewrite E in Hasc. exact Hasc.
    + cbn [map ascending_keys] in Hasc. destruct Hasc as [_ H2]. apply (IH H2 i j a b); auto. lia.
Qed.

Lemma rexp_abs_list : forall ly0 p lss ly ly' m',
  ly_ext ly0 ly -> plss_abs_canon ly0 p lss ->
  foldM import_abs_entry lss (ly, []) = Ok (ly', m') ->
  ly' = ly /\ forall lyG, ly_ext ly lyG -> mapM (export_abs_shapes lyG p) (sorted_by_layer m') = Ok lss.
Proof.
  intros ly0 p lss ly ly' m' Hext [Hc Hasc] H.
  destruct (rexp_abs_entries ly0 p lss ly [] ly' m' Hext Hc Hasc) as [-> [kss [-> HF]]]; auto. { intros k key0 ls r []. }
  split; auto. intros lyG HG. simpl. rewrite sorted_ascending.
  - apply mapM_ok_inv. clear - HF HG. induction HF as [|ls ks lss kss [_ E] _ IH]; constructor; auto.
  - eapply ascending_nth; eauto. clear - HF. induction HF as [|ls ks lss kss [E _] _ IH]; constructor; auto.
Qed.

Lemma rexp_port : forall ly0 ly p ly' port, ly_ext ly0 ly -> plss_abs_canon ly0 Pin (pap_shapes p) ->
  import_abstract_port ly p = Ok (ly', port) ->
  ly' = ly /\ forall lyG, ly_ext ly lyG -> export_abstract_port lyG sorted_by_layer port = Ok p.
Proof.
  intros ly0 ly p ly' port Hext Hc H. unfold import_abstract_port in H.
  apply obind_ok in H. destruct H as [[ly1 m] [Hf H]]. inversion H; subst; clear H.
  destruct (rexp_abs_list ly0 Pin _ _ _ _ Hext Hc Hf) as [-> Hexp]. split; auto.
  intros lyG HG. unfold export_abstract_port. cbn [ap_shapes ap_net]. rewrite (Hexp lyG HG). simpl. destruct p; reflexivity.
Qed.

Lemma rexp_ports_fold : forall ly0 ps ly acc ly' ports,
  ly_ext ly0 ly -> Forall (fun p => plss_abs_canon ly0 Pin (pap_shapes p)) ps ->
  foldM (fun st p => let '(ly, acc) := st in
                     obind (import_abstract_port ly p) (fun x => let '(ly', port) := x in Ok (ly', acc ++ [port])))
        ps (ly, acc) = Ok (ly', ports) ->
  ly' = ly /\ exists new, ports = acc ++ new /\
    forall lyG, ly_ext ly lyG -> mapM (export_abstract_port lyG sorted_by_layer) new = Ok ps.
Proof.
  intros ly0. induction ps as [|p r IH]; intros ly acc ly' ports Hext Hc H.
  - simpl in H. inversion H; subst. split; auto. exists []. rewrite app_nil_r. auto.
  - apply foldM_ok_cons in H. destruct H as [[ly1 acc1] [H1 H2]].
    apply obind_ok in H1. destruct H1 as [[ly1' port] [H1 E]]. inversion E; subst; clear E.
    inversion Hc; subst. destruct (rexp_port ly0 _ _ _ _ Hext H3 H1) as [-> Hexp].
    destruct (IH _ _ _ _ Hext H4 H2) as [-> [new [-> Hn]]]. split; auto.
    exists (port :: new). rewrite <- app_assoc. split; auto. intros lyG HG. simpl. rewrite (Hexp lyG HG), (Hn lyG HG). reflexivity.
Qed.

Lemma rexp_abstract : forall ly0 ly a ly' ab, ly_ext ly0 ly -> pabs_canon ly0 a ->
  import_abstract ly a = Ok (ly', ab) ->
  ly' = ly /\ forall lyG, ly_ext ly lyG -> export_abstract lyG sorted_by_layer ab = Ok a.
Proof.
  intros ly0 ly a ly' ab Hext [[o [Eo Hno]] [Hp Hb]] H. unfold import_abstract in H.
  apply obind_ok in H. destruct H as [[ly1 ports] [Hpf H]]. apply obind_ok in H. destruct H as [[ly2 blk] [Hbf H]].
  rewrite Eo in H. inversion H; subst; clear H.
  destruct (rexp_ports_fold ly0 _ _ _ _ _ Hext Hp Hpf) as [-> [new [E Hn]]]. simpl in E. subst ports.
  destruct (rexp_abs_list ly0 Obstruction _ _ _ _ Hext Hb Hbf) as [-> Hexp]. split; auto.
  intros lyG HG. unfold export_abstract. cbn [ab_ports ab_blockages ab_name ab_outline].
  rewrite (Hn lyG HG). simpl. rewrite (Hexp lyG HG). simpl. unfold export_polygon. rewrite map_export_import_point.
  rewrite <- Hno. rewrite ppoly_eta. rewrite <- Eo. destruct a; reflexivity.
Qed.

(** * cells *)
Lemma rexp_cell : forall ly0 ly cm c ly' c',
  layers_wf ly -> ly_ext ly0 ly -> pcell_canon ly0 c ->
  (forall l, pc_layout c = Some l -> Forall (fun i => i32_ok (pi_rot i)) (ply_insts l)) ->
  import_cell ly cm c = Ok (ly', c') ->
  layers_wf ly' /\ ly_ext ly ly' /\ c_name c' = pc_name c /\
  (forall lyG cells, ly_ext ly' lyG -> cm_ok cm cells -> export_cell export_rotation lyG sorted_by_layer cells c' = Ok c) /\
  (forall d, In d (cell_deps c') -> exists nm, cm_get cm nm = Some d).
Proof.
  intros ly0 ly cm c ly' c' Hwf Hext0 [Hcirc [Hcl Hca]] Hty H. unfold import_cell in H.
  apply obind_ok in H. destruct H as [[ly1 lay] [Hl H]]. apply obind_ok in H. destruct H as [[ly2 ab] [Ha H]].
  inversion H; subst; clear H.
  assert (L : layers_wf ly1 /\ ly_ext ly ly1 /\
              (forall lyG cells, ly_ext ly1 lyG -> cm_ok cm cells ->
                 match lay with Some l => obind (export_layout export_rotation lyG cells l) (fun pl => Ok (Some pl)) | None => Ok None end
                 = Ok (pc_layout c)) /\
              (forall d, In d (match lay with Some l => map i_cell (lay_insts l) | None => [] end) -> exists nm, cm_get cm nm = Some d)).
  { destruct (pc_layout c) as [l|] eqn:El.
    - apply obind_ok in Hl. destruct Hl as [[ly1' x] [Hl E]]. inversion E; subst; clear E.
      destruct (rexp_layout _ _ _ _ _ Hwf (Hcl l eq_refl) (Hty l eq_refl) Hl) as [W [X [Y Z]]]. split; auto. split; auto. split; auto.
      intros lyG cells HG Hcm. rewrite (Y lyG cells HG Hcm). reflexivity.
    - inversion Hl; subst. split; auto. split; [apply ly_ext_refl|]. split; auto. intros d []. }
  destruct L as [Hwf1 [Hext1 [HL HD]]].
  assert (A : ly' = ly1 /\ forall lyG, ly_ext ly1 lyG ->
                match ab with Some a => obind (export_abstract lyG sorted_by_layer a) (fun pa => Ok (Some pa)) | None => Ok None end
                = Ok (pc_abs c)).
  { destruct (pc_abs c) as [a|] eqn:Ea.
    - apply obind_ok in Ha. destruct Ha as [[ly2' x] [Ha E]]. inversion E; subst; clear E.
      destruct (rexp_abstract ly0 ly1 a ly' x (ly_ext_trans _ _ _ Hext0 Hext1) (Hca a eq_refl) Ha) as [-> Y]. split; auto.
      intros lyG HG. rewrite (Y lyG HG). reflexivity.
    - inversion Ha; subst. auto. }
  destruct A as [-> HA].
  split; auto. split; auto. split; auto. split.
  - intros lyG cells HG Hcm. unfold export_cell. cbn [c_layout c_abs c_name]. rewrite (HL lyG cells HG Hcm). simpl.
    rewrite (HA lyG HG). simpl. rewrite <- Hcirc. destruct c; reflexivity.
  - intros d Hd. unfold cell_deps in Hd. cbn [c_layout] in Hd. apply HD. exact Hd.
Qed.

Definition cm_lt (cm : cellmap) (n : nat) : Prop := forall nm k, cm_get cm nm = Some k -> (k < n)%nat.

Lemma rexp_cells : forall ly0 pcs ly cm cells lyF cmF cellsF,
  layers_wf ly -> ly_ext ly0 ly -> cm_ok cm cells -> cm_lt cm (List.length cells) ->
  Forall (pcell_canon ly0) pcs ->
  (forall c l i, In c pcs -> pc_layout c = Some l -> In i (ply_insts l) -> i32_ok (pi_rot i)) ->
  foldM import_step pcs (ly, cm, cells) = Ok (lyF, cmF, cellsF) ->
  layers_wf lyF /\ ly_ext ly lyF /\
  exists new, cellsF = cells ++ new /\
    (forall lyG rest, ly_ext lyF lyG ->
       Forall2 (fun c' pc => export_cell export_rotation lyG sorted_by_layer (cellsF ++ rest) c' = Ok pc) new pcs) /\
    (forall j c', nth_error new j = Some c' -> forall d, In d (cell_deps c') -> (d < List.length cells + j)%nat).
Proof.
  intros ly0. induction pcs as [|c r IH]; intros ly cm cells lyF cmF cellsF Hwf Hext Hcm Hlt Hc Hty H.
  - simpl in H. inversion H; subst. split; auto. split; [apply ly_ext_refl|]. exists []. rewrite app_nil_r. split; auto. split; auto.
    intros j c' Hj. destruct j; discriminate.
  - apply foldM_ok_cons in H. destruct H as [[[ly1 cm1] cells1] [H1 H2]].
    unfold import_step in H1. apply obind_ok in H1. destruct H1 as [[ly1' c'] [H1 E]]. inversion E; subst; clear E.
    inversion Hc as [|? ? Hc1 Hcr]; subst.
    assert (Hty1 : forall l, pc_layout c = Some l -> Forall (fun i => i32_ok (pi_rot i)) (ply_insts l)).
    { intros l Hl. apply Forall_forall. intros i Hi. eapply Hty; eauto. left; auto. }
    destruct (rexp_cell ly0 _ _ _ _ _ Hwf Hext Hc1 Hty1 H1) as [Hwf1 [Hext1 [Hname [Hexp Hdeps]]]].
    assert (Hcm1 : cm_ok ((pc_name c, List.length cells) :: cm) (cells ++ [c'])).
    { intros name k Hk. simpl in Hk. destruct (String.eqb name (pc_name c)) eqn:E.
      - inversion Hk; subst. exists c'. split. + rewrite nth_error_app2 by lia. rewrite Nat.sub_diag. auto.
        + apply String.eqb_eq in E. congruence.
      - destruct (Hcm _ _ Hk) as [t [Ht Hn]]. exists t. split; auto. rewrite nth_error_app1; auto. apply nth_error_Some. congruence. }
    assert (Hlt1 : cm_lt ((pc_name c, List.length cells) :: cm) (List.length (cells ++ [c']))).
    { intros name k Hk. rewrite app_length. simpl in *. destruct (String.eqb name (pc_name c)).
      - inversion Hk; subst. lia. - specialize (Hlt _ _ Hk). lia. }
    destruct (IH _ _ _ _ _ _ Hwf1 (ly_ext_trans _ _ _ Hext Hext1) Hcm1 Hlt1 Hcr (fun c0 l i Hc0 => Hty c0 l i (or_intror Hc0)) H2)
      as [HwfF [HextF [new [-> [Hall Hback]]]]].
    split; auto. split; [eapply ly_ext_trans; eauto|].
    exists (c' :: new). split; [rewrite <- app_assoc; reflexivity|]. split.
    + intros lyG rest HG. constructor; [|apply Hall; auto].
      apply Hexp; [eapply ly_ext_trans; eauto|].
      intros name k Hk. destruct (Hcm _ _ Hk) as [t [Ht Hn]]. exists t. split; auto.
      rewrite <- !app_assoc. rewrite nth_error_app1; auto. apply nth_error_Some. congruence.
    + intros j c0 Hj d Hd. destruct j as [|j]; simpl in Hj.
      * inversion Hj; subst c0. destruct (Hdeps d Hd) as [nm Hnm]. specialize (Hlt _ _ Hnm). lia.
      * specialize (Hback j c0 Hj d Hd). rewrite app_length in Hback. simpl in Hback. lia.
Qed.

Lemma Forall2_idx_map : forall (A B : Type) (lk : nat -> option A) (f : A -> res B) (e : string) idx l ys,
  Forall2 (fun i c => lk i = Some c) idx l -> Forall2 (fun c y => f c = Ok y) l ys ->
  Forall2 (fun i y => match lk i with Some c => f c | None => Err e end = Ok y) idx ys.
Proof.
  intros A B lk f e idx l ys Hn. revert ys. induction Hn as [|i c idx r Hi _ IH]; intros ys Hall; inversion Hall; subst; constructor; auto.
  rewrite Hi. auto.
Qed.

(** * proto -> raw -> proto *)
Theorem proto_raw_proto : forall ly0 P L,
  layers_wf ly0 -> proto_typed P -> deps_first P -> canonical ly0 P ->
  from_proto ly0 P = Ok L -> to_proto L = Ok P.
Proof.
  intros ly0 P L Hwf Hty Hd [Hauth Hcanon] H. unfold from_proto in H.
  apply obind_ok in H. destruct H as [u [Hu H]]. apply obind_ok in H. destruct H as [[[lyF cmF] cellsF] [Hf H]].
  inversion H; subst; clear H.
  destruct (rexp_cells ly0 (pb_cells P) ly0 [] [] lyF cmF cellsF Hwf (ly_ext_refl _)) as [HwfF [HextF [new [E [Hall Hback]]]]]; auto.
  { intros name k Hk. discriminate. } { intros name k Hk. discriminate. }
  simpl in E. subst new. specialize (Hall lyF [] (ly_ext_refl _)). rewrite app_nil_r in Hall.
  unfold to_proto, to_proto_with. cbn [lib_units lib_cells lib_layers lib_name].
  assert (Eu : export_units u = Ok (pb_units P)).
  { unfold import_units in Hu. destruct (Z.eqb_spec (pb_units P) 0) as [E0|_]; [inversion Hu; subst; rewrite E0; reflexivity|].
    destruct (Z.eqb_spec (pb_units P) 1) as [E1|_]; [inversion Hu; subst; rewrite E1; reflexivity|].
    destruct (Z.eqb_spec (pb_units P) 2) as [E2|_]; [inversion Hu; subst; rewrite E2; reflexivity|discriminate]. }
  rewrite Eu. simpl.
  rewrite dep_order_identity.
  - simpl.
    assert (Em : mapM (fun i => match nth_error cellsF i with
                                | Some c => export_cell export_rotation lyF sorted_by_layer cellsF c
                                | None => Err "model: dangling cell index"%string end) (seq 0 (List.length cellsF)) = Ok (pb_cells P)).
    { apply mapM_ok_inv. pose proof (nth_error_seq_Forall2 _ [] cellsF) as Hn. simpl in Hn.
      exact (Forall2_idx_map _ _ (nth_error cellsF) (export_cell export_rotation lyF sorted_by_layer cellsF) _ _ _ _ Hn Hall). }
    rewrite Em. simpl. rewrite <- Hauth. destruct P; reflexivity.
  - intros j d Hd'. unfold deps_of in Hd'. destruct (nth_error cellsF j) as [c'|] eqn:Ej; [|destruct Hd'].
    specialize (Hback j c' Ej d Hd'). simpl in Hback. exact Hback.
Qed.
