(** Data types shared by the model (RawLef.v), the specification (RawLefSpec.v) and the checker
    (RawLefCheck.v) of C16: the part of a [lef21::LefLibrary] that
    [layout21raw::lef::LefImporter] reads, and the part of a [layout21raw::Library] it builds.
    No proofs in this file. *)
From Coq Require Import ZArith Bool List String.
From L21 Require Import Raw.RawLefDec.
Import ListNotations.
Local Open Scope Z_scope.

(** * LEF side (lef21/src/data.rs) *)
Record lpoint : Type := mklpoint { lpx : dec; lpy : dec }.                       (* LefPoint *)

Inductive lshape : Type :=                                                        (* LefShape; the mask is not read *)
| LRect (p0 p1 : lpoint)
| LPolygon (pts : list lpoint)
| LPath (pts : list lpoint).

Inductive lgeom : Type :=                                                         (* LefGeometry *)
| LShape (s : lshape)
| LIterate (s : lshape).                                                          (* the step pattern is not read *)

Inductive lspacing : Type := LSpacing (d : dec) | LDesignRuleWidth (d : dec).     (* LefLayerSpacing *)

Record llayergeoms : Type := mkllg {                                              (* LefLayerGeometries *)
  lg_layer : string;
  lg_geoms : list lgeom;
  lg_nvias : nat;                 (* vias are ignored with a warning *)
  lg_except_pg : bool;            (* except_pg_net.is_some() *)
  lg_spacing : option lspacing;
  lg_width : option dec }.

Record lpin : Type := mklpin { pin_name : string; pin_ports : list (list llayergeoms) }.  (* LefPin, LefPort.layers *)

Record lmacro : Type := mklmacro {                                                (* LefMacro *)
  m_name : string;
  m_size : option (dec * dec);
  m_pins : list lpin;
  m_obs : list llayergeoms }.

Record llib : Type := mkllib {                                                    (* LefLibrary *)
  lib_case_off : bool;            (* names_case_sensitive == Some(Off) *)
  lib_macros : list lmacro }.

(** * raw side (layout21raw/src/{geom,data}.rs) *)
Definition point : Type := (Z * Z)%type.                                           (* Point { x, y } *)

Inductive shape : Type :=                                                         (* Shape *)
| SRect (p0 p1 : point)
| SPolygon (pts : list point)
| SPath (width : Z) (pts : list point).

(** HashMap<LayerKey, Vec<Shape>>: association list in order of first insertion.  A layer key
    is the index of the layer in the slot map (insertion order; layers are never removed). *)
Definition smap : Type := list (nat * list shape).

Record aport : Type := mkaport { ap_net : string; ap_shapes : smap }.             (* AbstractPort *)

Record abstract : Type := mkabstract {                                            (* Abstract *)
  a_name : string;
  a_outline : list point;         (* Polygon.points *)
  a_ports : list aport;
  a_blockages : smap }.

Record layer : Type := mklayer { ly_num : Z; ly_name : option string }.           (* Layer (purposes not used) *)

Record layers : Type := mklayers {                                                (* Layers *)
  l_slots : list layer;           (* SlotMap<LayerKey, Layer>, by key *)
  l_nums : list (Z * nat);        (* HashMap<i16, LayerKey> *)
  l_names : list (string * nat) }. (* HashMap<String, LayerKey> *)

Definition layers_empty : layers := mklayers [] [] [].

(** Error kinds of the importer ([LayoutError]); [EOther] is never produced by the model. *)
Inductive ekind : Type :=
| EFract        (* "LEF Decimal .. has non-zero fractional part when scaled to internal units" *)
| ERange        (* TryFromIntError: i128 -> isize, isize -> usize *)
| ENoSize       (* "Missing LEF size" *)
| ENoWidth      (* "Invalid LEF Path with no Width" *)
| EExceptPg     (* "Unsupported LEF Feature: except_pg_net" *)
| ESpacing      (* "Unsupported LEF Feature: nonzero spacing" *)
| EIterate      (* "Unsupported LEF Feature: Iterate" *)
| ECaseInsens   (* "Unsupported LEF feature: case-insensitive naming" *)
| ENoLayerNum   (* "No more layer numbers available" *)
| EOther.

(** * association lists standing for the hash maps (lookup by key; insert overwrites) *)
Fixpoint slookup (k : string) (m : list (string * nat)) : option nat :=
  match m with
  | [] => None
  | (k', v) :: r => if String.eqb k k' then Some v else slookup k r
  end.
Fixpoint sinsert (k : string) (v : nat) (m : list (string * nat)) : list (string * nat) :=
  match m with
  | [] => [(k, v)]
  | (k', v') :: r => if String.eqb k k' then (k, v) :: r else (k', v') :: sinsert k v r
  end.
Fixpoint zlookup (k : Z) (m : list (Z * nat)) : option nat :=
  match m with
  | [] => None
  | (k', v) :: r => if k =? k' then Some v else zlookup k r
  end.
Fixpoint zinsert (k : Z) (v : nat) (m : list (Z * nat)) : list (Z * nat) :=
  match m with
  | [] => [(k, v)]
  | (k', v') :: r => if k =? k' then (k, v) :: r else (k', v') :: zinsert k v r
  end.
Fixpoint nlookup (k : nat) (m : smap) : option (list shape) :=
  match m with
  | [] => None
  | (k', v) :: r => if Nat.eqb k k' then Some v else nlookup k r
  end.

(** The layer key registered for a name, and the name of the layer a key denotes. *)
Definition key_of_name (L : layers) (nm : string) : option nat := slookup nm (l_names L).
Definition name_of_key (L : layers) (k : nat) : option string :=
  match nth_error (l_slots L) k with Some ly => ly_name ly | None => None end.

(** * Representable inputs: every decimal of the LEF data is a [rust_decimal::Decimal]
    (96-bit magnitude, scale at most 28). *)
Definition lpoint_wf (p : lpoint) : Prop := dec_wf (lpx p) /\ dec_wf (lpy p).
Definition lshape_wf (s : lshape) : Prop :=
  match s with
  | LRect a b => lpoint_wf a /\ lpoint_wf b
  | LPolygon l => Forall lpoint_wf l
  | LPath l => Forall lpoint_wf l
  end.
Definition lgeom_wf (g : lgeom) : Prop :=
  match g with LShape s => lshape_wf s | LIterate s => lshape_wf s end.
Definition llg_wf (lg : llayergeoms) : Prop :=
  Forall lgeom_wf (lg_geoms lg) /\ (forall w, lg_width lg = Some w -> dec_wf w).
Definition lpin_wf (p : lpin) : Prop := Forall llg_wf (List.concat (pin_ports p)).
Definition lmacro_wf (m : lmacro) : Prop :=
  (forall w h, m_size m = Some (w, h) -> dec_wf w /\ dec_wf h) /\
  Forall lpin_wf (m_pins m) /\ Forall llg_wf (m_obs m).

(** The layer table is consistent: the key registered for a name denotes a layer of that name.
    (True of the empty table, and of any table built by [Layers::add] from layers with distinct names.) *)
Definition layers_wf (L : layers) : Prop :=
  forall nm k, key_of_name L nm = Some k -> name_of_key L k = Some nm.
(** [L'] keeps every registration of [L]. *)
Definition layers_le (L L' : layers) : Prop :=
  forall nm k, key_of_name L nm = Some k -> key_of_name L' nm = Some k.
