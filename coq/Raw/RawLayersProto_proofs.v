(** Proofs about the model of `Layers::from_proto` (Raw/RawLayersProto.v); the statements of the property file
    Properties/C20.v (section "technology protobuf -> layer table") are closed by the theorems of section 4.

    1. the association list [lmap]; 2. the first loop: what the map holds after it ([inv]); 3. the second loop:
    sort, `Layers::add`; 4. the theorems; 5. the refutations for the two earlier texts of the second loop. *)
From Coq Require Import ZArith List String Bool Lia Permutation Sorted.
From L21 Require Import Base.Outcome Raw.RawData Order.SortedIter Raw.RawLayersProto.
Import ListNotations.
Local Open Scope Z_scope.

(** an iteration order of the hash map `layers_by_number`: whatever the map holds, the iterator yields a
    permutation of its entries *)
Definition lperm_oracle (ord : lmap -> lmap) : Prop := forall m, Permutation (ord m) m.

Definition has_index (tech : list tlayer) (k : Z) : bool := existsb (fun tl => tl_index tl =? k) tech.

(** * 1. [lmap] *)
Lemma lm_get_set_same : forall m k v, lm_get (lm_set m k v) k = Some v.
Proof.
  induction m as [|[k' v'] r IH]; intros k v; cbn [lm_set lm_get].
  - now rewrite Z.eqb_refl.
  - destruct (k =? k') eqn:E; cbn [lm_get].
    + now rewrite Z.eqb_refl.
    + rewrite E. apply IH.
Qed.

Lemma lm_get_set_other : forall m k v k', k' <> k -> lm_get (lm_set m k v) k' = lm_get m k'.
Proof.
  induction m as [|[k0 v0] r IH]; intros k v k' Hne; cbn [lm_set lm_get].
  - destruct (k' =? k) eqn:E; [apply Z.eqb_eq in E; contradiction|reflexivity].
  - destruct (k =? k0) eqn:E; cbn [lm_get].
    + apply Z.eqb_eq in E. subst k0.
      destruct (k' =? k) eqn:E'; [apply Z.eqb_eq in E'; contradiction|reflexivity].
    + destruct (k' =? k0); [reflexivity|]. apply IH. exact Hne.
Qed.

Lemma lm_set_keys_in : forall m k v x, In x (map fst (lm_set m k v)) -> x = k \/ In x (map fst m).
Proof.
  induction m as [|[k' v'] r IH]; intros k v x Hin; cbn [lm_set] in Hin.
  - cbn in Hin. destruct Hin as [<-|[]]. now left.
  - destruct (k =? k') eqn:E.
    + apply Z.eqb_eq in E. subst k'. cbn in Hin |- *. destruct Hin as [<-|Hin]; [now left|right; now right].
    + cbn [map fst In] in Hin |- *. destruct Hin as [<-|Hin]; [right; now left|].
      destruct (IH _ _ _ Hin) as [->|H]; [now left|right; now right].
Qed.

Lemma lm_set_nodup : forall m k v, NoDup (map fst m) -> NoDup (map fst (lm_set m k v)).
Proof.
  induction m as [|[k' v'] r IH]; intros k v Hnd; cbn [lm_set].
  - cbn. constructor; [intros []|constructor].
  - destruct (k =? k') eqn:E.
    + apply Z.eqb_eq in E. subst k'. exact Hnd.
    + cbn [map fst] in Hnd |- *. inversion Hnd as [|? ? Hni Hnd']; subst.
      constructor; [|apply IH; exact Hnd'].
      intro Hin. destruct (lm_set_keys_in _ _ _ _ Hin) as [->|H]; [|contradiction].
      rewrite Z.eqb_refl in E. discriminate.
Qed.

Lemma lm_get_in : forall m k v, NoDup (map fst m) -> In (k, v) m -> lm_get m k = Some v.
Proof.
  induction m as [|[k' v'] r IH]; intros k v Hnd Hin; [destruct Hin|].
  cbn [map fst] in Hnd. inversion Hnd as [|? ? Hni Hnd']; subst. cbn [lm_get].
  destruct Hin as [Heq|Hin].
  - injection Heq as -> ->. now rewrite Z.eqb_refl.
  - destruct (k =? k') eqn:E; [|apply IH; assumption].
    apply Z.eqb_eq in E. subst k'. exfalso. apply Hni. change k with (fst (k, v)). apply in_map. exact Hin.
Qed.

Lemma lm_get_some_in : forall m k v, lm_get m k = Some v -> In (k, v) m.
Proof.
  induction m as [|[k' v'] r IH]; intros k v H; cbn [lm_get] in H; [discriminate|].
  destruct (k =? k') eqn:E.
  - apply Z.eqb_eq in E. subst k'. injection H as ->. now left.
  - right. apply IH. exact H.
Qed.

(** * 2. The first loop *)
Lemma tl_purpose_num_ok : forall sub tl, purpose_num_ok sub (tl_purpose sub tl) = true.
Proof.
  intros sub tl. unfold tl_purpose, proto_to_internal_layer_purpose.
  destruct (tl_ptype tl) as [t|]; [destruct (ptype_of_i32 t)|]; cbn [purpose_num_ok]; try reflexivity; apply Z.eqb_refl.
Qed.

Lemma has_index_app : forall a b k, has_index (a ++ b) k = has_index a k || has_index b k.
Proof. intros. unfold has_index. apply existsb_app. Qed.

Lemma pairs_for_app : forall a b k, pairs_for (a ++ b) k = pairs_for a k ++ pairs_for b k.
Proof. intros. unfold pairs_for. now rewrite filter_app, map_app. Qed.

Lemma has_index_false_pairs : forall tech k, has_index tech k = false -> pairs_for tech k = [].
Proof.
  induction tech as [|tl r IH]; intros k H; [reflexivity|].
  unfold has_index in H. cbn [existsb] in H. apply orb_false_iff in H. destruct H as [H1 H2].
  unfold pairs_for. cbn [filter]. rewrite H1. apply IH. exact H2.
Qed.

(** what `layers_by_number` holds after the entries [pre] of the technology: one entry per distinct index,
    whose layer has the truncated number, no name and the `add_purpose` calls of that index in input order *)
Definition inv (pre : list tlayer) (m : lmap) : Prop :=
  NoDup (map fst m) /\
  forall k, lm_get m k = if has_index pre k then Some (layer_for pre k) else None.

Lemma inv_nil : inv [] [].
Proof. split; [constructor|reflexivity]. Qed.

Lemma step_inv : forall pre m tl, inv pre m -> exists m', step m tl = Ok m' /\ inv (pre ++ [tl]) m'.
Proof.
  intros pre m tl [Hnd Hget]. unfold step, layer_add_purpose. rewrite tl_purpose_num_ok.
  eexists. split; [reflexivity|]. split; [apply lm_set_nodup; exact Hnd|].
  intros k. rewrite has_index_app. unfold layer_for. rewrite pairs_for_app.
  destruct (Z.eq_dec k (tl_index tl)) as [->|Hne].
  - rewrite lm_get_set_same.
    assert (Hh : has_index [tl] (tl_index tl) = true) by (unfold has_index; cbn; now rewrite Z.eqb_refl).
    rewrite Hh, orb_true_r. f_equal.
    assert (Hp : pairs_for [tl] (tl_index tl) = [(wrap16 (tl_sub tl), tl_purpose (wrap16 (tl_sub tl)) tl)])
      by (unfold pairs_for; cbn [filter]; now rewrite Z.eqb_refl).
    rewrite Hp. rewrite (Hget (tl_index tl)).
    destruct (has_index pre (tl_index tl)) eqn:E.
    + reflexivity.
    + rewrite (has_index_false_pairs _ _ E). reflexivity.
  - rewrite (lm_get_set_other _ _ _ _ Hne).
    assert (Hh : has_index [tl] k = false).
    { unfold has_index. cbn. rewrite orb_false_r. apply Z.eqb_neq. intro H. apply Hne. now symmetry. }
    rewrite Hh, orb_false_r, (has_index_false_pairs _ _ Hh), app_nil_r. apply Hget.
Qed.

Lemma collect_inv : forall tech pre m, inv pre m -> exists m', collect m tech = Ok m' /\ inv (pre ++ tech) m'.
Proof.
  induction tech as [|tl r IH]; intros pre m Hinv; cbn [collect].
  - exists m. rewrite app_nil_r. now split.
  - destruct (step_inv _ _ tl Hinv) as [m1 [Hs Hinv1]]. rewrite Hs.
    destruct (IH _ _ Hinv1) as [m' [Hc Hinv']]. exists m'. split; [exact Hc|].
    rewrite <- app_assoc in Hinv'. exact Hinv'.
Qed.

(** the first loop never fails (the purpose it builds always carries the number it is filed under) *)
Lemma collect_ok : forall tech, exists m, collect [] tech = Ok m /\ inv tech m.
Proof. intros tech. exact (collect_inv tech [] [] inv_nil). Qed.

Lemma has_index_in : forall tech k, has_index tech k = true <-> In k (map tl_index tech).
Proof.
  intros tech k. unfold has_index. rewrite existsb_exists, in_map_iff. split.
  - intros [tl [Hin E]]. exists tl. apply Z.eqb_eq in E. now split.
  - intros [tl [E Hin]]. exists tl. split; [exact Hin|]. now apply Z.eqb_eq.
Qed.

Lemma inv_entry : forall tech m e, inv tech m -> In e m -> snd e = layer_for tech (fst e).
Proof.
  intros tech m [k l] [Hnd Hget] Hin. cbn [fst snd].
  assert (H := lm_get_in _ _ _ Hnd Hin). rewrite Hget in H.
  destruct (has_index tech k); [injection H as <-; reflexivity|discriminate].
Qed.

Lemma inv_keys : forall tech m k, inv tech m -> (In k (map fst m) <-> In k (map tl_index tech)).
Proof.
  intros tech m k [Hnd Hget]. rewrite <- has_index_in. split.
  - intros Hin. apply in_map_iff in Hin. destruct Hin as [[k' l] [E Hin]]. cbn in E. subst k'.
    assert (H := lm_get_in _ _ _ Hnd Hin). rewrite Hget in H.
    destruct (has_index tech k); [reflexivity|discriminate].
  - intros Hh. specialize (Hget k). rewrite Hh in Hget. apply lm_get_some_in in Hget.
    change k with (fst (k, layer_for tech k)). apply in_map. exact Hget.
Qed.

(** * 3. The second loop *)
Lemma add_all_acc : forall ls acc, fold_left (fun ly l => fst (ly_add ly l)) ls acc = acc ++ ls.
Proof.
  induction ls as [|l r IH]; intros acc; cbn [fold_left].
  - now rewrite app_nil_r.
  - rewrite IH. unfold ly_add. cbn [fst]. now rewrite <- app_assoc.
Qed.

(** `Layers::add` on a fresh table hands out the keys in insertion order: the table is the list of the layers added *)
Lemma add_all_eq : forall ls, add_all ls = ls.
Proof. intros ls. unfold add_all. apply add_all_acc. Qed.

Lemma sorted_keys : forall (A : Type) (es : list (Z * A)), StronglySorted klt es -> StronglySorted Z.lt (map fst es).
Proof.
  intros A es. induction 1 as [|a l Hs IH Hall]; cbn [map]; constructor; [exact IH|].
  apply Forall_map. exact Hall.
Qed.

Lemma map_snd_layer_for : forall tech (es : lmap),
  (forall e, In e es -> snd e = layer_for tech (fst e)) -> map snd es = map (layer_for tech) (map fst es).
Proof.
  intros tech es H. rewrite map_map. apply map_ext_in. exact H.
Qed.

(** * 4. The theorems *)
(** (a) the table does not depend on the iteration order of the hash map *)
Theorem from_proto_order_independent : forall ord1 ord2 tech, lperm_oracle ord1 -> lperm_oracle ord2 ->
  from_proto ord1 tech = from_proto ord2 tech.
Proof.
  intros ord1 ord2 tech H1 H2. unfold from_proto, from_proto_with.
  destruct (collect_ok tech) as [m [Hc [Hnd _]]]. rewrite Hc. cbn [visit]. do 3 f_equal.
  apply sorted_iteration_order_irrelevant.
  - eapply Permutation_NoDup; [|exact Hnd]. apply Permutation_map. symmetry. apply H1.
  - rewrite (H1 m). symmetry. apply H2.
Qed.

(** the same for any two permutations of the entries the map holds after the first loop (no oracle function needed) *)
Theorem from_proto_any_permutation : forall tech m p1 p2, collect [] tech = Ok m ->
  Permutation p1 m -> Permutation p2 m -> add_all (visit SortByKey p1) = add_all (visit SortByKey p2).
Proof.
  intros tech m p1 p2 Hc Hp1 Hp2. destruct (collect_ok tech) as [m0 [Hc0 [Hnd _]]].
  rewrite Hc in Hc0. injection Hc0 as <-. cbn [visit]. do 2 f_equal.
  apply sorted_iteration_order_irrelevant.
  - eapply Permutation_NoDup; [|exact Hnd]. apply Permutation_map. symmetry. exact Hp1.
  - rewrite Hp1. symmetry. exact Hp2.
Qed.

(** (b) what the table is: always `Ok`; one layer per distinct index of the technology, in strictly ascending
    order of the (64-bit) index; the layer of index [k] has the number `k as i16`, no name, and received exactly
    the `add_purpose(sub_index as i16, purpose)` calls of the entries with that index, in input order *)
Theorem from_proto_spec : forall ord tech, lperm_oracle ord ->
  exists keys, from_proto ord tech = Ok (map (layer_for tech) keys) /\
    StronglySorted Z.lt keys /\ (forall k, In k keys <-> In k (map tl_index tech)).
Proof.
  intros ord tech Ho. unfold from_proto, from_proto_with.
  destruct (collect_ok tech) as [m [Hc Hinv]]. rewrite Hc. cbn [visit]. rewrite add_all_eq.
  assert (Hp : Permutation (isort (ord m)) m) by (rewrite isort_perm; apply Ho).
  exists (map fst (isort (ord m))). split; [|split].
  - f_equal. apply map_snd_layer_for. intros e Hin. eapply inv_entry; [exact Hinv|].
    eapply Permutation_in; [exact Hp|exact Hin].
  - apply sorted_keys, isort_sorted. destruct Hinv as [Hnd _].
    eapply Permutation_NoDup; [|exact Hnd]. apply Permutation_map. symmetry. apply Ho.
  - intros k. rewrite <- (inv_keys _ _ k Hinv). split; intro Hin.
    + eapply Permutation_in; [apply Permutation_map; exact Hp|exact Hin].
    + eapply Permutation_in; [apply Permutation_map; symmetry; exact Hp|exact Hin].
Qed.

(** the keys of (b) are determined by the technology: two strictly ascending lists with the same members are equal *)
Lemma sorted_same_members_eq : forall l1 l2 : list Z, StronglySorted Z.lt l1 -> StronglySorted Z.lt l2 ->
  (forall k, In k l1 <-> In k l2) -> l1 = l2.
Proof.
  induction l1 as [|a t1 IH]; intros l2 H1 H2 Hm.
  - destruct l2 as [|b t2]; [reflexivity|]. exfalso. apply (proj2 (Hm b)). now left.
  - destruct l2 as [|b t2]; [exfalso; apply (proj1 (Hm a)); now left|].
    inversion H1 as [|? ? H1' Ha]; subst. inversion H2 as [|? ? H2' Hb]; subst.
    rewrite Forall_forall in Ha, Hb.
    assert (Hab : a = b).
    { destruct (proj1 (Hm a) (or_introl eq_refl)) as [->|Hina]; [reflexivity|].
      destruct (proj2 (Hm b) (or_introl eq_refl)) as [->|Hinb]; [reflexivity|].
      specialize (Ha _ Hinb). specialize (Hb _ Hina). lia. }
    subst b. f_equal. apply IH; [exact H1'|exact H2'|].
    intros k. split; intro Hin.
    + destruct (proj1 (Hm k) (or_intror Hin)) as [<-|H]; [|exact H]. specialize (Ha _ Hin). lia.
    + destruct (proj2 (Hm k) (or_intror Hin)) as [<-|H]; [|exact H]. specialize (Hb _ Hin). lia.
Qed.

(** (b) in closed form: the table is [table_spec tech], whatever the oracle *)
Lemma dedupz_in : forall l x, In x (dedupz l) <-> In x l.
Proof.
  induction l as [|a r IH]; intros x; cbn [dedupz]; [tauto|].
  destruct (existsb (Z.eqb a) r) eqn:E.
  - rewrite IH. split; [intro H; now right|]. intros [<-|H]; [|exact H].
    apply existsb_exists in E. destruct E as [y [Hy Ey]]. apply Z.eqb_eq in Ey. now subst y.
  - cbn [In]. rewrite IH. tauto.
Qed.

Lemma dedupz_nodup : forall l, NoDup (dedupz l).
Proof.
  induction l as [|a r IH]; cbn [dedupz]; [constructor|].
  destruct (existsb (Z.eqb a) r) eqn:E; [exact IH|].
  constructor; [|exact IH]. rewrite dedupz_in. intro Hin.
  assert (H : existsb (Z.eqb a) r = true) by (apply existsb_exists; exists a; split; [exact Hin|apply Z.eqb_refl]).
  rewrite H in E. discriminate.
Qed.

Lemma spec_keys_sorted : forall tech, StronglySorted Z.lt (spec_keys tech).
Proof.
  intros tech. unfold spec_keys. apply sorted_keys, isort_sorted.
  rewrite map_map. cbn [fst]. rewrite map_id. apply dedupz_nodup.
Qed.

Lemma spec_keys_members : forall tech k, In k (spec_keys tech) <-> In k (map tl_index tech).
Proof.
  intros tech k. unfold spec_keys. rewrite <- (dedupz_in (map tl_index tech) k).
  set (d := dedupz (map tl_index tech)).
  assert (Hp : Permutation (map fst (isort (map (fun k0 : Z => (k0, tt)) d))) d).
  { rewrite (Permutation_map fst (isort_perm _)). rewrite map_map. cbn [fst]. now rewrite map_id. }
  split; intro H; [eapply Permutation_in; [exact Hp|exact H]|eapply Permutation_in; [symmetry; exact Hp|exact H]].
Qed.

Theorem from_proto_closed_form : forall ord tech, lperm_oracle ord -> from_proto ord tech = Ok (table_spec tech).
Proof.
  intros ord tech Ho. destruct (from_proto_spec ord tech Ho) as [keys [E [Hs Hm]]]. rewrite E.
  assert (Hk : keys = spec_keys tech).
  { apply sorted_same_members_eq; [exact Hs|apply spec_keys_sorted|].
    intros k. rewrite Hm. symmetry. apply spec_keys_members. }
  rewrite Hk. reflexivity.
Qed.

(** no text of the second loop can fail or panic: every variant returns a table, of as many layers as the
    technology has distinct indices *)
Theorem from_proto_with_total : forall v ord tech, exists ly, from_proto_with v ord tech = Ok ly.
Proof.
  intros v ord tech. unfold from_proto_with. destruct (collect_ok tech) as [m [Hc _]]. rewrite Hc. eexists. reflexivity.
Qed.

(** * 5. Refutations: the earlier texts of the second loop *)
Definition w_tech12 : list tlayer := [mktl 1 0 (Some 2); mktl 2 0 (Some 2)].
Definition w_tech_collide : list tlayer := [mktl 1 0 (Some 2); mktl 65537 1 (Some 2)].

Lemma lperm_id : lperm_oracle (fun m => m).
Proof. intros m. reflexivity. Qed.
Lemma lperm_rev : lperm_oracle (@rev (Z * layer)).
Proof. intros m. symmetry. apply Permutation_rev. Qed.

(** as found: two layers, two iteration orders, two tables *)
Theorem from_proto_orig_refuted :
  exists tech ord1 ord2 r1 r2, lperm_oracle ord1 /\ lperm_oracle ord2 /\
    from_proto_orig ord1 tech = Ok r1 /\ from_proto_orig ord2 tech = Ok r2 /\ r1 <> r2.
Proof.
  exists w_tech12, (fun m => m), (@rev (Z * layer)). do 2 eexists.
  split; [exact lperm_id|]. split; [exact lperm_rev|].
  split; [vm_compute; reflexivity|]. split; [vm_compute; reflexivity|]. discriminate.
Qed.

(** after the first repair (stable sort by the truncated layer number): indices 1 and 65537 share the number 1 *)
Theorem from_proto_sort_by_num_refuted :
  exists tech ord1 ord2 r1 r2, lperm_oracle ord1 /\ lperm_oracle ord2 /\
    from_proto_with SortByNum ord1 tech = Ok r1 /\ from_proto_with SortByNum ord2 tech = Ok r2 /\ r1 <> r2.
Proof.
  exists w_tech_collide, (fun m => m), (@rev (Z * layer)). do 2 eexists.
  split; [exact lperm_id|]. split; [exact lperm_rev|].
  split; [vm_compute; reflexivity|]. split; [vm_compute; reflexivity|]. discriminate.
Qed.
