(** C07 -- from exact geometry to the importer's `contains`: on the shape an element comes back with,
    the importer's [Shape::contains] (repaired [Polygon::contains], either [Path::contains]) decides
    exactly the closed region of Raw/RawGdsExportSpec.v ([in_region_shape_nz]); with it the label
    hypotheses of the layout round trip follow from [exportable] and unambiguous labels.
    Uses the C13 theorems of Geom/Contains_proofs.v. *)
From Coq Require Import ZArith List String Bool Lia.
From L21 Require Import Base.Outcome Base.F64 Raw.RawData Raw.RawGdsExport Raw.RawGdsExportSpec Raw.RawGdsExport_proofs Raw.RawGdsRoundtrip_proofs.
From L21 Require Gds.GdsData Geom.Contains Geom.ContainsSpec Geom.ContainsCheck Geom.Contains_proofs Raw.RawGds.
Import ListNotations.
Local Open Scope Z_scope.
Module CP := Geom.Contains_proofs.
Module C := Geom.Contains.
Section Geo.
Import Geom.ContainsSpec Geom.Contains Geom.ContainsCheck Geom.Contains_proofs.
Lemma wind_horizontal a b q : py a = py b -> wind_edge a b q = 0.
Proof.
  intros H. unfold wind_edge, up_right, down_right. rewrite H.
  destruct (py b <=? py q) eqn:E1, (py q <? py b) eqn:E2; cbn [andb]; try reflexivity; b2p; lia.
Qed.

Lemma wind_vertical a b q : px a = px b ->
  wind_edge a b q = if (py a <=? py q) && (py q <? py b) && (px q <? px a) then 1
                    else if (py b <=? py q) && (py q <? py a) && (px q <? px a) then -1 else 0.
Proof.
  intros H. unfold wind_edge, up_right, down_right, cross. rewrite H.
  replace ((px b - px b) * (py q - py a) - (px q - px b) * (py b - py a)) with ((px b - px q) * (py b - py a)) by ring.
  destruct (py a <=? py q) eqn:E1, (py q <? py b) eqn:E2; cbn [andb]; b2p.
  - assert (0 < py b - py a) by lia.
    destruct (px q <? px b) eqn:E3; b2p.
    + replace (0 <? (px b - px q) * (py b - py a)) with true; [reflexivity|]. symmetry. apply Z.ltb_lt. apply Z.mul_pos_pos; lia.
    + replace (0 <? (px b - px q) * (py b - py a)) with false.
      2:{ symmetry. apply Z.ltb_ge. apply Z.mul_nonpos_nonneg; lia. }
      destruct (py b <=? py q) eqn:E4, (py q <? py a) eqn:E5; cbn [andb]; try reflexivity; b2p; lia.
  - destruct (py b <=? py q) eqn:E4, (py q <? py a) eqn:E5; cbn [andb]; try reflexivity; b2p. lia.
  - destruct (py b <=? py q) eqn:E4; cbn [andb]; [|reflexivity]. b2p. lia.
  - destruct (py b <=? py q) eqn:E4; cbn [andb]; [|b2p; lia]. b2p.
    destruct (py q <? py a) eqn:E5; cbn [andb]; [|b2p; lia]. b2p.
    assert (py b - py a < 0) by lia.
    destruct (px q <? px b) eqn:E3; b2p.
    + replace ((px b - px q) * (py b - py a) <? 0) with true; [reflexivity|]. symmetry. apply Z.ltb_lt. apply Z.mul_pos_neg; lia.
    + replace ((px b - px q) * (py b - py a) <? 0) with false; [reflexivity|]. symmetry. apply Z.ltb_ge. apply Z.mul_nonpos_nonpos; lia.
Qed.

Lemma on_seg_vertical a b q : px a = px b ->
  (on_seg a b q <-> px q = px a /\ Z.min (py a) (py b) <= py q <= Z.max (py a) (py b)).
Proof.
  intros H. unfold on_seg, in_seg_box, cross. rewrite H.
  replace ((px b - px b) * (py q - py a) - (px q - px b) * (py b - py a)) with ((px b - px q) * (py b - py a)) by ring.
  split.
  - intros [Hc [Hx Hy]]. split; [lia|exact Hy].
  - intros [Hx Hy]. rewrite Hx. split; [ring|]. split; [lia|exact Hy].
Qed.
Lemma on_seg_horizontal a b q : py a = py b ->
  (on_seg a b q <-> py q = py a /\ Z.min (px a) (px b) <= px q <= Z.max (px a) (px b)).
Proof.
  intros H. unfold on_seg, in_seg_box, cross. rewrite H.
  replace ((px b - px a) * (py q - py b) - (px q - px a) * (py b - py b)) with ((px b - px a) * (py q - py b)) by ring.
  split.
  - intros [Hc [Hx Hy]]. split; [lia|exact Hx].
  - intros [Hy Hx]. rewrite Hy. split; [ring|]. split; [exact Hx|lia].
Qed.

Lemma on_boundary4 a b c d q :
  on_boundary [a; b; c; d] q <-> on_seg a b q \/ on_seg b c q \/ on_seg c d q \/ on_seg d a q.
Proof.
  unfold on_boundary. cbn [edges app chain]. split.
  - intros [e [Hin Hon]]. cbn [In] in Hin.
    destruct Hin as [<-|[<-|[<-|[<-|[]]]]]; cbn [fst snd] in Hon; tauto.
  - intros [H|[H|[H|H]]]; [exists (a, b)|exists (b, c)|exists (c, d)|exists (d, a)]; cbn [In fst snd]; tauto.
Qed.
Lemma winding4 a b c d q :
  winding [a; b; c; d] q = wind_edge a b q + (wind_edge b c q + (wind_edge c d q + (wind_edge d a q + 0))).
Proof. reflexivity. Qed.

Lemma rect4_region a b c d q :
  ((px a = px b /\ py b = py c /\ px c = px d /\ py d = py a) \/
   (py a = py b /\ px b = px c /\ py c = py d /\ px d = px a)) ->
  (in_region_nz [a; b; c; d] q <-> in_box a c q).
Proof.
  intros Hp. unfold in_region_nz. rewrite on_boundary4, winding4. unfold in_box.
  destruct Hp as [(H1 & H2 & H3 & H4)|(H1 & H2 & H3 & H4)].
  - rewrite (on_seg_vertical a b q H1), (on_seg_horizontal b c q H2), (on_seg_vertical c d q H3), (on_seg_horizontal d a q H4).
    rewrite (wind_vertical a b q H1), (wind_horizontal b c q H2), (wind_vertical c d q H3), (wind_horizontal d a q H4).
    destruct a as [ax ay], b as [bx by_], c as [cx cy], d as [dx dy], q as [qx qy]. unfold px, py in *. cbn [fst snd] in *. subst.
    repeat match goal with |- context [?x <=? ?y] => destruct (Z.leb_spec x y) end;
    repeat match goal with |- context [?x <? ?y] => destruct (Z.ltb_spec x y) end; cbn [andb]; lia.
  - rewrite (on_seg_horizontal a b q H1), (on_seg_vertical b c q H2), (on_seg_horizontal c d q H3), (on_seg_vertical d a q H4).
    rewrite (wind_horizontal a b q H1), (wind_vertical b c q H2), (wind_horizontal c d q H3), (wind_vertical d a q H4).
    destruct a as [ax ay], b as [bx by_], c as [cx cy], d as [dx dy], q as [qx qy]. unfold px, py in *. cbn [fst snd] in *. subst.
    repeat match goal with |- context [?x <=? ?y] => destruct (Z.leb_spec x y) end;
    repeat match goal with |- context [?x <? ?y] => destruct (Z.ltb_spec x y) end; cbn [andb]; lia.
Qed.

End Geo.
Lemma cpt_spt p : RG.cpt p = spt p.
Proof. reflexivity. Qed.
Lemma map_cpt_spt ps : map RG.cpt ps = map spt ps.
Proof. reflexivity. Qed.

Lemma i32_pt_ok p : point_i32b p = true -> CP.pt_ok (spt p).
Proof.
  unfold point_i32b, i32_okb, CP.pt_ok, CP.coord_ok, spt, CS.px, CS.py. cbn [fst snd]. intros H.
  assert (2 ^ 62 = 4611686018427387904) by reflexivity.
  repeat (apply andb_prop in H; destruct H as [H ?]).
  repeat match goal with H : (_ <=? _) = true |- _ => apply Z.leb_le in H | H : (_ <? _) = true |- _ => apply Z.ltb_lt in H end. lia.
Qed.
Lemma i32_pts_ok ps : forallb point_i32b ps = true -> Forall CP.pt_ok (map spt ps).
Proof.
  induction ps as [|p r IH]; cbn [forallb map]; intros H; [constructor|].
  apply andb_prop in H as [H1 H2]. constructor; [apply i32_pt_ok; exact H1|apply IH; exact H2].
Qed.

(** Manhattan paths: the repaired Path::contains of C06 scans like the code as found *)
Fixpoint manhattan_c (ps : list C.point) : bool :=
  match ps with
  | a :: (b :: _) as r => ((C.X a =? C.X b) || (C.Y a =? C.Y b)) && manhattan_c r
  | _ => true
  end.
Lemma path_scan_fixed_manhattan ps w q :
  manhattan_c ps = true -> RG.path_scan_fixed ps w q = C.path_scan ps (Z.quot w 2) q.
Proof.
  induction ps as [|a r IH]; [reflexivity|]. destruct r as [|b r']; [reflexivity|].
  intros H. cbn [manhattan_c] in H. apply andb_prop in H as [H1 H2]. specialize (IH H2).
  cbn [RG.path_scan_fixed C.path_scan]. 
  destruct (C.X a =? C.X b) eqn:Ex.
  - destruct (C.all_in_int _); [|reflexivity]. destruct (C.rect_contains _ _ _); [reflexivity|exact IH].
  - cbn [orb] in H1. rewrite H1.
    destruct (C.all_in_int _); [|reflexivity]. destruct (C.rect_contains _ _ _); [reflexivity|exact IH].
Qed.
Lemma manhattan_c_of ps : manhattanb ps = true -> manhattan_c (map RG.cpt ps) = true.
Proof.
  induction ps as [|a r IH]; [reflexivity|]. destruct r as [|b r']; [reflexivity|].
  intros H. cbn [manhattanb] in H. apply andb_prop in H as [H1 H2]. cbn [map manhattan_c].
  apply andb_true_intro. split; [exact H1|apply IH; exact H2].
Qed.


(** near = cover for a Manhattan segment of non-zero length *)
Lemma cover_near w a b q : 0 <= w -> a <> b -> CP.seg_cover (Z.quot w 2) a b q -> CS.near_seg w a b q.
Proof.
  intros Hw Hab Hc. destruct a as [ax ay], b as [bx by_], q as [qx qy].
  pose proof (CP.half_width w (Z.abs (qx - ax)) Hw) as Hx.
  pose proof (CP.half_width w (Z.abs (qy - ay)) Hw) as Hy.
  unfold CP.seg_cover, CS.near_seg, CS.px, CS.py in *. cbn [fst snd] in *.
  destruct Hc as [(E & Hd & Hr)|(N & E & Hd & Hr)].
  - right. left. subst bx. repeat split; try lia. intros ->. apply Hab. reflexivity.
  - right. right. repeat split; try lia.
Qed.

Lemma chain_ne ps a b : no_repeatb ps = true -> In (a, b) (CS.chain (map spt ps)) -> a <> b.
Proof.
  induction ps as [|p r IH]; [intros _ []|]. destruct r as [|p' r']; [intros _ []|].
  intros H Hin. cbn [no_repeatb] in H. apply andb_prop in H as [H1 H2]. cbn [map CS.chain] in Hin.
  destruct Hin as [Heq|Hin].
  - injection Heq as <- <-. intros Hc. unfold spt in Hc. injection Hc as Hx Hy.
    apply negb_true_iff in H1. unfold point_eqb in H1. rewrite Hx, Hy, !Z.eqb_refl in H1. discriminate.
  - apply IH; [exact H2|exact Hin].
Qed.

Lemma manhattan_chain ps : manhattanb ps = true ->
  Forall (fun e => CS.manhattan_seg (fst e) (snd e)) (CS.chain (map spt ps)).
Proof.
  induction ps as [|p r IH]; [constructor|]. destruct r as [|p' r']; [constructor|].
  intros H. cbn [manhattanb] in H. apply andb_prop in H as [H1 H2]. cbn [map CS.chain].
  constructor; [|apply IH; exact H2]. cbn [fst snd]. unfold CS.manhattan_seg, spt, CS.px, CS.py. cbn [fst snd].
  apply orb_prop in H1 as [E|E]; apply Z.eqb_eq in E; [left|right]; exact E.
Qed.

(** * The importer's contains on the shape an element comes back with = exact geometry *)
Lemma contains_region c s q :
  RG.fx_contains c = true -> shape_okb s = true -> point_i32b q = true ->
  exists b, RG.shape_contains c (imp_shape s) q = RG.IOk b /\ (b = true <-> in_region_shape_nz s q).
Proof.
  intros Hc Hs Hq. destruct s as [p0 p1|ps|ps w].
  - (* rectangle *)
    exists (C.rect_contains (spt p0) (spt p1) (spt q)). split; [reflexivity|].
    apply CP.rect_contains_spec.
  - (* polygon *)
    cbn [shape_okb] in Hs. apply andb_prop in Hs as [Hi _].
    assert (Hpoly : exists b, RG.shape_contains c (Polygon ps) q = RG.IOk b /\ (b = true <-> in_region_shape_nz (Polygon ps) q)).
    { exists (ContainsCheck.in_region_nzb (map spt ps) (spt q)). split.
      - unfold RG.shape_contains, RG.contains_res. cbn [RG.shape_c]. rewrite Hc.
        rewrite map_cpt_spt, cpt_spt, (CP.poly_contains_eq_nzb _ _ (i32_pts_ok _ Hi) (i32_pt_ok _ Hq)). reflexivity.
      - apply CP.in_region_nzb_spec. }
    destruct ps as [|a [|b [|c0 [|d [|e r]]]]]; try exact Hpoly.
    cbn [imp_shape]. destruct (RG.rect_pattern a b c0 d) eqn:Ep; [|exact Hpoly].
    exists (C.rect_contains (spt a) (spt c0) (spt q)). split; [reflexivity|].
    rewrite CP.rect_contains_spec. cbn [in_region_shape_nz map]. symmetry. apply rect4_region.
    unfold RG.rect_pattern in Ep. apply orb_prop in Ep as [Ep|Ep];
      repeat (apply andb_prop in Ep; destruct Ep as [Ep ?]);
      repeat match goal with H : (_ =? _) = true |- _ => apply Z.eqb_eq in H end; [left|right]; repeat split; assumption.
  - (* path *)
    cbn [shape_okb] in Hs. repeat (apply andb_prop in Hs; destruct Hs as [Hs ?]).
    rename H into Hw32, H0 into Hw0, H1 into Hnr, H2 into Hman, H3 into Hlen.
    apply Z.leb_le in Hw0.
    assert (Hw62 : 0 <= w < 2 ^ 62).
    { unfold i32_okb in Hw32. apply andb_prop in Hw32 as [_ Hw32]. apply Z.ltb_lt in Hw32.
      assert (2 ^ 62 = 4611686018427387904) by reflexivity. lia. }
    assert (Hok : CP.path_ok (map spt ps) w).
    { split; [destruct ps; [discriminate|discriminate]|]. split; [apply i32_pts_ok; exact Hs|]. split; [exact Hw62|].
      apply manhattan_chain. exact Hman. }
    destruct (CP.path_contains_spec (map spt ps) w (spt q) Hok) as [r [Hr [Hcov _]]].
    exists r. split.
    + unfold RG.shape_contains, RG.contains_res. cbn [imp_shape RG.shape_c].
      rewrite map_cpt_spt, cpt_spt.
      destruct (RG.fx_pathdiag c).
      * unfold RG.path_contains_fixed. unfold C.path_contains in Hr.
        destruct (negb (C.in_int w)); [discriminate Hr|].
        destruct (map spt ps) eqn:Em; [discriminate Hr|]. rewrite <- Em in *.
        rewrite path_scan_fixed_manhattan; [rewrite Hr; reflexivity|].
        rewrite <- map_cpt_spt. apply manhattan_c_of. exact Hman.
      * rewrite Hr. reflexivity.
    + rewrite Hcov. cbn [in_region_shape_nz in_region_shape]. unfold CP.path_cover. split.
      * intros [a [b [Hin Hsc]]]. exists (a, b). split; [exact Hin|]. cbn [fst snd].
        apply cover_near; [lia|eapply chain_ne; eassumption|exact Hsc].
      * intros [[a b] [Hin Hn]]. exists a, b. split; [exact Hin|]. cbn [fst snd] in Hn.
        apply CP.near_seg_cover; [lia| |exact Hn].
        pose proof (manhattan_chain ps Hman) as Hm. rewrite Forall_forall in Hm. exact (Hm (a, b) Hin).
Qed.

(** The place where the (repaired) exporter puts a shape's label. *)
Definition label_of (s : shape) : option point :=
  match label_location xcfg_fixed s with Ok p => Some p | _ => None end.

Lemma label_inside_nz s p :
  shape_okb s = true -> label_location xcfg_fixed s = Ok p -> in_region_shape_nz s p.
Proof.
  intros Hs Hl. destruct s as [p0 p1|ps|ps w].
  - exact (rect_label_inside _ _ _ _ Hl).
  - cbn [label_location xcfg_fixed x_contains_orig] in Hl. apply poly_label_sound in Hl.
    unfold poly_contains_v in Hl. cbn [in_region_shape_nz].
    destruct (Contains.poly_contains (map pt2 ps) (pt2 p)) as [b| |] eqn:E; try discriminate. injection Hl as ->.
    apply (CP.poly_contains_nz _ _ _ E). reflexivity.
  - cbn [shape_okb] in Hs. repeat (apply andb_prop in Hs; destruct Hs as [Hs ?]).
    apply (path_label_inside _ _ _ _ Hl). assumption.
Qed.

Lemma all_some_in {A B} (f : A -> option B) : forall l r x,
  all_some (map f l) = Some r -> In x l -> exists y, f x = Some y /\ In y r.
Proof.
  induction l as [|a t IH]; intros r x H Hx; [destruct Hx|]. cbn [map all_some] in H.
  destruct (f a) as [b|] eqn:Fa; [|discriminate]. destruct (all_some (map f t)) as [bs|] eqn:E; [|discriminate].
  injection H as <-. destruct Hx as [<-|Hx].
  - exists b. split; [exact Fa|left; reflexivity].
  - destruct (IH _ _ eq_refl Hx) as [y [H1 H2]]. exists y. split; [exact H1|right; exact H2].
Qed.

Section LayoutSpec.
  Variable c : RG.cfg.
  Variable ly : layers.
  Variable cells : list cell.
  Variable cm : RG.cell_map.
  Variable l : layout.
  Variable g : GdsData.gstruct.
  Variable ev : list velem.
  Hypothesis Hc : RG.fx_contains c = true.
  Hypothesis Hly : layers_okb ly = true.
  Hypothesis Hexp : export_layout xcfg_fixed ly cells l = Ok g.
  Hypothesis Helems : forallb (elem_okb ly) (lay_elems l) = true.
  Hypothesis Hcm : forall i ci, In i (lay_insts l) -> nth_error cells (i_cell i) = Some ci ->
                     exists idx, RG.cm_get cm (bytes_of_string (c_name ci)) = Some idx.
  Hypothesis Hview : all_some (map (elem_view ly) (lay_elems l)) = Some ev.
  Hypothesis Hunamb : unambiguous_view_gen in_region_shape_nz label_of ev.

  Lemma elem_shape_okb_of e : In e (lay_elems l) -> shape_okb (e_shape e) = true.
  Proof.
    intros He. rewrite forallb_forall in Helems. specialize (Helems e He). unfold elem_okb in Helems.
    apply andb_prop in Helems as [_ H]. destruct (e_net e); [|exact H].
    apply andb_prop in H as [H _]. apply andb_prop in H as [H _]. unfold named_shape_okb in H.
    apply andb_prop in H as [H _]. exact H.
  Qed.

  Theorem layout_roundtrip_spec :
    exists l', RG.import_layout c cm ly g = RG.IOk (ly, l') /\
               lay_name l' = lay_name l /\
               Forall2 (inst_rel cells cm) (lay_insts l) (lay_insts l') /\
               Forall2 (elem_rel ly) (lay_elems l) (lay_elems l') /\
               lay_annots l' = [].
  Proof.
    apply (layout_roundtrip_model c ly cells cm l g Hly Hexp); [| exact Hcm | | |].
    - apply Forall_forall. intros e He. pose proof (elem_shape_okb_of e He) as Hs. unfold elem_shape_ok.
      destruct (e_shape e) as [p0 p1|ps|ps w]; try exact I. cbn [shape_okb] in Hs.
      repeat (apply andb_prop in Hs; destruct Hs as [Hs ?]).
      split; [apply Nat.leb_le; assumption|apply Z.leb_le; assumption].
    - intros ej nm loc ek Hej Hn Hloc H32 Hek.
      destruct (contains_region c (e_shape ek) loc Hc (elem_shape_okb_of ek Hek) H32) as [b [Hb _]].
      exists b. exact Hb.
    - intros ej nm loc Hej Hn Hloc H32.
      destruct (contains_region c (e_shape ej) loc Hc (elem_shape_okb_of ej Hej) H32) as [b [Hb Hiff]].
      unfold ishape. rewrite Hb. f_equal. apply Hiff. apply label_inside_nz; [apply elem_shape_okb_of; exact Hej|exact Hloc].
    - intros ej nm loc ek Hej Hn Hloc H32 Hek Hnum Hcont.
      destruct (contains_region c (e_shape ek) loc Hc (elem_shape_okb_of ek Hek) H32) as [b [Hb Hiff]].
      unfold ishape in Hcont. rewrite Hb in Hcont. injection Hcont as ->.
      destruct (all_some_in _ _ _ ej Hview Hej) as [vj [Hvj Hinj]].
      destruct (all_some_in _ _ _ ek Hview Hek) as [vk [Hvk Hink]].
      unfold elem_view in Hvj, Hvk.
      destruct (resolve_lp ly (e_layer ej) (e_purpose ej)) as [[nj xj]|] eqn:Rj; [|discriminate]. injection Hvj as <-.
      destruct (resolve_lp ly (e_layer ek) (e_purpose ek)) as [[nk xk]|] eqn:Rk; [|discriminate]. injection Hvk as <-.
      assert (Hnk : nk = nj).
      { unfold resolve_lp in Rj, Rk. unfold key_num in Hnum.
        destruct (ly_get ly (e_layer ej)) as [lj|]; [|discriminate]. destruct (ly_get ly (e_layer ek)) as [lk|]; [|discriminate].
        destruct (layer_pnum lj (e_purpose ej)); [|discriminate]. destruct (layer_pnum lk (e_purpose ek)); [|discriminate].
        cbn in Hnum. injection Rj as <- _. injection Rk as <- _. congruence. }
      pose proof (Hunamb (mkvelem nj xj (e_shape ej) (e_net ej)) nm loc (mkvelem nk xk (e_shape ek) (e_net ek)) Hinj) as Hu. cbn [v_net v_shape v_lnum] in Hu.
      assert (Hlab : label_of (e_shape ej) = Some loc) by (unfold label_of; rewrite Hloc; reflexivity).
      specialize (Hu Hn Hlab Hink Hnk (proj1 Hiff eq_refl)).
      destruct (e_net ek) as [nm'|]; [|discriminate]. cbn [option_map] in Hu. injection Hu as Hu.
      exists nm'. split; [reflexivity|exact Hu].
  Qed.
End LayoutSpec.

(** * deciders of the regions *)
Lemma in_boxb_spec p0 p1 q : CC.in_boxb p0 p1 q = true <-> CS.in_box p0 p1 q.
Proof. unfold CC.in_boxb, CS.in_box. rewrite !andb_true_iff, !Z.leb_le. tauto. Qed.
Lemma near_segb_spec w a b q : CC.near_segb w a b q = true <-> CS.near_seg w a b q.
Proof.
  unfold CC.near_segb, CS.near_seg. rewrite !orb_true_iff, !andb_true_iff, !Z.leb_le, !Z.eqb_eq, !negb_true_iff, !Z.eqb_neq, CP.on_segb_spec. tauto.
Qed.
Lemma in_region_shape_nzb_spec s q : in_region_shape_nzb s q = true <-> in_region_shape_nz s q.
Proof.
  destruct s as [p0 p1|ps|ps w]; cbn [in_region_shape_nzb in_region_shape_nz in_region_shapeb in_region_shape].
  - apply in_boxb_spec.
  - apply CP.in_region_nzb_spec.
  - rewrite existsb_exists. split; intros [e [H1 H2]]; exists e; (split; [exact H1|]); apply near_segb_spec; exact H2.
Qed.

Theorem labels_unambiguous_nz_atb_sound lab L :
  labels_unambiguous_nz_atb lab L = true -> labels_unambiguous_nz_at lab L.
Proof.
  unfold labels_unambiguous_nz_atb, labels_unambiguous_nz_at. intros H. apply Forall_forall. intros ev Hev.
  rewrite forallb_forall in H. specialize (H ev Hev). unfold unambiguous_view_nzb in H. rewrite forallb_forall in H.
  intros v n p v' Hv Hn Hp Hv' Hl Hr. specialize (H v Hv). rewrite Hn, Hp in H. rewrite forallb_forall in H. specialize (H v' Hv').
  apply orb_prop in H as [H|H].
  - exfalso. apply negb_true_iff in H. apply andb_false_iff in H as [H|H].
    + apply Z.eqb_neq in H. contradiction.
    + apply in_region_shape_nzb_spec in Hr. rewrite Hr in H. discriminate.
  - apply ostring_eqb_eq in H. exact H.
Qed.

(** the code as found puts the label of the triangle (0,0),(1,3),(1,0) at (0,1), outside the triangle *)
Lemma label_inside_orig_refuted :
  exists s p, shape_okb s = true /\ label_location xcfg_orig s = Ok p /\ ~ in_region_shape_nz s p /\
              label_location xcfg_fixed s = Ok (mkpt 1 0).
Proof.
  exists (Polygon [mkpt 0 0; mkpt 1 3; mkpt 1 0]), (mkpt 0 1).
  split; [vm_compute; reflexivity|]. split; [vm_compute; reflexivity|]. split; [|vm_compute; reflexivity].
  intros H. apply in_region_shape_nzb_spec in H. vm_compute in H. discriminate.
Qed.
