(** Model of layout21raw/src/proto.rs: ProtoExporter (`Library::to_proto`) and ProtoImporter
    (`Library::from_proto`), with `DepOrder` of layout21raw/src/data.rs.  Transcribed function
    by function; no proofs in this file.

    Schema side: the prost structs of vlsir.raw (layout21protos) as plain records.  Fields the
    conversion never reads or writes are reduced to a flag: [pc_circuit] ("Cell.interface or
    Cell.module present") and [pb_author] ("Library.author present"); the exporter leaves both
    at their default (absent), the importer ignores them.

    Simplifications (all stated in the report):
    - `i64::try_from(isize)` / `isize::try_from(i64)` (points, rectangle sizes) cannot fail on a
      64-bit target and are identities;
    - the error value is a message only (the context stack is not modelled);
    - `DepOrder { stack, seen, pending }` is the model of property C17 (Order/DepOrderFixed.v),
      not a second transcription;
    - in `export_layout` the pair (`layers : HashMap<(i16,i16), Vec<&Element>>`, `layerorder :
      Vec<(i16,i16)>`) is one association list in first-seen order (the map is only looked up,
      never iterated);
    - arithmetic overflow is the debug-build behaviour ([Panic]);
    - on `Err` the importer's partially updated `Layers` (shared through the `Ptr` the caller
      passed in) is not observable in the model. *)
From Coq Require Import ZArith NArith List String Bool.
From L21 Require Import Base.F64 Base.Outcome Raw.RawData.
From L21 Require Order.DepOrder Order.DepOrderFixed.
Import ListNotations.
Local Open Scope string_scope.
Local Open Scope list_scope.
Local Open Scope Z_scope.
Local Open Scope outcome_scope.

Definition res (A : Type) : Type := outcome string A.

(** `iter().map(f).collect::<Result<Vec<_>,_>>()` and `for x in l { push(f(x)?) }` *)
Fixpoint mapM {A B : Type} (f : A -> res B) (l : list A) : res (list B) :=
  match l with
  | [] => Ok []
  | x :: r => let? y := f x in let? ys := mapM f r in Ok (y :: ys)
  end.
(** `for x in l { s = f(s, x)? }` *)
Fixpoint foldM {S A : Type} (f : S -> A -> res S) (l : list A) (s : S) : res S :=
  match l with
  | [] => Ok s
  | x :: r => let? s' := f s x in foldM f r s'
  end.

(** * vlsir.raw messages *)
Record ppoint : Type := mkpp { ppx : Z; ppy : Z }.                                  (* Point (i64) *)
Record player : Type := mkplayer { pl_number : Z; pl_purpose : Z }.                 (* Layer (i64) *)
Record prect : Type := mkprect {                                                   (* Rectangle *)
  pr_net : string; pr_ll : option ppoint; pr_width : Z; pr_height : Z }.
Record ppoly : Type := mkppoly { pg_net : string; pg_vertices : list ppoint }.      (* Polygon *)
Record ppath : Type := mkppath { pp_net : string; pp_points : list ppoint; pp_width : Z }.  (* Path *)
Record playershapes : Type := mkpls {                                              (* LayerShapes *)
  pls_layer : option player;
  pls_rects : list prect;
  pls_polys : list ppoly;
  pls_paths : list ppath }.
Record ptext : Type := mkptext { ptx_string : string; ptx_loc : option ppoint }.    (* TextElement *)
Inductive prefto : Type :=                                                         (* utils.Reference.to *)
| RefLocal (name : string)
| RefExternal (domain name : string).
Record pinstance : Type := mkpinst {                                               (* Instance *)
  pi_name : string;
  pi_cell : option (option prefto);         (* Option<Reference { to : Option<To> }> *)
  pi_origin : option ppoint;
  pi_reflect : bool;
  pi_rot : Z }.                             (* rotation_clockwise_degrees : i32 *)
Record playout : Type := mkplayout {                                               (* Layout *)
  ply_name : string;
  ply_shapes : list playershapes;
  ply_insts : list pinstance;
  ply_annots : list ptext }.
Record pabsport : Type := mkpabsport { pap_net : string; pap_shapes : list playershapes }.  (* AbstractPort *)
Record pabstract : Type := mkpabstract {                                           (* Abstract *)
  pab_name : string;
  pab_outline : option ppoly;
  pab_ports : list pabsport;
  pab_blockages : list playershapes }.
Record pcell : Type := mkpcell {                                                   (* Cell *)
  pc_name : string;
  pc_circuit : bool;                        (* interface.is_some() || module.is_some() *)
  pc_abs : option pabstract;
  pc_layout : option playout }.
Record plib : Type := mkplib {                                                     (* Library *)
  pb_domain : string;
  pb_units : Z;                             (* i32; MICRO = 0, NANO = 1, ANGSTROM = 2 *)
  pb_cells : list pcell;
  pb_author : bool }.                       (* author.is_some() *)

(** Order in which the entries of a `HashMap<LayerKey, Vec<Shape>>` are visited: a function
    applied to the map's entries.  The exporter functions take it as a parameter [ord]; theorems
    about them hold for every [ord] that returns a permutation of its argument.  The code in
    the tree visits the entries through [sorted_by_layer]. *)
Definition oracle : Type := shapemap -> shapemap.

(** data.rs `sorted_by_layer(map)`: `map.iter().collect()` then `sort_by_key(|(key, _)| **key)`:
    ascending LayerKey (slot index = order in which the layers were added).  The keys of a map
    are distinct, so the result does not depend on the order the hash map was collected in. *)
Fixpoint insert_entry (x : nat * list shape) (l : shapemap) : shapemap :=
  match l with
  | [] => [x]
  | y :: r => if Nat.leb (fst x) (fst y) then x :: l else y :: insert_entry x r
  end.
Definition sorted_by_layer : oracle := fun m => fold_right insert_entry [] m.

(** * ProtoExporter *)
Definition export_units (u : units) : res Z :=
  match u with
  | Micro => Ok 0
  | Nano => Ok 1
  | Angstrom => Ok 2
  | Pico => Panic                            (* unimplemented!() *)
  end.

Definition export_point (p : point) : ppoint := mkpp (px p) (py p).

Definition export_rect (p0 p1 : point) : res prect :=
  let minx := Z.min (px p0) (px p1) in
  let miny := Z.min (py p0) (py p1) in
  let width := Z.max (px p0) (px p1) - minx in
  let height := Z.max (py p0) (py p1) - miny in
  if i64_okb width && i64_okb height
  then Ok (mkprect "" (Some (mkpp minx miny)) width height)
  else Panic.                                (* i64 subtraction overflow *)

Definition export_polygon (pts : list point) : ppoly := mkppoly "" (map export_point pts).

Definition export_path (pts : list point) (width : Z) : res ppath :=
  if width <=? i64_max then Ok (mkppath "" (map export_point pts) width)
  else Err "usize -> i64".                   (* i64::try_from(path.width)? *)

Inductive pshape : Type := PSRect (r : prect) | PSPoly (p : ppoly) | PSPath (p : ppath).   (* ProtoShape *)

Definition export_shape (s : shape) : res pshape :=
  match s with
  | Rect p0 p1 => let? r := export_rect p0 p1 in Ok (PSRect r)
  | Polygon pts => Ok (PSPoly (export_polygon pts))
  | Path pts w => let? p := export_path pts w in Ok (PSPath p)
  end.

Definition pshape_set_net (ps : pshape) (net : string) : pshape :=
  match ps with
  | PSRect r => PSRect (mkprect net (pr_ll r) (pr_width r) (pr_height r))
  | PSPoly p => PSPoly (mkppoly net (pg_vertices p))
  | PSPath p => PSPath (mkppath net (pp_points p) (pp_width p))
  end.

Definition export_element (e : element) : res pshape :=
  let? ps := export_shape (e_shape e) in
  Ok (match e_net e with Some net => pshape_set_net ps net | None => ps end).

(** push onto the by-kind vector of a LayerShapes *)
Definition pls_push (ls : playershapes) (ps : pshape) : playershapes :=
  match ps with
  | PSRect r => mkpls (pls_layer ls) (pls_rects ls ++ [r]) (pls_polys ls) (pls_paths ls)
  | PSPoly p => mkpls (pls_layer ls) (pls_rects ls) (pls_polys ls ++ [p]) (pls_paths ls)
  | PSPath p => mkpls (pls_layer ls) (pls_rects ls) (pls_polys ls) (pls_paths ls ++ [p])
  end.
Definition pls_of (l : player) (pss : list pshape) : playershapes :=
  fold_left pls_push pss (mkpls (Some l) [] [] []).

(** "Collect up shapes by layer": groups in first-seen order of (layer number, purpose number) *)
Definition lpkey : Type := (Z * Z)%type.
Definition lpkey_eqb (a b : lpkey) : bool := (fst a =? fst b) && (snd a =? snd b).
Definition groups : Type := list (lpkey * list element).
Fixpoint group_add (g : groups) (k : lpkey) (e : element) : groups :=
  match g with
  | [] => [(k, [e])]
  | (k', es) :: r => if lpkey_eqb k k' then (k', es ++ [e]) :: r else (k', es) :: group_add r k e
  end.
Fixpoint group_elems (ly : layers) (g : groups) (es : list element) : res groups :=
  match es with
  | [] => Ok g
  | e :: r =>
    match ly_get ly (e_layer e) with
    | None => Err "Invalid Layer"
    | Some l =>
      match layer_pnum l (e_purpose e) with
      | None => Err "Invalid Layer Purpose / DataType"
      | Some pn => group_elems ly (group_add g (l_num l, pn) e) r
      end
    end
  end.
Definition export_group (g : lpkey * list element) : res playershapes :=
  let? pss := mapM export_element (snd g) in
  Ok (pls_of (mkplayer (fst (fst g)) (snd (fst g))) pss).

(** The rotation field of `export_instance`.
    [export_rotation] is the code after the repair (work/c14/fix-export-rotation.patch): the angle is
    written as it is,
      `None => 0`,
      `Some(a) if a.fract() == 0.0 && a >= f64::from(i32::MIN) && a <= f64::from(i32::MAX) => a as i32`,
      any other angle (fractional, NaN, infinite, out of the `i32` range) => `self.fail(..)`.
    (`fract` of an infinity or a NaN is NaN, which is not `== 0.0`; `-0.0` passes and casts to 0.)
    [export_rotation_orig] is the code as found: `rotation_clockwise_degrees: 0`. *)
Definition export_rotation (a : option Z) : res Z :=
  match a with
  | None => Ok 0
  | Some b =>
    match f64_int_value b with
    | Some v => if i32_okb v then Ok v else Err "angle is not a whole number of degrees that fits the schema"
    | None => Err "angle is not a whole number of degrees that fits the schema"
    end
  end.
Definition export_rotation_orig (a : option Z) : res Z := Ok 0.

Definition export_instance (xrot : option Z -> res Z) (cells : list cell) (i : instance) : res pinstance :=
  match nth_error cells (i_cell i) with
  | None => Err "model: dangling cell index (not representable in the Rust data)"
  | Some c =>
    let? rot := xrot (i_angle i) in
    Ok (mkpinst (i_name i) (Some (Some (RefLocal (c_name c)))) (Some (export_point (i_loc i))) (i_reflect i) rot)
  end.

Definition export_annotation (t : textelem) : ptext :=
  mkptext (t_string t) (Some (export_point (t_loc t))).

Definition export_layout (xrot : option Z -> res Z) (ly : layers) (cells : list cell) (l : layout) : res playout :=
  let? insts := mapM (export_instance xrot cells) (lay_insts l) in
  let annots := map export_annotation (lay_annots l) in
  let? g := group_elems ly [] (lay_elems l) in
  let? shapes := mapM export_group g in
  Ok (mkplayout (lay_name l) shapes insts annots).

Definition export_layerspec (ly : layers) (key : nat) (p : purpose) : res player :=
  match ly_get ly key with
  | None => Err "Layer Not Defined in Library"
  | Some l =>
    match layer_pnum l p with
    | None => Err "LayerPurpose Not Defined"
    | Some pn => Ok (mkplayer (l_num l) pn)
    end
  end.

(** export_abstract_blockages / the loop body of export_abstract_port *)
Definition export_abs_shapes (ly : layers) (p : purpose) (ks : nat * list shape) : res playershapes :=
  let? l := export_layerspec ly (fst ks) p in
  let? pss := mapM export_shape (snd ks) in
  Ok (pls_of l pss).

Definition export_abstract_port (ly : layers) (ord : oracle) (port : absport) : res pabsport :=
  let? ls := mapM (export_abs_shapes ly Pin) (ord (ap_shapes port)) in
  Ok (mkpabsport (ap_net port) ls).

Definition export_abstract (ly : layers) (ord : oracle) (a : abstract) : res pabstract :=
  let? ports := mapM (export_abstract_port ly ord) (ab_ports a) in
  let? blk := mapM (export_abs_shapes ly Obstruction) (ord (ab_blockages a)) in
  Ok (mkpabstract (ab_name a) (Some (export_polygon (ab_outline a))) ports blk).

Definition export_cell (xrot : option Z -> res Z) (ly : layers) (ord : oracle) (cells : list cell) (c : cell) : res pcell :=
  let? lay := match c_layout c with
              | Some l => let? pl := export_layout xrot ly cells l in Ok (Some pl)
              | None => Ok None
              end in
  let? ab := match c_abs c with
             | Some a => let? pa := export_abstract ly ord a in Ok (Some pa)
             | None => Ok None
             end in
  Ok (mkpcell (c_name c) false ab lay).

(** DepOrder::order / push (data.rs): the orderer with `seen` and `pending` sets that returns
    an error when a cell is met again while its own instances are being visited.  It is the
    model of property C17, [DepOrderFixed.order_checked] with [all_defined] (a `Ptr<Cell>`
    always resolves), run on the graph "cell index -> target indices of its layout's instances,
    in order" from the roots "every cell of the library, in listing order".  [fuel] bounds the
    recursion DEPTH; depth `number of cells + 1` always suffices (C17: order_checked_bounded). *)
Definition cell_deps (c : cell) : list nat :=
  match c_layout c with
  | Some l => map i_cell (lay_insts l)
  | None => []
  end.
Definition cell_deps_N (cells : list cell) (x : N) : list N :=
  match nth_error cells (N.to_nat x) with
  | Some c => map N.of_nat (cell_deps c)
  | None => []
  end.
Definition dep_order (cells : list cell) : res (list nat) :=
  match DepOrderFixed.order_checked (S (List.length cells)) DepOrder.all_defined (cell_deps_N cells)
                                    (map N.of_nat (seq 0 (List.length cells))) with
  | DepOrder.Ok out => Ok (map N.to_nat out)
  | DepOrder.Err => Err "Cell instantiates itself, directly or through other cells"
  | DepOrder.Panic => Panic
  | DepOrder.OutOfFuel => OutOfFuel
  end.

Definition to_proto_with (xrot : option Z -> res Z) (ord : oracle) (L : library) : res plib :=
  let? u := export_units (lib_units L) in
  let? order := dep_order (lib_cells L) in
  let? cells := mapM (fun i => match nth_error (lib_cells L) i with
                               | Some c => export_cell xrot (lib_layers L) ord (lib_cells L) c
                               | None => Err "model: dangling cell index"
                               end) order in
  Ok (mkplib (lib_name L) u cells false).

(** [to_proto]: the exporter with the rotation repair; [to_proto_orig]: the exporter as found
    (rotation field constant 0).  Which of the two stands for the tree under test is decided
    on every run from the text of `export_instance` (tools/props/c14.py: model_variant). *)
Definition to_proto : library -> res plib := to_proto_with export_rotation sorted_by_layer.
Definition to_proto_orig : library -> res plib := to_proto_with export_rotation_orig sorted_by_layer.
Definition to_proto_v (repaired : bool) : library -> res plib := if repaired then to_proto else to_proto_orig.

(** * ProtoImporter *)
Definition import_units (u : Z) : res units :=
  if u =? 0 then Ok Micro
  else if u =? 1 then Ok Nano
  else if u =? 2 then Ok Angstrom
  else Err "Invalid proto::Units value".

Definition import_point (p : ppoint) : point := mkpt (ppx p) (ppy p).

Definition import_rect (r : prect) : res shape :=
  match pr_ll r with
  | None => Err "Invalid proto::Rectangle with no location"
  | Some p =>
    let x1 := ppx p + pr_width r in
    let y1 := ppy p + pr_height r in
    if i64_okb x1 && i64_okb y1 then Ok (Rect (import_point p) (mkpt x1 y1))
    else Panic                               (* isize addition overflow *)
  end.
Definition import_polygon (p : ppoly) : shape := Polygon (map import_point (pg_vertices p)).
Definition import_path (p : ppath) : res shape :=
  if 0 <=? pp_width p then Ok (Path (map import_point (pp_points p)) (pp_width p))
  else Err "i64 -> usize".                   (* usize::try_from(x.width)? *)

Definition convert_shape (s : shape) (key : nat) (p : purpose) (net : string) : element :=
  mkelem (if String.eqb net "" then None else Some net) key p s.

(** import_layer: `i16::try_from` both numbers, then Layers::get_or_insert *)
Definition import_layer (ly : layers) (l : player) : res (layers * nat * purpose) :=
  if i16_okb (pl_number l) && i16_okb (pl_purpose l)
  then Ok (get_or_insert ly (pl_number l) (pl_purpose l))
  else Err "i64 -> i16".

Definition import_layer_shapes (ly : layers) (ls : playershapes) : res (layers * list element) :=
  match pls_layer ls with
  | None => Err "Invalid proto::LayerShapes with no Layer"
  | Some l =>
    let? (ly1, key, purp) := import_layer ly l in
    let? rs := mapM (fun r => let? s := import_rect r in Ok (convert_shape s key purp (pr_net r))) (pls_rects ls) in
    let ps := map (fun p => convert_shape (import_polygon p) key purp (pg_net p)) (pls_polys ls) in
    let? pas := mapM (fun p => let? s := import_path p in Ok (convert_shape s key purp (pp_net p))) (pls_paths ls) in
    Ok (ly1, rs ++ ps ++ pas)
  end.

Definition import_abstract_layer_shapes (ly : layers) (ls : playershapes) : res (layers * list shape) :=
  match pls_layer ls with
  | None => Err "Invalid proto::LayerShapes with no Layer"
  | Some l =>
    let? (ly1, _, _) := import_layer ly l in
    let? rs := mapM import_rect (pls_rects ls) in
    let ps := map import_polygon (pls_polys ls) in
    let? pas := mapM import_path (pls_paths ls) in
    Ok (ly1, rs ++ ps ++ pas)
  end.

(** loop body shared by import_abstract (blockages) and import_abstract_port:
    `layershapes.layer.as_ref().unwrap()`, `get_or_insert(number as i16, purpose as i16).unwrap()`,
    then import_abstract_layer_shapes and `map.insert(layerkey, shapes)` *)
Definition import_abs_entry (st : layers * shapemap) (ls : playershapes) : res (layers * shapemap) :=
  let '(ly, m) := st in
  match pls_layer ls with
  | None => Panic
  | Some l =>
    let '(ly1, key, _) := get_or_insert ly (wrap16 (pl_number l)) (wrap16 (pl_purpose l)) in
    let? (ly2, shapes) := import_abstract_layer_shapes ly1 ls in
    Ok (ly2, sm_insert m key shapes)
  end.

Definition import_abstract_port (ly : layers) (p : pabsport) : res (layers * absport) :=
  let? (ly1, m) := foldM import_abs_entry (pap_shapes p) (ly, []) in
  Ok (ly1, mkabsport (pap_net p) m).

Definition import_abstract (ly : layers) (a : pabstract) : res (layers * abstract) :=
  let? (ly1, ports) := foldM (fun st p => let '(ly, acc) := st in
                                         let? (ly', port) := import_abstract_port ly p in
                                         Ok (ly', acc ++ [port]))
                              (pab_ports a) (ly, []) in
  let? (ly2, blk) := foldM import_abs_entry (pab_blockages a) (ly1, []) in
  match pab_outline a with
  | None => Panic                            (* pabs.outline.as_ref().unwrap() *)
  | Some o => Ok (ly2, mkabstract (pab_name a) (map import_point (pg_vertices o)) ports blk)
  end.

(** `cell_map : HashMap<String, Ptr<Cell>>`: latest binding first *)
Definition cellmap : Type := list (string * nat).
Fixpoint cm_get (m : cellmap) (name : string) : option nat :=
  match m with
  | [] => None
  | (k, v) :: r => if String.eqb name k then Some v else cm_get r name
  end.

(** The angle: `if rot == 0 { None } else { Some(f64::from(rot)) }` (the field is copied 1:1;
    the schema's default 0 becomes "no angle"). *)
Definition import_rotation (rot : Z) : option Z :=
  if rot =? 0 then None else Some (f64_of_int rot).

Definition import_instance (cm : cellmap) (pi : pinstance) : res instance :=
  match pi_cell pi with
  | None | Some None => Err "Invalid proto::Instance with null Cell"
  | Some (Some (RefExternal _ _)) => Err "Import of external proto-references not supported"
  | Some (Some (RefLocal name)) =>
    match cm_get cm name with
    | None => Err "Instance proto::Instance of undefined cell"
    | Some k =>
      match pi_origin pi with
      | None => Err "Invalid proto::Instance with no Location"
      | Some o => Ok (mkinst (pi_name pi) k (import_point o) (pi_reflect pi) (import_rotation (pi_rot pi)))
      end
    end
  end.

Definition import_annotation (t : ptext) : res textelem :=
  match ptx_loc t with
  | Some p => Ok (mktext (ptx_string t) (import_point p))
  | None => Err "Invalid positionless proto::TextElement"
  end.

Definition import_layout (ly : layers) (cm : cellmap) (l : playout) : res (layers * layout) :=
  let? insts := mapM (import_instance cm) (ply_insts l) in
  let? (ly1, elems) := foldM (fun st s => let '(ly, acc) := st in
                                         let? (ly', es) := import_layer_shapes ly s in
                                         Ok (ly', acc ++ es))
                              (ply_shapes l) (ly, []) in
  let? annots := mapM import_annotation (ply_annots l) in
  Ok (ly1, mklayout (ply_name l) insts elems annots).

Definition import_cell (ly : layers) (cm : cellmap) (c : pcell) : res (layers * cell) :=
  let? (ly1, lay) := match pc_layout c with
                      | Some l => let? (ly', x) := import_layout ly cm l in Ok (ly', Some x)
                      | None => Ok (ly, None)
                      end in
  let? (ly2, ab) := match pc_abs c with
                     | Some a => let? (ly', x) := import_abstract ly1 a in Ok (ly', Some x)
                     | None => Ok (ly1, None)
                     end in
  Ok (ly2, mkcell (pc_name c) ab lay).

(** import_lib.  [ly0] is the `layers` argument of `Library::from_proto` (`None` = [[]]). *)
Definition import_step (st : layers * cellmap * list cell) (c : pcell)
  : res (layers * cellmap * list cell) :=
  let '(ly, cm, cells) := st in
  let? (ly', c') := import_cell ly cm c in
  Ok (ly', (pc_name c, List.length cells) :: cm, cells ++ [c']).

Definition from_proto (ly0 : layers) (P : plib) : res library :=
  let? u := import_units (pb_units P) in
  let? (ly, _, cells) := foldM import_step (pb_cells P) (ly0, [], []) in
  Ok (mklib (pb_domain P) u ly cells).
