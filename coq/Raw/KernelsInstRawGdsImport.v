(** Reading of the generated GDSII-importer kernels (Gen/KernelsRawGdsImportGen.v: layout21raw/src/gds.rs
    `GdsImporter::import_point / import_point_vec / import_box / import_path / import_instance`) at the level of the importer
    model of C06 (Raw/RawGds.v):

    - [rb_xops]  as [rc_xops] of Raw/KernelsInstRaw2.v (Z with the range checks of a debug build, abstract errors), with
                 doubles = their BIT PATTERNS (the model keeps an instance's angle and a STRANS magnification as bit
                 patterns): the literal 1.0 is [bits_one], `==` is IEEE equality on patterns ([feq_bits]: a NaN equals
                 nothing, the two zeros are equal); no other float operation occurs in these functions;
    - strings = byte strings ([G.bytes]); the string literal "" of `inst_name` is [ext_str_lit] = [bytes_of_string];
    - `cell_map : HashMap<String, Ptr<Cell>>` = the model's association list [cell_map] with [cm_get];
    - `import_element_layer` (`&impl HasLayer`: declared at GdsBox and at GdsPath) and `i32::unsigned_abs` are external.
    No proofs in this file. *)
From Coq Require Import ZArith Bool List String.
From L21 Require Import Base.KernelOps Base.KernelOpsX Base.KernelOpsS Base.Outcome Base.F64 Gen.KernelsRawGdsImportGen Raw.KernelsInstRaw2.
From L21 Require Import Raw.RawData.
From L21 Require Gds.GdsData Raw.RawGds Raw.RawGdsExport.
Import ListNotations.
Local Open Scope Z_scope.
Module G := Gds.GdsData.
Module R := Raw.RawGds.

(** IEEE `==` on bit patterns *)
Definition f64_is_nan (b : Z) : bool := (f64_bexp b =? 2047) && negb (f64_frac b =? 0).
Definition feq_bits (a b : Z) : bool :=
  if f64_is_nan a || f64_is_nan b then false
  else if f64_is_zero a && f64_is_zero b then true
  else a =? b.
Definition rb_nof1 (x : Z) : ou Z := Panic.
Definition rb_nof2 (x y : Z) : ou Z := Panic.
Definition rb_kops : kops ou Z Z :=
  {| k_ret := ou_ret; k_bind := ou_bind; k_panic := ou_pan;
     f_zero := 0; f_one := R.bits_one; f_lit := fun _ _ => 0;       (* no other literal occurs *)
     f_add := rb_nof2; f_sub := rb_nof2; f_mul := rb_nof2; f_div := rb_nof2; f_neg := rb_nof1;
     f_eq := feq_bits; f_lt := fun _ _ => false; f_le := fun _ _ => false;
     KernelOps.f_round := rb_nof1; f_rem_euclid := rb_nof2;
     f_to_radians := rb_nof1; f_sin := rb_nof1; f_cos := rb_nof1;
     f_powi := fun _ _ => Panic;
     i_lit := fun z => z; i_minval := ity_min; i_maxval := ity_max;
     i_add := fun t a b => rc_chk t (a + b);
     i_sub := fun t a b => rc_chk t (a - b);
     i_mul := fun t a b => rc_chk t (a * b);
     i_div := fun t a b => if b =? 0 then Panic else rc_chk t (Z.quot a b);
     i_rem := fun t a b => if b =? 0 then Panic else rc_chk t (Z.rem a b);
     i_neg := fun t a => rc_chk t (- a);
     i_and := fun t a b => rc_chk t (Z.land a b);
     i_or := fun t a b => rc_chk t (Z.lor a b);
     i_shl := fun _ _ _ => Panic; i_shr := fun _ _ _ => Panic;
     i_min := Z.min; i_max := Z.max; i_eq := Z.eqb; i_lt := Z.ltb; i_le := Z.leb;
     i_cast := fun _ t z => Ok (if ity_in t z then z else KernelsInst.ity_wrap t z);
     i_try_from := fun _ t z => if ity_in t z then Ok z else Panic;
     i_to_f := fun _ _ => Panic; f_to_i := fun _ _ => Panic;
     v_len := fun A l => Z.of_nat (List.length l); v_get := rc_get;
     k_for := fun Rt St => for_Z ou_ret ou_bind |}.
Definition rb_xops : kxops ou Z Z :=
  {| kx_base := rb_kops; k_fail := ou_err;
     k_unwrap := fun A x => match x with Err _ => Panic | y => y end;
     i_try_from_q := fun _ t z => if ity_in t z then Ok z else Err tt;
     v_set := fun A l i x =>
       if (i <? 0) || (Z.of_nat (List.length l) <=? i) then Panic else Ok (k_list_set l (Z.to_nat i) x);
     v_insert := fun A l i x =>
       if (i <? 0) || (Z.of_nat (List.length l) <? i) then Panic else Ok (k_list_insert l (Z.to_nat i) x) |}.

Definition iunit {A B : Type} (f : A -> B) (x : R.ires A) : ou B := GI.iunit f x.
Definition gstr : Type := G.bytes.
Definition cmap : kmapops gstr kptr :=
  {| km_t := R.cell_map; km_empty := []; km_insert := fun m k v => (k, v) :: m; km_get := R.cm_get |}.
Definition Gpt (p : point) : gPoint Z Z := mk_gPoint (px p) (py p).
Definition Ggp (q : G.point) : gGdsPoint Z Z := mk_gGdsPoint (G.px q) (G.py q).
Definition gp_ok (q : G.point) : Prop := i64_okb (G.px q) = true /\ i64_okb (G.py q) = true.
Definition Gpurp (p : purpose) : gLayerPurpose gstr Z Z :=
  match p with
  | Drawing => gLayerPurpose_Drawing gstr | Pin => gLayerPurpose_Pin gstr | Label => gLayerPurpose_Label gstr
  | Obstruction => gLayerPurpose_Obstruction gstr | Outline => gLayerPurpose_Outline gstr
  | Named s k => gLayerPurpose_Named gstr (RawGdsExport.bytes_of_string s) k
  | Other k => gLayerPurpose_Other gstr k
  end.
Definition Gshape (s : shape) : gShape Z Z :=
  match s with
  | Rect p0 p1 => gShape_Rect (mk_gRect (Gpt p0) (Gpt p1))
  | Polygon pts => gShape_Polygon (mk_gPolygon (map Gpt pts))
  | Path pts w => gShape_Path (mk_gPath (map Gpt pts) w)
  end.
Definition Gelem (e : element) : gElement nat gstr Z Z :=
  mk_gElement nat gstr (option_map RawGdsExport.bytes_of_string (e_net e)) (e_layer e) (Gpurp (e_purpose e)) (Gshape (e_shape e)).
Definition Ginst (i : instance) : gInstance gstr Z Z :=
  mk_gInstance gstr (RawGdsExport.bytes_of_string (i_name i)) (i_cell i) (Gpt (i_loc i)) (i_reflect i) (i_angle i).
Definition Gstrans (s : G.strans) : gGdsStrans Z Z :=
  mk_gGdsStrans (G.st_reflected s) (G.st_abs_mag s) (G.st_abs_angle s) (G.st_mag s) (G.st_angle s).
Definition Gsref (x : G.sref) : gGdsStructRef gstr Z Z :=
  mk_gGdsStructRef gstr (G.sr_name x) (Ggp (G.sr_xy x)) (option_map Gstrans (G.sr_strans x)).
Definition Gimp (cm : R.cell_map) : gGdsImporter gstr cmap Z Z := mk_gGdsImporter gstr cmap cm.

(** `import_element_layer`: Layers::get_or_insert on the element's layer and type numbers; the updated layer table is the
    importer's state, which the generated definitions do not carry *)
Definition x_layer (ly : layers) (layer xtype : Z) : ou (nat * gLayerPurpose gstr Z Z) :=
  let '(_, key, purp) := get_or_insert ly layer xtype in Ok (key, Gpurp purp).
Definition x_uabs (w : Z) : ou Z := Ok (Z.abs w).

Definition g_import_point (q : G.point) : ou (gPoint Z Z) :=
  g_GdsImporter_import_point rb_xops gstr cmap (Gimp []) (Ggp q).
Definition g_import_point_vec (qs : list G.point) : ou (list (gPoint Z Z)) :=
  g_GdsImporter_import_point_vec rb_xops gstr cmap (Gimp []) (map Ggp qs).
Definition g_import_box (ly : layers) (x : G.gbox) : ou (gElement nat gstr Z Z) :=
  g_GdsImporter_import_box rb_xops nat gstr cmap (fun _ _ => x_layer ly (G.x_layer x) (G.x_boxtype x))
                           (Gimp []) (mk_gGdsBox (map Ggp (G.x_xy x))).
Definition g_import_path (ly : layers) (x : G.path) : ou (gElement nat gstr Z Z) :=
  g_GdsImporter_import_path rb_xops nat gstr cmap (fun _ _ => x_layer ly (G.p_layer x) (G.p_datatype x)) x_uabs
                            (Gimp []) (mk_gGdsPath (map Ggp (G.p_xy x)) (G.p_width x)).
Definition g_import_instance (cm : R.cell_map) (x : G.sref) : ou (gInstance gstr Z Z) :=
  g_GdsImporter_import_instance rb_xops gstr cmap RawGdsExport.bytes_of_string (Gimp cm) (Gsref x).

(** * import_units: doubles as DYADIC VALUES ([T.dy] of Geom/Transform.v; [None] = NaN or an infinity), as the model's [near]
    has them: `-` is the rounded sum with the negation ([T.fadd], [T.fneg]), `abs` the magnitude, `<` the order of the
    dyadics ([R.dy_ltb]; false as soon as one side is not finite).  The decimal literals of the source are the doubles
    whose bit patterns the model names ([R.bits_1em12], ..): the correctly rounded values, as the compiler produces them. *)
Module T := Geom.Transform.
Definition fdy : Type := option T.dy.
Definition rd_lit (m e : Z) : fdy :=
  if (m =? 1) && (e =? -12) then T.dy_of_bits R.bits_1em12
  else if (m =? 1) && (e =? -15) then T.dy_of_bits R.bits_1em15
  else if (m =? 1) && (e =? -10) then T.dy_of_bits R.bits_1em10
  else if (m =? 1) && (e =? -13) then T.dy_of_bits R.bits_1em13
  else if (m =? 1) && (e =? -9) then T.dy_of_bits R.bits_1em9
  else if (m =? 1) && (e =? -6) then T.dy_of_bits R.bits_1em6
  else None.
Definition rd_sub (a b : fdy) : ou fdy :=
  Ok (match a, b with Some x, Some y => T.fadd x (T.fneg y) | _, _ => None end).
Definition rd_lt (a b : fdy) : bool := match a, b with Some x, Some y => R.dy_ltb x y | _, _ => false end.
Definition rd_abs (a : fdy) : ou fdy := Ok (option_map R.dy_abs a).
Definition rd_nof1 (x : fdy) : ou fdy := Panic.
Definition rd_nof2 (x y : fdy) : ou fdy := Panic.
Definition rd_kops : kops ou fdy Z :=
  {| k_ret := ou_ret; k_bind := ou_bind; k_panic := ou_pan;
     f_zero := Some T.dzero; f_one := Some T.done; f_lit := rd_lit;
     f_add := rd_nof2; f_sub := rd_sub; f_mul := rd_nof2; f_div := rd_nof2; f_neg := rd_nof1;
     f_eq := fun _ _ => false; f_lt := rd_lt; f_le := fun _ _ => false;
     KernelOps.f_round := rd_nof1; f_rem_euclid := rd_nof2;
     f_to_radians := rd_nof1; f_sin := rd_nof1; f_cos := rd_nof1;
     f_powi := fun _ _ => Panic;
     i_lit := fun z => z; i_minval := ity_min; i_maxval := ity_max;
     i_add := fun t a b => rc_chk t (a + b);
     i_sub := fun t a b => rc_chk t (a - b);
     i_mul := fun t a b => rc_chk t (a * b);
     i_div := fun t a b => if b =? 0 then Panic else rc_chk t (Z.quot a b);
     i_rem := fun t a b => if b =? 0 then Panic else rc_chk t (Z.rem a b);
     i_neg := fun t a => rc_chk t (- a);
     i_and := fun t a b => rc_chk t (Z.land a b);
     i_or := fun t a b => rc_chk t (Z.lor a b);
     i_shl := fun _ _ _ => Panic; i_shr := fun _ _ _ => Panic;
     i_min := Z.min; i_max := Z.max; i_eq := Z.eqb; i_lt := Z.ltb; i_le := Z.leb;
     i_cast := fun _ t z => Ok (if ity_in t z then z else KernelsInst.ity_wrap t z);
     i_try_from := fun _ t z => if ity_in t z then Ok z else Panic;
     i_to_f := fun _ _ => Panic; f_to_i := fun _ _ => Panic;
     v_len := fun A l => Z.of_nat (List.length l); v_get := rc_get;
     k_for := fun Rt St => for_Z ou_ret ou_bind |}.
Definition rd_xops : kxops ou fdy Z :=
  {| kx_base := rd_kops; k_fail := ou_err;
     k_unwrap := fun A x => match x with Err _ => Panic | y => y end;
     i_try_from_q := fun _ t z => if ity_in t z then Ok z else Err tt;
     v_set := fun A l i x =>
       if (i <? 0) || (Z.of_nat (List.length l) <=? i) then Panic else Ok (k_list_set l (Z.to_nat i) x);
     v_insert := fun A l i x =>
       if (i <? 0) || (Z.of_nat (List.length l) <? i) then Panic else Ok (k_list_insert l (Z.to_nat i) x) |}.
Definition Gunits (u : units) : gUnits fdy Z :=
  match u with Micro => gUnits_Micro | Nano => gUnits_Nano | Angstrom => gUnits_Angstrom | Pico => gUnits_Pico end.
Definition cmap_d : kmapops gstr kptr :=
  {| km_t := R.cell_map; km_empty := []; km_insert := fun m k v => (k, v) :: m; km_get := R.cm_get |}.
(** a `GdsUnits(user, db)` given by its two bit patterns *)
Definition g_import_units (u : Z * Z) : ou (gUnits fdy Z) :=
  g_GdsImporter_import_units rd_xops gstr cmap_d rd_abs (mk_gGdsImporter gstr cmap_d []) (mk_gGdsUnits (T.dy_of_bits (fst u)) (T.dy_of_bits (snd u))).
