(** Tie (a) of DESIGN.md 2.3 for the boundary import of the GDSII importer (family "raw_gds", property C06):
    the definition generated from layout21raw/src/gds.rs `GdsImporter::import_boundary` (Gen/KernelsRaw2Gen.v) -- the
    emptiness and closure tests, `pts.pop()`, the two RECTANGLE PATTERNS over `pts[0..3]` and the choice between
    `Shape::Rect { p0: pts[0], p1: pts[2] }` and `Shape::Polygon` -- read over Z with abstract errors ([rc_xops],
    Raw/KernelsInstRaw2.v), EQUALS [import_boundary] of Raw/RawGds.v (the repaired variant: an empty coordinate list is
    an error), the error kind, the element's `net` and the updated layer table apart.  The model matches on the list
    where the code indexes it: the equality is proved here, the model is not changed.  `import_point_vec` and
    `import_element_layer` are external to the generated definition (Raw/KernelsInstRaw2.v, module GI). *)
From Coq Require Import ZArith Bool List Lia.
From L21 Require Import Base.KernelOps Base.KernelOpsX Base.Outcome Gen.KernelsRaw2Gen Raw.KernelsInstRaw2.
From L21 Require Import Raw.RawData.
From L21 Require Gds.GdsData Raw.RawGds.
Import ListNotations.
Local Open Scope Z_scope.
Import GI.

Lemma point_vec_map : forall l,
  map (fun q => mk_gPoint (F:=unit) (gGdsPoint_x q) (gGdsPoint_y q)) (map Ggp l) = map Gpt (map R.import_point l).
Proof. intros l. rewrite !map_map. apply map_ext. intros q. reflexivity. Qed.

Lemma k_last_map : forall (l : list point) d, l <> [] -> k_last (map Gpt l) = Some (Gpt (last l d)).
Proof.
  intros l d H. unfold k_last. rewrite <- map_rev.
  destruct l as [|a r] using rev_ind; [congruence|]. clear IHr.
  rewrite rev_app_distr. cbn [rev app map]. rewrite last_last. reflexivity.
Qed.
Lemma removelast_map : forall (A B : Type) (f : A -> B) l, removelast (map f l) = map f (removelast l).
Proof.
  intros A B f. induction l as [|a r IH]; [reflexivity|].
  cbn [map removelast]. destruct r as [|b r']; [reflexivity|]. cbn [map] in *. rewrite IH. reflexivity.
Qed.
Lemma pt_eqb_G : forall a b,
  andb (px a =? px b) (py a =? py b) = R.pt_eqb a b.
Proof. reflexivity. Qed.

Lemma tie_gds_import_boundary : forall c ly x, R.fx_emptyxy c = true ->
  g_import_boundary ly x = iunit (fun le => Gelem (snd le)) (R.import_boundary c ly x).
Proof.
  intros c ly x Hc. unfold g_import_boundary, g_GdsImporter_import_boundary, R.import_boundary.
  cbn [rc_xops kx_base rc_kops k_bind k_ret k_fail k_panic Gbnd gGdsBoundary_xy x_point_vec ou_bind obind].
  rewrite point_vec_map.
  destruct (map R.import_point (G.b_xy x)) as [|p0 r].
  - cbn [map]. rewrite Hc. reflexivity.
  - assert (Hne : p0 :: r <> []) by congruence.
    cbn [map]. cbn [rc_kops v_get i_lit i_eq]. unfold rc_get. change (0 <? 0) with false. cbv iota.
    change (Z.to_nat 0) with 0%nat. cbn [nth_error ou_bind obind].
    change (Gpt p0 :: map Gpt r) with (map Gpt (p0 :: r)).
    rewrite (k_last_map (p0 :: r) p0 Hne). cbn [ou_bind obind ou_ret Gpt gPoint_x gPoint_y].
    rewrite pt_eqb_G. set (pts := p0 :: r) in *.
    destruct (R.pt_eqb p0 (last pts p0)); cbn [negb]; [|reflexivity].
    unfold k_pop. rewrite removelast_map. set (q := removelast pts).
    unfold R.mk_element, x_element_layer.
    destruct (get_or_insert ly (G.b_layer x) (G.b_datatype x)) as [[ly' key] purp].
    destruct q as [|a [|b [|c0 [|d [|e q']]]]]; try reflexivity.
    + (* four points *)
      destruct a as [ax ay], b as [bx by_], c0 as [cx cy], d as [dx dy].
      cbv -[Z.eqb].
      destruct (ax =? bx), (by_ =? cy), (cx =? dx), (dy =? ay), (ay =? by_), (bx =? cx), (cy =? dy), (dx =? ax); reflexivity.
    + (* five or more *)
      cbn [map rc_kops v_len i_lit i_eq length].
      replace (Z.of_nat (S (S (S (S (S (length (map Gpt q'))))))) =? 4) with false
        by (symmetry; apply Z.eqb_neq; lia).
      reflexivity.
Qed.
