(** Model of `Layout::flatten` (layout21raw/src/data.rs) on a raw [library] (Raw/RawData.v).
    The transform arithmetic, [flatten_helper] and the hierarchy type are those of
    Geom/Transform.v (property C12) -- nothing about transforms is modelled again here.  This
    file only (1) unfolds the `Ptr<Cell>` graph of a library into the tree [T.layout] that
    [T.flatten_helper] walks, (2) runs [T.flatten_K] at K = Z with the exact sine and cosine of
    the right angles, and (3) puts the unchanged fields (net, layer, purpose) back.

    Level.  This is the EXACT (ring level, K = Z) model: it is defined when every instance
    reached carries no angle or a whole multiple of 90 degrees ([T.exact_cs]); any other angle
    gives [T.OutOfModel].  That the floating-point code (libm sine/cosine, f64 products, final
    `round`) computes these exact values at right angles is the subject of C12's correspondence
    run, and is checked again on every case of C06/C07.

    Tags.  [T.element] carries a [Z] tag "standing for everything flatten clones unchanged":
    the tag of element j of cell i is its position in the concatenation of all cells' element
    lists ([all_elems]); [untag] looks the fields up again.

    Recursion: fuel = remaining depth; [S (length cells)] suffices for every acyclic library
    (a cyclic one makes the Rust code recurse without bound: [T.OutOfModel] here).
    No proofs in this file. *)
From Coq Require Import ZArith List Bool.
From L21 Require Import Base.F64 Raw.RawData.
From L21 Require Geom.Transform.
Import ListNotations.
Local Open Scope Z_scope.

Module T := Geom.Transform.

Definition zpt (p : point) : Z * Z := (px p, py p).
Definition ptz (v : Z * Z) : point := mkpt (fst v) (snd v).
Definition tshape (s : shape) : T.shape (Z * Z) :=
  match s with
  | Rect p0 p1 => T.Rect (zpt p0) (zpt p1)
  | Polygon pts => T.Polygon (map zpt pts)
  | Path pts w => T.Path (map zpt pts) w
  end.
Definition shape_of_t (s : T.shape (Z * Z)) : shape :=
  match s with
  | T.Rect p0 p1 => Rect (ptz p0) (ptz p1)
  | T.Polygon pts => Polygon (map ptz pts)
  | T.Path pts w => Path (map ptz pts) w
  end.

(** `angle: Option<f64>` (degrees) -> exact (cos, sin); outer [None]: not a right angle *)
Definition angle_cs (a : option Z) : option (option (Z * Z)) :=
  match a with
  | None => Some None
  | Some b => match f64_int_value b with
              | Some d => option_map Some (T.exact_cs d)
              | None => None
              end
  end.
Definition placement_of (i : instance) : option (T.placement Z) :=
  match angle_cs (i_angle i) with
  | Some ocs => Some (px (i_loc i), py (i_loc i), i_reflect i, ocs)
  | None => None
  end.

Definition cell_elems (c : cell) : list element :=
  match c_layout c with Some l => lay_elems l | None => [] end.
Definition all_elems (cells : list cell) : list element := flat_map cell_elems cells.
(** tag of the first element of cell i *)
Fixpoint elem_offset (cells : list cell) (i : nat) : Z :=
  match cells, i with
  | c :: r, S k => Z.of_nat (length (cell_elems c)) + elem_offset r k
  | _, _ => 0
  end.
Fixpoint tag_from (k : Z) (es : list element) : list (T.element (Z * Z)) :=
  match es with
  | [] => []
  | e :: r => (k, tshape (e_shape e)) :: tag_from (k + 1) r
  end.

Definition tree : Type := T.layout (T.placement Z) (Z * Z).

(** outer [None]: out of fuel, an angle that is not a right angle, or a cell index outside the
    library; inner [None]: the cell has no layout (`cell.layout.as_ref().unwrap()` panics) *)
Fixpoint unfold (fuel : nat) (cells : list cell) (i : nat) : option (option tree) :=
  match fuel with
  | O => None
  | S f =>
    match nth_error cells i with
    | None => None
    | Some c =>
      match c_layout c with
      | None => Some None
      | Some l =>
        let fix go (is : list instance) : option (list (T.placement Z * option tree)) :=
          match is with
          | [] => Some []
          | inst :: r =>
            match placement_of inst with
            | None => None
            | Some p =>
              match unfold f cells (i_cell inst) with
              | None => None
              | Some oc => match go r with Some rest => Some ((p, oc) :: rest) | None => None end
              end
            end
          end in
        match go (lay_insts l) with
        | Some insts => Some (Some (T.Layout (tag_from (elem_offset cells i) (lay_elems l)) insts))
        | None => None
        end
      end
    end
  end.

Definition dummy_elem : element := mkelem None O Drawing (Polygon []).
Definition untag (all : list element) (te : T.element (Z * Z)) : element :=
  let e := nth (Z.to_nat (fst te)) all dummy_elem in
  mkelem (e_net e) (e_layer e) (e_purpose e) (shape_of_t (snd te)).

(** `cells[i].layout.flatten()` *)
Definition raw_flatten (L : library) (i : nat) : T.outcome (list element) :=
  let cells := lib_cells L in
  match unfold (S (length cells)) cells i with
  | Some (Some t) =>
    match T.flatten_K T.ZR t with
    | T.Ok es => T.Ok (map (untag (all_elems cells)) es)
    | T.Panic => T.Panic
    | T.OutOfModel => T.OutOfModel
    end
  | _ => T.OutOfModel
  end.
