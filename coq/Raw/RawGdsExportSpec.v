(** C07 -- specification side of "raw -> GDSII -> raw is the identity".  Written from the property
    statement and DESIGN.md section 4, not from the exporter's code:
    - [in_region_shape]: the closed region a shape covers (exact geometry of Geom/ContainsSpec.v);
    - [shape_equiv]: equality of shapes modulo representation (a Rect with its corners in any order,
      and the 4-vertex axis-parallel polygon with the same corners, are one shape);
    - [lower]: ASCII lower-casing of net names;
    - views: what a cell MEANS as GDSII content -- its instances as (target cell name, location,
      reflection, angle) and its shapes as (layer number, purpose number, shape, net), in order;
      an abstract-only cell means its outline on (32767, 32767) followed by every port shape on the
      layer's Drawing and Pin numbers carrying the port's net (ports in order, layers in ascending
      key order; blockages have no GDSII meaning);
    - [raw_equiv L L']: same units, the same number of cells, and every cell of L found by name in L'
      with a layout whose view is equal modulo [shape_equiv] and lower-casing of nets;
    - [exportable]: the input space of the property (GDSII-representable range);
    - [labels_unambiguous_at]: no named shape's label point lies in another shape of the same layer
      number carrying a different or no net.
    Decision procedures ([..b]) are given next to the definitions they decide; the correspondence
    run evaluates them on the implementation's output.  No proofs in this file. *)
From Coq Require Import ZArith List String Bool Ascii.
From L21 Require Import Base.F64 Raw.RawData.
From L21 Require Geom.ContainsSpec Geom.ContainsCheck.
Import ListNotations.
Local Open Scope list_scope.
Local Open Scope Z_scope.

Module CS := ContainsSpec.
Module CC := ContainsCheck.

(** * Exact geometry *)
Definition spt (p : point) : CS.pt := (px p, py p).

(** "inside the shape": rectangles are closed boxes (corners in either order), polygons the closed
    even-odd region, paths the points within half the width of a segment (flush ends). *)
Definition in_region_shape (s : shape) (q : point) : Prop :=
  match s with
  | Rect p0 p1 => CS.in_box (spt p0) (spt p1) (spt q)
  | Polygon ps => CS.in_region (map spt ps) (spt q)
  | Path ps w => exists e, In e (CS.chain (map spt ps)) /\ CS.near_seg w (fst e) (snd e) (spt q)
  end.
(** the same with the non-zero-winding region for polygons (equal to the even-odd region whenever
    the signed crossing count lies in {-1, 0, 1}, as it does for simple polygons) *)
Definition in_region_shape_nz (s : shape) (q : point) : Prop :=
  match s with
  | Polygon ps => CS.in_region_nz (map spt ps) (spt q)
  | _ => in_region_shape s q
  end.
Definition in_region_shapeb (s : shape) (q : point) : bool :=
  match s with
  | Rect p0 p1 => CC.in_boxb (spt p0) (spt p1) (spt q)
  | Polygon ps => CC.in_regionb (map spt ps) (spt q)
  | Path ps w => existsb (fun e => CC.near_segb w (fst e) (snd e) (spt q)) (CS.chain (map spt ps))
  end.

Definition in_region_shape_nzb (s : shape) (q : point) : bool :=
  match s with
  | Polygon ps => CC.in_region_nzb (map spt ps) (spt q)
  | _ => in_region_shapeb s q
  end.

(** * Shapes modulo representation *)
Definition point_eqb (a b : point) : bool := (px a =? px b) && (py a =? py b).
Fixpoint points_eqb (a b : list point) : bool :=
  match a, b with
  | [], [] => true
  | x :: a', y :: b' => point_eqb x y && points_eqb a' b'
  | _, _ => false
  end.
Definition shape_eqb (a b : shape) : bool :=
  match a, b with
  | Rect p0 p1, Rect q0 q1 => point_eqb p0 q0 && point_eqb p1 q1
  | Polygon ps, Polygon qs => points_eqb ps qs
  | Path ps w, Path qs v => points_eqb ps qs && (w =? v)
  | _, _ => false
  end.

Definition norm_rect (a c : point) : shape :=
  Rect (mkpt (Z.min (px a) (px c)) (Z.min (py a) (py c))) (mkpt (Z.max (px a) (px c)) (Z.max (py a) (py c))).
(** four vertices whose edges alternate vertical/horizontal (either winding): an axis-parallel rectangle *)
Definition axis_parallel4 (a b c d : point) : bool :=
  ((px a =? px b) && (py b =? py c) && (px c =? px d) && (py d =? py a)) ||
  ((py a =? py b) && (px b =? px c) && (py c =? py d) && (px d =? px a)).
Definition shape_norm (s : shape) : shape :=
  match s with
  | Rect p0 p1 => norm_rect p0 p1
  | Polygon [a; b; c; d] => if axis_parallel4 a b c d then norm_rect a c else s
  | _ => s
  end.
Definition shape_equiv (a b : shape) : Prop := shape_norm a = shape_norm b.
Definition shape_equivb (a b : shape) : bool := shape_eqb (shape_norm a) (shape_norm b).

(** * Net names *)
Definition lower_char (a : ascii) : ascii :=
  let n := N_of_ascii a in
  if (N.leb 65 n && N.leb n 90)%bool then ascii_of_N (n + 32) else a.
Fixpoint lower (s : string) : string :=
  match s with
  | EmptyString => EmptyString
  | String a r => String (lower_char a) (lower r)
  end.
Fixpoint is_ascii (s : string) : bool :=
  match s with
  | EmptyString => true
  | String a r => N.ltb (N_of_ascii a) 128 && is_ascii r
  end.
Definition ostring_eqb (a b : option string) : bool :=
  match a, b with
  | None, None => true
  | Some x, Some y => String.eqb x y
  | _, _ => false
  end.

(** * Views *)
Record velem : Type := mkvelem { v_lnum : Z; v_pnum : Z; v_shape : shape; v_net : option string }.
Record vinst : Type := mkvinst { vi_cell : string; vi_loc : point; vi_reflect : bool; vi_angle : option Z }.

Fixpoint all_some {A : Type} (l : list (option A)) : option (list A) :=
  match l with
  | [] => Some []
  | None :: _ => None
  | Some x :: r => match all_some r with Some xs => Some (x :: xs) | None => None end
  end.

Definition elem_view (ly : layers) (e : element) : option velem :=
  match resolve_lp ly (e_layer e) (e_purpose e) with
  | Some (n, pn) => Some (mkvelem n pn (e_shape e) (e_net e))
  | None => None
  end.
Definition inst_view (cells : list cell) (i : instance) : option vinst :=
  match nth_error cells (i_cell i) with
  | Some c => Some (mkvinst (c_name c) (i_loc i) (i_reflect i) (i_angle i))
  | None => None
  end.

(** entries of a by-layer map in ascending key order (keys are distinct) *)
Fixpoint insert_by_key (x : nat * list shape) (l : shapemap) : shapemap :=
  match l with
  | [] => [x]
  | y :: r => if Nat.leb (fst x) (fst y) then x :: l else y :: insert_by_key x r
  end.
Definition by_key (m : shapemap) : shapemap := fold_right insert_by_key [] m.

Definition outline_num : Z := 32767.
Definition port_layer_view (ly : layers) (net : string) (e : nat * list shape) : option (list velem) :=
  match resolve_lp ly (fst e) Drawing, resolve_lp ly (fst e) Pin with
  | Some (n, d), Some (_, p) =>
    Some (flat_map (fun s => [mkvelem n d s (Some net); mkvelem n p s (Some net)]) (snd e))
  | _, _ => None
  end.
Definition port_view (ly : layers) (p : absport) : option (list velem) :=
  option_map (@List.concat velem) (all_some (map (port_layer_view ly (ap_net p)) (by_key (ap_shapes p)))).
Definition abstract_view (ly : layers) (a : abstract) : option (list velem) :=
  match all_some (map (port_view ly) (ab_ports a)) with
  | Some pv => Some (mkvelem outline_num outline_num (Polygon (ab_outline a)) None :: List.concat pv)
  | None => None
  end.

(** the name a cell's GDSII struct carries, and its content *)
Definition cell_view (ly : layers) (cells : list cell) (c : cell) : option (list vinst * list velem) :=
  match c_layout c with
  | Some l =>
    match all_some (map (inst_view cells) (lay_insts l)), all_some (map (elem_view ly) (lay_elems l)) with
    | Some iv, Some ev => Some (iv, ev)
    | _, _ => None
    end
  | None =>
    match c_abs c with
    | Some a => option_map (fun ev => ([], ev)) (abstract_view ly a)
    | None => None
    end
  end.

(** * raw_equiv *)
Definition velem_equiv (v v' : velem) : Prop :=
  v_lnum v' = v_lnum v /\ v_pnum v' = v_pnum v /\ shape_equiv (v_shape v) (v_shape v') /\
  v_net v' = option_map lower (v_net v).
Definition velem_equivb (v v' : velem) : bool :=
  (v_lnum v' =? v_lnum v) && (v_pnum v' =? v_pnum v) && shape_equivb (v_shape v) (v_shape v') &&
  ostring_eqb (v_net v') (option_map lower (v_net v)).

(** the cell [c] of [L] is found by name in [L'], as a layout with the same instances (target
    cell name, location, reflection, angle -- bit-identical -- in order) and the same shapes
    (layer number, purpose number, shape modulo representation, lower-cased net, in order) *)
Definition cell_equiv (L L' : library) (c : cell) : Prop :=
  exists c' l' iv ev ev',
    In c' (lib_cells L') /\ c_name c' = c_name c /\ c_layout c' = Some l' /\
    cell_view (lib_layers L) (lib_cells L) c = Some (iv, ev) /\
    cell_view (lib_layers L') (lib_cells L') c' = Some (iv, ev') /\
    Forall2 velem_equiv ev ev'.

Definition raw_equiv (L L' : library) : Prop :=
  lib_units L' = lib_units L /\
  List.length (lib_cells L') = List.length (lib_cells L) /\
  Forall (cell_equiv L L') (lib_cells L).

Definition units_eqb (a b : units) : bool :=
  match a, b with
  | Micro, Micro | Nano, Nano | Angstrom, Angstrom | Pico, Pico => true
  | _, _ => false
  end.
Definition oz_eqb (a b : option Z) : bool :=
  match a, b with None, None => true | Some x, Some y => x =? y | _, _ => false end.
Definition vinst_eqb (a b : vinst) : bool :=
  String.eqb (vi_cell a) (vi_cell b) && point_eqb (vi_loc a) (vi_loc b) &&
  Bool.eqb (vi_reflect a) (vi_reflect b) && oz_eqb (vi_angle a) (vi_angle b).
Fixpoint forall2b {A B : Type} (f : A -> B -> bool) (a : list A) (b : list B) : bool :=
  match a, b with
  | [], [] => true
  | x :: a', y :: b' => f x y && forall2b f a' b'
  | _, _ => false
  end.
Definition cell_equivb (L L' : library) (c : cell) : bool :=
  existsb (fun c' =>
    String.eqb (c_name c') (c_name c) &&
    match c_layout c', cell_view (lib_layers L) (lib_cells L) c,
          cell_view (lib_layers L') (lib_cells L') c' with
    | Some _, Some (iv, ev), Some (iv', ev') => forall2b vinst_eqb iv iv' && forall2b velem_equivb ev ev'
    | _, _, _ => false
    end) (lib_cells L').
Definition raw_equivb (L L' : library) : bool :=
  units_eqb (lib_units L') (lib_units L) &&
  Nat.eqb (List.length (lib_cells L')) (List.length (lib_cells L)) &&
  forallb (cell_equivb L L') (lib_cells L).

(** * The input space: [exportable] *)
Definition point_i32b (p : point) : bool := i32_okb (px p) && i32_okb (py p).

(** consecutive points share x or y *)
Fixpoint manhattanb (ps : list point) : bool :=
  match ps with
  | a :: (b :: _) as r => ((px a =? px b) || (py a =? py b)) && manhattanb r
  | _ => true
  end.

(** The places where a label may be put on a polygon (property anchor "label placement inside the
    shape"): the centre of the bounding box (halves truncated toward zero) and the four unit
    neighbours of the first vertex.  A polygon "has a label location" when one of them is inside
    (and all of them are representable in GDSII: the first vertex is not on the edge of the i32 range). *)
Definition bbox_centre (ps : list point) : point :=
  let xs := map px ps in let ys := map py ps in
  let mn l := fold_right Z.min (hd 0 l) l in let mx l := fold_right Z.max (hd 0 l) l in
  mkpt (Z.quot (mn xs + mx xs) 2) (Z.quot (mn ys + mx ys) 2).
Definition label_candidates (ps : list point) : list point :=
  match ps with
  | [] => []
  | p0 :: _ => [bbox_centre ps; mkpt (px p0) (py p0 - 1); mkpt (px p0 - 1) (py p0);
                mkpt (px p0) (py p0 + 1); mkpt (px p0 + 1) (py p0)]
  end.
Definition has_label_locationb (s : shape) : bool :=
  match s with
  | Polygon ps => forallb point_i32b (label_candidates ps) && existsb (in_region_shapeb s) (label_candidates ps)
  | _ => true
  end.

(** no two consecutive points coincide (no segment of zero length) *)
Fixpoint no_repeatb (ps : list point) : bool :=
  match ps with
  | a :: (b :: _) as r => negb (point_eqb a b) && no_repeatb r
  | _ => true
  end.
(** a shape in range: coordinates in i32; a path has at least two points, is Manhattan, has no
    segment of zero length and its width fits i32; a polygon is simple (Geom/ContainsSpec.simpleb) *)
Definition shape_okb (s : shape) : bool :=
  match s with
  | Rect p0 p1 => point_i32b p0 && point_i32b p1
  | Polygon ps => forallb point_i32b ps && CS.simpleb (map spt ps)
  | Path ps w => forallb point_i32b ps && Nat.leb 2 (List.length ps) && manhattanb ps && no_repeatb ps &&
                 (0 <=? w) && i32_okb w
  end.
(** a shape that carries a net: additionally it has a label location *)
Definition named_shape_okb (s : shape) : bool := shape_okb s && has_label_locationb s.

Definition resolves (ly : layers) (k : nat) (p : purpose) : bool :=
  match resolve_lp ly k p with Some _ => true | None => false end.
Definition elem_okb (ly : layers) (e : element) : bool :=
  resolves ly (e_layer e) (e_purpose e) &&
  match e_net e with
  | None => shape_okb (e_shape e)
  | Some n => named_shape_okb (e_shape e) && resolves ly (e_layer e) Label && is_ascii n
  end.
Definition inst_okb (ncells : nat) (i : instance) : bool :=
  Nat.ltb (i_cell i) ncells && point_i32b (i_loc i).
Definition layout_okb (ly : layers) (ncells : nat) (cname : string) (l : layout) : bool :=
  String.eqb (lay_name l) cname && forallb (inst_okb ncells) (lay_insts l) && forallb (elem_okb ly) (lay_elems l).
Fixpoint keys_distinct (m : shapemap) : bool :=
  match m with
  | [] => true
  | (k, _) :: r => negb (existsb (fun e => Nat.eqb (fst e) k) r) && keys_distinct r
  end.
Definition port_okb (ly : layers) (p : absport) : bool :=
  is_ascii (ap_net p) && keys_distinct (ap_shapes p) &&
  forallb (fun e => resolves ly (fst e) Drawing && resolves ly (fst e) Pin && resolves ly (fst e) Label &&
                    forallb named_shape_okb (snd e)) (ap_shapes p).
Definition abstract_okb (ly : layers) (cname : string) (a : abstract) : bool :=
  String.eqb (ab_name a) cname &&
  match ab_outline a with [] => false | _ => true end && forallb point_i32b (ab_outline a) &&
  forallb (port_okb ly) (ab_ports a).
(** every cell has a view (a layout, else an abstract) that carries the cell's own name *)
Definition cell_okb (ly : layers) (ncells : nat) (c : cell) : bool :=
  match c_layout c with
  | Some l => layout_okb ly ncells (c_name c) l
  | None => match c_abs c with
            | Some a => abstract_okb ly (c_name c) a
            | None => false
            end
  end.

Fixpoint string_nodupb (l : list string) : bool :=
  match l with
  | [] => true
  | x :: r => negb (existsb (String.eqb x) r) && string_nodupb r
  end.

(** the hierarchy is nested (no cell instantiates itself, directly or through others): every
    chain of instantiations starting anywhere ends within [length cells] steps *)
Fixpoint depth_okb (cells : list cell) (fuel : nat) (k : nat) : bool :=
  match fuel with
  | O => false
  | S f =>
    match nth_error cells k with
    | None => false
    | Some c => match c_layout c with
                | Some l => forallb (fun i => depth_okb cells f (i_cell i)) (lay_insts l)
                | None => true
                end
    end
  end.
Definition acyclicb (cells : list cell) : bool :=
  forallb (depth_okb cells (List.length cells)) (seq 0 (List.length cells)).

(** layer table: the numbers are i16 (invariant of the Rust types), every layer's two maps agree:
    the purpose registered under a number is registered under that number
    (`layer.num(layer.purpose(n)) == n` for every number n in use) *)
Definition layer_consistentb (l : layer) : bool :=
  forallb (fun np => match layer_purpose l (fst np) with
                     | Some p' => match layer_pnum l p' with Some n' => n' =? fst np | None => false end
                     | None => false
                     end) (l_pairs l).
(** and the layer numbers are pairwise distinct (`layers.keynum(l.layernum)` is `l` itself) *)
Fixpoint z_nodupb (l : list Z) : bool :=
  match l with
  | [] => true
  | x :: r => negb (existsb (Z.eqb x) r) && z_nodupb r
  end.
Definition layer_nums_distinctb (ly : layers) : bool := z_nodupb (map l_num ly).
Definition layers_okb (ly : layers) : bool :=
  forallb (fun l => i16_okb (l_num l) && forallb (fun np => i16_okb (fst np)) (l_pairs l) &&
                    layer_consistentb l) ly && layer_nums_distinctb ly.

Definition exportableb (L : library) : bool :=
  let cells := lib_cells L in
  layers_okb (lib_layers L) &&
  forallb (cell_okb (lib_layers L) (List.length cells)) cells &&
  string_nodupb (map c_name cells) && acyclicb cells.
Definition exportable (L : library) : Prop := exportableb L = true.

(** * Unambiguous labels (DESIGN.md section 4), relative to the place [lab] where a shape's label is put *)
Definition views_of (L : library) : list (list velem) :=
  flat_map (fun c => match cell_view (lib_layers L) (lib_cells L) c with
                     | Some (_, ev) => [ev]
                     | None => []
                     end) (lib_cells L).
Definition unambiguous_view_gen (region : shape -> point -> Prop) (lab : shape -> option point) (ev : list velem) : Prop :=
  forall v n p v', In v ev -> v_net v = Some n -> lab (v_shape v) = Some p ->
    In v' ev -> v_lnum v' = v_lnum v -> region (v_shape v') p ->
    option_map lower (v_net v') = Some (lower n).
Definition unambiguous_view := unambiguous_view_gen in_region_shape.
Definition labels_unambiguous_at (lab : shape -> option point) (L : library) : Prop :=
  Forall (unambiguous_view lab) (views_of L).
(** the same with the non-zero-winding region for polygons *)
Definition labels_unambiguous_nz_at (lab : shape -> option point) (L : library) : Prop :=
  Forall (unambiguous_view_gen in_region_shape_nz lab) (views_of L).

Definition unambiguous_viewb (lab : shape -> option point) (ev : list velem) : bool :=
  forallb (fun v =>
    match v_net v, lab (v_shape v) with
    | Some n, Some p =>
      forallb (fun v' => negb ((v_lnum v' =? v_lnum v) && in_region_shapeb (v_shape v') p) ||
                         ostring_eqb (option_map lower (v_net v')) (Some (lower n))) ev
    | _, _ => true
    end) ev.
Definition labels_unambiguous_atb (lab : shape -> option point) (L : library) : bool :=
  forallb (unambiguous_viewb lab) (views_of L).
Definition unambiguous_view_nzb (lab : shape -> option point) (ev : list velem) : bool :=
  forallb (fun v =>
    match v_net v, lab (v_shape v) with
    | Some n, Some p =>
      forallb (fun v' => negb ((v_lnum v' =? v_lnum v) && in_region_shape_nzb (v_shape v') p) ||
                         ostring_eqb (option_map lower (v_net v')) (Some (lower n))) ev
    | _, _ => true
    end) ev.
Definition labels_unambiguous_nz_atb (lab : shape -> option point) (L : library) : bool :=
  forallb (unambiguous_view_nzb lab) (views_of L).
