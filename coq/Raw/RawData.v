(** Data model of layout21raw (layout21raw/src/data.rs, geom.rs): libraries, cells, layouts,
    abstracts, instances, elements, shapes, units and the layer table.  Shared by the
    conversions out of and into the raw format; nothing here is specific to one of them.
    No proofs in this file.

    Conventions
    - `Int = isize`, `i64`, `usize`, `i16` values are [Z]; their ranges are type invariants
      stated as predicates ([i64_ok], [i16_ok], ...) where a theorem needs them.
    - `Ptr<Cell>` (instance -> cell): the index of the target in [lib_cells].  A target outside
      the library's own cell list is therefore not representable (assumption: libraries are
      closed under instantiation).  Locks are not modelled.
    - `LayerKey`: the index of the layer in [Layers::slots] (slot-map insertion order; layers are
      never removed).  The maps `nums : HashMap<i16, LayerKey>` and `names` are derived from the
      slots: `Layers::add` writes `nums[layernum] = key` for every added layer, so the entry
      for a number is the LAST layer added with it.
    - `Layer { purps : HashMap<i16, LayerPurpose>, nums : HashMap<LayerPurpose, i16> }`: both
      maps are written only by `add_purpose(num, purp)` (insert into both), so they are
      represented by the list of added pairs in order; `purpose(num)` is the purpose of the last
      pair with that number, `num(purpose)` the number of the last pair with that purpose.
    - `HashMap<LayerKey, Vec<Shape>>` (abstract ports and blockages): an association list with
      pairwise distinct keys.  The list order carries no meaning: code that ITERATES such a
      map goes through an explicit order oracle.
    - `f64` (instance angle): the bit pattern, see Base/F64.v.
    - Strings are Coq [string]s (the conversions only copy and compare them). *)
From Coq Require Import ZArith List String Bool.
From L21 Require Import Base.F64.
Import ListNotations.
Local Open Scope list_scope.
Local Open Scope Z_scope.

(** * geom.rs *)
Record point : Type := mkpt { px : Z; py : Z }.                       (* Point { x, y : Int } *)

Inductive shape : Type :=                                             (* Shape *)
| Rect (p0 p1 : point)                                                (* Rect { p0, p1 } *)
| Polygon (pts : list point)                                          (* Polygon { points } *)
| Path (pts : list point) (width : Z).                                (* Path { points, width : usize } *)

(** * data.rs *)
Inductive units : Type := Micro | Nano | Angstrom | Pico.             (* Units *)

Inductive purpose : Type :=                                           (* LayerPurpose *)
| Drawing | Pin | Label | Obstruction | Outline
| Named (s : string) (k : Z)
| Other (k : Z).

Record layer : Type := mklayer {                                      (* Layer *)
  l_num : Z;                                (* layernum : i16 *)
  l_name : option string;
  l_pairs : list (Z * purpose) }.           (* the add_purpose calls, in order *)

Definition layers : Type := list layer.                               (* Layers.slots, by key *)

Record element : Type := mkelem {                                     (* Element *)
  e_net : option string;
  e_layer : nat;                            (* LayerKey *)
  e_purpose : purpose;
  e_shape : shape }.

Record instance : Type := mkinst {                                    (* Instance *)
  i_name : string;                          (* inst_name *)
  i_cell : nat;                             (* Ptr<Cell>: index into lib_cells *)
  i_loc : point;
  i_reflect : bool;                         (* reflect_vert *)
  i_angle : option Z }.                     (* Option<f64>, bit pattern; degrees, counter-clockwise
                                               (Transform::from_instance, GDSII ANGLE) *)

Record textelem : Type := mktext { t_string : string; t_loc : point }.  (* TextElement *)

Record layout : Type := mklayout {                                    (* Layout *)
  lay_name : string;
  lay_insts : list instance;
  lay_elems : list element;
  lay_annots : list textelem }.

Definition shapemap : Type := list (nat * list shape).                (* HashMap<LayerKey, Vec<Shape>> *)

Record absport : Type := mkabsport { ap_net : string; ap_shapes : shapemap }.  (* AbstractPort *)

Record abstract : Type := mkabstract {                                (* Abstract *)
  ab_name : string;
  ab_outline : list point;                  (* Polygon.points *)
  ab_ports : list absport;
  ab_blockages : shapemap }.

Record cell : Type := mkcell {                                        (* Cell *)
  c_name : string;
  c_abs : option abstract;
  c_layout : option layout }.

Record library : Type := mklib {                                      (* Library *)
  lib_name : string;
  lib_units : units;
  lib_layers : layers;
  lib_cells : list cell }.

(** * Integer ranges *)
Definition i16_ok (z : Z) : Prop := -32768 <= z < 32768.
Definition i16_okb (z : Z) : bool := (-32768 <=? z) && (z <? 32768).
Definition i32_okb (z : Z) : bool := (-2147483648 <=? z) && (z <? 2147483648).
Definition i64_min : Z := - two63.
Definition i64_max : Z := two63 - 1.
Definition i64_ok (z : Z) : Prop := i64_min <= z <= i64_max.
Definition i64_okb (z : Z) : bool := (i64_min <=? z) && (z <=? i64_max).
(** `x as i16` on a wider integer: wrap into the range *)
Definition wrap16 (z : Z) : Z := (z + 32768) mod 65536 - 32768.

(** * Decidable equalities used by the lookups *)
Definition purpose_eqb (a b : purpose) : bool :=
  match a, b with
  | Drawing, Drawing | Pin, Pin | Label, Label | Obstruction, Obstruction | Outline, Outline => true
  | Named s k, Named s' k' => String.eqb s s' && (k =? k')
  | Other k, Other k' => k =? k'
  | _, _ => false
  end.

(** * Layer tables *)
(** the last element satisfying [f] (a `HashMap` written several times keeps the last value) *)
Fixpoint find_last {A : Type} (f : A -> bool) (l : list A) : option A :=
  match l with
  | [] => None
  | x :: r => match find_last f r with
              | Some y => Some y
              | None => if f x then Some x else None
              end
  end.

(** Layer::purpose(num) *)
Definition layer_purpose (l : layer) (pnum : Z) : option purpose :=
  option_map snd (find_last (fun np => fst np =? pnum) (l_pairs l)).
(** Layer::num(purpose) *)
Definition layer_pnum (l : layer) (p : purpose) : option Z :=
  option_map fst (find_last (fun np => purpose_eqb (snd np) p) (l_pairs l)).
(** Layer::add_purpose(num, purp): `Err` when a Named/Other purpose carries another number *)
Definition purpose_num_ok (pnum : Z) (p : purpose) : bool :=
  match p with Named _ k | Other k => k =? pnum | _ => true end.
Definition layer_add_purpose (l : layer) (pnum : Z) (p : purpose) : option layer :=
  if purpose_num_ok pnum p then Some (mklayer (l_num l) (l_name l) (l_pairs l ++ [(pnum, p)])) else None.

(** Layers::get(key) *)
Definition ly_get (ly : layers) (k : nat) : option layer := nth_error ly k.
(** Layers::keynum(num): the last layer added with that number *)
Fixpoint ly_keynum (ly : layers) (n : Z) : option nat :=
  match ly with
  | [] => None
  | l :: r => match ly_keynum r n with
              | Some k => Some (S k)
              | None => if l_num l =? n then Some O else None
              end
  end.
(** Layers::add(layer) -> key *)
Definition ly_add (ly : layers) (l : layer) : layers * nat := (ly ++ [l], List.length ly).
(** Layer::from_num *)
Definition layer_from_num (n : Z) : layer := mklayer n None [].

(** replace the k-th element *)
Fixpoint list_set {A : Type} (l : list A) (k : nat) (x : A) : list A :=
  match l, k with
  | [], _ => []
  | _ :: r, O => x :: r
  | y :: r, S k' => y :: list_set r k' x
  end.

(** Layers::get_or_insert(layernum, purposenum) -> (key, purpose).  Its two error returns
    cannot fire: the key was just looked up or created, and the purpose it adds is
    `Other(purposenum)` under the number `purposenum`. *)
Definition get_or_insert (ly : layers) (n pnum : Z) : layers * nat * purpose :=
  let '(ly1, key) := match ly_keynum ly n with
                     | Some k => (ly, k)
                     | None => ly_add ly (layer_from_num n)
                     end in
  match ly_get ly1 key with
  | None => (ly1, key, Other pnum)          (* unreachable *)
  | Some l =>
    match layer_purpose l pnum with
    | Some p => (ly1, key, p)
    | None =>
      (list_set ly1 key (mklayer (l_num l) (l_name l) (l_pairs l ++ [(pnum, Other pnum)])), key, Other pnum)
    end
  end.

(** The numbers an element's (layer key, purpose) stands for, if both are registered. *)
Definition resolve_lp (ly : layers) (key : nat) (p : purpose) : option (Z * Z) :=
  match ly_get ly key with
  | None => None
  | Some l => match layer_pnum l p with
              | None => None
              | Some pn => Some (l_num l, pn)
              end
  end.
Definition key_num (ly : layers) (key : nat) : option Z := option_map l_num (ly_get ly key).

(** * Shape maps (HashMap<LayerKey, Vec<Shape>>) *)
Fixpoint sm_get (m : shapemap) (k : nat) : option (list shape) :=
  match m with
  | [] => None
  | (k', v) :: r => if Nat.eqb k k' then Some v else sm_get r k
  end.
(** insert: an existing key keeps its place and gets the new value *)
Fixpoint sm_insert (m : shapemap) (k : nat) (v : list shape) : shapemap :=
  match m with
  | [] => [(k, v)]
  | (k', v') :: r => if Nat.eqb k k' then (k, v) :: r else (k', v') :: sm_insert r k v
  end.

(** * f64 values that are whole numbers (instance angles) *)
(** the integer a finite double is equal to, if it is one; -0.0 is 0 *)
Definition f64_int_value (b : Z) : option Z :=
  match f64_decomp b with
  | None => None
  | Some (s, m, e) =>
    let sg (v : Z) := if s then - v else v in
    if 0 <=? e then Some (sg (m * 2 ^ e))
    else if m mod 2 ^ (- e) =? 0 then Some (sg (m / 2 ^ (- e))) else None
  end.
(** `f64::from(z)` for an `i32` (exact): the bit pattern *)
Definition f64_of_int (z : Z) : Z :=
  if z =? 0 then 0
  else let a := Z.abs z in
       let k := Z.log2 a in
       f64_of_norm (z <? 0) (a * 2 ^ (52 - k)) (k - 52).
