(** Tie (a) of DESIGN.md 2.3 for the coordinate conversion of the LEF importer (family "raw_lef", property C16):
    the definitions generated from layout21raw/src/lef.rs `LefImporter::import_dist` and `import_point`
    (Gen/KernelsRaw2Gen.v), read over Z with range checks and abstract errors ([rc_xops], Raw/KernelsInstRaw2.v), with
    the operations of rust_decimal standing as in Raw/KernelsInstRaw2.v ([L.x_mul] = [dec_mul_10000], ..), EQUAL
    [import_dist] / [import_point] of Raw/RawLef.v (the repaired variants), the error kind apart ([ounit]). *)
From Coq Require Import ZArith Bool List Lia.
From L21 Require Import Base.KernelOps Base.KernelOpsX Base.Outcome Gen.KernelsRaw2Gen Raw.KernelsInstRaw2.
From L21 Require Import Raw.RawLefDec Raw.RawLefTypes Raw.RawLef.
Import ListNotations.
Local Open Scope Z_scope.
Import L.

(** the decimal product never is an `Err`: at any error type it is the same outcome *)
Lemma rescale_more_ounit : forall (E : Type) fuel q s,
  @rescale_more unit fuel q s = ounit (@rescale_more E fuel q s).
Proof.
  intros E. induction fuel as [|f IH]; intros q s; cbn [rescale_more];
    destruct (q <? two96); try reflexivity; destruct (s =? 0); try reflexivity. apply IH.
Qed.
Lemma dec_mul_10000_ounit : forall (E : Type) d, @dec_mul_10000 unit d = ounit (@dec_mul_10000 E d).
Proof.
  intros E d. unfold dec_mul_10000.
  destruct (dec_is_zero d); [reflexivity|].
  cbv zeta. destruct (dmant d * 10000 <? two96); [reflexivity|].
  destruct (Z.of_nat (dscale d) <? rescale_digits (dmant d * 10000)); [reflexivity|].
  rewrite (rescale_more_ounit E).
  destruct (@rescale_more E 4 _ _) as [[q s']|e| |]; reflexivity.
Qed.

Lemma tie_lef_import_dist : forall d, g_import_dist d = ounit (import_dist d).
Proof.
  intros d. unfold g_import_dist, g_LefImporter_import_dist, import_dist, import_dist_gen.
  cbn [rc_xops kx_base rc_kops k_bind k_ret k_fail i_try_from_q Gimp gLefImporter_dist_scale x_from ou_bind obind].
  unfold x_mul. cbn [dec_of_u32 dneg dmant dscale negb andb Nat.eqb]. change (10000 =? 10000) with true. cbn [andb]. cbv iota.
  rewrite (dec_mul_10000_ounit ekind).
  destruct (@dec_mul_10000 ekind d) as [s|e| |]; try reflexivity.
  cbn [ounit ou_bind obind x_fract x_is_zero ou_ret].
  change (dec_is_zero (mkdec (dneg s) (dmant s mod pow10 (dscale s)) (dscale s))) with (dec_fract_is_zero s).
  destruct (dec_fract_is_zero s); cbn [negb ounit]; [|reflexivity].
  cbn [x_trunc x_mantissa ou_bind obind].
  change (ity_in Isize (dec_mantissa (dec_trunc s))) with (in_isize (dec_mantissa (dec_trunc s))).
  destruct (in_isize (dec_mantissa (dec_trunc s))); reflexivity.
Qed.

Lemma tie_lef_import_point : forall p, g_import_point p = ounit (omap Gpt (import_point p)).
Proof.
  intros p. unfold g_import_point, g_LefImporter_import_point, import_point, import_point_gen.
  cbn [rc_xops kx_base rc_kops k_bind k_ret Glp gLefPoint_x gLefPoint_y repaired v_fix_dist v_fix_point].
  fold rc_xops. fold (g_import_dist (lpx p)). fold (g_import_dist (lpy p)). rewrite !tie_lef_import_dist.
  fold import_dist.
  destruct (import_dist (lpx p)) as [x|e| |]; try reflexivity.
  cbn [ounit ou_bind obind].
  destruct (import_dist (lpy p)) as [y|e| |]; reflexivity.
Qed.
