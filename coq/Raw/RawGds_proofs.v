(** Lemmas for C06: the importer model (Raw/RawGds.v) and the model of `Layout::flatten`
    (Raw/RawFlatten.v) against the specification (Raw/RawGdsSpec.v).

    Part 1  single elements: boundary (both rectangle patterns), box, path -- the imported shape
            stands for the geometry the GDSII element states ([shape_rel]), on its layer / datatype.
    Part 2  references: an SREF gives one instance whose exact transform is the specification's
            placement (via C12's [from_instance_Z_spec]); an AREF gives cols x rows instances on
            the lattice of the three XY points.
    Part 3  layer tables: [get_or_insert] keeps every earlier (key, purpose) resolving to the same
            (layer, datatype) numbers.
    Part 4  a whole struct: [import_layout] relates the elements of the struct, in order, to the
            elements and instances of the layout ([items_rel]).
    Part 5  flattened lists: [flat_rel] (raw elements against specification shapes, up to order), kept by
            right-angle placements ([rect4_place]: the rectangle pattern survives), and implying the
            property's [flat_equiv].
    Part 6  the whole library: [import_structs] keeps [lib_inv] -- every name in the cell map stands for
            the struct of that name, imported into the cell at that position from earlier cells only.
    Part 7  the simulation [sim_all], by induction on the position of a cell: whenever the specification's
            [flatten_struct] is not silent it is [SOk fs] and the cell's flattening is related to fs.
    Part 8  [import_flatten_gen], [import_ok_not_malformed]. *)
From Coq Require Import ZArith NArith List String Bool Lia Permutation Arith Wf_nat.
From L21 Require Import Base.F64 Base.Hex Raw.RawData Raw.RawGds Raw.RawFlatten Raw.RawFlatten_proofs.
From L21 Require Gds.GdsData Raw.RawGdsSpec Geom.Transform Geom.TransformSpec Geom.Transform_proofs.
From L21 Require Order.DepOrder Order.DepOrderSpec Order.DepOrderFixed Order.DepOrderFixed_proofs.
Import ListNotations.
Local Open Scope Z_scope.
Module G := Gds.GdsData.
Module S := Raw.RawGdsSpec.
Module T := Geom.Transform.
Module TS := Geom.TransformSpec.


(* ---- p1.v ---- *)
(** * Shapes *)
Inductive shape_rel : shape -> S.geom -> Prop :=
| SR_poly : forall pts, shape_rel (Polygon pts) (S.GPoly (map S.rpt pts))
| SR_rect : forall a b c d, S.rect4 (S.rpt a) b (S.rpt c) d = true ->
                            shape_rel (Rect a c) (S.GPoly [S.rpt a; b; S.rpt c; d])
| SR_path : forall pts w, shape_rel (Path pts w) (S.GPath (map S.rpt pts) w).

Lemma shape_rel_norm : forall sh gm, shape_rel sh gm -> S.norm_raw_shape sh = S.norm_geom gm.
Proof.
  intros sh gm H. destruct H as [pts | a b c d H | pts w]; cbn [S.norm_raw_shape S.norm_geom].
  - reflexivity.
  - unfold S.norm_poly. rewrite H. reflexivity.
  - reflexivity.
Qed.

Lemma rpt_import_point : forall p, S.rpt (import_point p) = S.gpt p.
Proof. intros [x y]. reflexivity. Qed.
Lemma map_rpt_import : forall l, map S.rpt (map import_point l) = map S.gpt l.
Proof. intro l. rewrite map_map. apply map_ext. exact rpt_import_point. Qed.

Lemma pt_eqb_rpt : forall a b, S.pt_eqb (S.rpt a) (S.rpt b) = pt_eqb a b.
Proof. intros [ax ay] [bx by_]. reflexivity. Qed.

Lemma last_map : forall (A B : Type) (f : A -> B) l d, last (map f l) (f d) = f (last l d).
Proof.
  intros A B f l d. induction l as [|x l IH]; [reflexivity|].
  destruct l as [|y l]; [reflexivity|]. cbn [map last] in *. exact IH.
Qed.
Lemma removelast_map : forall (A B : Type) (f : A -> B) l, removelast (map f l) = map f (removelast l).
Proof.
  intros A B f l. induction l as [|x l IH]; [reflexivity|].
  destruct l as [|y l]; [reflexivity|]. cbn [map removelast] in *. rewrite IH. reflexivity.
Qed.

Lemma rect_pattern_rect4 : forall a b c d,
  rect_pattern a b c d = S.rect4 (S.rpt a) (S.rpt b) (S.rpt c) (S.rpt d).
Proof. intros [ax ay] [bx by_] [cx cy] [dx dy]. reflexivity. Qed.

Lemma import_boundary_rel : forall c ly b ly' e,
  import_boundary c ly b = IOk (ly', e) ->
  exists gm, S.boundary_geom b = S.SOk gm /\ shape_rel (e_shape e) gm /\ e_net e = None /\
             (ly', e_layer e, e_purpose e) = get_or_insert ly (G.b_layer b) (G.b_datatype b).
Proof.
  intros c ly b ly' e H. unfold import_boundary in H. unfold S.boundary_geom.
  rewrite <- map_rpt_import.
  destruct (map import_point (G.b_xy b)) as [|p0 rest] eqn:Epts.
  - destruct (fx_emptyxy c); discriminate.
  - cbn [map]. change (S.rpt p0 :: map S.rpt rest) with (map S.rpt (p0 :: rest)).
    rewrite (last_map _ _ S.rpt (p0 :: rest) p0), pt_eqb_rpt.
    destruct (pt_eqb p0 (last (p0 :: rest) p0)) eqn:Eclosed; cbn [negb] in H; [|discriminate].
    rewrite removelast_map.
    remember (removelast (p0 :: rest)) as pts' eqn:Epts'.
    unfold mk_element in H.
    destruct (get_or_insert ly (G.b_layer b) (G.b_datatype b)) as [[ly1 key] purp] eqn:Egoi.
    injection H as <- <-. cbn [e_shape e_net e_layer e_purpose].
    eexists. split; [reflexivity|]. split; [|split; reflexivity].
    destruct pts' as [|a [|b0 [|c0 [|d [|x r]]]]]; try apply SR_poly.
    destruct (rect_pattern a b0 c0 d) eqn:Erp; [|apply SR_poly].
    cbn [map]. apply SR_rect. rewrite <- rect_pattern_rect4. exact Erp.
Qed.


(* ---- p2.v ---- *)
Lemma import_box_rel : forall ly b ly' e,
  import_box ly b = IOk (ly', e) ->
  S.box_geom b <> S.SErr /\
  (forall gm, S.box_geom b = S.SOk gm -> shape_rel (e_shape e) gm) /\ e_net e = None /\
  (ly', e_layer e, e_purpose e) = get_or_insert ly (G.x_layer b) (G.x_boxtype b).
Proof.
  intros ly b ly' e H. unfold import_box in H. unfold S.box_geom.
  destruct (G.x_xy b) as [|q0 [|q1 [|q2 [|q3 [|q4 [|x r]]]]]]; try discriminate.
  unfold mk_element in H.
  destruct (get_or_insert ly (G.x_layer b) (G.x_boxtype b)) as [[ly1 key] purp] eqn:Egoi.
  injection H as <- <-. cbn [e_shape e_net e_layer e_purpose map].
  split; [destruct (S.pt_eqb (S.gpt q0) (S.gpt q4) && S.rect4 (S.gpt q0) (S.gpt q1) (S.gpt q2) (S.gpt q3)); discriminate|].
  split; [|split; reflexivity].
  intros gm Hg.
  destruct (S.pt_eqb (S.gpt q0) (S.gpt q4) && S.rect4 (S.gpt q0) (S.gpt q1) (S.gpt q2) (S.gpt q3)) eqn:E; [|discriminate].
  injection Hg as <-. apply andb_prop in E. destruct E as [_ E].
  rewrite <- !rpt_import_point. apply SR_rect. rewrite !rpt_import_point. exact E.
Qed.

Lemma import_path_rel : forall c ly p ly' e,
  fx_width c = true ->
  import_path c ly p = IOk (ly', e) ->
  exists gm, (G.p_xy p <> [] -> S.path_geom p = S.SOk gm) /\ shape_rel (e_shape e) gm /\ e_net e = None /\
             (ly', e_layer e, e_purpose e) = get_or_insert ly (G.p_layer p) (G.p_datatype p).
Proof.
  intros c ly p ly' e Hw H. unfold import_path in H. unfold S.path_geom.
  rewrite <- map_rpt_import.
  set (pts := map import_point (G.p_xy p)) in *.
  assert (Hmain : match G.p_width p with
                  | None => IErr EPathWidth
                  | Some w => IOk (mk_element ly (G.p_layer p) (G.p_datatype p)
                                     (Path pts (if w <? 0 then (if fx_width c then - w else w + two64) else w)))
                  end = IOk (ly', e)).
  { destruct pts; [destruct (fx_emptyxy c); [discriminate|exact H] | exact H]. }
  destruct (G.p_width p) as [w|]; [|discriminate].
  rewrite Hw in Hmain. unfold mk_element in Hmain.
  destruct (get_or_insert ly (G.p_layer p) (G.p_datatype p)) as [[ly1 key] purp] eqn:Egoi.
  injection Hmain as <- <-. cbn [e_shape e_net e_layer e_purpose].
  exists (S.GPath (map S.rpt pts) (Z.abs w)). split; [|split; [|split; reflexivity]].
  - intro Hne. destruct (map S.rpt pts) eqn:E; [|reflexivity].
    exfalso. apply Hne. subst pts. destruct (G.p_xy p); [reflexivity|discriminate].
  - replace (if w <? 0 then - w else w) with (Z.abs w); [apply SR_path|].
    destruct (Z.ltb_spec w 0); lia.
Qed.
Lemma import_path_nonempty : forall c ly p r,
  fx_emptyxy c = true -> import_path c ly p = IOk r -> G.p_xy p <> [].
Proof.
  intros c ly p r He H Hn. unfold import_path in H. rewrite Hn, He in H. cbn in H. discriminate.
Qed.
Lemma import_boundary_nonempty : forall c ly b r, import_boundary c ly b = IOk r -> G.b_xy b <> [].
Proof.
  intros c ly b r H Hn. unfold import_boundary in H. rewrite Hn in H. cbn in H. destruct (fx_emptyxy c); discriminate.
Qed.

(** * Instances *)
Definition inst_rel (i : instance) (pl : TS.splacement) : Prop :=
  exists p, placement_of i = Some p /\ forall v, T.apply_Z (T.from_placement_Z p) v = TS.place_pt pl v.



Lemma inst_rel_intro : forall nm cell x y r a refl q,
  match a with
  | None => S.SOk (r, O)
  | Some a => match f64_int_value a with
              | Some d => match TS.quarters_of d with Some q => S.SOk (r, q) | None => S.SSilent end
              | None => S.SSilent
              end
  end = S.SOk (refl, q) ->
  inst_rel (mkinst nm cell (mkpt x y) r a) (x, y, refl, q).
Proof.
  intros nm cell x y r a refl q H. unfold inst_rel, placement_of, angle_cs. cbn [i_angle i_loc i_reflect px py].
  destruct a as [a|].
  - destruct (f64_int_value a) as [d|]; [|discriminate].
    destruct (TS.quarters_of d) as [q'|] eqn:Eq; [|discriminate].
    injection H as <- <-.
    assert (Hcs : exists cs, T.exact_cs d = Some cs).
    { unfold TS.quarters_of in Eq. unfold T.exact_cs. destruct (d mod 90 =? 0); [eexists; reflexivity|discriminate]. }
    destruct Hcs as [cs Hcs]. rewrite Hcs. cbn [option_map].
    eexists. split; [reflexivity|]. intro v.
    unfold T.from_placement_Z, T.from_placement, T.from_instance_opt, T.cs_of. cbn [fst snd].
    exact (Geom.Transform_proofs.from_instance_Z_spec x y r d cs q' v Hcs Eq).
  - injection H as <- <-. eexists. split; [reflexivity|]. intro v.
    exact (Geom.Transform_proofs.from_instance_Z_spec_noangle x y r v).
Qed.


(* ---- p3.v ---- *)
Lemma bits_one_eq : S.bits_one = bits_one.
Proof. reflexivity. Qed.

Lemma import_instance_rel : forall c cm r i,
  fx_mag c = true ->
  import_instance c cm r = IOk i ->
  S.sref_placements r <> S.SErr /\
  cm_get cm (G.sr_name r) = Some (i_cell i) /\
  forall pls, S.sref_placements r = S.SOk pls -> exists pl, pls = [pl] /\ inst_rel i pl.
Proof.
  intros c cm r i Hmag H. unfold import_instance in H. unfold S.sref_placements, S.strans_place.
  destruct (cm_get cm (G.sr_name r)) as [cell|] eqn:Ecm; [|discriminate].
  destruct (G.sr_xy r) as [x y] eqn:Exy. unfold import_point in H. cbn [G.px G.py] in *.
  destruct (G.sr_strans r) as [st|].
  - destruct (G.st_abs_mag st || G.st_abs_angle st); [discriminate|].
    rewrite Hmag in H. cbn [andb] in H. rewrite bits_one_eq.
    destruct (match G.st_mag st with Some m => negb (m =? bits_one) | None => false end); [discriminate|].
    injection H as <-. cbn [i_cell].
    split; [|split; [reflexivity|]].
    + destruct (G.st_angle st) as [a|]; [|discriminate].
      destruct (f64_int_value a) as [d|]; [|discriminate]. destruct (TS.quarters_of d); discriminate.
    + intros pls Hp.
      destruct (match G.st_angle st with
                | Some a => match f64_int_value a with
                            | Some d => match TS.quarters_of d with Some q => S.SOk (G.st_reflected st, q) | None => S.SSilent end
                            | None => S.SSilent end
                | None => S.SOk (G.st_reflected st, O) end) as [[refl q]| |] eqn:E; try discriminate.
      cbn [S.smap fst snd] in Hp. injection Hp as <-. eexists. split; [reflexivity|].
      apply inst_rel_intro. destruct (G.st_angle st); exact E.
  - injection H as <-. cbn [i_cell]. split; [discriminate|]. split; [reflexivity|].
    intros pls Hp. cbn [S.smap fst snd] in Hp. injection Hp as <-. eexists. split; [reflexivity|].
    apply inst_rel_intro. reflexivity.
Qed.

Lemma quot_div_exact : forall x n, n <> 0 -> x mod n = 0 -> Z.quot x n = x / n.
Proof.
  intros x n Hn Hm. rewrite (Z_div_exact_full_2 x n Hn Hm) at 1.
  rewrite Z.mul_comm. apply Z.quot_mul. exact Hn.
Qed.

Lemma Forall2_flat_map_map : forall (A B I J : Type) (R : A -> B -> Prop) (f : I -> J -> A) (g : I -> J -> B) xs ys,
  (forall i j, R (f i j) (g i j)) ->
  Forall2 R (flat_map (fun i => map (fun j => f i j) ys) xs) (flat_map (fun i => map (fun j => g i j) ys) xs).
Proof.
  intros A B I J R f g xs ys H. induction xs as [|i xs IH]; cbn [flat_map]; [constructor|].
  apply Forall2_app; [|exact IH]. clear IH. induction ys as [|j ys IHy]; cbn [map].
  - constructor.
  - constructor; [apply H | exact IHy].
Qed.

Lemma array_insts_cell : forall cname cell cols rows loc refl angle,
  Forall (fun i => i_cell i = cell) (array_insts cname cell cols rows loc refl angle).
Proof.
  intros. unfold array_insts. apply Forall_forall. intros i Hi.
  apply in_flat_map in Hi. destruct Hi as [ix [_ Hi]]. apply in_map_iff in Hi. destruct Hi as [iy [<- _]]. reflexivity.
Qed.

Lemma zrange_eq : forall n, S.zrange n = zrange n.
Proof. reflexivity. Qed.

Lemma import_array_rel : forall c cm a oi,
  fx_dims c = true -> fx_deg c = true -> fx_lattice c = true ->
  import_instance_array c cm a = IOk oi ->
  S.aref_placements a <> S.SErr /\
  exists cell insts, oi = Some insts /\ cm_get cm (G.ar_name a) = Some cell /\
     Forall (fun i => i_cell i = cell) insts /\
     forall pls, S.aref_placements a = S.SOk pls -> Forall2 inst_rel insts pls.
Proof.
  intros c cm a oi Hdims Hdeg Hlat H. unfold import_instance_array in H. unfold S.aref_placements.
  destruct (cm_get cm (G.ar_name a)) as [cell|] eqn:Ecm; [|discriminate].
  destruct (G.ar_xy a) as [|q0 [|q1 [|q2 [|x r]]]]; try discriminate.
  rewrite Hdims, Hlat in H. cbn [andb] in H.
  destruct ((G.ar_cols a <=? 0) || (G.ar_rows a <=? 0)) eqn:Edims; [discriminate|].
  apply orb_false_elim in Edims. destruct Edims as [Ec Er].
  apply Z.leb_gt in Ec. apply Z.leb_gt in Er.
  replace ((G.ar_cols a =? 0) || (G.ar_rows a =? 0)) with false in H
    by (symmetry; apply orb_false_intro; apply Z.eqb_neq; lia).
  cbn [map]. unfold S.strans_place.
  (* the strans part *)
  destruct (G.ar_strans a) as [st|].
  - destruct (G.st_abs_mag st || G.st_abs_angle st); [discriminate|].
    destruct (G.st_mag st) as [m|]; [discriminate|]. rewrite Hdeg in H.
    replace (match G.st_angle st with
             | Some a0 => IOk (G.st_reflected st, Some a0)
             | None => IOk (G.st_reflected st, None)
             end) with (@IOk (bool * option Z) (G.st_reflected st, G.st_angle st)) in H
      by (destruct (G.st_angle st); reflexivity).
    cbn [ibind] in H.
    destruct (array_capacity c (G.ar_cols a) (G.ar_rows a)) as [[]| | |]; try discriminate.
    cbn [ibind] in H. injection H as <-.
    set (SP := match G.st_angle st with
               | Some a0 => match f64_int_value a0 with
                            | Some d => match TS.quarters_of d with Some q => S.SOk (G.st_reflected st, q) | None => S.SSilent end
                            | None => S.SSilent end
               | None => S.SOk (G.st_reflected st, O) end).
    assert (HSP : SP <> S.SErr).
    { subst SP. destruct (G.st_angle st) as [a0|]; [|discriminate].
      destruct (f64_int_value a0); [|discriminate]. destruct (TS.quarters_of z); discriminate. }
    split.
    + destruct SP; [| exfalso; apply HSP; reflexivity |];
        destruct (((fst (S.gpt q1) - fst (S.gpt q0)) mod G.ar_cols a =? 0) && ((snd (S.gpt q1) - snd (S.gpt q0)) mod G.ar_cols a =? 0) &&
                  ((fst (S.gpt q2) - fst (S.gpt q0)) mod G.ar_rows a =? 0) && ((snd (S.gpt q2) - snd (S.gpt q0)) mod G.ar_rows a =? 0));
        cbn [S.sbind2]; discriminate.
    + exists cell. eexists. split; [reflexivity|]. split; [reflexivity|]. split; [apply array_insts_cell|].
      intros pls Hp.
      destruct SP as [[refl q]| |] eqn:ESP; [| exfalso; apply HSP; reflexivity | ].
      2:{ destruct (((fst (S.gpt q1) - fst (S.gpt q0)) mod G.ar_cols a =? 0) && ((snd (S.gpt q1) - snd (S.gpt q0)) mod G.ar_cols a =? 0) &&
                    ((fst (S.gpt q2) - fst (S.gpt q0)) mod G.ar_rows a =? 0) && ((snd (S.gpt q2) - snd (S.gpt q0)) mod G.ar_rows a =? 0));
            cbn [S.sbind2] in Hp; discriminate. }
      destruct (((fst (S.gpt q1) - fst (S.gpt q0)) mod G.ar_cols a =? 0) && ((snd (S.gpt q1) - snd (S.gpt q0)) mod G.ar_cols a =? 0) &&
                ((fst (S.gpt q2) - fst (S.gpt q0)) mod G.ar_rows a =? 0) && ((snd (S.gpt q2) - snd (S.gpt q0)) mod G.ar_rows a =? 0)) eqn:Ediv;
        cbn [S.sbind2] in Hp; [|discriminate].
      injection Hp as <-.
      apply andb_prop in Ediv. destruct Ediv as [Ediv E4]. apply andb_prop in Ediv. destruct Ediv as [Ediv E3].
      apply andb_prop in Ediv. destruct Ediv as [E1 E2].
      apply Z.eqb_eq in E1, E2, E3, E4.
      unfold array_insts, S.zrange, zrange. cbn [fst snd].
      apply Forall2_flat_map_map. intros ix iy.
      destruct q0 as [x0 y0], q1 as [x1 y1], q2 as [x2 y2]. unfold S.gpt, import_point in *. cbn [G.px G.py px py fst snd] in *.
      rewrite (quot_div_exact (x1 - x0) (G.ar_cols a)) by (lia || assumption).
      rewrite (quot_div_exact (y1 - y0) (G.ar_cols a)) by (lia || assumption).
      rewrite (quot_div_exact (x2 - x0) (G.ar_rows a)) by (lia || assumption).
      rewrite (quot_div_exact (y2 - y0) (G.ar_rows a)) by (lia || assumption).
      apply inst_rel_intro. subst SP. destruct (G.st_angle st); exact ESP.
  - cbn [ibind] in H.
    destruct (array_capacity c (G.ar_cols a) (G.ar_rows a)) as [[]| | |]; try discriminate.
    cbn [ibind] in H. injection H as <-.
    split.
    + destruct (((fst (S.gpt q1) - fst (S.gpt q0)) mod G.ar_cols a =? 0) && ((snd (S.gpt q1) - snd (S.gpt q0)) mod G.ar_cols a =? 0) &&
                ((fst (S.gpt q2) - fst (S.gpt q0)) mod G.ar_rows a =? 0) && ((snd (S.gpt q2) - snd (S.gpt q0)) mod G.ar_rows a =? 0));
        cbn [S.sbind2]; discriminate.
    + exists cell. eexists. split; [reflexivity|]. split; [reflexivity|]. split; [apply array_insts_cell|].
      intros pls Hp.
      destruct (((fst (S.gpt q1) - fst (S.gpt q0)) mod G.ar_cols a =? 0) && ((snd (S.gpt q1) - snd (S.gpt q0)) mod G.ar_cols a =? 0) &&
                ((fst (S.gpt q2) - fst (S.gpt q0)) mod G.ar_rows a =? 0) && ((snd (S.gpt q2) - snd (S.gpt q0)) mod G.ar_rows a =? 0)) eqn:Ediv;
        cbn [S.sbind2] in Hp; [|discriminate].
      injection Hp as <-.
      apply andb_prop in Ediv. destruct Ediv as [Ediv E4]. apply andb_prop in Ediv. destruct Ediv as [Ediv E3].
      apply andb_prop in Ediv. destruct Ediv as [E1 E2].
      apply Z.eqb_eq in E1, E2, E3, E4.
      unfold array_insts, S.zrange, zrange. cbn [fst snd].
      apply Forall2_flat_map_map. intros ix iy.
      destruct q0 as [x0 y0], q1 as [x1 y1], q2 as [x2 y2]. unfold S.gpt, import_point in *. cbn [G.px G.py px py fst snd] in *.
      rewrite (quot_div_exact (x1 - x0) (G.ar_cols a)) by (lia || assumption).
      rewrite (quot_div_exact (y1 - y0) (G.ar_cols a)) by (lia || assumption).
      rewrite (quot_div_exact (x2 - x0) (G.ar_rows a)) by (lia || assumption).
      rewrite (quot_div_exact (y2 - y0) (G.ar_rows a)) by (lia || assumption).
      apply inst_rel_intro. reflexivity.
Qed.


(* ---- p4.v ---- *)
(** * Layer tables *)
Lemma purpose_eqb_eq : forall a b, purpose_eqb a b = true <-> a = b.
Proof.
  intros a b. split.
  - destruct a, b; cbn; try discriminate; try reflexivity.
    + intro H. apply andb_prop in H. destruct H as [H1 H2]. apply String.eqb_eq in H1. apply Z.eqb_eq in H2. subst. reflexivity.
    + intro H. apply Z.eqb_eq in H. subst. reflexivity.
  - intros <-. destruct a; cbn; try reflexivity.
    + rewrite String.eqb_refl, Z.eqb_refl. reflexivity.
    + apply Z.eqb_refl.
Qed.

Lemma find_last_app_last : forall (A : Type) (f : A -> bool) l x,
  find_last f (l ++ [x]) = if f x then Some x else find_last f l.
Proof.
  intros A f l x. induction l as [|y l IH]; cbn [app find_last].
  - destruct (f x); reflexivity.
  - rewrite IH. destruct (f x); [reflexivity|]. reflexivity.
Qed.
Lemma find_last_some : forall (A : Type) (f : A -> bool) l y, find_last f l = Some y -> In y l /\ f y = true.
Proof.
  intros A f l y. induction l as [|x l IH]; cbn [find_last]; [discriminate|].
  destruct (find_last f l) as [z|].
  - intro H. injection H as ->. destruct (IH eq_refl) as [H1 H2]. split; [right; exact H1 | exact H2].
  - destruct (f x) eqn:E; [|discriminate]. intro H. injection H as ->. split; [left; reflexivity | exact E].
Qed.

Definition pairs_other (l : layer) : Prop := Forall (fun np => snd np = Other (fst np)) (l_pairs l).
Definition ly_inv (ly : layers) : Prop := Forall pairs_other ly.

Lemma ly_keynum_some : forall ly n k, ly_keynum ly n = Some k -> exists l, nth_error ly k = Some l /\ l_num l = n.
Proof.
  induction ly as [|l ly IH]; intros n k H; cbn [ly_keynum] in H; [discriminate|].
  destruct (ly_keynum ly n) as [k'|] eqn:E.
  - injection H as <-. destruct (IH n k' E) as [l' [H1 H2]]. exists l'. split; assumption.
  - destruct (l_num l =? n) eqn:En; [|discriminate]. injection H as <-. exists l. split; [reflexivity | apply Z.eqb_eq; exact En].
Qed.

Lemma nth_error_list_set_same : forall (A : Type) (l : list A) k x y, nth_error l k = Some y -> nth_error (list_set l k x) k = Some x.
Proof.
  intros A l. induction l as [|z l IH]; intros k x y H; destruct k; cbn in *; try discriminate; [reflexivity|].
  eapply IH; exact H.
Qed.
Lemma nth_error_list_set_other : forall (A : Type) (l : list A) k j x, j <> k -> nth_error (list_set l k x) j = nth_error l j.
Proof.
  intros A l. induction l as [|z l IH]; intros k j x H; destruct k, j; cbn; try reflexivity; try congruence.
  apply IH. congruence.
Qed.
Lemma list_set_length : forall (A : Type) (l : list A) k x, List.length (list_set l k x) = List.length l.
Proof. intros A l. induction l as [|z l IH]; intros k x; destruct k; cbn; try reflexivity. rewrite IH. reflexivity. Qed.
Lemma Forall_list_set : forall (A : Type) (P : A -> Prop) (l : list A) k x, Forall P l -> P x -> Forall P (list_set l k x).
Proof.
  intros A P l. induction l as [|z l IH]; intros k x Hl Hx; destruct k; cbn; try constructor; inversion Hl; subst; auto.
Qed.

Lemma layer_pnum_other : forall l pn,
  pairs_other l -> (exists np, In np (l_pairs l) /\ snd np = Other pn) -> layer_pnum l (Other pn) = Some pn.
Proof.
  intros l pn Hinv [np [Hin Hs]]. unfold layer_pnum.
  destruct (find_last (fun np0 => purpose_eqb (snd np0) (Other pn)) (l_pairs l)) as [y|] eqn:E.
  - apply find_last_some in E. destruct E as [Hy Hf]. apply purpose_eqb_eq in Hf.
    unfold pairs_other in Hinv. rewrite Forall_forall in Hinv. specialize (Hinv y Hy). rewrite Hf in Hinv.
    injection Hinv as Hpn. cbn [option_map]. rewrite <- Hpn. reflexivity.
  - exfalso. clear Hinv. induction (l_pairs l) as [|x r IH]; [exact Hin|].
    cbn [find_last] in E. destruct (find_last (fun np0 => purpose_eqb (snd np0) (Other pn)) r); [discriminate|].
    destruct Hin as [-> | Hin].
    + rewrite Hs in E. cbn in E. rewrite Z.eqb_refl in E. discriminate.
    + destruct (purpose_eqb (snd x) (Other pn)); [discriminate|]. apply IH; [exact Hin | reflexivity].
Qed.

Lemma get_or_insert_spec : forall ly n pn ly' key purp,
  ly_inv ly -> get_or_insert ly n pn = (ly', key, purp) ->
  ly_inv ly' /\ resolve_lp ly' key purp = Some (n, pn) /\
  (forall k p x, resolve_lp ly k p = Some x -> resolve_lp ly' k p = Some x) /\
  (exists l, ly_get ly' key = Some l /\ l_num l = n).
Proof.
  intros ly n pn ly' key purp Hinv H. unfold get_or_insert in H.
  destruct (match ly_keynum ly n with Some k => (ly, k) | None => ly_add ly (layer_from_num n) end) as [ly1 key1] eqn:E1.
  assert (A : ly_inv ly1 /\ (exists l, nth_error ly1 key1 = Some l /\ l_num l = n) /\
              (forall k p x, resolve_lp ly k p = Some x -> resolve_lp ly1 k p = Some x)).
  { destruct (ly_keynum ly n) as [k|] eqn:Ek.
    - injection E1 as <- <-. split; [exact Hinv|]. split; [apply ly_keynum_some; exact Ek | auto].
    - unfold ly_add in E1. injection E1 as <- <-. split.
      + apply Forall_app. split; [exact Hinv|]. constructor; [|constructor]. unfold pairs_other, layer_from_num; cbn. constructor.
      + split.
        * exists (layer_from_num n). split; [rewrite nth_error_app2 by lia; rewrite Nat.sub_diag; reflexivity | reflexivity].
        * intros k p x Hr. unfold resolve_lp, ly_get in *. destruct (nth_error ly k) eqn:En; [|discriminate].
          rewrite nth_error_app1; [rewrite En; exact Hr | apply nth_error_Some; congruence]. }
  destruct A as [Hinv1 [[l [Hl Hn]] Hmono1]].
  unfold ly_get in H. rewrite Hl in H.
  assert (Hl0 : pairs_other l).
  { unfold ly_inv in Hinv1. rewrite Forall_forall in Hinv1. apply Hinv1. eapply nth_error_In; exact Hl. }
  destruct (layer_purpose l pn) as [p|] eqn:Ep.
  - injection H as <- <- <-. split; [exact Hinv1|]. split.
    + unfold resolve_lp, ly_get. rewrite Hl.
      unfold layer_purpose in Ep. destruct (find_last (fun np => fst np =? pn) (l_pairs l)) as [np|] eqn:Ef; [|discriminate].
      cbn in Ep. injection Ep as <-. apply find_last_some in Ef. destruct Ef as [Hin Hf]. apply Z.eqb_eq in Hf.
      assert (Hs : snd np = Other pn).
      { unfold pairs_other in Hl0. rewrite Forall_forall in Hl0. rewrite (Hl0 np Hin), Hf. reflexivity. }
      rewrite Hs. rewrite (layer_pnum_other l pn Hl0) by (exists np; auto). rewrite Hn. reflexivity.
    + split; [exact Hmono1|]. exists l. split; [exact Hl | exact Hn].
  - injection H as <- <- <-.
    set (l' := mklayer (l_num l) (l_name l) (l_pairs l ++ [(pn, Other pn)])).
    assert (Hl' : pairs_other l').
    { unfold pairs_other, l'; cbn [l_pairs]. apply Forall_app; split; [exact Hl0 | constructor; [reflexivity|constructor]]. }
    split; [apply Forall_list_set; assumption|]. split.
    + unfold resolve_lp, ly_get. rewrite (nth_error_list_set_same _ _ _ _ _ Hl).
      rewrite (layer_pnum_other l' pn Hl') by (exists (pn, Other pn); split; [apply in_or_app; right; left; reflexivity | reflexivity]).
      cbn [l' l_num]. rewrite Hn. reflexivity.
    + split.
      * intros k p x Hr. apply Hmono1 in Hr. unfold resolve_lp, ly_get in *.
        destruct (Nat.eq_dec k key1) as [->|Hne].
        -- rewrite Hl in Hr. rewrite (nth_error_list_set_same _ _ _ _ _ Hl).
           unfold layer_pnum in *. cbn [l_pairs l' l_num]. rewrite find_last_app_last. cbn [snd].
           destruct (purpose_eqb (Other pn) p) eqn:Epp; [|exact Hr].
           apply purpose_eqb_eq in Epp. subst p. cbn [option_map fst].
           destruct (find_last (fun np => purpose_eqb (snd np) (Other pn)) (l_pairs l)) as [np0|] eqn:Ef; [|discriminate].
           apply find_last_some in Ef. destruct Ef as [Hin Hf]. apply purpose_eqb_eq in Hf.
           unfold pairs_other in Hl0. rewrite Forall_forall in Hl0. specialize (Hl0 np0 Hin). rewrite Hf in Hl0.
           injection Hl0 as Hfst. cbn [option_map] in Hr. rewrite <- Hfst in Hr. exact Hr.
        -- rewrite nth_error_list_set_other by exact Hne. exact Hr.
      * exists l'. split; [apply nth_error_list_set_same with l; exact Hl | exact Hn].
Qed.


(* ---- p5.v ---- *)
Definition cfg_ok (c : cfg) : Prop :=
  fx_dims c = true /\ fx_deg c = true /\ fx_lattice c = true /\ fx_emptyxy c = true /\ fx_mag c = true /\ fx_width c = true.

Definition ly_mono (ly ly' : layers) : Prop :=
  forall k p x, resolve_lp ly k p = Some x -> resolve_lp ly' k p = Some x.
Lemma ly_mono_refl : forall ly, ly_mono ly ly.
Proof. intros ly k p x H. exact H. Qed.
Lemma ly_mono_trans : forall a b c, ly_mono a b -> ly_mono b c -> ly_mono a c.
Proof. intros a b c H1 H2 k p x H. apply H2, H1, H. Qed.

Definition elem_ok (ly : layers) (e : element) (layer dt : Z) (sg : S.sres S.geom) : Prop :=
  resolve_lp ly (e_layer e) (e_purpose e) = Some (layer, dt) /\ sg <> S.SErr /\
  forall gm, sg = S.SOk gm -> shape_rel (e_shape e) gm.
Definition ref_ok (cm : cell_map) (nm : G.bytes) (insts : list instance) (sp : S.sres (list TS.splacement)) : Prop :=
  sp <> S.SErr /\ exists cell, cm_get cm nm = Some cell /\ Forall (fun i => i_cell i = cell) insts /\
  forall pls, sp = S.SOk pls -> Forall2 inst_rel insts pls.

Inductive items_rel (ly : layers) (cm : cell_map) : list G.element -> list element -> list instance -> Prop :=
| IR_nil : items_rel ly cm [] [] []
| IR_boundary : forall b es e elems insts,
    elem_ok ly e (G.b_layer b) (G.b_datatype b) (S.boundary_geom b) -> items_rel ly cm es elems insts ->
    items_rel ly cm (G.EBoundary b :: es) (e :: elems) insts
| IR_box : forall b es e elems insts,
    elem_ok ly e (G.x_layer b) (G.x_boxtype b) (S.box_geom b) -> items_rel ly cm es elems insts ->
    items_rel ly cm (G.EBox b :: es) (e :: elems) insts
| IR_path : forall p es e elems insts,
    elem_ok ly e (G.p_layer p) (G.p_datatype p) (S.path_geom p) -> items_rel ly cm es elems insts ->
    items_rel ly cm (G.EPath p :: es) (e :: elems) insts
| IR_sref : forall r es i elems insts,
    ref_ok cm (G.sr_name r) [i] (S.sref_placements r) -> items_rel ly cm es elems insts ->
    items_rel ly cm (G.ESref r :: es) elems (i :: insts)
| IR_aref : forall a es new elems insts,
    ref_ok cm (G.ar_name a) new (S.aref_placements a) -> items_rel ly cm es elems insts ->
    items_rel ly cm (G.EAref a :: es) elems (new ++ insts)
| IR_text : forall t es elems insts, items_rel ly cm es elems insts -> items_rel ly cm (G.EText t :: es) elems insts
| IR_node : forall n es elems insts, items_rel ly cm es elems insts -> items_rel ly cm (G.ENode n :: es) elems insts.

Lemma elem_ok_mono : forall ly ly' e l d sg, ly_mono ly ly' -> elem_ok ly e l d sg -> elem_ok ly' e l d sg.
Proof. intros ly ly' e l d sg Hm [H1 H2]. split; [apply Hm; exact H1 | exact H2]. Qed.
Lemma items_rel_mono : forall ly ly' cm es elems insts,
  ly_mono ly ly' -> items_rel ly cm es elems insts -> items_rel ly' cm es elems insts.
Proof.
  intros ly ly' cm es elems insts Hm H. induction H; try (constructor; eauto using elem_ok_mono; fail).
Qed.

Definition same_geo (e e' : element) : Prop :=
  e_layer e = e_layer e' /\ e_purpose e = e_purpose e' /\ e_shape e = e_shape e'.
Lemma same_geo_refl : forall e, same_geo e e.
Proof. intro e. repeat split. Qed.
Lemma Forall2_same_geo_refl : forall l, Forall2 same_geo l l.
Proof. induction l; constructor; auto using same_geo_refl. Qed.
Lemma same_geo_trans : forall a b c, same_geo a b -> same_geo b c -> same_geo a c.
Proof. intros a b c [H1 [H2 H3]] [H4 [H5 H6]]. repeat split; congruence. Qed.
Lemma Forall2_same_geo_trans : forall l1 l2 l3, Forall2 same_geo l1 l2 -> Forall2 same_geo l2 l3 -> Forall2 same_geo l1 l3.
Proof.
  intros l1 l2 l3 H. revert l3. induction H; intros l3 H3; inversion H3; subst; constructor; eauto using same_geo_trans.
Qed.
Lemma Forall2_list_set : forall l k e e', nth_error l k = Some e -> same_geo e e' -> Forall2 same_geo l (list_set l k e').
Proof.
  induction l as [|x l IH]; intros k e e' Hn Hg; destruct k; cbn in *; try discriminate.
  - injection Hn as ->. constructor; [exact Hg | apply Forall2_same_geo_refl].
  - constructor; [apply same_geo_refl | eapply IH; eauto].
Qed.

Lemma elem_ok_geo : forall ly e e' l d sg, same_geo e e' -> elem_ok ly e l d sg -> elem_ok ly e' l d sg.
Proof. intros ly e e' l d sg [H1 [H2 H3]] [H4 H5]. unfold elem_ok. rewrite <- H1, <- H2, <- H3. split; assumption. Qed.
Lemma items_rel_geo : forall ly cm es elems insts elems',
  items_rel ly cm es elems insts -> Forall2 same_geo elems elems' -> items_rel ly cm es elems' insts.
Proof.
  intros ly cm es elems insts elems' H. revert elems'.
  induction H; intros elems' HF; try (inversion HF; subst); try (constructor; eauto using elem_ok_geo; fail).
Qed.

(** * pass 1 *)
Lemma add_element_spec : forall s ly e s',
  add_element s (ly, e) = IOk s' ->
  p_layers s' = ly /\ p_elems s' = p_elems s ++ [e] /\ p_insts s' = p_insts s /\ p_texts s' = p_texts s.
Proof.
  intros s ly e s' H. unfold add_element in H. destruct (ly_get ly (e_layer e)); [|discriminate].
  injection H as <-. cbn. repeat split.
Qed.

Lemma pass1_step_rel : forall c cm, cfg_ok c -> forall e s0 s1,
  ly_inv (p_layers s0) -> pass1_step c cm s0 e = IOk s1 ->
  ly_inv (p_layers s1) /\ ly_mono (p_layers s0) (p_layers s1) /\
  exists elems insts, p_elems s1 = p_elems s0 ++ elems /\ p_insts s1 = p_insts s0 ++ insts /\
                      p_texts s1 = p_texts s0 ++ (match e with G.EText t => [t] | _ => [] end) /\
                      items_rel (p_layers s1) cm [e] elems insts.
Proof.
  intros c cm (Hdims & Hdeg & Hlat & Hempty & Hmag & Hwidth) e s0 s1 Hinv H.
  destruct e as [b|p|r|a|t|n|b]; cbn [pass1_step] in H.
  - (* boundary *)
    destruct (import_boundary c (p_layers s0) b) as [[ly e]| | |] eqn:Eb; try discriminate. cbn [ibind] in H.
    destruct (import_boundary_rel _ _ _ _ _ Eb) as [gm [Hg [Hs [_ Hgoi]]]].
    symmetry in Hgoi. destruct (get_or_insert_spec _ _ _ _ _ _ Hinv Hgoi) as [Hinv' [Hres [Hmono _]]].
    destruct (add_element_spec _ _ _ _ H) as [-> [He [Hi Ht]]].
    split; [exact Hinv'|]. split; [exact Hmono|]. exists [e], []. rewrite app_nil_r.
    split; [exact He|]. split; [exact Hi|]. split; [rewrite app_nil_r; exact Ht|].
    constructor; [|constructor]. split; [exact Hres|]. rewrite Hg. split; [discriminate|].
    intros gm' Hgm. injection Hgm as <-. exact Hs.
  - (* path *)
    destruct (import_path c (p_layers s0) p) as [[ly e]| | |] eqn:Eb; try discriminate. cbn [ibind] in H.
    destruct (import_path_rel _ _ _ _ _ Hwidth Eb) as [gm [Hg [Hs [_ Hgoi]]]].
    specialize (Hg (import_path_nonempty _ _ _ _ Hempty Eb)).
    symmetry in Hgoi. destruct (get_or_insert_spec _ _ _ _ _ _ Hinv Hgoi) as [Hinv' [Hres [Hmono _]]].
    destruct (add_element_spec _ _ _ _ H) as [-> [He [Hi Ht]]].
    split; [exact Hinv'|]. split; [exact Hmono|]. exists [e], []. rewrite app_nil_r.
    split; [exact He|]. split; [exact Hi|]. split; [rewrite app_nil_r; exact Ht|].
    constructor; [|constructor]. split; [exact Hres|]. rewrite Hg. split; [discriminate|].
    intros gm' Hgm. injection Hgm as <-. exact Hs.
  - (* sref *)
    destruct (import_instance c cm r) as [i| | |] eqn:Ei; try discriminate. cbn [ibind] in H. injection H as <-. cbn.
    split; [exact Hinv|]. split; [apply ly_mono_refl|]. exists [], [i]. rewrite !app_nil_r.
    split; [reflexivity|]. split; [reflexivity|]. split; [reflexivity|].
    destruct (import_instance_rel _ _ _ _ Hmag Ei) as [Hne [Hcm Hpl]].
    constructor; [|constructor]. split; [exact Hne|]. exists (i_cell i). split; [exact Hcm|].
    split; [constructor; [reflexivity|constructor]|].
    intros pls Hp. destruct (Hpl pls Hp) as [pl [-> Hr]]. constructor; [exact Hr|constructor].
  - (* aref *)
    destruct (import_instance_array c cm a) as [oi| | |] eqn:Ei; try discriminate. cbn [ibind] in H. injection H as <-. cbn.
    destruct (import_array_rel _ _ _ _ Hdims Hdeg Hlat Ei) as [Hne [cell [insts [-> [Hcm [Hcells Hpl]]]]]].
    split; [exact Hinv|]. split; [apply ly_mono_refl|]. exists [], insts. rewrite !app_nil_r.
    split; [reflexivity|]. split; [reflexivity|]. split; [reflexivity|].
    rewrite <- (app_nil_r insts). constructor; [|constructor].
    split; [exact Hne|]. exists cell. split; [exact Hcm|]. split; [exact Hcells | exact Hpl].
  - (* text *)
    injection H as <-. cbn. split; [exact Hinv|]. split; [apply ly_mono_refl|]. exists [], []. rewrite !app_nil_r.
    repeat split; constructor; constructor.
  - (* node *)
    injection H as <-. split; [exact Hinv|]. split; [apply ly_mono_refl|]. exists [], []. rewrite !app_nil_r.
    repeat split; constructor; constructor.
  - (* box *)
    destruct (import_box (p_layers s0) b) as [[ly e]| | |] eqn:Eb; try discriminate. cbn [ibind] in H.
    destruct (import_box_rel _ _ _ _ Eb) as [Hne [Hs [_ Hgoi]]].
    symmetry in Hgoi. destruct (get_or_insert_spec _ _ _ _ _ _ Hinv Hgoi) as [Hinv' [Hres [Hmono _]]].
    destruct (add_element_spec _ _ _ _ H) as [-> [He [Hi Ht]]].
    split; [exact Hinv'|]. split; [exact Hmono|]. exists [e], []. rewrite app_nil_r.
    split; [exact He|]. split; [exact Hi|]. split; [rewrite app_nil_r; exact Ht|].
    constructor; [|constructor]. split; [exact Hres|]. split; [exact Hne | exact Hs].
Qed.

Lemma items_rel_app : forall ly cm es1 el1 in1 es2 el2 in2,
  items_rel ly cm es1 el1 in1 -> items_rel ly cm es2 el2 in2 -> items_rel ly cm (es1 ++ es2) (el1 ++ el2) (in1 ++ in2).
Proof.
  intros ly cm es1 el1 in1 es2 el2 in2 H1 H2. induction H1; cbn [app]; try (constructor; assumption).
  - exact H2.
  - rewrite <- app_assoc. constructor; assumption.
Qed.

Definition texts_of (es : list G.element) : list G.textelem :=
  flat_map (fun e => match e with G.EText t => [t] | _ => [] end) es.

Lemma pass1_all_rel : forall c cm, cfg_ok c -> forall es s0 s1,
  ly_inv (p_layers s0) -> pass1_all c cm s0 es = IOk s1 ->
  ly_inv (p_layers s1) /\ ly_mono (p_layers s0) (p_layers s1) /\
  exists elems insts, p_elems s1 = p_elems s0 ++ elems /\ p_insts s1 = p_insts s0 ++ insts /\
                      p_texts s1 = p_texts s0 ++ texts_of es /\
                      items_rel (p_layers s1) cm es elems insts.
Proof.
  intros c cm Hc. induction es as [|e es IH]; intros s0 s1 Hinv H; cbn [pass1_all] in H.
  - injection H as <-. split; [exact Hinv|]. split; [apply ly_mono_refl|]. exists [], []. rewrite !app_nil_r.
    repeat split. constructor.
  - destruct (pass1_step c cm s0 e) as [s'| | |] eqn:Es; try discriminate. cbn [ibind] in H.
    destruct (pass1_step_rel c cm Hc e s0 s' Hinv Es) as [Hinv' [Hm1 [el1 [in1 [He1 [Hi1 [Ht1 Hr1]]]]]]].
    destruct (IH s' s1 Hinv' H) as [Hinv1 [Hm2 [el2 [in2 [He2 [Hi2 [Ht2 Hr2]]]]]]].
    split; [exact Hinv1|]. split; [eapply ly_mono_trans; eassumption|].
    exists (el1 ++ el2), (in1 ++ in2).
    split; [rewrite He2, He1, app_assoc; reflexivity|]. split; [rewrite Hi2, Hi1, app_assoc; reflexivity|].
    split; [rewrite Ht2, Ht1, <- app_assoc; reflexivity|].
    change (e :: es) with ([e] ++ es). apply items_rel_app; [eapply items_rel_mono; eassumption | exact Hr2].
Qed.

(** * pass 2 keeps layers, purposes and shapes *)
Lemma label_bucket_geo : forall c name loc keys elems hit elems' hit',
  label_bucket c name loc elems hit keys = IOk (elems', hit') -> Forall2 same_geo elems elems'.
Proof.
  intros c name loc. induction keys as [|k keys IH]; intros elems hit elems' hit' H; cbn [label_bucket] in H.
  - injection H as <- _. apply Forall2_same_geo_refl.
  - destruct (nth_error elems k) as [e|] eqn:En; [|discriminate].
    destruct (shape_contains c (e_shape e) loc) as [b| | |]; try discriminate. cbn [ibind] in H.
    destruct b.
    + apply IH in H. eapply Forall2_same_geo_trans; [|exact H].
      eapply Forall2_list_set; [exact En|]. destruct (e_net e); [apply same_geo_refl | repeat split].
    + eapply IH; exact H.
Qed.
Lemma pass2_geo : forall c buckets texts elems annots elems' annots',
  pass2 c buckets elems annots texts = IOk (elems', annots') -> Forall2 same_geo elems elems'.
Proof.
  intros c buckets. induction texts as [|t texts IH]; intros elems annots elems' annots' H; cbn [pass2] in H.
  - injection H as <- _. apply Forall2_same_geo_refl.
  - destruct (bucket_get buckets (G.t_layer t)) as [keys|].
    + destruct (label_bucket c (lower (str_of_bytes (G.t_string t))) (import_point (G.t_xy t)) elems false keys) as [[el h]| | |] eqn:El; try discriminate.
      cbn [ibind] in H. apply label_bucket_geo in El. eapply Forall2_same_geo_trans; [exact El|].
      cbn [fst snd] in H. destruct h; eapply IH; exact H.
    + eapply IH; exact H.
Qed.

Lemma import_layout_rel : forall c cm ly s ly' l,
  cfg_ok c -> ly_inv ly -> import_layout c cm ly s = IOk (ly', l) ->
  ly_inv ly' /\ ly_mono ly ly' /\ lay_name l = str_of_bytes (G.s_name s) /\
  items_rel ly' cm (G.s_elems s) (lay_elems l) (lay_insts l).
Proof.
  intros c cm ly s ly' l Hc Hinv H. unfold import_layout in H.
  destruct (pass1_all c cm (mkp1 ly [] [] [] []) (G.s_elems s)) as [p| | |] eqn:E1; try discriminate. cbn [ibind] in H.
  destruct (pass2 c (p_buckets p) (p_elems p) [] (p_texts p)) as [[el an]| | |] eqn:E2; try discriminate. cbn [ibind] in H.
  injection H as <- <-. cbn [fst snd lay_name lay_elems lay_insts].
  destruct (pass1_all_rel c cm Hc _ (mkp1 ly [] [] [] []) _ Hinv E1) as [Hinv' [Hm [elems [insts [He [Hi [_ Hr]]]]]]].
  cbn [p_layers p_elems p_insts app] in *.
  split; [exact Hinv'|]. split; [exact Hm|]. split; [reflexivity|].
  rewrite Hi. eapply items_rel_geo; [exact Hr|]. rewrite <- He. eapply pass2_geo; exact E2.
Qed.


(* ---- p6.v ---- *)
(** * Flattened lists: raw elements against specification shapes *)
Definition elem_rel (ly : layers) (e : element) (f : S.fshape) : Prop :=
  resolve_lp ly (e_layer e) (e_purpose e) = Some (S.fs_layer f, S.fs_dtype f) /\ shape_rel (e_shape e) (S.fs_geom f).
Definition flat_rel (ly : layers) (es : list element) (fs : list S.fshape) : Prop :=
  exists es' fs', Permutation es es' /\ Permutation fs fs' /\ Forall2 (elem_rel ly) es' fs'.

Lemma flat_rel_nil : forall ly, flat_rel ly [] [].
Proof. intro ly. exists [], []. repeat split; constructor. Qed.
Lemma flat_rel_Forall2 : forall ly es fs, Forall2 (elem_rel ly) es fs -> flat_rel ly es fs.
Proof. intros ly es fs H. exists es, fs. repeat split; auto. Qed.
Lemma flat_rel_app : forall ly a b c d, flat_rel ly a b -> flat_rel ly c d -> flat_rel ly (a ++ c) (b ++ d).
Proof.
  intros ly a b c d [a' [b' [Ha [Hb Hab]]]] [c' [d' [Hc [Hd Hcd]]]].
  exists (a' ++ c'), (b' ++ d'). split; [apply Permutation_app; assumption|].
  split; [apply Permutation_app; assumption | apply Forall2_app; assumption].
Qed.
Lemma flat_rel_perm : forall ly a a' b b', Permutation a a' -> Permutation b b' -> flat_rel ly a b -> flat_rel ly a' b'.
Proof.
  intros ly a a' b b' Ha Hb [x [y [Hx [Hy H]]]]. exists x, y.
  split; [eapply Permutation_trans; [apply Permutation_sym; exact Ha | exact Hx]|].
  split; [eapply Permutation_trans; [apply Permutation_sym; exact Hb | exact Hy] | exact H].
Qed.
Lemma flat_rel_cons : forall ly e f es fs, elem_rel ly e f -> flat_rel ly es fs -> flat_rel ly (e :: es) (f :: fs).
Proof.
  intros ly e f es fs He H. change (e :: es) with ([e] ++ es). change (f :: fs) with ([f] ++ fs).
  apply flat_rel_app; [|exact H]. apply flat_rel_Forall2. constructor; [exact He | constructor].
Qed.

(** ** a right-angle placement keeps the rectangle pattern *)
Lemma rect4_iff : forall a b c d,
  S.rect4 a b c d = true <->
  (fst a = fst b /\ snd b = snd c /\ fst c = fst d /\ snd d = snd a) \/
  (snd a = snd b /\ fst b = fst c /\ snd c = snd d /\ fst d = fst a).
Proof.
  intros a b c d. unfold S.rect4. rewrite orb_true_iff, !andb_true_iff, !Z.eqb_eq. tauto.
Qed.
Lemma rect4_map : forall (f : TS.pt -> TS.pt),
  ((forall p, f p = (fst p, - snd p)) \/ (forall p, f p = (- snd p, fst p)) \/ (exists lx ly, forall p, f p = (fst p + lx, snd p + ly))) ->
  forall a b c d, S.rect4 a b c d = true -> S.rect4 (f a) (f b) (f c) (f d) = true.
Proof.
  intros f Hf a b c d H. apply rect4_iff in H. apply rect4_iff.
  destruct Hf as [Hf | [Hf | [lx [ly Hf]]]]; rewrite !Hf; cbn [fst snd]; lia.
Qed.
Lemma rect4_rot : forall q a b c d,
  S.rect4 a b c d = true -> S.rect4 (TS.rot_quarters q a) (TS.rot_quarters q b) (TS.rot_quarters q c) (TS.rot_quarters q d) = true.
Proof.
  induction q as [|q IH]; intros a b c d H; cbn [TS.rot_quarters]; [exact H|].
  apply (rect4_map TS.rot90); [right; left; intros [x y]; reflexivity|]. apply IH. exact H.
Qed.
Lemma rect4_place : forall pl a b c d,
  S.rect4 a b c d = true -> S.rect4 (TS.place_pt pl a) (TS.place_pt pl b) (TS.place_pt pl c) (TS.place_pt pl d) = true.
Proof.
  intros [[[lx ly] r] q] a b c d H. unfold TS.place_pt.
  apply (rect4_map (TS.translate_by lx ly)); [right; right; exists lx, ly; intros [x y]; reflexivity|].
  apply rect4_rot. destruct r; [|exact H].
  apply (rect4_map TS.reflect_x); [left; intros [x y]; reflexivity | exact H].
Qed.

Lemma rpt_ptz : forall v, S.rpt (ptz v) = v.
Proof. intros [x y]. reflexivity. Qed.
Lemma zpt_rpt : forall p, zpt p = S.rpt p.
Proof. intros [x y]. reflexivity. Qed.

Lemma shape_rel_place : forall (F : Z * Z -> Z * Z) pl sh gm,
  (forall v, F v = TS.place_pt pl v) -> shape_rel sh gm -> shape_rel (rshape_map F sh) (S.place_geom pl gm).
Proof.
  intros F pl sh gm HF H. destruct H as [pts | a b c d H | pts w]; cbn [rshape_map S.place_geom].
  - replace (map (TS.place_pt pl) (map S.rpt pts)) with (map S.rpt (map (fun p => ptz (F (zpt p))) pts)); [apply SR_poly|].
    rewrite !map_map. apply map_ext. intro p. rewrite rpt_ptz, HF, zpt_rpt. reflexivity.
  - cbn [map]. rewrite <- (rpt_ptz (TS.place_pt pl (S.rpt a))), <- (rpt_ptz (TS.place_pt pl (S.rpt c))).
    rewrite !HF, !zpt_rpt. apply SR_rect. rewrite !rpt_ptz. apply rect4_place. exact H.
  - replace (map (TS.place_pt pl) (map S.rpt pts)) with (map S.rpt (map (fun p => ptz (F (zpt p))) pts)); [apply SR_path|].
    rewrite !map_map. apply map_ext. intro p. rewrite rpt_ptz, HF, zpt_rpt. reflexivity.
Qed.
Lemma elem_rel_place : forall ly (F : Z * Z -> Z * Z) pl e f,
  (forall v, F v = TS.place_pt pl v) -> elem_rel ly e f -> elem_rel ly (relem_map F e) (S.place_fshape pl f).
Proof.
  intros ly F pl e f HF [H1 H2]. split; [exact H1|]. cbn [relem_map e_shape S.place_fshape S.fs_geom].
  apply shape_rel_place; assumption.
Qed.
Lemma flat_rel_place : forall ly (F : Z * Z -> Z * Z) pl es fs,
  (forall v, F v = TS.place_pt pl v) -> flat_rel ly es fs ->
  flat_rel ly (map (relem_map F) es) (map (S.place_fshape pl) fs).
Proof.
  intros ly F pl es fs HF [es' [fs' [He [Hf H]]]].
  exists (map (relem_map F) es'), (map (S.place_fshape pl) fs').
  split; [apply Permutation_map; exact He|]. split; [apply Permutation_map; exact Hf|].
  clear He Hf. induction H; cbn [map]; [constructor|].
  constructor; [apply elem_rel_place; assumption | assumption].
Qed.

(** ** [flat_rel] gives the property's [flat_equiv] *)
Lemma elem_rel_norm : forall ly e f, elem_rel ly e f -> S.norm_raw_elem ly e = Some (S.norm_fshape f).
Proof.
  intros ly e f [H1 H2]. unfold S.norm_raw_elem, S.norm_fshape.
  change (S.R.resolve_lp ly (S.R.e_layer e) (S.R.e_purpose e)) with (resolve_lp ly (e_layer e) (e_purpose e)).
  rewrite H1. rewrite (shape_rel_norm _ _ H2). reflexivity.
Qed.
Lemma omap_all_Forall2 : forall ly es fs,
  Forall2 (elem_rel ly) es fs -> S.omap_all (S.norm_raw_elem ly) es = Some (map S.norm_fshape fs).
Proof.
  intros ly es fs H. induction H; cbn [S.omap_all map]; [reflexivity|].
  rewrite (elem_rel_norm _ _ _ H), IHForall2. reflexivity.
Qed.
Lemma omap_all_perm : forall (A B : Type) (f : A -> option B) l l',
  Permutation l l' -> forall ns', S.omap_all f l' = Some ns' -> exists ns, S.omap_all f l = Some ns /\ Permutation ns ns'.
Proof.
  intros A B f l l' H. induction H; intros ns' Hn.
  - exists ns'. split; [exact Hn | apply Permutation_refl].
  - cbn [S.omap_all] in *. destruct (f x) as [y|]; [|discriminate].
    destruct (S.omap_all f l') as [ys'|] eqn:E; [|discriminate]. injection Hn as <-.
    destruct (IHPermutation ys' eq_refl) as [ys [H1 H2]]. rewrite H1. exists (y :: ys). split; [reflexivity | constructor; exact H2].
  - cbn [S.omap_all] in *. destruct (f x) as [a|]; [|discriminate]. destruct (f y) as [b|]; [|discriminate].
    destruct (S.omap_all f l) as [r|]; [|discriminate]. injection Hn as <-.
    exists (b :: a :: r). split; [reflexivity | apply perm_swap].
  - destruct (IHPermutation2 ns' Hn) as [n2 [H2 P2]]. destruct (IHPermutation1 n2 H2) as [n1 [H1 P1]].
    exists n1. split; [exact H1 | eapply Permutation_trans; eassumption].
Qed.
Lemma flat_rel_equiv : forall ly es fs, flat_rel ly es fs -> S.flat_equiv ly es fs.
Proof.
  intros ly es fs [es' [fs' [He [Hf H]]]]. unfold S.flat_equiv.
  destruct (omap_all_perm _ _ (S.norm_raw_elem ly) es es' He _ (omap_all_Forall2 _ _ _ H)) as [ns [H1 H2]].
  exists ns. split; [exact H1|]. eapply Permutation_trans; [exact H2|].
  apply Permutation_map. apply Permutation_sym. exact Hf.
Qed.


(* ---- p7.v ---- *)
Lemma zlist_eqb_eq : forall a b, zlist_eqb a b = true <-> a = b.
Proof.
  induction a as [|x a IH]; intros [|y b]; cbn; split; try discriminate; try reflexivity.
  - intro H. apply andb_prop in H. destruct H as [H1 H2]. apply Z.eqb_eq in H1. apply IH in H2. subst. reflexivity.
  - intro H. injection H as -> ->. rewrite Z.eqb_refl. apply IH. reflexivity.
Qed.
Lemma zlist_eqb_refl : forall a, zlist_eqb a a = true.
Proof. intro a. apply zlist_eqb_eq. reflexivity. Qed.

(** * struct names *)
Lemma names_distinct_from_seen : forall l seen,
  S.names_distinct_from seen l = true -> forall s, In s l -> existsb (zlist_eqb (G.s_name s)) seen = false.
Proof.
  induction l as [|x l IH]; intros seen H s Hs; [destruct Hs|]. cbn [S.names_distinct_from] in H.
  apply andb_prop in H. destruct H as [H1 H2]. destruct Hs as [<- | Hs].
  - apply negb_true_iff. exact H1.
  - specialize (IH _ H2 s Hs). cbn [existsb] in IH. apply orb_false_elim in IH. exact (proj2 IH).
Qed.
Lemma find_struct_self_from : forall l seen,
  S.names_distinct_from seen l = true -> forall s, In s l ->
  find (fun t => zlist_eqb (G.s_name t) (G.s_name s)) l = Some s.
Proof.
  induction l as [|x l IH]; intros seen H s Hs; [destruct Hs|]. cbn [S.names_distinct_from] in H.
  apply andb_prop in H. destruct H as [H1 H2]. cbn [find]. destruct Hs as [<- | Hs].
  - rewrite zlist_eqb_refl. reflexivity.
  - destruct (zlist_eqb (G.s_name x) (G.s_name s)) eqn:E.
    + exfalso. apply zlist_eqb_eq in E.
      pose proof (names_distinct_from_seen _ _ H2 s Hs) as Hn. cbn [existsb] in Hn.
      rewrite <- E, zlist_eqb_refl in Hn. discriminate.
    + eapply IH; eassumption.
Qed.
Lemma find_struct_self : forall g s,
  S.names_distinct g = true -> In s (G.l_structs g) -> S.find_struct g (G.s_name s) = Some s.
Proof. intros g s H Hs. unfold S.find_struct. eapply find_struct_self_from; eassumption. Qed.
Lemma find_struct_name : forall g nm t, S.find_struct g nm = Some t -> G.s_name t = nm /\ In t (G.l_structs g).
Proof.
  intros g nm t H. unfold S.find_struct in H. apply find_some in H. destruct H as [H1 H2].
  apply zlist_eqb_eq in H2. split; assumption.
Qed.

(** * cell map *)
Lemma cm_get_app : forall cm nm0 k0 nm,
  cm_get (cm ++ [(nm0, k0)]) nm =
  match cm_get cm nm with Some k => Some k | None => if zlist_eqb nm0 nm then Some k0 else None end.
Proof.
  induction cm as [|[k v] cm IH]; intros nm0 k0 nm; cbn [app cm_get]; [reflexivity|].
  destruct (zlist_eqb k nm); [reflexivity | apply IH].
Qed.

Section Lib.
Variable g : G.library.

Definition entry_ok (ly : layers) (cells : list cell) (cm : cell_map) (nm : G.bytes) (k : nat) : Prop :=
  exists t c l cm', S.find_struct g nm = Some t /\ nth_error cells k = Some c /\ c_layout c = Some l /\
    c_name c = str_of_bytes nm /\
    (forall nm' k', cm_get cm' nm' = Some k' -> (k' < k)%nat /\ cm_get cm nm' = Some k') /\
    items_rel ly cm' (G.s_elems t) (lay_elems l) (lay_insts l).
Definition lib_inv (ly : layers) (cells : list cell) (cm : cell_map) : Prop :=
  ly_inv ly /\ forall nm k, cm_get cm nm = Some k -> entry_ok ly cells cm nm k.
Definition cm_sub (cm cm' : cell_map) : Prop := forall nm k, cm_get cm nm = Some k -> cm_get cm' nm = Some k.

Lemma entry_ok_mono : forall ly ly' cells new cm cm2 nm k,
  ly_mono ly ly' -> cm_sub cm cm2 -> entry_ok ly cells cm nm k -> entry_ok ly' (cells ++ new) cm2 nm k.
Proof.
  intros ly ly' cells new cm cm2 nm k Hm Hs (t & c & l & cm' & H1 & H2 & H3 & H4 & H5 & H6).
  exists t, c, l, cm'. split; [exact H1|]. split; [rewrite nth_error_app1; [exact H2 | apply nth_error_Some; congruence]|].
  split; [exact H3|]. split; [exact H4|]. split.
  - intros nm' k' H. destruct (H5 nm' k' H) as [Ha Hb]. split; [exact Ha | apply Hs; exact Hb].
  - eapply items_rel_mono; eassumption.
Qed.

Lemma import_and_add_inv : forall c st s st',
  cfg_ok c -> S.find_struct g (G.s_name s) = Some s ->
  lib_inv (is_layers st) (is_cells st) (is_map st) ->
  import_and_add c st s = IOk st' ->
  lib_inv (is_layers st') (is_cells st') (is_map st') /\
  cm_sub (is_map st) (is_map st') /\ cm_get (is_map st') (G.s_name s) <> None.
Proof.
  intros c st s st' Hc Hfind [Hinv Hcm] H. unfold import_and_add in H.
  destruct (cm_get (is_map st) (G.s_name s)) as [k|] eqn:Eget.
  - injection H as <-. split; [split; assumption|]. split; [intros nm k' Hk; exact Hk | congruence].
  - destruct (import_layout c (is_map st) (is_layers st) s) as [[ly' l]| | |] eqn:El; try discriminate.
    cbn [ibind fst snd] in H. injection H as <-. cbn [is_layers is_cells is_map].
    destruct (import_layout_rel _ _ _ _ _ _ Hc Hinv El) as [Hinv' [Hmono [Hname Hrel]]].
    assert (Hsub : cm_sub (is_map st) (is_map st ++ [(G.s_name s, List.length (is_cells st))])).
    { intros nm k Hk. rewrite cm_get_app, Hk. reflexivity. }
    split; [|split; [exact Hsub | rewrite cm_get_app, Eget, zlist_eqb_refl; discriminate]].
    split; [exact Hinv'|]. intros nm k Hk. rewrite cm_get_app in Hk.
    destruct (cm_get (is_map st) nm) as [k0|] eqn:E0.
    + injection Hk as <-. eapply entry_ok_mono; [exact Hmono | exact Hsub | apply Hcm; exact E0].
    + destruct (zlist_eqb (G.s_name s) nm) eqn:En; [|discriminate]. injection Hk as <-.
      apply zlist_eqb_eq in En. subst nm.
      exists s, (mkcell (str_of_bytes (G.s_name s)) None (Some l)), l, (is_map st).
      split; [exact Hfind|]. split; [rewrite nth_error_app2 by lia; rewrite Nat.sub_diag; reflexivity|].
      split; [reflexivity|]. split; [reflexivity|]. split; [|exact Hrel].
      intros nm' k' Hk'. split; [|apply Hsub; exact Hk'].
      destruct (Hcm nm' k' Hk') as (t & c0 & l0 & cm' & _ & Hn & _). apply nth_error_Some. congruence.
Qed.

Lemma import_structs_inv : forall c order st st',
  cfg_ok c ->
  (forall i s, In i order -> nth_error (G.l_structs g) (N.to_nat i) = Some s -> S.find_struct g (G.s_name s) = Some s) ->
  lib_inv (is_layers st) (is_cells st) (is_map st) ->
  import_structs c (G.l_structs g) st order = IOk st' ->
  lib_inv (is_layers st') (is_cells st') (is_map st') /\ cm_sub (is_map st) (is_map st') /\
  forall i, In i order -> exists s, nth_error (G.l_structs g) (N.to_nat i) = Some s /\ cm_get (is_map st') (G.s_name s) <> None.
Proof.
  intros c. induction order as [|i order IH]; intros st st' Hc Hfind Hinv H; cbn [import_structs] in H.
  - injection H as <-. split; [exact Hinv|]. split; [intros nm k Hk; exact Hk | intros i []].
  - destruct (nth_error (G.l_structs g) (N.to_nat i)) as [s|] eqn:Es; [|discriminate].
    destruct (import_and_add c st s) as [st1| | |] eqn:Ea; try discriminate. cbn [ibind] in H.
    destruct (import_and_add_inv c st s st1 Hc (Hfind i s (or_introl eq_refl) Es) Hinv Ea) as [Hinv1 [Hsub1 Hget1]].
    destruct (IH st1 st' Hc (fun j t Hj => Hfind j t (or_intror Hj)) Hinv1 H) as [Hinv' [Hsub' Hall]].
    split; [exact Hinv'|]. split; [intros nm k Hk; apply Hsub', Hsub1, Hk|].
    intros j [<- | Hj].
    + exists s. split; [exact Es|]. destruct (cm_get (is_map st1) (G.s_name s)) as [k|] eqn:E; [|congruence].
      rewrite (Hsub' _ _ E). discriminate.
    + apply Hall. exact Hj.
Qed.
End Lib.


(* ---- p8.v ---- *)
(** * sconcat *)
Lemma sconcat_not_err : forall (A : Type) (l : list (S.sres (list A))),
  Forall (fun x => x <> S.SErr) l -> S.sconcat l <> S.SErr.
Proof.
  intros A l H. induction H as [|x l Hx Hl IH]; cbn [S.sconcat]; [discriminate|].
  destruct x; [|exfalso; apply Hx; reflexivity|]; destruct (S.sconcat l); cbn; try discriminate; exfalso; apply IH; reflexivity.
Qed.
Lemma sconcat_ok : forall (A : Type) (l : list (S.sres (list A))) r,
  S.sconcat l = S.SOk r -> exists ys, Forall2 (fun x y => x = S.SOk y) l ys /\ r = List.concat ys.
Proof.
  intros A l. induction l as [|x l IH]; intros r H; cbn [S.sconcat] in H.
  - injection H as <-. exists []. split; constructor.
  - destruct x as [a| |]; destruct (S.sconcat l) as [b| |]; cbn in H; try discriminate.
    injection H as <-. destruct (IH b eq_refl) as [ys [H1 H2]]. exists (a :: ys). split; [constructor; auto|].
    cbn [List.concat]. rewrite H2. reflexivity.
Qed.
Lemma sres_cases : forall (A : Type) (x : S.sres A), x <> S.SErr -> x <> S.SSilent -> exists a, x = S.SOk a.
Proof. intros A [a| |] H1 H2; [exists a; reflexivity | exfalso; apply H1; reflexivity | exfalso; apply H2; reflexivity]. Qed.

(** the contribution of one element to [flatten_struct (S f) g vis t] *)
Definition comp (g : G.library) (f : nat) (vis' : list G.bytes) (e : G.element) : S.sres (list S.fshape) :=
  let sub (nm : G.bytes) (pls : S.sres (list TS.splacement)) : S.sres (list S.fshape) :=
      match S.find_struct g nm with
      | None => S.SErr
      | Some t => S.sbind2 pls (S.flatten_struct f g vis' t)
                           (fun pls shapes => S.SOk (flat_map (fun pl => map (S.place_fshape pl) shapes) pls))
      end in
  match e with
  | G.EBoundary b => S.smap (fun gm => [S.mkfs (G.b_layer b) (G.b_datatype b) gm]) (S.boundary_geom b)
  | G.EBox b => S.smap (fun gm => [S.mkfs (G.x_layer b) (G.x_boxtype b) gm]) (S.box_geom b)
  | G.EPath p => S.smap (fun gm => [S.mkfs (G.p_layer p) (G.p_datatype p) gm]) (S.path_geom p)
  | G.ESref r => sub (G.sr_name r) (S.sref_placements r)
  | G.EAref a => sub (G.ar_name a) (S.aref_placements a)
  | G.EText _ | G.ENode _ => S.SOk []
  end.
Lemma flatten_struct_S : forall f g vis t,
  S.flatten_struct (S f) g vis t =
  if existsb (zlist_eqb (G.s_name t)) vis then S.SErr
  else S.sconcat (map (comp g f (G.s_name t :: vis)) (G.s_elems t)).
Proof. reflexivity. Qed.

Lemma rflat_insts_app : forall f cells a b,
  rflat_insts f cells (a ++ b) =
  match rflat_insts f cells a, rflat_insts f cells b with
  | Some x, Some y => Some (x ++ y)
  | _, _ => None
  end.
Proof.
  intros f cells a b. induction a as [|i a IH]; cbn [app rflat_insts].
  - destruct (rflat_insts f cells b); reflexivity.
  - rewrite IH. destruct (placement_of i); [|reflexivity]. destruct (rflat f cells (i_cell i)); [|reflexivity].
    destruct (rflat_insts f cells a); [|reflexivity]. destruct (rflat_insts f cells b); [|reflexivity].
    rewrite app_assoc. reflexivity.
Qed.

Section Sim.
Variable g : G.library.
Variable ly : layers.
Variable cells : list cell.
Variable cm : cell_map.
Hypothesis Hlib : lib_inv g ly cells cm.

(** what the induction provides for a position *)
Definition sim_at (k : nat) : Prop :=
  forall nm, cm_get cm nm = Some k ->
  forall f vis, (forall v, In v vis -> exists kv, cm_get cm v = Some kv /\ (k < kv)%nat) ->
  forall t, S.find_struct g nm = Some t ->
  S.flatten_struct f g vis t <> S.SSilent ->
  exists fs es, S.flatten_struct f g vis t = S.SOk fs /\
                (forall fuel, (k < fuel)%nat -> rflat fuel cells k = Some es) /\ flat_rel ly es fs.

(** the instances of one reference: placements pls of a cell whose flattening is known *)
Lemma ref_flat : forall cell es' shapes insts pls,
  flat_rel ly es' shapes ->
  Forall (fun i => i_cell i = cell) insts -> Forall2 inst_rel insts pls ->
  exists sub, (forall fuel, rflat fuel cells cell = Some es' -> rflat_insts fuel cells insts = Some sub) /\
              flat_rel ly sub (flat_map (fun pl => map (S.place_fshape pl) shapes) pls).
Proof.
  intros cell es' shapes insts pls Hf Hc H2. induction H2 as [|i pl insts pls Hi H2 IH]; cbn [rflat_insts flat_map].
  - exists []. split; [reflexivity | apply flat_rel_nil].
  - inversion Hc as [|? ? Hci Hcr]; subst. destruct (IH Hcr) as [sub [Hs Hfr]].
    destruct Hi as [p [Hp Hmap]]. eexists. split.
    + intros fuel Hr. rewrite Hp, Hr, (Hs fuel Hr). reflexivity.
    + apply flat_rel_app; [|exact Hfr]. apply flat_rel_place; assumption.
Qed.

Definition subc (f : nat) (vis' : list G.bytes) (nm : G.bytes) (pls : S.sres (list TS.splacement)) : S.sres (list S.fshape) :=
  match S.find_struct g nm with
  | None => S.SErr
  | Some t => S.sbind2 pls (S.flatten_struct f g vis' t)
                       (fun pls shapes => S.SOk (flat_map (fun pl => map (S.place_fshape pl) shapes) pls))
  end.

Lemma ref_sim : forall k f vis' cm' nm new sp,
  (forall k', (k' < k)%nat -> sim_at k') ->
  (forall nm' k', cm_get cm' nm' = Some k' -> (k' < k)%nat /\ cm_get cm nm' = Some k') ->
  (forall v, In v vis' -> exists kv, cm_get cm v = Some kv /\ (k <= kv)%nat) ->
  ref_ok cm' nm new sp ->
  subc f vis' nm sp <> S.SErr /\
  forall fs0, subc f vis' nm sp = S.SOk fs0 ->
    exists sub, (forall fuel, (k <= fuel)%nat -> rflat_insts fuel cells new = Some sub) /\ flat_rel ly sub fs0.
Proof.
  intros k f vis' cm' nm new sp IHk Hpre Hvis [Hne [cell [Hcm [Hcells Hpl]]]].
  destruct (Hpre _ _ Hcm) as [Hlt Hcm2].
  destruct (proj2 Hlib _ _ Hcm2) as (t' & c' & l' & cm2 & Hfind & _).
  assert (Hvis' : forall v, In v vis' -> exists kv, cm_get cm v = Some kv /\ (cell < kv)%nat).
  { intros v Hv. destruct (Hvis v Hv) as [kv [A B]]. exists kv. split; [exact A | lia]. }
  pose proof (IHk cell Hlt nm Hcm2 f vis' Hvis' t' Hfind) as Hsim.
  unfold subc. rewrite Hfind. split.
  - destruct (S.flatten_struct f g vis' t') as [sh| |] eqn:Esub.
    + destruct sp; cbn; [discriminate | exfalso; apply Hne; reflexivity | discriminate].
    + exfalso. destruct Hsim as [fs [es' [Habs _]]]; discriminate.
    + destruct sp; cbn; [discriminate | exfalso; apply Hne; reflexivity | discriminate].
  - intros fs0 Hc.
    destruct sp as [pls| |] eqn:Ep; destruct (S.flatten_struct f g vis' t') as [sh| |] eqn:Esub; cbn in Hc; try discriminate.
    injection Hc as <-.
    destruct Hsim as [fs [es' [Hfs [Hrf Hrel]]]]; [discriminate|]. injection Hfs as <-.
    destruct (ref_flat cell es' sh new pls Hrel Hcells (Hpl pls eq_refl)) as [sub [Hs Hfr]].
    exists sub. split; [|exact Hfr]. intros fuel Hfuel. apply Hs. apply Hrf. lia.
Qed.

Lemma comp_sref : forall f vis' r, comp g f vis' (G.ESref r) = subc f vis' (G.sr_name r) (S.sref_placements r).
Proof. reflexivity. Qed.
Lemma comp_aref : forall f vis' a, comp g f vis' (G.EAref a) = subc f vis' (G.ar_name a) (S.aref_placements a).
Proof. reflexivity. Qed.

Lemma items_sim : forall k f vis' cm' es elems insts,
  (forall k', (k' < k)%nat -> sim_at k') ->
  (forall nm' k', cm_get cm' nm' = Some k' -> (k' < k)%nat /\ cm_get cm nm' = Some k') ->
  (forall v, In v vis' -> exists kv, cm_get cm v = Some kv /\ (k <= kv)%nat) ->
  items_rel ly cm' es elems insts ->
  Forall (fun e => comp g f vis' e <> S.SErr) es /\
  forall fss, Forall2 (fun e fs => comp g f vis' e = S.SOk fs) es fss ->
    exists subs, (forall fuel, (k <= fuel)%nat -> rflat_insts fuel cells insts = Some subs) /\
                 flat_rel ly (elems ++ subs) (List.concat fss).
Proof.
  intros k f vis' cm' es elems insts IHk Hpre Hvis H.
  induction H as [| b es e elems insts He H IH | b es e elems insts He H IH | p es e elems insts He H IH
                  | r es i elems insts Hr H IH | a es new elems insts Hr H IH | t es elems insts H IH | n es elems insts H IH].
  - split; [constructor|]. intros fss HF. inversion HF; subst. exists []. split; [reflexivity | apply flat_rel_nil].
  - (* boundary *)
    destruct IH as [IH1 IH2]. destruct He as [Hres [Hne Hsh]]. split.
    + constructor; [|exact IH1]. cbn [comp]. destruct (S.boundary_geom b); cbn; [discriminate | exfalso; apply Hne; reflexivity | discriminate].
    + intros fss HF. inversion HF as [|? fs0 ? fss' Hc HF']; subst. destruct (IH2 fss' HF') as [subs [Hs Hfr]].
      exists subs. split; [exact Hs|]. cbn [comp] in Hc. destruct (S.boundary_geom b) as [gm| |] eqn:Eg; cbn in Hc; try discriminate.
      injection Hc as <-. cbn [List.concat app]. apply flat_rel_cons; [|exact Hfr]. split; [exact Hres | apply Hsh; reflexivity].
  - (* box *)
    destruct IH as [IH1 IH2]. destruct He as [Hres [Hne Hsh]]. split.
    + constructor; [|exact IH1]. cbn [comp]. destruct (S.box_geom b); cbn; [discriminate | exfalso; apply Hne; reflexivity | discriminate].
    + intros fss HF. inversion HF as [|? fs0 ? fss' Hc HF']; subst. destruct (IH2 fss' HF') as [subs [Hs Hfr]].
      exists subs. split; [exact Hs|]. cbn [comp] in Hc. destruct (S.box_geom b) as [gm| |] eqn:Eg; cbn in Hc; try discriminate.
      injection Hc as <-. cbn [List.concat app]. apply flat_rel_cons; [|exact Hfr]. split; [exact Hres | apply Hsh; reflexivity].
  - (* path *)
    destruct IH as [IH1 IH2]. destruct He as [Hres [Hne Hsh]]. split.
    + constructor; [|exact IH1]. cbn [comp]. destruct (S.path_geom p); cbn; [discriminate | exfalso; apply Hne; reflexivity | discriminate].
    + intros fss HF. inversion HF as [|? fs0 ? fss' Hc HF']; subst. destruct (IH2 fss' HF') as [subs [Hs Hfr]].
      exists subs. split; [exact Hs|]. cbn [comp] in Hc. destruct (S.path_geom p) as [gm| |] eqn:Eg; cbn in Hc; try discriminate.
      injection Hc as <-. cbn [List.concat app]. apply flat_rel_cons; [|exact Hfr]. split; [exact Hres | apply Hsh; reflexivity].
  - (* sref *)
    destruct IH as [IH1 IH2]. destruct (ref_sim k f vis' cm' _ _ _ IHk Hpre Hvis Hr) as [Hne Hok]. split.
    + constructor; [rewrite comp_sref; exact Hne | exact IH1].
    + intros fss HF. inversion HF as [|? fs0 ? fss' Hc HF']; subst. destruct (IH2 fss' HF') as [subs [Hs Hfr]].
      rewrite comp_sref in Hc. destruct (Hok fs0 Hc) as [sub [Hsub Hfr0]].
      exists (sub ++ subs). split.
      * intros fuel Hfuel. change (i :: insts) with ([i] ++ insts). rewrite rflat_insts_app, (Hsub fuel Hfuel), (Hs fuel Hfuel). reflexivity.
      * cbn [List.concat]. eapply flat_rel_perm; [| apply Permutation_refl | apply flat_rel_app; [exact Hfr0 | exact Hfr]].
        rewrite !app_assoc. apply Permutation_app_tail. apply Permutation_app_comm.
  - (* aref *)
    destruct IH as [IH1 IH2]. destruct (ref_sim k f vis' cm' _ _ _ IHk Hpre Hvis Hr) as [Hne Hok]. split.
    + constructor; [rewrite comp_aref; exact Hne | exact IH1].
    + intros fss HF. inversion HF as [|? fs0 ? fss' Hc HF']; subst. destruct (IH2 fss' HF') as [subs [Hs Hfr]].
      rewrite comp_aref in Hc. destruct (Hok fs0 Hc) as [sub [Hsub Hfr0]].
      exists (sub ++ subs). split.
      * intros fuel Hfuel. rewrite rflat_insts_app, (Hsub fuel Hfuel), (Hs fuel Hfuel). reflexivity.
      * cbn [List.concat]. eapply flat_rel_perm; [| apply Permutation_refl | apply flat_rel_app; [exact Hfr0 | exact Hfr]].
        rewrite !app_assoc. apply Permutation_app_tail. apply Permutation_app_comm.
  - (* text *)
    destruct IH as [IH1 IH2]. split; [constructor; [discriminate | exact IH1]|].
    intros fss HF. inversion HF as [|? fs0 ? fss' Hc HF']; subst. cbn [comp] in Hc. injection Hc as <-.
    destruct (IH2 fss' HF') as [subs [Hs Hfr]]. exists subs. split; [exact Hs | exact Hfr].
  - (* node *)
    destruct IH as [IH1 IH2]. split; [constructor; [discriminate | exact IH1]|].
    intros fss HF. inversion HF as [|? fs0 ? fss' Hc HF']; subst. cbn [comp] in Hc. injection Hc as <-.
    destruct (IH2 fss' HF') as [subs [Hs Hfr]]. exists subs. split; [exact Hs | exact Hfr].
Qed.

Lemma Forall2_map_ok : forall (A B : Type) (F : A -> S.sres B) l ys,
  Forall2 (fun x y => x = S.SOk y) (map F l) ys -> Forall2 (fun e y => F e = S.SOk y) l ys.
Proof.
  intros A B F l. induction l as [|x l IH]; intros ys H; inversion H; subst; constructor; auto.
Qed.

Theorem sim_all : forall k, sim_at k.
Proof.
  intro k. induction k as [k IHk] using lt_wf_ind.
  intros nm Hcm f vis Hvis t Hfind Hns.
  destruct (proj2 Hlib _ _ Hcm) as (t0 & c & l & cm' & Hfind0 & Hnth & Hlay & _ & Hpre & Hrel).
  rewrite Hfind in Hfind0. injection Hfind0 as <-.
  destruct (find_struct_name _ _ _ Hfind) as [Hname _].
  destruct f as [|f]; [exfalso; apply Hns; reflexivity|].
  rewrite flatten_struct_S in *.
  destruct (existsb (zlist_eqb (G.s_name t)) vis) eqn:Evis.
  { exfalso. apply existsb_exists in Evis. destruct Evis as [v [Hv Hveq]]. apply zlist_eqb_eq in Hveq. subst v.
    destruct (Hvis _ Hv) as [kv [Hkv Hlt]]. rewrite Hname, Hcm in Hkv. injection Hkv as <-. lia. }
  assert (Hvis' : forall v, In v (G.s_name t :: vis) -> exists kv, cm_get cm v = Some kv /\ (k <= kv)%nat).
  { intros v [<- | Hv]; [exists k; rewrite Hname; split; [exact Hcm | lia] |].
    destruct (Hvis v Hv) as [kv [A B]]. exists kv. split; [exact A | lia]. }
  destruct (items_sim k f (G.s_name t :: vis) cm' _ _ _ IHk Hpre Hvis' Hrel) as [Hne Hok].
  assert (Hne' : Forall (fun x => x <> S.SErr) (map (comp g f (G.s_name t :: vis)) (G.s_elems t))).
  { apply Forall_forall. intros x Hx. apply in_map_iff in Hx. destruct Hx as [e [<- He]].
    rewrite Forall_forall in Hne. apply Hne. exact He. }
  destruct (sres_cases _ _ (sconcat_not_err _ _ Hne') Hns) as [fs Hfs].
  destruct (sconcat_ok _ _ _ Hfs) as [fss [HF ->]].
  destruct (Hok fss (Forall2_map_ok _ _ _ _ _ HF)) as [subs [Hs Hfr]].
  exists (List.concat fss), (lay_elems l ++ subs). split; [exact Hfs|]. split; [|exact Hfr].
  intros fuel Hfuel. destruct fuel as [|fuel]; [lia|]. rewrite rflat_S, Hnth, Hlay, (Hs fuel) by lia. reflexivity.
Qed.
End Sim.


(* ---- p9.v ---- *)
Module DS := Order.DepOrderSpec.
Module DP := Order.DepOrderFixed_proofs.

(** every struct index is in the order the orderer returns *)
Lemma gds_order_complete : forall structs order i,
  gds_order structs = D.Ok order -> (i < List.length structs)%nat -> In (N.of_nat i) order.
Proof.
  intros structs order i H Hi. unfold gds_order in H.
  destruct (DP.order_checked_sound _ _ _ _ _ H) as [[_ [Hin _]] _].
  apply Hin. exists (N.of_nat i). split; [|apply DS.reach_refl].
  unfold gds_items. apply in_map. apply in_seq. lia.
Qed.

Lemma lib_inv_init : forall g ly0, ly_inv ly0 -> lib_inv g ly0 [] [].
Proof. intros g ly0 H. split; [exact H|]. intros nm k Hk. discriminate. Qed.

(** the importer's result, opened up *)
Lemma import_lib_inv : forall c ly0 g L,
  cfg_ok c -> ly_inv ly0 -> S.names_distinct g = true ->
  import_lib c ly0 g = IOk L ->
  exists cm, lib_inv g (lib_layers L) (lib_cells L) cm /\
             forall s, In s (G.l_structs g) -> cm_get cm (G.s_name s) <> None.
Proof.
  intros c ly0 g L Hc Hly Hnd H. unfold import_lib in H.
  destruct (import_units c (G.l_units g)) as [u| | |]; try discriminate. cbn [ibind] in H.
  destruct (gds_order (G.l_structs g)) as [order| | |] eqn:Eo; try discriminate.
  destruct (import_structs c (G.l_structs g) (mkist ly0 [] []) order) as [st| | |] eqn:Es; try discriminate.
  cbn [ibind] in H. injection H as <-. cbn [lib_layers lib_cells].
  destruct (import_structs_inv g c order (mkist ly0 [] []) st Hc) as [Hinv [_ Hall]]; [| apply lib_inv_init; exact Hly | exact Es |].
  - intros i s _ Hn. apply find_struct_self; [exact Hnd | eapply nth_error_In; exact Hn].
  - exists (is_map st). split; [exact Hinv|]. intros s Hs.
    destruct (In_nth_error _ _ Hs) as [i Hi].
    assert (Hlt : (i < List.length (G.l_structs g))%nat) by (apply nth_error_Some; congruence).
    destruct (Hall (N.of_nat i) (gds_order_complete _ _ _ Eo Hlt)) as [s' [Hn' Hget]].
    rewrite Nat2N.id, Hi in Hn'. injection Hn' as <-. exact Hget.
Qed.

Lemma gds_flatten_unfold : forall g s,
  S.names_distinct g = true -> In s (G.l_structs g) ->
  S.gds_flatten g (G.s_name s) = S.flatten_struct (S (List.length (G.l_structs g))) g [] s.
Proof.
  intros g s Hnd Hs. unfold S.gds_flatten. rewrite Hnd. cbn [negb]. rewrite (find_struct_self g s Hnd Hs). reflexivity.
Qed.

(** * The main theorem, for every importer variant with the six repairs and every layer table
    whose purposes are the importer's own *)
Theorem import_flatten_gen : forall c ly0 g L,
  cfg_ok c -> ly_inv ly0 -> S.names_distinct g = true ->
  import_lib c ly0 g = IOk L ->
  forall s, In s (G.l_structs g) -> S.gds_flatten g (G.s_name s) <> S.SSilent ->
  exists k cl l fs es,
    nth_error (lib_cells L) k = Some cl /\ c_name cl = str_of_bytes (G.s_name s) /\ c_layout cl = Some l /\
    S.gds_flatten g (G.s_name s) = S.SOk fs /\ raw_flatten L k = T.Ok es /\ S.flat_equiv (lib_layers L) es fs.
Proof.
  intros c ly0 g L Hc Hly Hnd H s Hs Hns.
  destruct (import_lib_inv c ly0 g L Hc Hly Hnd H) as [cm [Hinv Hall]].
  destruct (cm_get cm (G.s_name s)) as [k|] eqn:Ek; [|exfalso; exact (Hall s Hs Ek)].
  destruct (proj2 Hinv _ _ Ek) as (t & cl & l & cm' & Hfind & Hnth & Hlay & Hname & _ & _).
  rewrite (gds_flatten_unfold g s Hnd Hs) in *.
  destruct (sim_all g (lib_layers L) (lib_cells L) cm Hinv k (G.s_name s) Ek (S (List.length (G.l_structs g))) []
                    (fun v Hv => match Hv with end) s (find_struct_self g s Hnd Hs) Hns) as [fs [es [Hfs [Hrf Hrel]]]].
  exists k, cl, l, fs, es. split; [exact Hnth|]. split; [exact Hname|]. split; [exact Hlay|]. split; [exact Hfs|].
  split; [|apply flat_rel_equiv; exact Hrel].
  apply rflat_raw_flatten. apply Hrf. apply le_n_S. apply Nat.lt_le_incl. apply nth_error_Some. congruence.
Qed.

(** an imported library is never the image of a malformed GDSII library *)
Theorem import_ok_not_malformed : forall c ly0 g L,
  cfg_ok c -> ly_inv ly0 -> import_lib c ly0 g = IOk L -> ~ S.malformed g.
Proof.
  intros c ly0 g L Hc Hly H Hm. unfold S.malformed, S.malformedb in Hm.
  apply andb_prop in Hm. destruct Hm as [Hnd Hex]. apply existsb_exists in Hex. destruct Hex as [s [Hs He]].
  destruct (import_flatten_gen c ly0 g L Hc Hly Hnd H s Hs) as (k & cl & l & fs & es & _ & _ & _ & Hfs & _).
  - intro Hsil. rewrite Hsil in He. discriminate.
  - rewrite Hfs in He. discriminate.
Qed.

Lemma cfg_fixed_ok : cfg_ok cfg_fixed.
Proof. repeat split. Qed.

Lemma right_angle_facts : forall g, S.right_angle g ->
  S.names_distinct g = true /\ forall s, In s (G.l_structs g) -> S.gds_flatten g (G.s_name s) <> S.SSilent.
Proof.
  intros g H. unfold S.right_angle, S.silentb in H. apply orb_false_elim in H. destruct H as [H1 H2].
  apply negb_false_iff in H1. split; [exact H1|]. intros s Hs Hsil.
  assert (Hex : existsb (fun s0 => S.is_ssilent (S.gds_flatten g (G.s_name s0))) (G.l_structs g) = true).
  { apply existsb_exists. exists s. split; [exact Hs | rewrite Hsil; reflexivity]. }
  rewrite Hex in H2. discriminate.
Qed.

Theorem import_flatten_fixed : forall g L,
  import_lib cfg_fixed [] g = IOk L -> S.right_angle g ->
  forall s, In s (G.l_structs g) ->
  exists k cl l fs es,
    nth_error (lib_cells L) k = Some cl /\ c_name cl = str_of_bytes (G.s_name s) /\ c_layout cl = Some l /\
    S.gds_flatten g (G.s_name s) = S.SOk fs /\ raw_flatten L k = T.Ok es /\ S.flat_equiv (lib_layers L) es fs.
Proof.
  intros g L H Hra s Hs. destruct (right_angle_facts g Hra) as [Hnd Hns].
  exact (import_flatten_gen cfg_fixed [] g L cfg_fixed_ok (Forall_nil _) Hnd H s Hs (Hns s Hs)).
Qed.
