(** Lemmas for C06 about the importer model (Raw/RawGds.v) against the specification
    (Raw/RawGdsSpec.v). *)
From Coq Require Import ZArith List String Bool Lia.
From L21 Require Import Base.F64 Raw.RawData Raw.RawGds Raw.RawFlatten Raw.RawGdsSpec.
Import ListNotations.
Local Open Scope Z_scope.
