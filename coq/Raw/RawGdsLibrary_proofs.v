(** C07 -- the whole library: the structs the exporter writes (names, references), GdsDepOrder on
    them (succeeds on a nested hierarchy, by the C17 theorem about the repaired orderer), the
    importer's loop over the structs in that order, and the resulting [raw_equiv].
    Covers libraries whose cells all have layouts; abstract-only cells are not covered here. *)
From Coq Require Import ZArith NArith List String Bool Lia.
From L21 Require Import Base.Outcome Base.F64 Base.Hex Raw.RawData Raw.RawGdsExport Raw.RawGdsExportSpec Raw.RawGdsExport_proofs Raw.RawGdsRoundtrip_proofs Raw.RawGdsBridge_proofs.
From L21 Require Gds.GdsData Geom.Contains Geom.ContainsSpec Raw.RawGds Order.DepOrderSpec Order.DepOrder Order.DepOrderFixed Order.DepOrderFixed_proofs.
Import ListNotations.
Local Open Scope Z_scope.
Module DS := Order.DepOrderSpec.
(** * the structs of an exported library *)
Definition has_layout (c : cell) : bool := match c_layout c with Some _ => true | None => false end.
Definition all_layouts (L : library) : Prop := forallb has_layout (lib_cells L) = true.

Lemma export_cells_layouts cfg ly cells : forall todo ss,
  forallb has_layout todo = true -> export_cells cfg ly cells todo = Ok ss ->
  Forall2 (fun c s => exists l, c_layout c = Some l /\ export_layout cfg ly cells l = Ok s) todo ss.
Proof.
  induction todo as [|c r IH]; intros ss Hl H; cbn [export_cells] in H.
  - injection H as <-. constructor.
  - cbn [forallb] in Hl. apply andb_prop in Hl as [Hc Hr].
    obind_inv H. obind_inv H. injection H as <-.
    unfold export_cell in E. unfold has_layout in Hc. destruct (c_layout c) as [l|] eqn:El; [|discriminate].
    obind_inv E. injection E as <-. constructor; [exists l; split; [exact El|exact E1]|apply IH; [exact Hr|reflexivity]].
Qed.

(** references of a struct *)
Lemma export_shape_noref cfg s spec g : export_shape cfg s spec = Ok g ->
  match g with GdsData.ESref _ | GdsData.EAref _ => False | _ => True end.
Proof.
  destruct s as [p0 p1|ps|ps w]; cbn [export_shape]; intros H.
  - destruct (_ && _); [|discriminate]. injection H as <-. exact I.
  - obind_inv H. destruct ps; [discriminate|]. obind_inv H. injection H as <-. exact I.
  - obind_inv H. obind_inv H. destruct (i32_okb w); [|discriminate]. injection H as <-. exact I.
Qed.

Lemma export_element_norefs cfg ly e gl : export_element cfg ly e = Ok gl ->
  RG.struct_refs (GdsData.mkStruct [] zero_dates gl) = [].
Proof.
  unfold export_element. intros H. obind_inv H. obind_inv H. apply export_shape_noref in E0.
  destruct (e_net e).
  - obind_inv H. obind_inv H. injection H as <-. unfold export_shape_label in E2.
    obind_inv E2. obind_inv E2. obind_inv E2. injection E2 as <-.
    unfold RG.struct_refs. cbn [GdsData.s_elems flat_map]. destruct a0; try contradiction; reflexivity.
  - injection H as <-. unfold RG.struct_refs. cbn [GdsData.s_elems flat_map]. destruct a0; try contradiction; reflexivity.
Qed.

Lemma struct_refs_app n d a b :
  RG.struct_refs (GdsData.mkStruct n d (a ++ b)) = RG.struct_refs (GdsData.mkStruct n d a) ++ RG.struct_refs (GdsData.mkStruct n d b).
Proof. unfold RG.struct_refs. cbn [GdsData.s_elems]. apply flat_map_app. Qed.

Lemma export_layout_struct cfg ly cells l s :
  export_layout cfg ly cells l = Ok s ->
  GdsData.s_name s = bytes_of_string (lay_name l) /\
  exists tgt, Forall2 (fun i ci => nth_error cells (i_cell i) = Some ci) (lay_insts l) tgt /\
              RG.struct_refs s = map (fun ci => bytes_of_string (c_name ci)) tgt.
Proof.
  unfold export_layout. intros H. obind_inv H. obind_inv H. injection H as <-. split; [reflexivity|].
  apply all_res_inv in E. apply concat_res_inv in E0 as [gls [Hgl ->]].
  assert (Hno : RG.struct_refs (GdsData.mkStruct (bytes_of_string (lay_name l)) zero_dates (List.concat gls)) = []).
  { clear E. induction Hgl as [|e gl es gls He Hr IH]; [reflexivity|]. cbn [List.concat]. rewrite struct_refs_app, IH, app_nil_r.
    apply export_element_norefs in He. unfold RG.struct_refs in *. cbn [GdsData.s_elems] in *. exact He. }
  rewrite struct_refs_app, Hno, app_nil_r. clear Hno Hgl.
  induction E as [|i gi is gis Hi Hr IH].
  - exists []. split; [constructor|reflexivity].
  - destruct IH as [tgt [H1 H2]]. apply export_instance_inv in Hi as (ci & Hci & -> & _).
    exists (ci :: tgt). split; [constructor; assumption|].
    unfold RG.struct_refs in *. cbn [GdsData.s_elems flat_map map app] in *. rewrite H2. reflexivity.
Qed.

(** * names *)
Lemma zlist_eqb_eq a b : zlist_eqb a b = true <-> a = b.
Proof.
  revert b; induction a as [|x r IH]; intros [|y t]; cbn [zlist_eqb]; split; intros H; try reflexivity; try discriminate.
  - apply andb_prop in H as [H1 H2]. apply Z.eqb_eq in H1. apply IH in H2. subst. reflexivity.
  - injection H as -> ->. rewrite Z.eqb_refl. apply IH. reflexivity.
Qed.
Lemma bytes_inj a b : bytes_of_string a = bytes_of_string b -> a = b.
Proof. intros H. rewrite <- (bytes_str_roundtrip a), <- (bytes_str_roundtrip b), H. reflexivity. Qed.

Lemma name_index_from_none structs nm : forall k dflt,
  (forall s, In s structs -> zlist_eqb (GdsData.s_name s) nm = false) ->
  RG.name_index_from structs nm k dflt = dflt.
Proof.
  induction structs as [|s r IH]; intros k dflt H; cbn [RG.name_index_from]; [reflexivity|].
  rewrite (H s (or_introl eq_refl)). apply IH. intros s' Hs'. apply H. right. exact Hs'.
Qed.
Lemma name_index_from_unique nm : forall structs t k dflt s,
  nth_error structs t = Some s -> zlist_eqb (GdsData.s_name s) nm = true ->
  (forall j s', nth_error structs j = Some s' -> j <> t -> zlist_eqb (GdsData.s_name s') nm = false) ->
  RG.name_index_from structs nm k dflt = (k + N.of_nat t)%N.
Proof.
  induction structs as [|s0 r IH]; intros t k dflt s Ht Hm Hu; [destruct t; discriminate|].
  cbn [RG.name_index_from]. destruct t as [|t]; cbn [nth_error] in Ht.
  - injection Ht as ->. rewrite Hm. rewrite name_index_from_none; [lia|].
    intros s' Hs'. apply In_nth_error in Hs' as [j Hj]. apply (Hu (S j) s'); [exact Hj|discriminate].
  - rewrite (Hu 0%nat s0 eq_refl); [|discriminate].
    rewrite (IH t (N.succ k) dflt s Ht Hm); [lia|].
    intros j s' Hj Hne. apply (Hu (S j) s'); [exact Hj|congruence].
Qed.

Lemma Forall2_len {A B} (R : A -> B -> Prop) l l' : Forall2 R l l' -> List.length l = List.length l'.
Proof. induction 1; cbn; [reflexivity|f_equal; assumption]. Qed.

Lemma Forall2_nth {A B} (R : A -> B -> Prop) l l' k x : Forall2 R l l' -> nth_error l k = Some x ->
  exists y, nth_error l' k = Some y /\ R x y.
Proof.
  intros H. revert k. induction H as [|a b l l' Hab Hr IH]; intros k Hk; [destruct k; discriminate|].
  destruct k as [|k]; cbn [nth_error] in *; [injection Hk as <-; exists b; split; [reflexivity|exact Hab]|apply IH; exact Hk].
Qed.

(** * a library whose cells all have layouts carrying the cell's name *)
Section Lib.
  Variable ly : layers.
  Variable cells : list cell.
  Variable structs : list GdsData.gstruct.
  Hypothesis Hstructs : Forall2 (fun c s => exists l, c_layout c = Some l /\ lay_name l = c_name c /\
                                                    export_layout xcfg_fixed ly cells l = Ok s) cells structs.
  Hypothesis Hnodup : string_nodupb (map c_name cells) = true.

  Lemma structs_length : List.length structs = List.length cells.
  Proof. symmetry. exact (Forall2_len _ _ _ Hstructs). Qed.

  Lemma struct_of k c : nth_error cells k = Some c ->
    exists s l, nth_error structs k = Some s /\ c_layout c = Some l /\ lay_name l = c_name c /\
                export_layout xcfg_fixed ly cells l = Ok s /\ GdsData.s_name s = bytes_of_string (c_name c).
  Proof.
    intros Hk. destruct (Forall2_nth _ _ _ _ _ Hstructs Hk) as [s [Hs (l & H1 & H2 & H3)]].
    exists s, l. repeat split; try assumption.
    destruct (export_layout_struct _ _ _ _ _ H3) as [Hn _]. rewrite Hn, H2. reflexivity.
  Qed.

  Lemma nodup_names : forall (l : list cell) j k cj ck, string_nodupb (map c_name l) = true ->
    nth_error l j = Some cj -> nth_error l k = Some ck -> c_name cj = c_name ck -> j = k.
  Proof.
    induction l as [|c r IH]; intros j k cj ck Hn Hj Hk He; [destruct j; discriminate|].
    cbn [map string_nodupb] in Hn. apply andb_prop in Hn as [Hn1 Hn2]. apply negb_true_iff in Hn1.
    assert (Hnot : forall i ci, nth_error r i = Some ci -> c_name ci <> c_name c).
    { intros i ci Hi Hc. assert (Hx : existsb (String.eqb (c_name c)) (map c_name r) = true).
      { apply existsb_exists. exists (c_name ci). split; [apply in_map; eapply nth_error_In; exact Hi|]. apply String.eqb_eq. symmetry. exact Hc. }
      rewrite Hx in Hn1. discriminate. }
    destruct j as [|j], k as [|k]; cbn [nth_error] in *.
    - reflexivity.
    - injection Hj as <-. exfalso. apply (Hnot k ck Hk). symmetry. exact He.
    - injection Hk as <-. exfalso. apply (Hnot j cj Hj). exact He.
    - f_equal. eapply IH; eassumption.
  Qed.

  Lemma name_index_cell k c : nth_error cells k = Some c ->
    RG.name_index structs (bytes_of_string (c_name c)) = N.of_nat k.
  Proof.
    intros Hk. destruct (struct_of k c Hk) as (s & l & Hs & _ & _ & _ & Hn).
    unfold RG.name_index. rewrite (name_index_from_unique _ structs k 0%N _ s Hs); [lia| |].
    - rewrite Hn. apply zlist_eqb_eq. reflexivity.
    - intros j s' Hj Hne. apply not_true_is_false. intros Hm. apply zlist_eqb_eq in Hm.
      assert (Hjl : (j < List.length cells)%nat) by (rewrite <- structs_length; apply nth_error_Some; congruence).
      destruct (nth_error cells j) as [cj|] eqn:Hcj; [|apply nth_error_None in Hcj; lia].
      destruct (struct_of j cj Hcj) as (s'' & _ & Hs'' & _ & _ & _ & Hn''). rewrite Hj in Hs''. injection Hs'' as <-.
      rewrite Hn'' in Hm. apply bytes_inj in Hm. apply Hne. eapply nodup_names; eassumption.
  Qed.

  (** the dependency function of the exported library: the instance targets *)
  Definition cell_deps (k : nat) : list nat :=
    match nth_error cells k with
    | Some c => match c_layout c with Some l => map i_cell (lay_insts l) | None => [] end
    | None => []
    end.

  Lemma gds_deps_cells k : (k < List.length cells)%nat ->
    RG.gds_deps structs (N.of_nat k) = map N.of_nat (cell_deps k) /\
    Forall (fun t => (t < List.length cells)%nat) (cell_deps k).
  Proof.
    intros Hk. destruct (nth_error cells k) as [c|] eqn:Hc; [|apply nth_error_None in Hc; lia].
    destruct (struct_of k c Hc) as (s & l & Hs & Hl & _ & He & _).
    unfold RG.gds_deps, cell_deps. rewrite Nat2N.id, Hs, Hc, Hl.
    destruct (export_layout_struct _ _ _ _ _ He) as [_ [tgt [Ht Hr]]]. rewrite Hr. clear Hr He.
    induction Ht as [|i ci is tgt Hi Hr IH]; [split; [reflexivity|constructor]|].
    destruct IH as [IH1 IH2]. cbn [map]. split.
    - rewrite IH1, (name_index_cell _ _ Hi). reflexivity.
    - constructor; [apply nth_error_Some; congruence|exact IH2].
  Qed.
End Lib.

Section Order.
  Variable ly : layers.
  Variable cells : list cell.
  Variable structs : list GdsData.gstruct.
  Hypothesis Hstructs : Forall2 (fun c s => exists l, c_layout c = Some l /\ lay_name l = c_name c /\
                                                    export_layout xcfg_fixed ly cells l = Ok s) cells structs.
  Hypothesis Hnodup : string_nodupb (map c_name cells) = true.
  Hypothesis Hacyc : acyclicb cells = true.

  Let n := List.length cells.
  Let deps := RG.gds_deps structs.
  Let items := RG.gds_items structs.

  Lemma deps_of_cell k : (k < n)%nat -> deps (N.of_nat k) = map N.of_nat (cell_deps cells k) /\
                                        Forall (fun t => (t < n)%nat) (cell_deps cells k).
  Proof. intros Hk. exact (gds_deps_cells ly cells structs Hstructs Hnodup k Hk). Qed.

  Lemma reach_bound x y : DS.reach deps x y -> forall k, x = N.of_nat k -> (k < n)%nat ->
    exists k', y = N.of_nat k' /\ (k' < n)%nat.
  Proof.
    induction 1 as [x|x d y Hd Hr IH]; intros k -> Hk; [exists k; split; [reflexivity|exact Hk]|].
    destruct (deps_of_cell k Hk) as [Hdeps Hall]. rewrite Hdeps in Hd. apply in_map_iff in Hd as [t [<- Ht]].
    rewrite Forall_forall in Hall. apply (IH t eq_refl). apply Hall. exact Ht.
  Qed.

  Lemma items_spec x : In x items <-> exists k, x = N.of_nat k /\ (k < n)%nat.
  Proof.
    unfold items, RG.gds_items. rewrite (structs_length ly cells structs Hstructs). fold n. split.
    - intros H. apply in_map_iff in H as [k [<- Hk]]. apply in_seq in Hk. exists k. split; [reflexivity|lia].
    - intros [k [-> Hk]]. apply in_map. apply in_seq. lia.
  Qed.

  Lemma reachable_bound x : DS.reachable deps items x <-> exists k, x = N.of_nat k /\ (k < n)%nat.
  Proof.
    split.
    - intros [r [Hr Hreach]]. apply items_spec in Hr as [k [-> Hk]]. exact (reach_bound _ _ Hreach k eq_refl Hk).
    - intros H. exists x. split; [apply items_spec; exact H|constructor].
  Qed.

  (** depth_okb *)
  Lemma depth_step f k : depth_okb cells (S f) k = true -> forall t, In t (cell_deps cells k) -> depth_okb cells f t = true.
  Proof.
    cbn [depth_okb]. unfold cell_deps. destruct (nth_error cells k) as [c|]; [|discriminate].
    destruct (c_layout c) as [l|]; [|intros _ t []]. intros H t Ht. rewrite forallb_forall in H.
    apply in_map_iff in Ht as [i [<- Hi]]. apply H. exact Hi.
  Qed.
  Lemma depth_mono : forall f k, depth_okb cells f k = true -> depth_okb cells (S f) k = true.
  Proof.
    induction f as [|f IH]; intros k H; [discriminate|].
    cbn [depth_okb] in *. destruct (nth_error cells k) as [c|]; [|discriminate].
    destruct (c_layout c) as [l|]; [|reflexivity]. rewrite forallb_forall in *. intros i Hi. apply IH. apply H. exact Hi.
  Qed.
  Lemma reach_depth x y : DS.reach deps x y -> forall f k k', x = N.of_nat k -> y = N.of_nat k' -> (k < n)%nat ->
    depth_okb cells f k = true -> depth_okb cells f k' = true.
  Proof.
    induction 1 as [x|x d y Hd Hr IH]; intros f k k' -> Hy Hk Hf.
    - apply Nat2N.inj in Hy. subst. exact Hf.
    - destruct (deps_of_cell k Hk) as [Hdeps Hall]. rewrite Hdeps in Hd. apply in_map_iff in Hd as [t [<- Ht]].
      rewrite Forall_forall in Hall. destruct f as [|f]; [discriminate|].
      apply (IH (S f) t k' eq_refl Hy (Hall t Ht)). apply depth_mono. exact (depth_step f k Hf t Ht).
  Qed.
  Lemma no_cycle : forall f k, (k < n)%nat -> depth_okb cells f k = true -> ~ DS.reach_plus deps (N.of_nat k) (N.of_nat k).
  Proof.
    induction f as [|f IH]; intros k Hk Hf; [discriminate|].
    intros [d [Hd Hr]]. pose proof Hd as Hd0.
    destruct (deps_of_cell k Hk) as [Hdeps Hall]. rewrite Hdeps in Hd. apply in_map_iff in Hd as [t [<- Ht]].
    rewrite Forall_forall in Hall.
    assert (Hft : depth_okb cells f t = true) by exact (depth_step f k Hf t Ht).
    assert (Hfk : depth_okb cells f k = true) by exact (reach_depth _ _ Hr f t k eq_refl eq_refl (Hall t Ht) Hft).
    apply (IH k Hk Hfk). exists (N.of_nat t). split; [exact Hd0|exact Hr].
  Qed.

  Lemma not_cyclic : ~ DS.cyclic deps items.
  Proof.
    intros [x [Hx Hc]]. apply reachable_bound in Hx as [k [-> Hk]].
    unfold acyclicb in Hacyc. rewrite forallb_forall in Hacyc. specialize (Hacyc k). fold n in Hacyc.
    apply (no_cycle n k Hk); [apply Hacyc; apply in_seq; lia|exact Hc].
  Qed.
  Lemma not_dangling : ~ DS.dangling (RG.gds_defined structs) deps items.
  Proof.
    intros [x [d [Hx [Hd Hdef]]]]. apply reachable_bound in Hx as [k [-> Hk]].
    destruct (deps_of_cell k Hk) as [Hdeps Hall]. rewrite Hdeps in Hd. apply in_map_iff in Hd as [t [<- Ht]].
    rewrite Forall_forall in Hall. specialize (Hall t Ht).
    unfold RG.gds_defined in Hdef. rewrite (structs_length ly cells structs Hstructs) in Hdef. fold n in Hdef.
    apply N.ltb_ge in Hdef. lia.
  Qed.

  Lemma gds_order_ok : exists out, RG.gds_order structs = Order.DepOrder.Ok out /\ DS.topo_ok deps items out.
  Proof.
    unfold RG.gds_order.
    pose (nodes := map N.of_nat (seq 0 (S (List.length structs)))).
    assert (Hnodes : forall x, DS.reachable (RG.gds_deps structs) (RG.gds_items structs) x -> In x nodes).
    { intros x Hx. apply reachable_bound in Hx as [k [-> Hk]]. unfold nodes. apply in_map. apply in_seq.
      rewrite (structs_length ly cells structs Hstructs). fold n. lia. }
    pose proof (Order.DepOrderFixed_proofs.order_checked_total (RG.gds_defined structs) (RG.gds_deps structs) (RG.gds_items structs) nodes Hnodes) as Ht.
    cbv zeta in Ht. unfold nodes in Ht. rewrite map_length, seq_length in Ht.
    destruct Ht as [[[Hc|Hd] _]|(_ & _ & out & Hout & Htopo)].
    - exfalso. exact (not_cyclic Hc).
    - exfalso. exact (not_dangling Hd).
    - exists out. split; assumption.
  Qed.
End Order.

Lemma Forall2_impl {A B} (R R' : A -> B -> Prop) l l' : (forall a b, R a b -> R' a b) -> Forall2 R l l' -> Forall2 R' l l'.
Proof. intros H. induction 1; constructor; auto. Qed.

(** * importing the structs in dependency order *)
Section Import.
  Variable c : RG.cfg.
  Variable ly : layers.
  Variable cells : list cell.
  Variable structs : list GdsData.gstruct.
  Hypothesis Hstructs : Forall2 (fun c s => exists l, c_layout c = Some l /\ lay_name l = c_name c /\
                                                    export_layout xcfg_fixed ly cells l = Ok s) cells structs.
  Hypothesis Hnodup : string_nodupb (map c_name cells) = true.
  Hypothesis Hc : RG.fx_contains c = true.
  Hypothesis Hly : layers_okb ly = true.
  Hypothesis Helems : forall k c0 l, nth_error cells k = Some c0 -> c_layout c0 = Some l ->
                        forallb (elem_okb ly) (lay_elems l) = true.
  Hypothesis Hunamb : forall k c0 l, nth_error cells k = Some c0 -> c_layout c0 = Some l ->
                        exists ev, all_some (map (elem_view ly) (lay_elems l)) = Some ev /\
                                   unambiguous_view_gen in_region_shape_nz label_of ev.

  Let n := List.length cells.
  Definition cname (k : nat) : string := match nth_error cells k with Some c0 => c_name c0 | None => EmptyString end.

  Fixpoint mkmap (done : list nat) (pos : nat) : RG.cell_map :=
    match done with
    | [] => []
    | d :: r => (bytes_of_string (cname d), pos) :: mkmap r (S pos)
    end.
  Lemma mkmap_app done x pos : mkmap (done ++ [x]) pos = mkmap done pos ++ [(bytes_of_string (cname x), (pos + List.length done)%nat)].
  Proof.
    revert pos; induction done as [|d r IH]; intros pos; cbn [app mkmap List.length].
    - rewrite Nat.add_0_r. reflexivity.
    - rewrite IH. replace (S pos + Datatypes.length r)%nat with (pos + S (Datatypes.length r))%nat by lia. reflexivity.
  Qed.
  Lemma cm_get_app m k v x : RG.cm_get (m ++ [(k, v)]) x =
    match RG.cm_get m x with Some y => Some y | None => if zlist_eqb k x then Some v else None end.
  Proof. induction m as [|[k' v'] r IH]; cbn [app RG.cm_get]; [reflexivity|]. destruct (zlist_eqb k' x); [reflexivity|exact IH]. Qed.

  Lemma cname_inj j k : (j < n)%nat -> (k < n)%nat -> cname j = cname k -> j = k.
  Proof.
    intros Hj Hk He. unfold cname in He.
    destruct (nth_error cells j) as [cj|] eqn:Ej; [|apply nth_error_None in Ej; fold n in Ej; lia].
    destruct (nth_error cells k) as [ck|] eqn:Ek; [|apply nth_error_None in Ek; fold n in Ek; lia].
    eapply (nodup_names cells); eassumption.
  Qed.

  Lemma mkmap_get : forall done pos t, Forall (fun d => (d < n)%nat) done -> (t < n)%nat ->
    (forall idx, RG.cm_get (mkmap done pos) (bytes_of_string (cname t)) = Some idx ->
                 exists p, idx = (pos + p)%nat /\ nth_error done p = Some t) /\
    (In t done -> exists idx, RG.cm_get (mkmap done pos) (bytes_of_string (cname t)) = Some idx).
  Proof.
    induction done as [|d r IH]; intros pos t Hall Ht; cbn [mkmap RG.cm_get].
    - split; [discriminate|intros []].
    - inversion Hall as [|? ? Hd Hr]; subst. destruct (IH (S pos) t Hr Ht) as [IH1 IH2].
      destruct (zlist_eqb (bytes_of_string (cname d)) (bytes_of_string (cname t))) eqn:E.
      + apply zlist_eqb_eq in E. apply bytes_inj in E. apply (cname_inj d t Hd Ht) in E. subst d. split.
        * intros idx [= <-]. exists 0%nat. split; [lia|reflexivity].
        * intros _. eexists. reflexivity.
      + split.
        * intros idx Hi. destruct (IH1 idx Hi) as [p [-> Hp]]. exists (S p). split; [lia|exact Hp].
        * intros [->|Hin]; [rewrite (proj2 (zlist_eqb_eq _ _) eq_refl) in E; discriminate|exact (IH2 Hin)].
  Qed.
  Lemma mkmap_get_none : forall done pos t, Forall (fun d => (d < n)%nat) done -> (t < n)%nat -> ~ In t done ->
    RG.cm_get (mkmap done pos) (bytes_of_string (cname t)) = None.
  Proof.
    intros done pos t Hall Ht Hnin. destruct (RG.cm_get (mkmap done pos) (bytes_of_string (cname t))) as [idx|] eqn:E; [|reflexivity].
    exfalso. destruct (proj1 (mkmap_get done pos t Hall Ht) idx E) as [p [_ Hp]]. apply Hnin. eapply nth_error_In. exact Hp.
  Qed.

  (** what a cell of the source library comes back as, [cs] being the imported cells so far *)
  Definition inst_rel2 (cs : list cell) (i i' : instance) : Prop :=
    exists ci c'i, nth_error cells (i_cell i) = Some ci /\ nth_error cs (i_cell i') = Some c'i /\ c_name c'i = c_name ci /\
                   i' = mkinst EmptyString (i_cell i') (i_loc i) (i_reflect i) (i_angle i).
  Definition cell_rel (cs : list cell) (k : nat) (c' : cell) : Prop :=
    exists c0 l l', nth_error cells k = Some c0 /\ c_layout c0 = Some l /\ c' = mkcell (c_name c0) None (Some l') /\
                    lay_name l' = lay_name l /\ Forall2 (inst_rel2 cs) (lay_insts l) (lay_insts l') /\
                    Forall2 (elem_rel ly) (lay_elems l) (lay_elems l') /\ lay_annots l' = [].
  Lemma inst_rel2_mono cs x i i' : inst_rel2 cs i i' -> inst_rel2 (cs ++ x) i i'.
  Proof.
    intros (ci & c'i & H1 & H2 & H3 & H4). exists ci, c'i. repeat split; try assumption.
    rewrite nth_error_app1; [exact H2|apply nth_error_Some; congruence].
  Qed.
  Lemma cell_rel_mono cs x k c' : cell_rel cs k c' -> cell_rel (cs ++ x) k c'.
  Proof.
    intros (c0 & l & l' & H1 & H2 & H3 & H4 & H5 & H6 & H7). exists c0, l, l'. repeat split; try assumption.
    eapply Forall2_impl; [|exact H5]. intros a b. apply inst_rel2_mono.
  Qed.

  Definition Inv (done : list nat) (st : RG.istate) : Prop :=
    RG.is_layers st = ly /\ RG.is_map st = mkmap done 0 /\ Forall2 (cell_rel (RG.is_cells st)) done (RG.is_cells st).

  Lemma import_step done st i :
    Inv done st -> Forall (fun d => (d < n)%nat) done -> (i < n)%nat -> ~ In i done ->
    (forall t, In t (cell_deps cells i) -> In t done) ->
    exists s st', nth_error structs i = Some s /\ RG.import_and_add c st s = RG.IOk st' /\ Inv (done ++ [i]) st'.
  Proof.
    intros (Hl & Hm & Hcs) Hall Hi Hnin Hdeps.
    destruct (nth_error cells i) as [ci|] eqn:Eci; [|apply nth_error_None in Eci; fold n in Eci; lia].
    destruct (struct_of ly cells structs Hstructs i ci Eci) as (s & l & Hs & Hlay & Hname & Hexp & Hsn).
    exists s. unfold RG.import_and_add. rewrite Hm, Hsn.
    assert (Hcn : cname i = c_name ci) by (unfold cname; rewrite Eci; reflexivity).
    rewrite <- Hcn, (mkmap_get_none done 0 i Hall Hi Hnin), Hl.
    destruct (Hunamb i ci l Eci Hlay) as [ev [Hev Hun]].
    assert (Hcm : forall i0 ci0, In i0 (lay_insts l) -> nth_error cells (i_cell i0) = Some ci0 ->
                    exists idx, RG.cm_get (mkmap done 0) (bytes_of_string (c_name ci0)) = Some idx).
    { intros i0 ci0 Hi0 Hci0. assert (Ht : In (i_cell i0) done).
      { apply Hdeps. unfold cell_deps. rewrite Eci, Hlay. apply in_map. exact Hi0. }
      assert (Hlt : (i_cell i0 < n)%nat) by (apply nth_error_Some; congruence).
      destruct (proj2 (mkmap_get done 0 (i_cell i0) Hall Hlt) Ht) as [idx Hidx].
      exists idx. unfold cname in Hidx. rewrite Hci0 in Hidx. exact Hidx. }
    destruct (layout_roundtrip_spec c ly cells (mkmap done 0) l s ev Hc Hly Hexp (Helems i ci l Eci Hlay) Hcm Hev Hun)
      as (l' & Himp & Hn' & Hi' & He' & Ha').
    rewrite Himp. cbn [RG.ibind fst snd]. eexists. split; [exact Hs|]. split; [reflexivity|].
    assert (Hlen : List.length (RG.is_cells st) = List.length done) by (symmetry; exact (Forall2_len _ _ _ Hcs)).
    unfold Inv. cbn [RG.is_layers RG.is_map RG.is_cells]. split; [reflexivity|]. split.
    - rewrite mkmap_app. cbn [Nat.add]. rewrite Hlen. reflexivity.
    - apply Forall2_app.
      + eapply Forall2_impl; [|exact Hcs]. intros a b. apply cell_rel_mono.
      + constructor; [|constructor].
        exists ci, l, l'. rewrite bytes_str_roundtrip, Hcn. repeat split; try assumption.
        eapply Forall2_impl; [|exact Hi']. intros a b (ca & idx & H1 & H2 & ->).
        assert (Hlt : (i_cell a < n)%nat) by (apply nth_error_Some; congruence).
        assert (Hca : cname (i_cell a) = c_name ca) by (unfold cname; rewrite H1; reflexivity).
        rewrite <- Hca in H2. destruct (proj1 (mkmap_get done 0 (i_cell a) Hall Hlt) idx H2) as [p [-> Hp]]. cbn [Nat.add].
        destruct (Forall2_nth _ _ _ _ _ Hcs Hp) as [c'a [Hc'a (c0 & l0 & l0' & G1 & G2 & G3 & _)]].
        exists ca, c'a. cbn [i_cell]. repeat split; try assumption.
        * rewrite nth_error_app1; [exact Hc'a|apply nth_error_Some; congruence].
        * rewrite G3. cbn [c_name]. congruence.
  Qed.

  Lemma import_all : forall rest done st,
    Inv done st -> Forall (fun d => (d < n)%nat) (done ++ rest) -> NoDup (done ++ rest) ->
    (forall l1 x l2, rest = l1 ++ x :: l2 -> forall t, In t (cell_deps cells x) -> In t (done ++ l1)) ->
    exists st', RG.import_structs c structs st (map N.of_nat rest) = RG.IOk st' /\ Inv (done ++ rest) st'.
  Proof.
    induction rest as [|i r IH]; intros done st HI Hall Hnd Hdeps.
    - exists st. rewrite app_nil_r. split; [reflexivity|exact HI].
    - assert (Hall_done : Forall (fun d => (d < n)%nat) done) by (apply Forall_app in Hall; tauto).
      assert (Hi : (i < n)%nat). { apply Forall_app in Hall as [_ H]. inversion H; assumption. }
      assert (Hnin : ~ In i done). { intros Hin. apply NoDup_remove_2 in Hnd. apply Hnd. apply in_or_app. left. exact Hin. }
      assert (Hd : forall t, In t (cell_deps cells i) -> In t done).
      { intros t Ht. specialize (Hdeps [] i r eq_refl t Ht). rewrite app_nil_r in Hdeps. exact Hdeps. }
      destruct (import_step done st i HI Hall_done Hi Hnin Hd) as (s & st1 & Hs & Himp & HI1).
      cbn [map RG.import_structs]. rewrite Nat2N.id, Hs, Himp. cbn [RG.ibind].
      destruct (IH (done ++ [i]) st1 HI1) as [st' [H1 H2]].
      + rewrite <- app_assoc. exact Hall.
      + rewrite <- app_assoc. exact Hnd.
      + intros l1 x l2 Hr t Ht. rewrite <- app_assoc. apply (Hdeps (i :: l1) x l2); [cbn; rewrite Hr; reflexivity|exact Ht].
      + exists st'. split; [exact H1|]. rewrite <- app_assoc in H2. exact H2.
  Qed.
End Import.

Lemma import_units_export c u : RG.fx_pico c = true -> RG.import_units c (export_units u) = RG.IOk u.
Proof. intros H. unfold RG.import_units. rewrite H. destruct u; vm_compute; reflexivity. Qed.

Lemma exportable_parts L : exportable L ->
  layers_okb (lib_layers L) = true /\
  forallb (cell_okb (lib_layers L) (List.length (lib_cells L))) (lib_cells L) = true /\
  string_nodupb (map c_name (lib_cells L)) = true /\ acyclicb (lib_cells L) = true.
Proof.
  unfold exportable, exportableb. cbv zeta. intros H.
  apply andb_prop in H as [H H4]. apply andb_prop in H as [H H3]. apply andb_prop in H as [H1 H2]. repeat split; assumption.
Qed.

Lemma views_of_in L k c0 l ev : nth_error (lib_cells L) k = Some c0 -> c_layout c0 = Some l ->
  forallb (inst_okb (List.length (lib_cells L))) (lay_insts l) = true ->
  all_some (map (elem_view (lib_layers L)) (lay_elems l)) = Some ev -> In ev (views_of L).
Proof.
  intros Hk Hl Hi Hev. unfold views_of. apply in_flat_map. exists c0. split; [eapply nth_error_In; exact Hk|].
  unfold cell_view. rewrite Hl, Hev.
  destruct (all_some (map (inst_view (lib_cells L)) (lay_insts l))) as [iv|] eqn:Eiv; [left; reflexivity|exfalso].
  clear -Hi Eiv. induction (lay_insts l) as [|i r IH]; [discriminate|].
  cbn [forallb] in Hi. apply andb_prop in Hi as [H1 H2]. cbn [map all_some] in Eiv.
  unfold inst_view at 1 in Eiv. unfold inst_okb in H1. apply andb_prop in H1 as [H1 _]. apply Nat.ltb_lt in H1.
  destruct (nth_error (lib_cells L) (i_cell i)) eqn:E; [|apply nth_error_None in E; lia].
  destruct (all_some (map (inst_view (lib_cells L)) r)); [discriminate|]. apply IH; [exact H2|reflexivity].
Qed.

Lemma all_some_total {A B} (f : A -> option B) l : (forall x, In x l -> f x <> None) -> exists r, all_some (map f l) = Some r.
Proof.
  induction l as [|a t IH]; intros H; [exists []; reflexivity|]. cbn [map all_some].
  destruct (f a) as [b|] eqn:E; [|exfalso; exact (H a (or_introl eq_refl) E)].
  destruct IH as [r Hr]; [intros x Hx; apply H; right; exact Hx|]. rewrite Hr. eexists. reflexivity.
Qed.

Lemma all_some_rel {A B C} (f : A -> option C) (g : B -> option C) (R : A -> B -> Prop) l l' :
  (forall a b, R a b -> f a = g b) -> Forall2 R l l' -> all_some (map f l) = all_some (map g l').
Proof.
  intros H. induction 1 as [|a b l l' Hab Hr IH]; [reflexivity|]. cbn [map all_some]. rewrite (H a b Hab), IH. reflexivity.
Qed.
Lemma all_some_rel2 {A B C D} (f : A -> option C) (g : B -> option D) (R : A -> B -> Prop) (Q : C -> D -> Prop) l l' r :
  (forall a b x, R a b -> f a = Some x -> exists y, g b = Some y /\ Q x y) ->
  Forall2 R l l' -> all_some (map f l) = Some r -> exists r', all_some (map g l') = Some r' /\ Forall2 Q r r'.
Proof.
  intros H HF. revert r. induction HF as [|a b l l' Hab Hr IH]; intros r Hs.
  - injection Hs as <-. exists []. split; [reflexivity|constructor].
  - cbn [map all_some] in *. destruct (f a) as [x|] eqn:Fa; [|discriminate].
    destruct (all_some (map f l)) as [xs|] eqn:E; [|discriminate]. injection Hs as <-.
    destruct (H a b x Hab Fa) as [y [Gy Qxy]]. destruct (IH xs eq_refl) as [r' [H1 H2]].
    rewrite Gy, H1. exists (y :: r'). split; [reflexivity|constructor; assumption].
Qed.

Lemma structs_named cfg ly cells n : forall todo ss,
  Forall (fun c0 => cell_okb ly n c0 = true) todo ->
  Forall2 (fun c0 s => exists l, c_layout c0 = Some l /\ export_layout cfg ly cells l = Ok s) todo ss ->
  Forall2 (fun c0 s => exists l, c_layout c0 = Some l /\ lay_name l = c_name c0 /\ export_layout cfg ly cells l = Ok s) todo ss.
Proof.
  intros todo ss Hok HF. induction HF as [|c0 s cs ss0 (l & H1 & H2) Hr IH]; [constructor|].
  inversion Hok as [|? ? Hc0 Hcs]; subst. constructor; [|apply IH; exact Hcs].
  exists l. split; [exact H1|]. split; [|exact H2]. unfold cell_okb in Hc0. rewrite H1 in Hc0. unfold layout_okb in Hc0.
  apply andb_prop in Hc0 as [Hc0 _]. apply andb_prop in Hc0 as [Hc0 _]. apply String.eqb_eq. exact Hc0.
Qed.

Theorem roundtrip_layouts c L g :
  RG.fx_contains c = true -> RG.fx_pico c = true ->
  exportable L -> all_layouts L -> labels_unambiguous_nz_at label_of L ->
  export_lib L = Ok g ->
  exists L', RG.import_lib c (lib_layers L) g = RG.IOk L' /\ raw_equiv L L'.
Proof.
  intros Hc Hpico Hex Hall Hun Hexp.
  destruct (exportable_parts L Hex) as (Hly & Hcells & Hnd & Hac).
  set (ly := lib_layers L) in *. set (cells := lib_cells L) in *. set (n := List.length cells) in *.
  unfold export_lib, export_lib_gen in Hexp. fold ly cells in Hexp. obind_inv Hexp. injection Hexp as <-. rename a into structs.
  (* the structs *)
  assert (Hstructs : Forall2 (fun c0 s => exists l, c_layout c0 = Some l /\ lay_name l = c_name c0 /\
                                                   export_layout xcfg_fixed ly cells l = Ok s) cells structs).
  { apply (structs_named xcfg_fixed ly cells n cells structs).
    - apply Forall_forall. apply forallb_forall. exact Hcells.
    - exact (export_cells_layouts xcfg_fixed ly cells cells structs Hall E). }
  (* per-cell facts *)
  assert (Hcell : forall k c0 l, nth_error cells k = Some c0 -> c_layout c0 = Some l ->
            forallb (inst_okb n) (lay_insts l) = true /\ forallb (elem_okb ly) (lay_elems l) = true).
  { intros k c0 l Hk Hl. rewrite forallb_forall in Hcells. specialize (Hcells c0 (nth_error_In _ _ Hk)).
    unfold cell_okb in Hcells. rewrite Hl in Hcells. unfold layout_okb in Hcells.
    apply andb_prop in Hcells as [H1 H3]. apply andb_prop in H1 as [_ H2]. split; assumption. }
  assert (Helems : forall k c0 l, nth_error cells k = Some c0 -> c_layout c0 = Some l -> forallb (elem_okb ly) (lay_elems l) = true)
    by (intros k c0 l Hk Hl; exact (proj2 (Hcell k c0 l Hk Hl))).
  assert (Hviews : forall k c0 l, nth_error cells k = Some c0 -> c_layout c0 = Some l ->
            exists ev, all_some (map (elem_view ly) (lay_elems l)) = Some ev /\ unambiguous_view_gen in_region_shape_nz label_of ev).
  { intros k c0 l Hk Hl. destruct (Hcell k c0 l Hk Hl) as [Hi He].
    destruct (all_some_total (elem_view ly) (lay_elems l)) as [ev Hev].
    { intros e Hin. rewrite forallb_forall in He. specialize (He e Hin). unfold elem_okb in He. apply andb_prop in He as [He _].
      unfold resolves in He. unfold elem_view. destruct (resolve_lp ly (e_layer e) (e_purpose e)) as [[? ?]|]; [discriminate|discriminate]. }
    exists ev. split; [exact Hev|]. unfold labels_unambiguous_nz_at in Hun. rewrite Forall_forall in Hun. apply Hun.
    exact (views_of_in L k c0 l ev Hk Hl Hi Hev). }
  (* the order *)
  destruct (gds_order_ok ly cells structs Hstructs Hnd Hac) as [out [Hout Htopo]].
  destruct Htopo as (Hnodup_out & Hin_out & Hbefore).
  set (outn := map N.to_nat out).
  assert (Hout_eq : out = map N.of_nat outn).
  { unfold outn. rewrite map_map. rewrite <- (map_id out) at 1. apply map_ext. intros x. rewrite N2Nat.id. reflexivity. }
  assert (Hlt : Forall (fun d => (d < n)%nat) outn).
  { apply Forall_forall. intros d Hd. unfold outn in Hd. apply in_map_iff in Hd as [x [<- Hx]].
    apply Hin_out in Hx. apply (reachable_bound ly cells structs Hstructs Hnd) in Hx as [k [-> Hk]]. rewrite Nat2N.id. exact Hk. }
  assert (Hnd_n : NoDup outn).
  { unfold outn. apply FinFun.Injective_map_NoDup; [|exact Hnodup_out]. intros x y Hxy. apply N2Nat.inj. exact Hxy. }
  assert (Hcover : forall k, (k < n)%nat -> In k outn).
  { intros k Hk. unfold outn. apply in_map_iff. exists (N.of_nat k). split; [apply Nat2N.id|].
    apply Hin_out. apply (reachable_bound ly cells structs Hstructs Hnd). exists k. split; [reflexivity|exact Hk]. }
  assert (Hdeps : forall l1 x l2, outn = l1 ++ x :: l2 -> forall t, In t (cell_deps cells x) -> In t ([] ++ l1)).
  { intros l1 x l2 Hsplit t Ht. cbn [app].
    assert (Hx : (x < n)%nat). { rewrite Forall_forall in Hlt. apply Hlt. rewrite Hsplit. apply in_or_app. right. left. reflexivity. }
    assert (Hsp : out = map N.of_nat l1 ++ N.of_nat x :: map N.of_nat l2) by (rewrite Hout_eq, Hsplit, map_app; reflexivity).
    destruct (gds_deps_cells ly cells structs Hstructs Hnd x Hx) as [Hd _].
    assert (Hin : In (N.of_nat t) (map N.of_nat l1)).
    { apply (Hbefore _ _ _ Hsp). rewrite Hd. apply in_map. exact Ht. }
    apply in_map_iff in Hin as [t' [Ht' Hin]]. apply Nat2N.inj in Ht'. subst t'. exact Hin. }
  destruct (import_all c ly cells structs Hstructs Hnd Hc Hly Helems Hviews outn [] (RG.mkist ly [] []))
    as [st' [Himp HInv]]; try assumption.
  { split; [reflexivity|]. split; [reflexivity|constructor]. }
  cbn [app] in HInv. destruct HInv as (Hl' & _ & Hcs).
  exists (mklib (RG.str_of_bytes (bytes_of_string (lib_name L))) (lib_units L) (RG.is_layers st') (RG.is_cells st')).
  split.
  - unfold RG.import_lib. cbn [GdsData.l_units GdsData.l_structs GdsData.l_name].
    rewrite (import_units_export c _ Hpico). cbn [RG.ibind]. rewrite Hout, Hout_eq, Himp. reflexivity.
  - unfold raw_equiv. cbn [lib_units lib_cells lib_layers]. split; [reflexivity|].
    assert (Hlen : List.length (RG.is_cells st') = n).
    { rewrite <- (Forall2_len _ _ _ Hcs). apply Nat.le_antisymm.
      - rewrite <- (seq_length n 0). apply NoDup_incl_length; [exact Hnd_n|]. intros d Hd. apply in_seq.
        rewrite Forall_forall in Hlt. specialize (Hlt d Hd). lia.
      - rewrite <- (seq_length n 0) at 1. apply NoDup_incl_length; [apply seq_NoDup|]. intros d Hd. apply in_seq in Hd. apply Hcover. lia. }
    split; [exact Hlen|].
    apply Forall_forall. intros c0 Hc0. apply In_nth_error in Hc0 as [k Hk]. change (lib_cells L) with cells in Hk.
    assert (Hkn : (k < n)%nat) by (apply nth_error_Some; congruence).
    destruct (In_nth_error _ _ (Hcover k Hkn)) as [pos Hpos].
    destruct (Forall2_nth _ _ _ _ _ Hcs Hpos) as [c' [Hc' (c1 & l & l' & G1 & G2 & G3 & G4 & G5 & G6 & G7)]].
    rewrite Hk in G1. injection G1 as <-.
    destruct (Hcell k c0 l Hk G2) as [Hinsts _].
    destruct (Hviews k c0 l Hk G2) as [ev [Hev _]].
    assert (Hiv : exists iv, all_some (map (inst_view cells) (lay_insts l)) = Some iv).
    { apply all_some_total. intros i Hi. rewrite forallb_forall in Hinsts. specialize (Hinsts i Hi). unfold inst_okb in Hinsts.
      apply andb_prop in Hinsts as [H1 _]. apply Nat.ltb_lt in H1. unfold inst_view.
      destruct (nth_error cells (i_cell i)) eqn:E1; [discriminate|apply nth_error_None in E1; fold n in E1; lia]. }
    destruct Hiv as [iv Hiv].
    assert (Hiv' : all_some (map (inst_view (RG.is_cells st')) (lay_insts l')) = Some iv).
    { rewrite <- Hiv. symmetry. eapply all_some_rel; [|exact G5]. intros a b (ca & c'a & H1 & H2 & H3 & ->).
      unfold inst_view. cbn [i_cell i_loc i_reflect i_angle]. rewrite H1, H2, H3. reflexivity. }
    destruct (all_some_rel2 (elem_view ly) (elem_view (RG.is_layers st')) (elem_rel ly) velem_equiv (lay_elems l) (lay_elems l') ev) as [ev' [Hev' Hequiv]]; [|exact G6|exact Hev|].
    { intros a b x (R1 & R2 & R3 & R4) Hx. rewrite Hl'. unfold elem_view in *. rewrite R3.
      destruct (resolve_lp ly (e_layer a) (e_purpose a)) as [[na xa]|]; [|discriminate]. injection Hx as <-.
      eexists. split; [reflexivity|]. unfold velem_equiv. cbn [v_lnum v_pnum v_shape v_net]. rewrite R1, R2.
      repeat split; try reflexivity. apply imp_shape_equiv. }
    exists c', l', iv, ev, ev'. split; [eapply nth_error_In; exact Hc'|].
    rewrite G3. cbn [c_name c_layout]. split; [reflexivity|]. split; [reflexivity|].
    split; [unfold cell_view; fold cells ly; rewrite G2, Hiv, Hev; reflexivity|].
    split; [unfold cell_view; cbn [c_layout lib_layers lib_cells]; rewrite Hiv', Hev'; reflexivity|exact Hequiv].
Qed.
