(** Reading of the generated converter kernels (Gen/KernelsRaw2Gen.v) at the level of the hand-written models
    Raw/RawLef.v (C16) and Raw/RawProto.v (C14):

    - [rc_xops]  outcomes [outcome unit] of Base/Outcome.v (the error VALUE is abstract in the generated code: the models'
                 error kinds / messages are compared through [ounit], which forgets them), integers = Z with the range
                 checks of a debug build (an arithmetic result outside its type is a [Panic], `T::try_from(x)?` outside
                 the target type an [Err], `as` wraps),

    the maps from the models' data to the generated records, and what stands for the operations of rust_decimal that
    `LefImporter::import_dist` calls (external to the generated definition).  No proofs in this file. *)
From Coq Require Import ZArith Bool List.
From L21 Require Import Base.KernelOps Base.KernelOpsX Base.Outcome Gen.KernelsRaw2Gen.
From L21 Require Geom.KernelsInst.
From L21 Require Raw.RawData Raw.RawLefDec Raw.RawLefTypes Raw.RawLef Raw.RawProto Gds.GdsData Raw.RawGds.
Import ListNotations.
Local Open Scope Z_scope.

Definition ou (A : Type) : Type := outcome unit A.
Definition ou_ret (A : Type) (a : A) : ou A := Ok a.
Definition ou_bind (A B : Type) (x : ou A) (f : A -> ou B) : ou B := obind x f.
Definition ou_pan (A : Type) : ou A := Panic.
Definition ou_err (A : Type) : ou A := Err tt.
(** forget the kind / message of an error *)
Definition ounit {E A : Type} (x : outcome E A) : ou A :=
  match x with Ok a => Ok a | Err _ => Err tt | Panic => Panic | OutOfFuel => OutOfFuel end.

Definition rc_chk (t : ity) (z : Z) : ou Z := if ity_in t z then Ok z else Panic.
Definition rc_nof1 (x : unit) : ou unit := Panic.
Definition rc_nof2 (x y : unit) : ou unit := Panic.
Definition rc_get (A : Type) (l : list A) (i : Z) : ou A :=
  if i <? 0 then Panic else match nth_error l (Z.to_nat i) with Some x => Ok x | None => Panic end.
Definition rc_kops : kops ou unit Z :=
  {| k_ret := ou_ret; k_bind := ou_bind; k_panic := ou_pan;
     f_zero := tt; f_one := tt; f_lit := fun _ _ => tt;
     f_add := rc_nof2; f_sub := rc_nof2; f_mul := rc_nof2; f_div := rc_nof2; f_neg := rc_nof1;
     f_eq := fun _ _ => false; f_lt := fun _ _ => false; f_le := fun _ _ => false;
     KernelOps.f_round := rc_nof1; f_rem_euclid := rc_nof2;
     f_to_radians := rc_nof1; f_sin := rc_nof1; f_cos := rc_nof1;
     f_powi := fun _ _ => Panic;
     i_lit := fun z => z; i_minval := ity_min; i_maxval := ity_max;
     i_add := fun t a b => rc_chk t (a + b);
     i_sub := fun t a b => rc_chk t (a - b);
     i_mul := fun t a b => rc_chk t (a * b);
     i_div := fun t a b => if b =? 0 then Panic else rc_chk t (Z.quot a b);
     i_rem := fun t a b => if b =? 0 then Panic else rc_chk t (Z.rem a b);
     i_neg := fun t a => rc_chk t (- a);
     i_and := fun t a b => rc_chk t (Z.land a b);
     i_or := fun t a b => rc_chk t (Z.lor a b);
     i_shl := fun _ _ _ => Panic; i_shr := fun _ _ _ => Panic;
     i_min := Z.min; i_max := Z.max; i_eq := Z.eqb; i_lt := Z.ltb; i_le := Z.leb;
     i_cast := fun _ t z => Ok (if ity_in t z then z else KernelsInst.ity_wrap t z);
     i_try_from := fun _ t z => if ity_in t z then Ok z else Panic;
     i_to_f := fun _ _ => Panic; f_to_i := fun _ _ => Panic;
     v_len := fun A l => Z.of_nat (length l); v_get := rc_get;
     k_for := fun Rt St => for_Z ou_ret ou_bind |}.
Definition rc_xops : kxops ou unit Z :=
  {| kx_base := rc_kops; k_fail := ou_err;
     k_unwrap := fun A x => match x with Err _ => Panic | y => y end;
     i_try_from_q := fun _ t z => if ity_in t z then Ok z else Err tt;
     v_set := fun A l i x =>
       if (i <? 0) || (Z.of_nat (length l) <=? i) then Panic else Ok (k_list_set l (Z.to_nat i) x);
     v_insert := fun A l i x =>
       if (i <? 0) || (Z.of_nat (length l) <? i) then Panic else Ok (k_list_insert l (Z.to_nat i) x) |}.

(** * LEF (Raw/RawLef.v) *)
Module L.
Import Raw.RawLefDec Raw.RawLefTypes Raw.RawLef.
(** rust_decimal, as far as `import_dist` uses it.  `*` is only modelled for the multiplier 10000 (the importer's
    `dist_scale`); `d.fract().is_zero()` is [dec_fract_is_zero d]. *)
Definition x_from (n : Z) : ou dec := Ok (dec_of_u32 n).
Definition x_mul (a b : dec) : ou dec :=
  if negb (dneg b) && (dmant b =? 10000) && Nat.eqb (dscale b) 0 then dec_mul_10000 a else Panic.
Definition x_fract (d : dec) : ou dec := Ok (mkdec (dneg d) (dmant d mod pow10 (dscale d)) (dscale d)).
Definition x_is_zero (d : dec) : ou bool := Ok (dec_is_zero d).
Definition x_trunc (d : dec) : ou dec := Ok (dec_trunc d).
Definition x_mantissa (d : dec) : ou Z := Ok (dec_mantissa d).
(** the importer after `import_units`: dist_scale = 10_000 *)
Definition Gimp : gLefImporter unit Z := mk_gLefImporter 10000.
Definition Glp (p : lpoint) : gLefPoint dec unit Z := mk_gLefPoint dec (lpx p) (lpy p).
Definition Gpt (p : Z * Z) : gPoint unit Z := mk_gPoint (fst p) (snd p).
Definition g_import_dist (d : dec) : ou Z :=
  g_LefImporter_import_dist rc_xops dec x_fract x_from x_is_zero x_mantissa x_mul x_trunc Gimp d.
Definition g_import_point (p : lpoint) : ou (gPoint unit Z) :=
  g_LefImporter_import_point rc_xops dec x_fract x_from x_is_zero x_mantissa x_mul x_trunc Gimp (Glp p).
End L.

(** * protobuf (Raw/RawProto.v) *)
Module PB.
Import Raw.RawData Raw.RawProto.
Definition Gpt (p : point) : gPoint unit Z := mk_gPoint (px p) (py p).
Definition Gpp (p : ppoint) : gproto__Point unit Z := mk_gproto__Point (ppx p) (ppy p).
(** the `net` string of a rectangle is not represented in the generated record *)
Definition Gprect (r : prect) : gproto__Rectangle unit Z :=
  mk_gproto__Rectangle (option_map Gpp (pr_ll r)) (pr_width r) (pr_height r).
Definition Gshape (s : shape) : gShape unit Z :=
  match s with
  | Rect p0 p1 => gShape_Rect (mk_gRect (Gpt p0) (Gpt p1))
  | Polygon pts => gShape_Polygon (mk_gPolygon (map Gpt pts))
  | Path pts w => gShape_Path (mk_gPath (map Gpt pts) w)
  end.
Definition pt_ok (p : point) : Prop := i64_okb (px p) = true /\ i64_okb (py p) = true.
Definition ppt_ok (p : ppoint) : Prop := i64_okb (ppx p) = true /\ i64_okb (ppy p) = true.
(** a rectangle message whose fields are values of `i64` *)
Definition prect_ok (r : prect) : Prop :=
  match pr_ll r with Some p => ppt_ok p | None => True end /\ i64_okb (pr_width r) = true /\ i64_okb (pr_height r) = true.
End PB.

(** * GDSII import (Raw/RawGds.v) *)
Module GI.
Import Raw.RawData.
Module G := Gds.GdsData.
Module R := Raw.RawGds.
(** [R.ires] with the error kind forgotten; [INoModel] (the model does not say) has no counterpart in the generated
    code and is sent to [OutOfFuel], which the generated code never produces *)
Definition iunit {A B : Type} (f : A -> B) (x : R.ires A) : ou B :=
  match x with R.IOk a => Ok (f a) | R.IErr _ => Err tt | R.IPanic => Panic | R.INoModel => OutOfFuel end.
Definition Gpt (p : point) : gPoint unit Z := mk_gPoint (px p) (py p).
Definition Ggp (q : G.point) : gGdsPoint unit Z := mk_gGdsPoint (G.px q) (G.py q).
Definition Gbnd (x : G.boundary) : gGdsBoundary unit Z := mk_gGdsBoundary (map Ggp (G.b_xy x)).
Definition Gpurp (p : purpose) : gLayerPurpose unit Z :=
  match p with
  | Drawing => gLayerPurpose_Drawing | Pin => gLayerPurpose_Pin | Label => gLayerPurpose_Label
  | Obstruction => gLayerPurpose_Obstruction | Outline => gLayerPurpose_Outline
  | Named _ k => gLayerPurpose_Named kopaque_any k
  | Other k => gLayerPurpose_Other k
  end.
Definition Gshape (s : shape) : gShape unit Z :=
  match s with
  | Rect p0 p1 => gShape_Rect (mk_gRect (Gpt p0) (Gpt p1))
  | Polygon pts => gShape_Polygon (mk_gPolygon (map Gpt pts))
  | Path pts w => gShape_Path (mk_gPath (map Gpt pts) w)
  end.
(** the `net` of an element (a string) is not represented in the generated record; a LayerKey is its slot index *)
Definition Gelem (e : element) : gElement nat unit Z := mk_gElement nat (e_layer e) (Gpurp (e_purpose e)) (Gshape (e_shape e)).
(** what stands for the functions kept external: `import_point_vec` (map of `import_point`, which cannot fail from i32)
    and `import_element_layer` (Layers::get_or_insert on the element's layer and datatype; the updated layer table is
    the importer's state, which the generated definition does not carry) *)
Definition x_point_vec (_ : gGdsImporter unit Z) (l : list (gGdsPoint unit Z)) : ou (list (gPoint unit Z)) :=
  Ok (map (fun q => mk_gPoint (gGdsPoint_x q) (gGdsPoint_y q)) l).
Definition x_element_layer (ly : layers) (x : G.boundary) (_ : gGdsImporter unit Z) (_ : gGdsBoundary unit Z)
  : ou (nat * gLayerPurpose unit Z) :=
  let '(_, key, purp) := get_or_insert ly (G.b_layer x) (G.b_datatype x) in Ok (key, Gpurp purp).
Definition g_import_boundary (ly : layers) (x : G.boundary) : ou (gElement nat unit Z) :=
  g_GdsImporter_import_boundary rc_xops nat (x_element_layer ly x) x_point_vec mk_gGdsImporter (Gbnd x).
End GI.
